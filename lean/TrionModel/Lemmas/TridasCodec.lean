import TrionModel.Model.TridasCodec
import TrionModel.Lemmas.TridasRunFwd
import TrionModel.Lemmas.CodecWfAll
import TrionModel.Props.C01
/-! C20 with the decoder parameter instantiated by the codec model: the decoder hypothesis of `WellFormed` follows from
C02 (`dec_enc`) for canonically encoded entries, and the encodability hypotheses of the semantic round trip follow from
C03 (`dec_canon`, `decode_wf`). -/
namespace Trion.Tridas
open Trion

theorem map_toNat_toUInt8 : ∀ (l : List Nat), (∀ x ∈ l, x < 256) → (l.map (·.toUInt8)).map (·.toNat) = l
  | [], _ => rfl
  | x :: xs, h => by
    simp only [List.map_cons]
    rw [map_toNat_toUInt8 xs (fun y hy => h y (by simp [hy]))]
    have : (x.toUInt8).toNat = x := by
      have hx := h x (by simp)
      simp [Nat.toUInt8, UInt8.toNat_ofNat', Nat.mod_eq_of_lt hx]
    rw [this]

theorem toBytes_lt : ∀ (hws : List Nat), (∀ w ∈ hws, w < 65536) → ∀ x ∈ Codec.toBytes hws, x < 256
  | [], _, x, hx => by simp [Codec.toBytes] at hx
  | w :: ws, h, x, hx => by
    simp only [Codec.toBytes, List.mem_cons] at hx
    have hw := h w (by simp)
    rcases hx with rfl | rfl | hx
    · omega
    · omega
    · exact toBytes_lt ws (fun y hy => h y (by simp [hy])) x hx

theorem isBytes_map_toNat (l : List UInt8) : Codec.IsBytes (l.map (·.toNat)) := by
  intro x hx
  simp only [List.mem_map] at hx
  obtain ⟨u, _, rfl⟩ := hx
  have := u.toNat_lt
  omega

theorem codecDecoder_of_ok (bs : List UInt8) (r : Nat × Instr) (h : Codec.decode (bs.map (·.toNat)) = .ok r) :
    codecDecoder bs = some r := by
  unfold codecDecoder
  rw [h]

theorem ok_of_codecDecoder (bs : List UInt8) (r : Nat × Instr) (h : codecDecoder bs = some r) :
    Codec.decode (bs.map (·.toNat)) = .ok r := by
  unfold codecDecoder at h
  split at h
  · cases h; assumption
  · cases h

/-- C02 applied to the file: at a canonically encoded entry of a gap-free segmentation the REAL decoder returns that
entry's instruction and length -/
theorem codec_dec_of_entryOk {b : List UInt8} {es : List Entry} (hc : Chain es BASE (BASE + b.length))
    {e : Entry} (he : e ∈ es) (hok : EntryOk b e) :
    codecDecoder (b.drop (e.addr - BASE)) = some (e.after - e.addr, e.instr) := by
  obtain ⟨hws, henc, hwf, _, hbytes⟩ := hok
  obtain ⟨_, hb, _⟩ := chain_facts es _ _ hc
  have hbe := hb e he
  have hlt := (Codec.enc_len e.instr hws henc hwf).2.1
  have hsl : (slice b e).length = e.after - e.addr := by
    unfold slice
    rw [List.length_take, List.length_drop]
    omega
  have hlen : 2 * hws.length = e.after - e.addr := by
    rw [← hsl, ← hbytes, List.length_map, Asm.toBytes_length]
  have hsplit : b.drop (e.addr - BASE) = slice b e ++ (b.drop (e.addr - BASE)).drop (e.after - e.addr) := by
    unfold slice
    exact (List.take_append_drop _ _).symm
  apply codecDecoder_of_ok
  rw [hsplit, List.map_append, ← hbytes, map_toNat_toUInt8 _ (toBytes_lt hws hlt),
    Codec.dec_enc e.instr hws _ henc hwf, hlen]

/-- … hence the property's hypothesis w.r.t. the real decoder needs no decoder assumption for canonically encoded
files: a gap-free chain of canonically encoded entries with in-file targets on boundaries and everything reachable is
`WellFormed codecDecoder` -/
theorem wellFormed_codec {b : List UInt8} {es : List Entry}
    (small : BASE + b.length < two32) (nonempty : 0 < b.length) (hc : Chain es BASE (BASE + b.length))
    (hok : ∀ e ∈ es, EntryOk b e)
    (targets : ∀ e ∈ es, ∀ d, getBranch e.instr e.addr = some d → inFile b.length d → ∃ e' ∈ es, e'.addr = d)
    (reach : ∀ e ∈ es, Reach es b.length e.addr) : WellFormed codecDecoder b es :=
  WellFormed.of_chain small nonempty hc (fun e he => codec_dec_of_entryOk hc he (hok e he)) targets reach

/-- C03 applied to the file: whatever the REAL decoder returned is well-formed and re-encodable in its own length -/
theorem codec_entry_canon {b : List UInt8} {es : List Entry} (wf : WellFormed codecDecoder b es)
    {e : Entry} (he : e ∈ es) :
    ∃ hws, Codec.encode e.instr = .ok hws ∧ e.instr.wf ∧ 2 * hws.length = e.after - e.addr := by
  have hr := ok_of_codecDecoder _ _ (wf.dec e he)
  have hb := isBytes_map_toNat (b.drop (e.addr - BASE))
  obtain ⟨hws, h1, h2, _⟩ := Codec.dec_canon _ hb _ _ hr
  exact ⟨hws, h1, (Codec.decode_wf _ hb _ _ hr).1, h2⟩

end Trion.Tridas

namespace Trion.Tridas
open Trion Trion.Show Trion.Codec

/-- the property's side condition `targetInRange` is implied for an encodable instruction inside the file whose printed
label is its direct-branch target (no ADR / literal LDR) and whose target is not below `BASE` -/
theorem targetInRange_of_branch (i : Instr) (a : Nat) (hws : List Nat) (he : encode i = .ok hws)
    (ha : BASE ≤ a) (ha2 : a < 4294967296) (hpc : Show.targetOf i a = getBranch i a)
    (hin : ∀ d, getBranch i a = some d → BASE ≤ d) : targetInRange i a := by
  cases i
  case adr d off => simp [Show.targetOf, getBranch] at hpc
  case ldr d ad o =>
    cases o with
    | reg r => trivial
    | imm off =>
      simp only [targetInRange]
      intro h15
      simp [Show.targetOf, getBranch, h15] at hpc
  case b c off =>
    simp only [targetInRange, Front.pcOf]
    simp only [Show.targetOf, getBranch] at hpc
    have hb : ∃ d, getBranch (.b c off) a = some d ∧ d = wrap32 ((a : Int) + 4 + off) := by
      simp only [getBranch]
      split at hpc
      · split at hpc
        · exact ⟨_, by simp [*], rfl⟩
        · cases hpc
      · cases hpc
    obtain ⟨d, hd, hdw⟩ := hb
    have hge := hin d hd
    have hoff : -2048 ≤ off ∧ off ≤ 2046 := by
      encsplit he <;> omega
    unfold wrap32 at hdw
    unfold BASE at ha hge
    omega
  case bl off =>
    simp only [targetInRange, Front.pcOf]
    simp only [Show.targetOf, getBranch] at hpc
    have hb : ∃ d, getBranch (.bl off) a = some d ∧ d = wrap32 ((a : Int) + 4 + off) := by
      simp only [getBranch]
      split at hpc
      · split at hpc
        · exact ⟨_, by simp [*], rfl⟩
        · cases hpc
      · cases hpc
    obtain ⟨d, hd, hdw⟩ := hb
    have hge := hin d hd
    have hoff : -16777216 ≤ off ∧ off ≤ 16777215 := by
      encsplit he <;> omega
    unfold wrap32 at hdw
    unfold BASE at ha hge
    omega
  all_goals trivial

end Trion.Tridas
