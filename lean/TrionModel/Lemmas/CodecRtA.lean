import TrionModel.Lemmas.CodecTac
/-! Round trip `RT` of the 16-bit encoder arms (first half); generated pattern: operand bounds, then `rt16`. -/
namespace Trion.Codec
open Trion

theorem rt_adc (a b : Reg) : RT (.adc a b) := by
  have := a.isLt; have := b.isLt; rt16

theorem rt_and (a b : Reg) : RT (.and a b) := by
  have := a.isLt; have := b.isLt; rt16

theorem rt_bic (a b : Reg) : RT (.bic a b) := by
  have := a.isLt; have := b.isLt; rt16

theorem rt_cmn (a b : Reg) : RT (.cmn a b) := by
  have := a.isLt; have := b.isLt; rt16

theorem rt_eor (a b : Reg) : RT (.eor a b) := by
  have := a.isLt; have := b.isLt; rt16

theorem rt_ldrsb (a b c : Reg) : RT (.ldrsb a b c) := by
  have := a.isLt; have := b.isLt; have := c.isLt; rt16

theorem rt_ldrsh (a b c : Reg) : RT (.ldrsh a b c) := by
  have := a.isLt; have := b.isLt; have := c.isLt; rt16

theorem rt_ldr_imm (a b : Reg) (v : Int) : RT (.ldr a b (.imm v)) := by
  have := a.isLt; have := b.isLt; rt16

theorem rt_ldr_reg (a b c : Reg) : RT (.ldr a b (.reg c)) := by
  have := a.isLt; have := b.isLt; have := c.isLt; rt16

theorem rt_ldrb_imm (a b : Reg) (v : Int) : RT (.ldrb a b (.imm v)) := by
  have := a.isLt; have := b.isLt; rt16

theorem rt_ldrb_reg (a b c : Reg) : RT (.ldrb a b (.reg c)) := by
  have := a.isLt; have := b.isLt; have := c.isLt; rt16

theorem rt_ldrh_imm (a b : Reg) (v : Int) : RT (.ldrh a b (.imm v)) := by
  have := a.isLt; have := b.isLt; rt16

theorem rt_ldrh_reg (a b c : Reg) : RT (.ldrh a b (.reg c)) := by
  have := a.isLt; have := b.isLt; have := c.isLt; rt16

theorem rt_asr_imm (a b : Reg) (v : Int) : RT (.asr a b (.imm v)) := by
  have := a.isLt; have := b.isLt; rt16
  all_goals (split <;> fin_eq)

theorem rt_asr_reg (a b c : Reg) : RT (.asr a b (.reg c)) := by
  have := a.isLt; have := b.isLt; have := c.isLt; rt16

theorem rt_lsl_imm (a b : Reg) (v : Int) : RT (.lsl a b (.imm v)) := by
  have := a.isLt; have := b.isLt; rt16

theorem rt_lsl_reg (a b c : Reg) : RT (.lsl a b (.reg c)) := by
  have := a.isLt; have := b.isLt; have := c.isLt; rt16

theorem rt_lsr_imm (a b : Reg) (v : Int) : RT (.lsr a b (.imm v)) := by
  have := a.isLt; have := b.isLt; rt16
  all_goals (split <;> fin_eq)

theorem rt_lsr_reg (a b c : Reg) : RT (.lsr a b (.reg c)) := by
  have := a.isLt; have := b.isLt; have := c.isLt; rt16

theorem rt_add_imm (f : Bool) (a b : Reg) (v : Int) : RT (.add f a b (.imm v)) := by
  have := a.isLt; have := b.isLt; cases f <;> rt16

theorem rt_add_reg (f : Bool) (a b c : Reg) : RT (.add f a b (.reg c)) := by
  have := a.isLt; have := b.isLt; have := c.isLt; rcases (show a.val / 8 = 0 ∨ a.val / 8 = 1 by omega) with e | e <;> cases f <;> rt16

theorem rt_cmp_imm (a : Reg) (v : Int) : RT (.cmp a (.imm v)) := by
  have := a.isLt; rt16

theorem rt_cmp_reg (a c : Reg) : RT (.cmp a (.reg c)) := by
  have := a.isLt; have := c.isLt; rcases (show a.val / 8 = 0 ∨ a.val / 8 = 1 by omega) with e | e <;> rt16

theorem rt_adr (a : Reg) (v : Int) : RT (.adr a v) := by
  have := a.isLt; rt16

theorem rt_b (c : Cond) (v : Int) : RT (.b c v) := by
  have := c.isLt; rt16

theorem rt_bkpt (v : Int) : RT (.bkpt v) := by
  rt16

theorem rt_blx (a : Reg) : RT (.blx a) := by
  have := a.isLt; rt16

theorem rt_bx (a : Reg) : RT (.bx a) := by
  have := a.isLt; rt16

theorem rt_cps (e : Bool) : RT (.cps e) := by
  cases e <;> rt16

theorem rt_ldm (a : Reg) (m : RegSet) : RT (.ldm a m) := by
  have := a.isLt; have := m.isLt; rt16

end Trion.Codec
