import TrionModel.Lemmas.CodecWf
namespace Trion.Codec
theorem wfBlock2 : wfBlock 2 32 := by decide +kernel
end Trion.Codec
