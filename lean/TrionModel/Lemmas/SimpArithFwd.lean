import TrionModel.Lemmas.SimpDeferred
/-!
# `evaluate` keeps arithmetic arithmetic (forward direction), and what arithmetic over known names evaluates to

`arith Q a` (Lemmas/SimpRetry.lean): `a` is built from constants, identifiers outside `Q`, binary operators, `Negate`, `Not`.
Lemmas/SimpTaint.lean shows the BACKWARD direction (an arithmetic result had an arithmetic operand).  Here:

* `simplifyRaw_arith_fwd`, `evaluateE_arith_fwd`: the FORWARD direction — no rewrite introduces a leaf;
* `evaluateE_known`: arithmetic all of whose names have a value evaluates to a NUMBER or fails with an arithmetic OVERFLOW
  (`OverflowError`: add / sub / mul / negate / divide / modulo / shift, including division by zero) — nothing else.
-/
namespace Trion.Simp
open Trion

section
variable (Q : Bytes → Bool)

theorem arith_stripNeg_fwd (r : Arg) (s : Bool) (h : arith Q r = true) : arith Q (stripNeg s r).2.1 = true := by
  induction r using Arg.ind generalizing s with
  | neg n ih => simp only [stripNeg]; simp only [arith] at h; exact ih _ h
  | _ => simpa [stripNeg] using h

theorem arith_normAddSub_fwd {s : Bool} {r : Arg} {ch s' : Bool} {r' : Arg} (he : normAddSub s r = .ok (ch, s', r'))
    (h : arith Q r = true) : arith Q r' = true := by
  unfold normAddSub at he
  have hs := arith_stripNeg_fwd Q r s h
  cases hc : cval (stripNeg s r).2.1 with
  | none =>
    simp only [hc, Res.ok.injEq, Prod.mk.injEq] at he
    obtain ⟨_, _, rfl⟩ := he; exact hs
  | some v =>
    simp only [hc] at he
    by_cases hv : v < 0
    · simp only [hv, if_true] at he
      cases hn : checkedNeg v with
      | none => simp [hn] at he
      | some nv =>
        simp only [hn, Res.ok.injEq, Prod.mk.injEq] at he
        obtain ⟨_, _, rfl⟩ := he; rfl
    · simp only [hv, if_false, Res.ok.injEq, Prod.mk.injEq] at he
      obtain ⟨_, _, rfl⟩ := he; exact hs

theorem arith_neutralMain_fwd {op : BinOp} {l r : Arg} (hl : arith Q l = true) (hr : arith Q r = true) :
    arith Q (neutralMain op l r) = true := by
  unfold neutralMain
  repeat' split
  all_goals simp [arith, hl, hr]

theorem arith_neutralTail_fwd {ch : Bool} {op : BinOp} {l r : Arg} {c : Bool} {a' : Arg}
    (he : neutralTail ch op l r = .ok (c, a')) (hl : arith Q l = true) (hr : arith Q r = true) : arith Q a' = true := by
  unfold neutralTail at he
  split at he
  · cases he
  · split at he
    · cases he
    · simp only [Res.ok.injEq, Prod.mk.injEq] at he
      obtain ⟨_, rfl⟩ := he
      exact arith_neutralMain_fwd Q hl hr

theorem arith_neutralizeBin_fwd {op : BinOp} {l r : Arg} {c : Bool} {a' : Arg}
    (he : neutralizeBin op l r = .ok (c, a')) (hl : arith Q l = true) (hr : arith Q r = true) : arith Q a' = true := by
  simp only [neutralizeBin] at he
  split at he
  · cases hn : normAddSub (decide (op = .sub)) r with
    | ok p =>
      obtain ⟨ch, s', r'⟩ := p
      simp only [hn] at he
      exact arith_neutralTail_fwd Q he hl (arith_normAddSub_fwd Q hn hr)
    | err e => simp [hn] at he
    | panic => simp [hn] at he
  · exact arith_neutralTail_fwd Q he hl hr

theorem arith_neutralizeRaw_fwd_all : ∀ (a : Arg) (c : Bool) (a' : Arg), neutralizeRaw a = .ok (c, a') →
    arith Q a = true → arith Q a' = true := by
  apply Arg.negNegInd
  · intro a hnn c a' he h
    cases a with
    | bin op l r =>
      simp only [arith, Bool.and_eq_true] at h
      rcases neutralizeRaw_bin_cases op l r with h0 | ⟨x, y, rfl, rfl, rfl, h0⟩
      · rw [h0] at he; exact arith_neutralizeBin_fwd Q he h.1 h.2
      · rw [h0] at he
        obtain ⟨_, c', he'⟩ := swapped_ok he
        have hxy := h.2
        simp only [arith, Bool.and_eq_true] at hxy
        exact arith_neutralizeBin_fwd Q he' hxy.2 hxy.1
    | neg v =>
      rcases neutralizeRaw_neg_cases v with h0 | ⟨x, y, rfl, h0⟩ | ⟨w, rfl, _⟩
      · rw [h0] at he
        simp only [Res.ok.injEq, Prod.mk.injEq] at he
        obtain ⟨_, rfl⟩ := he; exact h
      · rw [h0] at he
        obtain ⟨_, c', he'⟩ := swapped_ok he
        simp only [arith, Bool.and_eq_true] at h
        exact arith_neutralizeBin_fwd Q he' h.2 h.1
      · exact absurd rfl (hnn w)
    | _ =>
      simp only [neutralizeRaw, Res.ok.injEq, Prod.mk.injEq] at he
      obtain ⟨_, rfl⟩ := he; exact h
  · intro w ih c a' he h
    rw [neutralizeRaw_neg_neg] at he
    obtain ⟨_, c', he'⟩ := swapped_ok he
    simp only [arith] at h
    exact ih c' a' he' h

theorem arith_neutralizeRaw_fwd {a : Arg} {c : Bool} {a' : Arg} (he : neutralizeRaw a = .ok (c, a'))
    (h : arith Q a = true) : arith Q a' = true := arith_neutralizeRaw_fwd_all Q a c a' he h

theorem arith_neutralize_fwd : ∀ a (c : Bool) (a' : Arg), neutralize a = .ok (c, a') → arith Q a = true →
    arith Q a' = true := by
  apply Arg.ind
  case const => intro v c a' he h; simp only [neutralize, Res.ok.injEq, Prod.mk.injEq] at he; obtain ⟨_, rfl⟩ := he; exact h
  case ident => intro v c a' he h; simp only [neutralize, Res.ok.injEq, Prod.mk.injEq] at he; obtain ⟨_, rfl⟩ := he; exact h
  case str => intro v c a' he h; simp [arith] at h
  case bin =>
    intro op l r ihl ihr c a' he h
    simp only [arith, Bool.and_eq_true] at h
    obtain ⟨c1, l', c2, r', c3, e1, e2, e3⟩ := neutralize_bin_ok he
    exact arith_neutralizeRaw_fwd Q e3 (by simp [arith, ihl _ _ e1 h.1, ihr _ _ e2 h.2])
  case neg =>
    intro v ih c a' he h
    simp only [arith] at h
    obtain ⟨c1, v', c3, e1, e3⟩ := neutralize_neg_ok he
    exact arith_neutralizeRaw_fwd Q e3 (by simp [arith, ih _ _ e1 h])
  case not =>
    intro v ih c a' he h
    simp only [arith] at h
    simp only [neutralize] at he
    cases h1 : neutralize v with
    | panic => simp [h1] at he
    | err e => simp [h1] at he
    | ok p =>
      obtain ⟨c1, v'⟩ := p
      simp only [h1, Res.ok.injEq, Prod.mk.injEq] at he
      obtain ⟨_, rfl⟩ := he
      simp only [arith]; exact ih _ _ h1 h
  case addr => intro v _ c a' he h; simp [arith] at h
  case seq => intro v c a' he h; simp [arith] at h
  case func => intro n v c a' he h; simp [arith] at h

theorem arith_setC_fwd (ty : BinOp) (n : Int) : ∀ a, arith Q a = true → arith Q (setC ty n a) = true := by
  apply Arg.ind
  case bin =>
    intro op l r ihl ihr h
    simp only [arith, Bool.and_eq_true] at h
    simp only [setC]
    repeat' split
    all_goals simp [arith, h.1, h.2, ihl h.1, ihr h.2]
  case neg =>
    intro a ih h
    simp only [arith] at h
    simp only [setC]
    split <;> simp [arith, h, ih h]
  all_goals (intros; simp_all [setC])

theorem arith_dropC_fwd (ty : BinOp) : ∀ a, arith Q a = true → arith Q (dropC ty a) = true := by
  apply Arg.ind
  case bin =>
    intro op l r ihl ihr h
    simp only [arith, Bool.and_eq_true] at h
    simp only [dropC]
    repeat' split
    all_goals simp [arith, h.1, h.2, ihl h.1, ihr h.2]
  case neg =>
    intro a ih h
    simp only [arith] at h
    simp only [dropC]
    split <;> simp [arith, h, ih h]
  all_goals (intros; simp_all [dropC])

theorem arith_mergeTree_fwd {op : BinOp} {l r : Arg} {c : Int} (hl : arith Q l = true) (hr : arith Q r = true) :
    arith Q (mergeTree op l r c) = true := by
  unfold mergeTree
  repeat' split
  all_goals simp [arith, hl, hr, arith_setC_fwd Q op c l hl, arith_dropC_fwd Q op r hr]

theorem arith_merge_fwd {op : BinOp} {l r : Arg} {c : Bool} {a' : Arg} (he : merge op l r = .ok (c, a'))
    (hl : arith Q l = true) (hr : arith Q r = true) : arith Q a' = true := by
  have hbin : arith Q (.bin op l r) = true := by simp [arith, hl, hr]
  unfold merge at he
  split at he
  · cases he
  · cases he
  · split at he
    · cases he
    · rename_i cc _
      cases hn : neutralize (mergeTree op l r cc) with
      | panic => simp [hn] at he
      | err e => simp [hn] at he
      | ok p =>
        obtain ⟨c1, x⟩ := p
        simp only [hn, Res.ok.injEq, Prod.mk.injEq] at he
        obtain ⟨_, rfl⟩ := he
        exact arith_neutralize_fwd Q _ _ _ hn (arith_mergeTree_fwd Q hl hr)
  · exact arith_neutralizeRaw_fwd Q he hbin

/-- `simplify_raw` introduces no leaf: an arithmetic node has an arithmetic result -/
theorem simplifyRaw_arith_fwd (a : Arg) (c : Bool) (a' : Arg) (he : simplifyRaw a = .ok (c, a'))
    (h : arith Q a = true) : arith Q a' = true := by
  cases a with
  | bin op l r =>
    have hlr := h
    simp only [arith, Bool.and_eq_true] at hlr
    simp only [simplifyRaw] at he
    split at he
    · cases he
    · split at he
      · cases he
      · split at he
        · split at he
          · simp only [Res.ok.injEq, Prod.mk.injEq] at he; obtain ⟨_, rfl⟩ := he; rfl
          · cases he
        · split at he
          · split at he
            · simp only [Res.ok.injEq, Prod.mk.injEq] at he
              obtain ⟨_, rfl⟩ := he; exact hlr.1
            · exact arith_neutralizeRaw_fwd Q he h
          · exact arith_neutralizeRaw_fwd Q he h
          · exact arith_neutralizeRaw_fwd Q he h
          · exact arith_merge_fwd Q he hlr.1 hlr.2
  | neg v =>
    cases v with
    | bin op x y =>
      cases op
      case sub =>
        rw [simplifyRaw_neg_sub] at he
        cases hn : neutralizeRaw (.bin .sub y x) with
        | panic => simp [hn] at he
        | err e => simp [hn] at he
        | ok p =>
          obtain ⟨c1, z⟩ := p
          simp only [hn, Res.ok.injEq, Prod.mk.injEq] at he
          obtain ⟨_, rfl⟩ := he
          simp only [arith, Bool.and_eq_true] at h
          exact arith_neutralizeRaw_fwd Q hn (by simp [arith, h.1, h.2])
      all_goals
        simp only [simplifyRaw, Res.ok.injEq, Prod.mk.injEq] at he
        obtain ⟨_, rfl⟩ := he; exact h
    | const k =>
      simp only [simplifyRaw] at he
      split at he
      · cases he
      · simp only [Res.ok.injEq, Prod.mk.injEq] at he; obtain ⟨_, rfl⟩ := he; rfl
    | str s => simp [arith] at h
    | addr s => simp [arith] at h
    | seq s => simp [arith] at h
    | func n s => simp [arith] at h
    | ident s => simp only [simplifyRaw, Res.ok.injEq, Prod.mk.injEq] at he; obtain ⟨_, rfl⟩ := he; exact h
    | neg s =>
      rw [simplifyRaw_neg_neg] at he
      cases hn : neutralizeRaw (.neg (.neg s)) with
      | panic => simp [hn] at he
      | err e => simp [hn] at he
      | ok p =>
        obtain ⟨c1, z⟩ := p
        simp only [hn, Res.ok.injEq, Prod.mk.injEq] at he
        obtain ⟨_, rfl⟩ := he
        exact arith_neutralizeRaw_fwd Q hn h
    | not s => simp only [simplifyRaw, Res.ok.injEq, Prod.mk.injEq] at he; obtain ⟨_, rfl⟩ := he; exact h
  | not v =>
    cases v with
    | const k => simp only [simplifyRaw, Res.ok.injEq, Prod.mk.injEq] at he; obtain ⟨_, rfl⟩ := he; rfl
    | str s => simp [arith] at h
    | addr s => simp [arith] at h
    | seq s => simp [arith] at h
    | func n s => simp [arith] at h
    | _ => simp only [simplifyRaw, Res.ok.injEq, Prod.mk.injEq] at he; obtain ⟨_, rfl⟩ := he; exact h
  | addr v => simp [arith] at h
  | str v => simp [arith] at h
  | seq v => simp [arith] at h
  | func n v => simp [arith] at h
  | const v => simp only [simplifyRaw, Res.ok.injEq, Prod.mk.injEq] at he; obtain ⟨_, rfl⟩ := he; exact h
  | ident v => simp only [simplifyRaw, Res.ok.injEq, Prod.mk.injEq] at he; obtain ⟨_, rfl⟩ := he; exact h

end

/-! ## `evaluate` -/

section
variable (Q : Bytes → Bool)

theorem afterRawE_arith_fwd {ev ev' : Ev} {x a' : Arg} (he : afterRawE ev x = .ok ev' a') (h : arith Q x = true) :
    arith Q a' = true := by
  obtain ⟨c, hs, _⟩ := afterRawE_ok he
  exact simplifyRaw_arith_fwd Q x c a' hs h

/-- forward: what `evaluate` leaves (on `Ok` and on `NoSuchVariable`) of an arithmetic operand is arithmetic -/
theorem evaluateE_arith_fwd (lk : Bytes → Lookup) (isReg : Bytes → Bool) : ∀ a, arith Q a = true →
    (∀ ev a', evaluateE lk isReg a = .ok ev a' → arith Q a' = true) ∧
    (∀ n a₁, evaluateE lk isReg a = .nosuch n a₁ → arith Q a₁ = true) := by
  apply Arg.ind
  case const => intro v _; exact ⟨fun ev a' h => by simp only [evaluateE, EvE.ok.injEq] at h; obtain ⟨_, rfl⟩ := h; rfl,
    fun n a₁ h => by simp [evaluateE] at h⟩
  case ident =>
    intro s hs
    refine ⟨fun ev a' h => ?_, fun n a₁ h => ?_⟩
    · simp only [evaluateE] at h
      split at h
      · simp only [EvE.ok.injEq] at h; obtain ⟨_, rfl⟩ := h; exact hs
      · cases hl : lk s with
        | notFound => rw [hl] at h; cases h
        | deferred => rw [hl] at h; simp only [EvE.ok.injEq] at h; obtain ⟨_, rfl⟩ := h; exact hs
        | found v => rw [hl] at h; simp only [EvE.ok.injEq] at h; obtain ⟨_, rfl⟩ := h; rfl
    · simp only [evaluateE] at h
      split at h
      · cases h
      · cases hl : lk s with
        | notFound => rw [hl] at h; simp only [EvE.nosuch.injEq] at h; obtain ⟨_, rfl⟩ := h; exact hs
        | deferred => rw [hl] at h; cases h
        | found v => rw [hl] at h; cases h
  case str => intro s h; simp [arith] at h
  case bin =>
    intro op l r ihl ihr h
    simp only [arith, Bool.and_eq_true] at h
    refine ⟨fun ev a' he => ?_, fun n a₁ he => ?_⟩
    · simp only [evaluateE] at he
      cases h1 : evaluateE lk isReg l with
      | ok e1 l' =>
        rw [h1] at he
        cases h2 : evaluateE lk isReg r with
        | ok e2 r' =>
          rw [h2] at he
          exact afterRawE_arith_fwd Q he (by simp [arith, (ihl h.1).1 _ _ h1, (ihr h.2).1 _ _ h2])
        | nosuch m r' => rw [h2] at he; cases he
        | err e t => rw [h2] at he; cases he
        | panic => rw [h2] at he; cases he
      | nosuch m l' => rw [h1] at he; cases he
      | err e t => rw [h1] at he; cases he
      | panic => rw [h1] at he; cases he
    · simp only [evaluateE] at he
      cases h1 : evaluateE lk isReg l with
      | ok e1 l' =>
        rw [h1] at he
        cases h2 : evaluateE lk isReg r with
        | ok e2 r' => rw [h2] at he; simp only [afterRawE] at he; split at he <;> cases he
        | nosuch m r₁ =>
          rw [h2] at he; cases he
          simp [arith, (ihl h.1).1 _ _ h1, (ihr h.2).2 _ _ h2]
        | err e t => rw [h2] at he; cases he
        | panic => rw [h2] at he; cases he
      | nosuch m l₁ =>
        rw [h1] at he; cases he
        simp [arith, (ihl h.1).2 _ _ h1, h.2]
      | err e t => rw [h1] at he; cases he
      | panic => rw [h1] at he; cases he
  case neg =>
    intro v ih h
    simp only [arith] at h
    refine ⟨fun ev a' he => ?_, fun n a₁ he => ?_⟩
    · simp only [evaluateE] at he
      cases h1 : evaluateE lk isReg v with
      | ok e1 v' => rw [h1] at he; exact afterRawE_arith_fwd Q he (by simp [arith, (ih h).1 _ _ h1])
      | nosuch m l' => rw [h1] at he; cases he
      | err e t => rw [h1] at he; cases he
      | panic => rw [h1] at he; cases he
    · simp only [evaluateE] at he
      cases h1 : evaluateE lk isReg v with
      | ok e1 v' => rw [h1] at he; simp only [afterRawE] at he; split at he <;> cases he
      | nosuch m v₁ => rw [h1] at he; cases he; simp [arith, (ih h).2 _ _ h1]
      | err e t => rw [h1] at he; cases he
      | panic => rw [h1] at he; cases he
  case not =>
    intro v ih h
    simp only [arith] at h
    refine ⟨fun ev a' he => ?_, fun n a₁ he => ?_⟩
    · simp only [evaluateE] at he
      cases h1 : evaluateE lk isReg v with
      | ok e1 v' => rw [h1] at he; exact afterRawE_arith_fwd Q he (by simp [arith, (ih h).1 _ _ h1])
      | nosuch m l' => rw [h1] at he; cases he
      | err e t => rw [h1] at he; cases he
      | panic => rw [h1] at he; cases he
    · simp only [evaluateE] at he
      cases h1 : evaluateE lk isReg v with
      | ok e1 v' => rw [h1] at he; simp only [afterRawE] at he; split at he <;> cases he
      | nosuch m v₁ => rw [h1] at he; cases he; simp [arith, (ih h).2 _ _ h1]
      | err e t => rw [h1] at he; cases he
      | panic => rw [h1] at he; cases he
  case addr => intro v _ h; simp [arith] at h
  case seq => intro v h; simp [arith] at h
  case func => intro n v h; simp [arith] at h

theorem leftBy_arith_fwd {lk₁ : Bytes → Lookup} {isReg : Bytes → Bool} {a a₁ : Arg} (h : LeftBy lk₁ isReg a a₁)
    (ha : arith Q a = true) : arith Q a₁ = true := by
  rcases h with ⟨ev, h⟩ | ⟨n, h⟩
  · exact (evaluateE_arith_fwd Q lk₁ isReg a ha).1 _ _ h
  · exact (evaluateE_arith_fwd Q lk₁ isReg a ha).2 _ _ h

/-- backward with an independent leaf predicate: names that the table of the attempt valued must be allowed by `Q` -/
theorem evaluateE_arith_bwd (lk : Bytes → Lookup) (isReg : Bytes → Bool)
    (hQ : ∀ s v, isReg s = false → lk s = .found v → Q s = false) : ∀ a,
    (∀ ev a', evaluateE lk isReg a = .ok ev a' → arith Q a' = true → arith Q a = true) ∧
    (∀ n a₁, evaluateE lk isReg a = .nosuch n a₁ → arith Q a₁ = true → arith Q a = true) := by
  apply Arg.ind
  case const => intro v; exact ⟨fun _ _ _ _ => rfl, fun _ _ _ _ => rfl⟩
  case ident =>
    intro s
    refine ⟨fun ev a' he h => ?_, fun n a₁ he h => ?_⟩
    · simp only [evaluateE] at he
      split at he
      · simp only [EvE.ok.injEq] at he; obtain ⟨_, rfl⟩ := he; exact h
      · rename_i hr
        cases hl : lk s with
        | notFound => rw [hl] at he; cases he
        | deferred => rw [hl] at he; simp only [EvE.ok.injEq] at he; obtain ⟨_, rfl⟩ := he; exact h
        | found v => simp [arith, hQ s v (by simpa using hr) hl]
    · simp only [evaluateE] at he
      split at he
      · cases he
      · cases hl : lk s with
        | notFound => rw [hl] at he; simp only [EvE.nosuch.injEq] at he; obtain ⟨_, rfl⟩ := he; exact h
        | deferred => rw [hl] at he; cases he
        | found v => rw [hl] at he; cases he
  case str =>
    intro s
    refine ⟨fun ev a' he h => ?_, fun n a₁ he _ => ?_⟩
    · simp only [evaluateE, EvE.ok.injEq] at he; obtain ⟨_, rfl⟩ := he; exact h
    · simp [evaluateE] at he
  case bin =>
    intro op l r ihl ihr
    refine ⟨fun ev a' he h => ?_, fun n a₁ he h => ?_⟩
    · simp only [evaluateE] at he
      cases h1 : evaluateE lk isReg l with
      | ok e1 l' =>
        rw [h1] at he
        cases h2 : evaluateE lk isReg r with
        | ok e2 r' =>
          rw [h2] at he
          have := afterRawE_arith Q he h
          simp only [arith, Bool.and_eq_true] at this ⊢
          exact ⟨ihl.1 _ _ h1 this.1, ihr.1 _ _ h2 this.2⟩
        | nosuch m r' => rw [h2] at he; cases he
        | err e t => rw [h2] at he; cases he
        | panic => rw [h2] at he; cases he
      | nosuch m l' => rw [h1] at he; cases he
      | err e t => rw [h1] at he; cases he
      | panic => rw [h1] at he; cases he
    · simp only [evaluateE] at he
      cases h1 : evaluateE lk isReg l with
      | ok e1 l' =>
        rw [h1] at he
        cases h2 : evaluateE lk isReg r with
        | ok e2 r' => rw [h2] at he; simp only [afterRawE] at he; split at he <;> cases he
        | nosuch m r₁ =>
          rw [h2] at he; cases he
          simp only [arith, Bool.and_eq_true] at h ⊢
          exact ⟨ihl.1 _ _ h1 h.1, ihr.2 _ _ h2 h.2⟩
        | err e t => rw [h2] at he; cases he
        | panic => rw [h2] at he; cases he
      | nosuch m l₁ =>
        rw [h1] at he; cases he
        simp only [arith, Bool.and_eq_true] at h ⊢
        exact ⟨ihl.2 _ _ h1 h.1, h.2⟩
      | err e t => rw [h1] at he; cases he
      | panic => rw [h1] at he; cases he
  case neg =>
    intro v ih
    refine ⟨fun ev a' he h => ?_, fun n a₁ he h => ?_⟩
    · simp only [evaluateE] at he
      cases h1 : evaluateE lk isReg v with
      | ok e1 v' =>
        rw [h1] at he
        have := afterRawE_arith Q he h
        simp only [arith] at this ⊢
        exact ih.1 _ _ h1 this
      | nosuch m l' => rw [h1] at he; cases he
      | err e t => rw [h1] at he; cases he
      | panic => rw [h1] at he; cases he
    · simp only [evaluateE] at he
      cases h1 : evaluateE lk isReg v with
      | ok e1 v' => rw [h1] at he; simp only [afterRawE] at he; split at he <;> cases he
      | nosuch m v₁ => rw [h1] at he; cases he; simp only [arith] at h ⊢; exact ih.2 _ _ h1 h
      | err e t => rw [h1] at he; cases he
      | panic => rw [h1] at he; cases he
  case not =>
    intro v ih
    refine ⟨fun ev a' he h => ?_, fun n a₁ he h => ?_⟩
    · simp only [evaluateE] at he
      cases h1 : evaluateE lk isReg v with
      | ok e1 v' =>
        rw [h1] at he
        have := afterRawE_arith Q he h
        simp only [arith] at this ⊢
        exact ih.1 _ _ h1 this
      | nosuch m l' => rw [h1] at he; cases he
      | err e t => rw [h1] at he; cases he
      | panic => rw [h1] at he; cases he
    · simp only [evaluateE] at he
      cases h1 : evaluateE lk isReg v with
      | ok e1 v' => rw [h1] at he; simp only [afterRawE] at he; split at he <;> cases he
      | nosuch m v₁ => rw [h1] at he; cases he; simp only [arith] at h ⊢; exact ih.2 _ _ h1 h
      | err e t => rw [h1] at he; cases he
      | panic => rw [h1] at he; cases he
  case addr =>
    intro v _
    refine ⟨fun ev a' he h => ?_, fun n a₁ he h => ?_⟩
    · simp only [evaluateE] at he
      cases h1 : evaluateE lk isReg v with
      | ok e1 v' =>
        rw [h1] at he
        have := afterRawE_arith Q he h
        simp [arith] at this
      | nosuch m l' => rw [h1] at he; cases he
      | err e t => rw [h1] at he; cases he
      | panic => rw [h1] at he; cases he
    · simp only [evaluateE] at he
      cases h1 : evaluateE lk isReg v with
      | ok e1 v' => rw [h1] at he; simp only [afterRawE] at he; split at he <;> cases he
      | nosuch m v₁ => rw [h1] at he; cases he; simp [arith] at h
      | err e t => rw [h1] at he; cases he
      | panic => rw [h1] at he; cases he
  case seq =>
    intro as
    refine ⟨fun ev a' he h => ?_, fun n a₁ he h => ?_⟩
    · simp only [evaluateE] at he
      cases h1 : evaluateArgsE lk isReg as with
      | ok e1 v' => rw [h1] at he; cases he; simp [arith] at h
      | nosuch m l' => rw [h1] at he; cases he
      | err e t => rw [h1] at he; cases he
      | panic => rw [h1] at he; cases he
    · simp only [evaluateE] at he
      cases h1 : evaluateArgsE lk isReg as with
      | ok e1 v' => rw [h1] at he; cases he
      | nosuch m v₁ => rw [h1] at he; cases he; simp [arith] at h
      | err e t => rw [h1] at he; cases he
      | panic => rw [h1] at he; cases he
  case func =>
    intro f as
    refine ⟨fun ev a' he h => ?_, fun n a₁ he h => ?_⟩
    · simp only [evaluateE] at he
      cases h1 : evaluateArgsE lk isReg as with
      | ok e1 v' => rw [h1] at he; cases he; simp [arith] at h
      | nosuch m l' => rw [h1] at he; cases he
      | err e t => rw [h1] at he; cases he
      | panic => rw [h1] at he; cases he
    · simp only [evaluateE] at he
      cases h1 : evaluateArgsE lk isReg as with
      | ok e1 v' => rw [h1] at he; cases he
      | nosuch m v₁ => rw [h1] at he; cases he; simp [arith] at h
      | err e t => rw [h1] at he; cases he
      | panic => rw [h1] at he; cases he

end

/-! ## arithmetic over names that have a value -/

/-- a register, or a name without a value in `lk` -/
def unknown (lk : Bytes → Lookup) (isReg : Bytes → Bool) (s : Bytes) : Bool :=
  isReg s || (match lk s with | .found _ => false | _ => true)

/-- a complete evaluation of a register-free operand has met only names with a value -/
theorem evaluateE_complete_known (lk : Bytes → Lookup) (isReg : Bytes → Bool) : ∀ a ev a',
    evaluateE lk isReg a = .ok ev a' → ev.cause = none → arith isReg a = true → arith (unknown lk isReg) a = true := by
  intro a
  induction a using Arg.ind with
  | const v => intro _ _ _ _ _; rfl
  | ident s =>
    intro ev a' he hc ha
    simp only [arith, Bool.not_eq_true'] at ha
    simp only [evaluateE, ha, Bool.false_eq_true, if_false] at he
    cases hl : lk s with
    | notFound => rw [hl] at he; cases he
    | deferred => rw [hl] at he; simp only [EvE.ok.injEq] at he; obtain ⟨rfl, _⟩ := he; cases hc
    | found v => simp [arith, unknown, ha, hl]
  | str s => intro _ _ _ _ ha; simp [arith] at ha
  | bin op l r ihl ihr =>
    intro ev a' he hc ha
    simp only [arith, Bool.and_eq_true] at ha ⊢
    simp only [evaluateE] at he
    cases h1 : evaluateE lk isReg l with
    | ok e1 l' =>
      rw [h1] at he
      cases h2 : evaluateE lk isReg r with
      | ok e2 r' =>
        rw [h2] at he
        obtain ⟨c, _, rfl⟩ := afterRawE_ok he
        obtain ⟨hc12, _⟩ := Ev.or_cause_none hc
        obtain ⟨hc1, hc2⟩ := Ev.or_cause_none hc12
        exact ⟨ihl _ _ h1 hc1 ha.1, ihr _ _ h2 hc2 ha.2⟩
      | nosuch m r' => rw [h2] at he; cases he
      | err e t => rw [h2] at he; cases he
      | panic => rw [h2] at he; cases he
    | nosuch m l' => rw [h1] at he; cases he
    | err e t => rw [h1] at he; cases he
    | panic => rw [h1] at he; cases he
  | neg v ih =>
    intro ev a' he hc ha
    simp only [arith] at ha ⊢
    simp only [evaluateE] at he
    cases h1 : evaluateE lk isReg v with
    | ok e1 v' =>
      rw [h1] at he
      obtain ⟨c, _, rfl⟩ := afterRawE_ok he
      exact ih _ _ h1 (Ev.or_cause_none hc).1 ha
    | nosuch m l' => rw [h1] at he; cases he
    | err e t => rw [h1] at he; cases he
    | panic => rw [h1] at he; cases he
  | not v ih =>
    intro ev a' he hc ha
    simp only [arith] at ha ⊢
    simp only [evaluateE] at he
    cases h1 : evaluateE lk isReg v with
    | ok e1 v' =>
      rw [h1] at he
      obtain ⟨c, _, rfl⟩ := afterRawE_ok he
      exact ih _ _ h1 (Ev.or_cause_none hc).1 ha
    | nosuch m l' => rw [h1] at he; cases he
    | err e t => rw [h1] at he; cases he
    | panic => rw [h1] at he; cases he
  | addr v _ => intro _ _ _ _ ha; simp [arith] at ha
  | seq v => intro _ _ _ _ ha; simp [arith] at ha
  | func n v => intro _ _ _ _ ha; simp [arith] at ha

/-- the two ways an evaluation of arithmetic over valued names can end -/
def NumberOrOverflow (r : EvE Arg) : Prop :=
  (∃ ev v, r = .ok ev (.const v) ∧ ev.cause = none) ∨ (∃ k t, r = .err (.overflow k) t)

/-- **arithmetic all of whose names have a value evaluates to a number or fails with an arithmetic overflow** -/
theorem evaluateE_known (lk : Bytes → Lookup) (isReg : Bytes → Bool) : ∀ a, arith (unknown lk isReg) a = true →
    NumberOrOverflow (evaluateE lk isReg a) := by
  intro a
  induction a using Arg.ind with
  | const v => intro _; exact .inl ⟨_, v, rfl, rfl⟩
  | ident s =>
    intro h
    simp only [arith, unknown, Bool.not_eq_true', Bool.or_eq_false_iff] at h
    obtain ⟨hr, hk⟩ := h
    cases hl : lk s with
    | notFound => simp [hl] at hk
    | deferred => simp [hl] at hk
    | found v => exact .inl ⟨⟨true, none⟩, v, by simp [evaluateE, hr, hl], rfl⟩
  | str s => intro h; simp [arith] at h
  | bin op l r ihl ihr =>
    intro h
    simp only [arith, Bool.and_eq_true] at h
    rcases ihl h.1 with ⟨e1, x, h1, c1⟩ | ⟨k, t, h1⟩
    · rcases ihr h.2 with ⟨e2, y, h2, c2⟩ | ⟨k, t, h2⟩
      · simp only [evaluateE, h1, h2, afterRawE, simplifyRawE, isBad, Bool.false_eq_true, if_false, cval]
        cases hf : foldBin op x y with
        | ok v => exact .inl ⟨_, v, rfl, by simp [Ev.or, c1, c2]⟩
        | error k => exact .inr ⟨k, _, rfl⟩
      · exact .inr ⟨k, .bin op (.const x) t, by simp only [evaluateE, h1, h2]⟩
    · exact .inr ⟨k, .bin op t r, by simp only [evaluateE, h1]⟩
  | neg v ih =>
    intro h
    simp only [arith] at h
    rcases ih h with ⟨e1, x, h1, c1⟩ | ⟨k, t, h1⟩
    · simp only [evaluateE, h1, afterRawE, simplifyRawE]
      by_cases hx : x = i64Min
      · simp only [hx, if_true]; exact .inr ⟨_, _, rfl⟩
      · simp only [hx, if_false]; exact .inl ⟨_, _, rfl, by simp [Ev.or, c1]⟩
    · exact .inr ⟨k, .neg t, by simp only [evaluateE, h1]⟩
  | not v ih =>
    intro h
    simp only [arith] at h
    rcases ih h with ⟨e1, x, h1, c1⟩ | ⟨k, t, h1⟩
    · simp only [evaluateE, h1, afterRawE, simplifyRawE]
      exact .inl ⟨_, _, rfl, by simp [Ev.or, c1]⟩
    · exact .inr ⟨k, .not t, by simp only [evaluateE, h1]⟩
  | addr v _ => intro h; simp [arith] at h
  | seq v => intro h; simp [arith] at h
  | func n v => intro h; simp [arith] at h

/-! ## acceptance of a number operand: the two routes differ at most by an arithmetic overflow -/

section
variable {lk₁ lk₂ : Bytes → Lookup} {isReg : Bytes → Bool}

/-- if the FRESH evaluation over `lk₂` delivers the number `w`, the re-evaluation of what the first attempt left delivers
`w` too, or fails with an arithmetic overflow — nothing else -/
theorem retry_of_fresh_number (h₁ : ∀ s v, lk₁ s = .found v → lk₂ s = .found v) (hT : tableOk lk₂) {a a₁ : Arg}
    (hlit : litsOk a = true) (hl : LeftBy lk₁ isReg a a₁) {ev : Ev} {w : Int}
    (e : evaluateE lk₂ isReg a = .ok ev (.const w)) (hc : ev.cause = none) :
    (∃ ev₂, evaluateE lk₂ isReg a₁ = .ok ev₂ (.const w) ∧ ev₂.cause = none) ∨
    (∃ k t, evaluateE lk₂ isReg a₁ = .err (.overflow k) t) := by
  have ha := evaluateE_const_arith isReg e
  have hk := evaluateE_complete_known lk₂ isReg a ev _ e hc ha
  have hk₁ := leftBy_arith_fwd (unknown lk₂ isReg) hl hk
  rcases evaluateE_known lk₂ isReg a₁ hk₁ with ⟨ev₂, v, h2, c2⟩ | ⟨k, t, h2⟩
  · have := number_order_independent h₁ hT hlit hl h2 e
    subst this
    exact .inl ⟨ev₂, h2, c2⟩
  · exact .inr ⟨k, t, h2⟩

/-- if the RE-EVALUATION of what the first attempt left delivers the number `v`, the fresh evaluation delivers `v` too, or
fails with an arithmetic overflow — nothing else -/
theorem fresh_of_retry_number (h₁ : ∀ s v, lk₁ s = .found v → lk₂ s = .found v) (hT : tableOk lk₂) {a a₁ : Arg}
    (hlit : litsOk a = true) (hl : LeftBy lk₁ isReg a a₁) {ev₂ : Ev} {v : Int}
    (e₂ : evaluateE lk₂ isReg a₁ = .ok ev₂ (.const v)) (hc : ev₂.cause = none) :
    (∃ ev, evaluateE lk₂ isReg a = .ok ev (.const v) ∧ ev.cause = none) ∨
    (∃ k t, evaluateE lk₂ isReg a = .err (.overflow k) t) := by
  have ha₁ := evaluateE_const_arith isReg e₂
  have hk₁ := evaluateE_complete_known lk₂ isReg a₁ ev₂ _ e₂ hc ha₁
  have hQ : ∀ s v, isReg s = false → lk₁ s = .found v → unknown lk₂ isReg s = false := by
    intro s v hr hf
    simp [unknown, hr, h₁ s v hf]
  have hk : arith (unknown lk₂ isReg) a = true := by
    rcases hl with ⟨ev1, h⟩ | ⟨n, h⟩
    · exact (evaluateE_arith_bwd (unknown lk₂ isReg) lk₁ isReg hQ a).1 _ _ h hk₁
    · exact (evaluateE_arith_bwd (unknown lk₂ isReg) lk₁ isReg hQ a).2 _ _ h hk₁
  rcases evaluateE_known lk₂ isReg a hk with ⟨ev, w, h2, c2⟩ | ⟨k, t, h2⟩
  · have := number_order_independent h₁ hT hlit hl e₂ h2
    subst this
    exact .inl ⟨ev, h2, c2⟩
  · exact .inr ⟨k, t, h2⟩

end

end Trion.Simp
