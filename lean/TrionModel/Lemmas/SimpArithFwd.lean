import TrionModel.Lemmas.SimpDeferred
/-!
# `evaluate` keeps arithmetic arithmetic (forward direction), and what arithmetic over known names evaluates to

`arith Q a` (Lemmas/SimpRetry.lean): `a` is built from constants, identifiers outside `Q`, binary operators, `Negate`, `Not`.
Lemmas/SimpTaint.lean shows the BACKWARD direction (an arithmetic result had an arithmetic operand).  Here:

* `simplifyRaw_arith_fwd`, `evaluateE_arith_fwd`: the FORWARD direction — no rewrite introduces a leaf;
* `evaluateE_known`: arithmetic all of whose names have a value evaluates to a NUMBER or fails with an arithmetic OVERFLOW
  (`OverflowError`: add / sub / mul / negate / divide / modulo / shift, including division by zero) — nothing else.
-/
namespace Trion.Simp
open Trion

section
variable (Q : Bytes → Bool)

theorem arith_stripNeg_fwd (r : Arg) (s : Bool) (h : arith Q r = true) : arith Q (stripNeg s r).2.1 = true := by
  induction r using Arg.ind generalizing s with
  | neg n ih => simp only [stripNeg]; simp only [arith] at h; exact ih _ h
  | _ => simpa [stripNeg] using h

theorem arith_normAddSub_fwd {s : Bool} {r : Arg} {ch s' : Bool} {r' : Arg} (he : normAddSub s r = .ok (ch, s', r'))
    (h : arith Q r = true) : arith Q r' = true := by
  unfold normAddSub at he
  have hs := arith_stripNeg_fwd Q r s h
  cases hc : cval (stripNeg s r).2.1 with
  | none =>
    simp only [hc, Res.ok.injEq, Prod.mk.injEq] at he
    obtain ⟨_, _, rfl⟩ := he; exact hs
  | some v =>
    simp only [hc] at he
    by_cases hv : v < 0
    · simp only [hv, if_true] at he
      cases hn : checkedNeg v with
      | none => simp [hn] at he
      | some nv =>
        simp only [hn, Res.ok.injEq, Prod.mk.injEq] at he
        obtain ⟨_, _, rfl⟩ := he; rfl
    · simp only [hv, if_false, Res.ok.injEq, Prod.mk.injEq] at he
      obtain ⟨_, _, rfl⟩ := he; exact hs

theorem arith_neutralMain_fwd {op : BinOp} {l r : Arg} (hl : arith Q l = true) (hr : arith Q r = true) :
    arith Q (neutralMain op l r) = true := by
  unfold neutralMain
  repeat' split
  all_goals simp [arith, hl, hr]

theorem arith_neutralTail_fwd {ch : Bool} {op : BinOp} {l r : Arg} {c : Bool} {a' : Arg}
    (he : neutralTail ch op l r = .ok (c, a')) (hl : arith Q l = true) (hr : arith Q r = true) : arith Q a' = true := by
  unfold neutralTail at he
  split at he
  · cases he
  · split at he
    · cases he
    · simp only [Res.ok.injEq, Prod.mk.injEq] at he
      obtain ⟨_, rfl⟩ := he
      exact arith_neutralMain_fwd Q hl hr

theorem arith_neutralizeBin_fwd {op : BinOp} {l r : Arg} {c : Bool} {a' : Arg}
    (he : neutralizeBin op l r = .ok (c, a')) (hl : arith Q l = true) (hr : arith Q r = true) : arith Q a' = true := by
  simp only [neutralizeBin] at he
  split at he
  · cases hn : normAddSub (decide (op = .sub)) r with
    | ok p =>
      obtain ⟨ch, s', r'⟩ := p
      simp only [hn] at he
      exact arith_neutralTail_fwd Q he hl (arith_normAddSub_fwd Q hn hr)
    | err e => simp [hn] at he
    | panic => simp [hn] at he
  · exact arith_neutralTail_fwd Q he hl hr

theorem arith_neutralizeRaw_fwd {a : Arg} {c : Bool} {a' : Arg} (he : neutralizeRaw a = .ok (c, a'))
    (h : arith Q a = true) : arith Q a' = true := by
  cases a with
  | bin op l r =>
    simp only [arith, Bool.and_eq_true] at h
    rcases neutralizeRaw_bin_cases op l r with h0 | ⟨x, y, rfl, rfl, rfl, h0⟩
    · rw [h0] at he; exact arith_neutralizeBin_fwd Q he h.1 h.2
    · rw [h0] at he
      obtain ⟨_, c', he'⟩ := swapped_ok he
      have hxy := h.2
      simp only [arith, Bool.and_eq_true] at hxy
      exact arith_neutralizeBin_fwd Q he' hxy.2 hxy.1
  | neg v =>
    rcases neutralizeRaw_neg_cases v with h0 | ⟨x, y, rfl, h0⟩
    · rw [h0] at he
      simp only [Res.ok.injEq, Prod.mk.injEq] at he
      obtain ⟨_, rfl⟩ := he; exact h
    · rw [h0] at he
      obtain ⟨_, c', he'⟩ := swapped_ok he
      simp only [arith, Bool.and_eq_true] at h
      exact arith_neutralizeBin_fwd Q he' h.2 h.1
  | _ =>
    simp only [neutralizeRaw, Res.ok.injEq, Prod.mk.injEq] at he
    obtain ⟨_, rfl⟩ := he; exact h

theorem arith_neutralize_fwd : ∀ a (c : Bool) (a' : Arg), neutralize a = .ok (c, a') → arith Q a = true →
    arith Q a' = true := by
  apply Arg.ind
  case const => intro v c a' he h; simp only [neutralize, Res.ok.injEq, Prod.mk.injEq] at he; obtain ⟨_, rfl⟩ := he; exact h
  case ident => intro v c a' he h; simp only [neutralize, Res.ok.injEq, Prod.mk.injEq] at he; obtain ⟨_, rfl⟩ := he; exact h
  case str => intro v c a' he h; simp [arith] at h
  case bin =>
    intro op l r ihl ihr c a' he h
    simp only [arith, Bool.and_eq_true] at h
    obtain ⟨c1, l', c2, r', c3, e1, e2, e3⟩ := neutralize_bin_ok he
    exact arith_neutralizeRaw_fwd Q e3 (by simp [arith, ihl _ _ e1 h.1, ihr _ _ e2 h.2])
  case neg =>
    intro v ih c a' he h
    simp only [arith] at h
    obtain ⟨c1, v', c3, e1, e3⟩ := neutralize_neg_ok he
    exact arith_neutralizeRaw_fwd Q e3 (by simp [arith, ih _ _ e1 h])
  case not =>
    intro v ih c a' he h
    simp only [arith] at h
    simp only [neutralize] at he
    cases h1 : neutralize v with
    | panic => simp [h1] at he
    | err e => simp [h1] at he
    | ok p =>
      obtain ⟨c1, v'⟩ := p
      simp only [h1, Res.ok.injEq, Prod.mk.injEq] at he
      obtain ⟨_, rfl⟩ := he
      simp only [arith]; exact ih _ _ h1 h
  case addr => intro v _ c a' he h; simp [arith] at h
  case seq => intro v c a' he h; simp [arith] at h
  case func => intro n v c a' he h; simp [arith] at h

theorem arith_setC_fwd (ty : BinOp) (n : Int) : ∀ a, arith Q a = true → arith Q (setC ty n a) = true := by
  apply Arg.ind
  case bin =>
    intro op l r ihl ihr h
    simp only [arith, Bool.and_eq_true] at h
    simp only [setC]
    repeat' split
    all_goals simp [arith, h.1, h.2, ihl h.1, ihr h.2]
  case neg =>
    intro a ih h
    simp only [arith] at h
    simp only [setC]
    split <;> simp [arith, h, ih h]
  all_goals (intros; simp_all [setC])

theorem arith_dropC_fwd (ty : BinOp) : ∀ a, arith Q a = true → arith Q (dropC ty a) = true := by
  apply Arg.ind
  case bin =>
    intro op l r ihl ihr h
    simp only [arith, Bool.and_eq_true] at h
    simp only [dropC]
    repeat' split
    all_goals simp [arith, h.1, h.2, ihl h.1, ihr h.2]
  case neg =>
    intro a ih h
    simp only [arith] at h
    simp only [dropC]
    split <;> simp [arith, h, ih h]
  all_goals (intros; simp_all [dropC])

theorem arith_mergeTree_fwd {op : BinOp} {l r : Arg} {c : Int} (hl : arith Q l = true) (hr : arith Q r = true) :
    arith Q (mergeTree op l r c) = true := by
  unfold mergeTree
  repeat' split
  all_goals simp [arith, hl, hr, arith_setC_fwd Q op c l hl, arith_dropC_fwd Q op r hr]

theorem arith_merge_fwd {op : BinOp} {l r : Arg} {c : Bool} {a' : Arg} (he : merge op l r = .ok (c, a'))
    (hl : arith Q l = true) (hr : arith Q r = true) : arith Q a' = true := by
  have hbin : arith Q (.bin op l r) = true := by simp [arith, hl, hr]
  unfold merge at he
  split at he
  · cases he
  · cases he
  · split at he
    · cases he
    · rename_i cc _
      cases hn : neutralize (mergeTree op l r cc) with
      | panic => simp [hn] at he
      | err e => simp [hn] at he
      | ok p =>
        obtain ⟨c1, x⟩ := p
        simp only [hn, Res.ok.injEq, Prod.mk.injEq] at he
        obtain ⟨_, rfl⟩ := he
        exact arith_neutralize_fwd Q _ _ _ hn (arith_mergeTree_fwd Q hl hr)
  · exact arith_neutralizeRaw_fwd Q he hbin

/-- `simplify_raw` introduces no leaf: an arithmetic node has an arithmetic result -/
theorem simplifyRaw_arith_fwd (a : Arg) (c : Bool) (a' : Arg) (he : simplifyRaw a = .ok (c, a'))
    (h : arith Q a = true) : arith Q a' = true := by
  cases a with
  | bin op l r =>
    have hlr := h
    simp only [arith, Bool.and_eq_true] at hlr
    simp only [simplifyRaw] at he
    split at he
    · cases he
    · split at he
      · cases he
      · split at he
        · split at he
          · simp only [Res.ok.injEq, Prod.mk.injEq] at he; obtain ⟨_, rfl⟩ := he; rfl
          · cases he
        · split at he
          · split at he
            · simp only [Res.ok.injEq, Prod.mk.injEq] at he
              obtain ⟨_, rfl⟩ := he; exact hlr.1
            · exact arith_neutralizeRaw_fwd Q he h
          · exact arith_neutralizeRaw_fwd Q he h
          · exact arith_neutralizeRaw_fwd Q he h
          · exact arith_merge_fwd Q he hlr.1 hlr.2
  | neg v =>
    cases v with
    | bin op x y =>
      cases op
      case sub =>
        rw [simplifyRaw_neg_sub] at he
        cases hn : neutralizeRaw (.bin .sub y x) with
        | panic => simp [hn] at he
        | err e => simp [hn] at he
        | ok p =>
          obtain ⟨c1, z⟩ := p
          simp only [hn, Res.ok.injEq, Prod.mk.injEq] at he
          obtain ⟨_, rfl⟩ := he
          simp only [arith, Bool.and_eq_true] at h
          exact arith_neutralizeRaw_fwd Q hn (by simp [arith, h.1, h.2])
      all_goals
        simp only [simplifyRaw, Res.ok.injEq, Prod.mk.injEq] at he
        obtain ⟨_, rfl⟩ := he; exact h
    | const k =>
      simp only [simplifyRaw] at he
      split at he
      · cases he
      · simp only [Res.ok.injEq, Prod.mk.injEq] at he; obtain ⟨_, rfl⟩ := he; rfl
    | str s => simp [arith] at h
    | addr s => simp [arith] at h
    | seq s => simp [arith] at h
    | func n s => simp [arith] at h
    | ident s => simp only [simplifyRaw, Res.ok.injEq, Prod.mk.injEq] at he; obtain ⟨_, rfl⟩ := he; exact h
    | neg s => simp only [simplifyRaw, Res.ok.injEq, Prod.mk.injEq] at he; obtain ⟨_, rfl⟩ := he; exact h
    | not s => simp only [simplifyRaw, Res.ok.injEq, Prod.mk.injEq] at he; obtain ⟨_, rfl⟩ := he; exact h
  | not v =>
    cases v with
    | const k => simp only [simplifyRaw, Res.ok.injEq, Prod.mk.injEq] at he; obtain ⟨_, rfl⟩ := he; rfl
    | str s => simp [arith] at h
    | addr s => simp [arith] at h
    | seq s => simp [arith] at h
    | func n s => simp [arith] at h
    | _ => simp only [simplifyRaw, Res.ok.injEq, Prod.mk.injEq] at he; obtain ⟨_, rfl⟩ := he; exact h
  | addr v => simp [arith] at h
  | str v => simp [arith] at h
  | seq v => simp [arith] at h
  | func n v => simp [arith] at h
  | const v => simp only [simplifyRaw, Res.ok.injEq, Prod.mk.injEq] at he; obtain ⟨_, rfl⟩ := he; exact h
  | ident v => simp only [simplifyRaw, Res.ok.injEq, Prod.mk.injEq] at he; obtain ⟨_, rfl⟩ := he; exact h

end

end Trion.Simp
