import TrionModel.Lemmas.LexStr
/-!
# Helper lemmas for the tokenizer model, part 9: every string body is a well-formed beginning followed by the
closing quote or by a tail at which the scanner gives up
-/
namespace Trion.Lex
open Trion.Pos (isCont adv)

theorem enc2 (c : Nat) (h1 : 128 ≤ c) (h2 : c < 2048) : encodeChar c = [(192 + c / 64).toUInt8, (128 + c % 64).toUInt8] := by
  simp [encodeChar, show ¬ c < 128 by omega, h2]
theorem enc3 (c : Nat) (h1 : 2048 ≤ c) (h2 : c < 65536) :
    encodeChar c = [(224 + c / 4096).toUInt8, (128 + c / 64 % 64).toUInt8, (128 + c % 64).toUInt8] := by
  simp [encodeChar, show ¬ c < 128 by omega, show ¬ c < 2048 by omega, h2]
theorem enc4 (c : Nat) (h1 : 65536 ≤ c) :
    encodeChar c = [(240 + c / 262144).toUInt8, (128 + c / 4096 % 64).toUInt8, (128 + c / 64 % 64).toUInt8, (128 + c % 64).toUInt8] := by
  simp [encodeChar, show ¬ c < 128 by omega, show ¬ c < 2048 by omega, show ¬ c < 65536 by omega]

theorem toUInt8_eq (b : UInt8) (k : Nat) (h : k = b.toNat) : k.toUInt8 = b := by subst h; exact toUInt8_toNat b

/-- the other direction of the round trip: what `chars().next()` returns is a scalar value whose encoding is
the bytes consumed -/
theorem decodeChar_inv {d : Bytes} {c n : Nat} (h : decodeChar d = some (c, n)) :
    isScalar c = true ∧ d = encodeChar c ++ d.drop n := by
  cases d with
  | nil => simp [decodeChar] at h
  | cons b0 t =>
    by_cases h1 : b0.toNat < 128
    · rw [decodeChar_ascii_cons b0 t h1] at h
      cases h
      refine ⟨by simp only [isScalar, Bool.or_eq_true, Bool.and_eq_true, decide_eq_true_eq]; omega, ?_⟩
      rw [encodeChar_ascii _ h1, toUInt8_toNat]; rfl
    · by_cases h2 : b0.toNat < 194
      · simp [decodeChar, h1, h2] at h
      · by_cases h3 : b0.toNat < 224
        · cases t with
          | nil => simp [decodeChar, h1, h2, h3] at h
          | cons b1 t1 =>
            by_cases hc1 : isCont b1 = true
            · rw [decode2 b0 b1 t1 ⟨by omega, h3⟩ hc1] at h
              simp only [Option.some.injEq, Prod.mk.injEq] at h
              obtain ⟨rfl, rfl⟩ := h
              have hb1 := (isCont_iff b1).mp hc1
              refine ⟨by simp only [isScalar, Bool.or_eq_true, Bool.and_eq_true, decide_eq_true_eq]; omega, ?_⟩
              have e := enc2 ((b0.toNat - 192) * 64 + (b1.toNat - 128)) (by omega) (by omega)
              have e0 := toUInt8_eq b0 (192 + ((b0.toNat - 192) * 64 + (b1.toNat - 128)) / 64) (by omega)
              have e1 := toUInt8_eq b1 (128 + ((b0.toNat - 192) * 64 + (b1.toNat - 128)) % 64) (by omega)
              rw [e, e0, e1]
              rfl
            · simp [decodeChar, h1, h2, h3, hc1] at h
        · by_cases h4 : b0.toNat < 240
          · match t, h with
            | [], h => simp [decodeChar, h1, h2, h3, h4] at h
            | [_], h => simp [decodeChar, h1, h2, h3, h4] at h
            | b1 :: b2 :: t2, h =>
              unfold decodeChar at h
              simp only [List.getElem?_cons_zero, List.getElem?_cons_succ] at h
              rw [if_neg h1, if_neg h2, if_neg h3, if_pos h4] at h
              split at h
              · rename_i hcond
                simp only [Option.some.injEq, Prod.mk.injEq] at h
                obtain ⟨rfl, rfl⟩ := h
                simp only [Bool.and_eq_true, Bool.not_eq_true', Bool.and_eq_false_iff, beq_eq_false_iff_ne, ne_eq,
                  decide_eq_false_iff_not, decide_eq_true_eq, beq_iff_eq] at hcond
                obtain ⟨⟨⟨hc1, hc2⟩, ha⟩, hb⟩ := hcond
                have hb1 := (isCont_iff b1).mp hc1
                have hb2 := (isCont_iff b2).mp hc2
                refine ⟨by simp only [isScalar, Bool.or_eq_true, Bool.and_eq_true, decide_eq_true_eq]; omega, ?_⟩
                have e := enc3 (((b0.toNat - 224) * 64 + (b1.toNat - 128)) * 64 + (b2.toNat - 128)) (by omega) (by omega)
                have e0 := toUInt8_eq b0 (224 + (((b0.toNat - 224) * 64 + (b1.toNat - 128)) * 64 + (b2.toNat - 128)) / 4096) (by omega)
                have e1 := toUInt8_eq b1 (128 + (((b0.toNat - 224) * 64 + (b1.toNat - 128)) * 64 + (b2.toNat - 128)) / 64 % 64) (by omega)
                have e2 := toUInt8_eq b2 (128 + (((b0.toNat - 224) * 64 + (b1.toNat - 128)) * 64 + (b2.toNat - 128)) % 64) (by omega)
                rw [e, e0, e1, e2]
                rfl
              · cases h
          · by_cases h5 : b0.toNat < 245
            · match t, h with
              | [], h => simp [decodeChar, h1, h2, h3, h4, h5] at h
              | [_], h => simp [decodeChar, h1, h2, h3, h4, h5] at h
              | [_, _], h => simp [decodeChar, h1, h2, h3, h4, h5] at h
              | b1 :: b2 :: b3 :: t3, h =>
                unfold decodeChar at h
                simp only [List.getElem?_cons_zero, List.getElem?_cons_succ] at h
                rw [if_neg h1, if_neg h2, if_neg h3, if_neg h4, if_pos h5] at h
                split at h
                · rename_i hcond
                  simp only [Option.some.injEq, Prod.mk.injEq] at h
                  obtain ⟨rfl, rfl⟩ := h
                  simp only [Bool.and_eq_true, Bool.not_eq_true', Bool.and_eq_false_iff, beq_eq_false_iff_ne, ne_eq,
                    decide_eq_false_iff_not] at hcond
                  obtain ⟨⟨⟨⟨hc1, hc2⟩, hc3⟩, ha⟩, hb⟩ := hcond
                  have hb1 := (isCont_iff b1).mp hc1
                  have hb2 := (isCont_iff b2).mp hc2
                  have hb3 := (isCont_iff b3).mp hc3
                  refine ⟨by simp only [isScalar, Bool.or_eq_true, Bool.and_eq_true, decide_eq_true_eq]; omega, ?_⟩
                  have e := enc4 ((((b0.toNat - 240) * 64 + (b1.toNat - 128)) * 64 + (b2.toNat - 128)) * 64 + (b3.toNat - 128)) (by omega)
                  have e0 := toUInt8_eq b0 (240 + ((((b0.toNat - 240) * 64 + (b1.toNat - 128)) * 64 + (b2.toNat - 128)) * 64 + (b3.toNat - 128)) / 262144) (by omega)
                  have e1 := toUInt8_eq b1 (128 + ((((b0.toNat - 240) * 64 + (b1.toNat - 128)) * 64 + (b2.toNat - 128)) * 64 + (b3.toNat - 128)) / 4096 % 64) (by omega)
                  have e2 := toUInt8_eq b2 (128 + ((((b0.toNat - 240) * 64 + (b1.toNat - 128)) * 64 + (b2.toNat - 128)) * 64 + (b3.toNat - 128)) / 64 % 64) (by omega)
                  have e3 := toUInt8_eq b3 (128 + ((((b0.toNat - 240) * 64 + (b1.toNat - 128)) * 64 + (b2.toNat - 128)) * 64 + (b3.toNat - 128)) % 64) (by omega)
                  rw [e, e0, e1, e2, e3]
                  rfl
                · cases h
            · simp [decodeChar, h1, h2, h3, h4, h5] at h

/-- what the dichotomy says of a body -/
def BodyCases (body : Bytes) : Prop :=
  (∃ items rest, (∀ it ∈ items, StrItem.Ok it) ∧ Utf8 rest ∧ body = renderAll items ++ 34 :: rest) ∨
  (∃ items tail, (∀ it ∈ items, StrItem.Ok it) ∧ Utf8 tail ∧ (endsWithEsc items = true → tail ≠ []) ∧ BadTail tail ∧
    body = renderAll items ++ tail)

theorem bodyCases_cons (it : StrItem) (hok : it.Ok) (body : Bytes) (hne : it.isEsc = true → body ≠ [])
    (h : BodyCases body) : BodyCases (it.render ++ body) := by
  rcases h with ⟨items, rest, h1, h2, rfl⟩ | ⟨items, tail, h1, h2, h3, h4, rfl⟩
  · exact .inl ⟨it :: items, rest, by intro x hx; rcases List.mem_cons.mp hx with rfl | hx; exact hok; exact h1 x hx,
      h2, by simp [renderAll]⟩
  · refine .inr ⟨it :: items, tail, by intro x hx; rcases List.mem_cons.mp hx with rfl | hx; exact hok; exact h1 x hx,
      h2, ?_, h4, by simp [renderAll]⟩
    intro he
    cases items with
    | nil =>
      simp only [endsWithEsc, List.isEmpty_nil, if_true] at he
      simpa [renderAll] using hne he
    | cons a b => exact h3 (by simpa [endsWithEsc] using he)

theorem bodyCases_bad (tail : Bytes) (hu : Utf8 tail) (hb : BadTail tail) : BodyCases tail :=
  .inr ⟨[], tail, by simp, hu, by simp [endsWithEsc], hb, by simp [renderAll]⟩

theorem uint8_eq_of_toNat {b : UInt8} {k : Nat} (hk : k < 256) (h : b.toNat = k) : b = k.toUInt8 := by
  rw [← h, toUInt8_toNat]

theorem bodyCases_all : ∀ (n : Nat) (body : Bytes), body.length ≤ n → Utf8 body → BodyCases body := by
  intro n
  induction n with
  | zero =>
    intro body hl _
    have : body = [] := List.eq_nil_of_length_eq_zero (by omega)
    subst this
    exact bodyCases_bad [] Utf8.nil badTail_nil
  | succ n ih =>
    intro body hl hu
    cases body with
    | nil => exact bodyCases_bad [] Utf8.nil badTail_nil
    | cons b0 t =>
      by_cases hstop : isStrStop b0 = true
      · have hlt := isStrStop_ascii hstop
        have hut : Utf8 t := utf8_tail_of_ascii hu hlt
        by_cases h34 : b0.toNat = 34
        · have : b0 = 34 := uint8_eq_of_toNat (k := 34) (by omega) h34
          subst this
          exact .inl ⟨[], t, by simp, hut, by simp [renderAll]⟩
        · by_cases h92 : b0.toNat = 92
          · have : b0 = 92 := uint8_eq_of_toNat (k := 92) (by omega) h92
            subst this
            cases t with
            | nil => exact bodyCases_bad _ hu (badTail_short [] (by simp))
            | cons e t1 =>
              cases hv : escValue e.toNat with
              | some v =>
                have hea := (escValue_ascii hv).1
                have hut1 : Utf8 t1 := utf8_tail_of_ascii hut hea
                by_cases ht1 : t1 = []
                · subst ht1
                  exact bodyCases_bad _ hu (badTail_short [e] (by simp))
                · have := bodyCases_cons (.esc e) (by simp [StrItem.Ok, hv]) t1 (fun _ => ht1)
                    (ih t1 (by simp at hl; omega) hut1)
                  simpa [StrItem.render] using this
              | none =>
                by_cases h117 : e.toNat = 117
                · have : e = 117 := uint8_eq_of_toNat (k := 117) (by omega) h117
                  subst this
                  have hut1 : Utf8 t1 := utf8_tail_of_ascii hut (by decide)
                  cases t1 with
                  | nil => exact bodyCases_bad _ hu (badTail_short [117] (by simp))
                  | cons g r3 =>
                    by_cases h123 : g.toNat = 123
                    · have : g = 123 := uint8_eq_of_toNat (k := 123) (by omega) h123
                      subst this
                      have hur3 : Utf8 r3 := utf8_tail_of_ascii hut1 (by decide)
                      cases hpos : position (fun b => b.toNat == 125) (r3.take 7) with
                      | none =>
                        refine bodyCases_bad _ hu (badTail_uni_open r3 hur3 ?_)
                        intro b hb
                        have := position_none hpos b hb
                        simpa using this
                      | some k =>
                        obtain ⟨text, cl, t', htake, hxl, hcl, hno⟩ := position_some hpos
                        have hcl125 : cl.toNat = 125 := by simpa using hcl
                        have : cl = 125 := uint8_eq_of_toNat (k := 125) (by omega) hcl125
                        subst this
                        have hr3 : r3 = text ++ 125 :: (t' ++ r3.drop 7) := by
                          have := (List.take_append_drop 7 r3).symm
                          rw [htake] at this
                          simpa using this
                        have hlen : text.length ≤ 6 := by
                          have := congrArg List.length htake
                          simp at this
                          omega
                        have hno' : ∀ b ∈ text, b.toNat ≠ 125 := by
                          intro b hb; have := hno b hb; simpa using this
                        have humore : Utf8 (t' ++ r3.drop 7) :=
                          utf8_split_after_ascii (pre := text) (hr3 ▸ hur3) (by decide)
                        by_cases hhex : HexOk text
                        · have := bodyCases_cons (.uni text) hhex (t' ++ r3.drop 7) (by simp [StrItem.isEsc])
                            (ih _ (by
                              have hl3 := congrArg List.length hr3
                              simp at hl hl3 ⊢; omega) humore)
                          rw [hr3]
                          simpa [StrItem.render] using this
                        · rw [hr3]
                          exact bodyCases_bad _ (hr3 ▸ hu) (badTail_uni_bad text _ (hr3 ▸ hur3) hno' hlen hhex)
                    · exact bodyCases_bad _ hu (badTail_nobrace g r3 h123)
                · exact bodyCases_bad _ hu (badTail_unknown e t1 hv h117)
          · refine bodyCases_bad _ hu (badTail_control b0 t ?_)
            simp [isStrStop] at hstop
            omega
      · -- a raw character
        cases hu with
        | cons _ c k hd hrest =>
          obtain ⟨hk1, _, ⟨b0', hb0, _, hasc, _, hhigh⟩, _⟩ := decodeChar_some hd
          simp at hb0; subst hb0
          obtain ⟨hs, hbody⟩ := decodeChar_inv hd
          have hraw : RawStrChar c := by
            refine ⟨hs, ?_⟩
            simp [isStrStop] at hstop
            by_cases hlt : b0.toNat < 128
            · obtain ⟨_, rfl⟩ := hasc hlt
              omega
            · have := hhigh (by omega); omega
          have := bodyCases_cons (.raw c) hraw ((b0 :: t).drop k) (by simp [StrItem.isEsc])
            (ih _ (by simp at hl ⊢; omega) hrest)
          rw [hbody]
          simpa [StrItem.render] using this

end Trion.Lex
