import TrionModel.Lemmas.LayoutRun
import TrionModel.Spec.Layout
/-!
# C05 helper lemmas, part 4: the machine simulates the two-pass reference

`Rel st L c im`: the machine state `st` with pending tasks `L` corresponds to the reference (`pass2`) state
with cursor `c` and image `im`:
* the reference cursor is the (unsaturated) machine position,
* `view st` and `im` have the same domain,
* they agree outside the pending ranges,
* on every pending range the reference image already holds the task's final bytes.
-/
namespace Trion.Layout
open Ref

structure Rel (st : State) (L : List Task) (c : Option Nat) (im : Img) : Prop where
  core : Core st
  tasks : ∀ t ∈ L, TaskOk st t
  cur : pos st = c
  dom : ∀ a, (view st a).isSome = (im.get a).isSome
  agree : ∀ a, (∀ t ∈ L, ¬ (t.addr ≤ a ∧ a < t.addr + t.len)) → view st a = im.get a
  fin : ∀ t ∈ L, ∀ i, i < t.len → im.get (t.addr + i) = t.final[i]?

theorem rel_init : Rel {} [] none [] :=
  ⟨inv_init.1, fun _ h => (by cases h), rfl, fun _ => rfl, fun _ _ => rfl, fun _ h => (by cases h)⟩

theorem view_congr {st st' : State} (hc : st'.closed = st.closed) (ha : st'.active = st.active) (a : Nat) :
    view st' a = view st a := by
  simp only [view, hc, ha]

theorem Core.congr {st st' : State} (hc : st'.closed = st.closed) (ha : st'.active = st.active)
    (h : Core st) : Core st' := by
  unfold Core; rw [hc, ha]; exact h

theorem TaskOk.congr {st st' : State} {t : Task} (hc : st'.closed = st.closed) (ha : st'.active = st.active)
    (h : TaskOk st t) : TaskOk st' t := by
  unfold TaskOk; rw [hc, ha]; exact h

theorem pos_congr {st st' : State} (ha : st'.active = st.active) : pos st' = pos st := by
  simp only [pos, ha]

/-- `Rel` does not look at the environment or at the task field of the state -/
theorem Rel.congr {st st' : State} {L : List Task} {c : Option Nat} {im : Img}
    (h : Rel st L c im) (hc : st'.closed = st.closed) (ha : st'.active = st.active) : Rel st' L c im :=
  ⟨h.core.congr hc ha, fun t ht => (h.tasks t ht).congr hc ha, (pos_congr ha).trans h.cur,
   fun a => by rw [view_congr hc ha]; exact h.dom a,
   fun a hx => by rw [view_congr hc ha]; exact h.agree a hx, h.fin⟩

/-- beyond the active buffer, inside the capacity, nothing has been emitted -/
theorem view_fresh (st : State) (s : Active) (hc : Core st) (hact : st.active = some s) (a : Nat)
    (h1 : s.base + s.buf.length ≤ a) (h2 : a < s.base + s.maxLen) : view st a = none := by
  obtain ⟨g1, g2, g3⟩ := hc.2 s hact
  simp only [view, hact]
  rw [if_neg (by omega)]
  have := g3 a (by omega) h2
  unfold Img.has at this
  cases hg : st.closed.get a with
  | none => rfl
  | some v => rw [hg] at this; cases this

/-- a pending range has been emitted -/
theorem view_task (st : State) (t : Task) (hc : Core st) (ht : TaskOk st t) (i : Nat) (hi : i < t.len) :
    (view st (t.addr + i)).isSome = true := by
  rcases ht.2 with h | ⟨s, hs, h1, h2⟩
  · have hh := h i hi
    cases hact : st.active with
    | none => simp only [view, hact]; exact hh
    | some s =>
      obtain ⟨g1, g2, g3⟩ := hc.2 s hact
      simp only [view, hact]
      by_cases hx : s.base ≤ t.addr + i ∧ t.addr + i < s.base + s.buf.length
      · have := g3 (t.addr + i) hx.1 (by omega)
        rw [this] at hh; cases hh
      · rw [if_neg hx]; exact hh
  · simp only [view, hs]
    rw [if_pos ⟨by omega, by omega⟩]
    have : t.addr + i - s.base < s.buf.length := by omega
    simp [this]

theorem isSome_getElem? {α : Type} (l : List α) (i : Nat) : (l[i]?).isSome = decide (i < l.length) := by
  by_cases h : i < l.length <;> simp [h]

/-- appending `bs` to the active buffer while the reference puts `bytes` (same length) at its cursor;
`L'` is the new pending list: the old tasks plus possibly a task for exactly the appended range -/
theorem rel_append (st : State) (L L' : List Task) (x : Nat) (im : Img) (s : Active) (bs bytes : Bytes)
    (hr : Rel st L (some x) im) (hact : st.active = some s) (hfit : s.buf.length + bs.length ≤ s.maxLen)
    (hlen : bytes.length = bs.length)
    (hsub : ∀ t ∈ L, t ∈ L')
    (hnew : ∀ t ∈ L', t ∈ L ∨
      (TaskOk { st with active := some { s with buf := s.buf ++ bs } } t ∧
       (t.len = 0 ∨ (t.addr = x ∧ t.len = bytes.length ∧ t.final = bytes))))
    (hag : bytes = bs ∨ (0 < bs.length → ∃ t ∈ L', t.addr = x ∧ t.len = bs.length)) :
    Rel { st with active := some { s with buf := s.buf ++ bs } } L' (some (x + bs.length)) (im.put x bytes) ∧
    (∀ a, (im.get a).isSome = true → (im.put x bytes).get a = im.get a) := by
  have hx : x = s.base + s.buf.length := by
    have := hr.cur; simp only [pos, hact, Option.map_some, Option.some.injEq] at this; exact this.symm
  obtain ⟨g1, g2, g3⟩ := hr.core.2 s hact
  obtain ⟨e1, e2, e3⟩ := append_effects st s bs hr.core hact hfit
  -- the appended range is fresh in the reference image
  have hfree : ∀ a, x ≤ a → a < x + bs.length → im.get a = none := by
    intro a h1 h2
    have hv := view_fresh st s hr.core hact a (by omega) (by omega)
    have := hr.dom a
    rw [hv] at this
    cases hg : im.get a with
    | none => rfl
    | some v => rw [hg] at this; cases this
  have hmono : ∀ a, (im.get a).isSome = true → (im.put x bytes).get a = im.get a := by
    intro a ha
    apply get_put_outside
    intro hh
    rw [hfree a hh.1 (by omega)] at ha; cases ha
  -- old pending ranges do not meet the appended range
  have hold : ∀ t ∈ L, ∀ i, i < t.len → ¬ (x ≤ t.addr + i ∧ t.addr + i < x + bs.length) := by
    intro t ht i hi hh
    have h1 := view_task st t hr.core (hr.tasks t ht) i hi
    have h2 := view_fresh st s hr.core hact (t.addr + i) (by omega) (by omega)
    rw [h2] at h1; cases h1
  refine ⟨⟨e1, ?_, ?_, ?_, ?_, ?_⟩, hmono⟩
  · intro t ht
    rcases hnew t ht with h | h
    · exact e2 t (hr.tasks t h)
    · exact h.1
  · simp only [pos, Option.map_some, List.length_append]; congr 1; omega
  · intro a
    rw [e3 a, get_put, hlen, ← hx]
    by_cases ha : x ≤ a ∧ a < x + bs.length
    · rw [if_pos ha, if_pos ha, isSome_getElem?, isSome_getElem?, hlen]
    · rw [if_neg ha, if_neg ha]; exact hr.dom a
  · intro a hno
    rw [e3 a, get_put, hlen, ← hx]
    by_cases ha : x ≤ a ∧ a < x + bs.length
    · rw [if_pos ha, if_pos ha]
      rcases hag with h | h
      · rw [h]
      · obtain ⟨t, ht, h1, h2⟩ := h (by omega)
        exact absurd ⟨by omega, by omega⟩ (hno t ht)
    · rw [if_neg ha, if_neg ha]
      exact hr.agree a (fun t ht => hno t (hsub t ht))
  · intro t ht i hi
    rcases hnew t ht with h | ⟨_, h | ⟨h1, h2, h3⟩⟩
    · rw [get_put_outside _ _ _ _ (by rw [hlen]; exact hold t h i hi)]
      exact hr.fin t h i hi
    · omega
    · rw [h1, h3, get_put_inside _ _ _ _ (by omega) (by omega)]
      congr 1; omega


theorem size_align (x n : Nat) :
    size x (.align n) = if n = 0 then 0 else if x % n = 0 then 0 else n - x % n := rfl

theorem curr_eq (s : Active) (h : s.base + s.buf.length < top) : s.curr = s.base + s.buf.length := by
  unfold Active.curr; unfold top at *; omega

/-- one statement: the machine step is matched by the `pass2` step -/
theorem step_rel (st st' : State) (s : Stmt) (c : Option Nat) (im : Img)
    (hr : Rel st st.tasks c im) (hwf : s.wf = true)
    (h : step st s = .ok st') :
    ∃ im', (∀ r, pass2 c im (s :: r) = pass2 (next c s) im' r) ∧ Rel st' st'.tasks (next c s) im' ∧
      (∀ a, (im.get a).isSome = true → im'.get a = im.get a) := by
  cases s with
  | addr a =>
    obtain ⟨k1, k2, k3, k4, k5, k6⟩ := changeSeg_ok st st' a hr.core h
    refine ⟨im, fun r => rfl, ⟨k1, ?_, k6, ?_, ?_, ?_⟩, fun a _ => rfl⟩
    · intro t ht; rw [k3] at ht; exact k5 t (hr.tasks t ht)
    · intro x; rw [k4]; exact hr.dom x
    · intro x hx; rw [k4]; rw [k3] at hx; exact hr.agree x hx
    · rw [k3]; exact hr.fin
  | label n =>
    unfold step at h
    cases hact : st.active with
    | none => rw [hact] at h; cases h
    | some s =>
      rw [hact] at h; simp only at h
      obtain ⟨_, rfl⟩ := insertConst_ok _ _ _ _ h
      exact ⟨im, fun r => rfl, hr.congr rfl rfl, fun a _ => rfl⟩
  | const n deps v =>
    simp only [step] at h
    split at h
    · obtain ⟨_, rfl⟩ := insertConst_ok _ _ _ _ h
      exact ⟨im, fun r => rfl, hr.congr rfl rfl, fun a _ => rfl⟩
    · cases h
  | raw bs =>
    obtain ⟨s, hact, hfit, rfl⟩ := append_ok st st' bs h
    have hc : c = some (s.base + s.buf.length) := by rw [← hr.cur]; simp only [pos, hact, Option.map_some]
    subst hc
    obtain ⟨r1, r2⟩ := rel_append st st.tasks st.tasks _ im s bs bs hr hact hfit rfl (fun t ht => ht)
      (fun t ht => Or.inl ht) (Or.inl rfl)
    exact ⟨im.put _ bs, fun r => rfl, r1, r2⟩
  | emit len deps final =>
    have hw : final.length = len := by simpa [Stmt.wf] using hwf
    unfold step at h
    cases hact : st.active with
    | none => rw [hact] at h; cases h
    | some s =>
      have hc : c = some (s.base + s.buf.length) := by rw [← hr.cur]; simp only [pos, hact, Option.map_some]
      subst hc
      rw [hact] at h; simp only at h
      split at h
      · obtain ⟨s', hact', hfit, rfl⟩ := append_ok st st' final h
        rw [hact] at hact'; cases hact'
        obtain ⟨r1, r2⟩ := rel_append st st.tasks st.tasks _ im s final final hr hact hfit rfl (fun t ht => ht)
          (fun t ht => Or.inl ht) (Or.inl rfl)
        refine ⟨im.put _ final, fun r => ?_, ?_, r2⟩
        · show pass2 (some (s.base + s.buf.length + final.length)) _ r = _
          simp only [next, Option.map_some, hw]
        · simp only [next, Option.map_some, ← hw]; exact r1
      · cases happ : append st (placeholder len) with
        | error e => rw [happ] at h; cases h
        | ok st1 =>
          rw [happ] at h; simp only at h
          cases h
          obtain ⟨s', hact', hfit, rfl⟩ := append_ok st st1 _ happ
          rw [hact] at hact'; cases hact'
          have hfit' := hfit
          rw [length_placeholder] at hfit'
          obtain ⟨g1, g2, g3⟩ := hr.core.2 s hact
          obtain ⟨r1, r2⟩ := rel_append st st.tasks
            (st.tasks ++ [{ addr := s.curr, len := len, deps := deps, final := final }])
            _ im s (placeholder len) final hr hact hfit (by rw [length_placeholder]; exact hw)
            (fun t ht => List.mem_append_left _ ht)
            (fun t ht => by
              simp only [List.mem_append, List.mem_singleton] at ht
              rcases ht with ht | rfl
              · exact Or.inl ht
              · refine Or.inr ⟨new_task_ok st s len deps final hr.core hact hfit' hw, ?_⟩
                by_cases hl : len = 0
                · exact Or.inl hl
                · exact Or.inr ⟨curr_eq s (by omega), hw.symm, rfl⟩)
            (Or.inr fun hpos => ⟨_, List.mem_append_right _ (List.mem_singleton.mpr rfl),
              curr_eq s (by rw [length_placeholder] at hpos; omega), (length_placeholder len).symm⟩)
          refine ⟨im.put _ final, fun r => ?_, ?_, r2⟩
          · show pass2 (some (s.base + s.buf.length + final.length)) _ r = _
            simp only [next, Option.map_some, hw]
          · simp only [next, Option.map_some]
            rw [length_placeholder] at r1
            exact r1.congr rfl rfl
  | align n =>
    rw [step_align] at h
    cases hact : st.active with
    | none => rw [hact] at h; cases h
    | some s =>
      have hc : c = some (s.base + s.buf.length) := by rw [← hr.cur]; simp only [pos, hact, Option.map_some]
      subst hc
      obtain ⟨g1, g2, g3⟩ := hr.core.2 s hact
      rw [hact] at h; simp only at h
      split at h
      · cases h
      · rename_i hn
        have hn0 : n ≠ 0 := fun h0 => hn (Or.inl h0)
        split at h
        · rename_i hoff
          cases h
          have hsz : size (s.base + s.buf.length) (.align n) = 0 := by
            rw [size_align, if_neg hn0, if_pos hoff]
          have hnext : next (some (s.base + s.buf.length)) (.align n) = some (s.base + s.buf.length) := by
            simp only [next, Option.map_some, hsz, Nat.add_zero]
          rw [hnext]
          refine ⟨im, fun r => ?_, hr, fun a _ => rfl⟩
          have : ∀ k, k = 0 → pass2 (some (s.base + s.buf.length + (placeholder k).length))
              (im.put (s.base + s.buf.length) (placeholder k)) r = pass2 (some (s.base + s.buf.length)) im r := by
            intro k hk; subst hk; rfl
          exact this _ hsz
        · rename_i hoff
          obtain ⟨s', hact', hfit, rfl⟩ := append_ok st st' _ h
          rw [hact] at hact'; cases hact'
          rw [length_placeholder] at hfit
          have hsz : size (s.base + s.buf.length) (.align n) = n - (s.base + s.buf.length) % n := by
            rw [size_align, if_neg hn0, if_neg hoff]
          obtain ⟨r1, r2⟩ := rel_append st st.tasks st.tasks _ im s
            (placeholder (n - (s.base + s.buf.length) % n)) (placeholder (n - (s.base + s.buf.length) % n))
            hr hact (by rw [length_placeholder]; exact hfit) rfl (fun t ht => ht)
            (fun t ht => Or.inl ht) (Or.inl rfl)
          refine ⟨im.put _ (placeholder (n - (s.base + s.buf.length) % n)), fun r => ?_, ?_, r2⟩
          · show pass2 (some (s.base + s.buf.length + (placeholder (size (s.base + s.buf.length) (.align n))).length))
              (im.put (s.base + s.buf.length) (placeholder (size (s.base + s.buf.length) (.align n)))) r = _
            simp only [next, Option.map_some, hsz, length_placeholder]
          · simp only [next, Option.map_some, hsz]
            rw [length_placeholder] at r1
            exact r1

end Trion.Layout
