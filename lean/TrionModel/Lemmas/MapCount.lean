import TrionModel.Lemmas.MapPut
import TrionModel.Lemmas.MapFind
/-!
# Memory map: `count`, `count_range`, `iter_range`
-/
namespace Trion.Map
open Trion.Dict

/-! ## `count` -/

/-- under `Ok lo ps` the segments lie in `[lo, 2^32)`, are non-empty and separated by gaps -/
theorem occAll_bounds {lo : Nat} {ps : Segs} (ok : Ok lo ps) :
    ps.length ≤ occSegs ps 0 4294967296 ∧
    occSegs ps 0 4294967296 + ps.length ≤ 4294967296 + 1 - lo ∧
    occSegs ps 0 4294967296 ≤ 4294967296 - lo ∧
    (ps.length = 0 → occSegs ps 0 4294967296 = 0) := by
  induction ps generalizing lo with
  | nil => simp [occSegs]
  | cons s r ih =>
    obtain ⟨f, x⟩ := s
    obtain ⟨o1, o2, o3, o4⟩ := ok
    have hx : 0 < x.length := List.length_pos_iff.mpr o2
    obtain ⟨i1, i2, i3, _⟩ := ih o4
    simp only [occSegs, List.length_cons]
    omega

theorem countGo_cons (s : Seg) (r : Segs) (acc : Nat) :
    countGo (s :: r) acc =
      if acc + (segLast s - s.1) > u32Max then .panic else countGo r (acc + (segLast s - s.1)) := rfl

theorem countGo_spec {lo : Nat} {ps : Segs} (ok : Ok lo ps) (acc : Nat)
    (hb : acc + occSegs ps 0 4294967296 ≤ u32Max + ps.length) :
    countGo ps acc = .ok (acc + occSegs ps 0 4294967296 - ps.length) := by
  have hu : u32Max = 4294967295 := rfl
  induction ps generalizing lo acc with
  | nil => simp [countGo, occSegs]
  | cons s r ih =>
    obtain ⟨f, x⟩ := s
    obtain ⟨o1, o2, o3, o4⟩ := ok
    have hx : 0 < x.length := List.length_pos_iff.mpr o2
    obtain ⟨i1, i2, i3, _⟩ := occAll_bounds o4
    simp only [occSegs, List.length_cons] at hb ⊢
    have hs : segLast (f, x) - (f, x).1 = x.length - 1 := by simp only [segLast]; omega
    rw [countGo_cons, hs, if_neg (by omega), ih o4 _ (by omega)]
    congr 1; omega

/-- `count` never panics on a well-formed map and returns (number of occupied addresses saturated at
u32::MAX, number of segments) -/
theorem count_spec {ps : Segs} (inv : MInv ps) :
    count ps = .ok (min (occupied (abs ps) 0 4294967296) u32Max, ps.length) := by
  have ok : Ok 0 ps := inv
  have hu : u32Max = 4294967295 := rfl
  obtain ⟨i1, i2, i3, i4⟩ := occAll_bounds ok
  have ho := occSegs_eq_occupied ok 0 4294967296
  rw [Nat.zero_add] at ho
  unfold count
  rw [countGo_spec ok 0 (by omega)]
  simp only
  rw [← ho, Nat.mod_eq_of_lt (by omega), Nat.zero_add, Nat.sub_add_cancel i1]

/-! ## `count_range` -/

/-- segments meeting the inclusive range lo..hi -/
def meets (lo hi : Nat) (s : Seg) : Bool := decide (s.1 ≤ hi ∧ lo ≤ segLast s)

/-- number of leading segments lying entirely below `lo` -/
def skipBelow (lo : Nat) : Segs → Nat
  | [] => 0
  | s :: r => if segLast s < lo then skipBelow lo r + 1 else 0

theorem skipBelow_le (lo : Nat) (ps : Segs) : skipBelow lo ps ≤ ps.length := by
  induction ps with
  | nil => simp [skipBelow]
  | cons s r ih => simp only [skipBelow, List.length_cons]; split <;> omega

theorem locLin_above_skip (lo : Nat) (ps : Segs) (i : Nat) :
    locLin lo .above ps i =
      if skipBelow lo ps < ps.length then .idx (i + skipBelow lo ps) else .none := by
  induction ps generalizing i with
  | nil => simp [locLin_nil, skipBelow]
  | cons s r ih =>
    rw [locLin_cons, List.length_cons]
    by_cases c1 : lo < s.1
    · have : ¬ segLast s < lo := by unfold segLast; omega
      have e : skipBelow lo (s :: r) = 0 := by simp [skipBelow, this]
      rw [e, if_pos c1, if_pos (show 0 < r.length + 1 by omega)]; rfl
    · by_cases c2 : lo > segLast s
      · have e : skipBelow lo (s :: r) = skipBelow lo r + 1 := by
          have c2' : segLast s < lo := c2
          simp [skipBelow, c2']
        rw [e, if_neg c1, if_pos c2, ih]
        by_cases c3 : skipBelow lo r < r.length
        · rw [if_pos c3, if_pos (by omega)]; congr 1; omega
        · rw [if_neg c3, if_neg (by omega)]
      · have : ¬ segLast s < lo := by omega
        have e : skipBelow lo (s :: r) = 0 := by simp [skipBelow, this]
        rw [e, if_neg c1, if_neg c2, if_pos (show 0 < r.length + 1 by omega)]; rfl

theorem firstIdx_eq {l : Nat} {ps : Segs} (ok : Ok l ps) (lo : Nat) :
    firstIdx ps lo = .ok (skipBelow lo ps) := by
  unfold firstIdx
  rw [locate_eq_locLin ok, locLin_above_skip]
  have := skipBelow_le lo ps
  by_cases c : skipBelow lo ps < ps.length
  · simp [c]
  · simp only [c, if_false]; congr 1; omega

theorem Ok_mem {l : Nat} {ps : Segs} (ok : Ok l ps) {t : Seg} (h : t ∈ ps) : l ≤ t.1 := by
  induction ps generalizing l with
  | nil => simp at h
  | cons s r ih =>
    obtain ⟨f, x⟩ := s
    obtain ⟨o1, _, _, o4⟩ := ok
    rcases List.mem_cons.mp h with rfl | h
    · exact o1
    · have := ih o4 h; omega

/-- dropping the leading segments below `lo` changes neither the covered addresses of `[lo, hi]` nor the
segments meeting it; every remaining segment ends at or above `lo` -/
theorem skipBelow_drop {l : Nat} {ps : Segs} (ok : Ok l ps) (lo hi : Nat) :
    (∀ s ∈ ps.drop (skipBelow lo ps), lo ≤ segLast s) ∧
    occSegs (ps.drop (skipBelow lo ps)) lo (hi + 1) = occSegs ps lo (hi + 1) ∧
    (ps.drop (skipBelow lo ps)).filter (meets lo hi) = ps.filter (meets lo hi) ∧
    Ok l (ps.drop (skipBelow lo ps)) := by
  induction ps generalizing l with
  | nil => simp [skipBelow, Ok]
  | cons s r ih =>
    obtain ⟨f, x⟩ := s
    obtain ⟨o1, o2, o3, o4⟩ := ok
    have hsl : segLast (f, x) = f + x.length - 1 := rfl
    by_cases c : segLast (f, x) < lo
    · have e : skipBelow lo ((f, x) :: r) = skipBelow lo r + 1 := by simp [skipBelow, c]
      rw [e, List.drop_succ_cons]
      obtain ⟨i1, i2, i3, i4⟩ := ih o4
      refine ⟨i1, ?_, ?_, Ok_mono (by omega) i4⟩
      · rw [i2]; simp only [occSegs]; omega
      · rw [i3, List.filter_cons_of_neg]
        simp only [meets, decide_eq_true_eq]; omega
    · have e : skipBelow lo ((f, x) :: r) = 0 := by simp [skipBelow, c]
      rw [e, List.drop_zero]
      refine ⟨?_, rfl, rfl, o1, o2, o3, o4⟩
      intro t ht
      rcases List.mem_cons.mp ht with rfl | ht
      · omega
      · have := Ok_mem o4 ht
        unfold segLast at c ⊢; simp only at c; omega

theorem meets_bounds {l : Nat} {q : Segs} (ok : Ok l q) (lo hi : Nat) (h : lo ≤ hi)
    (hq : ∀ s ∈ q, lo ≤ segLast s) :
    (q.filter (meets lo hi)).length ≤ occSegs q lo (hi + 1) ∧
    ((q.filter (meets lo hi)).length = 0 → occSegs q lo (hi + 1) = 0) := by
  induction q generalizing l with
  | nil => simp [occSegs]
  | cons s r ih =>
    obtain ⟨f, x⟩ := s
    obtain ⟨o1, o2, o3, o4⟩ := ok
    have hx : 0 < x.length := List.length_pos_iff.mpr o2
    have hs : lo ≤ f + x.length - 1 := hq (f, x) (List.mem_cons_self ..)
    obtain ⟨i1, i2⟩ := ih o4 (fun s hs => hq s (List.mem_cons_of_mem _ hs))
    by_cases c : f ≤ hi
    · have hm : meets lo hi (f, x) = true := by
        simp only [meets, decide_eq_true_eq]; exact ⟨c, hs⟩
      rw [List.filter_cons_of_pos hm]
      simp only [occSegs, List.length_cons]
      omega
    · have hm : ¬ meets lo hi (f, x) = true := by
        simp only [meets, decide_eq_true_eq]; omega
      rw [List.filter_cons_of_neg hm]
      simp only [occSegs]
      omega

theorem countRangeGo_cons (lo hi : Nat) (s : Seg) (r : Segs) (addrs cnt : Nat) :
    countRangeGo lo hi (s :: r) addrs cnt =
      if s.1 ≤ hi then
        if segLast s < lo then .panic else
        if min (segLast s) hi < max s.1 lo then .panic else
        if addrs + (min (segLast s) hi - max s.1 lo) > u32Max then .panic
        else countRangeGo lo hi r (addrs + (min (segLast s) hi - max s.1 lo)) (cnt + 1)
      else countRangeGo lo hi r addrs cnt := rfl

theorem countRangeGo_spec {l : Nat} {q : Segs} (ok : Ok l q) (lo hi : Nat) (h : lo ≤ hi)
    (hq : ∀ s ∈ q, lo ≤ segLast s) (addrs cnt : Nat)
    (hb : addrs + occSegs q lo (hi + 1) ≤ u32Max + (q.filter (meets lo hi)).length) :
    countRangeGo lo hi q addrs cnt =
      .ok (addrs + occSegs q lo (hi + 1) - (q.filter (meets lo hi)).length,
           cnt + (q.filter (meets lo hi)).length) := by
  have hu : u32Max = 4294967295 := rfl
  induction q generalizing l addrs cnt with
  | nil => simp [countRangeGo, occSegs]
  | cons s r ih =>
    obtain ⟨f, x⟩ := s
    obtain ⟨o1, o2, o3, o4⟩ := ok
    have hx : 0 < x.length := List.length_pos_iff.mpr o2
    have hsl : segLast (f, x) = f + x.length - 1 := rfl
    have hs : lo ≤ f + x.length - 1 := hq (f, x) (List.mem_cons_self ..)
    have hq' : ∀ s ∈ r, lo ≤ segLast s := fun s hs => hq s (List.mem_cons_of_mem _ hs)
    obtain ⟨i1, i2⟩ := meets_bounds o4 lo hi h hq'
    rw [countRangeGo_cons]
    simp only [hsl]
    by_cases c : f ≤ hi
    · have hm : meets lo hi (f, x) = true := by
        simp only [meets, decide_eq_true_eq]; exact ⟨c, hs⟩
      rw [List.filter_cons_of_pos hm] at hb ⊢
      simp only [occSegs, List.length_cons] at hb ⊢
      rw [if_pos c, if_neg (by omega), if_neg (by omega), if_neg (by omega),
        ih o4 hq' _ _ (by omega)]
      congr 2 <;> omega
    · have hm : ¬ meets lo hi (f, x) = true := by
        simp only [meets, decide_eq_true_eq]; omega
      rw [List.filter_cons_of_neg hm] at hb ⊢
      simp only [occSegs] at hb ⊢
      rw [if_neg c, ih o4 hq' _ _ (by omega)]
      congr 2; omega

theorem occupied_le (D : Dict) (a n : Nat) : occupied D a n ≤ n := by
  unfold occupied
  exact Nat.le_trans (List.length_filter_le _ _) (by simp)

theorem countRange_spec {ps : Segs} (inv : MInv ps) (lo hi : Nat) (h : lo ≤ hi) (hh : hi ≤ u32Max) :
    countRange ps lo hi =
      .ok (min (occupied (abs ps) lo (hi + 1 - lo)) u32Max, (ps.filter (meets lo hi)).length) := by
  have ok : Ok 0 ps := inv
  have hu : u32Max = 4294967295 := rfl
  obtain ⟨d1, d2, d3, d4⟩ := skipBelow_drop ok lo hi
  obtain ⟨b1, b2⟩ := meets_bounds d4 lo hi h d1
  rw [d2, d3] at b1 b2
  have ho := occSegs_eq_occupied ok lo (hi + 1 - lo)
  rw [show lo + (hi + 1 - lo) = hi + 1 by omega] at ho
  have hocc := occupied_le (abs ps) lo (hi + 1 - lo)
  obtain ⟨l1, l2, l3, _⟩ := occAll_bounds ok
  have hm : (ps.filter (meets lo hi)).length ≤ ps.length := List.length_filter_le _ _
  have hsk := skipBelow_le lo ps
  unfold countRange
  rw [firstIdx_eq ok]
  simp only
  rw [if_neg (by omega), countRangeGo_spec d4 lo hi h d1 0 0 (by rw [d2, d3]; omega)]
  simp only
  rw [d2, d3, ← ho, Nat.mod_eq_of_lt (by omega), Nat.zero_add, Nat.zero_add, Nat.sub_add_cancel b1]

/-! ## `iter_range` -/

theorem iterRangeGo_cons (lo hi : Nat) (s : Seg) (r : Segs) :
    iterRangeGo lo hi (s :: r) =
      if s.1 ≤ hi then
        if (if hi ≥ segLast s then 0 else segLast s - hi) > s.2.length then .panic
        else if (if lo ≤ s.1 then 0 else lo - s.1) >
            s.2.length - (if hi ≥ segLast s then 0 else segLast s - hi) then .panic
        else match iterRangeGo lo hi r with
          | .panic => .panic
          | .ok rest =>
            .ok (((if lo ≤ s.1 then s.1 else lo, if hi ≥ segLast s then segLast s else hi),
              (s.2.take (s.2.length - (if hi ≥ segLast s then 0 else segLast s - hi))).drop
                (if lo ≤ s.1 then 0 else lo - s.1)) :: rest)
      else .ok [] := rfl

theorem iterRangeGo_spec {l : Nat} {q : Segs} (ok : Ok l q) (lo hi : Nat) (h : lo ≤ hi)
    (hq : ∀ s ∈ q, lo ≤ segLast s) :
    iterRangeGo lo hi q = .ok ((q.filter (meets lo hi)).map fun s =>
      ((max s.1 lo, min (segLast s) hi),
        (s.2.take (min (segLast s) hi + 1 - s.1)).drop (max s.1 lo - s.1))) := by
  induction q generalizing l with
  | nil => simp [iterRangeGo]
  | cons s r ih =>
    obtain ⟨f, x⟩ := s
    obtain ⟨o1, o2, o3, o4⟩ := ok
    have hx : 0 < x.length := List.length_pos_iff.mpr o2
    have hsl : segLast (f, x) = f + x.length - 1 := rfl
    have hs : lo ≤ f + x.length - 1 := hq (f, x) (List.mem_cons_self ..)
    have hq' : ∀ s ∈ r, lo ≤ segLast s := fun s hs => hq s (List.mem_cons_of_mem _ hs)
    rw [iterRangeGo_cons]
    by_cases c : f ≤ hi
    · have hm : meets lo hi (f, x) = true := by
        simp only [meets, decide_eq_true_eq]; exact ⟨c, hs⟩
      have e1 : (if lo ≤ f then 0 else lo - f) = max f lo - f := by split <;> omega
      have e2 : (if lo ≤ f then f else lo) = max f lo := by split <;> omega
      have e3 : (if hi ≥ f + x.length - 1 then 0 else f + x.length - 1 - hi) = f + x.length - 1 - hi := by
        split <;> omega
      have e4 : (if hi ≥ f + x.length - 1 then f + x.length - 1 else hi) = min (f + x.length - 1) hi := by
        split <;> omega
      have e5 : x.length - (f + x.length - 1 - hi) = min (f + x.length - 1) hi + 1 - f := by omega
      rw [List.filter_cons_of_pos hm, List.map_cons, ih o4 hq']
      simp only [hsl, e1, e2, e3, e4, e5]
      rw [if_pos c, if_neg (by omega), if_neg (by omega)]
    · have hm : (((f, x) :: r).filter (meets lo hi)) = [] := by
        rw [List.filter_eq_nil_iff]
        intro t ht
        simp only [meets, decide_eq_true_eq]
        rcases List.mem_cons.mp ht with rfl | ht
        · omega
        · have := Ok_mem o4 ht; omega
      rw [hm, if_neg c]; rfl

theorem iterRange_spec {ps : Segs} (inv : MInv ps) (lo hi : Nat) (h : lo ≤ hi) (_hh : hi ≤ u32Max) :
    iterRange ps lo hi = .ok ((ps.filter (meets lo hi)).map fun s =>
      ((max s.1 lo, min (segLast s) hi),
        (s.2.take (min (segLast s) hi + 1 - s.1)).drop (max s.1 lo - s.1))) := by
  have ok : Ok 0 ps := inv
  obtain ⟨d1, d2, d3, d4⟩ := skipBelow_drop ok lo hi
  unfold iterRange
  rw [firstIdx_eq ok]
  simp only
  rw [iterRangeGo_spec d4 lo hi h d1, d3]

end Trion.Map
