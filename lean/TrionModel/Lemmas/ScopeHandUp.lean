import TrionModel.Lemmas.ScopeRetry
/-! C14: which `.du32` retries a file hands to its includer — only those whose name the file's OWN table has announced
(an entry without a value: `.import` of a name the includer announced, or `.global`). -/
namespace Trion.Scope

/-- a task the file with task list `ts` and table `l` may hand to its includer: the stage-2 form of one of its own
`.du32 n` retries, for a name `n` that `l` has announced (entry present, no value) -/
def Handed (ts : List Task) (l : Table) (t : Task) : Prop :=
  ∃ n c c0 tag, t = .use n c tag true ∧ Task.use n c0 tag false ∈ ts ∧ l.find n = some none

/-- everything new in `global_tasks` (the includer's list while the file is open) is `Handed` -/
def HandUp (ts : List Task) (l : Table) (s s' : State) : Prop :=
  ∀ t ∈ s'.globalTasks, t ∈ s.globalTasks ∨ Handed ts l t

theorem HandUp.refl (ts : List Task) (l : Table) (s : State) : HandUp ts l s s := fun _ h => .inl h

theorem HandUp.of_eq {ts : List Task} {l : Table} {s s' : State} (h : s'.globalTasks = s.globalTasks) :
    HandUp ts l s s' := fun t ht => .inl (h ▸ ht)

theorem HandUp.trans {ts : List Task} {l : Table} {a b c : State} (h1 : HandUp ts l a b) (h2 : HandUp ts l b c) :
    HandUp ts l a c := by
  intro t ht
  rcases h2 t ht with h | h
  · exact h1 t h
  · exact .inr h

theorem HandUp.mono {ts ts' : List Task} {l : Table} {s s' : State} (h : HandUp ts l s s')
    (hs : ∀ t ∈ ts, t ∈ ts') : HandUp ts' l s s' := by
  intro t ht
  rcases h t ht with h | ⟨n, c, c0, tag, e, hm, hf⟩
  · exact .inl h
  · exact .inr ⟨n, c, c0, tag, e, hs _ hm, hf⟩

/-- a retry (`local = false`) reports "deferred" only for a name the table it reads has ANNOUNCED; an unknown name is
the diagnostic `no such local constant` -/
theorem applyUse_deferred {s s' : State} {l : Table} {n : Bytes} {c c' : Option Int} {tag stage : Nat}
    (hd : s.depth ≠ 0) (hl : s.locals = some l)
    (h : applyUse s n c tag stage false = .ok (s', .ok .deferred, c')) : l.find n = some none := by
  unfold applyUse at h
  split at h
  · split at h <;> cases h
  · split at h
    · cases h
    · simp only [State.hasCurrFile, hd, ne_eq, not_false_eq_true, decide_true, if_true, getConstant, hl] at h
      split at h
      · cases h
      · simp at h
      · rename_i hg; exact get_deferred (Except.ok.inj hg)
      · split at h <;> cases h

theorem runTask_handUp {s s' : State} {ts : List Task} {l : Table} {t : Task} {r : Option Level}
    (hd : s.depth ≠ 0) (hl : s.locals = some l) (ht : t ∈ ts) (h : runTask s t = .ok (s', r)) :
    HandUp ts l s s' := by
  cases t with
  | globalCopy n tag =>
    simp only [runTask] at h
    unfold runGlobalCopy at h
    split at h
    · cases h
    · cases h; exact .of_eq rfl
    · cases h; exact .of_eq rfl
    · split at h
      · cases h
      · rename_i hi; cases h; exact .of_eq (insertConstant_tasks hi).2
      · rename_i hi; cases h; exact .of_eq (insertConstant_tasks hi).2
      · cases h
  | use n c tag g =>
    simp only [runTask] at h
    unfold runUse at h
    split at h
    · cases h
    · rename_i ha; cases h; exact .of_eq (applyUse_ltasks ha).2.1
    · rename_i s1 c' ha
      split at h
      · cases h; exact .of_eq (applyUse_ltasks ha).2.1
      · rename_i hg
        split at h
        · cases h
        · rename_i hadd; cases h
          simp only [addTask] at hadd; cases hadd
          have hg' : g = false := by simpa using hg
          subst hg'
          have hann := applyUse_deferred hd hl ha
          intro t htm
          simp only [List.mem_append, List.mem_singleton] at htm
          rcases htm with htm | rfl
          · exact .inl ((applyUse_ltasks ha).2.1 ▸ htm)
          · exact .inr ⟨n, c', c, tag, rfl, ht, hann⟩
    · rename_i ha; cases h; exact .of_eq (applyUse_ltasks ha).2.1

theorem drain_handUp {l : Table} : ∀ (ts : List Task) {s s' : State} {r r' : Option Level},
    s.depth ≠ 0 → s.locals = some l → drain s r ts = .ok (s', r') →
    HandUp ts l s s' ∧ s'.locals = some l ∧ s'.depth = s.depth ∧ s'.localTasks = s.localTasks
  | [], s, s', r, r', _, hl, h => by
    simp only [drain] at h; cases h; exact ⟨.refl _ _ _, hl, rfl, rfl⟩
  | t :: ts, s, s', r, r', hd, hl, h => by
    simp only [drain] at h
    have step1 : ∀ {s1 : State} {r1 : Option Level}, runTask s t = .ok (s1, r1) →
        HandUp (t :: ts) l s s1 ∧ s1.locals = some l ∧ s1.depth = s.depth ∧ s1.localTasks = s.localTasks :=
      fun h1 => ⟨runTask_handUp hd hl (by simp) h1, (runTask_keeps h1).1.trans hl, (runTask_keeps h1).2.2,
        (runTask_keeps h1).2.1⟩
    have rest : ∀ {s1 : State} {r1 : Option Level}, s1.depth = s.depth → s1.locals = some l →
        drain s1 r1 ts = .ok (s', r') →
        HandUp (t :: ts) l s1 s' ∧ s'.locals = some l ∧ s'.depth = s1.depth ∧ s'.localTasks = s1.localTasks :=
      fun hd1 hl1 h2 =>
        let ⟨a, b, c, d⟩ := drain_handUp ts (hd1 ▸ hd) hl1 h2
        ⟨a.mono (by simp +contextual), b, c, d⟩
    split at h
    · cases h
    · rename_i s1 h1
      obtain ⟨a1, b1, c1, d1⟩ := step1 h1
      obtain ⟨a2, b2, c2, d2⟩ := rest c1 b1 h
      exact ⟨a1.trans a2, b2, c2.trans c1, d2.trans d1⟩
    · rename_i s1 lvl h1
      obtain ⟨a1, b1, c1, d1⟩ := step1 h1
      split at h
      · cases h; exact ⟨a1, b1, c1, d1⟩
      · obtain ⟨a2, b2, c2, d2⟩ := rest c1 b1 h
        exact ⟨a1.trans a2, b2, c2.trans c1, d2.trans d1⟩

theorem localLoop_handUp {l : Table} (fuel : Nat) {s s' : State} {r r' : Option Level} (ts : List Task)
    (hd : s.depth ≠ 0) (hl : s.locals = some l) (hlt : s.localTasks = some [])
    (h : localLoop (fuel + 1) s r ts = .ok (s', r')) : HandUp ts l s s' := by
  cases ts with
  | nil => simp only [localLoop] at h; cases h; exact .refl _ _ _
  | cons t ts =>
    simp only [localLoop] at h
    split at h
    · cases h
    · rename_i s1 r1 hdr
      obtain ⟨a1, _, _, d1⟩ := drain_handUp (t :: ts) hd hl hdr
      have hn : s1.localTasks = some [] := d1.trans hlt
      rw [hn] at h
      simp only at h
      have a2 : HandUp (t :: ts) l s1 { s1 with localTasks := some [] } := .of_eq rfl
      split at h
      · cases h; exact a1.trans a2
      · cases fuel <;> (simp only [localLoop] at h; cases h; exact a1.trans a2)

/-- the list that receives what a file hands up: the includer's `local_tasks`, or the real global list -/
def outTasks (s : State) : List Task :=
  match s.localTasks with
  | some l => l
  | none => s.globalTasks

/-- one `exit`: the includer's task list afterwards holds what it held before plus `Handed` tasks only -/
theorem exit_handUp {s s' : State} {res : Option Level} {l : Table} {ts : List Task} (hd : s.depth ≠ 0)
    (hl : s.locals = some l) (hts : s.localTasks = some ts) (hf : s.frames ≠ []) (h : exitFile s res = .ok s') :
    ∀ t ∈ outTasks s', t ∈ s.globalTasks ∨ Handed ts l t := by
  unfold exitFile at h
  split at h
  · rename_i hnil; exact absurd hnil hf
  · rename_i f fs hfr
    simp only at h
    split at h
    · cases h
    · rename_i mid r' hloop
      have hx : HandUp ts l s mid := by
        split at hloop
        · cases hloop; exact .refl _ _ _
        · rw [hts] at hloop
          simp only at hloop
          have a0 : HandUp ts l s { s with localTasks := some [] } := .of_eq rfl
          exact a0.trans (localLoop_handUp 1 ts (s := { s with localTasks := some [] }) hd hl rfl hloop)
      split at h
      · cases h
      · rename_i s2 hin
        have hout : outTasks s2 = mid.globalTasks := by
          unfold intoInner at hin
          split at hin
          · cases hin
          · split at hin
            · cases hin
            · cases hin
              unfold outTasks
              cases f.tasks <;> cases f.constants <;> rfl
        have hfin : outTasks s' = mid.globalTasks := by
          split at h <;> cases h <;> exact hout
        rw [hfin]
        exact hx

end Trion.Scope
