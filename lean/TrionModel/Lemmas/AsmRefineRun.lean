import TrionModel.Lemmas.AsmRefineStmt
import TrionModel.Lemmas.AsmLocals
/-!
# The statement loop, the task loop and the whole run of a single file against the layout core
-/
namespace Trion.Asm
open Trion Trion.SegLayout

section
variable {num : Bytes → Nat} {enc : Encoder} {t₂ : Table}

/-! ## the statement loop -/

theorem doAssemble_sim (hinj : Function.Injective num) (henc : EncLen enc) (fs : Bytes → Option Bytes) (inc : Inc)
    (hinc : IncOk inc) (hincg : IncGrew inc) (env : Env) (path : Bytes) (henv : env.paths = [path]) (perr : Option ParseErr) :
    ∀ (els : List Element) (st stf : St) (l : Layout.State), (∀ el ∈ els, okEl el = true) →
      Sim num enc t₂ st l → doAssemble fs enc inc env els perr st = .ok (stf, .ok) → stf.errors = [] →
      stf.locals = some t₂ →
      ∃ lf, Layout.steps l (abstract num fs enc path t₂ (cursor st) els) = .ok lf ∧ Sim num enc t₂ stf lf := by
  have henv' : env.paths.isEmpty = false := by rw [henv]; rfl
  intro els
  induction els with
  | nil =>
    intro st stf l _ sim h herr hfin
    cases perr with
    | none => simp only [doAssemble] at h; cases h; exact ⟨l, rfl, sim⟩
    | some e => simp only [doAssemble] at h; cases h
  | cons el els ih =>
    intro st stf l hok sim h herr hfin
    simp only [doAssemble] at h
    split at h
    · rename_i st1 hs
      have hok' := fun x hx => hok x (List.mem_cons_of_mem _ hx)
      have g1 := (doAssemble_grew hincg perr els st1 stf _ h)
      have herr1 : st1.errors = [] := (grew_nil g1 herr).1
      have hloc := doAssemble_loc perr els st1 stf _ (fun x hx => hok' x hx) h
      have hT : ∀ t', st1.locals = some t' → Table.Sub t' t₂ := by
        intro t' ht'
        obtain ⟨t'', e1, e2⟩ := hloc t' ht'
        rw [hfin] at e1; cases e1; exact e2
      obtain ⟨l1, s1, s2, s3⟩ := statement_sim hinj henc sim fs inc env path henv el
        (hok el List.mem_cons_self) hs herr1 hT
      have good1 := ((statement_safe henc hinc sim.good henv' fs el).2 _ _ hs).1
      obtain ⟨lf, f1, f2⟩ := ih st1 stf l1 hok' ⟨good1, s2.r, s2.tbl, s2.tasks, s2.gl⟩ h herr hfin
      refine ⟨lf, ?_, f2⟩
      simp only [abstract, Layout.steps, s1]
      rw [← s3]
      exact f1
    · cases h
    · cases h

/-! ## the tasks -/

theorem conv_deferred_false (e : Arg → Front.EvalOut) (hnd : ∀ a c x, e a ≠ .deferred c x) : ∀ (ks : List Front.Kind)
    (pos : Nat) (pre rest : List Arg) (done : Nat) (instr : Instr) (vals : List Front.Val) (A : List Arg) (D : Nat)
    (I : Instr) (c : Bytes), Front.conv e false ks pos pre rest done instr vals ≠ .stop A D I (.deferred c) := by
  intro ks
  induction ks with
  | nil => intro pos pre rest done instr vals A D I c h; simp [Front.conv] at h
  | cons k ks ih =>
    intro pos pre rest done instr vals A D I c h
    cases rest with
    | nil => simp only [Front.conv] at h; cases h
    | cons a rest =>
      simp only [Front.conv] at h
      cases hg : Front.get k e false pos done a with
      | ok v a' d' => rw [hg] at h; exact ih _ _ _ _ _ _ _ _ _ _ h
      | stop a' d' r =>
        rw [hg] at h
        simp only [Front.ConvOut.stop.injEq] at h
        obtain ⟨_, _, _, h4⟩ := h
        subst h4
        cases hk : k.evals with
        | false => exact absurd hg ((Front.get_nonevals hk).2 _ _ _)
        | true =>
          rw [Front.get_eq_post k hk] at hg
          cases he : Front.evalArg e false pos done a with
          | ok p => obtain ⟨x, d⟩ := p; rw [he] at hg; exact absurd hg Front.post_not_deferred
          | error p =>
            obtain ⟨x, r⟩ := p
            rw [he] at hg
            simp only [Front.GetOut.stop.injEq] at hg
            obtain ⟨_, _, h3⟩ := hg
            subst h3
            unfold Front.evalArg at he
            split at he
            · cases hf : e a with
              | complete y => rw [hf] at he; cases he
              | deferred c' y => exact absurd hf (hnd _ _ _)
              | noSuchVariable n y => rw [hf] at he; simp at he
              | error er y => rw [hf] at he; cases he
            · cases he

theorem assemble_not_deferred {t : Table} (hn : Table.NoDef t) (st : Front.St) (fs2 : Front.St) (c : Bytes) :
    Front.assemble st (frontEval t) false ≠ (fs2, .deferred c) := by
  intro h
  unfold Front.assemble at h
  simp only at h
  split at h
  · cases h
  · split at h
    · cases h
    · cases hc : Front.conv (frontEval t) false (Front.kinds st.instr) 0 [] st.args st.argsDone st.instr [] with
      | stop A D I r =>
        rw [hc] at h; simp only [Prod.mk.injEq] at h
        obtain ⟨_, h2⟩ := h
        subst h2
        exact conv_deferred_false _ (fun a c x => frontEval_not_deferred hn a c x) _ _ _ _ _ _ _ _ _ _ _ hc
      | ok A D I V => rw [hc] at h; simp only at h; split at h <;> cases h

/-- the state of `Asm` while the local tasks run, against the layout core -/
structure TSim (num : Bytes → Nat) (t₂ : Table) (st : St) (l : Layout.State) : Prop where
  good : Good true st
  r : R st.seg l
  loc : st.locals = some t₂
  nodef : Table.NoDef t₂
  env : EnvRel num t₂ l.env
  lq : st.localTasks = some []
  gl : st.globalTasks = []

theorem rewrite_step_sim {st : St} {l : Layout.State} (good : Good true st) (r : R st.seg l) {addr : Nat} {d : Bytes}
    (hp : (addr, d.length) ∈ st.seg.pending) {s' : Seg.State} {p' : Bool} {e : Option Seg.Diag}
    (h : writeStmt st.seg true addr d = .ok (s', p', e)) :
    e = none ∧ ∃ l', Layout.rewrite l addr d = .ok l' ∧ R s' l' ∧ l'.env = l.env ∧ l'.tasks = l.tasks := by
  unfold writeStmt at h
  simp only [Bool.not_true, Bool.false_and, Bool.false_eq_true, if_false] at h
  obtain ⟨_, hsr⟩ := segStep_rewrite good.inv addr d hp
  cases hs : segStep st.seg (.rewrite addr d) with
  | stop x => rw [hs] at h; cases h
  | ok p =>
    obtain ⟨s1, o⟩ := p
    rw [hs] at h
    obtain ⟨ho, _, _, hstep⟩ := hsr _ _ hs
    subst ho
    simp only [Out.ok.injEq, Prod.mk.injEq] at h
    obtain ⟨h1, _, h3⟩ := h
    subst h1
    obtain ⟨_, l', q1, q2, q3, q4⟩ := rewrite_sim good.inv r addr d hp
    have : (Seg.rewrite st.seg addr d).1 = s1 := by
      have : Seg.rewrite st.seg addr d = (s1, .ok) := hstep
      rw [this]
    rw [this] at q2
    exact ⟨h3.symm, l', q1, q2, q3, q4⟩

theorem runTask_sim (henc : EncLen enc) {st st' : St} {l : Layout.State} (ts : TSim num t₂ st l) (env : Env)
    (henv : env.paths.isEmpty = false) (task : Task) (lt : Layout.Task) (hrel : TaskRel num enc t₂ task lt)
    (hok : TaskOk st.seg.pending task) (h : runTask enc env st task = .ok (st', .ok)) :
    ∃ l', l.env.hasAll lt.deps = true ∧ Layout.rewrite l lt.addr lt.final = .ok l' ∧ TSim num t₂ st' l' ∧
      st'.seg.pending = st.seg.pending := by
  have hsafe := (runTask_safe henc ts.good (by simpa using henv) task hok (fun hh => by cases hh)).2 _ _ h
  cases task with
  | globalCopy n l c => exact hrel.elim
  | instr i g =>
    obtain ⟨hg, hpl, haddr, hlen, tpl, args, t₁, c, hsub, hnd₁, hfirst, hdeps, hfinal⟩ := hrel
    subst hg
    obtain ⟨_, hpend⟩ := hok
    simp only [runTask, runInstrTask] at h
    cases has : i.assemble env st false with
    | stop r => rw [has] at h; cases h
    | ok p =>
      obtain ⟨i1, st1, op⟩ := p
      rw [has] at h
      simp only [ArmInstr.assemble, evalTable, henv, ts.loc, evalPanics_false, Bool.false_eq_true, if_false] at has
      cases hfa : Front.assemble i.st (frontEval t₂) false with
      | mk fs2 r =>
        rw [hfa] at has
        have hkeep := Front.assemble_keeps i.st (frontEval t₂) false
        rw [hfa] at hkeep
        simp only at hkeep
        obtain ⟨hka, hkl⟩ := hkeep
        cases r with
        | panic => cases has
        | deferred c' => exact absurd hfa (assemble_not_deferred ts.nodef _ _ _)
        | error dg =>
          simp only [Out.ok.injEq, Prod.mk.injEq] at has
          obtain ⟨_, _, hop⟩ := has
          subst hop
          simp at h
        | completed =>
          simp only [Out.ok.injEq, Prod.mk.injEq] at has
          obtain ⟨hi1, hst1, hop⟩ := has
          subst hi1; subst hst1; subst hop
          simp only at h
          cases hw : ArmInstr.writeInstr enc { i with st := fs2 } st false with
          | stop r => rw [hw] at h; cases h
          | ok q2 =>
            obtain ⟨i2, st2, r⟩ := q2
            rw [hw] at h
            simp only [Out.ok.injEq, Prod.mk.injEq] at h
            obtain ⟨h1, h2⟩ := h
            subst h1; subst h2
            unfold ArmInstr.writeInstr at hw
            cases he : enc fs2.instr with
            | error e => simp only [he] at hw; simp at hw
            | ok bytes =>
              simp only [he, Bool.false_eq_true, if_false, hpl] at hw
              have hbl : bytes.length = ilen i.st.instr := by rw [henc _ _ he, hkl]
              cases hws : writeStmt st.seg true fs2.addr bytes with
              | stop r => rw [hws] at hw; cases hw
              | ok q3 =>
                obtain ⟨s', p', e⟩ := q3
                rw [hws] at hw
                rw [hka] at hws
                obtain ⟨he', l', q1, q2, q3', q4⟩ := rewrite_step_sim ts.good ts.r (by rw [hbl]; exact hpend) hws
                subst he'
                simp only [Out.ok.injEq, Prod.mk.injEq, and_true] at hw
                obtain ⟨_, hst2⟩ := hw
                subst hst2
                -- the retry theorem: the re-run is the fresh run over the final table
                have hretry := assemble_retry_tables_all hsub hnd₁ i.st.addr tpl args i.st c hfirst false
                rw [hfa] at hretry
                have hfresh := assemble_completed_loc true hretry.symm
                have hfin : lt.final = bytes := by
                  rw [hfinal]; simp only [instrFinal, hfresh, he]
                have hall : l.env.hasAll lt.deps = true := by
                  rw [hdeps]; exact hasAll_of_known ts.env ts.nodef (assemble_completed_deps hfresh)
                have hpend' : s'.pending = st.seg.pending := by
                  obtain ⟨_, hsr⟩ := segStep_rewrite ts.good.inv i.st.addr bytes (by rw [hbl]; exact hpend)
                  unfold writeStmt at hws
                  simp only [Bool.not_true, Bool.false_and, Bool.false_eq_true, if_false] at hws
                  cases hs : segStep st.seg (.rewrite i.st.addr bytes) with
                  | stop x => rw [hs] at hws; cases hws
                  | ok p =>
                    obtain ⟨s1, o⟩ := p
                    rw [hs] at hws
                    obtain ⟨ho, _, hp3, _⟩ := hsr _ _ hs
                    subst ho
                    simp only [Out.ok.injEq, Prod.mk.injEq] at hws
                    rw [← hws.1]; exact hp3
                refine ⟨l', hall, by rw [haddr, hfin]; exact q1,
                  ⟨hsafe.1, q2, ts.loc, ts.nodef, by rw [q3']; exact ts.env, ts.lq, ts.gl⟩, hpend'⟩
  | data d g =>
    obtain ⟨hg, hpl, haddr, hlen, a, t₁, n, hsub, hnd₁, hfirst, hdeps, hfinal⟩ := hrel
    subst hg
    obtain ⟨_, hpend⟩ := hok
    simp only [runTask, runDataTask] at h
    cases hap : d.apply env st false with
    | stop r => rw [hap] at h; cases h
    | ok p =>
      obtain ⟨d1, st1, op⟩ := p
      rw [hap] at h
      unfold DataExpr.apply at hap
      rw [evalArg_eq henv ts.loc] at hap
      have hretry := data_retry_all hsub hnd₁ hfirst
      obtain ⟨ev, hev⟩ := evalIn_ok t₂ d.arg
      rw [hev] at hap
      cases ev with
      | deferred c x => exact absurd hev (evalIn_not_deferred ts.nodef _ _ _)
      | err e x =>
        simp only [Out.ok.injEq, Prod.mk.injEq] at hap
        obtain ⟨_, _, hop⟩ := hap
        subst hop
        simp at h
      | noSuch m x =>
        simp only [Bool.false_eq_true, if_false, Out.ok.injEq, Prod.mk.injEq] at hap
        obtain ⟨_, _, hop⟩ := hap
        subst hop
        simp at h
      | complete x =>
        simp only at hap
        cases hw : ({ d with arg := x } : DataExpr).writer st with
        | stop r => rw [hw] at hap; cases hap
        | ok q2 =>
          obtain ⟨d2, st2, r⟩ := q2
          rw [hw] at hap
          cases r with
          | err lv =>
            simp only [Out.ok.injEq, Prod.mk.injEq] at hap
            obtain ⟨_, _, hop⟩ := hap
            subst hop
            simp at h
          | ok =>
            simp only [Out.ok.injEq, Prod.mk.injEq] at hap
            obtain ⟨_, hst1, hop⟩ := hap
            subst hst1; subst hop
            simp only [Out.ok.injEq, Prod.mk.injEq, and_true] at h
            subst h
            unfold DataExpr.writer at hw
            cases x with
            | const v =>
              simp only at hw
              by_cases hv : 0 ≤ v ∧ v ≤ d.du.max
              · rw [if_pos hv] at hw
                unfold DataExpr.writeData at hw
                simp only [hpl] at hw
                have hbl : (leBytes d.du.size v.toNat).length = d.du.size := leBytes_length _ _
                cases hws : writeStmt st.seg true d.addr (leBytes d.du.size v.toNat) with
                | stop r => rw [hws] at hw; cases hw
                | ok q3 =>
                  obtain ⟨s', p', e⟩ := q3
                  rw [hws] at hw
                  obtain ⟨he', l', q1, q2, q3', q4⟩ := rewrite_step_sim ts.good ts.r (by rw [hbl]; exact hpend) hws
                  subst he'
                  simp only [Out.ok.injEq, Prod.mk.injEq, and_true] at hw
                  obtain ⟨_, hst2⟩ := hw
                  subst hst2
                  have hev' : evalIn t₂ a = .ok (.complete (.const v)) := by rw [← hretry]; exact hev
                  have hfin : lt.final = leBytes d.du.size v.toNat := by
                    rw [hfinal]; simp only [duFinal, constVal, hev', hv, and_self, if_true]
                  have hall : l.env.hasAll lt.deps = true := by
                    rw [hdeps]; exact hasAll_of_known ts.env ts.nodef (evalIn_complete_idents hev')
                  have hpend' : s'.pending = st.seg.pending := by
                    obtain ⟨_, hsr⟩ := segStep_rewrite ts.good.inv d.addr (leBytes d.du.size v.toNat) (by rw [hbl]; exact hpend)
                    unfold writeStmt at hws
                    simp only [Bool.not_true, Bool.false_and, Bool.false_eq_true, if_false] at hws
                    cases hs : segStep st.seg (.rewrite d.addr (leBytes d.du.size v.toNat)) with
                    | stop x => rw [hs] at hws; cases hws
                    | ok p =>
                      obtain ⟨s1, o⟩ := p
                      rw [hs] at hws
                      obtain ⟨ho, _, hp3, _⟩ := hsr _ _ hs
                      subst ho
                      simp only [Out.ok.injEq, Prod.mk.injEq] at hws
                      rw [← hws.1]; exact hp3
                  refine ⟨l', hall, by rw [haddr, hfin]; exact q1,
                    ⟨hsafe.1, q2, ts.loc, ts.nodef, by rw [q3']; exact ts.env, ts.lq, ts.gl⟩, hpend'⟩
              · rw [if_neg hv] at hw; simp at hw
            | _ => simp at hw

/-! ## the local task loop -/

theorem localRound_sim (henc : EncLen enc) (env : Env) (henv : env.paths.isEmpty = false) :
    ∀ (ts : List Task) (lts : List Layout.Task) (st st' : St) (l : Layout.State) (res res' : Res),
      TSim num t₂ st l → TasksRel num enc t₂ ts lts → (∀ t ∈ ts, TaskOk st.seg.pending t) →
      localRound enc env ts st res = .ok (st', res') → st'.errors = [] →
      ∃ l', Layout.runTasks l lts = .ok l' ∧ TSim num t₂ st' l' ∧ res' = res := by
  intro ts
  induction ts with
  | nil =>
    intro lts st st' l res res' tsim hrel _ h _
    cases lts with
    | nil => simp only [localRound] at h; cases h; exact ⟨l, rfl, tsim, rfl⟩
    | cons u us => exact hrel.elim
  | cons t ts ih =>
    intro lts st st' l res res' tsim hrel hok h herr
    cases lts with
    | nil => exact hrel.elim
    | cons u us =>
      obtain ⟨hr1, hr2⟩ := hrel
      simp only [localRound] at h
      cases hrt : runTask enc env st t with
      | stop r => rw [hrt] at h; cases h
      | ok p =>
        obtain ⟨st1, r⟩ := p
        rw [hrt] at h
        cases r with
        | ok =>
          simp only at h
          have g := (localRound_grew ts st1 res st' res' h).1
          have herr1 : st1.errors = [] := by
            rw [herr] at g; exact List.eq_nil_of_length_eq_zero (by simpa using g)
          obtain ⟨l1, h1, h2, h3, h4⟩ := runTask_sim henc tsim env henv t u hr1 (hok t List.mem_cons_self) hrt
          obtain ⟨l', f1, f2, f3⟩ := ih us st1 st' l1 res res' h3 hr2
            (fun x hx => by rw [h4]; exact hok x (List.mem_cons_of_mem _ hx)) h herr
          exact ⟨l', by simp only [Layout.runTasks, h1, if_true, h2]; exact f1, f2, f3⟩
        | err lv =>
          exfalso
          have g1 := runTask_grew _ _ hrt
          simp only at h
          split at h
          · cases h
            exact absurd (grew_nil g1 herr).2 (by simp)
          · have g := (localRound_grew ts st1 _ st' res' h).1
            have herr1 : st1.errors = [] := by
              rw [herr] at g; exact List.eq_nil_of_length_eq_zero (by simpa using g)
            exact absurd (grew_nil g1 herr1).2 (by simp)

theorem localLoop_sim (henc : EncLen enc) (env : Env) (henv : env.paths.isEmpty = false) (n : Nat) (ts : List Task)
    (lts : List Layout.Task) (st st' : St) (l : Layout.State) (res' : Res) (tsim : TSim num t₂ st l)
    (hrel : TasksRel num enc t₂ ts lts) (hok : ∀ t ∈ ts, TaskOk st.seg.pending t)
    (h : localLoop enc env (n + 2) ts st .ok = .ok (st', res')) (herr : st'.errors = []) :
    ∃ l', Layout.runTasks l lts = .ok l' ∧ TSim num t₂ st' l' := by
  rw [show n + 2 = (n + 1) + 1 from rfl, localLoop] at h
  split at h
  · rename_i hemp
    cases h
    have : ts = [] := List.isEmpty_iff.mp hemp
    subst this
    cases lts with
    | nil => exact ⟨l, rfl, tsim⟩
    | cons u us => exact hrel.elim
  · cases hlr : localRound enc env ts st .ok with
    | stop r => rw [hlr] at h; cases h
    | ok p =>
      obtain ⟨st1, res1⟩ := p
      rw [hlr] at h
      simp only at h
      cases hnew : st1.localTasks with
      | none => rw [hnew] at h; cases h
      | some new =>
        rw [hnew] at h
        simp only at h
        have herr1 : st1.errors = [] := by
          split at h
          · cases h; exact herr
          · have g := (localLoop_grew _ _ _ _ _ _ h).1
            rw [herr] at g
            exact List.eq_nil_of_length_eq_zero (by simpa using g)
        obtain ⟨l', f1, f2, f3⟩ := localRound_sim henc env henv ts lts st st1 l .ok res1 tsim hrel hok hlr herr1
        have hn : new = [] := by have := f2.lq; rw [hnew] at this; cases this; rfl
        subst hn
        have heta : ({ st1 with localTasks := some [] } : St) = st1 := by
          cases st1; simp only at hnew; subst hnew; rfl
        rw [heta] at h
        subst f3
        simp only [Res.aborts, Bool.false_eq_true, if_false, localLoop, List.isEmpty_nil, if_true] at h
        cases h
        exact ⟨l', f1, f2⟩

end

/-! ## the whole run -/

/-- the state in which the statements of the main file are processed -/
def st2 : St := { St.init with locals := some [], localTasks := some [] }

theorem good_st2 : Good true st2 :=
  ⟨Seg.inv_init, fun _ h => (by simp [st2, St.init] at h), fun l e t m => (by simp [st2, St.init] at e; subst e; simp at m),
   fun _ _ h => (by simp [st2, St.init, Table.find] at h),
   fun l e => (by simp [st2, St.init] at e; subst e; exact tableOk_nil), fun _ => ⟨rfl, rfl⟩, fun e => by cases e⟩

theorem sim_st2 (num : Bytes → Nat) (enc : Encoder) (t₂ : Table) : Sim num enc t₂ st2 {} :=
  ⟨good_st2, ⟨fun _ => rfl, rfl⟩,
   ⟨[], rfl, fun n h => by simp [Table.find] at h, fun n v h => by simp [Table.find] at h, fun n => rfl⟩,
   ⟨[], rfl, trivial⟩, rfl⟩

/-- **the run of a single file against the layout core**: the image of a successful run is the image `Layout.run`
computes for the abstraction of the parsed statements over the file's final symbol table `t₂`, and that table is the
symbol table the layout core has built when the last statement has been processed -/
theorem run_sim {num : Bytes → Nat} (hinj : Function.Injective num) (fs : Bytes → Option Bytes) (main data : Bytes)
    (hfs : fs main = some data) (els : List Element) (perr : Option ParseErr) (hparse : parseFile data = .ok (els, perr))
    (hok : ∀ el ∈ els, okEl el = true) (o : Outcome) (h : run fs main = .done o)
    (hs : o.success = true) :
    ∃ (t₂ : Table) (img : Layout.Img) (lst : Layout.State), Table.NoDef t₂ ∧
      Layout.steps {} (abstract num fs encoder main t₂ none els) = .ok lst ∧ EnvRel num t₂ lst.env ∧
      Layout.run (abstract num fs encoder main t₂ none els) = .ok img ∧ ∀ a, Map.abs o.image a = img.get a := by
  have henc := encoder_len
  unfold run runWith at h
  rw [hfs] at h
  simp only at h
  cases haf : assembleFile fs encoder maxDepth Env.init St.init data main with
  | stop r => rw [haf] at h; cases r <;> cases h
  | ok p =>
    obtain ⟨st, res⟩ := p
    rw [haf] at h
    simp only at h
    -- the file
    have hmd : maxDepth = 63 + 1 := rfl
    rw [hmd, assembleFile] at haf
    simp only [Env.init, List.length_cons, List.length_nil, Nat.zero_add, Nat.add_one_ne_zero, if_false,
      enterFile_false good_init, ne_eq, not_true_eq_false] at haf
    have hinc : IncOk (assembleFile fs encoder 63) := fun env st data path g => assembleFile_safe henc fs 63 true env st data path g
    have hincg : IncGrew (assembleFile fs encoder 63) := assembleFile_grew fs encoder 63
    cases hfb : fileBody fs encoder (assembleFile fs encoder 63) ⟨[main], main⟩ data st2 with
    | stop r => simp only [st2] at hfb; rw [hfb] at haf; cases haf
    | ok q =>
      obtain ⟨st4, res4⟩ := q
      simp only [st2] at hfb
      rw [hfb] at haf
      simp only [Out.ok.injEq, Prod.mk.injEq] at haf
      obtain ⟨hst, _⟩ := haf
      have hseg : st.seg = st4.seg := by rw [← hst]; rfl
      have herrs : st.errors = st4.errors := by rw [← hst]; rfl
      have hglob : st.globalTasks = st4.globalTasks := by rw [← hst]; rfl
      -- close and finalize
      have hcs := Seg.close_spec (s := st.seg)
      cases hcl : Seg.closeSegment st.seg with
      | mk s' oc =>
        rw [hcl] at h
        cases oc with
        | diag e => simp only at h; cases h; simp [Outcome.success] at hs
        | panic => cases h
        | placed x =>
          exfalso
          have g4 := ((fileBody_safe henc hinc (env := ⟨[main], main⟩) rfl fs data good_st2).2 _ _ (by simpa [st2] using hfb)).1
          have := (Seg.close_spec (s := st.seg) (by rw [hseg]; exact g4.inv)).1
          rw [hcl] at this; cases this
        | ok =>
          simp only at h
          cases hfz : finalize encoder Env.init { st with seg := s' } with
          | stop r => rw [hfz] at h; cases r <;> cases h
          | ok z =>
            obtain ⟨st', fin⟩ := z
            rw [hfz] at h
            simp only [Result.done.injEq] at h
            subst h
            have hfin : fin = true := by simpa [Outcome.success] using hs
            have hfg := finalize_grew hfz
            have herr' : st'.errors = [] := hfg.2.mp hfin
            have herr0 : st.errors = [] := by
              have := hfg.1; rw [herr'] at this
              exact List.eq_nil_of_length_eq_zero (by simpa using this)
            have herr4 : st4.errors = [] := by rw [← herrs]; exact herr0
            -- inside the file body
            have hfb' := hfb
            unfold fileBody at hfb'
            rw [hparse] at hfb'
            simp only at hfb'
            cases hda : doAssemble fs encoder (assembleFile fs encoder 63) ⟨[main], main⟩ els perr
                { St.init with locals := some [], localTasks := some [] } with
            | stop r => rw [hda] at hfb'; cases hfb'
            | ok w =>
              obtain ⟨st3, res3⟩ := w
              rw [hda] at hfb'
              simp only at hfb'
              have gda := doAssemble_grew hincg perr els _ st3 res3 hda
              by_cases hfat : res3 = .err .fatal
              · exfalso
                rw [if_pos hfat] at hfb'
                cases hfb'
                subst hfat
                exact absurd (grew_nil gda herr4).2 (by simp)
              · rw [if_neg hfat] at hfb'
                cases htk : st3.localTasks with
                | none => rw [htk] at hfb'; cases hfb'
                | some tasks =>
                  rw [htk] at hfb'
                  simp only at hfb'
                  have gll := (localLoop_grew _ _ _ _ _ _ hfb').1
                  have herr3 : st3.errors = [] := by
                    rw [herr4] at gll
                    exact List.eq_nil_of_length_eq_zero (by simpa using gll)
                  have hres3 : res3 = .ok := by
                    have := (grew_nil gda herr3).2
                    cases res3 with
                    | ok => rfl
                    | err lv => simp at this
                  subst hres3
                  -- the final table
                  have hloc := doAssemble_loc perr els _ st3 _ (fun x hx => hok x hx) hda
                  obtain ⟨t₂, ht₂, _⟩ := hloc [] rfl
                  obtain ⟨lf, f1, f2⟩ := doAssemble_sim (num := num) (t₂ := t₂) hinj henc fs _ hinc hincg
                    ⟨[main], main⟩ main rfl perr els st2 st3 {} hok (sim_st2 num encoder t₂) hda herr3 ht₂
                  have hcur : cursor st2 = none := rfl
                  rw [hcur] at f1
                  obtain ⟨t, e1, e2, _, e4⟩ := f2.tbl
                  rw [ht₂] at e1; cases e1
                  obtain ⟨qq, q1, q2⟩ := f2.tasks
                  rw [htk] at q1; cases q1
                  have gc := (good_clearLocal f2.good).1
                  have tsim : TSim num t₂ { st3 with localTasks := some [] } { lf with tasks := [] } :=
                    ⟨gc, f2.r, ht₂, e2, e4, rfl, f2.gl⟩
                  have hrounds : rounds = 6 + 2 := rfl
                  rw [hrounds] at hfb'
                  obtain ⟨l2, g1, g2⟩ := localLoop_sim henc ⟨[main], main⟩ rfl 6 tasks lf.tasks _ st4 _ res4 tsim q2
                    (fun t m => f2.good.lt tasks htk t m) hfb' herr4
                  -- close
                  obtain ⟨l3, c1, c2, _, _⟩ := close_sim g2.good.inv g2.r
                  rw [← hseg, hcl] at c2
                  simp only at c2
                  -- finalize with an empty global queue
                  have hgl : st.globalTasks = [] := by rw [hglob]; exact g2.gl
                  have hst' : st'.seg = s' := by
                    unfold finalize at hfz
                    simp only [hgl, rounds, globalLoop, List.isEmpty_nil, if_true] at hfz
                    cases hfz
                    rfl
                  refine ⟨t₂, l3.closed, lf, e2, f1, e4, ?_, fun a => ?_⟩
                  · simp only [Layout.run, f1, g1, c1]
                  · rw [hst']; exact c2.1 a

end Trion.Asm

