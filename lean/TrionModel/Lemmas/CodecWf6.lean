import TrionModel.Lemmas.CodecWf
namespace Trion.Codec
theorem wfBlock6 : wfBlock 6 32 := by decide +kernel
end Trion.Codec
