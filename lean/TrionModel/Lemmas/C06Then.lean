import TrionModel.Lemmas.AsmKeeps
import TrionModel.Lemmas.C06Last
/-!
# C06 invalid constructs: a statement that records a diagnostic, FOLLOWED BY ANYTHING

`run_stmt_reported`: the main file parses to `pre ++ el :: post` (any `post`, possibly a final parse error), `pre` ran
without an error result to the state `S` (nothing else is assumed about `S`: it may hold queued tasks and earlier
diagnostics), and processing `el` from `S` records a diagnostic at `el`'s position.  Then every finished run is not a
success and has a diagnostic at `el`'s position — whatever the later statements, the task loops and `finalize` do
(`AsmKeeps`: a recorded diagnostic is never removed).
-/
namespace Trion.C04
open Trion Trion.Asm

theorem run_stmt_reported (fs : Bytes → Option Bytes) (main data : Bytes) (hfs : fs main = some data)
    (els : List Element) (perr : Option ParseErr) (hp : Asm.parseFile data = .ok (els, perr))
    (pre post : List Element) (el : Element) (hels : els = pre ++ el :: post)
    (S : Asm.St) (hpre : PrefixOk fs main pre S)
    (hK : ∀ S1 r1, Asm.statement fs Asm.encoder (Asm.assembleFile fs Asm.encoder (Asm.maxDepth - 1)) ⟨[main], main⟩ S el = .ok (S1, r1) →
      ∃ d ∈ S1.errors, d.file = main ∧ d.line = el.line ∧ d.col = el.col) :
    ∀ o, Asm.run fs main = .done o →
      o.success = false ∧ ∃ d ∈ o.diags, d.file = main ∧ d.line = el.line ∧ d.col = el.col := by
  intro o ho
  let inc := Asm.assembleFile fs Asm.encoder (Asm.maxDepth - 1)
  let env : Asm.Env := ⟨[main], main⟩
  cases hA : Asm.assembleFile fs Asm.encoder Asm.maxDepth Asm.Env.init Asm.St.init data main with
  | stop s =>
    unfold Asm.run Asm.runWith at ho
    simp only [hfs, hA] at ho
    cases s <;> cases ho
  | ok p =>
    obtain ⟨st, res⟩ := p
    obtain ⟨hmem, hsucc⟩ := Asm.run_keeps fs main o ho data hfs st res hA
    have hAe := assembleFile_main_eq fs data main
    rw [hA] at hAe
    cases hB : Asm.fileBody fs Asm.encoder inc env data init2 with
    | stop s => rw [hB] at hAe; cases hAe
    | ok q =>
      obtain ⟨st4, r4⟩ := q
      rw [hB] at hAe
      simp only [Asm.Out.ok.injEq, Prod.mk.injEq] at hAe
      obtain ⟨rfl, _⟩ := hAe
      -- the body: statements, then the task loop
      have hfb := fileBody_eq' fs inc env data init2 els perr hp
      rw [hB, hels, hpre] at hfb
      simp only [Asm.doAssemble] at hfb
      cases hX : Asm.statement fs Asm.encoder inc env S el with
      | stop s => rw [hX] at hfb; cases hfb
      | ok x =>
        obtain ⟨S1, r1⟩ := x
        obtain ⟨d, hd, hpos⟩ := hK S1 r1 hX
        rw [hX] at hfb
        -- `d` survives to the end of `do_assemble`
        have hst3 : ∀ st3 res3, (match (r1 : Asm.Res) with
              | .ok => Asm.doAssemble fs Asm.encoder inc env post perr S1
              | .err lv => (.ok (S1, .err lv) : Asm.Out (Asm.St × Asm.Res))) = .ok (st3, res3) → d ∈ st3.errors := by
          intro st3 res3 h3
          cases r1 with
          | ok => exact Asm.doAssemble_keeps (Asm.assembleFile_keeps fs Asm.encoder _) perr post S1 st3 res3 h3 d hd
          | err lv => simp only [Asm.Out.ok.injEq, Prod.mk.injEq] at h3; obtain ⟨rfl, _⟩ := h3; exact hd
        have hd4 : d ∈ st4.errors := by
          cases r1 with
          | ok =>
            simp only at hfb
            cases hD : Asm.doAssemble fs Asm.encoder inc env post perr S1 with
            | stop s => rw [hD] at hfb; cases hfb
            | ok y =>
              obtain ⟨st3, res3⟩ := y
              have hd3 := hst3 st3 res3 hD
              rw [hD] at hfb
              simp only at hfb
              split at hfb
              · cases hfb; exact hd3
              · split at hfb
                · cases hfb
                · exact Asm.localLoop_keeps _ _ _ _ _ _ hfb.symm d hd3
          | err lv =>
            simp only at hfb
            split at hfb
            · cases hfb; exact hd
            · split at hfb
              · cases hfb
              · exact Asm.localLoop_keeps _ _ _ _ _ _ hfb.symm d hd
        have hdo : d ∈ (Asm.leaveFile none none st4).errors := by rw [leaveFile_errors]; exact hd4
        exact ⟨hsucc (by intro e; rw [e] at hdo; cases hdo), d, hmem d hdo, hpos⟩

end Trion.C04
