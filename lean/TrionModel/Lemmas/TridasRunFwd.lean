import TrionModel.Lemmas.TridasRun
import TrionModel.Lemmas.ShowProgFwd
/-!
# `Asm.run` on the text of a tridas listing WITH forward branches (C20)

The statement loop of `entries_run` extended to instruction lines whose label is defined later: such a line is placed
as a 0xBE placeholder of its final length and queued (`Asm.instr_deferred`); after the loop the buffer is the file
except at the placeholders, the table binds every label, and the queued tasks — one per forward reference, in
order — rewrite their placeholders with the canonical bytes (`Asm.instr_task_active`), after which the buffer is the
file.
-/
namespace Trion.Tridas
open Trion.Show Trion.Lex

/-- the instruction line mentions a label that is defined after it -/
def fwd (e : Entry) : Bool :=
  match targetOf e.instr e.addr with
  | some t => decide (e.addr < t)
  | none => false

/-- what the statement loop writes for an entry: its bytes, or a placeholder of the same length -/
def phOf (b : List UInt8) (e : Entry) : List UInt8 :=
  if fwd e then List.replicate (e.after - e.addr) 0xBE else slice b e

/-- the state inside the main file: buffer, table, placed statements, queued tasks -/
def stQ (buf : List UInt8) (tbl : Asm.Table) (pending : List (Nat × Nat)) (q : List Asm.Task) : Asm.St :=
  ⟨⟨[], some ⟨BASE, buf, Map.u32Max - BASE + 1⟩, pending⟩, [], some tbl, [], some q, []⟩

/-- the tasks the loop queues: one per forward reference, in order, each with the front-end state of the first pass -/
inductive TasksFor (main : Bytes) : List Entry → List Asm.Task → Prop
  | nil : TasksFor main [] []
  | skip {e : Entry} {r : List Entry} {ts : List Asm.Task} : fwd e = false → TasksFor main r ts → TasksFor main (e :: r) ts
  | take {e : Entry} {r : List Entry} {ts : List Asm.Task} (l c : Nat) : fwd e = true → TasksFor main r ts →
      TasksFor main (e :: r) (.instr ⟨main, l, c, deferSt e.instr e.addr, true⟩ false :: ts)

theorem frontEval_notfound (tbl : Asm.Table) (t : Nat) (h : tbl.find (label t) = none) :
    Asm.frontEval tbl (.ident (label t)) = .noSuchVariable (label t) (.ident (label t)) := by
  simp [Asm.frontEval, Asm.evalIn, Simp.evaluateE, isRegister_label, Asm.Table.get, h]

theorem get_of_find {tbl : Asm.Table} {n : Bytes} {v : Int} (h : tbl.find n = some (some v)) : tbl.get n = .found v := by
  simp [Asm.Table.get, h]

theorem find_of_get {tbl : Asm.Table} {n : Bytes} {v : Int} (h : tbl.get n = .found v) : tbl.find n = some (some v) := by
  unfold Asm.Table.get at h
  split at h <;> simp_all

theorem entries_run_fwd (fs : Bytes → Option Bytes) (inc : Asm.Inc) (main : Bytes) (b : List UInt8) (br : List Nat)
    (hsmall : BASE + b.length ≤ 4294967296) :
    ∀ (es : List Entry) (els : List Element) (a z : Nat) (tbl : Asm.Table) (pending : List (Nat × Nat))
      (q : List Asm.Task) (buf : List UInt8),
      els.map (·.val) = entryVals br es → Chain es a z → BASE ≤ a → z ≤ BASE + b.length → buf.length = a - BASE →
      (∀ e ∈ es, EntryOk b e) →
      (∀ name v, tbl.find name = some v → ∃ x, x < a ∧ name = label x) →
      (∀ e ∈ es, ∀ t, targetOf e.instr e.addr = some t →
        (t < a → tbl.get (label t) = .found (t : Int)) ∧
        (a ≤ t → br.contains t = true ∧ ∃ e' ∈ es, e'.addr = t)) →
      ∃ tbl' pending' ts,
        Asm.doAssemble fs Asm.encoder inc ⟨[main], main⟩ els none (stQ buf tbl pending q) =
          .ok (stQ (buf ++ (es.map (phOf b)).flatten) tbl' pending' (q ++ ts), .ok) ∧
        TasksFor main es ts ∧
        (∀ name v, tbl.find name = some (some v) → tbl'.find name = some (some v)) ∧
        (∀ e ∈ es, br.contains e.addr = true → tbl'.get (label e.addr) = .found (e.addr : Int)) := by
  intro es
  induction es with
  | nil =>
    intro els a z tbl pending q buf hels hc _ _ _ _ _ _
    have : els = [] := by simpa [entryVals] using hels
    subst this
    exact ⟨tbl, pending, [], by simp [Asm.doAssemble], .nil, fun _ _ h => h, fun e he => by cases he⟩
  | cons e r ih =>
    intro els a z tbl pending q buf hels hc ha hz hbl hok h1 h2
    obtain ⟨c1, c2, c3⟩ := hc
    have hzz : e.after ≤ z := chain_le r _ _ c3
    have hrest : ∀ f ∈ r, e.after ≤ f.addr := chain_ge' r _ _ c3
    obtain ⟨hws, he, wf, htr, hbytes⟩ := hok e (by simp)
    have ha32 : a < 4294967296 := by omega
    let tbl1 : Asm.Table := if br.contains e.addr = true then tbl.set (label e.addr) (some (e.addr : Int)) else tbl
    have hfresh : tbl.find (label e.addr) = none := by
      cases hf : tbl.find (label e.addr) with
      | none => rfl
      | some v =>
        obtain ⟨x, hx, hl⟩ := h1 _ _ hf
        have := label_inj e.addr x (by omega) (by omega) hl
        omega
    have hfind1 : ∀ name, tbl1.find name =
        if br.contains e.addr = true ∧ label e.addr = name then some (some (e.addr : Int)) else tbl.find name := by
      intro name
      show (if br.contains e.addr = true then tbl.set (label e.addr) (some (e.addr : Int)) else tbl).find name = _
      by_cases hb : br.contains e.addr = true
      · rw [if_pos hb, find_set]
        by_cases hn : label e.addr = name
        · rw [if_pos hn, if_pos ⟨hb, hn⟩]
        · rw [if_neg hn, if_neg (fun h => hn h.2)]
      · rw [if_neg hb, if_neg (fun h => hb h.1)]
    have hcur : Seg.Active.cur ⟨BASE, buf, Map.u32Max - BASE + 1⟩ = a := by
      simp only [Seg.Active.cur, hbl, Map.u32Max]
      omega
    have hlenw := (Codec.enc_len e.instr hws he wf).1
    have hslen : (slice b e).length = e.after - e.addr := slice_length b e (by omega) (by omega)
    have hblen : ((Codec.toBytes hws).map (·.toUInt8)).length = 2 * hws.length := by simp [Asm.toBytes_length]
    have hsz : 2 * hws.length = e.after - e.addr := by rw [← hblen, hbytes, hslen]
    have hphlen : (phOf b e).length = e.after - e.addr := by
      unfold phOf; split
      · simp
      · exact hslen
    -- keys of `tbl1` are labels of addresses up to `e.addr`
    have h1a : ∀ name v, tbl1.find name = some v → ∃ x, x ≤ e.addr ∧ name = label x := by
      intro name v hf
      rw [hfind1] at hf
      split at hf
      · rename_i hc; exact ⟨e.addr, Nat.le_refl _, hc.2.symm⟩
      · obtain ⟨x, hx, hl⟩ := h1 _ _ hf; exact ⟨x, by omega, hl⟩
    have keep : ∀ t, t < a → tbl.get (label t) = .found (t : Int) → tbl1.get (label t) = .found (t : Int) := by
      intro t hlt hg
      simp only [Asm.Table.get] at hg ⊢
      rw [hfind1]
      by_cases hc : br.contains e.addr = true ∧ label e.addr = label t
      · exfalso
        rw [← hc.2, hfresh] at hg
        simp at hg
      · rw [if_neg hc]; exact hg
    -- the instruction statement, in both cases
    have hinstr : ∀ (l c : Nat) (pend : List (Nat × Nat)) (qq : List Asm.Task), ∃ ts1,
        Asm.statement fs Asm.encoder inc ⟨[main], main⟩ (stQ buf tbl1 pend qq)
          ⟨l, c, .instruction (parts e.instr e.addr).1 (Args.ofList (parts e.instr e.addr).2)⟩ =
        .ok (stQ (buf ++ phOf b e) tbl1 ((a, e.after - e.addr) :: pend) (qq ++ ts1), .ok) ∧
        TasksFor main [e] ts1 := by
      intro l c pend qq
      by_cases hf : fwd e = true
      · -- forward reference: placeholder + task
        obtain ⟨t, htg, hlt⟩ : ∃ t, targetOf e.instr e.addr = some t ∧ e.addr < t := by
          unfold fwd at hf
          split at hf
          · rename_i t ht; exact ⟨t, ht, by simpa using hf⟩
          · cases hf
        have ht32 := targetOf_lt e.instr e.addr t htg
        have hnf : tbl1.find (label t) = none := by
          cases hff : tbl1.find (label t) with
          | none => rfl
          | some v =>
            obtain ⟨x, hx, hl⟩ := h1a _ _ hff
            have := label_inj t x (by omega) (by omega) hl
            omega
        obtain ⟨hwsP, heP, hlenP⟩ := encode_pre e.instr e.addr t hws he htg
        have hencP := Asm.encoder_ok (preInstr e.instr) hwsP heP (by omega)
        have hplen : ((Codec.toBytes hwsP).map (·.toUInt8)).length = e.after - e.addr := by
          simp [Asm.toBytes_length, hlenP, hsz]
        have := Asm.instr_deferred fs Asm.encoder inc ⟨[main], main⟩ (stQ buf tbl1 pend qq) tbl1 qq (by simp) rfl rfl l c
          (parts e.instr e.addr).1 (Args.ofList (parts e.instr e.addr).2) [] ⟨BASE, buf, Map.u32Max - BASE + 1⟩ pend rfl
          (template e.instr) (mnemonic_parts e.instr e.addr) (deferSt e.instr e.addr) (label t)
          (by rw [hcur, toList_ofList, ← c1]; exact show_defers e.instr e.addr t htg _ (frontEval_notfound tbl1 t hnf))
          _ (by simpa [deferSt] using hencP) (by simp only [hplen, hbl, Map.u32Max]; omega)
        refine ⟨[.instr ⟨main, l, c, deferSt e.instr e.addr, true⟩ false], ?_, .take l c hf .nil⟩
        rw [this, hcur, hplen]
        simp [stQ, phOf, hf]
      · -- label known (or none mentioned): the statement completes
        have hf' : fwd e = false := by simpa using hf
        have hlk : ∀ t, targetOf e.instr e.addr = some t → tbl1.get (label t) = .found (t : Int) := by
          intro t ht
          obtain ⟨g1, g2⟩ := h2 e (by simp) t ht
          have hle : t ≤ e.addr := by
            unfold fwd at hf'
            rw [ht] at hf'
            simpa using hf'
          by_cases hlt : t < a
          · exact keep t hlt (g1 hlt)
          · obtain ⟨g4, _⟩ := g2 (by omega)
            have hte : t = e.addr := by omega
            subst hte
            simp only [Asm.Table.get]
            rw [hfind1, if_pos ⟨g4, rfl⟩]
        have hbuild : Front.build a (parts e.instr e.addr).1 (parts e.instr e.addr).2 (Asm.frontEval tbl1) true = .completed e.instr := by
          have hE : EvalIsSimp (Asm.frontEval tbl1) (fun n => tbl1.get n) := by
            intro x ch a' h; exact Asm.frontEval_complete _ x ch a' h
          have := show_assembles_proof e.instr e.addr (Asm.frontEval tbl1) true
            (printable_of_encode e.instr e.addr hws he wf htr)
            (evalOK_simp (Asm.frontEval tbl1) (fun n => tbl1.get n) hE e.instr e.addr hlk (memNonneg_of_encode e.instr hws he))
          rw [← c1]; exact this
        have henc := Asm.encoder_ok e.instr hws he (by omega)
        rw [hbytes] at henc
        have := Asm.instr_ok fs Asm.encoder inc ⟨[main], main⟩ (stQ buf tbl1 pend qq) tbl1 (by simp) rfl l c
          (parts e.instr e.addr).1 (Args.ofList (parts e.instr e.addr).2) [] ⟨BASE, buf, Map.u32Max - BASE + 1⟩ pend rfl
          e.instr (by rw [hcur, toList_ofList]; exact hbuild) (slice b e) henc
          (by simp only [hbl, hslen, Map.u32Max]; omega)
        refine ⟨[], ?_, .skip hf' .nil⟩
        rw [this, hcur, hslen]
        simp [stQ, phOf, hf']
    -- the invariants for the rest
    have h1' : ∀ name v, tbl1.find name = some v → ∃ x, x < e.after ∧ name = label x := by
      intro name v hf
      obtain ⟨x, hx, hl⟩ := h1a name v hf
      exact ⟨x, by omega, hl⟩
    have h2' : ∀ f ∈ r, ∀ t, targetOf f.instr f.addr = some t →
        (t < e.after → tbl1.get (label t) = .found (t : Int)) ∧
        (e.after ≤ t → br.contains t = true ∧ ∃ e' ∈ r, e'.addr = t) := by
      intro f hf t ht
      obtain ⟨g1, g2⟩ := h2 f (by simp [hf]) t ht
      constructor
      · intro hlt
        by_cases hlt2 : t < a
        · exact keep t hlt2 (g1 hlt2)
        · obtain ⟨g4, e', he', hea⟩ := g2 (by omega)
          rcases List.mem_cons.mp he' with rfl | he'
          · simp only [Asm.Table.get]
            rw [hfind1, ← hea, if_pos ⟨by rw [hea]; exact g4, rfl⟩]
          · have := hrest e' he'; omega
      · intro hge
        obtain ⟨g4, e', he', hea⟩ := g2 (by omega)
        refine ⟨g4, ?_⟩
        rcases List.mem_cons.mp he' with rfl | he'
        · omega
        · exact ⟨e', he', hea⟩
    have hmono1 : ∀ name v, tbl.find name = some (some v) → tbl1.find name = some (some v) := by
      intro name v hf
      rw [hfind1]
      by_cases hc : br.contains e.addr = true ∧ label e.addr = name
      · exfalso; rw [← hc.2, hfresh] at hf; cases hf
      · rw [if_neg hc]; exact hf
    have hbl' : (buf ++ phOf b e).length = e.after - BASE := by
      rw [List.length_append, hbl, hphlen]; omega
    -- after the recursive call: put the pieces together
    have finish : ∀ (els2 : List Element) (pend : List (Nat × Nat)) (l2 k2 : Nat),
        els2.map (·.val) = entryVals br r →
        ∃ tbl' pending' ts,
          (match Asm.statement fs Asm.encoder inc ⟨[main], main⟩ (stQ buf tbl1 pend q)
              ⟨l2, k2, .instruction (parts e.instr e.addr).1 (Args.ofList (parts e.instr e.addr).2)⟩ with
            | .ok (st', .ok) => Asm.doAssemble fs Asm.encoder inc ⟨[main], main⟩ els2 none st'
            | .ok (st', .err l) => .ok (st', .err l)
            | .stop r => .stop r) =
            .ok (stQ (buf ++ ((e :: r).map (phOf b)).flatten) tbl' pending' (q ++ ts), .ok) ∧
          TasksFor main (e :: r) ts ∧
          (∀ name v, tbl1.find name = some (some v) → tbl'.find name = some (some v)) ∧
          (∀ f ∈ r, br.contains f.addr = true → tbl'.get (label f.addr) = .found (f.addr : Int)) := by
      intro els2 pend l2 k2 hr2
      obtain ⟨ts1, hst, htf⟩ := hinstr l2 k2 pend q
      obtain ⟨tbl', pending', ts2, hrec, htf2, hm2, hl2⟩ := ih els2 e.after z tbl1 ((a, e.after - e.addr) :: pend) (q ++ ts1)
        (buf ++ phOf b e) hr2 c3 (by omega) hz hbl' (fun f hf => hok f (by simp [hf])) h1' h2'
      refine ⟨tbl', pending', ts1 ++ ts2, ?_, ?_, hm2, hl2⟩
      · rw [hst]
        simp only
        rw [hrec]
        simp [List.append_assoc]
      · cases htf with
        | skip hf h' => cases h'; exact .skip hf htf2
        | take l c hf h' => cases h'; exact .take l c hf htf2
    -- split the elements
    by_cases hb : br.contains e.addr = true
    · have hv : entryVals br (e :: r) = ElemVal.label (label e.addr) ::
          .instruction (parts e.instr e.addr).1 (Args.ofList (parts e.instr e.addr).2) :: entryVals br r := by
        rw [entryVals_cons, if_pos hb]; rfl
      rw [hv] at hels
      obtain ⟨el1, r1, rfl, hl1, hr1⟩ := List.map_eq_cons_iff.mp hels
      obtain ⟨el2, r2, rfl, hl2, hr2⟩ := List.map_eq_cons_iff.mp hr1
      obtain ⟨l1, k1, v1⟩ := el1
      obtain ⟨l2, k2, v2⟩ := el2
      simp only at hl1 hl2
      subst hl1 hl2
      have hlab := Asm.label_ok fs Asm.encoder inc ⟨[main], main⟩ (stQ buf tbl pending q) tbl rfl l1 k1
        (label e.addr) ⟨BASE, buf, Map.u32Max - BASE + 1⟩ rfl (isRegister_label e.addr) hfresh
      rw [hcur] at hlab
      have ht1 : tbl1 = tbl.set (label e.addr) (some (e.addr : Int)) := if_pos hb
      obtain ⟨tbl', pending', ts, hfin, htf, hm, hl⟩ := finish r2 pending l2 k2 hr2
      refine ⟨tbl', pending', ts, ?_, htf, fun n v h => hm n v (hmono1 n v h), ?_⟩
      · simp only [Asm.doAssemble]
        rw [hlab]
        simp only
        have : ({ stQ buf tbl pending q with locals := some (tbl.set (label e.addr) (some (a : Int))) } : Asm.St) =
            stQ buf tbl1 pending q := by rw [ht1, c1]; rfl
        rw [this]
        exact hfin
      · intro f hf hbf
        rcases List.mem_cons.mp hf with rfl | hf
        · apply get_of_find
          apply hm
          rw [hfind1, if_pos ⟨hb, rfl⟩]
        · exact hl f hf hbf
    · have hv : entryVals br (e :: r) =
          .instruction (parts e.instr e.addr).1 (Args.ofList (parts e.instr e.addr).2) :: entryVals br r := by
        rw [entryVals_cons, if_neg hb]; rfl
      rw [hv] at hels
      obtain ⟨el2, r2, rfl, hl2, hr2⟩ := List.map_eq_cons_iff.mp hels
      obtain ⟨l2, k2, v2⟩ := el2
      simp only at hl2
      subst hl2
      have ht1 : tbl1 = tbl := if_neg hb
      obtain ⟨tbl', pending', ts, hfin, htf, hm, hl⟩ := finish r2 pending l2 k2 hr2
      refine ⟨tbl', pending', ts, ?_, htf, fun n v h => hm n v (hmono1 n v h), ?_⟩
      · simp only [Asm.doAssemble]
        rw [← ht1]
        exact hfin
      · intro f hf hbf
        rcases List.mem_cons.mp hf with rfl | hf
        · exact absurd hbf hb
        · exact hl f hf hbf

/-! ### the task round -/

theorem phOf_length (b : List UInt8) (e : Entry) (h1 : BASE ≤ e.addr) (h2 : e.after ≤ BASE + b.length) :
    (phOf b e).length = e.after - e.addr := by
  unfold phOf; split
  · simp
  · exact slice_length b e h1 h2

theorem phFlatten_length (b : List UInt8) : ∀ (es : List Entry) (a z : Nat), Chain es a z → BASE ≤ a →
    z ≤ BASE + b.length → ((es.map (phOf b)).flatten).length = z - a := by
  intro es
  induction es with
  | nil => intro a z hc _ _; simp only [Chain] at hc; subst hc; simp
  | cons e r ih =>
    intro a z hc ha hz
    obtain ⟨c1, c2, c3⟩ := hc
    have hzz : e.after ≤ z := chain_le r _ _ c3
    simp only [List.map_cons, List.flatten_cons, List.length_append, phOf_length b e (by omega) (by omega),
      ih e.after z c3 (by omega) hz]
    omega

/-- the queued tasks, run in order over the complete table, turn every placeholder into the bytes of the file -/
theorem tasks_run (main : Bytes) (b : List UInt8) (tbl : Asm.Table) (pending : List (Nat × Nat))
    (hsmall : BASE + b.length ≤ 4294967296) :
    ∀ (es : List Entry) (ts : List Asm.Task), TasksFor main es ts → ∀ (a z : Nat) (pre post : List UInt8),
      Chain es a z → BASE ≤ a → z ≤ BASE + b.length → pre.length = a - BASE → post.length = BASE + b.length - z →
      (∀ e ∈ es, EntryOk b e) →
      (∀ e ∈ es, ∀ t, targetOf e.instr e.addr = some t → tbl.get (label t) = .found (t : Int)) →
      Asm.TaskChain Asm.encoder ⟨[main], main⟩ ts
        (stQ (pre ++ (es.map (phOf b)).flatten ++ post) tbl pending [])
        (stQ (pre ++ (es.map (slice b)).flatten ++ post) tbl pending []) := by
  intro es ts htf
  induction htf with
  | nil => intro a z pre post _ _ _ _ _ _ _; exact .nil _
  | @skip e r ts hf _ ih =>
    intro a z pre post hc ha hz hpre hpost hok hlk
    obtain ⟨c1, c2, c3⟩ := hc
    have hzz : e.after ≤ z := chain_le r _ _ c3
    have hslen : (slice b e).length = e.after - e.addr := slice_length b e (by omega) (by omega)
    have := ih e.after z (pre ++ slice b e) post c3 (by omega) hz (by rw [List.length_append, hpre, hslen]; omega) hpost
      (fun f hf' => hok f (by simp [hf'])) (fun f hf' => hlk f (by simp [hf']))
    have e1 : phOf b e = slice b e := by simp [phOf, hf]
    simpa [List.map_cons, List.flatten_cons, e1, List.append_assoc] using this
  | @take e r ts l c hf _ ih =>
    intro a z pre post hc ha hz hpre hpost hok hlk
    obtain ⟨c1, c2, c3⟩ := hc
    have hzz : e.after ≤ z := chain_le r _ _ c3
    obtain ⟨hws, he, wf, htr, hbytes⟩ := hok e (by simp)
    have hslen : (slice b e).length = e.after - e.addr := slice_length b e (by omega) (by omega)
    have hlenw := (Codec.enc_len e.instr hws he wf).1
    have henc := Asm.encoder_ok e.instr hws he (by omega)
    rw [hbytes] at henc
    obtain ⟨t, htg⟩ : ∃ t, targetOf e.instr e.addr = some t := by
      unfold fwd at hf
      split at hf
      · exact ⟨_, ‹_›⟩
      · cases hf
    have hE : EvalIsSimp (Asm.frontEval tbl) (fun n => tbl.get n) := by
      intro x ch a' h; exact Asm.frontEval_complete _ x ch a' h
    obtain ⟨fs2, hretry, hfs2⟩ := show_retry e.instr e.addr t htg (Asm.frontEval tbl) false
      (printable_of_encode e.instr e.addr hws he wf htr)
      (evalOK_simp (Asm.frontEval tbl) (fun n => tbl.get n) hE e.instr e.addr (hlk e (by simp)) (memNonneg_of_encode e.instr hws he))
    have e1 : phOf b e = List.replicate (e.after - e.addr) 0xBE := by simp [phOf, hf]
    have hrestlen := phFlatten_length b r e.after z c3 (by omega) hz
    let buf0 := pre ++ (List.replicate (e.after - e.addr) (0xBE : UInt8) ++ (r.map (phOf b)).flatten) ++ post
    have hb0 : buf0.length = b.length := by
      simp only [buf0, List.length_append, List.length_replicate, hpre, hpost, hrestlen]
      omega
    have htask := Asm.instr_task_active Asm.encoder ⟨[main], main⟩ (stQ buf0 tbl pending []) tbl (by simp) rfl main l c
      (deferSt e.instr e.addr) fs2 false [] ⟨BASE, buf0, Map.u32Max - BASE + 1⟩ pending rfl hretry (slice b e)
      (by rw [hfs2]; exact henc) (find_nil _) (by simp only [deferSt]; omega) (by rw [hslen]; omega)
      (by simp only [deferSt, hslen, hb0]; omega) (by simp only [hb0]; omega)
    have hnew : buf0.take ((deferSt e.instr e.addr).addr - BASE) ++ slice b e ++
        buf0.drop ((deferSt e.instr e.addr).addr - BASE + (slice b e).length) =
        (pre ++ slice b e) ++ (r.map (phOf b)).flatten ++ post := by
      have hk : (deferSt e.instr e.addr).addr - BASE = pre.length := by simp only [deferSt]; omega
      rw [hk, hslen]
      have h1 : buf0 = pre ++ ((List.replicate (e.after - e.addr) (0xBE : UInt8) ++ (r.map (phOf b)).flatten) ++ post) := by
        simp only [buf0, List.append_assoc]
      have h2 : buf0 = (pre ++ List.replicate (e.after - e.addr) (0xBE : UInt8)) ++ ((r.map (phOf b)).flatten ++ post) := by
        simp only [buf0, List.append_assoc]
      have t1 : buf0.take pre.length = pre := by rw [h1]; exact List.take_left' rfl
      have t2 : buf0.drop (pre.length + (e.after - e.addr)) = (r.map (phOf b)).flatten ++ post := by
        rw [h2]; exact List.drop_left' (by simp)
      rw [t1, t2]
      simp only [List.append_assoc]
    have hrec := ih e.after z (pre ++ slice b e) post c3 (by omega) hz (by rw [List.length_append, hpre, hslen]; omega) hpost
      (fun f hf' => hok f (by simp [hf'])) (fun f hf' => hlk f (by simp [hf']))
    refine .cons (st1 := stQ ((pre ++ slice b e) ++ (r.map (phOf b)).flatten ++ post) tbl pending []) ?_ ?_
    · have : stQ (pre ++ ((e :: r).map (phOf b)).flatten ++ post) tbl pending [] = stQ buf0 tbl pending [] := by
        simp only [List.map_cons, List.flatten_cons, e1, buf0]
      rw [this, htask, hnew]
      rfl
    · simpa [List.map_cons, List.flatten_cons, List.append_assoc] using hrec

/-- **`Asm.run` on the text of a listing with backward AND forward branches.** As `listing_run`, without the
restriction that a label is defined at or before the line that mentions it: every label an instruction line
mentions names an entry of the file that has a label line. -/
theorem listing_run_fwd (fs : Bytes → Option Bytes) (main : Bytes) (b : List UInt8) (br : List Nat) (es : List Entry)
    (hne : b ≠ []) (hsmall : BASE + b.length ≤ 4294967296) (hc : Chain es BASE (BASE + b.length))
    (hok : ∀ e ∈ es, EntryOk b e)
    (htgt : ∀ e ∈ es, ∀ t, targetOf e.instr e.addr = some t → br.contains t = true ∧ ∃ e' ∈ es, e'.addr = t)
    (hfs : fs main = some (listingText (Line.header :: render br es false BASE))) :
    Asm.run fs main = .done ⟨true, none, true, [], [(BASE, b)]⟩ := by
  have hlit : ∀ e ∈ es, LitOk e.instr := by
    intro e he
    obtain ⟨hws, h1, wf, _, _⟩ := hok e he
    exact litOk_of_encode e.instr hws h1 wf
  have hlines : LinesOk (Line.header :: render br es false BASE) := by
    intro a i hm
    rcases List.mem_cons.mp hm with h | h
    · cases h
    · exact linesOk_render br es false BASE hlit a i h
  obtain ⟨els, hparse, hels⟩ := parseFile_listing _ hlines
  have hv : (Line.header :: render br es false BASE).flatMap lineVals =
      ElemVal.directive (bytesOf "addr") (Args.ofList [.const 0x20000000]) :: entryVals br es := by
    rw [List.flatMap_cons, lineVals_render]; rfl
  rw [hv] at hels
  obtain ⟨e0, els', rfl, h0, hels'⟩ := List.map_eq_cons_iff.mp hels
  obtain ⟨l0, c0, v0⟩ := e0
  simp only at h0
  subst h0
  obtain ⟨tbl', pending', ts, hrun, htf, _, hlab⟩ := entries_run_fwd fs (Asm.assembleFile fs Asm.encoder (Asm.maxDepth - 1)) main b br
    hsmall es els' BASE (BASE + b.length) [] [] [] [] hels' hc (Nat.le_refl _) (Nat.le_refl _) (by simp) hok
    (by intro name v h; simp [Asm.Table.find] at h)
    (by
      intro e he t ht
      obtain ⟨g2, e', he', hea⟩ := htgt e he t ht
      have := chain_ge' es _ _ hc e' he'
      exact ⟨fun hlt => by omega, fun _ => ⟨g2, e', he', hea⟩⟩)
  have haddr := Asm.addr_ok fs (Asm.assembleFile fs Asm.encoder (Asm.maxDepth - 1)) ⟨[main], main⟩
    ⟨Seg.init, [], some [], [], some [], []⟩ [] (by simp) rfl rfl l0 c0 (0x20000000 : Int) (by decide) (by decide)
  have key : Asm.doAssemble fs Asm.encoder (Asm.assembleFile fs Asm.encoder (Asm.maxDepth - 1)) ⟨[main], main⟩
      (⟨l0, c0, .directive (bytesOf "addr") (Args.ofList [.const 0x20000000])⟩ :: els') none
      ⟨Seg.init, [], some [], [], some [], []⟩ =
      .ok (⟨⟨[], some ⟨BASE, (es.map (phOf b)).flatten, Map.u32Max - BASE + 1⟩, pending'⟩, [], some tbl', [], some ts, []⟩, .ok) := by
    simp only [Asm.doAssemble, Asm.statement, toList_ofList, haddr]
    have hrun' := hrun
    simp only [stQ, List.nil_append] at hrun'
    exact hrun'
  have hlk : ∀ e ∈ es, ∀ t, targetOf e.instr e.addr = some t → tbl'.get (label t) = .found (t : Int) := by
    intro e he t ht
    obtain ⟨g2, e', he', hea⟩ := htgt e he t ht
    rw [← hea]
    exact hlab e' he' (by rw [hea]; exact g2)
  have hchain := tasks_run main b tbl' pending' hsmall es ts htf BASE (BASE + b.length) [] [] hc (Nat.le_refl _) (Nat.le_refl _)
    (by simp) (by simp) hok hlk
  have hflat : (es.map (slice b)).flatten = b := by
    have := chain_flatten b es BASE (BASE + b.length) hc (Nat.le_refl _)
    simpa using this
  simp only [List.nil_append, List.append_nil, hflat] at hchain
  exact Asm.run_of_statements_tasks fs main _ hfs _ hparse tbl' ⟨BASE, (es.map (phOf b)).flatten, Map.u32Max - BASE + 1⟩
    ⟨BASE, b, Map.u32Max - BASE + 1⟩ pending' pending' ts key (by simpa [stQ] using hchain) hne hsmall

end Trion.Tridas
