import TrionModel.Lemmas.MapFind
/-!
# Memory map: what `locate` / `find` mean in the dictionary for `Search::Below`

Mirror image of `locLin_above_spec` / `find_above_spec`. The linear scan for `Below`, started at index `i`,
answers `.idx (i - 1)` (or `.none` when `i = 0`) when it stops before a segment that starts above `a`; the
induction therefore distinguishes "all of `ps` lies above `a`" (the answer is the caller's previous index)
from "some segment `j` of `ps` is the answer".
-/
namespace Trion.Map
open Trion.Dict

/-- what the linear scan returns for `Below` started at index `i`: either every segment of `ps` lies above
`a` (nothing of `ps` is occupied at or below `a`) and the answer is the index before `i` (if any), or the
answer is a segment `j` of `ps` which contains `a` or is the nearest one below `a`. -/
theorem locLin_below_spec {lo : Nat} {ps : Segs} (ok : Ok lo ps) (a i : Nat) :
    (locLin a .below ps i = (if i > 0 then .idx (i - 1) else .none) ∧ ∀ k, k ≤ a → abs ps k = none) ∨
    (∃ j s, locLin a .below ps i = .idx (i + j) ∧ ps[j]? = some s ∧
      ((s.1 ≤ a ∧ a < s.1 + s.2.length) ∨
       (s.1 + s.2.length ≤ a ∧ ∀ k, s.1 + s.2.length ≤ k → k ≤ a → abs ps k = none))) := by
  induction ps generalizing lo i with
  | nil => left; exact ⟨rfl, fun _ _ => rfl⟩
  | cons s r ih =>
    obtain ⟨f, x⟩ := s
    obtain ⟨o1, o2, o3, o4⟩ := ok
    have hx : 0 < x.length := List.length_pos_iff.mpr o2
    rw [locLin_cons]
    by_cases c1 : a < f
    · left
      simp only [c1, if_true]
      refine ⟨trivial, fun k hk => ?_⟩
      rw [abs_cons, if_neg (by omega)]
      exact abs_none_of_lt o4 (by omega)
    · by_cases c2 : a > segLast (f, x)
      · simp only [c1, c2, if_false, if_true]
        have c2' : a ≥ f + x.length := by unfold segLast at c2; simp only at c2; omega
        right
        rcases ih o4 (i + 1) with ⟨h1, h2⟩ | ⟨j, s, h1, h2, h3⟩
        · refine ⟨0, (f, x), ?_, rfl, Or.inr ⟨c2', fun k hk1 hk2 => ?_⟩⟩
          · rw [h1, if_pos (by omega)]; rfl
          · rw [abs_cons, if_neg (by simp only at hk1; omega)]; exact h2 k hk2
        · refine ⟨j + 1, s, ?_, ?_, ?_⟩
          · rw [h1]; congr 1; omega
          · simpa using h2
          · rcases h3 with h3 | ⟨h3, h4⟩
            · exact Or.inl h3
            · have hlb := Ok_lb o4 h2
              refine Or.inr ⟨h3, fun k hk1 hk2 => ?_⟩
              rw [abs_cons, if_neg (by omega)]; exact h4 k hk1 hk2
      · right
        simp only [c1, c2, if_false]
        refine ⟨0, (f, x), rfl, rfl, Or.inl ⟨by simp only; omega, ?_⟩⟩
        unfold segLast at c2; simp only at c2 ⊢; omega

theorem find_below_spec {lo : Nat} {ps : Segs} (ok : Ok lo ps) (a : Nat) :
    (find ps a .below = .ok none ∧ ∀ k, k ≤ a → abs ps k = none) ∨
    (∃ (j : Nat) (s : Seg), ps[j]? = some s ∧ find ps a .below = .ok (some (s.1, segLast s)) ∧
      ((s.1 ≤ a ∧ a < s.1 + s.2.length) ∨
       (s.1 + s.2.length ≤ a ∧ ∀ k, s.1 + s.2.length ≤ k → k ≤ a → abs ps k = none))) := by
  unfold find
  rw [locate_eq_locLin ok]
  rcases locLin_below_spec ok a 0 with ⟨h1, h2⟩ | ⟨j, s, h1, h2, h3⟩
  · left; rw [h1]; exact ⟨rfl, h2⟩
  · right; rw [h1, Nat.zero_add]
    refine ⟨j, s, h2, ?_, h3⟩
    simp only [h2]

/-- C15 (find, Below): the run containing the address, else the nearest run below it (nothing occupied in
between), else `None` when nothing at or below the address is occupied. -/
theorem find_below_agrees_aux (ps : Segs) (a : Nat) (inv : MInv ps) :
    (find ps a .below = .ok none ∧ ∀ k, k ≤ a → abs ps k = none) ∨
    (∃ f l, find ps a .below = .ok (some (f, l)) ∧ IsRun (abs ps) f l ∧
      ((f ≤ a ∧ a ≤ l) ∨ (l < a ∧ ∀ k, l < k → k ≤ a → abs ps k = none))) := by
  rcases find_below_spec inv a with h | ⟨j, s, h1, h3, h4⟩
  · exact Or.inl h
  · obtain ⟨a1, a2, a3, a4, _⟩ := abs_of_idx inv h1
    have hx : 0 < s.2.length := List.length_pos_iff.mpr a4
    refine Or.inr ⟨s.1, segLast s, h3, ⟨by unfold segLast; omega, fun k k1 k2 => ?_, a3, ?_⟩, ?_⟩
    · unfold segLast at k2
      rw [a1 k k1 (by omega), List.getElem?_eq_getElem (by omega)]; rfl
    · unfold segLast; rw [show s.1 + s.2.length - 1 + 1 = s.1 + s.2.length by omega]; exact a2
    · rcases h4 with ⟨h5, h6⟩ | ⟨h5, h6⟩
      · exact Or.inl ⟨h5, by unfold segLast; omega⟩
      · refine Or.inr ⟨by unfold segLast; omega, fun k k1 k2 => ?_⟩
        unfold segLast at k1
        exact h6 k (by omega) k2

/-- non-vacuity: segments [10,12], [20,20], [30,31]; address 25 lies in a gap (nearest run below is
[20,20]), address 11 lies inside the first segment, address 5 lies below everything. -/
example :
    find [(10, [1, 2, 3]), (20, [4]), (30, [5, 6])] 25 .below = .ok (some (20, 20)) ∧
    find [(10, [1, 2, 3]), (20, [4]), (30, [5, 6])] 11 .below = .ok (some (10, 12)) ∧
    find [(10, [1, 2, 3]), (20, [4]), (30, [5, 6])] 5 .below = .ok none ∧
    find [(10, [1, 2, 3]), (20, [4]), (30, [5, 6])] 40 .below = .ok (some (30, 31)) ∧
    MInv [(10, [1, 2, 3]), (20, [4]), (30, [5, 6])] := by
  refine ⟨by decide, by decide, by decide, by decide, ?_⟩
  simp [MInv, Ok]

end Trion.Map
