import TrionModel.Lemmas.AsmScopeRel
/-!
# `Trion.Asm`: every recorded diagnostic sits at a statement of a file of the project (C12, whole run)

`SrcEl fs f l c`: `f` is a file of the project and `(l, c)` is the position of one of the statements its text parses
into.  `Psrc fs cur up st` — the invariant: every recorded diagnostic is at such a statement (or is the report of the
parse error that ended a file, at the error's own position); every queued retry of a statement carries such a position;
a closure of `.global` waiting in the current file's queue carries a position of the current file `cur` (it reports
in the file whose loop runs it), one waiting in the includer's queue a position of the includer `up`.

The per-step facts are those of Props/C12Asm.lean (`diag_pos` = `statement_eff`, `diag_pos_task` = `runTask_eff`,
`diag_pos_include` = `includeDirective_cases`), the fact that a closure of `.global` is never queued into the includer's
list is `Rel.gt` / `Quiet.gt` (Lemmas/AsmScopeRel.lean).
-/
namespace Trion.Asm
open Trion

/-- `(l, c)` is the position of a statement the text of file `f` parses into -/
def SrcEl (fs : Bytes → Option Bytes) (f : Bytes) (l c : Nat) : Prop :=
  ∃ data lo els err, fs f = some data ∧ Lex.tokens data = .ok lo ∧ Parse.all lo = .done els err ∧
    ∃ el ∈ els, el.line = l ∧ el.col = c

/-- the diagnostic is at a statement of its file, or is the report of the error that ended the parse of its file -/
def DSrc (fs : Bytes → Option Bytes) (d : Diag) : Prop :=
  ∃ data lo els err, fs d.file = some data ∧ Lex.tokens data = .ok lo ∧ Parse.all lo = .done els err ∧
    ((∃ el ∈ els, d.line = el.line ∧ d.col = el.col) ∨
     ∃ e, err = some e ∧ d.line = e.line ∧ d.col = e.col ∧ ∃ k, d.kind = .parse k)

theorem DSrc.of_el {fs : Bytes → Option Bytes} {d : Diag} (h : SrcEl fs d.file d.line d.col) : DSrc fs d := by
  obtain ⟨data, lo, els, err, h1, h2, h3, el, hel, hl, hc⟩ := h
  exact ⟨data, lo, els, err, h1, h2, h3, .inl ⟨el, hel, hl.symm, hc.symm⟩⟩

def TaskSrc (fs : Bytes → Option Bytes) (f : Option Bytes) : Task → Prop
  | .data d _ => SrcEl fs d.file d.line d.col
  | .instr i _ => SrcEl fs i.file i.line i.col
  | .globalCopy _ l c => ∃ f', f = some f' ∧ SrcEl fs f' l c

structure Psrc (fs : Bytes → Option Bytes) (cur up : Option Bytes) (st : St) : Prop where
  errs : ∀ d ∈ st.errors, DSrc fs d
  gt : ∀ t ∈ st.globalTasks, TaskSrc fs up t
  lt : ∀ q, st.localTasks = some q → ∀ t ∈ q, TaskSrc fs cur t

theorem taskSrc_of_at {fs : Bytes → Option Bytes} {t : Task} {f : Bytes} {l c : Nat} {g : Option Bytes}
    (ht : t.at f l c) (hs : SrcEl fs f l c) (hg : t.notCopy = true ∨ g = some f) : TaskSrc fs g t := by
  cases t with
  | data d b => obtain ⟨rfl, rfl, rfl⟩ := ht; exact hs
  | instr i b => obtain ⟨rfl, rfl, rfl⟩ := ht; exact hs
  | globalCopy n l' c' =>
    obtain ⟨rfl, rfl⟩ := ht
    rcases hg with hg | hg
    · simp [Task.notCopy] at hg
    · exact ⟨f, hg, hs⟩

/-- a step all of whose additions are at `(f, l, c)` keeps the invariant -/
theorem psrc_of_eff {fs : Bytes → Option Bytes} {cur up : Option Bytes} {st st' : St} {f : Bytes} {l c : Nat}
    (hp : Psrc fs cur up st) (he : Eff f l c st st') (hs : SrcEl fs f l c)
    (hg : ∀ t ∈ st'.globalTasks, t ∈ st.globalTasks ∨ t.notCopy = true)
    (hl : ∀ q', st'.localTasks = some q' → ∀ t ∈ q', (∃ q, st.localTasks = some q ∧ t ∈ q) ∨ t.notCopy = true ∨ cur = some f) :
    Psrc fs cur up st' := by
  refine ⟨fun d hd => ?_, fun t ht => ?_, fun q' hq' t ht => ?_⟩
  · rcases he.1 d hd with h | ⟨h1, h2, h3⟩
    · exact hp.errs d h
    · exact .of_el (by rw [h1, h2, h3]; exact hs)
  · rcases hg t ht with h | h
    · exact hp.gt t h
    · rcases he.2.1 t ht with h' | h'
      · exact hp.gt t h'
      · exact taskSrc_of_at h' hs (.inl h)
  · rcases hl q' hq' t ht with ⟨q, hq, hm⟩ | h
    · exact hp.lt q hq t hm
    · rcases he.2.2 q' hq' t ht with ⟨q, hq, hm⟩ | h'
      · exact hp.lt q hq t hm
      · exact taskSrc_of_at h' hs h

theorem psrc_pushIn {fs : Bytes → Option Bytes} {cur up : Option Bytes} {st : St} (hp : Psrc fs cur up st) {f : Bytes}
    {l c : Nat} (k : Kind) (hs : SrcEl fs f l c) : Psrc fs cur up (st.pushIn f l c k) :=
  psrc_of_eff hp (eff_pushIn f l c st k) hs (fun _ h => .inl h) (fun q hq _ ht => .inl ⟨q, hq, ht⟩)

/-- what the recursive call of `.include` has to satisfy -/
def IncSrc (fs : Bytes → Option Bytes) (inc : Inc) : Prop :=
  ∀ env st data path st' r C up, st.locals = some C → fs path = some data → Psrc fs (some env.curName) up st →
    inc env st data path = .ok (st', r) → Psrc fs (some env.curName) up st'

theorem statement_src {fs : Bytes → Option Bytes} {enc : Encoder} {inc : Inc} (hrel : IncRel inc) (hinc : IncSrc fs inc)
    {env : Env} {st st' : St} {C : Table} {el : Element} {up : Option Bytes} {r : Res} (hC : st.locals = some C)
    (hp : Psrc fs (some env.curName) up st) (hs : SrcEl fs env.curName el.line el.col)
    (h : statement fs enc inc env st el = .ok (st', r)) : Psrc fs (some env.curName) up st' := by
  by_cases hi : ∃ as, el.val = .directive (bytesOf "include") as
  · obtain ⟨as, hv⟩ := hi
    have h' : includeDirective fs inc env st el.line el.col as.toList = .ok (st', r) := by
      simpa only [statement, hv, directive_include] using h
    rcases includeDirective_cases _ _ h' with ⟨k, rfl⟩ | ⟨data, path, st1, r1, hfs, hcall, hst⟩
    · exact psrc_pushIn hp k hs
    · have p1 := hinc _ _ _ _ _ _ _ up hC hfs hp hcall
      rcases hst with rfl | ⟨k, rfl⟩
      · exact p1
      · exact psrc_pushIn p1 k hs
  · have hni : ∀ as, el.val ≠ .directive (bytesOf "include") as := fun as e => hi ⟨as, e⟩
    have w := statement_rel hrel hC _ _ h
    exact psrc_of_eff hp (statement_eff hni _ _ h) hs w.gt (fun _ _ _ _ => .inr (.inr rfl))

theorem doAssemble_src {fs : Bytes → Option Bytes} {enc : Encoder} {inc : Inc} (hrel : IncRel inc) (hinc : IncSrc fs inc)
    {env : Env} {up : Option Bytes} (err : Option ParseErr)
    (herr : ∀ e, err = some e → DSrc fs ⟨env.curName, e.line, e.col, .parse e.kind⟩) :
    ∀ (els : List Element) (st : St) (C : Table), st.locals = some C → (∀ el ∈ els, SrcEl fs env.curName el.line el.col) →
      Psrc fs (some env.curName) up st →
      ∀ st' r, doAssemble fs enc inc env els err st = .ok (st', r) → Psrc fs (some env.curName) up st' := by
  intro els
  induction els with
  | nil =>
    intro st C _ _ hp st' r h
    cases err with
    | none => simp only [doAssemble] at h; cases h; exact hp
    | some e =>
      simp only [doAssemble] at h
      cases h
      refine ⟨fun d hd => ?_, hp.gt, hp.lt⟩
      simp only [St.push, St.pushIn, List.mem_cons] at hd
      rcases hd with rfl | hd
      · exact herr e rfl
      · exact hp.errs d hd
  | cons el els ih =>
    intro st C hC hels hp st' r h
    simp only [doAssemble] at h
    have hs := hels el List.mem_cons_self
    split at h
    · rename_i st1 hst
      obtain ⟨C1, hC1⟩ := (statement_rel hrel hC _ _ hst).locals_some
      exact ih st1 C1 hC1 (fun x hx => hels x (List.mem_cons_of_mem _ hx)) (statement_src hrel hinc hC hp hs hst) _ _ h
    · rename_i st1 l hst
      cases h
      exact statement_src hrel hinc hC hp hs hst
    · cases h

theorem runGlobalCopy_tasks {name : Bytes} {line col : Nat} {env : Env} {st : St} :
    ∀ st' r, runGlobalCopy name line col env st = .ok (st', r) →
      st'.globalTasks = st.globalTasks ∧ st'.localTasks = st.localTasks := by
  unfold runGlobalCopy
  splits
  all_goals (intro st' r h)
  all_goals (first | (cases h; done) | (cases h; exact ⟨rfl, rfl⟩) | skip)
  all_goals (have w := insertConstant_same ‹insertConstant _ _ _ _ = _›)
  all_goals (cases h; exact ⟨w.2.1, w.2.2⟩)

/-- a task run by the loop of the file `env.curName` (`cur = some env.curName`) or by `finalize` (`cur = none`) -/
theorem runTask_src {fs : Bytes → Option Bytes} {enc : Encoder} {env : Env} {st st' : St} {cur up : Option Bytes}
    {t : Task} {r : Res} (hcur : ∀ f', cur = some f' → f' = env.curName) (hp : Psrc fs cur up st)
    (ht : TaskSrc fs cur t) (h : runTask enc env st t = .ok (st', r)) : Psrc fs cur up st' := by
  cases t with
  | data d g =>
    have q := runDataTask_quiet _ _ h
    exact psrc_of_eff hp (runDataTask_eff _ _ h) ht q.gt (fun q' hq' t ht' => by
      rcases q.lt q' hq' t ht' with h1 | h1
      · exact .inl h1
      · exact .inr (.inl h1))
  | instr i g =>
    have q := runInstrTask_quiet _ _ h
    exact psrc_of_eff hp (runInstrTask_eff _ _ h) ht q.gt (fun q' hq' t ht' => by
      rcases q.lt q' hq' t ht' with h1 | h1
      · exact .inl h1
      · exact .inr (.inl h1))
  | globalCopy n l c =>
    obtain ⟨f', hf', hs⟩ := ht
    have e := hcur f' hf'
    subst e
    have w := runGlobalCopy_tasks _ _ h
    exact psrc_of_eff hp (runGlobalCopy_eff _ _ h) hs (fun t ht' => .inl (w.1 ▸ ht'))
      (fun q' hq' t ht' => .inl ⟨q', w.2 ▸ hq', ht'⟩)

theorem localRound_src {fs : Bytes → Option Bytes} {enc : Encoder} {env : Env} {up : Option Bytes} :
    ∀ (ts : List Task) (st : St) (res : Res), (∀ t ∈ ts, TaskSrc fs (some env.curName) t) →
      Psrc fs (some env.curName) up st →
      ∀ st' r, localRound enc env ts st res = .ok (st', r) → Psrc fs (some env.curName) up st' := by
  intro ts
  induction ts with
  | nil => intro st res _ hp st' r h; simp only [localRound] at h; cases h; exact hp
  | cons t ts ih =>
    intro st res hts hp st' r h
    simp only [localRound] at h
    have ht := hts t List.mem_cons_self
    have hts' : ∀ x ∈ ts, TaskSrc fs (some env.curName) x := fun x hx => hts x (List.mem_cons_of_mem _ hx)
    have hcur : ∀ f', some env.curName = some f' → f' = env.curName := fun f' e => by cases e; rfl
    split at h
    · rename_i st1 hr
      exact ih st1 res hts' (runTask_src hcur hp ht hr) _ _ h
    · rename_i st1 l hr
      have p1 := runTask_src hcur hp ht hr
      split at h
      · cases h; exact p1
      · exact ih st1 _ hts' p1 _ _ h
    · cases h

theorem localLoop_src {fs : Bytes → Option Bytes} {enc : Encoder} {env : Env} {up : Option Bytes} :
    ∀ (n : Nat) (ts : List Task) (st : St) (res : Res), (∀ t ∈ ts, TaskSrc fs (some env.curName) t) →
      Psrc fs (some env.curName) up st →
      ∀ st' r, localLoop enc env n ts st res = .ok (st', r) → Psrc fs (some env.curName) up st' := by
  intro n
  induction n with
  | zero => intro ts st res _ _ st' r h; simp [localLoop] at h
  | succ n ih =>
    intro ts st res hts hp st' r h
    simp only [localLoop] at h
    split at h
    · cases h; exact hp
    · split at h
      · rename_i st1 res1 hr
        have p1 := localRound_src ts st res hts hp _ _ hr
        split at h
        · cases h
        · rename_i new hnew
          have p2 : Psrc fs (some env.curName) up { st1 with localTasks := some [] } :=
            ⟨p1.errs, p1.gt, (fun q hq t ht => by cases hq; cases ht)⟩
          split at h
          · cases h; exact p2
          · exact ih new _ res1 (p1.lt new hnew) p2 _ _ h
      · cases h

/-- a whole file: `do_assemble` over the statements its text parses into, then its task loop -/
theorem fileBody_src {fs : Bytes → Option Bytes} {enc : Encoder} {inc : Inc} (hrel : IncRel inc) (hinc : IncSrc fs inc)
    {env : Env} {data : Bytes} {st : St} {C : Table} {up : Option Bytes} (hfs : fs env.curName = some data)
    (hC : st.locals = some C) (hp : Psrc fs (some env.curName) up st) :
    ∀ st' r, fileBody fs enc inc env data st = .ok (st', r) → Psrc fs (some env.curName) up st' := by
  intro st' r h
  unfold fileBody at h
  split at h
  · rename_i els perr hpf
    obtain ⟨lo, hlo, hall⟩ := parseFile_eq hpf
    have hels : ∀ el ∈ els, SrcEl fs env.curName el.line el.col :=
      fun el hel => ⟨data, lo, els, perr, hfs, hlo, hall, el, hel, rfl, rfl⟩
    have herr : ∀ e, perr = some e → DSrc fs ⟨env.curName, e.line, e.col, .parse e.kind⟩ :=
      fun e he => ⟨data, lo, els, perr, hfs, hlo, hall, .inr ⟨e, he, rfl, rfl, _, rfl⟩⟩
    split at h
    · rename_i st3 res hd
      have p3 := doAssemble_src hrel hinc perr herr els st C hC hels hp _ _ hd
      split at h
      · cases h; exact p3
      · split at h
        · cases h
        · rename_i tasks ht
          have p3' : Psrc fs (some env.curName) up { st3 with localTasks := some [] } :=
            ⟨p3.errs, p3.gt, (fun q hq t ht => by cases hq; cases ht)⟩
          exact localLoop_src rounds tasks _ res (p3.lt tasks ht) p3' _ _ h
    · cases h
  · cases h

theorem assembleFile_src (fs : Bytes → Option Bytes) (enc : Encoder) : ∀ fuel, IncSrc fs (assembleFile fs enc fuel) := by
  intro fuel
  induction fuel with
  | zero => intro env st data path st' r C up _ _ _ h; simp [assembleFile] at h
  | succ fuel ih =>
    intro env st data path st' r C up hC hfs hp h
    simp only [assembleFile, List.length_cons, Nat.add_one_ne_zero, if_false, ne_eq, not_true_eq_false] at h
    cases hlt : st.localTasks with
    | none =>
      have he : enterFile st = (some st.globals, none, { st with locals := some [], globals := C, localTasks := some [] }) := by
        simp [enterFile, hC, hlt]
      rw [he] at h
      simp only at h
      split at h
      · rename_i st4 res hf
        cases h
        have p2 : Psrc fs (some path) up ({ st with locals := some [], globals := C, localTasks := some [] } : St) :=
          ⟨hp.errs, hp.gt, (fun q hq t ht => by cases hq; cases ht)⟩
        have p4 := fileBody_src (assembleFile_rel fs enc fuel) ih (env := ⟨path :: env.paths, path⟩) hfs (C := []) rfl p2 _ _ hf
        exact ⟨p4.errs, p4.gt, (fun q hq => by cases hq)⟩
      · cases h
    | some q0 =>
      have he : enterFile st = (some st.globals, some st.globalTasks,
          { st with locals := some [], globals := C, localTasks := some [], globalTasks := q0 }) := by
        simp [enterFile, hC, hlt]
      rw [he] at h
      simp only at h
      split at h
      · rename_i st4 res hf
        cases h
        have p2 : Psrc fs (some path) (some env.curName)
            ({ st with locals := some [], globals := C, localTasks := some [], globalTasks := q0 } : St) :=
          ⟨hp.errs, hp.lt q0 hlt, (fun q hq t ht => by cases hq; cases ht)⟩
        have p4 := fileBody_src (assembleFile_rel fs enc fuel) ih (env := ⟨path :: env.paths, path⟩) hfs (C := []) rfl p2 _ _ hf
        exact ⟨p4.errs, hp.gt, (fun q hq t ht => by cases hq; exact p4.gt t ht)⟩
      · cases h

/-- the main file: assembled from outside any file -/
theorem assembleFile_src_main {fs : Bytes → Option Bytes} {enc : Encoder} {fuel : Nat} {env : Env} {st st' : St}
    {data path : Bytes} {r : Res} (hl : st.locals = none) (hlt : st.localTasks = none) (hfs : fs path = some data)
    (hp : Psrc fs none none st) (h : assembleFile fs enc fuel env st data path = .ok (st', r)) :
    Psrc fs none none st' := by
  cases fuel with
  | zero => simp [assembleFile] at h
  | succ fuel =>
    simp only [assembleFile, List.length_cons, Nat.add_one_ne_zero, if_false, ne_eq, not_true_eq_false] at h
    have he : enterFile st = (none, none, { st with locals := some [], localTasks := some [] }) := by
      simp [enterFile, hl, hlt]
    rw [he] at h
    simp only at h
    split at h
    · rename_i st4 res hf
      cases h
      have p2 : Psrc fs (some path) none ({ st with locals := some [], localTasks := some [] } : St) :=
        ⟨hp.errs, hp.gt, (fun q hq t ht => by cases hq; cases ht)⟩
      have p4 := fileBody_src (assembleFile_rel fs enc fuel) (assembleFile_src fs enc fuel)
        (env := ⟨path :: env.paths, path⟩) hfs (C := []) rfl p2 _ _ hf
      exact ⟨p4.errs, p4.gt, (fun q hq => by cases hq)⟩
    · cases h

theorem globalRound_src {fs : Bytes → Option Bytes} {enc : Encoder} {env : Env} : ∀ (ts : List Task) (st : St),
    (∀ t ∈ ts, TaskSrc fs none t) → Psrc fs none none st →
    ∀ st' ab, globalRound enc env ts st = .ok (st', ab) → Psrc fs none none st' := by
  intro ts
  induction ts with
  | nil => intro st _ hp st' ab h; simp only [globalRound] at h; cases h; exact hp
  | cons t ts ih =>
    intro st hts hp st' ab h
    simp only [globalRound] at h
    split at h
    · rename_i st1 r1 hr
      have p1 := runTask_src (cur := none) (fun f' e => by cases e) hp (hts t List.mem_cons_self) hr
      split at h
      · cases h; exact p1
      · exact ih st1 (fun x hx => hts x (List.mem_cons_of_mem _ hx)) p1 _ _ h
    · cases h

theorem globalLoop_src {fs : Bytes → Option Bytes} {enc : Encoder} {env : Env} : ∀ (n : Nat) (ts : List Task) (st : St),
    (∀ t ∈ ts, TaskSrc fs none t) → Psrc fs none none st →
    ∀ st' ab, globalLoop enc env n ts st = .ok (st', ab) → Psrc fs none none st' := by
  intro n
  induction n with
  | zero => intro ts st _ _ st' ab h; simp [globalLoop] at h
  | succ n ih =>
    intro ts st hts hp st' ab h
    simp only [globalLoop] at h
    split at h
    · cases h; exact hp
    · split at h
      · rename_i st1 ab1 hr
        have p1 := globalRound_src ts st hts hp _ _ hr
        have p2 : Psrc fs none none { st1 with globalTasks := [] } := ⟨p1.errs, (fun t ht => by cases ht), p1.lt⟩
        split at h
        · cases h; exact p2
        · exact ih st1.globalTasks _ p1.gt p2 _ _ h
      · cases h

theorem finalize_src {fs : Bytes → Option Bytes} {enc : Encoder} {env : Env} {st st' : St} {ok : Bool}
    (hp : Psrc fs none none st) (h : finalize enc env st = .ok (st', ok)) : Psrc fs none none st' := by
  unfold finalize at h
  split at h
  · rename_i st2 ab hl
    cases h
    exact globalLoop_src rounds st.globalTasks { st with globalTasks := [] } hp.gt
      ⟨hp.errs, (fun t ht => by cases ht), hp.lt⟩ _ _ hl
  · cases h

end Trion.Asm
