import TrionModel.Lemmas.C06Inc
/-!
# an invalid statement at ANY include depth: level-generic `.include` lemma and the chain predicate `FailsIn`
-/
namespace Trion.C04
open Trion Trion.Asm

/-- the path `.include "p"` resolves to, from the file at the top of the path stack -/
def incPath (env : Env) (p : Bytes) : Bytes :=
  match env.paths with
  | [] => sibling [] p
  | curr :: _ => sibling curr p

/-- the environment inside the file included by `.include "p"` -/
def incEnv (env : Env) (p : Bytes) : Env := ⟨incPath env p :: env.paths, incPath env p⟩

theorem includeDirective_str (fs : Bytes → Option Bytes) (inc : Inc) (env : Env) (st : St) (l c : Nat) (p : Bytes) :
    includeDirective fs inc env st l c [.str p] =
      match fs (incPath env p) with
      | none => .ok (st.push env l c (.dirApply "include" (.includeNoSuchFile (incPath env p))), .err .fatal)
      | some data =>
        match inc env st data (incPath env p) with
        | .ok (st', .ok) => .ok (st', .ok)
        | .ok (st', .err _) => .ok (st'.push env l c (.dirApply "include" (.includeFailed (incPath env p))), .err .fatal)
        | .stop r => .stop r := by
  simp only [includeDirective, arity, List.length_cons, List.length_nil, Nat.zero_add, if_true, incPath]
  cases env.paths <;> rfl

/-- `.include "p";` at any level: when the body of the included file ends with the diagnostics `D` and an error result, the
state after the statement holds `D` and `IncludeFailed` at the statement, and the statement's result is an error -/
theorem include_stmt_gen (fs : Bytes → Option Bytes) (fuel : Nat) (env : Env) (S : St) (l c : Nat) (p data2 : Bytes)
    (hfs2 : fs (incPath env p) = some data2) (D : List Diag)
    (hB : ∀ st4 r4, fileBody fs encoder (assembleFile fs encoder fuel) (incEnv env p) data2 (enterFile S).2.2 = .ok (st4, r4) →
        (∀ d ∈ D, d ∈ st4.errors) ∧ r4.isErr = true) :
    ∀ S1 r1, statement fs encoder (assembleFile fs encoder (fuel + 1)) env S
        ⟨l, c, .directive (bytesOf "include") (Args.ofList [.str p])⟩ = .ok (S1, r1) →
      (∀ d ∈ (⟨env.curName, l, c, .dirApply "include" (.includeFailed (incPath env p))⟩ : Diag) :: D, d ∈ S1.errors) ∧
      r1.isErr = true := by
  intro S1 r1 h
  simp only [statement, Show.toList_ofList] at h
  rw [directive_include, includeDirective_str] at h
  simp only [hfs2] at h
  have hinc : assembleFile fs encoder (fuel + 1) env S data2 (incPath env p) =
      match fileBody fs encoder (assembleFile fs encoder fuel) (incEnv env p) data2 (enterFile S).2.2 with
      | .ok (st4, r) => .ok (leaveFile (enterFile S).1 (enterFile S).2.1 st4, r)
      | .stop s => .stop s := by
    unfold assembleFile
    simp only [List.length_cons, Nat.add_one_ne_zero, if_false, ne_eq, not_true_eq_false, incEnv]
    generalize enterFile S = ef
    obtain ⟨cc, tt, st2⟩ := ef
    simp only
    cases fileBody fs encoder (assembleFile fs encoder fuel) ⟨incPath env p :: env.paths, incPath env p⟩ data2 st2 with
    | ok q => rfl
    | stop s => rfl
  rw [hinc] at h
  cases hF : fileBody fs encoder (assembleFile fs encoder fuel) (incEnv env p) data2 (enterFile S).2.2 with
  | stop s => rw [hF] at h; cases h
  | ok q =>
    obtain ⟨st4, r4⟩ := q
    obtain ⟨hD, he⟩ := hB st4 r4 hF
    rw [hF] at h
    simp only at h
    cases r4 with
    | ok => simp at he
    | err lv =>
      simp only at h
      cases h
      refine ⟨?_, rfl⟩
      intro d hd
      rcases List.mem_cons.mp hd with rfl | hd
      · exact List.mem_cons_self
      · simp only [St.push, St.pushIn]
        exact List.mem_cons_of_mem _ (by rw [leaveFile_errs]; exact hD d hd)

/-- `FailsIn fs fuel env data st D`: the body of the file `data` (read at include level `fuel`, in environment `env`, entered
with state `st`) contains — after a prefix that returns no error result — either a statement that records the diagnostics `D`
and returns an error result, or an `.include` of a file that `FailsIn` one level deeper (then `IncludeFailed` at the
`.include` statement is added to `D`) -/
inductive FailsIn (fs : Bytes → Option Bytes) : Nat → Env → Bytes → St → List Diag → Prop
  | here {fuel : Nat} {env : Env} {data : Bytes} {st : St} {D : List Diag} (els : List Element) (perr : Option ParseErr)
      (hp : parseFile data = .ok (els, perr)) (pre post : List Element) (el : Element) (hels : els = pre ++ el :: post)
      (S : St)
      (hpre : ∀ rest perr', doAssemble fs encoder (assembleFile fs encoder fuel) env (pre ++ rest) perr' st =
        doAssemble fs encoder (assembleFile fs encoder fuel) env rest perr' S)
      (hK : ∀ S1 r1, statement fs encoder (assembleFile fs encoder fuel) env S el = .ok (S1, r1) →
        (∀ d ∈ D, d ∈ S1.errors) ∧ r1.isErr = true) : FailsIn fs fuel env data st D
  | inc {fuel : Nat} {env : Env} {data : Bytes} {st : St} {D : List Diag} (els : List Element) (perr : Option ParseErr)
      (hp : parseFile data = .ok (els, perr)) (pre post : List Element) (l c : Nat) (p : Bytes)
      (hels : els = pre ++ ⟨l, c, .directive (bytesOf "include") (Args.ofList [.str p])⟩ :: post) (S : St)
      (hpre : ∀ rest perr', doAssemble fs encoder (assembleFile fs encoder (fuel + 1)) env (pre ++ rest) perr' st =
        doAssemble fs encoder (assembleFile fs encoder (fuel + 1)) env rest perr' S)
      (data2 : Bytes) (hfs2 : fs (incPath env p) = some data2)
      (hdeep : FailsIn fs fuel (incEnv env p) data2 (enterFile S).2.2 D) :
      FailsIn fs (fuel + 1) env data st
        ((⟨env.curName, l, c, .dirApply "include" (.includeFailed (incPath env p))⟩ : Diag) :: D)

theorem failsIn_body {fs : Bytes → Option Bytes} {fuel : Nat} {env : Env} {data : Bytes} {st : St} {D : List Diag}
    (h : FailsIn fs fuel env data st D) :
    ∀ st4 r4, fileBody fs encoder (assembleFile fs encoder fuel) env data st = .ok (st4, r4) →
      (∀ d ∈ D, d ∈ st4.errors) ∧ r4.isErr = true := by
  induction h with
  | here els perr hp pre post el hels S hpre hK =>
    intro st4 r4 hF
    refine ⟨fun d0 hd0 => ?_, fileBody_stmt_err fs encoder _ _ _ _ els perr hp pre post el hels S hpre
      (fun S1 r1 hX => (hK S1 r1 hX).2) st4 r4 hF⟩
    obtain ⟨d, hd, rfl⟩ := fileBody_stmt fs encoder _ _ _ _ els perr hp pre post el hels S hpre
      (assembleFile_keeps fs encoder _) (fun d => d = d0) (fun S1 r1 hX => ⟨d0, (hK S1 r1 hX).1 d0 hd0, rfl⟩) st4 r4 hF
    exact hd
  | inc els perr hp pre post l c p hels S hpre data2 hfs2 _ ih =>
    intro st4 r4 hF
    have hst := include_stmt_gen fs _ _ S l c p data2 hfs2 _ ih
    refine ⟨fun d0 hd0 => ?_, fileBody_stmt_err fs encoder _ _ _ _ els perr hp pre post _ hels S hpre
      (fun S1 r1 hX => (hst S1 r1 hX).2) st4 r4 hF⟩
    obtain ⟨d, hd, rfl⟩ := fileBody_stmt fs encoder _ _ _ _ els perr hp pre post _ hels S hpre
      (assembleFile_keeps fs encoder _) (fun d => d = d0) (fun S1 r1 hX => ⟨d0, (hst S1 r1 hX).1 d0 hd0, rfl⟩) st4 r4 hF
    exact hd

/-- a main file that `FailsIn`: every finished run is not a success and holds all of `D` -/
theorem run_failsIn (fs : Bytes → Option Bytes) (main data : Bytes) (hfs : fs main = some data) (D : List Diag) (hD : D ≠ [])
    (h : FailsIn fs (maxDepth - 1) ⟨[main], main⟩ data init2 D) :
    ∀ o, run fs main = .done o → o.success = false ∧ ∀ d ∈ D, d ∈ o.diags := by
  intro o ho
  cases hA : assembleFile fs encoder maxDepth Env.init St.init data main with
  | stop s =>
    unfold run runWith at ho
    simp only [hfs, hA] at ho
    cases s <;> cases ho
  | ok q =>
    obtain ⟨st, res⟩ := q
    obtain ⟨hmem, hsucc⟩ := run_keeps fs main o ho data hfs st res hA
    have hAe := assembleFile_main_eq fs data main
    rw [hA] at hAe
    cases hB : fileBody fs encoder (assembleFile fs encoder (maxDepth - 1)) ⟨[main], main⟩ data init2 with
    | stop s => rw [hB] at hAe; cases hAe
    | ok q =>
      obtain ⟨st4, r4⟩ := q
      rw [hB] at hAe
      simp only [Out.ok.injEq, Prod.mk.injEq] at hAe
      obtain ⟨rfl, _⟩ := hAe
      obtain ⟨hall, _⟩ := failsIn_body h st4 r4 hB
      have hdo : ∀ d ∈ D, d ∈ (leaveFile none none st4).errors := fun d hd => by rw [leaveFile_errors]; exact hall d hd
      refine ⟨hsucc ?_, fun d hd => hmem d (hdo d hd)⟩
      intro e
      cases D with
      | nil => exact hD rfl
      | cons d0 _ => have := hdo d0 List.mem_cons_self; rw [e] at this; cases this

end Trion.C04
