import TrionModel.Lemmas.SimpCompleteNoDef
import TrionModel.Lemmas.AsmAbs
/-!
# Complete evaluations over a table with `Deferred` entries

`evalIn_complete_valued`: the strengthening of `evalIn_complete_idents` (Lemmas/AsmAbs.lean) that does not need `Table.NoDef`:
if `evaluate` over `t` completes, every identifier of the operand is VALUED in `t` (not merely present) — even when `t` holds
forward-declared / imported-unvalued names.  `evalIn_complete_noDeferred`: the operand mentions no Deferred name.
-/
namespace Trion.Asm
open Trion

theorem tableOk_reg {t : Table} (h : TableOk t) : ∀ s, Front.isRegister s = true → (fun n => t.get n) s ≠ .deferred := by
  intro s hs hd
  simp only [Table.get] at hd
  cases hf : t.find s with
  | none => rw [hf] at hd; cases hd
  | some w =>
    have := h s w hf
    rw [hs] at this; cases this

theorem evalIn_complete_noDeferred {t : Table} (hok : TableOk t) {a a' : Arg} (h : evalIn t a = .ok (.complete a')) :
    noDeferredIn t a = true := by
  unfold evalIn at h
  cases he : Simp.evaluateE (fun n => t.get n) Front.isRegister a with
  | ok ev x =>
    rw [he] at h
    simp only at h
    cases hc : ev.cause with
    | none => exact Simp.evaluateE_complete_noDefIn (tableOk_reg hok) he hc
    | some c => rw [hc] at h; cases h
  | nosuch n x => rw [he] at h; cases h
  | err e x => rw [he] at h; cases h
  | panic => rw [he] at h; cases h

theorem evalIn_complete_valued {t : Table} (hok : TableOk t) {a a' : Arg} (h : evalIn t a = .ok (.complete a')) :
    ∀ s ∈ idents a, ∃ v, t.find s = some (some v) := by
  have hnd := evalIn_complete_noDeferred hok h
  unfold evalIn at h
  cases he : Simp.evaluateE (fun n => t.get n) Front.isRegister a with
  | ok ev x =>
    intro s hs
    have he' := he
    rw [Simp.evaluateE_undefer Front.isRegister hnd] at he'
    have hne := ((evaluateE_idents_both (Simp.undefer (fun n => t.get n))).1 a).1 _ _ he' s hs
    unfold Simp.undefer at hne
    cases hl : t.get s with
    | notFound => simp only [hl] at hne; exact absurd rfl hne
    | deferred => simp only [hl] at hne; exact absurd rfl hne
    | found v => exact ⟨v, get_found hl⟩
  | nosuch n x => rw [he] at h; cases h
  | err e x => rw [he] at h; cases h
  | panic => rw [he] at h; cases h

end Trion.Asm
