import TrionModel.Lemmas.LexBasic
/-!
# Helper lemmas for the tokenizer model, part 2: positions (`Pos.of`, `Pos.adv`, `updatePos`)
-/
namespace Trion.Pos

theorem adv_append (p : Nat × Nat) (a b : Bytes) : adv p (a ++ b) = adv (adv p a) b := by
  simp [adv, List.foldl_append]

theorem adv_nil (p : Nat × Nat) : adv p [] = p := rfl

theorem adv_cons (p : Nat × Nat) (b : UInt8) (d : Bytes) : adv p (b :: d) = adv (step p b) d := rfl

theorem countLF_cons (b : UInt8) (d : Bytes) : countLF (b :: d) = (if b.toNat = 10 then 1 else 0) + countLF d := by
  unfold countLF
  by_cases h : b.toNat = 10 <;> simp [h] <;> omega

theorem scalars_cons (b : UInt8) (d : Bytes) : scalars (b :: d) = (if isCont b then 0 else 1) + scalars d := by
  unfold scalars
  by_cases h : isCont b = true
  · simp [h]
  · simp [h]; omega

theorem lastLine_of_noLF {d : Bytes} (h : countLF d = 0) : lastLine d = d := by
  cases d with
  | nil => rfl
  | cons b d =>
    rw [countLF_cons] at h
    have h1 : ¬ b.toNat = 10 := by intro hb; simp [hb] at h
    have h2 : countLF d = 0 := by omega
    simp [lastLine, h1, h2]

/-- closed form of reading a text: lines add up, the column restarts after the last line feed -/
theorem adv_closed (p : Nat × Nat) (d : Bytes) :
    adv p d = (p.1 + countLF d, (if countLF d > 0 then 1 else p.2) + scalars (lastLine d)) := by
  induction d generalizing p with
  | nil => simp [adv, countLF, scalars, lastLine]
  | cons b d ih =>
    rw [adv_cons, ih, countLF_cons]
    by_cases hb : b.toNat = 10
    · by_cases hd : countLF d > 0
      · simp [step, hb, hd, lastLine]; omega
      · have hd0 : countLF d = 0 := by omega
        simp [step, hb, hd0, lastLine, lastLine_of_noLF hd0]
    · by_cases hd : countLF d > 0
      · by_cases hc : isCont b = true <;> simp [step, hb, hd, hc, lastLine]
      · have hd0 : countLF d = 0 := by omega
        by_cases hc : isCont b = true
        · simp [step, hb, hd0, hc, lastLine, scalars_cons, lastLine_of_noLF hd0]
        · simp [step, hb, hd0, hc, lastLine, scalars_cons, lastLine_of_noLF hd0]; omega

/-- the specification is the byte-wise reading started at (1, 1) -/
theorem of_eq_adv (d : Bytes) : Pos.of d = adv (1, 1) d := by
  rw [adv_closed]
  unfold Pos.of
  by_cases h : countLF d > 0 <;> simp [h]

/-- positions compose: the position after `a ++ b` is the position after `a` advanced over `b` -/
theorem of_append (a b : Bytes) : Pos.of (a ++ b) = adv (Pos.of a) b := by
  rw [of_eq_adv, of_eq_adv, adv_append]

/-- reading ASCII bytes other than line feed advances the column by their number -/
theorem adv_ascii (p : Nat × Nat) (d : Bytes) (h : ∀ b ∈ d, b.toNat < 128 ∧ b.toNat ≠ 10) :
    adv p d = (p.1, p.2 + d.length) := by
  induction d generalizing p with
  | nil => rfl
  | cons b d ih =>
    have hb := h b (by simp)
    have hc : isCont b = false := by simp [isCont]; omega
    rw [adv_cons, ih _ (fun x hx => h x (by simp [hx]))]
    simp [step, hb.2, hc]; omega

end Trion.Pos

namespace Trion.Lex
open Trion.Pos (isCont countLF scalars lastLine adv step)

/-- in the text, the byte after an ASCII byte never is a continuation byte (true of every slice of
well-formed UTF-8; closed under taking contiguous pieces, unlike `Utf8`) -/
def Good (d : Bytes) : Prop :=
  ∀ pre b c post, d = pre ++ b :: c :: post → b.toNat < 128 → isCont c = false

theorem good_of_utf8_infix {a m z : Bytes} (h : Utf8 (a ++ m ++ z)) : Good m := by
  intro pre b c post hm hb
  subst hm
  have h' : Utf8 ((a ++ pre) ++ b :: (c :: (post ++ z))) := by simpa using h
  exact utf8_head_noncont (utf8_split_after_ascii h' hb)

theorem good_of_utf8 {d : Bytes} (h : Utf8 d) : Good d :=
  good_of_utf8_infix (a := []) (z := []) (by simpa using h)

theorem good_of_utf8_prefix {a z : Bytes} (h : Utf8 (a ++ z)) : Good a :=
  good_of_utf8_infix (a := []) (by simpa using h)

theorem good_tail {b : UInt8} {d : Bytes} (h : Good (b :: d)) : Good d := by
  intro pre x c post hd hx
  exact h (b :: pre) x c post (by simp [hd]) hx

theorem rposition_spec (d : Bytes) :
    match rposition (fun b => b.toNat == 10) d with
    | none => countLF d = 0 ∧ lastLine d = d
    | some v => ∃ pre b, d = pre ++ b :: lastLine d ∧ pre.length = v ∧ b.toNat = 10 ∧ countLF d > 0 := by
  induction d with
  | nil => simp [rposition, countLF, lastLine]
  | cons a d ih =>
    simp only [rposition]
    cases hr : rposition (fun b => b.toNat == 10) d with
    | some i =>
      simp only [hr] at ih ⊢
      obtain ⟨pre, b, hd, hl, hb, hc⟩ := ih
      refine ⟨a :: pre, b, ?_, by simp [hl], hb, ?_⟩
      · simp only [lastLine, hc, if_true]
        rw [List.cons_append, ← hd]
      · rw [Pos.countLF_cons]; omega
    | none =>
      simp only [hr] at ih ⊢
      obtain ⟨hc, hl⟩ := ih
      by_cases ha : a.toNat = 10
      · simp only [ha, beq_self_eq_true, if_true]
        refine ⟨[], a, ?_, rfl, ha, ?_⟩
        · simp [lastLine, hc, ha]
        · rw [Pos.countLF_cons]; simp [ha]; omega
      · have : (a.toNat == 10) = false := by simpa using ha
        simp only [this]
        refine ⟨?_, ?_⟩
        · rw [Pos.countLF_cons]; simp [ha, hc]
        · simp [lastLine, hc, ha]

/-- `update_pos` is the byte-wise reading of the text, and its inner slice never panics -/
theorem updatePos_eq {d : Bytes} (hg : Good d) (l c : Nat) : updatePos l c d = some (adv (l, c) d) := by
  unfold updatePos
  have hs := rposition_spec d
  rw [Pos.adv_closed]
  cases hr : rposition (fun b => b.toNat == 10) d with
  | none =>
    simp only [hr] at hs ⊢
    obtain ⟨hc, hl⟩ := hs
    simp [sliceFrom, isBoundary_zero, hc, hl]
  | some v =>
    simp only [hr] at hs ⊢
    obtain ⟨pre, b, hd, hl, hb, hc⟩ := hs
    have hsl : sliceFrom d (v + 1) = some (lastLine d) := by
      have e : d = (pre ++ [b]) ++ lastLine d := by simpa using hd
      have := sliceFrom_split (pre ++ [b]) (lastLine d) (by
        intro x hx
        cases hll : lastLine d with
        | nil => simp [hll] at hx
        | cons y r =>
          simp [hll] at hx; subst hx
          exact hg pre b y r (by rw [hll] at hd; exact hd) (by omega))
      rw [← e] at this
      simpa [hl] using this
    simp [hsl, hc]

end Trion.Lex
