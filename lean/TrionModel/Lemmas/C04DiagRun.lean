import TrionModel.Lemmas.C04Diag
import TrionModel.Props.C06Asm
/-!
# C04 closed, diagnosed direction through `Asm.run` (helper equations for the main file)
-/
namespace Trion.C04
open Trion Trion.Front

/-- the state in which the main file's statements are processed -/
def init2 : Asm.St := ⟨Seg.init, [], some [], [], some [], []⟩

theorem assembleFile_main_eq (fs : Bytes → Option Bytes) (data main : Bytes) :
    Asm.assembleFile fs Asm.encoder Asm.maxDepth Asm.Env.init Asm.St.init data main =
      match Asm.fileBody fs Asm.encoder (Asm.assembleFile fs Asm.encoder (Asm.maxDepth - 1)) ⟨[main], main⟩ data init2 with
      | .ok (st4, r) => .ok (Asm.leaveFile none none st4, r)
      | .stop s => .stop s := by
  show Asm.assembleFile fs Asm.encoder (63 + 1) Asm.Env.init Asm.St.init data main = _
  unfold Asm.assembleFile
  simp only [Asm.Env.init, Asm.St.init, Asm.enterFile, List.length_cons, List.length_nil, Nat.zero_add, Nat.add_one_ne_zero,
    if_false, ne_eq, not_true_eq_false, init2, Asm.maxDepth]
  cases Asm.fileBody fs Asm.encoder (Asm.assembleFile fs Asm.encoder 63) ⟨[main], main⟩ data
    ⟨Seg.init, [], some [], [], some [], []⟩ with
  | ok p => rfl
  | stop s => rfl

theorem fileBody_eq (fs : Bytes → Option Bytes) (inc : Asm.Inc) (env : Asm.Env) (data : Bytes) (st : Asm.St)
    (els : List Element) (hp : Asm.parseFile data = .ok (els, none)) :
    Asm.fileBody fs Asm.encoder inc env data st =
      match Asm.doAssemble fs Asm.encoder inc env els none st with
      | .ok (st3, res) =>
        if res = .err .fatal then .ok (st3, res)
        else
          match st3.localTasks with
          | none => .stop .panic
          | some tasks => Asm.localLoop Asm.encoder env Asm.rounds tasks { st3 with localTasks := some [] } res
      | .stop r => .stop r := by
  simp only [Asm.fileBody, hp] <;> rfl

theorem leaveFile_errors (st : Asm.St) : (Asm.leaveFile none none st).errors = st.errors := rfl
theorem leaveFile_gt (st : Asm.St) : (Asm.leaveFile none none st).globalTasks = st.globalTasks := rfl
theorem leaveFile_lt (st : Asm.St) : (Asm.leaveFile none none st).localTasks = none := rfl

/-- **from the file body to the outcome of `run`**: if the body of the main file ends in a state that has recorded at
least one diagnostic, all diagnostics and queued tasks being at `(main, l, c)`, then `run` ends in an outcome that is not
a success, has at least one diagnostic, and all its diagnostics are at `(main, l, c)`. -/
theorem run_of_body (fs : Bytes → Option Bytes) (main data : Bytes) (hfs : fs main = some data) (l c : Nat)
    (st4 : Asm.St) (r : Asm.Res)
    (hbody : Asm.fileBody fs Asm.encoder (Asm.assembleFile fs Asm.encoder (Asm.maxDepth - 1)) ⟨[main], main⟩ data init2 = .ok (st4, r))
    (herr : 1 ≤ st4.errors.length) (hpat : PAt main l c st4) :
    ∃ o, Asm.run fs main = .done o ∧ o.success = false ∧ o.diags ≠ [] ∧ ∀ d ∈ o.diags, d.at main l c := by
  have hA := assembleFile_main_eq fs data main
  rw [hbody] at hA
  simp only at hA
  have hnp := Asm.run_no_panic fs main
  have hnl := Asm.run_no_loop fs main
  unfold Asm.run Asm.runWith at hnp hnl ⊢
  simp only [hfs, hA] at hnp hnl ⊢
  have hpat' : PAt main l c (Asm.leaveFile none none st4) :=
    ⟨hpat.errs, hpat.gt, fun q hq => by simp [leaveFile_lt] at hq⟩
  cases hc : Seg.closeSegment (Asm.leaveFile none none st4).seg with
  | mk s' out =>
    rw [hc] at hnp hnl
    cases out with
    | diag e =>
      simp only at hnp hnl ⊢
      refine ⟨_, rfl, by simp [Asm.Outcome.success], ?_, ?_⟩
      · simp only [leaveFile_errors, ne_eq, List.reverse_eq_nil_iff]
        intro h0; rw [h0] at herr; simp at herr
      · intro d hd
        exact hpat'.errs d (by simpa using hd)
    | panic => simp at hnp
    | ok =>
      simp only at hnp hnl ⊢
      cases hf : Asm.finalize Asm.encoder Asm.Env.init (⟨s', (Asm.leaveFile none none st4).globals, (Asm.leaveFile none none st4).locals, (Asm.leaveFile none none st4).globalTasks, (Asm.leaveFile none none st4).localTasks, (Asm.leaveFile none none st4).errors⟩ : Asm.St) with
      | stop s =>
        cases s with
        | panic => rw [hf] at hnp; simp at hnp
        | loop => rw [hf] at hnl; simp at hnl
        | fuel => exact absurd hf (Asm.finalize_nf _ _ _)
      | ok p =>
        obtain ⟨st', fin⟩ := p
        simp only
        obtain ⟨hlen, hfin⟩ := Asm.finalize_grew hf
        simp only [leaveFile_errors] at hlen
        have hne : st'.errors ≠ [] := by
          intro h0; rw [h0] at hlen; simp only [List.length_nil] at hlen; omega
        have hff : fin = false := by
          cases fin with
          | false => rfl
          | true => exact absurd (hfin.mp rfl) hne
        have hp2 : PAt main l c st' := finalize_pat (st := (⟨s', (Asm.leaveFile none none st4).globals, (Asm.leaveFile none none st4).locals, (Asm.leaveFile none none st4).globalTasks, (Asm.leaveFile none none st4).localTasks, (Asm.leaveFile none none st4).errors⟩ : Asm.St))
          ⟨hpat'.errs, hpat'.gt, hpat'.lt⟩ hf
        refine ⟨_, rfl, by simp [Asm.Outcome.success, hff], by simpa using hne, ?_⟩
        intro d hd
        exact hp2.errs d (by simpa using hd)
    | placed => 
      simp only at hnp hnl ⊢
      cases hf : Asm.finalize Asm.encoder Asm.Env.init (⟨s', (Asm.leaveFile none none st4).globals, (Asm.leaveFile none none st4).locals, (Asm.leaveFile none none st4).globalTasks, (Asm.leaveFile none none st4).localTasks, (Asm.leaveFile none none st4).errors⟩ : Asm.St) with
      | stop s =>
        cases s with
        | panic => rw [hf] at hnp; simp at hnp
        | loop => rw [hf] at hnl; simp at hnl
        | fuel => exact absurd hf (Asm.finalize_nf _ _ _)
      | ok p =>
        obtain ⟨st', fin⟩ := p
        simp only
        obtain ⟨hlen, hfin⟩ := Asm.finalize_grew hf
        simp only [leaveFile_errors] at hlen
        have hne : st'.errors ≠ [] := by
          intro h0; rw [h0] at hlen; simp only [List.length_nil] at hlen; omega
        have hff : fin = false := by
          cases fin with
          | false => rfl
          | true => exact absurd (hfin.mp rfl) hne
        have hp2 : PAt main l c st' := finalize_pat (st := (⟨s', (Asm.leaveFile none none st4).globals, (Asm.leaveFile none none st4).locals, (Asm.leaveFile none none st4).globalTasks, (Asm.leaveFile none none st4).localTasks, (Asm.leaveFile none none st4).errors⟩ : Asm.St))
          ⟨hpat'.errs, hpat'.gt, hpat'.lt⟩ hf
        refine ⟨_, rfl, by simp [Asm.Outcome.success, hff], by simpa using hne, ?_⟩
        intro d hd
        exact hp2.errs d (by simpa using hd)

end Trion.C04

namespace Trion.C04
open Trion Trion.Front

/-- a main file whose body stops can only have stopped with the include-depth bound (`run` neither panics nor loops) -/
theorem body_stop_fuel (fs : Bytes → Option Bytes) (main data : Bytes) (hfs : fs main = some data) (s : Asm.Stop)
    (hbody : Asm.fileBody fs Asm.encoder (Asm.assembleFile fs Asm.encoder (Asm.maxDepth - 1)) ⟨[main], main⟩ data init2 = .stop s) :
    s = .fuel := by
  have hA := assembleFile_main_eq fs data main
  rw [hbody] at hA
  simp only at hA
  have hnp := Asm.run_no_panic fs main
  have hnl := Asm.run_no_loop fs main
  unfold Asm.run Asm.runWith at hnp hnl
  simp only [hfs, hA] at hnp hnl
  cases s with
  | panic => simp at hnp
  | loop => simp at hnl
  | fuel => rfl

theorem defsTable_i64 : ∀ (defs : List (Bytes × Arg)) (t t' : Asm.Table), tblI64 t → defsTable defs t = some t' → tblI64 t' := by
  intro defs
  induction defs with
  | nil => intro t t' h hd; simp only [defsTable, Option.some.injEq] at hd; subst hd; exact h
  | cons d defs ih =>
    intro t t' h hd
    obtain ⟨n, e⟩ := d
    simp only [defsTable] at hd
    split at hd
    · cases hd
    · split at hd
      · cases hd
      · split at hd
        · rename_i v hv
          refine ih _ _ ?_ hd
          intro m w hm
          rw [Asm.find_set] at hm
          split at hm
          · cases hm; exact Simp.valC_range _ _ hv
          · exact h m w hm
        · cases hd

end Trion.C04
