import TrionModel.Lemmas.ParseAll
/-!
# What a successful call leaves behind is a suffix of its input
-/
namespace Trion.Parse

theorem close_suffix {lo : LexOut} {e : String} {w : Tok} {ts r : List Token} (h : close lo e w ts = .ok r) :
    r <:+ ts := by
  cases ts with
  | nil => simp [close] at h
  | cons t r' =>
    simp only [close] at h
    split at h
    · cases h; exact List.suffix_cons _ _
    · cases h

structure SuffixAt (lo : LexOut) (n : Nat) : Prop where
  unary : ∀ ts a r, unaryF lo n ts = .ok (a, r) → r <:+ ts
  binary : ∀ g st ts a r, binaryF lo n g st ts = .ok (a, r) → r <:+ ts
  loop : ∀ g st lhs ts a r, binLoopF lo n g st lhs ts = .ok (a, r) → r <:+ ts
  args : ∀ ts a r, argsF lo n ts = .ok (a, r) → r <:+ ts
  argsLoop : ∀ ts a r, argsLoopF lo n ts = .ok (a, r) → r <:+ ts

theorem operand_suffix {lo : LexOut} {n : Nat} (ih : SuffixAt lo n) {g : BinOpGroup} {st : Nat × Nat} {ts : List Token}
    {a : Arg} {r : List Token} (h : operandF lo n g st ts = .ok (a, r)) : r <:+ ts := by
  unfold operandF at h
  split at h
  · exact ih.unary _ _ _ h
  · exact ih.binary _ _ _ _ _ h

theorem suffixAt (lo : LexOut) : ∀ n, SuffixAt lo n := by
  intro n
  induction n with
  | zero => constructor <;> intros <;> simp_all [unaryF, binaryF, binLoopF, argsF, argsLoopF]
  | succ n ih =>
    constructor
    · intro ts a r h
      cases ts with
      | nil => simp [unaryF] at h
      | cons t r0 =>
        have hc : r0 <:+ t :: r0 := List.suffix_cons _ _
        rw [unaryF] at h
        split at h
        · obtain ⟨p, hp, h⟩ := bind_eq_ok.1 h
          cases h
          exact (ih.unary _ _ _ hp).trans hc
        · obtain ⟨p, hp, h⟩ := bind_eq_ok.1 h
          cases h
          exact (ih.unary _ _ _ hp).trans hc
        · cases h; exact hc
        · split at h
          · obtain ⟨p, hp, h⟩ := bind_eq_ok.1 h
            obtain ⟨r3, hcl, h⟩ := bind_eq_ok.1 h
            cases h
            exact (((close_suffix hcl).trans (ih.args _ _ _ hp)).trans (List.suffix_cons _ _)).trans hc
          · cases h; exact hc
        · cases h; exact hc
        · obtain ⟨p, hp, h⟩ := bind_eq_ok.1 h
          obtain ⟨r3, hcl, h⟩ := bind_eq_ok.1 h
          cases h
          exact ((close_suffix hcl).trans (ih.binary _ _ _ _ _ hp)).trans hc
        · obtain ⟨p, hp, h⟩ := bind_eq_ok.1 h
          obtain ⟨r3, hcl, h⟩ := bind_eq_ok.1 h
          cases h
          exact ((close_suffix hcl).trans (ih.binary _ _ _ _ _ hp)).trans hc
        · obtain ⟨p, hp, h⟩ := bind_eq_ok.1 h
          obtain ⟨r3, hcl, h⟩ := bind_eq_ok.1 h
          cases h
          exact ((close_suffix hcl).trans (ih.args _ _ _ hp)).trans hc
        · cases h
    · intro g st ts a r h
      rw [binaryF_succ] at h
      obtain ⟨p, hp, h⟩ := bind_eq_ok.1 h
      exact (ih.loop _ _ _ _ _ _ h).trans (operand_suffix ih hp)
    · intro g st lhs ts a r h
      cases ts with
      | nil =>
        rw [binLoopF] at h
        split at h
        · cases h; exact List.suffix_refl _
        · cases h
      | cons t r0 =>
        rw [binLoopF_cons] at h
        split at h
        · cases h; exact List.suffix_refl _
        · split at h
          · cases h
          · split at h
            · cases h; exact List.suffix_refl _
            · split at h
              · cases h
              · obtain ⟨p, hp, h⟩ := bind_eq_ok.1 h
                exact ((ih.loop _ _ _ _ _ _ h).trans (operand_suffix ih hp)).trans (List.suffix_cons _ _)
    · intro ts a r h
      cases ts with
      | nil =>
        rw [argsF] at h
        split at h
        · cases h; exact List.suffix_refl _
        · cases h
      | cons t r0 =>
        rw [argsF] at h
        split at h
        · cases h; exact List.suffix_refl _
        · exact ih.argsLoop _ _ _ h
    · intro ts a r h
      rw [argsLoopF] at h
      obtain ⟨p, hp, h⟩ := bind_eq_ok.1 h
      have hs := ih.binary _ _ _ _ _ hp
      split at h
      · split at h <;> cases h
      · rename_i t r1 hp2
        rw [hp2] at hs
        split at h
        · obtain ⟨q, hq, h⟩ := bind_eq_ok.1 h
          cases h
          exact ((ih.argsLoop _ _ _ hq).trans (List.suffix_cons _ _)).trans hs
        · split at h
          · cases h; rw [hp2]; exact hs
          · cases h

theorem args_suffix {lo : LexOut} {ts : List Token} {a : Args} {r : List Token} (h : args lo ts = .ok (a, r)) :
    r <:+ ts := (suffixAt lo _).args _ _ _ h

theorem nextInner_suffix {lo : LexOut} {e : String} {ts r : List Token} (h : nextInner lo e ts = .ok r) : r <:+ ts := by
  cases ts with
  | nil => simp [nextInner] at h
  | cons t r' => simp only [nextInner] at h; cases h; exact List.suffix_cons _ _

theorem stmtTail_suffix {lo : LexOut} {ts : List Token} {k : Args → ElemVal} {l c : Nat} {el : Element} {r' : List Token}
    (h : ((args lo ts).bind fun p => (nextInner lo "';'" p.2).bind fun r3 =>
      .ok ((⟨l, c, k p.1⟩ : Element), r3)) = .ok (el, r')) : r' <:+ ts := by
  obtain ⟨p, hp, h⟩ := bind_eq_ok.1 h
  obtain ⟨r3, hn, h⟩ := bind_eq_ok.1 h
  cases h
  exact (nextInner_suffix hn).trans (args_suffix hp)

theorem element_suffix {lo : LexOut} {t : Token} {r : List Token} {el : Element} {r' : List Token}
    (h : element lo t r = .ok (el, r')) : r' <:+ r := by
  unfold element at h
  split at h
  · split at h
    · cases h
    · split at h
      · exact (stmtTail_suffix h).trans (List.suffix_cons _ _)
      · cases h
  · split at h
    · split at h <;> cases h
    · split at h
      · cases h; exact List.suffix_cons _ _
      · exact stmtTail_suffix h
  · cases h

/-- the statements of a run: each element sits at the first token of its statement; the statements
follow each other in the token list (`firsts` is a sublist of the input, in order) -/
theorem allLoop_pos (lo : LexOut) : ∀ n ts els err, allLoop lo n ts = .done els err →
    ∃ firsts : List Token, firsts.Sublist ts ∧
      els.map (fun e => (e.line, e.col)) = firsts.map (fun t => (t.line, t.col)) ∧
      (∀ t ∈ firsts, t.val = .dirMark ∨ ∃ s, t.val = .ident s) ∧
      (els ≠ [] → firsts.head? = ts.head?) := by
  intro n
  induction n with
  | zero => intro ts els err h; simp [allLoop] at h
  | succ n ih =>
    intro ts els err h
    cases ts with
    | nil =>
      simp only [allLoop] at h
      split at h <;> (simp only [Outcome.done.injEq] at h; obtain ⟨rfl, _⟩ := h; exact ⟨[], by simp⟩)
    | cons t r =>
      simp only [allLoop] at h
      split at h
      · rename_i el r' he
        split at h
        · rename_i els' e' hrec
          simp only [Outcome.done.injEq] at h
          obtain ⟨rfl, _⟩ := h
          obtain ⟨firsts, hsub, hmap, hkind, _⟩ := ih r' els' e' hrec
          obtain ⟨_, hl, hc, hk⟩ := element_ok he
          refine ⟨t :: firsts, ?_, ?_, ?_, fun _ => rfl⟩
          · exact List.Sublist.cons_cons t (hsub.trans (element_suffix he).sublist)
          · simp only [List.map_cons, hl, hc, hmap]
          · intro x hx
            rcases List.mem_cons.1 hx with rfl | hx
            · exact hk
            · exact hkind x hx
        · cases h
        · cases h
      · simp only [Outcome.done.injEq] at h; obtain ⟨rfl, _⟩ := h; exact ⟨[], by simp⟩
      · cases h
      · cases h

/-- `Stmts lo ts els`: the elements `els` are what `do_next` reads, one after the other, starting at the
first token of `ts`, each beginning where the previous one ended, and each carrying the position of the
token it begins with -/
inductive Stmts (lo : LexOut) : List Token → List Element → Prop where
  | nil (ts : List Token) : Stmts lo ts []
  | cons (t : Token) (r r' : List Token) (el : Element) (els : List Element) :
      element lo t r = .ok (el, r') → el.line = t.line → el.col = t.col → r' <:+ r →
      Stmts lo r' els → Stmts lo (t :: r) (el :: els)

theorem allLoop_stmts (lo : LexOut) : ∀ n ts els err, allLoop lo n ts = .done els err → Stmts lo ts els := by
  intro n
  induction n with
  | zero => intro ts els err h; simp [allLoop] at h
  | succ n ih =>
    intro ts els err h
    cases ts with
    | nil =>
      simp only [allLoop] at h
      split at h <;> (simp only [Outcome.done.injEq] at h; obtain ⟨rfl, _⟩ := h; exact .nil _)
    | cons t r =>
      simp only [allLoop] at h
      split at h
      · rename_i el r' he
        split at h
        · rename_i els' e' hrec
          simp only [Outcome.done.injEq] at h
          obtain ⟨rfl, _⟩ := h
          obtain ⟨_, hl, hc, _⟩ := element_ok he
          exact .cons t r r' el els' he hl hc (element_suffix he) (ih r' els' e' hrec)
        · cases h
        · cases h
      · simp only [Outcome.done.injEq] at h; obtain ⟨rfl, _⟩ := h; exact .nil _
      · cases h
      · cases h

end Trion.Parse
