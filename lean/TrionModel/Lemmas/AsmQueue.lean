import TrionModel.Lemmas.AsmScope
import TrionModel.Lemmas.AsmAbs
/-!
# The local task queue of a file only grows at its end

`QSub st st'`: whatever the step did, the file's own queue `local_tasks` of `st'` is the queue of `st` followed by new
entries.  Proved for every statement other than `.include/.global/.import/.export` (the lemma family of Lemmas/AsmScope.lean,
`Quiet`, re-run for this relation).  Needed to find the task a deferred statement queued in the queue that is run when
the file ends.
-/
namespace Trion.Asm
open Trion

def QSub (st st' : St) : Prop := ∀ q, st.localTasks = some q → ∃ new, st'.localTasks = some (q ++ new)

theorem QSub.refl (st : St) : QSub st st := fun q hq => ⟨[], by rw [List.append_nil]; exact hq⟩

theorem QSub.trans {a b c : St} (h1 : QSub a b) (h2 : QSub b c) : QSub a c := fun q hq => by
  obtain ⟨n1, e1⟩ := h1 q hq
  obtain ⟨n2, e2⟩ := h2 _ e1
  exact ⟨n1 ++ n2, by rw [e2, List.append_assoc]⟩

theorem qsub_same {st st' : St} (_hg : st'.globals = st.globals) (_hl : st'.locals = st.locals)
    (_hgt : st'.globalTasks = st.globalTasks) (hlt : st'.localTasks = st.localTasks) : QSub st st' :=
  fun q hq => ⟨[], by rw [hlt, List.append_nil]; exact hq⟩

theorem QSub.of_eq {st st' : St} (hlt : st'.localTasks = st.localTasks) : QSub st st' :=
  fun q hq => ⟨[], by rw [hlt, List.append_nil]; exact hq⟩

theorem addTask_qsub {st st' : St} {t : Task} {r : Realm} (h : addTask st t r = .ok st') (_ht : t.notCopy = true) :
    QSub st st' := by
  unfold addTask at h
  repeat' split at h
  all_goals (first | (cases h; done) | skip)
  · cases h; exact QSub.of_eq rfl
  · rename_i q0 hq0
    cases h
    intro q hq
    rw [hq0] at hq; cases hq
    exact ⟨[t], rfl⟩

theorem qsub_pushIn (st : St) (f : Bytes) (l c : Nat) (k : Kind) : QSub st (st.pushIn f l c k) :=
  qsub_same rfl rfl rfl rfl

theorem qsub_push (st : St) (env : Env) (l c : Nat) (k : Kind) : QSub st (st.push env l c k) :=
  qsub_same rfl rfl rfl rfl

/-- the closing alternatives shared by the steps that touch regions and diagnostics only -/
macro "qsub_close" : tactic =>
  `(tactic| first
    | exact QSub.refl _
    | exact qsub_pushIn ..
    | exact qsub_push ..
    | exact qsub_same rfl rfl rfl rfl
    | exact (qsub_same (st' := { _ with seg := _ }) rfl rfl rfl rfl).trans (qsub_pushIn ..)
    | exact (qsub_same (st' := { _ with seg := _ }) rfl rfl rfl rfl).trans (qsub_push ..))

theorem writeData_qsub {d : DataExpr} {st : St} {bytes : Bytes} :
    ∀ d' st' r, d.writeData st bytes = .ok (d', st', r) → QSub st st' := by
  unfold DataExpr.writeData
  splits
  all_goals (intro d' st' r h)
  all_goals (first | (cases h; done) | (cases h; qsub_close))

theorem writer_qsub {d : DataExpr} {st : St} :
    ∀ d' st' r, d.writer st = .ok (d', st', r) → QSub st st' := by
  unfold DataExpr.writer
  splits
  all_goals (first | exact writeData_qsub | skip)
  all_goals (intro d' st' r h)
  all_goals (cases h; qsub_close)

theorem apply_qsub {d : DataExpr} {env : Env} {st : St} {loc : Bool} :
    ∀ d' st' op, d.apply env st loc = .ok (d', st', op) → QSub st st' := by
  unfold DataExpr.apply
  splits
  all_goals (intro d' st' op h)
  all_goals (first | (cases h; done) | skip)
  all_goals (try (rename_i hw; have w := writer_qsub _ _ _ hw))
  all_goals (first | (cases h; exact w) | (cases h; qsub_close))

theorem duDirective_qsub {du : DU} {env : Env} {st : St} {line col : Nat} {args : List Arg} :
    ∀ st' r, duDirective du env st line col args = .ok (st', r) → QSub st st' := by
  unfold duDirective
  splits
  all_goals (intro st' r h)
  all_goals (first | (cases h; done) | (cases h; qsub_close) | skip)
  all_goals (try (have w1 := apply_qsub _ _ _ ‹DataExpr.apply _ _ _ _ = _›))
  all_goals (try (have w2 := writeData_qsub _ _ _ ‹DataExpr.writeData _ _ _ = _›))
  all_goals (try (have w3 := addTask_qsub (t := .data _ false) ‹DataExpr.schedule _ _ _ = _› rfl))
  all_goals (cases h; first | exact w1 | exact w1.trans w2 | exact (w1.trans w2).trans w3)

theorem runDataTask_qsub {d : DataExpr} {g : Bool} {env : Env} {st : St} :
    ∀ st' r, runDataTask d g env st = .ok (st', r) → QSub st st' := by
  unfold runDataTask
  splits
  all_goals (intro st' r h)
  all_goals (first | (cases h; done) | skip)
  all_goals (try (have w1 := apply_qsub _ _ _ ‹DataExpr.apply _ _ _ _ = _›))
  all_goals (try (have w3 := addTask_qsub (t := .data _ true) ‹DataExpr.schedule _ _ _ = _› rfl))
  all_goals (cases h; first | exact w1 | exact w1.trans w3 | exact w1.trans (qsub_pushIn ..))

theorem assembleI_qsub {i : ArmInstr} {env : Env} {st : St} {loc : Bool} :
    ∀ i' st' op, i.assemble env st loc = .ok (i', st', op) → QSub st st' := by
  unfold ArmInstr.assemble
  splits
  all_goals (intro i' st' op h)
  all_goals (first | (cases h; done) | (cases h; qsub_close))

theorem writeInstr_qsub {enc : Encoder} {i : ArmInstr} {st : St} {df : Bool} :
    ∀ i' st' r, i.writeInstr enc st df = .ok (i', st', r) → QSub st st' := by
  unfold ArmInstr.writeInstr
  splits
  all_goals (intro i' st' r h)
  all_goals (first | (cases h; done) | (cases h; qsub_close))

theorem instruction_qsub {enc : Encoder} {env : Env} {st : St} {line col : Nat} {name : Bytes} {args : List Arg} :
    ∀ st' r, instruction enc env st line col name args = .ok (st', r) → QSub st st' := by
  unfold instruction
  splits
  all_goals (intro st' r h)
  all_goals (first | (cases h; done) | (cases h; qsub_close) | skip)
  all_goals (try (have w1 := assembleI_qsub _ _ _ ‹ArmInstr.assemble _ _ _ _ = _›))
  all_goals (try (have w2 := writeInstr_qsub _ _ _ ‹ArmInstr.writeInstr _ _ _ _ = _›))
  all_goals (try (have w3 := addTask_qsub (t := .instr _ false) ‹ArmInstr.schedule _ _ _ = _› rfl))
  all_goals (cases h; first | exact w1.trans w2 | exact (w1.trans w2).trans w3)

theorem runInstrTask_qsub {enc : Encoder} {i : ArmInstr} {g : Bool} {env : Env} {st : St} :
    ∀ st' r, runInstrTask enc i g env st = .ok (st', r) → QSub st st' := by
  unfold runInstrTask
  splits
  all_goals (intro st' r h)
  all_goals (first | (cases h; done) | skip)
  all_goals (try (have w1 := assembleI_qsub _ _ _ ‹ArmInstr.assemble _ _ _ _ = _›))
  all_goals (try (have w2 := writeInstr_qsub _ _ _ ‹ArmInstr.writeInstr _ _ _ _ = _›))
  all_goals (try (have w3 := addTask_qsub (t := .instr _ true) ‹ArmInstr.schedule _ _ _ = _› rfl))
  all_goals (cases h; first | exact w1 | exact w1.trans w2 | exact w1.trans w3 | exact w1.trans (qsub_pushIn ..))

theorem evalStrict_qsub {dir : String} {env : Env} {st st' : St} {line col : Nat} {a : Arg} {r : Res}
    (h : evalStrict dir env st line col a = .ok (.error (st', r))) : QSub st st' := by
  unfold evalStrict at h
  repeat' split at h
  all_goals (first | (cases h; done) | (cases h; qsub_close))

theorem addrDirective_qsub {env : Env} {st : St} {line col : Nat} {args : List Arg} :
    ∀ st' r, addrDirective env st line col args = .ok (st', r) → QSub st st' := by
  unfold addrDirective
  splits
  all_goals (intro st' r h)
  all_goals (first | (cases h; done) | (cases h; qsub_close) | (cases h; exact evalStrict_qsub ‹evalStrict _ _ _ _ _ _ = _›))

theorem alignDirective_qsub {env : Env} {st : St} {line col : Nat} {args : List Arg} :
    ∀ st' r, alignDirective env st line col args = .ok (st', r) → QSub st st' := by
  unfold alignDirective
  splits
  all_goals (intro st' r h)
  all_goals (first | (cases h; done) | (cases h; qsub_close) | (cases h; exact evalStrict_qsub ‹evalStrict _ _ _ _ _ _ = _›))

theorem appendData_qsub {dir : String} {env : Env} {st : St} {line col : Nat} {d : Bytes} :
    ∀ st' r, appendData dir env st line col d = .ok (st', r) → QSub st st' := by
  unfold appendData
  splits
  all_goals (intro st' r h)
  all_goals (first | (cases h; done) | (cases h; qsub_close))

theorem stringDirective_qsub {fs : Bytes → Option Bytes} {dir : String} {env : Env} {st : St} {line col : Nat}
    {args : List Arg} :
    ∀ st' r, stringDirective fs dir env st line col args = .ok (st', r) → QSub st st' := by
  unfold stringDirective
  splits
  all_goals (first | exact appendData_qsub | skip)
  all_goals (intro st' r h)
  all_goals (first | (cases h; done) | (cases h; qsub_close))


theorem insertConstant_qsub {st st' : St} {n : Bytes} {v : Int} {r : Realm} {x : Except CErr Bool}
    (h : insertConstant st n v r = .ok (st', x)) : QSub st st' := by
  unfold insertConstant at h
  repeat' split at h
  all_goals (first | (cases h; done) | (cases h; exact QSub.of_eq rfl))

theorem constDirective_qsub {env : Env} {st : St} {line col : Nat} {args : List Arg} :
    ∀ st' r, constDirective env st line col args = .ok (st', r) → QSub st st' := by
  unfold constDirective
  splits
  all_goals (intro st' r h)
  all_goals (first | (cases h; done) | (cases h; qsub_close) | (cases h; exact evalStrict_qsub ‹evalStrict _ _ _ _ _ _ = _›) | skip)
  all_goals (have w := insertConstant_qsub ‹insertConstant _ _ _ _ = _›)
  all_goals (cases h; first | exact w | exact w.trans (qsub_push ..))

theorem statement_qsub {fs : Bytes → Option Bytes} {enc : Encoder} {inc : Inc} {env : Env} {st : St} {el : Element}
    (hok : okEl el = true) : ∀ st' r, statement fs enc inc env st el = .ok (st', r) → QSub st st' := by
  intro st' r h
  obtain ⟨line, col, val⟩ := el
  cases val with
  | label name =>
    simp only [statement] at h
    repeat' split at h
    all_goals (first | (cases h; done) | skip)
    all_goals (try (have w2 := insertConstant_qsub ‹insertConstant _ _ _ _ = _›))
    all_goals (cases h; first | exact QSub.refl _ | qsub_close | exact w2 | exact w2.trans (qsub_push ..))
  | instruction name args =>
    simp only [statement] at h
    split at h
    · cases h; qsub_close
    · exact instruction_qsub _ _ h
  | directive name args =>
    simp only [okEl, Bool.not_eq_true', Bool.or_eq_false_iff, decide_eq_false_iff_not] at hok
    obtain ⟨⟨⟨hn1, hn2⟩, hn3⟩, hn4⟩ := hok
    simp only [statement] at h
    unfold directive at h
    by_cases h0 : name = bytesOf "addr"
    · rw [if_pos h0] at h; exact addrDirective_qsub _ _ h
    rw [if_neg h0] at h
    by_cases h1 : name = bytesOf "align"
    · rw [if_pos h1] at h; exact alignDirective_qsub _ _ h
    rw [if_neg h1] at h
    by_cases h2 : name = bytesOf "const"
    · rw [if_pos h2] at h; exact constDirective_qsub _ _ h
    rw [if_neg h2] at h
    by_cases h3 : name = bytesOf "du8"
    · rw [if_pos h3] at h; exact duDirective_qsub _ _ h
    rw [if_neg h3] at h
    by_cases h4 : name = bytesOf "du16"
    · rw [if_pos h4] at h; exact duDirective_qsub _ _ h
    rw [if_neg h4] at h
    by_cases h5 : name = bytesOf "du32"
    · rw [if_pos h5] at h; exact duDirective_qsub _ _ h
    rw [if_neg h5] at h
    by_cases h6 : name = bytesOf "dhex"
    · rw [if_pos h6] at h; exact stringDirective_qsub _ _ h
    rw [if_neg h6] at h
    by_cases h7 : name = bytesOf "dstr"
    · rw [if_pos h7] at h; exact stringDirective_qsub _ _ h
    rw [if_neg h7] at h
    by_cases h8 : name = bytesOf "dfile"
    · rw [if_pos h8] at h; exact stringDirective_qsub _ _ h
    rw [if_neg h8] at h
    rw [if_neg hn2, if_neg hn3, if_neg hn4, if_neg hn1] at h
    cases h
    qsub_close

end Trion.Asm
