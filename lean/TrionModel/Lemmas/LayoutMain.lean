import TrionModel.Lemmas.LayoutRef
/-!
# C05 helper lemmas, part 5: whole programs — `steps`, `runTasks`, `run` against `Ref.pass2`
-/
namespace Trion.Layout
open Ref

theorem steps_rel (p : List Stmt) (st st' : State) (c : Option Nat) (im : Img)
    (hr : Rel st st.tasks c im) (hwf : ∀ s ∈ p, s.wf = true)
    (h : steps st p = .ok st') :
    ∃ im', pass2 c im p = some im' ∧ Rel st' st'.tasks (cursorAfter c p) im' ∧
      (∀ a, (im.get a).isSome = true → im'.get a = im.get a) := by
  induction p generalizing st c im with
  | nil =>
    simp only [steps] at h; cases h
    exact ⟨im, rfl, hr, fun _ _ => rfl⟩
  | cons s r ih =>
    unfold steps at h
    cases hs : step st s with
    | error e => rw [hs] at h; cases h
    | ok st1 =>
      rw [hs] at h; simp only at h
      obtain ⟨im1, e1, r1, m1⟩ := step_rel st st1 s c im hr (hwf s List.mem_cons_self) hs
      obtain ⟨im2, e2, r2, m2⟩ := ih st1 (next c s) im1 r1 (fun x hx => hwf x (List.mem_cons_of_mem _ hx)) h
      refine ⟨im2, by rw [e1, e2], r2, fun a ha => ?_⟩
      have h1 := m1 a ha
      rw [m2 a (by rw [h1]; exact ha), h1]

/-- running the task queue: afterwards `view` IS the reference image -/
theorem runTasks_rel (l : List Task) (st st' : State) (c : Option Nat) (im : Img) (hr : Rel st l c im)
    (h : runTasks st l = .ok st') : Core st' ∧ ∀ a, view st' a = im.get a := by
  induction l generalizing st with
  | nil =>
    simp only [runTasks] at h; cases h
    exact ⟨hr.core, fun a => hr.agree a (fun t ht => by cases ht)⟩
  | cons t r ih =>
    unfold runTasks at h
    split at h
    · obtain ⟨st1, h1, hc1, _, _, hp, hk, hv⟩ := rewrite_spec st t hr.core (hr.tasks t List.mem_cons_self)
      rw [h1] at h; simp only at h
      have hin : ∀ x, t.addr ≤ x ∧ x < t.addr + t.len → view st1 x = im.get x := by
        intro x hx
        rw [hv x, if_pos hx]
        have := hr.fin t List.mem_cons_self (x - t.addr) (by omega)
        rw [show t.addr + (x - t.addr) = x by omega] at this
        exact this.symm
      refine ih st1 ⟨hc1, fun x hx => hk x (hr.tasks x (List.mem_cons_of_mem _ hx)), hp.trans hr.cur,
        fun x => ?_, fun x hx => ?_, fun x hx => hr.fin x (List.mem_cons_of_mem _ hx)⟩ h
      · by_cases hx : t.addr ≤ x ∧ x < t.addr + t.len
        · rw [hin x hx]
        · rw [hv x, if_neg hx]; exact hr.dom x
      · by_cases hx' : t.addr ≤ x ∧ x < t.addr + t.len
        · exact hin x hx'
        · rw [hv x, if_neg hx']
          apply hr.agree
          intro t' ht'
          rcases List.mem_cons.mp ht' with rfl | ht'
          · exact hx'
          · exact hx t' ht'
    · cases h

theorem run_ok (p : List Stmt) (img : Img) (h : run p = .ok img) :
    ∃ st st1 st2, steps {} p = .ok st ∧ runTasks { st with tasks := [] } st.tasks = .ok st1 ∧
      closeSeg st1 = .ok st2 ∧ img = st2.closed := by
  unfold run at h
  cases hs : steps {} p with
  | error e => rw [hs] at h; cases h
  | ok st =>
    rw [hs] at h; simp only at h
    cases hr : runTasks { st with tasks := [] } st.tasks with
    | error e => rw [hr] at h; cases h
    | ok st1 =>
      rw [hr] at h; simp only at h
      cases hc : closeSeg st1 with
      | error e => rw [hc] at h; cases h
      | ok st2 =>
        rw [hc] at h; simp only at h
        cases h
        exact ⟨st, st1, st2, rfl, hr, hc, rfl⟩

/-- the image of a successful run is the `pass2` image -/
theorem run_pass2 (p : List Stmt) (img : Img) (h : run p = .ok img) (hwf : ∀ s ∈ p, s.wf = true) :
    ∃ img', pass2 none [] p = some img' ∧ ∀ a, img.get a = img'.get a := by
  obtain ⟨st, st1, st2, hs, hr, hc, rfl⟩ := run_ok p img h
  obtain ⟨im', e1, r1, _⟩ := steps_rel p {} st none [] rel_init hwf hs
  have r1' : Rel { st with tasks := [] } st.tasks (cursorAfter none p) im' := r1.congr rfl rfl
  obtain ⟨hc1, hv⟩ := runTasks_rel st.tasks _ st1 _ im' r1' hr
  obtain ⟨st2', h2, _, _, _, _, hg, _⟩ := closeSeg_spec st1 hc1
  rw [hc] at h2; cases h2
  exact ⟨im', e1, fun a => by rw [hg a, hv a]⟩

end Trion.Layout
