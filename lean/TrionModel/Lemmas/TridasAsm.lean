import TrionModel.Lemmas.TridasFuel
import TrionModel.Lemmas.LayoutMain
/-!
# The tridas listing as an assembler program, at the level of the layout core (C05)

`lineStmts` reads the listing lines as statements of `Trion.Layout` (Model/Layout.lean): the header is
`.addr 0x20000000`, a label line `l_XXXXXXXX:` defines the symbol numbered by its address, an instruction line
is a value-dependent statement whose bytes (in the final symbol table) are `enc i` and which needs the symbols
`deps a i`; blank lines are nothing.
-/
namespace Trion.Tridas
open Trion.Layout

def lineStmts (enc : Instr → Bytes) (deps : Nat → Instr → List Nat) : List Line → List Stmt
  | [] => []
  | .header :: r => Stmt.addr BASE :: lineStmts enc deps r
  | .blank :: r => lineStmts enc deps r
  | .label a :: r => Stmt.label a :: lineStmts enc deps r
  | .instr a i :: r => Stmt.emit (enc i).length (deps a i) (enc i) :: lineStmts enc deps r

theorem lineStmts_wf (enc : Instr → Bytes) (deps : Nat → Instr → List Nat) (ls : List Line) :
    ∀ s ∈ lineStmts enc deps ls, s.wf = true := by
  induction ls with
  | nil => intro s hs; cases hs
  | cons l r ih =>
    intro s hs
    cases l with
    | header =>
      simp only [lineStmts, List.mem_cons] at hs
      rcases hs with h | h
      · subst h; rfl
      · exact ih s h
    | blank => exact ih s hs
    | label a =>
      simp only [lineStmts, List.mem_cons] at hs
      rcases hs with h | h
      · subst h; rfl
      · exact ih s h
    | instr a i =>
      simp only [lineStmts, List.mem_cons] at hs
      rcases hs with h | h
      · subst h; simp [Stmt.wf]
      · exact ih s h

/-- the lines the printing loop puts before an instruction line -/
def lead (br : List Nat) (e : Entry) (space : Bool) (last : Nat) : List Line :=
  (if decide (e.addr ≠ last) then [Line.blank] else []) ++
  (if br.contains e.addr then
    (if (if decide (e.addr ≠ last) then false else space) then [Line.blank] else []) ++ [Line.label e.addr]
   else [])

theorem render_cons (br : List Nat) (e : Entry) (r : List Entry) (space : Bool) (last : Nat) :
    render br (e :: r) space last =
      lead br e space last ++ Line.instr e.addr e.instr :: render br r (!getReturns e.instr) e.after := by
  simp only [render, lead, List.append_assoc]

/-- `lead` contributes, as statements, exactly the label definition when the address is a branch target -/
theorem lineStmts_lead (enc : Instr → Bytes) (deps : Nat → Instr → List Nat) (br : List Nat) (e : Entry)
    (space : Bool) (last : Nat) (rest : List Line) :
    lineStmts enc deps (lead br e space last ++ rest) =
      (if br.contains e.addr then [Stmt.label e.addr] else []) ++ lineStmts enc deps rest := by
  unfold lead
  cases br.contains e.addr <;> cases decide (e.addr ≠ last) <;> cases space <;> rfl

theorem slice_length (b : List UInt8) (e : Entry) (h1 : BASE ≤ e.addr) (h2 : e.after ≤ BASE + b.length) :
    (slice b e).length = e.after - e.addr := by
  unfold slice
  rw [List.length_take, List.length_drop]; omega

theorem slice_get (b : List UInt8) (e : Entry) (h1 : BASE ≤ e.addr) (k : Nat) (hk1 : e.addr ≤ k) (hk2 : k < e.after) :
    (slice b e)[k - e.addr]? = b[k - BASE]? := by
  unfold slice
  rw [List.getElem?_take_of_lt (by omega), List.getElem?_drop]
  refine congrArg (fun j => b[j]?) ?_
  omega

/-- **pass 2 on the listing**: the instruction lines are laid out back to back from the cursor, and the bytes
they place are the file's -/
theorem pass2_render (enc : Instr → Bytes) (deps : Nat → Instr → List Nat) (b : List UInt8) (br : List Nat) :
    ∀ (es : List Entry) (a z : Nat) (space : Bool) (last : Nat) (img : Img), Chain es a z → BASE ≤ a →
      z ≤ BASE + b.length → (∀ e ∈ es, enc e.instr = slice b e) →
      ∃ img', Ref.pass2 (some a) img (lineStmts enc deps (render br es space last)) = some img' ∧
        ∀ k, img'.get k = if a ≤ k ∧ k < z then b[k - BASE]? else img.get k := by
  intro es
  induction es with
  | nil =>
    intro a z space last img hc _ _ _
    simp only [Chain] at hc
    subst hc
    exact ⟨img, rfl, fun k => by rw [if_neg (by omega)]⟩
  | cons e r ih =>
    intro a z space last img hc ha hz henc
    obtain ⟨c1, c2, c3⟩ := hc
    have hzz : e.after ≤ z := by
      clear ih henc
      -- a chain ends at or after where it starts
      have : ∀ (es : List Entry) (x y : Nat), Chain es x y → x ≤ y := by
        intro es
        induction es with
        | nil => intro x y h; simp only [Chain] at h; omega
        | cons f q ih2 => intro x y h; have := ih2 _ _ h.2.2; have := h.1; have := h.2.1; omega
      exact this r _ _ c3
    have he := henc e (by simp)
    have hlen : (enc e.instr).length = e.after - e.addr := by
      rw [he]; exact slice_length b e (by omega) (by omega)
    obtain ⟨img', i1, i2⟩ := ih e.after z (!getReturns e.instr) e.after (img.put a (enc e.instr)) c3 (by omega) hz
      (fun f hf => henc f (by simp [hf]))
    refine ⟨img', ?_, fun k => ?_⟩
    · rw [render_cons, lineStmts_lead]
      have hstep : Ref.pass2 (some a) img
          (Stmt.emit (enc e.instr).length (deps e.addr e.instr) (enc e.instr) ::
            lineStmts enc deps (render br r (!getReturns e.instr) e.after)) = some img' := by
        simp only [Ref.pass2]
        rw [hlen, show a + (e.after - e.addr) = e.after by omega]
        exact i1
      by_cases hb : br.contains e.addr = true
      · rw [if_pos hb]
        simp only [lineStmts, List.cons_append, List.nil_append, Ref.pass2]
        exact hstep
      · rw [if_neg hb]
        simp only [lineStmts, List.nil_append]
        exact hstep
    · rw [i2 k, get_put]
      by_cases hk : e.after ≤ k ∧ k < z
      · rw [if_pos hk, if_pos (by omega)]
      · rw [if_neg hk]
        by_cases hk2 : a ≤ k ∧ k < a + (enc e.instr).length
        · rw [if_pos hk2, if_pos (by omega), he, ← c1]
          exact slice_get b e (by omega) k (by omega) (by omega)
        · rw [if_neg hk2, if_neg (by omega)]

/-- **pass 1 on the listing**: every label line `l_a:` stands where the cursor is `a`, so the symbol table binds
the symbol of a label line to the address the label names (and nothing else) -/
theorem pass1_render (enc : Instr → Bytes) (deps : Nat → Instr → List Nat) (b : List UInt8) (br : List Nat) :
    ∀ (es : List Entry) (a z : Nat) (space : Bool) (last : Nat) (env : Env), Chain es a z → BASE ≤ a →
      z ≤ BASE + b.length → BASE + b.length < two32 → (∀ e ∈ es, enc e.instr = slice b e) →
      (∀ n, env.get n ≠ none → n < a) →
      ∃ env', Ref.pass1 (some a) env (lineStmts enc deps (render br es space last)) = some env' ∧
        ∀ n, env'.get n = if br.contains n = true ∧ ∃ e ∈ es, e.addr = n then some (n : Int) else env.get n := by
  intro es
  induction es with
  | nil =>
    intro a z space last env _ _ _ _ _ _
    exact ⟨env, rfl, fun n => by rw [if_neg (by simp)]⟩
  | cons e r ih =>
    intro a z space last env hc ha hz hsm henc hfresh
    obtain ⟨c1, c2, c3⟩ := hc
    have hzz : e.after ≤ z := by
      have : ∀ (es : List Entry) (x y : Nat), Chain es x y → x ≤ y := by
        intro es
        induction es with
        | nil => intro x y h; simp only [Chain] at h; omega
        | cons f q ih2 => intro x y h; have := ih2 _ _ h.2.2; have := h.1; have := h.2.1; omega
      exact this r _ _ c3
    have he := henc e (by simp)
    have hlen : (enc e.instr).length = e.after - e.addr := by
      rw [he]; exact slice_length b e (by omega) (by omega)
    -- entries of the rest start at or after `e.after`
    have hrest : ∀ f ∈ r, e.after ≤ f.addr := by
      have : ∀ (es : List Entry) (x y : Nat), Chain es x y → ∀ f ∈ es, x ≤ f.addr := by
        intro es
        induction es with
        | nil => intro x y _ f hf; cases hf
        | cons g q ih2 =>
          intro x y h f hf
          rcases List.mem_cons.mp hf with hf | hf
          · subst hf; have := h.1; omega
          · have := ih2 _ _ h.2.2 f hf; have := h.1; have := h.2.1; omega
      exact this r _ _ c3
    rw [render_cons, lineStmts_lead]
    by_cases hb : br.contains e.addr = true
    · rw [if_pos hb]
      have hnone : env.get e.addr = none := by
        cases hg : env.get e.addr with
        | none => rfl
        | some v => have := hfresh e.addr (by rw [hg]; simp); omega
      obtain ⟨env', i1, i2⟩ := ih e.after z (!getReturns e.instr) e.after ((e.addr, (a : Int)) :: env) c3 (by omega) hz hsm
        (fun f hf => henc f (by simp [hf]))
        (fun n hn => by
          simp only [Env.get] at hn
          by_cases hk : e.addr = n
          · omega
          · rw [if_neg hk] at hn; have := hfresh n hn; omega)
      refine ⟨env', ?_, fun n => ?_⟩
      · simp only [lineStmts, List.cons_append, List.nil_append, Ref.pass1, hnone]
        rw [if_pos (by unfold top; unfold two32 at hsm; omega)]
        simp only [Ref.size]
        rw [hlen, show a + (e.after - e.addr) = e.after by omega]
        exact i1
      · rw [i2 n]
        by_cases hn : br.contains n = true ∧ ∃ f ∈ r, f.addr = n
        · rw [if_pos hn, if_pos ⟨hn.1, by obtain ⟨f, hf, h⟩ := hn.2; exact ⟨f, by simp [hf], h⟩⟩]
        · rw [if_neg hn]
          simp only [Env.get]
          by_cases hk : e.addr = n
          · rw [if_pos hk, if_pos ⟨hk ▸ hb, e, by simp, hk⟩, ← hk, c1]
          · rw [if_neg hk, if_neg]
            rintro ⟨h1, f, hf, h2⟩
            rcases List.mem_cons.mp hf with hf | hf
            · subst hf; exact hk h2
            · exact hn ⟨h1, f, hf, h2⟩
    · rw [if_neg hb]
      obtain ⟨env', i1, i2⟩ := ih e.after z (!getReturns e.instr) e.after env c3 (by omega) hz hsm
        (fun f hf => henc f (by simp [hf])) (fun n hn => by have := hfresh n hn; omega)
      refine ⟨env', ?_, fun n => ?_⟩
      · simp only [lineStmts, List.nil_append, Ref.pass1, Ref.size]
        rw [hlen, show a + (e.after - e.addr) = e.after by omega]
        exact i1
      · rw [i2 n]
        by_cases hn : br.contains n = true ∧ ∃ f ∈ r, f.addr = n
        · rw [if_pos hn, if_pos ⟨hn.1, by obtain ⟨f, hf, h⟩ := hn.2; exact ⟨f, by simp [hf], h⟩⟩]
        · rw [if_neg hn, if_neg]
          rintro ⟨h1, f, hf, h2⟩
          rcases List.mem_cons.mp hf with hf | hf
          · subst hf; rw [h2] at hb; exact hb h1
          · exact hn ⟨h1, f, hf, h2⟩

end Trion.Tridas
