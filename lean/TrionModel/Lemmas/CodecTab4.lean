import TrionModel.Lemmas.CodecTab
namespace Trion.Codec
/-- halfwords 0x8000 … 0x9fff, evaluated by the kernel -/
theorem chkBlock4 : chkBlock 4 32 := by decide +kernel
end Trion.Codec
