import TrionModel.Lemmas.CodecTac
import TrionModel.Lemmas.ArmSpec
/-! Tactics for the agreement of the ARMv6-M table with the decoder model. -/
set_option linter.unusedSimpArgs false
namespace Trion.Codec
open Trion Trion.Arm

/-- the instruction of a decoder result, if any -/
def toOpt : DecRes → Option Instr
  | .ok (_, i) => some i
  | .error _ => none

theorem nat_beq_eq_decide (a b : Nat) : (a == b) = decide (a = b) := by
  by_cases h : a = b <;> simp [h]

/-- split the decoder (in hypothesis `hres : decode16 h = res`) into its branches -/
macro "dec_split" "at" hres:ident : tactic => `(tactic| (
  repeat' (first
    | simp only [withReg, withCond] at $hres:ident
    | simp only [Fin.val_ofNat] at $hres:ident
    | rw [if_neg (by omega)] at $hres:ident
    | rw [if_pos (by omega)] at $hres:ident
    | split at $hres:ident
    | unfold decode16 at $hres:ident | unfold dec00000 at $hres:ident | unfold decShift at $hres:ident
    | unfold dec00011 at $hres:ident | unfold dec01000 at $hres:ident | unfold decDataProc at $hres:ident
    | unfold dec0101 at $hres:ident | unfold decLdStImm at $hres:ident | unfold dec10110 at $hres:ident
    | unfold dec10111 at $hres:ident | unfold decHint at $hres:ident | unfold dec1101 at $hres:ident
    | unfold decode32 at $hres:ident | unfold decBarrier at $hres:ident)))

macro "spec_skip" : tactic => `(tactic| (repeat rw [decodeIn_cons_skip _ _ _ _ (by fit_side)]))

/-- one branch of the decoder against the rows of its group -/
macro "spec_leaf" : tactic => `(tactic| (
  first
  | (exfalso; omega)
  | (simp only [toOpt]
     spec_skip
     first
     | rfl
     | (rw [decodeIn_cons_hit _ _ _ _ (by fit_side)]
        simp [fieldOf, segVal, Arm.r, Arm.rg, Arm.im, Arm.set, Arm.sx, Arm.sh32, Arm.cond, Arm.ibit, Arm.sys, imm, mkSet, sext2,
          Fin.ext_iff, Reg.sp, Reg.pc, Cond.always, nat_beq_eq_decide] <;> first | omega | (split <;> omega)))))

end Trion.Codec
