import TrionModel.Lemmas.AsmRetryAgree
/-!
# A complete evaluation has looked up no `Deferred` name

`evaluate` returns `Ok(Complete)` (no `Deferred` cause) only if no identifier of the operand is `Deferred` in the table:
the first Deferred name met becomes the cause and no later step clears it.  With `Simp.evaluateE_undefer` this makes a
complete evaluation over a table WITH Deferred entries the evaluation over the table with those entries forgotten
(`undefer`, a `NoDef` table) — the step the statement simulation (Lemmas/AsmRefineStmt.lean) needs to work in a file whose
table holds forward-declared (`.global`) or imported-unvalued names.
-/
namespace Trion.Simp
open Trion

theorem or_cause_none {e1 e2 : Ev} (h : (e1.or e2).cause = none) : e1.cause = none ∧ e2.cause = none := by
  simp only [Ev.or] at h
  cases h1 : e1.cause with
  | none => rw [h1] at h; exact ⟨rfl, by simpa using h⟩
  | some c => rw [h1] at h; simp at h

theorem evaluateE_complete_noDefIn_both (lk : Bytes → Lookup) (isReg : Bytes → Bool)
    (hreg : ∀ s, isReg s = true → lk s ≠ .deferred) :
    (∀ a ev a', evaluateE lk isReg a = .ok ev a' → ev.cause = none → noDefIn lk a = true) ∧
    (∀ as ev as', evaluateArgsE lk isReg as = .ok ev as' → ev.cause = none → noDefInArgs lk as = true) := by
  apply Arg.ind2
  case const => intro v ev a' _ _; rfl
  case ident =>
    intro s ev a' h hc
    simp only [noDefIn, decide_eq_true_eq]
    simp only [evaluateE] at h
    split at h
    · rename_i hr; exact hreg s hr
    · intro hl
      rw [hl] at h
      simp only [EvE.ok.injEq] at h
      obtain ⟨he, _⟩ := h
      subst he
      cases hc
  case str => intro v ev a' _ _; rfl
  case bin =>
    intro op l r ihl ihr ev a' h hc
    simp only [evaluateE] at h
    simp only [noDefIn, Bool.and_eq_true]
    cases h1 : evaluateE lk isReg l with
    | ok e1 l' =>
      rw [h1] at h
      cases h2 : evaluateE lk isReg r with
      | ok e2 r' =>
        rw [h2] at h
        simp only at h
        have := afterRawE_cause _ _ _ _ h
        rw [hc] at this
        obtain ⟨c1, c2⟩ := or_cause_none this.symm
        exact ⟨ihl _ _ h1 c1, ihr _ _ h2 c2⟩
      | nosuch m r' => rw [h2] at h; cases h
      | err e t => rw [h2] at h; cases h
      | panic => rw [h2] at h; cases h
    | nosuch m l' => rw [h1] at h; cases h
    | err e t => rw [h1] at h; cases h
    | panic => rw [h1] at h; cases h
  case neg =>
    intro v ih ev a' h hc
    simp only [evaluateE] at h
    simp only [noDefIn]
    cases h1 : evaluateE lk isReg v with
    | ok e1 l' =>
      rw [h1] at h
      simp only at h
      have := afterRawE_cause _ _ _ _ h
      exact ih _ _ h1 (by rw [← this]; exact hc)
    | nosuch m l' => rw [h1] at h; cases h
    | err e t => rw [h1] at h; cases h
    | panic => rw [h1] at h; cases h
  case not =>
    intro v ih ev a' h hc
    simp only [evaluateE] at h
    simp only [noDefIn]
    cases h1 : evaluateE lk isReg v with
    | ok e1 l' =>
      rw [h1] at h
      simp only at h
      have := afterRawE_cause _ _ _ _ h
      exact ih _ _ h1 (by rw [← this]; exact hc)
    | nosuch m l' => rw [h1] at h; cases h
    | err e t => rw [h1] at h; cases h
    | panic => rw [h1] at h; cases h
  case addr =>
    intro v ih ev a' h hc
    simp only [evaluateE] at h
    simp only [noDefIn]
    cases h1 : evaluateE lk isReg v with
    | ok e1 l' =>
      rw [h1] at h
      simp only at h
      have := afterRawE_cause _ _ _ _ h
      exact ih _ _ h1 (by rw [← this]; exact hc)
    | nosuch m l' => rw [h1] at h; cases h
    | err e t => rw [h1] at h; cases h
    | panic => rw [h1] at h; cases h
  case seq =>
    intro as ih ev a' h hc
    simp only [evaluateE] at h
    simp only [noDefIn]
    cases h1 : evaluateArgsE lk isReg as with
    | ok e1 l' =>
      rw [h1] at h
      simp only [EvE.ok.injEq] at h
      exact ih _ _ h1 (by rw [h.1]; exact hc)
    | nosuch m l' => rw [h1] at h; cases h
    | err e t => rw [h1] at h; cases h
    | panic => rw [h1] at h; cases h
  case func =>
    intro f as ih ev a' h hc
    simp only [evaluateE] at h
    simp only [noDefIn]
    cases h1 : evaluateArgsE lk isReg as with
    | ok e1 l' =>
      rw [h1] at h
      simp only [EvE.ok.injEq] at h
      exact ih _ _ h1 (by rw [h.1]; exact hc)
    | nosuch m l' => rw [h1] at h; cases h
    | err e t => rw [h1] at h; cases h
    | panic => rw [h1] at h; cases h
  case nil => intro ev as' _ _; rfl
  case cons =>
    intro a as iha ihas ev as' h hc
    simp only [evaluateArgsE] at h
    simp only [noDefInArgs, Bool.and_eq_true]
    cases h1 : evaluateE lk isReg a with
    | ok e1 l' =>
      rw [h1] at h
      cases h2 : evaluateArgsE lk isReg as with
      | ok e2 r' =>
        rw [h2] at h
        simp only [EvE.ok.injEq] at h
        have hcc : (e1.or e2).cause = none := by rw [h.1]; exact hc
        obtain ⟨c1, c2⟩ := or_cause_none hcc
        exact ⟨iha _ _ h1 c1, ihas _ _ h2 c2⟩
      | nosuch m r' => rw [h2] at h; cases h
      | err e t => rw [h2] at h; cases h
      | panic => rw [h2] at h; cases h
    | nosuch m l' => rw [h1] at h; cases h
    | err e t => rw [h1] at h; cases h
    | panic => rw [h1] at h; cases h

/-- a complete evaluation mentions no Deferred name -/
theorem evaluateE_complete_noDefIn {lk : Bytes → Lookup} {isReg : Bytes → Bool} (hreg : ∀ s, isReg s = true → lk s ≠ .deferred)
    {a : Arg} {ev : Ev} {a' : Arg} (h : evaluateE lk isReg a = .ok ev a') (hc : ev.cause = none) : noDefIn lk a = true :=
  (evaluateE_complete_noDefIn_both lk isReg hreg).1 a ev a' h hc

end Trion.Simp
