import TrionModel.Lemmas.CodecWf
namespace Trion.Codec
theorem wfBlock4 : wfBlock 4 32 := by decide +kernel
end Trion.Codec
