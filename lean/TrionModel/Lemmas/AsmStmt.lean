import TrionModel.Lemmas.AsmPrim
import TrionModel.Lemmas.AsmFront
/-!
# `Trion.Asm`: `.du*` statements, instruction statements and their tasks keep the invariant and do not panic
-/
namespace Trion.Asm
open Trion

/-! ## `.du8/.du16/.du32` -/

/-- where a `DataExpr` stands -/
def DAt (st : St) (d : DataExpr) : Prop := At st.seg d.placed d.addr d.du.size

/-- the fields of a `DataExpr` that never change -/
def DataExpr.same (d d' : DataExpr) : Prop := d'.du = d.du ∧ d'.addr = d.addr ∧ (d.placed = true → d'.placed = true)

theorem DataExpr.same_refl (d : DataExpr) : d.same d := ⟨rfl, rfl, id⟩

theorem leBytes_length (n v : Nat) : (leBytes n v).length = n := by
  induction n generalizing v with
  | zero => rfl
  | succ n ih => simp [leBytes, ih]

theorem DAt_pushIn {st : St} {d : DataExpr} (h : DAt st d) (f : Bytes) (l c : Nat) (k : Kind) : DAt (st.pushIn f l c k) d := h

theorem writeData_safe {b : Bool} {st : St} (h : Good b st) (d : DataExpr) (bytes : Bytes)
    (hl : bytes.length = d.du.size) (hat : DAt st d) :
    d.writeData st bytes ≠ .stop .panic ∧ ∀ d' st' r, d.writeData st bytes = .ok (d', st', r) →
      Good b st' ∧ Ext st st' ∧ DAt st' d' ∧ d.same d' ∧ (r = .ok → d'.placed = true) := by
  have w := writeStmt_safe h.inv d.placed d.addr bytes (by rw [hl]; exact hat)
  unfold DataExpr.writeData
  split
  · rename_i s' p' hw
    obtain ⟨hi, hp, ha, hn, hpp, tr, hpath, hdg⟩ := w.2 _ _ _ hw
    refine ⟨by simp, fun d' st' r e => ?_⟩
    cases e
    have g := good_setSeg h hi hp
    exact ⟨g, ext_of_path (st'' := { st with seg := _ }) hp rfl hpath (by simp [hdg]),
      by rw [hl] at ha; exact ha, ⟨rfl, rfl, hpp⟩, fun _ => hn rfl⟩
  · rename_i s' p' e' hw
    obtain ⟨hi, hp, ha, hn, hpp, tr, hpath, hdg⟩ := w.2 _ _ _ hw
    refine ⟨by simp, fun d' st' r e => ?_⟩
    cases e
    have g := good_setSeg h hi hp
    exact ⟨good_pushIn g .., ext_of_path (st'' := St.pushIn { st with seg := _ } _ _ _ _) hp rfl hpath (by simp [hdg, St.pushIn]),
      by rw [hl] at ha; exact ha, ⟨rfl, rfl, hpp⟩, fun e => by cases e⟩
  · rename_i r hw
    exact ⟨fun e => by cases e; exact w.1 hw, fun d' st' r e => by cases e⟩

theorem writer_safe {b : Bool} {st : St} (h : Good b st) (d : DataExpr) (hat : DAt st d) :
    d.writer st ≠ .stop .panic ∧ ∀ d' st' r, d.writer st = .ok (d', st', r) →
      Good b st' ∧ Ext st st' ∧ DAt st' d' ∧ d.same d' ∧ (r = .ok → d'.placed = true) := by
  unfold DataExpr.writer
  split
  · split
    · exact writeData_safe h d _ (leBytes_length _ _) hat
    · exact ⟨by simp, fun d' st' r e => by
        cases e; exact ⟨good_pushIn h .., ext_pushIn .., hat, d.same_refl, fun e => by cases e⟩⟩
  · exact ⟨by simp, fun d' st' r e => by
      cases e; exact ⟨good_pushIn h .., ext_pushIn .., hat, d.same_refl, fun e => by cases e⟩⟩

theorem apply_safe {b : Bool} {env : Env} {st : St} (h : Good b st) (hb : env.paths.isEmpty = !b) (d : DataExpr)
    (loc : Bool) (hat : DAt st d) :
    d.apply env st loc ≠ .stop .panic ∧ ∀ d' st' op, d.apply env st loc = .ok (d', st', op) →
      Good b st' ∧ Ext st st' ∧ DAt st' d' ∧ d.same d' := by
  obtain ⟨ev, hev⟩ := evalArg_ok h hb d.arg
  unfold DataExpr.apply
  rw [hev]
  cases ev with
  | complete a =>
    simp only
    have w := writer_safe h ({ d with arg := a } : DataExpr) hat
    split
    · rename_i d1 st1 hw
      obtain ⟨g, e, da, sa, _⟩ := w.2 _ _ _ hw
      exact ⟨by simp, fun d' st' op eq => by cases eq; exact ⟨g, e, da, sa⟩⟩
    · rename_i d1 st1 l hw
      obtain ⟨g, e, da, sa, _⟩ := w.2 _ _ _ hw
      exact ⟨by simp, fun d' st' op eq => by cases eq; exact ⟨g, e, da, sa⟩⟩
    · rename_i r hw
      exact ⟨fun e => by cases e; exact w.1 hw, fun d' st' op e => by cases e⟩
  | deferred c a =>
    exact ⟨by simp, fun d' st' op eq => by cases eq; exact ⟨h, Ext.refl _, hat, ⟨rfl, rfl, id⟩⟩⟩
  | noSuch n a =>
    simp only
    split
    · exact ⟨by simp, fun d' st' op eq => by cases eq; exact ⟨h, Ext.refl _, hat, ⟨rfl, rfl, id⟩⟩⟩
    · exact ⟨by simp, fun d' st' op eq => by
        cases eq; exact ⟨good_pushIn h .., ext_pushIn .., hat, ⟨rfl, rfl, id⟩⟩⟩
  | err e a =>
    exact ⟨by simp, fun d' st' op eq => by
      cases eq; exact ⟨good_pushIn h .., ext_pushIn .., hat, ⟨rfl, rfl, id⟩⟩⟩

theorem taskOk_data {st : St} {d : DataExpr} (hat : DAt st d) (hp : d.placed = true) (g : Bool) :
    TaskOk st.seg.pending (.data d g) := by
  refine ⟨hp, ?_⟩
  simpa [DAt, At, hp] using hat

theorem dat_of_taskOk {st : St} {d : DataExpr} {g : Bool} (h : TaskOk st.seg.pending (.data d g)) : DAt st d := by
  obtain ⟨hp, hm⟩ := h
  simpa [DAt, At, hp] using hm

theorem duDirective_safe {env : Env} {st : St} (h : Good true st) (hb : env.paths.isEmpty = false)
    (du : DU) (line col : Nat) (args : List Arg) : Safe true st (duDirective du env st line col args) := by
  unfold duDirective
  split
  · exact safe_push h ..
  · rename_i addr hca
    split
    · exact safe_push h ..
    · rename_i har
      split
      · rename_i a
        have hat : DAt st ⟨du, env.curName, line, col, addr, a, false⟩ := by
          unfold currAddr at hca
          cases hact : st.seg.active with
          | none => simp [hact] at hca
          | some seg =>
            simp only [hact, Option.map_some, Option.some.injEq] at hca
            simpa [DAt, At] using ⟨seg, hact, hca⟩
        have ap := apply_safe h (by simpa using hb) ⟨du, env.curName, line, col, addr, a, false⟩ true hat
        simp only at ap ⊢
        split
        · rename_i d1 st1 hap
          obtain ⟨g, e, _, _⟩ := ap.2 _ _ _ hap
          exact ⟨by simp, fun st' x eq => by cases eq; exact ⟨g, e⟩⟩
        · rename_i d1 st1 op _ hap
          obtain ⟨g, e, da, sa⟩ := ap.2 _ _ _ hap
          have wd := writeData_safe g d1 (List.replicate du.size 0xBE) (by simp [sa.1]) da
          split
          · rename_i d2 st2 hwd
            obtain ⟨g2, e2, da2, sa2, hp2⟩ := wd.2 _ _ _ hwd
            have at_ := addTask_safe g2 (.data d2 false) .loc (taskOk_data da2 (hp2 rfl) false) (fun _ => rfl)
              (fun e => by cases e)
            unfold DataExpr.schedule
            simp only [Bool.false_eq_true, if_false]
            split
            · rename_i st3 hat3
              obtain ⟨g3, e3⟩ := at_.2 _ hat3
              exact ⟨by simp, fun st' x eq => by cases eq; exact ⟨g3, (e.trans e2).trans e3⟩⟩
            · rename_i r hat3
              exact ⟨fun e => by cases e; exact at_.1 hat3, fun st' x eq => by cases eq⟩
          · rename_i d2 st2 l hwd
            obtain ⟨g2, e2, _, _, _⟩ := wd.2 _ _ _ hwd
            exact ⟨by simp, fun st' x eq => by cases eq; exact ⟨g2, e.trans e2⟩⟩
          · rename_i r hwd
            exact ⟨fun e => by cases e; exact wd.1 hwd, fun st' x eq => by cases eq⟩
        · rename_i r hap
          exact ⟨fun e => by cases e; exact ap.1 hap, fun st' x eq => by cases eq⟩
      · -- arity said one argument
        rename_i hne
        exfalso
        unfold arity at har
        split at har
        · rename_i hlen
          match args, hlen with
          | [a], _ => exact hne a rfl
        · split at har <;> cases har

theorem runDataTask_safe {b : Bool} {env : Env} {st : St} (h : Good b st) (hb : env.paths.isEmpty = !b)
    (d : DataExpr) (g : Bool) (ht : TaskOk st.seg.pending (.data d g)) : Safe b st (runDataTask d g env st) := by
  have ap := apply_safe h hb d false (dat_of_taskOk ht)
  unfold runDataTask
  split
  · rename_i d1 st1 hap
    obtain ⟨g1, e1, _, _⟩ := ap.2 _ _ _ hap
    exact ⟨by simp, fun st' x eq => by cases eq; exact ⟨g1, e1⟩⟩
  · rename_i d1 st1 cause hap
    obtain ⟨g1, e1, da, sa⟩ := ap.2 _ _ _ hap
    split
    · exact ⟨by simp, fun st' x eq => by cases eq; exact ⟨good_pushIn g1 .., e1.trans (ext_pushIn ..)⟩⟩
    · have at_ := addTask_safe g1 (.data d1 true) .global (taskOk_data da (sa.2.2 ht.1) true) (fun e => by cases e)
        (fun _ => rfl)
      unfold DataExpr.schedule
      simp only [if_true]
      split
      · rename_i st2 hat2
        obtain ⟨g2, e2⟩ := at_.2 _ hat2
        exact ⟨by simp, fun st' x eq => by cases eq; exact ⟨g2, e1.trans e2⟩⟩
      · rename_i r hat2
        exact ⟨fun e => by cases e; exact at_.1 hat2, fun st' x eq => by cases eq⟩
  · rename_i d1 st1 l hap
    obtain ⟨g1, e1, _, _⟩ := ap.2 _ _ _ hap
    exact ⟨by simp, fun st' x eq => by cases eq; exact ⟨g1, e1⟩⟩
  · rename_i r hap
    exact ⟨fun e => by cases e; exact ap.1 hap, fun st' x eq => by cases eq⟩

/-! ## instructions -/

/-- where an `ArmInstr` stands -/
def IAt (st : St) (i : ArmInstr) : Prop := At st.seg i.placed i.st.addr (ilen i.st.instr)

def ArmInstr.same (i i' : ArmInstr) : Prop :=
  i'.st.addr = i.st.addr ∧ ilen i'.st.instr = ilen i.st.instr ∧ (i.placed = true → i'.placed = true)

theorem assembleI_safe {b : Bool} {env : Env} {st : St} (h : Good b st) (hb : env.paths.isEmpty = !b) (i : ArmInstr)
    (loc : Bool) (hat : IAt st i) :
    i.assemble env st loc ≠ .stop .panic ∧ ∀ i' st' op, i.assemble env st loc = .ok (i', st', op) →
      Good b st' ∧ Ext st st' ∧ IAt st' i' ∧ i.same i' := by
  obtain ⟨t, ht⟩ := evalTable_ok h hb
  unfold ArmInstr.assemble
  rw [ht]
  simp only [evalPanics_false, Bool.false_eq_true, if_false]
  have keep := Front.assemble_keeps i.st (frontEval t) loc
  have np := Front.assemble_no_panic i.st (frontEval t) loc
  have key : ∀ fs r, Front.assemble i.st (frontEval t) loc = (fs, r) →
      IAt st { i with st := fs } ∧ i.same { i with st := fs } := by
    intro fs r e
    rw [e] at keep
    simp only at keep
    refine ⟨?_, keep.1, keep.2, id⟩
    unfold IAt at hat ⊢
    simp only [keep.1, keep.2]
    exact hat
  split
  · rename_i fs e
    exact ⟨by simp, fun i' st' op eq => by cases eq; exact ⟨h, Ext.refl _, (key _ _ e).1, (key _ _ e).2⟩⟩
  · rename_i fs c e
    exact ⟨by simp, fun i' st' op eq => by cases eq; exact ⟨h, Ext.refl _, (key _ _ e).1, (key _ _ e).2⟩⟩
  · rename_i fs d e
    exact ⟨by simp, fun i' st' op eq => by
      cases eq; exact ⟨good_pushIn h .., ext_pushIn .., (key _ _ e).1, (key _ _ e).2⟩⟩
  · rename_i fs e
    rw [e] at np
    exact absurd rfl np

theorem writeInstr_safe {enc : Encoder} (henc : EncLen enc) {b : Bool} {st : St} (h : Good b st) (i : ArmInstr)
    (deferred : Bool) (hat : IAt st i) :
    i.writeInstr enc st deferred ≠ .stop .panic ∧ ∀ i' st' r, i.writeInstr enc st deferred = .ok (i', st', r) →
      Good b st' ∧ Ext st st' ∧ IAt st' i' ∧ i.same i' ∧ (r = .ok → i'.placed = true) := by
  unfold ArmInstr.writeInstr
  split
  · exact ⟨by simp, fun i' st' r eq => by
      cases eq; exact ⟨good_pushIn h .., ext_pushIn .., hat, ⟨rfl, rfl, id⟩, fun e => by cases e⟩⟩
  · rename_i bytes hen
    have hl := henc _ _ hen
    have hl' : (if deferred then List.replicate bytes.length (0xBE : UInt8) else bytes).length = ilen i.st.instr := by
      split <;> simp [hl]
    simp only
    have w := writeStmt_safe h.inv i.placed i.st.addr
      (if deferred then List.replicate bytes.length (0xBE : UInt8) else bytes) (by rw [hl']; exact hat)
    split
    · rename_i s' p' hw
      obtain ⟨hi, hp, ha, hn, hpp, tr, hpath, hdg⟩ := w.2 _ _ _ hw
      refine ⟨by simp, fun i' st' r e => ?_⟩
      cases e
      have g := good_setSeg h hi hp
      exact ⟨g, ext_of_path (st'' := { st with seg := _ }) hp rfl hpath (by simp [hdg]),
        by rw [hl'] at ha; exact ha, ⟨rfl, rfl, hpp⟩, fun _ => hn rfl⟩
    · rename_i s' p' e' hw
      obtain ⟨hi, hp, ha, hn, hpp, tr, hpath, hdg⟩ := w.2 _ _ _ hw
      refine ⟨by simp, fun i' st' r e => ?_⟩
      cases e
      have g := good_setSeg h hi hp
      exact ⟨good_pushIn g .., ext_of_path (st'' := St.pushIn { st with seg := _ } _ _ _ _) hp rfl hpath (by simp [hdg, St.pushIn]),
        by rw [hl'] at ha; exact ha, ⟨rfl, rfl, hpp⟩, fun e => by cases e⟩
    · rename_i r hw
      exact ⟨fun e => by cases e; exact w.1 hw, fun i' st' r e => by cases e⟩

theorem taskOk_instr {st : St} {i : ArmInstr} (hat : IAt st i) (hp : i.placed = true) (g : Bool) :
    TaskOk st.seg.pending (.instr i g) := by
  refine ⟨hp, ?_⟩
  simpa [IAt, At, hp] using hat

theorem iat_of_taskOk {st : St} {i : ArmInstr} {g : Bool} (h : TaskOk st.seg.pending (.instr i g)) : IAt st i := by
  obtain ⟨hp, hm⟩ := h
  simpa [IAt, At, hp] using hm

theorem ArmInstr.same_trans {a b c : ArmInstr} (h1 : a.same b) (h2 : b.same c) : a.same c :=
  ⟨h2.1.trans h1.1, h2.2.1.trans h1.2.1, fun p => h2.2.2 (h1.2.2 p)⟩

theorem instruction_safe {enc : Encoder} (henc : EncLen enc) {env : Env} {st : St} (h : Good true st)
    (hb : env.paths.isEmpty = false) (hact : st.seg.active.isSome = true) (line col : Nat) (name : Bytes) (args : List Arg) :
    Safe true st (instruction enc env st line col name args) := by
  unfold instruction
  obtain ⟨seg, hseg⟩ := Option.isSome_iff_exists.mp hact
  have hca : currAddr st = some seg.cur := by simp [currAddr, hseg]
  rw [hca]
  simp only
  split
  · exact safe_push h ..
  · rename_i t _
    have hat : IAt st ⟨env.curName, line, col, ⟨seg.cur, t, 0, args⟩, false⟩ := by
      simpa [IAt, At] using ⟨seg, hseg, rfl⟩
    have ap := assembleI_safe h (by simpa using hb) ⟨env.curName, line, col, ⟨seg.cur, t, 0, args⟩, false⟩ true hat
    split
    · rename_i i1 st1 hap
      obtain ⟨g, e, ia, _⟩ := ap.2 _ _ _ hap
      have wi := writeInstr_safe henc g i1 false ia
      split
      · rename_i i2 st2 r hwi
        obtain ⟨g2, e2, _, _, _⟩ := wi.2 _ _ _ hwi
        exact ⟨by simp, fun st' x eq => by cases eq; exact ⟨g2, e.trans e2⟩⟩
      · rename_i r hwi
        exact ⟨fun e => by cases e; exact wi.1 hwi, fun st' x eq => by cases eq⟩
    · rename_i i1 st1 op _ hap
      obtain ⟨g, e, ia, _⟩ := ap.2 _ _ _ hap
      have wi := writeInstr_safe henc g i1 true ia
      split
      · rename_i i2 st2 hwi
        obtain ⟨g2, e2, ia2, _, hp2⟩ := wi.2 _ _ _ hwi
        have at_ := addTask_safe g2 (.instr i2 false) .loc (taskOk_instr ia2 (hp2 rfl) false) (fun _ => rfl)
          (fun e => by cases e)
        unfold ArmInstr.schedule
        simp only [Bool.false_eq_true, if_false]
        split
        · rename_i st3 hat3
          obtain ⟨g3, e3⟩ := at_.2 _ hat3
          exact ⟨by simp, fun st' x eq => by cases eq; exact ⟨g3, (e.trans e2).trans e3⟩⟩
        · rename_i r hat3
          exact ⟨fun e => by cases e; exact at_.1 hat3, fun st' x eq => by cases eq⟩
      · rename_i i2 st2 l hwi
        obtain ⟨g2, e2, _, _, _⟩ := wi.2 _ _ _ hwi
        exact ⟨by simp, fun st' x eq => by cases eq; exact ⟨g2, e.trans e2⟩⟩
      · rename_i r hwi
        exact ⟨fun e => by cases e; exact wi.1 hwi, fun st' x eq => by cases eq⟩
    · rename_i r hap
      exact ⟨fun e => by cases e; exact ap.1 hap, fun st' x eq => by cases eq⟩

theorem runInstrTask_safe {enc : Encoder} (henc : EncLen enc) {b : Bool} {env : Env} {st : St} (h : Good b st)
    (hb : env.paths.isEmpty = !b) (i : ArmInstr) (g : Bool) (ht : TaskOk st.seg.pending (.instr i g)) :
    Safe b st (runInstrTask enc i g env st) := by
  have ap := assembleI_safe h hb i false (iat_of_taskOk ht)
  unfold runInstrTask
  split
  · rename_i i1 st1 hap
    obtain ⟨g1, e1, ia, _⟩ := ap.2 _ _ _ hap
    have wi := writeInstr_safe henc g1 i1 false ia
    split
    · rename_i i2 st2 r hwi
      obtain ⟨g2, e2, _, _, _⟩ := wi.2 _ _ _ hwi
      exact ⟨by simp, fun st' x eq => by cases eq; exact ⟨g2, e1.trans e2⟩⟩
    · rename_i r hwi
      exact ⟨fun e => by cases e; exact wi.1 hwi, fun st' x eq => by cases eq⟩
  · rename_i i1 st1 cause hap
    obtain ⟨g1, e1, ia, sa⟩ := ap.2 _ _ _ hap
    split
    · exact ⟨by simp, fun st' x eq => by cases eq; exact ⟨good_pushIn g1 .., e1.trans (ext_pushIn ..)⟩⟩
    · have at_ := addTask_safe g1 (.instr i1 true) .global (taskOk_instr ia (sa.2.2 ht.1) true) (fun e => by cases e)
        (fun _ => rfl)
      unfold ArmInstr.schedule
      simp only [if_true]
      split
      · rename_i st2 hat2
        obtain ⟨g2, e2⟩ := at_.2 _ hat2
        exact ⟨by simp, fun st' x eq => by cases eq; exact ⟨g2, e1.trans e2⟩⟩
      · rename_i r hat2
        exact ⟨fun e => by cases e; exact at_.1 hat2, fun st' x eq => by cases eq⟩
  · rename_i i1 st1 l hap
    obtain ⟨g1, e1, _, _⟩ := ap.2 _ _ _ hap
    exact ⟨by simp, fun st' x eq => by cases eq; exact ⟨g1, e1⟩⟩
  · rename_i r hap
    exact ⟨fun e => by cases e; exact ap.1 hap, fun st' x eq => by cases eq⟩

end Trion.Asm
