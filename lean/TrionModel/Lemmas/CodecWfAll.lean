import TrionModel.Lemmas.CodecWf0
import TrionModel.Lemmas.CodecWf1
import TrionModel.Lemmas.CodecWf2
import TrionModel.Lemmas.CodecWf3
import TrionModel.Lemmas.CodecWf4
import TrionModel.Lemmas.CodecWf5
import TrionModel.Lemmas.CodecWf6
import TrionModel.Lemmas.CodecWf7
import TrionModel.Props.C03
/-! every instruction `Codec.decode` returns is well-formed and re-encodable -/
namespace Trion.Codec
open Trion

theorem wfChk16_all (h : Nat) (ht : h / 2048 < 29) : wfChk16 h = true := by
  have key : ∀ k a b, (32 * k + a) * 256 + b = h → wfChk16 ((32 * k + a) * 256 + b) = true → wfChk16 h = true := by
    intro k a b e c; rw [e] at c; exact c
  rcases (by omega : h / 8192 = 0 ∨ h / 8192 = 1 ∨ h / 8192 = 2 ∨ h / 8192 = 3 ∨ h / 8192 = 4 ∨ h / 8192 = 5 ∨
      h / 8192 = 6 ∨ h / 8192 = 7) with e | e | e | e | e | e | e | e
  · exact key 0 (h / 256 % 32) (h % 256) (by omega) (wfBlock0 ⟨h / 256 % 32, by omega⟩ ⟨h % 256, by omega⟩)
  · exact key 1 (h / 256 % 32) (h % 256) (by omega) (wfBlock1 ⟨h / 256 % 32, by omega⟩ ⟨h % 256, by omega⟩)
  · exact key 2 (h / 256 % 32) (h % 256) (by omega) (wfBlock2 ⟨h / 256 % 32, by omega⟩ ⟨h % 256, by omega⟩)
  · exact key 3 (h / 256 % 32) (h % 256) (by omega) (wfBlock3 ⟨h / 256 % 32, by omega⟩ ⟨h % 256, by omega⟩)
  · exact key 4 (h / 256 % 32) (h % 256) (by omega) (wfBlock4 ⟨h / 256 % 32, by omega⟩ ⟨h % 256, by omega⟩)
  · exact key 5 (h / 256 % 32) (h % 256) (by omega) (wfBlock5 ⟨h / 256 % 32, by omega⟩ ⟨h % 256, by omega⟩)
  · exact key 6 (h / 256 % 32) (h % 256) (by omega) (wfBlock6 ⟨h / 256 % 32, by omega⟩ ⟨h % 256, by omega⟩)
  · exact key 7 (h / 256 % 32) (h % 256) (by omega) (wfBlock7 ⟨h / 256 % 32, by omega⟩ ⟨h % 256, by omega⟩)

theorem decode16_wf (h : Nat) (ht : h / 2048 < 29) (n : Nat) (i : Instr) (hd : decode16 h = .ok (n, i)) : i.wf := by
  have c := wfChk16_all h ht
  unfold wfChk16 at c
  rw [hd] at c
  simpa using c

/-- every decoded instruction has its fields inside their Rust types and is accepted by the encoder -/
theorem decode_wf (bs : List Nat) (hb : IsBytes bs) (n : Nat) (i : Instr) (h : decode bs = .ok (n, i)) :
    i.wf ∧ ∃ hws, encode i = .ok hws := by
  refine ⟨?_, ?_⟩
  · rcases decode_cases bs hb with ⟨_, e⟩ | ⟨b0, b1, rest, rfl, _, _, t, e⟩ | ⟨_, _, _, _, _, _, _, _, e⟩ |
        ⟨b0, b1, b2, b3, rest, rfl, _, _, _, _, t, e⟩
    · rw [e] at h; cases h
    · rw [e] at h; exact decode16_wf _ t n i h
    · rw [e] at h; cases h
    · rw [e] at h; have o := decode32_out (b0 + 256 * b1) (b2 + 256 * b3)
      rw [h] at o
      cases o with
      | ok i he wf => exact wf
  · obtain ⟨hws, he, _, _⟩ := dec_canon bs hb n i h
    exact ⟨hws, he⟩

end Trion.Codec
