import TrionModel.Lemmas.AsmRetry
import TrionModel.Lemmas.SimpStableAll
import TrionModel.Lemmas.AsmHist
import TrionModel.Lemmas.AsmEnc
import TrionModel.Spec.Layout
/-!
# The abstraction of a parsed single file to a program of the layout core (C05), and the simulation relation

`abstract num fs enc path T c els`: the statements of a file as `Layout.Stmt`s, given the FINAL symbol table `T` of
the file and the reference cursor `c` in front of them (an instruction's bytes depend on its address):
`.addr a` / `.align n` with the value of their operand, `label`, `const` with its value and the names its expression
needs, `raw bytes` for `.dstr/.dhex/.dfile` and for instructions / `.du*` whose operands need no name,
`emit len deps final` otherwise — `len` the length fixed by the mnemonic / directive, `deps` the (numbered)
non-register identifiers of the evaluated operands, `final` the bytes of the statement evaluated in the FINAL table.
-/
namespace Trion.Asm
open Trion

/-! ## identifiers an evaluation needs -/

mutual
/-- the non-register identifiers of a tree, in evaluation order -/
def idents : Arg → List Bytes
  | .const _ => []
  | .ident s => if Front.isRegister s then [] else [s]
  | .str _ => []
  | .bin _ l r => idents l ++ idents r
  | .neg a => idents a
  | .not a => idents a
  | .addr a => idents a
  | .seq as => identsArgs as
  | .func _ as => identsArgs as
def identsArgs : Args → List Bytes
  | .nil => []
  | .cons a as => idents a ++ identsArgs as
end

/-- an evaluation that returns `Ok` has looked up every identifier successfully; one that stops with
`NoSuchVariable n` has met the identifier `n`, which the table does not hold -/
theorem evaluateE_idents_both (lk : Bytes → Simp.Lookup) :
    (∀ a, (∀ ev a', Simp.evaluateE lk Front.isRegister a = .ok ev a' → ∀ s ∈ idents a, lk s ≠ .notFound) ∧
      (∀ n a₁, Simp.evaluateE lk Front.isRegister a = .nosuch n a₁ → n ∈ idents a ∧ lk n = .notFound)) ∧
    (∀ as, (∀ ev as', Simp.evaluateArgsE lk Front.isRegister as = .ok ev as' → ∀ s ∈ identsArgs as, lk s ≠ .notFound) ∧
      (∀ n as₁, Simp.evaluateArgsE lk Front.isRegister as = .nosuch n as₁ → n ∈ identsArgs as ∧ lk n = .notFound)) := by
  apply Arg.ind2
  case const =>
    intro v
    exact ⟨fun ev a' _ s hs => by simp [idents] at hs, fun n a₁ h => by simp [Simp.evaluateE] at h⟩
  case ident =>
    intro s
    refine ⟨fun ev a' h x hx => ?_, fun n a₁ h => ?_⟩
    · simp only [idents] at hx
      simp only [Simp.evaluateE] at h
      split at hx
      · simp at hx
      · rename_i hr
        simp only [List.mem_singleton] at hx
        subst hx
        simp only [hr, Bool.false_eq_true, if_false] at h
        intro hl
        rw [hl] at h
        cases h
    · simp only [Simp.evaluateE] at h
      split at h
      · cases h
      · rename_i hr
        cases hl : lk s with
        | notFound => rw [hl] at h; cases h; exact ⟨by simp [idents, hr], hl⟩
        | deferred => rw [hl] at h; cases h
        | found v => rw [hl] at h; cases h
  case str =>
    intro v
    exact ⟨fun ev a' _ s hs => by simp [idents] at hs, fun n a₁ h => by simp [Simp.evaluateE] at h⟩
  case bin =>
    intro op l r ihl ihr
    refine ⟨fun ev a' h x hx => ?_, fun n a₁ h => ?_⟩
    · simp only [Simp.evaluateE] at h
      simp only [idents, List.mem_append] at hx
      cases h1 : Simp.evaluateE lk Front.isRegister l with
      | ok e1 l' =>
        rw [h1] at h
        cases h2 : Simp.evaluateE lk Front.isRegister r with
        | ok e2 r' =>
          rcases hx with hx | hx
          · exact ihl.1 _ _ h1 x hx
          · exact ihr.1 _ _ h2 x hx
        | nosuch m r' => rw [h2] at h; cases h
        | err e t => rw [h2] at h; cases h
        | panic => rw [h2] at h; cases h
      | nosuch m l' => rw [h1] at h; cases h
      | err e t => rw [h1] at h; cases h
      | panic => rw [h1] at h; cases h
    · simp only [Simp.evaluateE] at h
      simp only [idents, List.mem_append]
      cases h1 : Simp.evaluateE lk Front.isRegister l with
      | ok e1 l' =>
        rw [h1] at h
        cases h2 : Simp.evaluateE lk Front.isRegister r with
        | ok e2 r' => rw [h2] at h; simp only [Simp.afterRawE] at h; split at h <;> cases h
        | nosuch m r' => rw [h2] at h; cases h; exact ⟨.inr (ihr.2 _ _ h2).1, (ihr.2 _ _ h2).2⟩
        | err e t => rw [h2] at h; cases h
        | panic => rw [h2] at h; cases h
      | nosuch m l' => rw [h1] at h; cases h; exact ⟨.inl (ihl.2 _ _ h1).1, (ihl.2 _ _ h1).2⟩
      | err e t => rw [h1] at h; cases h
      | panic => rw [h1] at h; cases h
  case neg =>
    intro v ih
    refine ⟨fun ev a' h x hx => ?_, fun n a₁ h => ?_⟩
    · simp only [Simp.evaluateE] at h
      simp only [idents] at hx
      cases h1 : Simp.evaluateE lk Front.isRegister v with
      | ok e1 l' => exact ih.1 _ _ h1 x hx
      | nosuch m l' => rw [h1] at h; cases h
      | err e t => rw [h1] at h; cases h
      | panic => rw [h1] at h; cases h
    · simp only [Simp.evaluateE] at h
      simp only [idents]
      cases h1 : Simp.evaluateE lk Front.isRegister v with
      | ok e1 l' => rw [h1] at h; simp only [Simp.afterRawE] at h; split at h <;> cases h
      | nosuch m l' => rw [h1] at h; cases h; exact ih.2 _ _ h1
      | err e t => rw [h1] at h; cases h
      | panic => rw [h1] at h; cases h
  case not =>
    intro v ih
    refine ⟨fun ev a' h x hx => ?_, fun n a₁ h => ?_⟩
    · simp only [Simp.evaluateE] at h
      simp only [idents] at hx
      cases h1 : Simp.evaluateE lk Front.isRegister v with
      | ok e1 l' => exact ih.1 _ _ h1 x hx
      | nosuch m l' => rw [h1] at h; cases h
      | err e t => rw [h1] at h; cases h
      | panic => rw [h1] at h; cases h
    · simp only [Simp.evaluateE] at h
      simp only [idents]
      cases h1 : Simp.evaluateE lk Front.isRegister v with
      | ok e1 l' => rw [h1] at h; simp only [Simp.afterRawE] at h; split at h <;> cases h
      | nosuch m l' => rw [h1] at h; cases h; exact ih.2 _ _ h1
      | err e t => rw [h1] at h; cases h
      | panic => rw [h1] at h; cases h
  case addr =>
    intro v ih
    refine ⟨fun ev a' h x hx => ?_, fun n a₁ h => ?_⟩
    · simp only [Simp.evaluateE] at h
      simp only [idents] at hx
      cases h1 : Simp.evaluateE lk Front.isRegister v with
      | ok e1 l' => exact ih.1 _ _ h1 x hx
      | nosuch m l' => rw [h1] at h; cases h
      | err e t => rw [h1] at h; cases h
      | panic => rw [h1] at h; cases h
    · simp only [Simp.evaluateE] at h
      simp only [idents]
      cases h1 : Simp.evaluateE lk Front.isRegister v with
      | ok e1 l' => rw [h1] at h; simp only [Simp.afterRawE] at h; split at h <;> cases h
      | nosuch m l' => rw [h1] at h; cases h; exact ih.2 _ _ h1
      | err e t => rw [h1] at h; cases h
      | panic => rw [h1] at h; cases h
  case seq =>
    intro as ih
    refine ⟨fun ev a' h x hx => ?_, fun n a₁ h => ?_⟩
    · simp only [Simp.evaluateE] at h
      simp only [idents] at hx
      cases h1 : Simp.evaluateArgsE lk Front.isRegister as with
      | ok e1 l' => exact ih.1 _ _ h1 x hx
      | nosuch m l' => rw [h1] at h; cases h
      | err e t => rw [h1] at h; cases h
      | panic => rw [h1] at h; cases h
    · simp only [Simp.evaluateE] at h
      simp only [idents]
      cases h1 : Simp.evaluateArgsE lk Front.isRegister as with
      | ok e1 l' => rw [h1] at h; cases h
      | nosuch m l' => rw [h1] at h; cases h; exact ih.2 _ _ h1
      | err e t => rw [h1] at h; cases h
      | panic => rw [h1] at h; cases h
  case func =>
    intro f as ih
    refine ⟨fun ev a' h x hx => ?_, fun n a₁ h => ?_⟩
    · simp only [Simp.evaluateE] at h
      simp only [idents] at hx
      cases h1 : Simp.evaluateArgsE lk Front.isRegister as with
      | ok e1 l' => exact ih.1 _ _ h1 x hx
      | nosuch m l' => rw [h1] at h; cases h
      | err e t => rw [h1] at h; cases h
      | panic => rw [h1] at h; cases h
    · simp only [Simp.evaluateE] at h
      simp only [idents]
      cases h1 : Simp.evaluateArgsE lk Front.isRegister as with
      | ok e1 l' => rw [h1] at h; cases h
      | nosuch m l' => rw [h1] at h; cases h; exact ih.2 _ _ h1
      | err e t => rw [h1] at h; cases h
      | panic => rw [h1] at h; cases h
  case nil =>
    exact ⟨fun ev a' _ s hs => by simp [identsArgs] at hs, fun n a₁ h => by simp [Simp.evaluateArgsE] at h⟩
  case cons =>
    intro a as iha ihas
    refine ⟨fun ev a' h x hx => ?_, fun n a₁ h => ?_⟩
    · simp only [Simp.evaluateArgsE] at h
      simp only [identsArgs, List.mem_append] at hx
      cases h1 : Simp.evaluateE lk Front.isRegister a with
      | ok e1 l' =>
        rw [h1] at h
        cases h2 : Simp.evaluateArgsE lk Front.isRegister as with
        | ok e2 r' =>
          rcases hx with hx | hx
          · exact iha.1 _ _ h1 x hx
          · exact ihas.1 _ _ h2 x hx
        | nosuch m r' => rw [h2] at h; cases h
        | err e t => rw [h2] at h; cases h
        | panic => rw [h2] at h; cases h
      | nosuch m l' => rw [h1] at h; cases h
      | err e t => rw [h1] at h; cases h
      | panic => rw [h1] at h; cases h
    · simp only [Simp.evaluateArgsE] at h
      simp only [identsArgs, List.mem_append]
      cases h1 : Simp.evaluateE lk Front.isRegister a with
      | ok e1 l' =>
        rw [h1] at h
        cases h2 : Simp.evaluateArgsE lk Front.isRegister as with
        | ok e2 r' => rw [h2] at h; cases h
        | nosuch m r' => rw [h2] at h; cases h; exact ⟨.inr (ihas.2 _ _ h2).1, (ihas.2 _ _ h2).2⟩
        | err e t => rw [h2] at h; cases h
        | panic => rw [h2] at h; cases h
      | nosuch m l' => rw [h1] at h; cases h; exact ⟨.inl (iha.2 _ _ h1).1, (iha.2 _ _ h1).2⟩
      | err e t => rw [h1] at h; cases h
      | panic => rw [h1] at h; cases h

/-- the value a table gives a name -/
def Table.val (t : Table) (n : Bytes) : Option Int :=
  match t.find n with
  | some (some v) => some v
  | _ => none

theorem evalIn_complete_idents {t : Table} {a a' : Arg} (h : evalIn t a = .ok (.complete a')) :
    ∀ s ∈ idents a, t.find s ≠ none := by
  unfold evalIn at h
  cases he : Simp.evaluateE (fun n => t.get n) Front.isRegister a with
  | ok ev x =>
    intro s hs hf
    have := ((evaluateE_idents_both (fun n => t.get n)).1 a).1 _ _ he s hs
    apply this
    simp [Table.get, hf]
  | nosuch n x => rw [he] at h; cases h
  | err e x => rw [he] at h; cases h
  | panic => rw [he] at h; cases h

theorem evalIn_noSuch_idents {t : Table} {a a₁ : Arg} {n : Bytes} (h : evalIn t a = .ok (.noSuch n a₁)) :
    n ∈ idents a ∧ t.find n = none := by
  unfold evalIn at h
  cases he : Simp.evaluateE (fun n => t.get n) Front.isRegister a with
  | ok ev x => rw [he] at h; simp only at h; split at h <;> cases h
  | nosuch m x =>
    rw [he] at h; cases h
    obtain ⟨h1, h2⟩ := ((evaluateE_idents_both (fun n => t.get n)).1 a).2 _ _ he
    exact ⟨h1, get_notFound h2⟩
  | err e x => rw [he] at h; cases h
  | panic => rw [he] at h; cases h

/-! ## the abstraction -/

/-- the identifiers of the operands an instruction evaluates -/
def instrDeps : List Front.Kind → List Arg → List Bytes
  | k :: ks, a :: as => (if k.evals then idents a else []) ++ instrDeps ks as
  | _, _ => []

/-- the value of a directive operand over the table -/
def constVal (t : Table) (a : Arg) : Option Int :=
  match evalIn t a with
  | .ok (.complete (.const v)) => some v
  | _ => none

/-- the bytes of an instruction statement at `addr`, all names taken from `t` -/
def instrFinal (enc : Encoder) (t : Table) (addr : Nat) (tpl : Instr) (args : List Arg) : Bytes :=
  match Front.assemble ⟨addr, tpl, 0, args⟩ (frontEval t) true with
  | (fs2, .completed) =>
    match enc fs2.instr with
    | .ok b => b
    | .error _ => List.replicate (ilen tpl) 0xBE
  | _ => List.replicate (ilen tpl) 0xBE

/-- the bytes of a `.du*` statement, all names taken from `t` -/
def duFinal (t : Table) (du : DU) (a : Arg) : Bytes :=
  match constVal t a with
  | some v => if 0 ≤ v ∧ v ≤ du.max then leBytes du.size v.toNat else List.replicate du.size 0xBE
  | none => List.replicate du.size 0xBE

/-- a statement the pipeline rejects -/
def junk : Layout.Stmt := .raw []

def valueStmt (num : Bytes → Nat) (len : Nat) (deps : List Bytes) (final : Bytes) : Layout.Stmt :=
  if deps.isEmpty then .raw final else .emit len (deps.map num) final

def duOf (name : Bytes) : Option DU :=
  if name = bytesOf "du8" then some .u8 else if name = bytesOf "du16" then some .u16
  else if name = bytesOf "du32" then some .u32 else none

/-- one statement, with the reference cursor `c` in front of it -/
def absStmt (num : Bytes → Nat) (fs : Bytes → Option Bytes) (enc : Encoder) (path : Bytes) (t : Table) (c : Option Nat)
    (el : Element) : Layout.Stmt :=
  match el.val with
  | .label name => .label (num name)
  | .instruction name args =>
    match Front.mnemonic name with
    | none => junk
    | some tpl =>
      valueStmt num (ilen tpl) (instrDeps (Front.kinds tpl) args.toList) (instrFinal enc t (c.getD 0) tpl args.toList)
  | .directive name args =>
    if name = bytesOf "addr" then
      match args.toList with
      | [a] => match constVal t a with | some v => .addr v.toNat | none => junk
      | _ => junk
    else if name = bytesOf "align" then
      match args.toList with
      | [a] => match constVal t a with | some v => .align v.toNat | none => junk
      | _ => junk
    else if name = bytesOf "const" then
      match args.toList with
      | [.ident n, b] => match constVal t b with | some v => .const (num n) ((idents b).map num) v | none => junk
      | _ => junk
    else if name = bytesOf "dhex" then
      match args.toList with
      | [.str s] => match dhexLoop s 0 none [] with | .ok (bytes, none) => .raw bytes | _ => junk
      | _ => junk
    else if name = bytesOf "dstr" then
      match args.toList with
      | [.str s] => .raw s
      | _ => junk
    else if name = bytesOf "dfile" then
      match args.toList with
      | [.str s] => match fs (sibling path s) with | some bytes => .raw bytes | none => junk
      | _ => junk
    else
      match duOf name, args.toList with
      | some du, [a] => valueStmt num du.size (idents a) (duFinal t du a)
      | _, _ => junk

/-- the statements of a file from the reference cursor `c` on -/
def abstract (num : Bytes → Nat) (fs : Bytes → Option Bytes) (enc : Encoder) (path : Bytes) (t : Table) :
    Option Nat → List Element → List Layout.Stmt
  | _, [] => []
  | c, el :: els =>
    absStmt num fs enc path t c el ::
      abstract num fs enc path t (Layout.Ref.next c (absStmt num fs enc path t c el)) els

/-- a single-file element: none of `.include / .global / .import / .export` -/
def okEl (el : Element) : Bool :=
  match el.val with
  | .directive name _ =>
    !(name = bytesOf "include" || name = bytesOf "global" || name = bytesOf "import" || name = bytesOf "export")
  | _ => true

/-- every operand tree is `plain` (Lemmas/SimpRetry.lean) -/
def plainEl (el : Element) : Bool :=
  match el.val with
  | .directive _ args => args.toList.all plainArg
  | .instruction _ args => args.toList.all plainArg
  | .label _ => true

/-! ## the simulation relation -/

/-- the layout core's symbol table is the file's table, names numbered by `num` -/
def EnvRel (num : Bytes → Nat) (t : Table) (e : Layout.Env) : Prop := ∀ n, e.get (num n) = t.val n

/-- a queued task of `Asm` and the task of the layout core for the same statement -/
def TaskRel (num : Bytes → Nat) (enc : Encoder) (t₂ : Table) : Task → Layout.Task → Prop
  | .instr i g, lt =>
    g = false ∧ i.placed = true ∧ lt.addr = i.st.addr ∧ lt.len = ilen i.st.instr ∧
    ∃ tpl args t₁ c, Table.Sub t₁ t₂ ∧ Table.NoDef t₁ ∧
      Front.assemble ⟨i.st.addr, tpl, 0, args⟩ (frontEval t₁) true = (i.st, .deferred c) ∧
      lt.deps = (instrDeps (Front.kinds tpl) args).map num ∧ lt.final = instrFinal enc t₂ i.st.addr tpl args
  | .data d g, lt =>
    g = false ∧ d.placed = true ∧ lt.addr = d.addr ∧ lt.len = d.du.size ∧
    ∃ a t₁ n, Table.Sub t₁ t₂ ∧ Table.NoDef t₁ ∧ evalIn t₁ a = .ok (.noSuch n d.arg) ∧
      lt.deps = (idents a).map num ∧ lt.final = duFinal t₂ d.du a
  | .globalCopy .., _ => False

def TasksRel (num : Bytes → Nat) (enc : Encoder) (t₂ : Table) : List Task → List Layout.Task → Prop
  | [], [] => True
  | t :: ts, u :: us => TaskRel num enc t₂ t u ∧ TasksRel num enc t₂ ts us
  | _, _ => False

theorem TasksRel.snoc {num : Bytes → Nat} {enc : Encoder} {t₂ : Table} : ∀ {ts : List Task} {us : List Layout.Task}
    {t : Task} {u : Layout.Task}, TasksRel num enc t₂ ts us → TaskRel num enc t₂ t u →
    TasksRel num enc t₂ (ts ++ [t]) (us ++ [u])
  | [], [], _, _, _, h => ⟨h, trivial⟩
  | [], _ :: _, _, _, h, _ => h.elim
  | _ :: _, [], _, _, h, _ => h.elim
  | _ :: _, _ :: _, _, _, h, h' => ⟨h.1, TasksRel.snoc h.2 h'⟩

/-- the reference cursor of `Asm`: the address of the next byte (not saturated) -/
def cursor (st : St) : Option Nat := st.seg.active.map fun a => a.base + a.buf.length

/-- the state of `Asm` inside the (only) file and the state of the layout core -/
structure Sim (num : Bytes → Nat) (enc : Encoder) (t₂ : Table) (st : St) (l : Layout.State) : Prop where
  good : Good true st
  r : SegLayout.R st.seg l
  tbl : ∃ t, st.locals = some t ∧ Table.NoDef t ∧ Table.Sub t t₂ ∧ EnvRel num t l.env
  tasks : ∃ q, st.localTasks = some q ∧ TasksRel num enc t₂ q l.tasks
  gl : st.globalTasks = []

/-! ## genuineness of the reference bytes (what a successful run proves about `instrFinal` / `duFinal`) -/

/-- the fresh assembly of an instruction statement at `addr` over the table `t` completes and the encoder accepts the
result: `instrFinal` is then the encoding, not the 0xBE fallback -/
def InstrGen (enc : Encoder) (t : Table) (addr : Nat) (tpl : Instr) (args : List Arg) : Prop :=
  ∃ fs2 b, Front.assemble ⟨addr, tpl, 0, args⟩ (frontEval t) true = (fs2, .completed) ∧ enc fs2.instr = .ok b

theorem InstrGen.final {enc : Encoder} {t : Table} {addr : Nat} {tpl : Instr} {args : List Arg}
    (h : InstrGen enc t addr tpl args) :
    ∃ fs2 b, Front.assemble ⟨addr, tpl, 0, args⟩ (frontEval t) true = (fs2, .completed) ∧ enc fs2.instr = .ok b ∧
      instrFinal enc t addr tpl args = b := by
  obtain ⟨fs2, b, h1, h2⟩ := h
  exact ⟨fs2, b, h1, h2, by simp only [instrFinal, h1, h2]⟩

/-- the operand of a `.du*` statement evaluates over `t` to a constant in range: `duFinal` is then its little-endian
bytes, not the 0xBE fallback -/
def DuGen (t : Table) (du : DU) (a : Arg) : Prop := ∃ v, constVal t a = some v ∧ 0 ≤ v ∧ v ≤ du.max

theorem DuGen.final {t : Table} {du : DU} {a : Arg} (h : DuGen t du a) :
    ∃ v, constVal t a = some v ∧ 0 ≤ v ∧ v ≤ du.max ∧ duFinal t du a = leBytes du.size v.toNat := by
  obtain ⟨v, h1, h2, h3⟩ := h
  exact ⟨v, h1, h2, h3, by simp only [duFinal, h1, h2, h3, and_self, if_true]⟩

/-- what the run of a queued task proves, for EVERY statement the task can stem from -/
def GenTask (enc : Encoder) (t₂ : Table) : Task → Prop
  | .instr i _ => ∀ tpl args t₁ c, Table.Sub t₁ t₂ → Table.NoDef t₁ →
      Front.assemble ⟨i.st.addr, tpl, 0, args⟩ (frontEval t₁) true = (i.st, .deferred c) →
      InstrGen enc t₂ i.st.addr tpl args
  | .data d _ => ∀ a t₁ n, Table.Sub t₁ t₂ → Table.NoDef t₁ → evalIn t₁ a = .ok (.noSuch n d.arg) → DuGen t₂ d.du a
  | .globalCopy .. => True

/-- the fate of an instruction statement once it was met: genuine now, or queued with its first attempt on record -/
def InstrFate (enc : Encoder) (t₂ : Table) (st' : St) (addr : Nat) (tpl : Instr) (args : List Arg) : Prop :=
  InstrGen enc t₂ addr tpl args ∨
  ∃ q i t₁ c, st'.localTasks = some (q ++ [.instr i false]) ∧ i.st.addr = addr ∧ Table.Sub t₁ t₂ ∧ Table.NoDef t₁ ∧
    Front.assemble ⟨addr, tpl, 0, args⟩ (frontEval t₁) true = (i.st, .deferred c)

def DuFate (t₂ : Table) (st' : St) (du : DU) (a : Arg) : Prop :=
  DuGen t₂ du a ∨
  ∃ q d t₁ n, st'.localTasks = some (q ++ [.data d false]) ∧ d.du = du ∧ Table.Sub t₁ t₂ ∧ Table.NoDef t₁ ∧
    evalIn t₁ a = .ok (.noSuch n d.arg)

/-- a source statement whose abstraction (`absStmt`) is not a fallback: the directive operands evaluate over `t`, the
strings decode, the file exists; instructions satisfy `I`, `.du*` operands `D` -/
def ElGenW (I : Nat → Instr → List Arg → Prop) (D : DU → Arg → Prop) (fs : Bytes → Option Bytes) (path : Bytes) (t : Table)
    (c : Option Nat) (el : Element) : Prop :=
  match el.val with
  | .label _ => True
  | .instruction name args => ∃ tpl x, Front.mnemonic name = some tpl ∧ c = some x ∧ I x tpl args.toList
  | .directive name args =>
    if name = bytesOf "addr" then ∃ a v, args.toList = [a] ∧ constVal t a = some v ∧ v.toNat < 4294967296
    else if name = bytesOf "align" then
      ∃ a v, args.toList = [a] ∧ constVal t a = some v ∧ 0 < v.toNat ∧ v.toNat < 4294967296
    else if name = bytesOf "const" then ∃ n b v, args.toList = [.ident n, b] ∧ constVal t b = some v
    else if name = bytesOf "dhex" then ∃ s d, args.toList = [.str s] ∧ dhexLoop s 0 none [] = .ok (d, none)
    else if name = bytesOf "dstr" then ∃ s, args.toList = [.str s]
    else if name = bytesOf "dfile" then ∃ s d, args.toList = [.str s] ∧ fs (sibling path s) = some d
    else ∃ du a, duOf name = some du ∧ args.toList = [a] ∧ D du a

/-- **genuine**: every byte the reference attributes to the statement is what the statement denotes over `t` -/
def ElGen (fs : Bytes → Option Bytes) (enc : Encoder) (path : Bytes) (t : Table) (c : Option Nat) (el : Element) : Prop :=
  ElGenW (InstrGen enc t) (DuGen t) fs path t c el

/-- genuine now or queued -/
def ElFate (fs : Bytes → Option Bytes) (enc : Encoder) (path : Bytes) (t₂ : Table) (c : Option Nat) (st' : St)
    (el : Element) : Prop :=
  ElGenW (InstrFate enc t₂ st') (DuFate t₂ st') fs path t₂ c el

theorem ElGenW.mono {I I' : Nat → Instr → List Arg → Prop} {D D' : DU → Arg → Prop} {fs : Bytes → Option Bytes} {path : Bytes}
    {t : Table} {c : Option Nat} {el : Element} (hI : ∀ x tpl args, I x tpl args → I' x tpl args)
    (hD : ∀ du a, D du a → D' du a) (h : ElGenW I D fs path t c el) : ElGenW I' D' fs path t c el := by
  unfold ElGenW at h ⊢
  split
  · trivial
  · rename_i name args hv
    rw [hv] at h
    obtain ⟨tpl, x, h1, h2, h3⟩ := h
    exact ⟨tpl, x, h1, h2, hI _ _ _ h3⟩
  · rename_i name args hv
    rw [hv] at h
    simp only at h ⊢
    by_cases h0 : name = bytesOf "addr"
    · rw [if_pos h0] at h ⊢; exact h
    rw [if_neg h0] at h ⊢
    by_cases h1 : name = bytesOf "align"
    · rw [if_pos h1] at h ⊢; exact h
    rw [if_neg h1] at h ⊢
    by_cases h2 : name = bytesOf "const"
    · rw [if_pos h2] at h ⊢; exact h
    rw [if_neg h2] at h ⊢
    by_cases h3 : name = bytesOf "dhex"
    · rw [if_pos h3] at h ⊢; exact h
    rw [if_neg h3] at h ⊢
    by_cases h4 : name = bytesOf "dstr"
    · rw [if_pos h4] at h ⊢; exact h
    rw [if_neg h4] at h ⊢
    by_cases h5 : name = bytesOf "dfile"
    · rw [if_pos h5] at h ⊢; exact h
    rw [if_neg h5] at h ⊢
    obtain ⟨du, a, g1, g2, g3⟩ := h
    exact ⟨du, a, g1, g2, hD _ _ g3⟩

end Trion.Asm
