import TrionModel.Model.Lex
import TrionModel.Model.Parse
/-!
# Lines and columns are at least 1: every token, every tokenizer error, the end position, every parser error
and every element (a weak invariant of `Lex`/`Parse`, independent of the exact-position theorems of C12)
-/
namespace Trion.Lex
open Trion

def P1 (l c : Nat) : Prop := 1 ≤ l ∧ 1 ≤ c

def State.p1 (s : State) : Prop := P1 s.line s.col

theorem updatePos_p1 {l c : Nat} {d : Bytes} {l' c' : Nat} (h : updatePos l c d = some (l', c')) (hp : P1 l c) :
    P1 l' c' := by
  unfold updatePos at h
  simp only at h
  split at h
  · cases h
  · cases h
    unfold P1 at hp ⊢
    constructor
    · split <;> omega
    · split <;> omega

/-- what a step guarantees about lines and columns -/
def StepP1 : Step → Prop
  | .tok t s => P1 t.line t.col ∧ s.p1
  | .err e s => P1 e.line e.col ∧ s.p1
  | .done s => s.p1
  | .panic => True
  | .fuel => True

theorem fail_p1 (s : State) (k : LexErrKind) (h : s.p1) : StepP1 (fail s k) := ⟨h, h⟩

theorem failEof_p1 (s : State) (k : LexErrKind) (h : s.p1) : StepP1 (failEof s k) := by
  unfold failEof
  split
  · split
    · trivial
    · rename_i hu
      have := updatePos_p1 hu h
      exact ⟨this, this⟩
  · exact fail_p1 s k h

theorem failRun_p1 (s : State) (h : s.p1) : StepP1 (failRun s) := by
  unfold failRun
  have : P1 s.line (s.col + s.data.length) := ⟨h.1, by have := h.2; omega⟩
  exact ⟨this, this⟩

theorem emit_p1 (s : State) (n : Nat) (a : Bool) (t : Tok) (h : s.p1) : StepP1 (emit s n a t) := by
  unfold emit
  simp only
  split
  · trivial
  · rename_i l c hp
    split
    · trivial
    · refine ⟨h, ?_⟩
      show P1 l c
      split at hp
      · cases hp; exact ⟨h.1, by have := h.2; omega⟩
      · split at hp
        · cases hp
        · exact updatePos_p1 hp h

theorem lexNumberTail_p1 (s : State) (off radix len : Nat) (h : s.p1) : StepP1 (lexNumberTail s off radix len) := by
  unfold lexNumberTail
  split
  · trivial
  · split
    · exact emit_p1 _ _ _ _ h
    · exact fail_p1 _ _ h

theorem lexNumber_p1 (s : State) (h : s.p1) : StepP1 (lexNumber s) := by
  unfold lexNumber
  simp only
  repeat' split
  all_goals (first | trivial | exact failRun_p1 s h | exact lexNumberTail_p1 _ _ _ _ h)

theorem lexChar_p1 (s : State) (h : s.p1) : StepP1 (lexChar s) := by
  unfold lexChar
  split
  · trivial
  · split
    · exact emit_p1 _ _ _ _ h
    · split
      · split
        · trivial
        · rename_i hu
          have := updatePos_p1 hu h
          exact ⟨this, this⟩
      · exact fail_p1 _ _ h

theorem lexIdent_p1 (s : State) (h : s.p1) : StepP1 (lexIdent s) := by
  unfold lexIdent
  split
  · split
    · exact failRun_p1 s h
    · split
      · trivial
      · exact emit_p1 _ _ _ _ h
  · split
    · trivial
    · exact emit_p1 _ _ _ _ h

theorem lexString_p1 (s : State) (h : s.p1) : StepP1 (lexString s) := by
  unfold lexString
  split
  · trivial
  · trivial
  · exact fail_p1 _ _ h
  · exact failEof_p1 _ _ h
  · split
    · exact emit_p1 _ _ _ _ h
    · split
      · trivial
      · split
        · trivial
        · exact emit_p1 _ _ _ _ h

theorem doNext_p1 (s : State) (h : s.p1) : StepP1 (doNext s) := by
  unfold doNext
  split
  · trivial
  · simp only
    split
    · exact emit_p1 _ _ _ _ h
    · split
      · exact emit_p1 _ _ _ _ h
      · split
        · exact emit_p1 _ _ _ _ h
        · split
          · exact lexNumber_p1 s h
          · split
            · exact lexChar_p1 s h
            · split
              · exact lexIdent_p1 s h
              · split
                · exact lexString_p1 s h
                · split
                  · trivial
                  · exact fail_p1 _ _ h

def SkipP1 : SkipRes → Prop
  | .go s => s.p1
  | .err e s => P1 e.line e.col ∧ s.p1
  | .panic => True
  | .fuel => True

theorem skipSpaces_p1 {s : State} (h : s.p1) : ∀ s', skipSpaces s = some s' → s'.p1 := by
  unfold skipSpaces
  simp only
  repeat' split
  all_goals (intro s' hs)
  all_goals (first | (cases hs; done) | (cases hs; exact h) | (cases hs; exact updatePos_p1 ‹updatePos _ _ _ = _› h))

theorem skipLoop_p1 : ∀ (f : Nat) (s : State), s.p1 → SkipP1 (skipLoop f s) := by
  intro f
  induction f with
  | zero => intro s _; trivial
  | succ f ih =>
    intro s h
    unfold skipLoop
    split
    · exact h
    · split
      · trivial
      · rename_i s1 hs
        have h1 := skipSpaces_p1 h _ hs
        split
        · split
          · split
            · trivial
            · rename_i hu
              have := updatePos_p1 hu h1
              split
              · exact ⟨this, this⟩
              · exact this
          · split
            · trivial
            · exact ih _ ⟨by have := h1.1; show 1 ≤ s1.line + 1; omega, Nat.le_refl 1⟩
        · split
          · split
            · split
              · split
                · trivial
                · rename_i hu
                  exact ih _ (updatePos_p1 hu h1)
              · trivial
            · split
              · trivial
              · rename_i hu
                have := updatePos_p1 hu h1
                exact ⟨this, this⟩
          · exact h1

theorem nextToken_p1 (s : State) (h : s.p1) : StepP1 (nextToken s) := by
  unfold nextToken
  have hs := skipLoop_p1 (s.data.length + 1) s h
  split
  · trivial
  · trivial
  · rename_i e s1 hk; rw [hk] at hs; exact hs
  · rename_i s1 hk
    rw [hk] at hs
    split
    · have hd := doNext_p1 s1 hs
      split
      · rename_i e s2 hdn
        rw [hdn] at hd
        exact ⟨hd.1, hd.2⟩
      · exact hd
    · split
      · exact ⟨hs, hs⟩
      · exact hs

/-- all positions of a tokenizer run are at least 1 -/
def OutP1 (o : LexOut) : Prop :=
  (∀ t ∈ o.toks, P1 t.line t.col) ∧ (∀ e, o.err = some e → P1 e.line e.col) ∧ P1 o.endLine o.endCol

theorem run_p1 : ∀ (f : Nat) (s : State) (o : LexOut), s.p1 → run f s = .ok o → OutP1 o := by
  intro f
  induction f with
  | zero => intro s o _ h; simp [run] at h
  | succ f ih =>
    intro s o hs h
    unfold run at h
    have hn := nextToken_p1 s hs
    split at h
    · rename_i t s1 hk
      rw [hk] at hn
      cases hr : run f s1 with
      | ok o1 =>
        rw [hr] at h
        simp only [Out.push, Out.ok.injEq] at h
        subst h
        have h1 := ih s1 o1 hn.2 hr
        refine ⟨fun t' ht' => ?_, h1.2.1, h1.2.2⟩
        simp only [List.mem_cons] at ht'
        rcases ht' with rfl | ht'
        · exact hn.1
        · exact h1.1 t' ht'
      | panic => rw [hr] at h; simp [Out.push] at h
      | fuel => rw [hr] at h; simp [Out.push] at h
    · rename_i e s1 hk
      rw [hk] at hn
      cases h
      exact ⟨fun _ h => (by simp at h), fun e' he => (by cases he; exact hn.1), hn.2⟩
    · rename_i s1 hk
      rw [hk] at hn
      cases h
      exact ⟨fun _ h => (by simp at h), fun e' he => (by cases he), hn⟩
    · cases h
    · cases h

theorem tokens_p1 {bs : Bytes} {o : LexOut} (h : tokens bs = .ok o) : OutP1 o :=
  run_p1 _ _ _ ⟨Nat.le_refl 1, Nat.le_refl 1⟩ h

end Trion.Lex

namespace Trion.Parse
open Trion Trion.Lex

def TsOk (ts : List Token) : Prop := ∀ t ∈ ts, P1 t.line t.col

theorem TsOk.tail {t : Token} {ts : List Token} (h : TsOk (t :: ts)) : TsOk ts := fun x hx => h x (List.mem_cons_of_mem _ hx)
theorem TsOk.head {t : Token} {ts : List Token} (h : TsOk (t :: ts)) : P1 t.line t.col := h t List.mem_cons_self

/-- a result whose error (if any) has a position ≥ (1,1) and whose remaining tokens (if any) do -/
def ROk {α : Type} (Q : α → Prop) : Res α → Prop
  | .ok a => Q a
  | .err e => P1 e.line e.col
  | .panic => True
  | .fuel => True

theorem ROk.bind {α β : Type} {p1 : α → Prop} {p2 : β → Prop} {r : Res α} {f : α → Res β}
    (h : ROk p1 r) (hf : ∀ a, p1 a → ROk p2 (f a)) : ROk p2 (r.bind f) := by
  cases r with
  | ok a => exact hf a h
  | err e => exact h
  | panic => trivial
  | fuel => trivial

variable {lo : LexOut} (hlo : OutP1 lo)
include hlo

theorem endErr_p1 (e : String) : P1 (endErr lo e).line (endErr lo e).col := by
  unfold endErr
  split
  · rename_i x hx; exact hlo.2.1 x hx
  · exact hlo.2.2

theorem exprStart_p1 {ts : List Token} (h : TsOk ts) : P1 (exprStart lo ts).1 (exprStart lo ts).2 := by
  cases ts with
  | nil => exact hlo.2.2
  | cons t r => exact h.head

theorem close_p1 (e : String) (w : Tok) {ts : List Token} (h : TsOk ts) : ROk (fun r => TsOk r) (close lo e w ts) := by
  cases ts with
  | nil => exact endErr_p1 hlo e
  | cons t r =>
    simp only [close]
    split
    · exact h.tail
    · exact h.head

theorem nextInner_p1 (e : String) {ts : List Token} (h : TsOk ts) : ROk (fun r => TsOk r) (nextInner lo e ts) := by
  cases ts with
  | nil => exact endErr_p1 hlo e
  | cons t r => exact h.tail

/-- the five mutually recursive parsing functions at fuel `n` -/
def AllOk (lo : LexOut) (n : Nat) : Prop :=
  (∀ ts, TsOk ts → ROk (fun p : Arg × List Token => TsOk p.2) (unaryF lo n ts)) ∧
  (∀ g st ts, P1 st.1 st.2 → TsOk ts → ROk (fun p : Arg × List Token => TsOk p.2) (binaryF lo n g st ts)) ∧
  (∀ g st lhs ts, P1 st.1 st.2 → TsOk ts → ROk (fun p : Arg × List Token => TsOk p.2) (binLoopF lo n g st lhs ts)) ∧
  (∀ ts, TsOk ts → ROk (fun p : Args × List Token => TsOk p.2) (argsF lo n ts)) ∧
  (∀ ts, TsOk ts → ROk (fun p : Args × List Token => TsOk p.2) (argsLoopF lo n ts))

theorem allOk : ∀ n, AllOk lo n := by
  intro n
  induction n with
  | zero =>
    refine ⟨fun ts _ => ?_, fun g st ts _ _ => ?_, fun g st lhs ts _ _ => ?_, fun ts _ => ?_, fun ts _ => ?_⟩ <;>
      simp [unaryF, binaryF, binLoopF, argsF, argsLoopF, ROk]
  | succ n ih =>
    obtain ⟨iu, ib, il, ia, ial⟩ := ih
    have hop : ∀ g st ts, P1 st.1 st.2 → TsOk ts → ROk (fun p : Arg × List Token => TsOk p.2)
        (match BinOpGroup.higher g with | none => unaryF lo n ts | some h => binaryF lo n h st ts) := by
      intro g st ts hst hts
      split
      · exact iu ts hts
      · exact ib _ st ts hst hts
    refine ⟨fun ts hts => ?_, fun g st ts hst hts => ?_, fun g st lhs ts hst hts => ?_, fun ts hts => ?_, fun ts hts => ?_⟩
    · -- unaryF
      cases ts with
      | nil => simp only [unaryF]; exact endErr_p1 hlo _
      | cons t r =>
        simp only [unaryF]
        split
        · exact (iu r hts.tail).bind fun p hp => hp
        · exact (iu r hts.tail).bind fun p hp => hp
        · exact hts.tail
        · split
          · refine (ia _ hts.tail.tail).bind fun p hp => ?_
            exact (close_p1 hlo _ _ hp).bind fun r3 h3 => h3
          · exact hts.tail
        · exact hts.tail
        · refine (ib _ _ r (exprStart_p1 hlo hts.tail) hts.tail).bind fun p hp => ?_
          exact (close_p1 hlo _ _ hp).bind fun r3 h3 => h3
        · refine (ib _ _ r (exprStart_p1 hlo hts.tail) hts.tail).bind fun p hp => ?_
          exact (close_p1 hlo _ _ hp).bind fun r3 h3 => h3
        · refine (ia r hts.tail).bind fun p hp => ?_
          exact (close_p1 hlo _ _ hp).bind fun r3 h3 => h3
        · exact hts.head
    · -- binaryF
      simp only [binaryF]
      exact (hop g st ts hst hts).bind fun p hp => il g st p.1 p.2 hst hp
    · -- binLoopF
      cases ts with
      | nil =>
        simp only [binLoopF]
        split
        · exact hts
        · exact hst
      | cons t r =>
        simp only [binLoopF]
        split
        · exact hts
        · split
          · exact hts.head
          · split
            · exact hts
            · split
              · trivial
              · exact (hop g st r hst hts.tail).bind fun p hp => il g st _ p.2 hst hp
    · -- argsF
      cases ts with
      | nil =>
        simp only [argsF]
        split
        · exact hts
        · rename_i e he; exact hlo.2.1 e he
      | cons t r =>
        simp only [argsF]
        split
        · exact hts
        · exact ial _ hts
    · -- argsLoopF
      simp only [argsLoopF]
      refine (ib _ _ ts (exprStart_p1 hlo hts) hts).bind fun p hp => ?_
      split
      · split
        · exact hlo.2.2
        · rename_i e he; exact hlo.2.1 e he
      · rename_i t r1 hp2
        rw [hp2] at hp
        split
        · exact (ial r1 hp.tail).bind fun q hq => hq
        · split
          · rw [hp2]; exact hp
          · exact hp.head

theorem element_p1 (first : Token) (r : List Token) (hf : P1 first.line first.col) (hr : TsOk r) :
    ROk (fun p : Element × List Token => P1 p.1.line p.1.col ∧ TsOk p.2) (element lo first r) := by
  have ha : ∀ ts, TsOk ts → ROk (fun p : Args × List Token => TsOk p.2) (args lo ts) := fun ts h => (allOk hlo _).2.2.2.1 ts h
  unfold element
  split
  · split
    · exact endErr_p1 hlo _
    · split
      · exact (ha _ hr.tail).bind fun p hp => (nextInner_p1 hlo _ hp).bind fun r3 h3 => ⟨hf, h3⟩
      · exact hr.head
  · split
    · split
      · exact hf
      · exact hlo.2.2
    · split
      · exact ⟨hf, hr.tail⟩
      · exact (ha _ hr).bind fun p hp => (nextInner_p1 hlo _ hp).bind fun r3 h3 => ⟨hf, h3⟩
  · exact hf

theorem allLoop_p1 : ∀ (n : Nat) (ts : List Token) (els : List Element) (err : Option ParseErr), TsOk ts →
    allLoop lo n ts = .done els err → (∀ el ∈ els, P1 el.line el.col) ∧ (∀ e, err = some e → P1 e.line e.col) := by
  intro n
  induction n with
  | zero => intro ts els err _ h; simp [allLoop] at h
  | succ n ih =>
    intro ts els err hts h
    cases ts with
    | nil =>
      simp only [allLoop] at h
      split at h
      · rename_i e he
        cases h
        exact ⟨fun _ hx => (by simp at hx), fun e' he' => (by cases he'; exact hlo.2.1 e he)⟩
      · cases h
        exact ⟨fun _ hx => (by simp at hx), fun e' he' => (by cases he')⟩
    | cons t r =>
      simp only [allLoop] at h
      have he := element_p1 hlo t r hts.head hts.tail
      cases hel : element lo t r with
      | ok p =>
        obtain ⟨el, r'⟩ := p
        rw [hel] at he h
        simp only at h
        cases hl : allLoop lo n r' with
        | done els' e' =>
          rw [hl] at h
          cases h
          have h2 := ih r' els' _ he.2 hl
          refine ⟨fun x hx => ?_, h2.2⟩
          simp only [List.mem_cons] at hx
          rcases hx with rfl | hx
          · exact he.1
          · exact h2.1 x hx
        | panic => rw [hl] at h; cases h
        | fuel => rw [hl] at h; cases h
      | err e =>
        rw [hel] at he h
        cases h
        exact ⟨fun _ hx => (by simp at hx), fun e' he' => (by cases he'; exact he)⟩
      | panic => rw [hel] at h; cases h
      | fuel => rw [hel] at h; cases h

end Trion.Parse

namespace Trion.Parse
open Trion Trion.Lex

/-- every element and the final error of a parser run on what the tokenizer yields carry line, col ≥ 1 -/
theorem all_p1 {bs : Bytes} {lo : LexOut} (hl : Lex.tokens bs = .ok lo) {els : List Element} {err : Option ParseErr}
    (h : all lo = .done els err) : (∀ el ∈ els, P1 el.line el.col) ∧ (∀ e, err = some e → P1 e.line e.col) :=
  allLoop_p1 (tokens_p1 hl) _ _ _ _ (tokens_p1 hl).1 h

end Trion.Parse
