import TrionModel.Lemmas.SimpRetry
import TrionModel.Lemmas.SimpInv
/-!
# `evaluate` never loses a register (or any other non-arithmetic leaf)

`arith isReg a` (Lemmas/SimpRetry.lean): `a` is built from constants, non-register identifiers, binary operators,
`Negate` and `Not` only.  Every rewrite of `simplify_raw` / `neutralize` / the merge removes CONSTANTS only (constant
folding, neutral elements, the spliced-out constant of a merge, the constant modulus of `(x % y) % z`), swaps
operands (`-(l - r) ↦ r - l`) or strips a `Negate`; an identifier is replaced by its value.  Hence

* `simplifyRaw_arith`: if the result of `simplify_raw` is register-free arithmetic, so was its input;
* `evaluateE_arith`: if the tree `evaluate` leaves — on `Ok` and on `NoSuchVariable` — is register-free arithmetic,
  so was the operand.  In particular an operand whose evaluation ends in a CONSTANT is register-free arithmetic
  (`evaluateE_const_arith`), whichever table was used and however often it was interrupted before.

This is what makes the retry theorem unconditional for every operand position that needs a number.
-/
namespace Trion.Simp
open Trion

section
variable (isReg : Bytes → Bool)

theorem arith_of_cval {a : Arg} {c : Int} (h : cval a = some c) : arith isReg a = true := by
  rw [cval_some_eq h]; rfl

theorem arith_stripNeg (r : Arg) (s : Bool) (h : arith isReg (stripNeg s r).2.1 = true) : arith isReg r = true := by
  induction r using Arg.ind generalizing s with
  | neg n ih => simp only [stripNeg] at h; simp only [arith]; exact ih _ h
  | _ => simpa [stripNeg] using h

theorem arith_normAddSub {s : Bool} {r : Arg} {ch s' : Bool} {r' : Arg} (he : normAddSub s r = .ok (ch, s', r'))
    (h : arith isReg r' = true) : arith isReg r = true := by
  unfold normAddSub at he
  cases hc : cval (stripNeg s r).2.1 with
  | none =>
    simp only [hc, Res.ok.injEq, Prod.mk.injEq] at he
    obtain ⟨_, _, rfl⟩ := he
    exact arith_stripNeg isReg r s h
  | some v => exact arith_stripNeg isReg r s (arith_of_cval isReg hc)

theorem arith_neutralMain {op : BinOp} {l r : Arg} (h : arith isReg (neutralMain op l r) = true) :
    arith isReg l = true ∧ arith isReg r = true := by
  unfold neutralMain at h
  cases hcl : cval l with
  | some v =>
    have hl := arith_of_cval isReg hcl
    simp only [hcl] at h
    split at h
    · exact ⟨hl, h⟩
    · split at h
      · exact ⟨hl, by simpa [arith] using h⟩
      · simp only [arith, Bool.and_eq_true] at h; exact h
  | none =>
    simp only [hcl] at h
    cases hcr : cval r with
    | some v =>
      have hr := arith_of_cval isReg hcr
      simp only [hcr] at h
      split at h
      · exact ⟨h, hr⟩
      · simp only [arith, Bool.and_eq_true] at h; exact h
    | none =>
      simp only [hcr, arith, Bool.and_eq_true] at h; exact h

theorem arith_neutralTail {ch : Bool} {op : BinOp} {l r : Arg} {c : Bool} {a' : Arg}
    (he : neutralTail ch op l r = .ok (c, a')) (h : arith isReg a' = true) :
    arith isReg l = true ∧ arith isReg r = true := by
  unfold neutralTail at he
  split at he
  · cases he
  · split at he
    · cases he
    · simp only [Res.ok.injEq, Prod.mk.injEq] at he
      obtain ⟨_, rfl⟩ := he
      exact arith_neutralMain isReg h

theorem arith_neutralizeBin {op : BinOp} {l r : Arg} {c : Bool} {a' : Arg}
    (he : neutralizeBin op l r = .ok (c, a')) (h : arith isReg a' = true) :
    arith isReg l = true ∧ arith isReg r = true := by
  simp only [neutralizeBin] at he
  split at he
  · cases hn : normAddSub (decide (op = .sub)) r with
    | ok p =>
      obtain ⟨ch, s', r'⟩ := p
      simp only [hn] at he
      have := arith_neutralTail isReg he h
      exact ⟨this.1, arith_normAddSub isReg hn this.2⟩
    | err e => simp [hn] at he
    | panic => simp [hn] at he
  · exact arith_neutralTail isReg he h

theorem arith_neutralizeRaw {op : BinOp} {l r : Arg} {c : Bool} {a' : Arg}
    (he : neutralizeRaw (.bin op l r) = .ok (c, a')) (h : arith isReg a' = true) :
    arith isReg l = true ∧ arith isReg r = true := by
  rcases neutralizeRaw_bin_cases op l r with h0 | ⟨x, y, rfl, rfl, rfl, h0⟩
  · rw [h0] at he; exact arith_neutralizeBin isReg he h
  · rw [h0] at he
    obtain ⟨_, c', he'⟩ := swapped_ok he
    have := arith_neutralizeBin isReg he' h
    simp only [arith, Bool.and_eq_true]
    exact ⟨trivial, this.2, this.1⟩

theorem arith_neutralizeRaw_all : ∀ (a : Arg) (c : Bool) (a' : Arg), neutralizeRaw a = .ok (c, a') →
    arith isReg a' = true → arith isReg a = true := by
  apply Arg.negNegInd
  · intro a hnn c a' he h
    cases a with
    | bin op l r =>
      have := arith_neutralizeRaw isReg he h
      simp only [arith, Bool.and_eq_true]; exact this
    | neg v =>
      rcases neutralizeRaw_neg_cases v with h0 | ⟨x, y, rfl, h0⟩ | ⟨w, rfl, _⟩
      · rw [h0] at he
        simp only [Res.ok.injEq, Prod.mk.injEq] at he
        obtain ⟨_, rfl⟩ := he
        exact h
      · rw [h0] at he
        obtain ⟨_, c', he'⟩ := swapped_ok he
        have := arith_neutralizeBin isReg he' h
        simp only [arith, Bool.and_eq_true]
        exact ⟨this.2, this.1⟩
      · exact absurd rfl (hnn w)
    | _ =>
      simp only [neutralizeRaw, Res.ok.injEq, Prod.mk.injEq] at he
      obtain ⟨_, rfl⟩ := he; exact h
  · intro w ih c a' he h
    rw [neutralizeRaw_neg_neg] at he
    obtain ⟨_, c', he'⟩ := swapped_ok he
    simp only [arith]
    exact ih c' a' he' h

theorem arith_neutralizeRaw_neg {v : Arg} {c : Bool} {a' : Arg}
    (he : neutralizeRaw (.neg v) = .ok (c, a')) (h : arith isReg a' = true) : arith isReg v = true := by
  have := arith_neutralizeRaw_all isReg (.neg v) c a' he h
  simpa [arith] using this

theorem arith_neutralize : ∀ a (c : Bool) (a' : Arg), neutralize a = .ok (c, a') → arith isReg a' = true →
    arith isReg a = true := by
  apply Arg.ind
  case const => intro v c a' he h; simp only [neutralize, Res.ok.injEq, Prod.mk.injEq] at he; obtain ⟨_, rfl⟩ := he; exact h
  case ident => intro v c a' he h; simp only [neutralize, Res.ok.injEq, Prod.mk.injEq] at he; obtain ⟨_, rfl⟩ := he; exact h
  case str => intro v c a' he h; simp only [neutralize, Res.ok.injEq, Prod.mk.injEq] at he; obtain ⟨_, rfl⟩ := he; exact h
  case bin =>
    intro op l r ihl ihr c a' he h
    simp only [neutralize] at he
    cases h1 : neutralize l with
    | panic => simp [h1] at he
    | err e => simp [h1] at he
    | ok p =>
      obtain ⟨c1, l'⟩ := p
      cases h2 : neutralize r with
      | panic => simp [h1, h2] at he
      | err e => simp [h1, h2] at he
      | ok q =>
        obtain ⟨c2, r'⟩ := q
        simp only [h1, h2] at he
        cases h3 : neutralizeRaw (.bin op l' r') with
        | panic => simp [h3] at he
        | err e => simp [h3] at he
        | ok w =>
          obtain ⟨c3, a3⟩ := w
          simp only [h3, Res.ok.injEq, Prod.mk.injEq] at he
          obtain ⟨_, rfl⟩ := he
          have := arith_neutralizeRaw isReg h3 h
          simp only [arith, Bool.and_eq_true]
          exact ⟨ihl _ _ h1 this.1, ihr _ _ h2 this.2⟩
  case neg =>
    intro a ih c a' he h
    simp only [neutralize] at he
    cases h1 : neutralize a with
    | panic => simp [h1] at he
    | err e => simp [h1] at he
    | ok p =>
      obtain ⟨c1, v'⟩ := p
      simp only [h1] at he
      cases h3 : neutralizeRaw (.neg v') with
      | panic => simp [h3] at he
      | err e => simp [h3] at he
      | ok w =>
        obtain ⟨c3, a3⟩ := w
        simp only [h3, Res.ok.injEq, Prod.mk.injEq] at he
        obtain ⟨_, rfl⟩ := he
        simp only [arith]
        exact ih _ _ h1 (arith_neutralizeRaw_neg isReg h3 h)
  case not =>
    intro a ih c a' he h
    simp only [neutralize] at he
    cases h1 : neutralize a with
    | panic => simp [h1] at he
    | err e => simp [h1] at he
    | ok p =>
      obtain ⟨c1, v'⟩ := p
      simp only [h1, Res.ok.injEq, Prod.mk.injEq] at he
      obtain ⟨_, rfl⟩ := he
      simp only [arith] at h ⊢
      exact ih _ _ h1 h
  case addr =>
    intro a _ c a' he h
    simp only [neutralize] at he
    cases h1 : neutralize a with
    | panic => simp [h1] at he
    | err e => simp [h1] at he
    | ok p =>
      simp only [h1, Res.ok.injEq, Prod.mk.injEq] at he
      obtain ⟨_, rfl⟩ := he
      simp [arith] at h
  case seq =>
    intro as c a' he h
    simp only [neutralize] at he
    cases h1 : neutralizeArgs as with
    | panic => simp [h1] at he
    | err e => simp [h1] at he
    | ok p =>
      simp only [h1, Res.ok.injEq, Prod.mk.injEq] at he
      obtain ⟨_, rfl⟩ := he
      simp [arith] at h
  case func =>
    intro n as c a' he h
    simp only [neutralize] at he
    cases h1 : neutralizeArgs as with
    | panic => simp [h1] at he
    | err e => simp [h1] at he
    | ok p =>
      simp only [h1, Res.ok.injEq, Prod.mk.injEq] at he
      obtain ⟨_, rfl⟩ := he
      simp [arith] at h

/-! ### the merge -/

theorem arith_setC (ty : BinOp) (n : Int) : ∀ a, arith isReg (setC ty n a) = true → arith isReg a = true := by
  apply Arg.ind
  case bin =>
    intro op l r ihl ihr h
    simp only [setC] at h
    simp only [arith, Bool.and_eq_true]
    repeat' split at h
    all_goals try simp only [arith, Bool.and_eq_true, true_and, and_true] at h
    all_goals first
      | exact h
      | exact ⟨arith_of_cval isReg (by assumption), h⟩
      | exact ⟨h, arith_of_cval isReg (by assumption)⟩
      | exact ⟨ihl h.1, h.2⟩
      | exact ⟨h.1, ihr h.2⟩
  case neg =>
    intro a ih h
    simp only [setC] at h
    split at h
    · simp only [arith] at h ⊢; exact ih h
    · exact h
  all_goals (intros; simp_all [setC])

theorem arith_dropC (ty : BinOp) : ∀ a, arith isReg (dropC ty a) = true → arith isReg a = true := by
  apply Arg.ind
  case bin =>
    intro op l r ihl ihr h
    simp only [dropC] at h
    simp only [arith, Bool.and_eq_true]
    repeat' split at h
    all_goals try simp only [arith, Bool.and_eq_true, true_and, and_true] at h
    all_goals first
      | exact h
      | exact ⟨arith_of_cval isReg (by assumption), h⟩
      | exact ⟨h, arith_of_cval isReg (by assumption)⟩
      | exact ⟨ihl h.1, h.2⟩
      | exact ⟨h.1, ihr h.2⟩
  case neg =>
    intro a ih h
    simp only [dropC] at h
    split at h
    · simp only [arith] at h ⊢; exact ih h
    · exact h
  all_goals (intros; simp_all [dropC])

theorem arith_mergeTree {op : BinOp} {l r : Arg} {c : Int} (h : arith isReg (mergeTree op l r c) = true) :
    arith isReg l = true ∧ arith isReg r = true := by
  unfold mergeTree at h
  cases hl : cval l with
  | some v =>
    have hla := arith_of_cval isReg hl
    cases hr : cval r with
    | some w => exact ⟨hla, arith_of_cval isReg hr⟩
    | none =>
      simp only [hl, hr, arith, Bool.and_eq_true] at h
      exact ⟨hla, arith_dropC isReg op r h.2⟩
  | none =>
    cases hr : cval r with
    | some w =>
      simp only [hl, hr] at h
      exact ⟨arith_setC isReg op c l h, arith_of_cval isReg hr⟩
    | none =>
      simp only [hl, hr, arith, Bool.and_eq_true] at h
      exact ⟨arith_setC isReg op c l h.1, arith_dropC isReg op r h.2⟩

theorem arith_merge {op : BinOp} {l r : Arg} {c : Bool} {a' : Arg} (he : merge op l r = .ok (c, a'))
    (h : arith isReg a' = true) : arith isReg l = true ∧ arith isReg r = true := by
  unfold merge at he
  split at he
  · cases he
  · cases he
  · split at he
    · cases he
    · rename_i cc _
      cases hn : neutralize (mergeTree op l r cc) with
      | panic => simp [hn] at he
      | err e => simp [hn] at he
      | ok p =>
        obtain ⟨c1, x⟩ := p
        simp only [hn, Res.ok.injEq, Prod.mk.injEq] at he
        obtain ⟨_, rfl⟩ := he
        exact arith_mergeTree isReg (arith_neutralize isReg _ _ _ hn h)
  · exact arith_neutralizeRaw isReg he h

theorem modCollapse_cval {l r : Arg} (h : modCollapse l r = true) : ∃ z, cval r = some z := by
  unfold modCollapse at h
  cases hr : cval r with
  | some z => exact ⟨z, rfl⟩
  | none => simp [hr] at h

/-- `simplify_raw` only ever removes constants: a register-free result had a register-free input -/
theorem simplifyRaw_arith : ∀ (a : Arg) (c : Bool) (a' : Arg), simplifyRaw a = .ok (c, a') → arith isReg a' = true →
    arith isReg a = true := by
  intro a c a' he h
  cases a with
  | bin op l r =>
    simp only [arith, Bool.and_eq_true]
    simp only [simplifyRaw] at he
    split at he
    · cases he
    · split at he
      · cases he
      · split at he
        · rename_i x y hx hy
          exact ⟨arith_of_cval isReg hx, arith_of_cval isReg hy⟩
        · split at he
          · split at he
            · rename_i hm
              simp only [Res.ok.injEq, Prod.mk.injEq] at he
              obtain ⟨_, rfl⟩ := he
              obtain ⟨z, hz⟩ := modCollapse_cval hm
              exact ⟨h, arith_of_cval isReg hz⟩
            · exact arith_neutralizeRaw isReg he h
          · exact arith_neutralizeRaw isReg he h
          · exact arith_neutralizeRaw isReg he h
          · exact arith_merge isReg he h
  | neg v =>
    simp only [simplifyRaw] at he
    split at he
    · rename_i l r
      cases hn : neutralizeRaw (.bin .sub r l) with
      | ok p =>
        obtain ⟨c1, x⟩ := p
        simp only [hn, Res.ok.injEq, Prod.mk.injEq] at he
        obtain ⟨_, rfl⟩ := he
        have := arith_neutralizeRaw isReg hn h
        simp only [arith, Bool.and_eq_true]
        exact ⟨this.2, this.1⟩
      | err e => simp [hn] at he
      | panic => simp [hn] at he
    · rename_i w
      cases hn : neutralizeRaw (.neg (.neg w)) with
      | ok p =>
        obtain ⟨c1, x⟩ := p
        simp only [hn, Res.ok.injEq, Prod.mk.injEq] at he
        obtain ⟨_, rfl⟩ := he
        exact arith_neutralizeRaw_all isReg _ _ _ hn h
      | err e => simp [hn] at he
      | panic => simp [hn] at he
    · rfl
    · cases he
    · cases he
    · cases he
    · simp only [Res.ok.injEq, Prod.mk.injEq] at he
      obtain ⟨_, rfl⟩ := he
      exact h
  | not v =>
    simp only [simplifyRaw] at he
    split at he
    · rfl
    · cases he
    · cases he
    · cases he
    · simp only [Res.ok.injEq, Prod.mk.injEq] at he
      obtain ⟨_, rfl⟩ := he
      exact h
  | addr v =>
    simp only [simplifyRaw] at he
    split at he
    · cases he
    · simp only [Res.ok.injEq, Prod.mk.injEq] at he
      obtain ⟨_, rfl⟩ := he
      simp [arith] at h
  | const v => simp only [simplifyRaw, Res.ok.injEq, Prod.mk.injEq] at he; obtain ⟨_, rfl⟩ := he; exact h
  | ident v => simp only [simplifyRaw, Res.ok.injEq, Prod.mk.injEq] at he; obtain ⟨_, rfl⟩ := he; exact h
  | str v => simp only [simplifyRaw, Res.ok.injEq, Prod.mk.injEq] at he; obtain ⟨_, rfl⟩ := he; exact h
  | seq v => simp only [simplifyRaw, Res.ok.injEq, Prod.mk.injEq] at he; obtain ⟨_, rfl⟩ := he; exact h
  | func n v => simp only [simplifyRaw, Res.ok.injEq, Prod.mk.injEq] at he; obtain ⟨_, rfl⟩ := he; exact h

theorem afterRawE_arith {ev ev' : Ev} {x a' : Arg} (he : afterRawE ev x = .ok ev' a') (h : arith isReg a' = true) :
    arith isReg x = true := by
  unfold afterRawE at he
  cases hs : simplifyRawE x with
  | ok p =>
    obtain ⟨c, y⟩ := p
    rw [hs] at he
    simp only [EvE.ok.injEq] at he
    obtain ⟨_, rfl⟩ := he
    have hp := simplifyRawE_proj x
    rw [hs] at hp
    exact simplifyRaw_arith isReg x c y hp.symm h
  | err e t => rw [hs] at he; cases he
  | panic => rw [hs] at he; cases he

/-- **`evaluate` never loses a register**: if the tree it leaves (on `Ok` or on `NoSuchVariable`) is register-free
arithmetic, the operand was -/
theorem evaluateE_arith (lk : Bytes → Lookup) : ∀ a,
    (∀ ev a', evaluateE lk isReg a = .ok ev a' → arith isReg a' = true → arith isReg a = true) ∧
    (∀ n a₁, evaluateE lk isReg a = .nosuch n a₁ → arith isReg a₁ = true → arith isReg a = true) := by
  apply Arg.ind
  case const => intro v; exact ⟨fun _ _ _ _ => rfl, fun _ _ _ _ => rfl⟩
  case ident =>
    intro s
    by_cases hr : isReg s = true
    · refine ⟨fun ev a' he h => ?_, fun n a₁ he _ => ?_⟩
      · simp only [evaluateE, hr, if_true, EvE.ok.injEq] at he
        obtain ⟨_, rfl⟩ := he
        exact h
      · simp [evaluateE, hr] at he
    · refine ⟨fun _ _ _ _ => ?_, fun _ _ _ _ => ?_⟩ <;> simp [arith, hr]
  case str =>
    intro s
    refine ⟨fun ev a' he h => ?_, fun n a₁ he _ => ?_⟩
    · simp only [evaluateE, EvE.ok.injEq] at he; obtain ⟨_, rfl⟩ := he; exact h
    · simp [evaluateE] at he
  case bin =>
    intro op l r ihl ihr
    refine ⟨fun ev a' he h => ?_, fun n a₁ he h => ?_⟩
    · simp only [evaluateE] at he
      cases h1 : evaluateE lk isReg l with
      | ok e1 l' =>
        rw [h1] at he
        cases h2 : evaluateE lk isReg r with
        | ok e2 r' =>
          rw [h2] at he
          have := afterRawE_arith isReg he h
          simp only [arith, Bool.and_eq_true] at this ⊢
          exact ⟨ihl.1 _ _ h1 this.1, ihr.1 _ _ h2 this.2⟩
        | nosuch m r' => rw [h2] at he; cases he
        | err e t => rw [h2] at he; cases he
        | panic => rw [h2] at he; cases he
      | nosuch m l' => rw [h1] at he; cases he
      | err e t => rw [h1] at he; cases he
      | panic => rw [h1] at he; cases he
    · simp only [evaluateE] at he
      cases h1 : evaluateE lk isReg l with
      | ok e1 l' =>
        rw [h1] at he
        cases h2 : evaluateE lk isReg r with
        | ok e2 r' => rw [h2] at he; simp only [afterRawE] at he; split at he <;> cases he
        | nosuch m r₁ =>
          rw [h2] at he; cases he
          simp only [arith, Bool.and_eq_true] at h ⊢
          exact ⟨ihl.1 _ _ h1 h.1, ihr.2 _ _ h2 h.2⟩
        | err e t => rw [h2] at he; cases he
        | panic => rw [h2] at he; cases he
      | nosuch m l₁ =>
        rw [h1] at he; cases he
        simp only [arith, Bool.and_eq_true] at h ⊢
        exact ⟨ihl.2 _ _ h1 h.1, h.2⟩
      | err e t => rw [h1] at he; cases he
      | panic => rw [h1] at he; cases he
  case neg =>
    intro v ih
    refine ⟨fun ev a' he h => ?_, fun n a₁ he h => ?_⟩
    · simp only [evaluateE] at he
      cases h1 : evaluateE lk isReg v with
      | ok e1 v' =>
        rw [h1] at he
        have := afterRawE_arith isReg he h
        simp only [arith] at this ⊢
        exact ih.1 _ _ h1 this
      | nosuch m l' => rw [h1] at he; cases he
      | err e t => rw [h1] at he; cases he
      | panic => rw [h1] at he; cases he
    · simp only [evaluateE] at he
      cases h1 : evaluateE lk isReg v with
      | ok e1 v' => rw [h1] at he; simp only [afterRawE] at he; split at he <;> cases he
      | nosuch m v₁ => rw [h1] at he; cases he; simp only [arith] at h ⊢; exact ih.2 _ _ h1 h
      | err e t => rw [h1] at he; cases he
      | panic => rw [h1] at he; cases he
  case not =>
    intro v ih
    refine ⟨fun ev a' he h => ?_, fun n a₁ he h => ?_⟩
    · simp only [evaluateE] at he
      cases h1 : evaluateE lk isReg v with
      | ok e1 v' =>
        rw [h1] at he
        have := afterRawE_arith isReg he h
        simp only [arith] at this ⊢
        exact ih.1 _ _ h1 this
      | nosuch m l' => rw [h1] at he; cases he
      | err e t => rw [h1] at he; cases he
      | panic => rw [h1] at he; cases he
    · simp only [evaluateE] at he
      cases h1 : evaluateE lk isReg v with
      | ok e1 v' => rw [h1] at he; simp only [afterRawE] at he; split at he <;> cases he
      | nosuch m v₁ => rw [h1] at he; cases he; simp only [arith] at h ⊢; exact ih.2 _ _ h1 h
      | err e t => rw [h1] at he; cases he
      | panic => rw [h1] at he; cases he
  case addr =>
    intro v _
    refine ⟨fun ev a' he h => ?_, fun n a₁ he h => ?_⟩
    · simp only [evaluateE] at he
      cases h1 : evaluateE lk isReg v with
      | ok e1 v' =>
        rw [h1] at he
        have := afterRawE_arith isReg he h
        simp [arith] at this
      | nosuch m l' => rw [h1] at he; cases he
      | err e t => rw [h1] at he; cases he
      | panic => rw [h1] at he; cases he
    · simp only [evaluateE] at he
      cases h1 : evaluateE lk isReg v with
      | ok e1 v' => rw [h1] at he; simp only [afterRawE] at he; split at he <;> cases he
      | nosuch m v₁ => rw [h1] at he; cases he; simp [arith] at h
      | err e t => rw [h1] at he; cases he
      | panic => rw [h1] at he; cases he
  case seq =>
    intro as
    refine ⟨fun ev a' he h => ?_, fun n a₁ he h => ?_⟩
    · simp only [evaluateE] at he
      cases h1 : evaluateArgsE lk isReg as with
      | ok e1 v' => rw [h1] at he; cases he; simp [arith] at h
      | nosuch m l' => rw [h1] at he; cases he
      | err e t => rw [h1] at he; cases he
      | panic => rw [h1] at he; cases he
    · simp only [evaluateE] at he
      cases h1 : evaluateArgsE lk isReg as with
      | ok e1 v' => rw [h1] at he; cases he
      | nosuch m v₁ => rw [h1] at he; cases he; simp [arith] at h
      | err e t => rw [h1] at he; cases he
      | panic => rw [h1] at he; cases he
  case func =>
    intro f as
    refine ⟨fun ev a' he h => ?_, fun n a₁ he h => ?_⟩
    · simp only [evaluateE] at he
      cases h1 : evaluateArgsE lk isReg as with
      | ok e1 v' => rw [h1] at he; cases he; simp [arith] at h
      | nosuch m l' => rw [h1] at he; cases he
      | err e t => rw [h1] at he; cases he
      | panic => rw [h1] at he; cases he
    · simp only [evaluateE] at he
      cases h1 : evaluateArgsE lk isReg as with
      | ok e1 v' => rw [h1] at he; cases he
      | nosuch m v₁ => rw [h1] at he; cases he; simp [arith] at h
      | err e t => rw [h1] at he; cases he
      | panic => rw [h1] at he; cases he

/-- an operand whose evaluation ends in a constant is register-free arithmetic -/
theorem evaluateE_const_arith {lk : Bytes → Lookup} {a : Arg} {ev : Ev} {v : Int}
    (h : evaluateE lk isReg a = .ok ev (.const v)) : arith isReg a = true :=
  (evaluateE_arith isReg lk a).1 _ _ h rfl

end

/-! ## the retry of an operand that must be a NUMBER needs no side condition -/

/-- **the constant-level retry theorem** (no `plain`): the tree left by a first evaluation that stopped at an unknown
name evaluates over the larger table to the constant `v` (with the same `Deferred` cause, if any) exactly when the
original operand does -/
theorem const_retry {lk₁ lk₂ : Bytes → Lookup} {isReg : Bytes → Bool} (hs : Sub lk₁ lk₂) (hn : NoDef lk₁) {a : Arg}
    {n : Bytes} {a₁ : Arg} (h : evaluateE lk₁ isReg a = .nosuch n a₁) (v : Int) (cause : Option Bytes) :
    (∃ ev, evaluateE lk₂ isReg a₁ = .ok ev (.const v) ∧ ev.cause = cause) ↔
    (∃ ev, evaluateE lk₂ isReg a = .ok ev (.const v) ∧ ev.cause = cause) := by
  have key : arith isReg a = true →
      (evaluateE lk₂ isReg a₁).forget = (evaluateE lk₂ isReg a).forget :=
    fun ha => arith_resumes lk₁ lk₂ isReg hs hn a ha n a₁ h
  constructor
  · rintro ⟨ev, he, hc⟩
    have ha : arith isReg a = true := (evaluateE_arith isReg lk₁ a).2 _ _ h (evaluateE_const_arith isReg he)
    rcases forget_eq_cases (key ha) with ⟨e₁, e₂, x, h1, h2, hcc⟩ | ⟨hne, _⟩
    · rw [h1] at he
      simp only [EvE.ok.injEq] at he
      obtain ⟨rfl, rfl⟩ := he
      exact ⟨e₂, h2, by rw [← hcc, hc]⟩
    · exact absurd he (hne _ _)
  · rintro ⟨ev, he, hc⟩
    have ha : arith isReg a = true := evaluateE_const_arith isReg he
    rcases forget_eq_cases (key ha) with ⟨e₁, e₂, x, h1, h2, hcc⟩ | ⟨hne, heq⟩
    · rw [h2] at he
      simp only [EvE.ok.injEq] at he
      obtain ⟨rfl, rfl⟩ := he
      exact ⟨e₁, h1, by rw [hcc, hc]⟩
    · rw [← heq] at he; exact absurd he (hne _ _)

end Trion.Simp
