import TrionModel.Model.Map
import TrionModel.Spec.Dict
/-!
# Memory map: abstraction function, invariant, and the refinement lemmas for `put` / `removeRange`
-/
namespace Trion.Map
open Trion.Dict

/-- the dictionary a segment list denotes -/
def abs : Segs → Dict
  | [] => fun _ => none
  | (f, x) :: r => fun k => if f ≤ k ∧ k < f + x.length then x[k - f]? else abs r k

/-- `Ok lo ps`: every segment starts at or above `lo`, is non-empty, ends at or below 0xFFFFFFFF, and is
followed by a gap of at least one address (sorted, non-overlapping, maximally merged). -/
def Ok : Nat → Segs → Prop
  | _, [] => True
  | lo, (f, x) :: r => lo ≤ f ∧ x ≠ [] ∧ f + x.length ≤ 4294967296 ∧ Ok (f + x.length + 1) r

/-- the representation invariant of `MemoryMap` -/
def MInv (ps : Segs) : Prop := Ok 0 ps

theorem Ok_mono {lo lo' : Nat} {ps : Segs} (h : lo' ≤ lo) (ok : Ok lo ps) : Ok lo' ps := by
  cases ps with
  | nil => trivial
  | cons s r => obtain ⟨f, x⟩ := s; exact ⟨Nat.le_trans h ok.1, ok.2⟩

theorem abs_none_of_lt {lo : Nat} {ps : Segs} (ok : Ok lo ps) {k : Nat} (h : k < lo) : abs ps k = none := by
  induction ps generalizing lo with
  | nil => rfl
  | cons s r ih =>
    obtain ⟨f, x⟩ := s
    obtain ⟨h1, _, _, h4⟩ := ok
    have : ¬ (f ≤ k ∧ k < f + x.length) := by omega
    simp only [abs, this, if_false]
    exact ih h4 (by omega)

theorem abs_cons (f : Nat) (x : List UInt8) (r : Segs) (k : Nat) :
    abs ((f, x) :: r) k = if f ≤ k ∧ k < f + x.length then x[k - f]? else abs r k := rfl

/-- indexing the merged buffer `take (a-f) x ++ d ++ drop (a+|d|-f) x` placed at `min a f` -/
theorem merged_get (f a : Nat) (x d : List UInt8) (h1 : a ≤ f + x.length) (h2 : f ≤ a + d.length) (k : Nat) :
    (if min a f ≤ k ∧ k < min a f + (x.take (a - f) ++ d ++ x.drop (a + d.length - f)).length
      then (x.take (a - f) ++ d ++ x.drop (a + d.length - f))[k - min a f]? else none) =
    (if a ≤ k ∧ k < a + d.length then d[k - a]?
      else if f ≤ k ∧ k < f + x.length then x[k - f]? else none) := by
  have hl : (x.take (a - f) ++ d ++ x.drop (a + d.length - f)).length
      = min (a - f) x.length + d.length + (x.length - (a + d.length - f)) := by
    simp [List.length_append, List.length_take, List.length_drop]; omega
  rw [hl]
  by_cases c1 : a ≤ k ∧ k < a + d.length
  · rw [if_pos c1, if_pos (by omega)]
    rw [List.append_assoc, List.getElem?_append_right (by simp [List.length_take]; omega)]
    rw [List.getElem?_append_left (by simp [List.length_take]; omega)]
    congr 1
    simp [List.length_take]; omega
  · rw [if_neg c1]
    by_cases c2 : f ≤ k ∧ k < f + x.length
    · rw [if_pos c2, if_pos (by omega)]
      by_cases c3 : k < a
      · rw [List.append_assoc, List.getElem?_append_left (by simp [List.length_take]; omega)]
        rw [List.getElem?_take_of_lt (by omega)]
        congr 1; omega
      · rw [List.getElem?_append_right (by simp [List.length_take]; omega)]
        rw [List.getElem?_drop]
        congr 1
        simp [List.length_take]; omega
    · rw [if_neg c2, if_neg (by omega)]


theorem put_apply (D : Dict) (a : Nat) (d : List UInt8) (k : Nat) :
    Dict.put D a d k = if a ≤ k ∧ k < a + d.length then d[k - a]? else D k := rfl

/-- the merge walk refines the dictionary overwrite and keeps the invariant -/
theorem putGo_spec (ps : Segs) : ∀ (lo a : Nat) (d : List UInt8), Ok lo ps → lo ≤ a → d ≠ [] →
    a + d.length ≤ 4294967296 →
    Ok lo (putGo ps a d).2 ∧ ∀ k, abs (putGo ps a d).2 k = Dict.put (abs ps) a d k := by
  induction ps with
  | nil =>
    intro lo a d _ hlo hd hb
    refine ⟨⟨hlo, hd, hb, trivial⟩, fun k => ?_⟩
    show abs [(a, d)] k = _
    rw [abs_cons, put_apply]
  | cons s r ih =>
    obtain ⟨f, x⟩ := s
    intro lo a d ok hlo hd hb
    obtain ⟨o1, o2, o3, o4⟩ := ok
    unfold putGo
    by_cases c1 : f + x.length < a
    · simp only [c1, if_true]
      obtain ⟨i1, i2⟩ := ih (f + x.length + 1) a d o4 (by omega) hd hb
      refine ⟨⟨o1, o2, o3, i1⟩, fun k => ?_⟩
      rw [abs_cons, i2, put_apply, put_apply, abs_cons]
      by_cases c : a ≤ k ∧ k < a + d.length
      · have c' : ¬ (f ≤ k ∧ k < f + x.length) := by omega
        simp [c, c']
      · simp [c]
    · simp only [c1, if_false]
      by_cases c2 : a + d.length < f
      · simp only [c2, if_true]
        refine ⟨⟨hlo, hd, hb, by omega, o2, o3, o4⟩, fun k => ?_⟩
        rw [abs_cons, put_apply]
      · simp only [c2, if_false]
        have hne : x.take (a - f) ++ d ++ x.drop (a + d.length - f) ≠ [] := by
          intro h; apply hd
          have := congrArg List.length h
          simp only [List.length_append, List.length_nil] at this
          exact List.eq_nil_of_length_eq_zero (by omega)
        have hlen : min a f + (x.take (a - f) ++ d ++ x.drop (a + d.length - f)).length ≤ 4294967296 := by
          simp [List.length_append, List.length_take, List.length_drop]; omega
        obtain ⟨i1, i2⟩ := ih lo (min a f) _ (Ok_mono (by omega) o4) (by omega) hne hlen
        refine ⟨i1, fun k => ?_⟩
        rw [i2, put_apply, put_apply, abs_cons]
        have hm := merged_get f a x d (by omega) (by omega) k
        have hnone : (f ≤ k ∧ k < f + x.length) → abs r k = none :=
          fun h => abs_none_of_lt o4 (by omega)
        by_cases c : min a f ≤ k ∧ k < min a f + (x.take (a - f) ++ d ++ x.drop (a + d.length - f)).length
        · rw [if_pos c] at hm ⊢
          rw [hm]
          by_cases c3 : a ≤ k ∧ k < a + d.length
          · rw [if_pos c3, if_pos c3]
          · rw [if_neg c3, if_neg c3]
            by_cases c4 : f ≤ k ∧ k < f + x.length
            · rw [if_pos c4, if_pos c4]
            · exfalso
              have : (x.take (a - f) ++ d ++ x.drop (a + d.length - f)).length
                  = min (a - f) x.length + d.length + (x.length - (a + d.length - f)) := by
                simp [List.length_append, List.length_take, List.length_drop]; omega
              omega
        · rw [if_neg c] at hm ⊢
          have : (x.take (a - f) ++ d ++ x.drop (a + d.length - f)).length
              = min (a - f) x.length + d.length + (x.length - (a + d.length - f)) := by
            simp [List.length_append, List.length_take, List.length_drop]; omega
          rw [if_neg (by omega), if_neg (by omega)]

end Trion.Map
