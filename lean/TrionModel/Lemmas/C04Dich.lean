import TrionModel.Lemmas.C04Mix2
import TrionModel.Props.C04Text
/-!
# C04: the pipeline pieces stated from `Front.build` (for the run-level dichotomy on the extended operand class)
-/
namespace Trion.C04
open Trion Trion.Front

theorem instr_diag_of (env : Asm.Env) (st : Asm.St) (tbl : Asm.Table) (hnd : Asm.Table.NoDef tbl) (hT : tblI64 tbl)
    (henv : env.paths ≠ []) (hl : st.locals = some tbl) (map : Map.Segs) (seg : Seg.Active) (pending : List (Nat × Nat))
    (hs : st.seg = ⟨map, some seg, pending⟩) (l c : Nat) (name : Bytes) (args : List Arg) (t : Instr)
    (hm : mnemonic name = some t)
    (htot : (∃ i, build seg.cur name args (Asm.frontEval tbl) true = .completed i) ∨
      (∃ d st, build seg.cur name args (Asm.frontEval tbl) true = .error d st))
    (henc0 : ∀ i hws, build seg.cur name args (Asm.frontEval tbl) true = .completed i → Codec.encode i ≠ .ok hws) :
    ∀ st' r, Asm.instruction Asm.encoder env st l c name args = .ok (st', r) → st.errors.length + 1 ≤ st'.errors.length := by
  intro st' r h
  have hpaths : env.paths.isEmpty = false := by cases h : env.paths with | nil => exact absurd h henv | cons => rfl
  have hn := Asm.Table.nodef_get hnd
  have hTk := tableOk_of_tblI64 hT
  have hE := evalSimp_frontEval tbl
  unfold Asm.instruction at h
  simp only [Asm.currAddr, hs, Option.map_some, hm] at h
  cases ha : Asm.ArmInstr.assemble ⟨env.curName, l, c, ⟨seg.cur, t, 0, args⟩, false⟩ env st true with
  | stop s => rw [ha] at h; cases h
  | ok p =>
    obtain ⟨i', st1, op⟩ := p
    rw [ha] at h
    have hg := Asm.assembleI_grew _ _ _ ha
    unfold Asm.ArmInstr.assemble at ha
    simp only [Asm.evalTable, hpaths, hl, Asm.evalPanics_false, Bool.false_eq_true, if_false] at ha
    cases hF : Front.assemble ⟨seg.cur, t, 0, args⟩ (Asm.frontEval tbl) true with
    | mk fs out =>
      rw [hF] at ha
      have hb : build seg.cur name args (Asm.frontEval tbl) true =
          (match out with
           | .completed => .completed fs.instr | .deferred c => .deferred c fs | .error d => .error d fs | .panic => .panic) := by
        unfold build; rw [hm]; simp only [hF]; cases out <;> rfl
      cases out with
      | completed =>
        simp only at ha
        cases ha
        simp only at hb h
        have henc : ∀ hws, Codec.encode fs.instr ≠ .ok hws := fun hws => henc0 _ hws hb
        cases hce : Codec.encode fs.instr with
        | ok hws => exact absurd hce (henc hws)
        | error e =>
          obtain ⟨e', he'⟩ := encoder_err hce
          simp only [Asm.ArmInstr.writeInstr, he'] at h
          cases h
          simp
      | deferred c' =>
        rcases htot with ⟨j, hj⟩ | ⟨d, s2, hj⟩
        · rw [hb] at hj; cases hj
        · rw [hb] at hj; cases hj
      | error d =>
        simp only at ha
        cases ha
        simp only [Asm.Grew, Asm.Op.isErr_err, Bool.toNat_true] at hg
        simp only at h
        cases hwi : Asm.ArmInstr.writeInstr Asm.encoder
            ⟨env.curName, l, c, fs, false⟩ (st.pushIn env.curName l c (Asm.frontKind d)) true with
        | stop s => rw [hwi] at h; cases h
        | ok q =>
          obtain ⟨i2, st2, r2⟩ := q
          have hg2 := Asm.writeInstr_grew _ _ _ hwi
          rw [hwi] at h
          simp only [Asm.Grew] at hg2
          cases r2 with
          | ok =>
            simp only at h
            cases hsch : Asm.ArmInstr.schedule i2 st2 false with
            | stop s => rw [hsch] at h; cases h
            | ok st3 =>
              rw [hsch] at h
              cases h
              have := Asm.addTask_errs hsch
              rw [this]; omega
          | err lv => simp only at h; cases h; omega
      | panic => simp only at ha; cases ha


theorem stmt_placed_of_build (fs : Bytes → Option Bytes) (inc : Asm.Inc) (env : Asm.Env) (st : Asm.St) (tbl : Asm.Table)
    (hnd : Asm.Table.NoDef tbl) (henv : env.paths ≠ []) (hl : st.locals = some tbl) (l c : Nat) (name : Bytes) (args : Args)
    (map : Map.Segs) (seg : Seg.Active) (pending : List (Nat × Nat)) (hs : st.seg = ⟨map, some seg, pending⟩)
    (i : Instr) (hbuild : build seg.cur name args.toList (Asm.frontEval tbl) true = .completed i)
    (hws : List Nat) (he : Codec.encode i = .ok hws)
    (hfit : seg.buf.length + 2 * hws.length ≤ seg.maxLen) :
    Asm.statement fs Asm.encoder inc env st ⟨l, c, .instruction name args⟩ =
      .ok ({ st with seg := ⟨map, some { seg with buf := seg.buf ++ (Codec.toBytes hws).map (·.toUInt8) },
                              (seg.cur, 2 * hws.length) :: pending⟩ }, .ok) ∧
    Arm.decode hws = some i := by
  have hwf : i.wf := build_wf_proof _ _ _ _ _ i hbuild
  have hb : build seg.cur name args.toList (Asm.frontEval tbl) true = .completed i ∧ Arm.decode hws = some i :=
    ⟨hbuild, Codec.enc_sound i hws he hwf⟩
  have hlen := (Codec.enc_len i hws he hwf).1
  have henc := Asm.encoder_ok i hws he (by omega)
  have hbl : ((Codec.toBytes hws).map (·.toUInt8)).length = 2 * hws.length := by simp [Asm.toBytes_length]
  have := Asm.instr_ok fs Asm.encoder inc env st tbl henv hl l c name args map seg pending hs i hb.1 _ henc (by rw [hbl]; exact hfit)
  rw [hbl] at this
  exact ⟨this, hb.2⟩


theorem run_defs_stmt_of_build (fs : Bytes → Option Bytes) (main data : Bytes) (hfs : fs main = some data)
    (els : List Element) (hp : Asm.parseFile data = .ok (els, none)) (A : Nat) (defs : List (Bytes × Arg))
    (name : Bytes) (args : Args) (hels : els.map (·.val) = progVals A defs name args)
    (tbl : Asm.Table) (hdefs : defsTable defs [] = some tbl)
    (i : Instr) (hbuild : build A name args.toList (Asm.frontEval tbl) true = .completed i)
    (hws : List Nat) (he : Codec.encode i = .ok hws) (hfit : A + 2 * hws.length ≤ 4294967296) :
    Asm.run fs main = .done ⟨true, none, true, [], [(A, (Codec.toBytes hws).map (·.toUInt8))]⟩ ∧
    Arm.decode hws = some i := by
  have hwf : i.wf := build_wf_proof _ _ _ _ _ i hbuild
  have hlen := (Codec.enc_len i hws he hwf).1
  have ha : A < 4294967296 := by omega
  have hblen : ((Codec.toBytes hws).map (·.toUInt8)).length = 2 * hws.length := by simp [Asm.toBytes_length]
  simp only [progVals] at hels
  obtain ⟨e1, r1, rfl, h1, hr1⟩ := List.map_eq_cons_iff.mp hels
  obtain ⟨mid, last, rfl, hmid, hlast⟩ := List.map_eq_append_iff.mp hr1
  obtain ⟨e2, r2, rfl, h2, hr2⟩ := List.map_eq_cons_iff.mp hlast
  have : r2 = [] := by simpa using hr2
  subst this
  obtain ⟨l1, c1, v1⟩ := e1
  obtain ⟨l2, c2, v2⟩ := e2
  simp only at h1 h2
  subst h1 h2
  let inc := Asm.assembleFile fs Asm.encoder (Asm.maxDepth - 1)
  let env : Asm.Env := ⟨[main], main⟩
  let seg : Seg.Active := ⟨A, [] ++ (Codec.toBytes hws).map (·.toUInt8), Map.u32Max - A + 1⟩
  have haddr : Asm.statement fs Asm.encoder inc env
        ⟨Seg.init, [], some [], [], some [], []⟩ ⟨l1, c1, .directive (bytesOf "addr") (Args.ofList [.const A])⟩ =
      .ok (⟨⟨[], some ⟨A, [], Map.u32Max - A + 1⟩, []⟩, [], some [], [], some [], []⟩, .ok) := by
    have := Asm.addr_ok fs inc env
      ⟨Seg.init, [], some [], [], some [], []⟩ [] (by simp [env]) rfl rfl l1 c1 (A : Int) (by omega) (by omega)
    simp only [Asm.statement, Show.toList_ofList, this]
    simp
  obtain ⟨hdefsrun, hnd⟩ := doAssemble_defs fs Asm.encoder inc env (by simp [env]) defs mid
    [⟨l2, c2, .instruction name args⟩] none
    ⟨⟨[], some ⟨A, [], Map.u32Max - A + 1⟩, []⟩, [], some [], [], some [], []⟩ [] tbl hmid rfl
    (by intro n; simp [Asm.Table.find]) hdefs
  have hinstr := (stmt_placed_of_build fs inc env
      ⟨⟨[], some ⟨A, [], Map.u32Max - A + 1⟩, []⟩, [], some tbl, [], some [], []⟩ tbl
      hnd (by simp [env]) rfl l2 c2 name args [] ⟨A, [], Map.u32Max - A + 1⟩ [] rfl i
      (by rw [Show.cur_empty A _ ha]; exact hbuild) hws he (by simp only [List.length_nil, Map.u32Max]; omega))
  have key : Asm.doAssemble fs Asm.encoder inc env
      (⟨l1, c1, .directive (bytesOf "addr") (Args.ofList [.const A])⟩ :: (mid ++ [⟨l2, c2, .instruction name args⟩])) none
      ⟨Seg.init, [], some [], [], some [], []⟩ =
      .ok (⟨⟨[], some seg, [(A, ((Codec.toBytes hws).map (·.toUInt8)).length)]⟩, [], some tbl, [], some [], []⟩, .ok) := by
    simp only [Asm.doAssemble]
    rw [haddr]
    simp only
    rw [hdefsrun]
    simp only [Asm.doAssemble]
    rw [hinstr.1, Show.cur_empty A _ ha, hblen]
  have hrun := Asm.run_of_statements fs main data hfs _ hp tbl seg
    [(A, ((Codec.toBytes hws).map (·.toUInt8)).length)] key
    (by
      intro e
      have e' : (([] : Bytes) ++ (Codec.toBytes hws).map (·.toUInt8)) = [] := e
      have := congrArg List.length e'
      simp only [List.nil_append, hblen, List.length_nil] at this
      omega)
    (by show A + (([] : Bytes) ++ (Codec.toBytes hws).map (·.toUInt8)).length ≤ 4294967296
        simp only [List.nil_append, hblen]; exact hfit)
  exact ⟨by simpa [seg] using hrun, hinstr.2⟩


end Trion.C04

namespace Trion.C04
open Trion Trion.Front

theorem defsTable_nodef : ∀ (defs : List (Bytes × Arg)) (t t' : Asm.Table), Asm.Table.NoDef t → defsTable defs t = some t' →
    Asm.Table.NoDef t' := by
  intro defs
  induction defs with
  | nil => intro t t' h hd; simp only [defsTable, Option.some.injEq] at hd; subst hd; exact h
  | cons d defs ih =>
    intro t t' h hd
    obtain ⟨n, e⟩ := d
    simp only [defsTable] at hd
    split at hd
    · cases hd
    · split at hd
      · cases hd
      · split at hd
        · exact ih _ _ (Asm.Table.nodef_set h n _) hd
        · cases hd

end Trion.C04
