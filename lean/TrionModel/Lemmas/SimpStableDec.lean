import TrionModel.Lemmas.SimpStable
import TrionModel.Lemmas.AsmRetrySim
/-!
# A checker for the exact tree-level retry condition

`LeftStable lk₁ lk₂ isReg a` quantifies over the outcomes of `evaluate`; `leftStableB` computes it (run `evaluate` over
`lk₁` on the left operands along the path to the stop, and `evaluate` over `lk₂` once more on each completed value, and
compare trees).  `leftStableB_sound`: `true` implies the condition — so for a concrete statement and concrete tables the
hypothesis of `Asm.stmt_outcome_order_independent` is discharged by evaluation (`rfl` / `decide`).
-/
namespace Trion.Simp
open Trion

mutual
def Arg.beq : Arg → Arg → Bool
  | .const a, .const b => decide (a = b)
  | .ident a, .ident b => decide (a = b)
  | .str a, .str b => decide (a = b)
  | .bin o l r, .bin o' l' r' => decide (o = o') && Arg.beq l l' && Arg.beq r r'
  | .neg a, .neg b => Arg.beq a b
  | .not a, .not b => Arg.beq a b
  | .addr a, .addr b => Arg.beq a b
  | .seq a, .seq b => Args.beq a b
  | .func n a, .func m b => decide (n = m) && Args.beq a b
  | _, _ => false
def Args.beq : Args → Args → Bool
  | .nil, .nil => true
  | .cons a as, .cons b bs => Arg.beq a b && Args.beq as bs
  | _, _ => false
end

theorem beq_eq_both : (∀ a b, Arg.beq a b = true → a = b) ∧ (∀ as bs, Args.beq as bs = true → as = bs) := by
  apply Arg.ind2
  case const => intro v b h; cases b <;> simp_all [Arg.beq]
  case ident => intro v b h; cases b <;> simp_all [Arg.beq]
  case str => intro v b h; cases b <;> simp_all [Arg.beq]
  case bin =>
    intro op l r ihl ihr b h
    cases b with
    | bin o' l' r' =>
      simp only [Arg.beq, Bool.and_eq_true, decide_eq_true_eq] at h
      obtain ⟨⟨h1, h2⟩, h3⟩ := h
      rw [h1, ihl _ h2, ihr _ h3]
    | _ => simp [Arg.beq] at h
  case neg =>
    intro a ih b h
    cases b with
    | neg b => simp only [Arg.beq] at h; rw [ih _ h]
    | _ => simp [Arg.beq] at h
  case not =>
    intro a ih b h
    cases b with
    | not b => simp only [Arg.beq] at h; rw [ih _ h]
    | _ => simp [Arg.beq] at h
  case addr =>
    intro a ih b h
    cases b with
    | addr b => simp only [Arg.beq] at h; rw [ih _ h]
    | _ => simp [Arg.beq] at h
  case seq =>
    intro as ih b h
    cases b with
    | seq bs => simp only [Arg.beq] at h; rw [ih _ h]
    | _ => simp [Arg.beq] at h
  case func =>
    intro n as ih b h
    cases b with
    | func m bs =>
      simp only [Arg.beq, Bool.and_eq_true, decide_eq_true_eq] at h
      obtain ⟨h1, h2⟩ := h
      rw [h1, ih _ h2]
    | _ => simp [Arg.beq] at h
  case nil => intro bs h; cases bs <;> simp_all [Args.beq]
  case cons =>
    intro a as iha ihas bs h
    cases bs with
    | cons b bs =>
      simp only [Args.beq, Bool.and_eq_true] at h
      obtain ⟨h1, h2⟩ := h
      rw [iha _ h1, ihas _ h2]
    | nil => simp [Args.beq] at h

/-- `a` is a fixed point of `evaluate` over `lk` (computed) -/
def stableB (lk : Bytes → Lookup) (isReg : Bytes → Bool) (a : Arg) : Bool :=
  match evaluateE lk isReg a with
  | .ok ev a' => ev.cause.isNone && Arg.beq a' a
  | _ => false

theorem stableB_sound {lk : Bytes → Lookup} {isReg : Bytes → Bool} {a : Arg} (h : stableB lk isReg a = true) :
    StableAt lk isReg a := by
  unfold stableB at h
  cases he : evaluateE lk isReg a with
  | ok ev a' =>
    rw [he] at h
    simp only [Bool.and_eq_true] at h
    have := beq_eq_both.1 _ _ h.2
    subst this
    refine ⟨ev, he, ?_⟩
    cases hc : ev.cause with
    | none => rfl
    | some c => rw [hc] at h; simp at h
  | nosuch n a' => rw [he] at h; cases h
  | err e a' => rw [he] at h; cases h
  | panic => rw [he] at h; cases h

mutual
def leftStableB (lk₁ lk₂ : Bytes → Lookup) (isReg : Bytes → Bool) : Arg → Bool
  | .bin _ l r => leftStableB lk₁ lk₂ isReg l && leftStableB lk₁ lk₂ isReg r &&
      (match evaluateE lk₁ isReg l, evaluateE lk₁ isReg r with
       | .ok _ l', .nosuch _ _ => stableB lk₂ isReg l'
       | _, _ => true)
  | .neg a => leftStableB lk₁ lk₂ isReg a
  | .not a => leftStableB lk₁ lk₂ isReg a
  | .addr a => leftStableB lk₁ lk₂ isReg a
  | .seq as => leftStableArgsB lk₁ lk₂ isReg as
  | .func _ as => leftStableArgsB lk₁ lk₂ isReg as
  | _ => true
def leftStableArgsB (lk₁ lk₂ : Bytes → Lookup) (isReg : Bytes → Bool) : Args → Bool
  | .nil => true
  | .cons a as => leftStableB lk₁ lk₂ isReg a && leftStableArgsB lk₁ lk₂ isReg as &&
      (match evaluateE lk₁ isReg a, evaluateArgsE lk₁ isReg as with
       | .ok _ a', .nosuch _ _ => stableB lk₂ isReg a'
       | _, _ => true)
end

theorem leftStableB_sound_both (lk₁ lk₂ : Bytes → Lookup) (isReg : Bytes → Bool) :
    (∀ a, leftStableB lk₁ lk₂ isReg a = true → LeftStable lk₁ lk₂ isReg a) ∧
    (∀ as, leftStableArgsB lk₁ lk₂ isReg as = true → LeftStableArgs lk₁ lk₂ isReg as) := by
  apply Arg.ind2
  case const => intro v _; simp [LeftStable]
  case ident => intro v _; simp [LeftStable]
  case str => intro v _; simp [LeftStable]
  case bin =>
    intro op l r ihl ihr h
    simp only [leftStableB, Bool.and_eq_true] at h
    obtain ⟨⟨h1, h2⟩, h3⟩ := h
    simp only [LeftStable]
    refine ⟨ihl h1, ihr h2, fun e l' n r₁ e1 e2 => ?_⟩
    rw [e1, e2] at h3
    exact stableB_sound h3
  case neg => intro v ih h; simp only [leftStableB] at h; simp only [LeftStable]; exact ih h
  case not => intro v ih h; simp only [leftStableB] at h; simp only [LeftStable]; exact ih h
  case addr => intro v ih h; simp only [leftStableB] at h; simp only [LeftStable]; exact ih h
  case seq => intro as ih h; simp only [leftStableB] at h; simp only [LeftStable]; exact ih h
  case func => intro f as ih h; simp only [leftStableB] at h; simp only [LeftStable]; exact ih h
  case nil => intro _; simp [LeftStableArgs]
  case cons =>
    intro a as iha ihas h
    simp only [leftStableArgsB, Bool.and_eq_true] at h
    obtain ⟨⟨h1, h2⟩, h3⟩ := h
    simp only [LeftStableArgs]
    refine ⟨iha h1, ihas h2, fun e a' n as₁ e1 e2 => ?_⟩
    rw [e1, e2] at h3
    exact stableB_sound h3

end Trion.Simp

namespace Trion.Asm
open Trion

/-- the checker for the evaluators of `Asm` -/
def leftStableArgB (t₁ t₂ : Table) (a : Arg) : Bool :=
  Simp.leftStableB (fun n => t₁.get n) (fun n => t₂.get n) Front.isRegister a

theorem leftStableArgB_sound {t₁ t₂ : Table} {a : Arg} (h : leftStableArgB t₁ t₂ a = true) : LeftStableArg t₁ t₂ a :=
  (Simp.leftStableB_sound_both _ _ _).1 a h

end Trion.Asm
