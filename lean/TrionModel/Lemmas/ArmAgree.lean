import TrionModel.Lemmas.ArmAgreeA
import TrionModel.Lemmas.ArmAgreeB
import TrionModel.Lemmas.ArmAgreeC
import TrionModel.Lemmas.ArmAgreeD
import TrionModel.Lemmas.ArmAgreeE
import TrionModel.Lemmas.ArmAgreeW
/-! `Arm.decode` and the decoder model read every pattern alike (collected from the per-group lemmas). -/
set_option linter.unusedSimpArgs false
namespace Trion.Codec
open Trion Trion.Arm

theorem width16 : ∀ rw ∈ table16, rw.n ≠ 32 := by
  simp [table16, g00, g01, g02, g03, g04, g05, g06, g07, g08, g09, g10, g11, g12, g13, g14, g15, g16, g17, g18, g19,
    g20, g21, g22, g23, g24, g25, g26, g28]

theorem width32 : ∀ rw ∈ table32, rw.n ≠ 16 := by simp [table32]

theorem widths : ∀ rw ∈ table, rw.n = 16 ∨ rw.n = 32 := by
  simp [table, table32, table16, g00, g01, g02, g03, g04, g05, g06, g07, g08, g09, g10, g11, g12, g13, g14, g15, g16,
    g17, g18, g19, g20, g21, g22, g23, g24, g25, g26, g28]

theorem decode_one (h : Nat) (hlt : h < 65536) : Arm.decode [h] = decodeIn table16 h 16 := by
  simp only [Arm.decode, List.all_cons, List.all_nil, Bool.and_true, decide_eq_true_eq, hlt, if_true, word, table,
    List.length_cons, List.length_nil, Nat.pow_zero, Nat.mul_one, Nat.add_zero, Nat.zero_add, Nat.reduceMul]
  exact decodeIn_append_right (NoFit_of_width width32)

theorem decode_two (h0 h1 : Nat) (b0 : h0 < 65536) (b1 : h1 < 65536) :
    Arm.decode [h0, h1] = decodeIn table32 (h0 * 65536 + h1) 32 := by
  simp only [Arm.decode, List.all_cons, List.all_nil, Bool.and_true, Bool.and_eq_true, decide_eq_true_eq, b0, b1,
    and_self, if_true, word, table, List.length_cons, List.length_nil, Nat.pow_zero, Nat.pow_one, Nat.mul_one,
    Nat.add_zero, Nat.zero_add, Nat.reduceMul, Nat.reduceAdd]
  exact decodeIn_append_left (NoFit_of_width width16)

/-- 16-bit patterns below the 32-bit space -/
theorem spec16 (h : Nat) (ht : h / 2048 < 29) : Arm.decode [h] = toOpt (decode16 h) := by
  have hlt : h < 65536 := by omega
  rw [decode_one h hlt]
  rcases (by omega : h / 2048 = 0 ∨ h / 2048 = 1 ∨ h / 2048 = 2 ∨ h / 2048 = 3 ∨ h / 2048 = 4 ∨ h / 2048 = 5 ∨
      h / 2048 = 6 ∨ h / 2048 = 7 ∨ h / 2048 = 8 ∨ h / 2048 = 9 ∨ h / 2048 = 10 ∨ h / 2048 = 11 ∨ h / 2048 = 12 ∨
      h / 2048 = 13 ∨ h / 2048 = 14 ∨ h / 2048 = 15 ∨ h / 2048 = 16 ∨ h / 2048 = 17 ∨ h / 2048 = 18 ∨
      h / 2048 = 19 ∨ h / 2048 = 20 ∨ h / 2048 = 21 ∨ h / 2048 = 22 ∨ h / 2048 = 23 ∨ h / 2048 = 24 ∨
      h / 2048 = 25 ∨ h / 2048 = 26 ∨ h / 2048 = 27 ∨ h / 2048 = 28) with
    e | e | e | e | e | e | e | e | e | e | e | e | e | e | e | e | e | e | e | e | e | e | e | e | e | e | e | e | e
  · exact spec16_0 h hlt e
  · exact spec16_1 h hlt e
  · exact spec16_2 h hlt e
  · exact spec16_3 h hlt e
  · exact spec16_4 h hlt e
  · exact spec16_5 h hlt e
  · exact spec16_6 h hlt e
  · exact spec16_7 h hlt e
  · exact spec16_8 h hlt e
  · exact spec16_9 h hlt e
  · exact spec16_10 h hlt e
  · exact spec16_11 h hlt e
  · exact spec16_12 h hlt e
  · exact spec16_13 h hlt e
  · exact spec16_14 h hlt e
  · exact spec16_15 h hlt e
  · exact spec16_16 h hlt e
  · exact spec16_17 h hlt e
  · exact spec16_18 h hlt e
  · exact spec16_19 h hlt e
  · exact spec16_20 h hlt e
  · exact spec16_21 h hlt e
  · exact spec16_22 h hlt e
  · exact spec16_23 h hlt e
  · exact spec16_24 h hlt e
  · exact spec16_25 h hlt e
  · exact spec16_26 h hlt e
  · exact spec16_27 h hlt e
  · exact spec16_28 h hlt e

/-- a single halfword in the 32-bit space is not an instruction -/
theorem spec16_wide (h : Nat) (hlt : h < 65536) (ht : 29 ≤ h / 2048) : Arm.decode [h] = none := by
  rw [decode_one h hlt]
  apply decodeIn_nofit
  simp only [table16, List.flatten_cons, List.flatten_nil]
  repeat (first | exact trivial | (apply NoFit_append; nofit_any))

/-- two halfwords -/
theorem spec32' (h0 h1 : Nat) (b0 : h0 < 65536) (b1 : h1 < 65536) :
    Arm.decode [h0, h1] = if 29 ≤ h0 / 2048 then toOpt (decode32 h0 h1) else none := by
  rw [decode_two h0 h1 b0 b1]
  split
  · rename_i t; exact spec32 h0 h1 b0 b1 t
  · exact spec32_low h0 h1 b0 b1 (by omega)

/-- other lengths are not instructions -/
theorem spec_len (hws : List Nat) (h1 : hws.length ≠ 1) (h2 : hws.length ≠ 2) : Arm.decode hws = none := by
  unfold Arm.decode
  split
  · apply decodeIn_nofit
    apply NoFit_of_width
    intro rw m
    rcases widths rw m with e | e <;> omega
  · rfl

theorem toOpt_some {r : DecRes} {i : Instr} (h : toOpt r = some i) : ∃ n, r = .ok (n, i) := by
  match r, h with
  | .ok (n, _), h => simp only [toOpt, Option.some.injEq] at h; exact ⟨n, by rw [h]⟩

end Trion.Codec
