import TrionModel.Lemmas.C04Mean
/-!
# C04 closed: `finish ∘ setOp` is `C04.meaning` (all 58 templates)
-/
namespace Trion.C04
open Trion Trion.Front

set_option hygiene false in
/-- `cases t`, then name the operand values by the shapes `hs : shapes (sig t) vals` gives them -/
macro "destruct_shapes" : tactic => `(tactic| (
  cases t <;> simp only [sig] at hs
  all_goals (first
    | (have hv := shs0 hs; subst hv)
    | (obtain ⟨v0, rfl, h0⟩ := shs1 hs
       first
       | (obtain ⟨x0, rfl⟩ := sh_reg h0) | (obtain ⟨x0, rfl⟩ := sh_off h0) | (obtain ⟨x0, rfl⟩ := sh_ident h0)
       | (obtain ⟨x0, rfl⟩ := sh_regSet h0) | (obtain ⟨x0, rfl⟩ := sh_imm h0))
    | (obtain ⟨v0, v1, rfl, h0, h1⟩ := shs2 hs
       (first | (obtain ⟨x0, rfl⟩ := sh_reg h0) | (obtain ⟨x0, rfl⟩ := sh_sys h0))
       (first
        | (obtain ⟨x1, rfl⟩ := sh_reg h1) | (obtain ⟨x1, rfl⟩ := sh_off h1) | (obtain ⟨x1, rfl⟩ := sh_immReg h1)
        | (obtain ⟨x1, rfl⟩ := sh_regSet h1) | (obtain ⟨x1, rfl⟩ := sh_sys h1)
        | (obtain ⟨x1, o1, rfl⟩ := sh_address h1; cases o1)
        | (rcases sh_addrOffset h1 with ⟨x1, rfl⟩ | ⟨x1, o1, rfl⟩)))
    | (obtain ⟨v0, v1, v2, rfl, h0, h1, h2⟩ := shs3 hs
       obtain ⟨x0, rfl⟩ := sh_reg h0
       obtain ⟨x1, rfl⟩ := sh_reg h1
       (first | (obtain ⟨x2, rfl⟩ := sh_immReg h2) | (obtain ⟨x2, rfl⟩ := sh_imm h2))))
  ))

set_option maxHeartbeats 1600000 in
theorem finish_sound (A : Nat) (t : Instr) (vals : List Val) (n : Nat) (hs : shapes (sig t) vals)
    (hok : ∀ v ∈ vals, okVal v) (hq : ¬ svQuirk t vals) (i : Instr)
    (hf : finish A (replayFrom 0 vals t) vals n = .ok i) : meaning A t vals = some i := by
  destruct_shapes
  all_goals (simp only [replayFrom, setOp] at hf; unfold finish at hf; simp only [] at hf; unfold meaning; simp only)
  all_goals (try (simp only [Except.ok.injEq] at hf; subst hf; rfl))
  case adr =>
    have ha : isAddress x1 := by simpa [okVal, isAddress] using hok (.off x1) (by simp)
    cases hl : literal A x1 with
    | error e => rw [hl] at hf; cases hf
    | ok o =>
      rw [hl] at hf; simp only [Except.ok.injEq] at hf; subst hf
      rw [if_pos ha, pcAligned_eq, (literal_ok hl).1]
  case ldr.inl =>
    have ha : isAddress x1 := by simpa [okVal, isAddress] using hok (.off x1) (by simp)
    cases hl : literal A x1 with
    | error e => rw [hl] at hf; cases hf
    | ok o =>
      rw [hl] at hf; simp only [Except.ok.injEq] at hf; subst hf
      rw [if_pos ha, pcAligned_eq, (literal_ok hl).1]
  case b c _ =>
    have ha : isAddress x0 := by simpa [okVal, isAddress] using hok (.off x0) (by simp)
    generalize hb : (if c.val = 14 then branch A x0 (-2048) 2046 else branch A x0 (-256) 254) = res at hf
    cases res with
    | error e => cases hf
    | ok o =>
      simp only [Except.ok.injEq] at hf; subst hf
      rw [if_pos ha, pc_eq]
      split at hb
      · rw [(branch_ok hb).1]
      · rw [(branch_ok hb).1]
  case bl =>
    have ha : isAddress x0 := by simpa [okVal, isAddress] using hok (.off x0) (by simp)
    cases hl : branch A x0 (-16777216) 16777215 with
    | error e => rw [hl] at hf; cases hf
    | ok o =>
      rw [hl] at hf; simp only [Except.ok.injEq] at hf; subst hf
      rw [if_pos ha, pc_eq, (branch_ok hl).1]
  case bkpt =>
    cases hl : narrowU8 x0 with
    | none => rw [hl] at hf; cases hf
    | some w =>
      rw [hl] at hf; simp only [Except.ok.injEq] at hf; subst hf
      unfold narrowU8 at hl; split at hl <;> cases hl; rfl
  case svc =>
    cases hl : narrowU8 x0 with
    | none => rw [hl] at hf; cases hf
    | some w =>
      rw [hl] at hf; simp only [Except.ok.injEq] at hf; subst hf
      unfold narrowU8 at hl; split at hl <;> cases hl; rfl
  case udf =>
    cases hl : narrowU8 x0 with
    | none => rw [hl] at hf; cases hf
    | some w =>
      rw [hl] at hf; simp only [Except.ok.injEq] at hf; subst hf
      unfold narrowU8 at hl; split at hl <;> cases hl; rfl
  case udfw =>
    cases hl : narrowU16 x0 with
    | none => rw [hl] at hf; cases hf
    | some w =>
      rw [hl] at hf; simp only [Except.ok.injEq] at hf; subst hf
      unfold narrowU16 at hl; split at hl <;> cases hl; rfl
  case cps =>
    split at hf
    · rename_i h; simp only [Except.ok.injEq] at hf; subst hf; rw [if_pos h]
    · cases hf
  case dmb =>
    split at hf
    · rename_i h; simp only [Except.ok.injEq] at hf; subst hf
      rcases h with h | h
      · rw [if_pos (show isSY x0 from h)]
      · exact absurd ⟨.inl rfl, x0, rfl, h⟩ hq
    · cases hf
  case dsb =>
    split at hf
    · rename_i h; simp only [Except.ok.injEq] at hf; subst hf
      rcases h with h | h
      · rw [if_pos (show isSY x0 from h)]
      · exact absurd ⟨.inr (.inl rfl), x0, rfl, h⟩ hq
    · cases hf
  case isb =>
    split at hf
    · rename_i h; simp only [Except.ok.injEq] at hf; subst hf
      rcases h with h | h
      · rw [if_pos (show isSY x0 from h)]
      · exact absurd ⟨.inr (.inr rfl), x0, rfl, h⟩ hq
    · cases hf
  case ldrsb.imm => cases hf
  case ldrsh.imm => cases hf
  case rsb =>
    by_cases hz : x2 = 0
    · rw [if_neg (by simpa using hz)] at hf; simp only [Except.ok.injEq] at hf; subst hf; rw [if_pos hz]
    · rw [if_pos hz] at hf; cases hf

/-! ## what the encoder's acceptance says about the fields the front end checks -/

theorem enc_adr {d : Reg} {off : Int} {hws : List Nat} (h : Codec.encode (.adr d off) = .ok hws) : off ≤ 1020 ∧ off % 4 = 0 := by
  simp only [Codec.encode] at h
  split at h
  · simp [Codec.unrep] at h
  · omega

theorem enc_b {c : Cond} {off : Int} {hws : List Nat} (h : Codec.encode (.b c off) = .ok hws) :
    (if c.val = 14 then -2048 ≤ off ∧ off ≤ 2046 else -256 ≤ off ∧ off ≤ 254) ∧ off % 2 = 0 := by
  simp only [Codec.encode] at h
  split at h
  · rename_i hc
    split at h
    · simp [Codec.unrep] at h
    · rw [if_pos hc]; omega
  · rename_i hc
    split at h
    · simp [Codec.unrep] at h
    · rw [if_neg hc]; omega

theorem enc_bl {off : Int} {hws : List Nat} (h : Codec.encode (.bl off) = .ok hws) :
    -16777216 ≤ off ∧ off ≤ 16777215 ∧ off % 2 = 0 := by
  simp only [Codec.encode] at h
  split at h
  · simp [Codec.unrep] at h
  · omega

theorem enc_ldr_nonneg {d a : Reg} {off : Int} {hws : List Nat} (h : Codec.encode (.ldr d a (.imm off)) = .ok hws) :
    0 ≤ off ∧ (a.val = 15 → off ≤ 1020 ∧ off % 4 = 0) := by
  simp only [Codec.encode] at h
  split at h
  · split at h
    · simp [Codec.unrep] at h
    · omega
  · rename_i h15
    split at h
    · split at h
      · simp [Codec.unrep] at h
      · exact ⟨by omega, fun h => absurd h h15⟩
    · split at h
      · simp [Codec.unrep] at h
      · exact ⟨by omega, fun h => absurd h h15⟩

theorem enc_ldrb_nonneg {d a : Reg} {off : Int} {hws : List Nat} (h : Codec.encode (.ldrb d a (.imm off)) = .ok hws) : 0 ≤ off := by
  simp only [Codec.encode] at h
  split at h
  · simp [Codec.unrep] at h
  · omega
theorem enc_ldrh_nonneg {d a : Reg} {off : Int} {hws : List Nat} (h : Codec.encode (.ldrh d a (.imm off)) = .ok hws) : 0 ≤ off := by
  simp only [Codec.encode] at h
  split at h
  · simp [Codec.unrep] at h
  · omega
theorem enc_str_nonneg {d a : Reg} {off : Int} {hws : List Nat} (h : Codec.encode (.str d a (.imm off)) = .ok hws) : 0 ≤ off := by
  simp only [Codec.encode] at h
  split at h
  · split at h
    · simp [Codec.unrep] at h
    · omega
  · split at h
    · simp [Codec.unrep] at h
    · omega
theorem enc_strb_nonneg {d a : Reg} {off : Int} {hws : List Nat} (h : Codec.encode (.strb d a (.imm off)) = .ok hws) : 0 ≤ off := by
  simp only [Codec.encode] at h
  split at h
  · simp [Codec.unrep] at h
  · omega
theorem enc_strh_nonneg {d a : Reg} {off : Int} {hws : List Nat} (h : Codec.encode (.strh d a (.imm off)) = .ok hws) : 0 ≤ off := by
  simp only [Codec.encode] at h
  split at h
  · simp [Codec.unrep] at h
  · omega

theorem narrowU8_ok {v : Int} (h : 0 ≤ v ∧ v ≤ 255) : narrowU8 v = some v := by unfold narrowU8; exact if_pos h
theorem narrowU16_ok {v : Int} (h : 0 ≤ v ∧ v ≤ 65535) : narrowU16 v = some v := by unfold narrowU16; exact if_pos h

theorem b_finish (A : Nat) (x0 : Int) (c : Cond)
    (hr : if c.val = 14 then -2048 ≤ x0 - ((pcOf A : Nat) : Int) ∧ x0 - ((pcOf A : Nat) : Int) ≤ 2046
          else -256 ≤ x0 - ((pcOf A : Nat) : Int) ∧ x0 - ((pcOf A : Nat) : Int) ≤ 254)
    (h2 : (x0 - ((pcOf A : Nat) : Int)) % 2 = 0) :
    (match (if c.val = 14 then branch A x0 (-2048) 2046 else branch A x0 (-256) 254) with
      | .ok o => (Except.ok (Instr.b c o) : Except Diag Instr)
      | .error e => .error e) = .ok (.b c (x0 - ((pcOf A : Nat) : Int))) := by
  by_cases hc : c.val = 14
  · rw [if_pos hc] at hr ⊢; rw [branch_of hr.1 hr.2 h2]
  · rw [if_neg hc] at hr ⊢; rw [branch_of hr.1 hr.2 h2]

theorem forall_cons {p : Val → Prop} (a : Val) (l : List Val) : (∀ v ∈ a :: l, p v) ↔ p a ∧ ∀ v ∈ l, p v := by simp
theorem forall_nil {p : Val → Prop} : (∀ v ∈ ([] : List Val), p v) ↔ True := by simp

set_option maxHeartbeats 1600000 in
theorem finish_complete (A : Nat) (t : Instr) (vals : List Val) (n : Nat) (i : Instr) (hs : shapes (sig t) vals)
    (hm : meaning A t vals = some i) (hwf : i.wf) (hws : List Nat) (he : Codec.encode i = .ok hws) :
    (∀ v ∈ vals, okValC v) ∧ finish A (replayFrom 0 vals t) vals n = .ok i := by
  destruct_shapes
  all_goals (unfold meaning at hm; simp only [] at hm)
  all_goals (try (split at hm))
  all_goals (try (cases hm; done))
  all_goals (cases hm)
  all_goals (simp only [forall_cons, forall_nil, okValC, and_true, true_and, replayFrom, setOp]; unfold finish; simp only [])
  all_goals (try trivial)
  case adr =>
    have ha : isAddress x1 := by assumption
    simp only [Instr.wf] at hwf
    obtain ⟨h1, h4⟩ := enc_adr he
    rw [pcAligned_eq] at hwf h1 h4 ⊢
    rw [literal_of hwf.1 h1 h4]
    exact ⟨ha, rfl⟩
  case ldr.inl =>
    have ha : isAddress x1 := by assumption
    obtain ⟨h0, h15⟩ := enc_ldr_nonneg he
    obtain ⟨h1, h4⟩ := h15 rfl
    rw [pcAligned_eq] at h0 h1 h4 ⊢
    rw [literal_of h0 h1 h4]
    exact ⟨ha, rfl⟩
  case b =>
    have ha : isAddress x0 := by assumption
    obtain ⟨hr, h2⟩ := enc_b he
    rw [pc_eq] at hr h2 ⊢
    exact ⟨ha, b_finish A _ _ hr h2⟩
  case bl =>
    have ha : isAddress x0 := by assumption
    obtain ⟨h0, h1, h2⟩ := enc_bl he
    rw [pc_eq] at h0 h1 h2 ⊢
    rw [branch_of h0 h1 h2]
    exact ⟨ha, rfl⟩
  case bkpt =>
    simp only [Instr.wf] at hwf
    rw [narrowU8_ok hwf]; exact ⟨⟨hwf.1, by omega⟩, rfl⟩
  case svc =>
    simp only [Instr.wf] at hwf
    rw [narrowU8_ok hwf]; exact ⟨⟨by omega, by omega⟩, rfl⟩
  case udf =>
    simp only [Instr.wf] at hwf
    rw [narrowU8_ok hwf]; exact ⟨⟨by omega, by omega⟩, rfl⟩
  case udfw =>
    simp only [Instr.wf] at hwf
    rw [narrowU16_ok hwf]; exact ⟨⟨by omega, by omega⟩, rfl⟩
  case cps => rw [if_pos (by assumption)]
  case dmb => have h : isSY x0 := by assumption
              rw [if_pos (.inl h)]
  case dsb => have h : isSY x0 := by assumption
              rw [if_pos (.inl h)]
  case isb => have h : isSY x0 := by assumption
              rw [if_pos (.inl h)]
  case rsb =>
    have hz : x2 = 0 := by assumption
    subst hz
    exact ⟨by decide, by simp⟩
  case ldr.inr =>
    refine ⟨?_, rfl⟩
    cases o1 with
    | reg r => trivial
    | imm v => exact ⟨(enc_ldr_nonneg he).1, (show inI32 v from hwf).2⟩
  case ldrb.imm v => exact ⟨⟨enc_ldrb_nonneg he, (show inI32 v from hwf).2⟩, rfl⟩
  case ldrh.imm v => exact ⟨⟨enc_ldrh_nonneg he, (show inI32 v from hwf).2⟩, rfl⟩
  case str.imm v => exact ⟨⟨enc_str_nonneg he, (show inI32 v from hwf).2⟩, rfl⟩
  case strb.imm v => exact ⟨⟨enc_strb_nonneg he, (show inI32 v from hwf).2⟩, rfl⟩
  case strh.imm v => exact ⟨⟨enc_strh_nonneg he, (show inI32 v from hwf).2⟩, rfl⟩

end Trion.C04
