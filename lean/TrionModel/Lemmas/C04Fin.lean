import TrionModel.Lemmas.C04Mean
/-!
# C04 closed: `finish ∘ setOp` is `C04.meaning` (all 58 templates)
-/
namespace Trion.C04
open Trion Trion.Front

set_option maxHeartbeats 1600000 in
theorem finish_sound (A : Nat) (t : Instr) (vals : List Val) (n : Nat) (hs : shapes (sig t) vals)
    (hok : ∀ v ∈ vals, okVal v) (hq : ¬ svQuirk t vals) (i : Instr)
    (hf : finish A (replayFrom 0 vals t) vals n = .ok i) : meaning A t vals = some i := by
  cases t <;> simp only [sig] at hs
  all_goals (first
    | (have hv := shs0 hs; subst hv)
    | (obtain ⟨v0, rfl, h0⟩ := shs1 hs
       first
       | (obtain ⟨x0, rfl⟩ := sh_reg h0) | (obtain ⟨x0, rfl⟩ := sh_off h0) | (obtain ⟨x0, rfl⟩ := sh_ident h0)
       | (obtain ⟨x0, rfl⟩ := sh_regSet h0) | (obtain ⟨x0, rfl⟩ := sh_imm h0))
    | (obtain ⟨v0, v1, rfl, h0, h1⟩ := shs2 hs
       (first | (obtain ⟨x0, rfl⟩ := sh_reg h0) | (obtain ⟨x0, rfl⟩ := sh_sys h0))
       (first
        | (obtain ⟨x1, rfl⟩ := sh_reg h1) | (obtain ⟨x1, rfl⟩ := sh_off h1) | (obtain ⟨x1, rfl⟩ := sh_immReg h1)
        | (obtain ⟨x1, rfl⟩ := sh_regSet h1) | (obtain ⟨x1, rfl⟩ := sh_sys h1)
        | (obtain ⟨x1, o1, rfl⟩ := sh_address h1; cases o1)
        | (rcases sh_addrOffset h1 with ⟨x1, rfl⟩ | ⟨x1, o1, rfl⟩)))
    | (obtain ⟨v0, v1, v2, rfl, h0, h1, h2⟩ := shs3 hs
       obtain ⟨x0, rfl⟩ := sh_reg h0
       obtain ⟨x1, rfl⟩ := sh_reg h1
       (first | (obtain ⟨x2, rfl⟩ := sh_immReg h2) | (obtain ⟨x2, rfl⟩ := sh_imm h2))))
  all_goals (simp only [replayFrom, setOp] at hf; unfold finish at hf; simp only [] at hf; unfold meaning; simp only)
  all_goals (try (simp only [Except.ok.injEq] at hf; subst hf; rfl))
  case adr =>
    have ha : isAddress x1 := by simpa [okVal, isAddress] using hok (.off x1) (by simp)
    cases hl : literal A x1 with
    | error e => rw [hl] at hf; cases hf
    | ok o =>
      rw [hl] at hf; simp only [Except.ok.injEq] at hf; subst hf
      rw [if_pos ha, pcAligned_eq, (literal_ok hl).1]
  case ldr.inl =>
    have ha : isAddress x1 := by simpa [okVal, isAddress] using hok (.off x1) (by simp)
    cases hl : literal A x1 with
    | error e => rw [hl] at hf; cases hf
    | ok o =>
      rw [hl] at hf; simp only [Except.ok.injEq] at hf; subst hf
      rw [if_pos ha, pcAligned_eq, (literal_ok hl).1]
  case b c _ =>
    have ha : isAddress x0 := by simpa [okVal, isAddress] using hok (.off x0) (by simp)
    generalize hb : (if c.val = 14 then branch A x0 (-2048) 2046 else branch A x0 (-256) 254) = res at hf
    cases res with
    | error e => cases hf
    | ok o =>
      simp only [Except.ok.injEq] at hf; subst hf
      rw [if_pos ha, pc_eq]
      split at hb
      · rw [(branch_ok hb).1]
      · rw [(branch_ok hb).1]
  case bl =>
    have ha : isAddress x0 := by simpa [okVal, isAddress] using hok (.off x0) (by simp)
    cases hl : branch A x0 (-16777216) 16777215 with
    | error e => rw [hl] at hf; cases hf
    | ok o =>
      rw [hl] at hf; simp only [Except.ok.injEq] at hf; subst hf
      rw [if_pos ha, pc_eq, (branch_ok hl).1]
  case bkpt =>
    cases hl : narrowU8 x0 with
    | none => rw [hl] at hf; cases hf
    | some w =>
      rw [hl] at hf; simp only [Except.ok.injEq] at hf; subst hf
      unfold narrowU8 at hl; split at hl <;> cases hl; rfl
  case svc =>
    cases hl : narrowU8 x0 with
    | none => rw [hl] at hf; cases hf
    | some w =>
      rw [hl] at hf; simp only [Except.ok.injEq] at hf; subst hf
      unfold narrowU8 at hl; split at hl <;> cases hl; rfl
  case udf =>
    cases hl : narrowU8 x0 with
    | none => rw [hl] at hf; cases hf
    | some w =>
      rw [hl] at hf; simp only [Except.ok.injEq] at hf; subst hf
      unfold narrowU8 at hl; split at hl <;> cases hl; rfl
  case udfw =>
    cases hl : narrowU16 x0 with
    | none => rw [hl] at hf; cases hf
    | some w =>
      rw [hl] at hf; simp only [Except.ok.injEq] at hf; subst hf
      unfold narrowU16 at hl; split at hl <;> cases hl; rfl
  case cps =>
    split at hf
    · rename_i h; simp only [Except.ok.injEq] at hf; subst hf; rw [if_pos h]
    · cases hf
  case dmb =>
    split at hf
    · rename_i h; simp only [Except.ok.injEq] at hf; subst hf
      rcases h with h | h
      · rw [if_pos (show isSY x0 from h)]
      · exact absurd ⟨.inl rfl, x0, rfl, h⟩ hq
    · cases hf
  case dsb =>
    split at hf
    · rename_i h; simp only [Except.ok.injEq] at hf; subst hf
      rcases h with h | h
      · rw [if_pos (show isSY x0 from h)]
      · exact absurd ⟨.inr (.inl rfl), x0, rfl, h⟩ hq
    · cases hf
  case isb =>
    split at hf
    · rename_i h; simp only [Except.ok.injEq] at hf; subst hf
      rcases h with h | h
      · rw [if_pos (show isSY x0 from h)]
      · exact absurd ⟨.inr (.inr rfl), x0, rfl, h⟩ hq
    · cases hf
  case ldrsb.imm => cases hf
  case ldrsh.imm => cases hf
  case rsb =>
    by_cases hz : x2 = 0
    · rw [if_neg (by simpa using hz)] at hf; simp only [Except.ok.injEq] at hf; subst hf; rw [if_pos hz]
    · rw [if_pos hz] at hf; cases hf

end Trion.C04
