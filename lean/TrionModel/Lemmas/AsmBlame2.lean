import TrionModel.Lemmas.AsmBlame1
import TrionModel.Lemmas.AsmDiagSrc
/-!
# `Trion.Asm`: every recorded diagnostic is blamed on a statement of a file of the project, with a kind that statement
can push (C12, whole run, kind-aware)

Kind-aware version of Lemmas/AsmDiagSrc.lean.  `SrcElK fs f l c C`: `f` is a file of the project, `(l, c)` is the
position of one of the statements `el` its text parses into, and `C` is the class of that statement (label, directive,
instruction).  `DBlame fs d`: the diagnostic `d` sits at a statement `el` of its own file and its kind is one a statement
of `el`'s class can push (`pushesC (Cls.of el.val) d.kind`), or it is the report of the parse error that ended its file.
`PsrcK` is the invariant: every recorded diagnostic is blamed; every queued task carries the position of a statement
of the class that queues such tasks (`Task.cls`).
-/
namespace Trion.Asm
open Trion

/-- `(l, c)` is the position of a statement of class `C` the text of file `f` parses into -/
def SrcElK (fs : Bytes → Option Bytes) (f : Bytes) (l c : Nat) (C : Cls) : Prop :=
  ∃ data lo els err, fs f = some data ∧ Lex.tokens data = .ok lo ∧ Parse.all lo = .done els err ∧
    ∃ el ∈ els, el.line = l ∧ el.col = c ∧ Cls.of el.val = C

/-- the diagnostic is at a statement of its file that can push its kind, or is the report of the error that ended the
parse of its file -/
def DBlame (fs : Bytes → Option Bytes) (d : Diag) : Prop :=
  ∃ data lo els err, fs d.file = some data ∧ Lex.tokens data = .ok lo ∧ Parse.all lo = .done els err ∧
    ((∃ el ∈ els, d.line = el.line ∧ d.col = el.col ∧ pushesC (Cls.of el.val) d.kind = true) ∨
     ∃ e, err = some e ∧ d.line = e.line ∧ d.col = e.col ∧ d.kind = .parse e.kind)

theorem DBlame.of_el {fs : Bytes → Option Bytes} {d : Diag} {C : Cls} (h : SrcElK fs d.file d.line d.col C)
    (hk : pushesC C d.kind = true) : DBlame fs d := by
  obtain ⟨data, lo, els, err, h1, h2, h3, el, hel, hl, hc, hC⟩ := h
  exact ⟨data, lo, els, err, h1, h2, h3, .inl ⟨el, hel, hl.symm, hc.symm, hC ▸ hk⟩⟩

def TaskSrcK (fs : Bytes → Option Bytes) (f : Option Bytes) : Task → Prop
  | .data d _ => SrcElK fs d.file d.line d.col (.dir (bytesOf d.du.name))
  | .instr i _ => SrcElK fs i.file i.line i.col .ins
  | .globalCopy _ l c => ∃ f', f = some f' ∧ SrcElK fs f' l c (.dir (bytesOf "global"))

structure PsrcK (fs : Bytes → Option Bytes) (cur up : Option Bytes) (st : St) : Prop where
  errs : ∀ d ∈ st.errors, DBlame fs d
  gt : ∀ t ∈ st.globalTasks, TaskSrcK fs up t
  lt : ∀ q, st.localTasks = some q → ∀ t ∈ q, TaskSrcK fs cur t

theorem taskSrcK_of_at {fs : Bytes → Option Bytes} {t : Task} {f : Bytes} {l c : Nat} {g : Option Bytes} {C : Cls}
    (ht : t.at f l c) (hc : taskC C t = true) (hs : SrcElK fs f l c C) (hg : t.notCopy = true ∨ g = some f) :
    TaskSrcK fs g t := by
  cases t with
  | data d b =>
    obtain ⟨rfl, rfl, rfl⟩ := ht
    cases C with
    | dir n => have e : bytesOf d.du.name = n := of_decide_eq_true hc; subst e; exact hs
    | lbl => cases hc
    | ins => cases hc
  | instr i b => obtain ⟨rfl, rfl, rfl⟩ := ht; cases C <;> first | exact hs | cases hc
  | globalCopy n l' c' =>
    obtain ⟨rfl, rfl⟩ := ht
    rcases hg with hg | hg
    · simp [Task.notCopy] at hg
    · cases C with
      | dir n => have e : bytesOf "global" = n := of_decide_eq_true hc; subst e; exact ⟨f, hg, hs⟩
      | lbl => cases hc
      | ins => cases hc

theorem includeDirective_casesK {fs : Bytes → Option Bytes} {inc : Inc} {env : Env} {st : St} {line col : Nat}
    {args : List Arg} :
    ∀ st' r, includeDirective fs inc env st line col args = .ok (st', r) →
      (∃ k, pushesC (.dir (bytesOf "include")) k = true ∧ st' = st.push env line col k) ∨
      ∃ data path st1 r1, fs path = some data ∧ inc env st data path = .ok (st1, r1) ∧
        (st' = st1 ∨ ∃ k, pushesC (.dir (bytesOf "include")) k = true ∧ st' = st1.push env line col k) := by
  unfold includeDirective
  splits
  all_goals (intro st' r h)
  all_goals (first | (cases h; done) | (cases h; exact .inl ⟨_, by pushes_tac, rfl⟩) | skip)
  all_goals (cases h; first
    | exact .inr ⟨_, _, _, _, ‹fs _ = some _›, ‹inc _ _ _ _ = _›, .inl rfl⟩
    | exact .inr ⟨_, _, _, _, ‹fs _ = some _›, ‹inc _ _ _ _ = _›, .inr ⟨_, by pushes_tac, rfl⟩⟩)

/-- a step all of whose additions are at `(f, l, c)` keeps the invariant -/
theorem psrcK_of_eff {fs : Bytes → Option Bytes} {cur up : Option Bytes} {st st' : St} {f : Bytes} {l c : Nat} {C : Cls}
    (hp : PsrcK fs cur up st) (he : EffK C f l c st st') (hs : SrcElK fs f l c C)
    (hg : ∀ t ∈ st'.globalTasks, t ∈ st.globalTasks ∨ t.notCopy = true)
    (hl : ∀ q', st'.localTasks = some q' → ∀ t ∈ q', (∃ q, st.localTasks = some q ∧ t ∈ q) ∨ t.notCopy = true ∨ cur = some f) :
    PsrcK fs cur up st' := by
  refine ⟨fun d hd => ?_, fun t ht => ?_, fun q' hq' t ht => ?_⟩
  · rcases he.1 d hd with h | h
    · exact hp.errs d h
    · obtain ⟨⟨h1, h2, h3⟩, hk⟩ := h
      exact .of_el (C := C) (by rw [h1, h2, h3]; exact hs) hk
  · rcases hg t ht with h | h
    · exact hp.gt t h
    · rcases he.2.1 t ht with h' | h'
      · exact hp.gt t h'
      · exact taskSrcK_of_at h'.1 h'.2 hs (.inl h)
  · rcases hl q' hq' t ht with ⟨q, hq, hm⟩ | h
    · exact hp.lt q hq t hm
    · rcases he.2.2 q' hq' t ht with ⟨q, hq, hm⟩ | h'
      · exact hp.lt q hq t hm
      · exact taskSrcK_of_at h'.1 h'.2 hs h

theorem psrcK_pushIn {fs : Bytes → Option Bytes} {cur up : Option Bytes} {st : St} (hp : PsrcK fs cur up st) {f : Bytes}
    {l c : Nat} {C : Cls} (k : Kind) (hk : pushesC C k = true) (hs : SrcElK fs f l c C) :
    PsrcK fs cur up (st.pushIn f l c k) :=
  psrcK_of_eff hp (effK_pushIn C f l c st k hk) hs (fun _ h => .inl h) (fun q hq _ ht => .inl ⟨q, hq, ht⟩)

/-- what the recursive call of `.include` has to satisfy -/
def IncSrcK (fs : Bytes → Option Bytes) (inc : Inc) : Prop :=
  ∀ env st data path st' r C up, st.locals = some C → fs path = some data → PsrcK fs (some env.curName) up st →
    inc env st data path = .ok (st', r) → PsrcK fs (some env.curName) up st'

theorem statement_blame {fs : Bytes → Option Bytes} {enc : Encoder} {inc : Inc} (hrel : IncRel inc) (hinc : IncSrcK fs inc)
    {env : Env} {st st' : St} {C : Table} {el : Element} {up : Option Bytes} {r : Res} (hC : st.locals = some C)
    (hp : PsrcK fs (some env.curName) up st) (hs : SrcElK fs env.curName el.line el.col (Cls.of el.val))
    (h : statement fs enc inc env st el = .ok (st', r)) : PsrcK fs (some env.curName) up st' := by
  by_cases hi : ∃ as, el.val = .directive (bytesOf "include") as
  · obtain ⟨as, hv⟩ := hi
    have h' : includeDirective fs inc env st el.line el.col as.toList = .ok (st', r) := by
      simpa only [statement, hv, directive_include] using h
    have hs' : SrcElK fs env.curName el.line el.col (.dir (bytesOf "include")) := by rw [hv] at hs; exact hs
    rcases includeDirective_casesK _ _ h' with ⟨k, hk, rfl⟩ | ⟨data, path, st1, r1, hfs, hcall, hst⟩
    · exact psrcK_pushIn hp k hk hs'
    · have p1 := hinc _ _ _ _ _ _ _ up hC hfs hp hcall
      rcases hst with rfl | ⟨k, hk, rfl⟩
      · exact p1
      · exact psrcK_pushIn p1 k hk hs'
  · have hni : ∀ as, el.val ≠ .directive (bytesOf "include") as := fun as e => hi ⟨as, e⟩
    have w := statement_rel hrel hC _ _ h
    exact psrcK_of_eff hp (statement_effK hni _ _ h) hs w.gt (fun _ _ _ _ => .inr (.inr rfl))

theorem doAssemble_blame {fs : Bytes → Option Bytes} {enc : Encoder} {inc : Inc} (hrel : IncRel inc) (hinc : IncSrcK fs inc)
    {env : Env} {up : Option Bytes} (err : Option ParseErr)
    (herr : ∀ e, err = some e → DBlame fs ⟨env.curName, e.line, e.col, .parse e.kind⟩) :
    ∀ (els : List Element) (st : St) (C : Table), st.locals = some C → (∀ el ∈ els, SrcElK fs env.curName el.line el.col (Cls.of el.val)) →
      PsrcK fs (some env.curName) up st →
      ∀ st' r, doAssemble fs enc inc env els err st = .ok (st', r) → PsrcK fs (some env.curName) up st' := by
  intro els
  induction els with
  | nil =>
    intro st C _ _ hp st' r h
    cases err with
    | none => simp only [doAssemble] at h; cases h; exact hp
    | some e =>
      simp only [doAssemble] at h
      cases h
      refine ⟨fun d hd => ?_, hp.gt, hp.lt⟩
      simp only [St.push, St.pushIn, List.mem_cons] at hd
      rcases hd with rfl | hd
      · exact herr e rfl
      · exact hp.errs d hd
  | cons el els ih =>
    intro st C hC hels hp st' r h
    simp only [doAssemble] at h
    have hs := hels el List.mem_cons_self
    split at h
    · rename_i st1 hst
      obtain ⟨C1, hC1⟩ := (statement_rel hrel hC _ _ hst).locals_some
      exact ih st1 C1 hC1 (fun x hx => hels x (List.mem_cons_of_mem _ hx)) (statement_blame hrel hinc hC hp hs hst) _ _ h
    · rename_i st1 l hst
      cases h
      exact statement_blame hrel hinc hC hp hs hst
    · cases h

/-- a task run by the loop of the file `env.curName` (`cur = some env.curName`) or by `finalize` (`cur = none`) -/
theorem runTask_blame {fs : Bytes → Option Bytes} {enc : Encoder} {env : Env} {st st' : St} {cur up : Option Bytes}
    {t : Task} {r : Res} (hcur : ∀ f', cur = some f' → f' = env.curName) (hp : PsrcK fs cur up st)
    (ht : TaskSrcK fs cur t) (h : runTask enc env st t = .ok (st', r)) : PsrcK fs cur up st' := by
  cases t with
  | data d g =>
    have q := runDataTask_quiet _ _ h
    exact psrcK_of_eff hp (runDataTask_effK _ _ h) ht q.gt (fun q' hq' t ht' => by
      rcases q.lt q' hq' t ht' with h1 | h1
      · exact .inl h1
      · exact .inr (.inl h1))
  | instr i g =>
    have q := runInstrTask_quiet _ _ h
    exact psrcK_of_eff hp (runInstrTask_effK _ _ h) ht q.gt (fun q' hq' t ht' => by
      rcases q.lt q' hq' t ht' with h1 | h1
      · exact .inl h1
      · exact .inr (.inl h1))
  | globalCopy n l c =>
    obtain ⟨f', hf', hs⟩ := ht
    have e := hcur f' hf'
    subst e
    have w := runGlobalCopy_tasks _ _ h
    exact psrcK_of_eff hp (runGlobalCopy_effK _ _ h) hs (fun t ht' => .inl (w.1 ▸ ht'))
      (fun q' hq' t ht' => .inl ⟨q', w.2 ▸ hq', ht'⟩)

theorem localRound_blame {fs : Bytes → Option Bytes} {enc : Encoder} {env : Env} {up : Option Bytes} :
    ∀ (ts : List Task) (st : St) (res : Res), (∀ t ∈ ts, TaskSrcK fs (some env.curName) t) →
      PsrcK fs (some env.curName) up st →
      ∀ st' r, localRound enc env ts st res = .ok (st', r) → PsrcK fs (some env.curName) up st' := by
  intro ts
  induction ts with
  | nil => intro st res _ hp st' r h; simp only [localRound] at h; cases h; exact hp
  | cons t ts ih =>
    intro st res hts hp st' r h
    simp only [localRound] at h
    have ht := hts t List.mem_cons_self
    have hts' : ∀ x ∈ ts, TaskSrcK fs (some env.curName) x := fun x hx => hts x (List.mem_cons_of_mem _ hx)
    have hcur : ∀ f', some env.curName = some f' → f' = env.curName := fun f' e => by cases e; rfl
    split at h
    · rename_i st1 hr
      exact ih st1 res hts' (runTask_blame hcur hp ht hr) _ _ h
    · rename_i st1 l hr
      have p1 := runTask_blame hcur hp ht hr
      split at h
      · cases h; exact p1
      · exact ih st1 _ hts' p1 _ _ h
    · cases h

theorem localLoop_blame {fs : Bytes → Option Bytes} {enc : Encoder} {env : Env} {up : Option Bytes} :
    ∀ (n : Nat) (ts : List Task) (st : St) (res : Res), (∀ t ∈ ts, TaskSrcK fs (some env.curName) t) →
      PsrcK fs (some env.curName) up st →
      ∀ st' r, localLoop enc env n ts st res = .ok (st', r) → PsrcK fs (some env.curName) up st' := by
  intro n
  induction n with
  | zero => intro ts st res _ _ st' r h; simp [localLoop] at h
  | succ n ih =>
    intro ts st res hts hp st' r h
    simp only [localLoop] at h
    split at h
    · cases h; exact hp
    · split at h
      · rename_i st1 res1 hr
        have p1 := localRound_blame ts st res hts hp _ _ hr
        split at h
        · cases h
        · rename_i new hnew
          have p2 : PsrcK fs (some env.curName) up { st1 with localTasks := some [] } :=
            ⟨p1.errs, p1.gt, (fun q hq t ht => by cases hq; cases ht)⟩
          split at h
          · cases h; exact p2
          · exact ih new _ res1 (p1.lt new hnew) p2 _ _ h
      · cases h

/-- a whole file: `do_assemble` over the statements its text parses into, then its task loop -/
theorem fileBody_blame {fs : Bytes → Option Bytes} {enc : Encoder} {inc : Inc} (hrel : IncRel inc) (hinc : IncSrcK fs inc)
    {env : Env} {data : Bytes} {st : St} {C : Table} {up : Option Bytes} (hfs : fs env.curName = some data)
    (hC : st.locals = some C) (hp : PsrcK fs (some env.curName) up st) :
    ∀ st' r, fileBody fs enc inc env data st = .ok (st', r) → PsrcK fs (some env.curName) up st' := by
  intro st' r h
  unfold fileBody at h
  split at h
  · rename_i els perr hpf
    obtain ⟨lo, hlo, hall⟩ := parseFile_eq hpf
    have hels : ∀ el ∈ els, SrcElK fs env.curName el.line el.col (Cls.of el.val) :=
      fun el hel => ⟨data, lo, els, perr, hfs, hlo, hall, el, hel, rfl, rfl, rfl⟩
    have herr : ∀ e, perr = some e → DBlame fs ⟨env.curName, e.line, e.col, .parse e.kind⟩ :=
      fun e he => ⟨data, lo, els, perr, hfs, hlo, hall, .inr ⟨e, he, rfl, rfl, rfl⟩⟩
    split at h
    · rename_i st3 res hd
      have p3 := doAssemble_blame hrel hinc perr herr els st C hC hels hp _ _ hd
      split at h
      · cases h; exact p3
      · split at h
        · cases h
        · rename_i tasks ht
          have p3' : PsrcK fs (some env.curName) up { st3 with localTasks := some [] } :=
            ⟨p3.errs, p3.gt, (fun q hq t ht => by cases hq; cases ht)⟩
          exact localLoop_blame rounds tasks _ res (p3.lt tasks ht) p3' _ _ h
    · cases h
  · cases h

theorem assembleFile_blame (fs : Bytes → Option Bytes) (enc : Encoder) : ∀ fuel, IncSrcK fs (assembleFile fs enc fuel) := by
  intro fuel
  induction fuel with
  | zero => intro env st data path st' r C up _ _ _ h; simp [assembleFile] at h
  | succ fuel ih =>
    intro env st data path st' r C up hC hfs hp h
    simp only [assembleFile, List.length_cons, Nat.add_one_ne_zero, if_false, ne_eq, not_true_eq_false] at h
    cases hlt : st.localTasks with
    | none =>
      have he : enterFile st = (some st.globals, none, { st with locals := some [], globals := C, localTasks := some [] }) := by
        simp [enterFile, hC, hlt]
      rw [he] at h
      simp only at h
      split at h
      · rename_i st4 res hf
        cases h
        have p2 : PsrcK fs (some path) up ({ st with locals := some [], globals := C, localTasks := some [] } : St) :=
          ⟨hp.errs, hp.gt, (fun q hq t ht => by cases hq; cases ht)⟩
        have p4 := fileBody_blame (assembleFile_rel fs enc fuel) ih (env := ⟨path :: env.paths, path⟩) hfs (C := []) rfl p2 _ _ hf
        exact ⟨p4.errs, p4.gt, (fun q hq => by cases hq)⟩
      · cases h
    | some q0 =>
      have he : enterFile st = (some st.globals, some st.globalTasks,
          { st with locals := some [], globals := C, localTasks := some [], globalTasks := q0 }) := by
        simp [enterFile, hC, hlt]
      rw [he] at h
      simp only at h
      split at h
      · rename_i st4 res hf
        cases h
        have p2 : PsrcK fs (some path) (some env.curName)
            ({ st with locals := some [], globals := C, localTasks := some [], globalTasks := q0 } : St) :=
          ⟨hp.errs, hp.lt q0 hlt, (fun q hq t ht => by cases hq; cases ht)⟩
        have p4 := fileBody_blame (assembleFile_rel fs enc fuel) ih (env := ⟨path :: env.paths, path⟩) hfs (C := []) rfl p2 _ _ hf
        exact ⟨p4.errs, hp.gt, (fun q hq t ht => by cases hq; exact p4.gt t ht)⟩
      · cases h

/-- the main file: assembled from outside any file -/
theorem assembleFile_blame_main {fs : Bytes → Option Bytes} {enc : Encoder} {fuel : Nat} {env : Env} {st st' : St}
    {data path : Bytes} {r : Res} (hl : st.locals = none) (hlt : st.localTasks = none) (hfs : fs path = some data)
    (hp : PsrcK fs none none st) (h : assembleFile fs enc fuel env st data path = .ok (st', r)) :
    PsrcK fs none none st' := by
  cases fuel with
  | zero => simp [assembleFile] at h
  | succ fuel =>
    simp only [assembleFile, List.length_cons, Nat.add_one_ne_zero, if_false, ne_eq, not_true_eq_false] at h
    have he : enterFile st = (none, none, { st with locals := some [], localTasks := some [] }) := by
      simp [enterFile, hl, hlt]
    rw [he] at h
    simp only at h
    split at h
    · rename_i st4 res hf
      cases h
      have p2 : PsrcK fs (some path) none ({ st with locals := some [], localTasks := some [] } : St) :=
        ⟨hp.errs, hp.gt, (fun q hq t ht => by cases hq; cases ht)⟩
      have p4 := fileBody_blame (assembleFile_rel fs enc fuel) (assembleFile_blame fs enc fuel)
        (env := ⟨path :: env.paths, path⟩) hfs (C := []) rfl p2 _ _ hf
      exact ⟨p4.errs, p4.gt, (fun q hq => by cases hq)⟩
    · cases h

theorem globalRound_blame {fs : Bytes → Option Bytes} {enc : Encoder} {env : Env} : ∀ (ts : List Task) (st : St),
    (∀ t ∈ ts, TaskSrcK fs none t) → PsrcK fs none none st →
    ∀ st' ab, globalRound enc env ts st = .ok (st', ab) → PsrcK fs none none st' := by
  intro ts
  induction ts with
  | nil => intro st _ hp st' ab h; simp only [globalRound] at h; cases h; exact hp
  | cons t ts ih =>
    intro st hts hp st' ab h
    simp only [globalRound] at h
    split at h
    · rename_i st1 r1 hr
      have p1 := runTask_blame (cur := none) (fun f' e => by cases e) hp (hts t List.mem_cons_self) hr
      split at h
      · cases h; exact p1
      · exact ih st1 (fun x hx => hts x (List.mem_cons_of_mem _ hx)) p1 _ _ h
    · cases h

theorem globalLoop_blame {fs : Bytes → Option Bytes} {enc : Encoder} {env : Env} : ∀ (n : Nat) (ts : List Task) (st : St),
    (∀ t ∈ ts, TaskSrcK fs none t) → PsrcK fs none none st →
    ∀ st' ab, globalLoop enc env n ts st = .ok (st', ab) → PsrcK fs none none st' := by
  intro n
  induction n with
  | zero => intro ts st _ _ st' ab h; simp [globalLoop] at h
  | succ n ih =>
    intro ts st hts hp st' ab h
    simp only [globalLoop] at h
    split at h
    · cases h; exact hp
    · split at h
      · rename_i st1 ab1 hr
        have p1 := globalRound_blame ts st hts hp _ _ hr
        have p2 : PsrcK fs none none { st1 with globalTasks := [] } := ⟨p1.errs, (fun t ht => by cases ht), p1.lt⟩
        split at h
        · cases h; exact p2
        · exact ih st1.globalTasks _ p1.gt p2 _ _ h
      · cases h

theorem finalize_blame {fs : Bytes → Option Bytes} {enc : Encoder} {env : Env} {st st' : St} {ok : Bool}
    (hp : PsrcK fs none none st) (h : finalize enc env st = .ok (st', ok)) : PsrcK fs none none st' := by
  unfold finalize at h
  split at h
  · rename_i st2 ab hl
    cases h
    exact globalLoop_blame rounds st.globalTasks { st with globalTasks := [] } hp.gt
      ⟨hp.errs, (fun t ht => by cases ht), hp.lt⟩ _ _ hl
  · cases h

end Trion.Asm
