import TrionModel.Lemmas.SegRewrite
/-!
# Output regions: whole histories

* `buf_le_of_inv`: under `Inv` the active buffer ends inside the address space (at most 2^32 bytes; exactly 2^32
  only in the state `Wrapped`: region based at 0, nothing above it, completely filled). Since /repo 46d02de
  `curr_addr` saturates the length, so this state is no longer special for `rewrite`;
* `run`, `outs`, `Legal`: histories with rewrites (the ghost list `pending` says which rewrites are legal).
-/
namespace Trion.Seg
open Trion.Map Trion.Dict

/-- the active region is based at 0 and holds 2^32 bytes (so nothing else exists: the whole address space
is one active buffer) -/
def Wrapped (s : State) : Prop := ∃ seg, s.active = some seg ∧ seg.base = 0 ∧ seg.buf.length = 4294967296

theorem buf_le_of_inv {s : State} (inv : Inv s) {seg : Active} (ha : s.active = some seg) :
    seg.base + seg.buf.length ≤ 4294967296 := by
  obtain ⟨a1, a2, _, _⟩ := inv.2.1 seg ha
  omega

/-! ### histories -/

/-- the state after a sequence of operations -/
def run (s : State) (ops : List Op) : State := ops.foldl (fun s op => (step s op).1) s

/-- the outcomes of a sequence of operations -/
def outs : State → List Op → List Out
  | _, [] => []
  | s, op :: r => (step s op).2 :: outs (step s op).1 r

theorem run_cons (s : State) (op : Op) (r : List Op) : run s (op :: r) = run (step s op).1 r := rfl

/-- a history a program can produce: every operation is well-formed in the state it is issued in (selected
addresses are `u32`, alignments positive, a rewrite targets a statement of the ghost list `pending` with the
length it was placed with) -/
def Legal : State → List Op → Prop
  | _, [] => True
  | s, op :: r => Op.wf s op ∧ Legal (step s op).1 r

/-- one legal step: no panic, invariant kept -/
theorem legal_step {s : State} (inv : Inv s) (op : Op) (wf : Op.wf s op) :
    (step s op).2 ≠ .panic ∧ Inv (step s op).1 := by
  cases op with
  | rewrite a d =>
    have h := rewrite_spec inv a d wf
    refine ⟨?_, h.2.1⟩
    show (rewrite s a d).2 ≠ .panic
    rw [h.1]; simp
  | select a => exact ⟨(step_nonrewrite inv _ wf (fun _ _ h => by cases h)).1, (step_nonrewrite inv _ wf (fun _ _ h => by cases h)).2.1⟩
  | append d => exact ⟨(step_nonrewrite inv _ wf (fun _ _ h => by cases h)).1, (step_nonrewrite inv _ wf (fun _ _ h => by cases h)).2.1⟩
  | align n => exact ⟨(step_nonrewrite inv _ wf (fun _ _ h => by cases h)).1, (step_nonrewrite inv _ wf (fun _ _ h => by cases h)).2.1⟩
  | place d => exact ⟨(step_nonrewrite inv _ wf (fun _ _ h => by cases h)).1, (step_nonrewrite inv _ wf (fun _ _ h => by cases h)).2.1⟩
  | close => exact ⟨(step_nonrewrite inv _ wf (fun _ _ h => by cases h)).1, (step_nonrewrite inv _ wf (fun _ _ h => by cases h)).2.1⟩

theorem run_inv (ops : List Op) : ∀ (s : State), Inv s → Legal s ops →
    Inv (run s ops) ∧ ∀ o ∈ outs s ops, o ≠ .panic := by
  induction ops with
  | nil => intro s inv _; exact ⟨inv, fun o ho => by cases ho⟩
  | cons op r ih =>
    intro s inv lg
    obtain ⟨h1, h2⟩ := legal_step inv op lg.1
    obtain ⟨i1, i2⟩ := ih _ h2 lg.2
    refine ⟨i1, fun o ho => ?_⟩
    rcases List.mem_cons.mp ho with h | h
    · rw [h]; exact h1
    · exact i2 o h

/-- one legal step changes a present byte only if it is a rewrite covering it -/
theorem legal_step_keeps {s : State} (inv : Inv s) (op : Op) (wf : Op.wf s op)
    (k : Nat) (hk : (image s k).isSome = true) (hno : ∀ a d, op = .rewrite a d → ¬ (a ≤ k ∧ k < a + d.length)) :
    image (step s op).1 k = image s k := by
  cases op with
  | rewrite a d =>
    exact (rewrite_spec inv a d wf).2.2.1 k (hno a d rfl)
  | select a => exact (step_nonrewrite inv _ wf (fun _ _ h => by cases h)).2.2 k hk
  | append d => exact (step_nonrewrite inv _ wf (fun _ _ h => by cases h)).2.2 k hk
  | align n => exact (step_nonrewrite inv _ wf (fun _ _ h => by cases h)).2.2 k hk
  | place d => exact (step_nonrewrite inv _ wf (fun _ _ h => by cases h)).2.2 k hk
  | close => exact (step_nonrewrite inv _ wf (fun _ _ h => by cases h)).2.2 k hk

theorem run_keeps (ops : List Op) : ∀ (s : State), Inv s → Legal s ops → ∀ (k : Nat),
    (image s k).isSome = true → (∀ a d, Op.rewrite a d ∈ ops → ¬ (a ≤ k ∧ k < a + d.length)) →
    image (run s ops) k = image s k := by
  induction ops with
  | nil => intro s _ _ k _ _; rfl
  | cons op r ih =>
    intro s inv lg k hk hno
    have h1 := legal_step_keeps inv op lg.1 k hk (fun a d e => hno a d (by rw [e]; exact List.mem_cons_self ..))
    have h2 := (legal_step inv op lg.1).2
    rw [run_cons, ih _ h2 lg.2 k (by rw [h1]; exact hk) (fun a d e => hno a d (List.mem_cons_of_mem _ e)), h1]

end Trion.Seg
