import TrionModel.Lemmas.SegRewrite
/-!
# Output regions: the `Small` guard, the one state where it fails, and whole histories

* `buf_le_of_inv` / `small_of_inv`: under `Inv` the active buffer holds at most 2^32 bytes, and exactly 2^32
  only in the state `Wrapped` (region based at 0, nothing above it, completely filled);
* `rewrite_wrapped_panics`: in that state the rewrite of a placed statement really fails — FINDING
  (`ActiveSegment::curr_addr` computes `buffer.len() as u32`, which is 0 for a 4 GiB buffer);
* `run`, `outs`, `Legal`: histories with rewrites (the ghost list `pending` says which rewrites are legal).
-/
namespace Trion.Seg
open Trion.Map Trion.Dict

/-- the active region is based at 0 and holds 2^32 bytes (so nothing else exists: the whole address space
is one active buffer) -/
def Wrapped (s : State) : Prop := ∃ seg, s.active = some seg ∧ seg.base = 0 ∧ seg.buf.length = 4294967296

theorem buf_le_of_inv {s : State} (inv : Inv s) {seg : Active} (ha : s.active = some seg) :
    seg.base + seg.buf.length ≤ 4294967296 := by
  obtain ⟨a1, a2, _, _⟩ := inv.2.1 seg ha
  omega

/-- `Small` holds in every state satisfying the invariant except `Wrapped` -/
theorem small_of_inv {s : State} (inv : Inv s) (nw : ¬ Wrapped s) :
    ∀ seg, s.active = some seg → seg.buf.length < 4294967296 := by
  intro seg ha
  have := buf_le_of_inv inv ha
  by_cases c : seg.buf.length = 4294967296
  · exact absurd ⟨seg, ha, by omega, c⟩ nw
  · omega

/-- FINDING (4 GiB wrap of `curr_addr`): in the `Wrapped` state the rewrite of a placed, non-empty statement
at an address above 0 takes the map branch, where `put` reports freshly filled addresses and the
`assert_eq!(n, 0)` fires. -/
theorem rewrite_wrapped_panics {s : State} (inv : Inv s) {seg : Active} (ha : s.active = some seg)
    (hb : seg.base = 0) (hl : seg.buf.length = 4294967296) (addr : Nat) (d : List UInt8)
    (hp : (addr, d.length) ∈ s.pending) (h0 : 0 < addr) (hd : d ≠ []) :
    (rewrite s addr d).2 = .panic := by
  obtain ⟨a1, a2, a3, a4⟩ := inv.2.1 seg ha
  have hdl : 0 < d.length := List.length_pos_iff.mpr hd
  have hmax : seg.maxLen = 4294967296 := by omega
  have hfree : ∀ k, k < 4294967296 → abs s.map k = none := fun k hk => a4 k (by omega) (by omega)
  have hrange : addr + d.length ≤ 4294967296 := by
    rcases inv.2.2 _ hp with h | ⟨sg, hs, h1, h2⟩
    · have h1 := h addr (Nat.le_refl _) (by show addr < addr + d.length; omega)
      by_cases c : addr < 4294967296
      · rw [hfree addr c] at h1; simp at h1
      · rw [abs_none_of_ge inv.1 (by omega)] at h1; simp at h1
    · rw [ha] at hs; cases hs
      have h2 : addr + d.length ≤ seg.base + seg.buf.length := h2
      omega
  have hf : Map.find s.map addr .exact = .ok none := by
    rcases find_exact_spec inv.1 addr with ⟨_, hf, _⟩ | ⟨j, sg, hj, _, _, h1, h2⟩
    · exact hf
    · obtain ⟨b1, _⟩ := abs_of_idx inv.1 hj
      have := b1 addr h1 h2
      rw [hfree addr (by omega), List.getElem?_eq_getElem (by omega)] at this
      cases this
  obtain ⟨p1, _, _⟩ := put_refines_aux s.map addr d inv.1 hrange
  rw [fresh_all_none _ _ _ (fun k hk => hfree _ (by omega))] at p1
  have hcur : seg.cur = 0 := by unfold Active.cur; rw [hb, hl]; rfl
  unfold rewrite
  rw [hf, ha]
  dsimp only
  rw [if_neg (by rw [hcur]; omega)]
  rcases hput : Map.put s.map addr d with ⟨r, m'⟩
  rw [hput] at p1
  simp only at p1
  subst p1
  simp only
  rw [if_neg (by omega)]

/-! ### histories -/

/-- the state after a sequence of operations -/
def run (s : State) (ops : List Op) : State := ops.foldl (fun s op => (step s op).1) s

/-- the outcomes of a sequence of operations -/
def outs : State → List Op → List Out
  | _, [] => []
  | s, op :: r => (step s op).2 :: outs (step s op).1 r

theorem run_cons (s : State) (op : Op) (r : List Op) : run s (op :: r) = run (step s op).1 r := rfl

def Op.isRewrite : Op → Prop
  | .rewrite _ _ => True
  | _ => False

/-- a history a program can produce: every operation is well-formed in the state it is issued in (selected
addresses are `u32`, alignments positive, a rewrite targets a statement of the ghost list `pending` with the
length it was placed with), and no rewrite is issued in the `Wrapped` state -/
def Legal : State → List Op → Prop
  | _, [] => True
  | s, op :: r => Op.wf s op ∧ (op.isRewrite → ¬ Wrapped s) ∧ Legal (step s op).1 r

/-- one legal step: no panic, invariant kept -/
theorem legal_step {s : State} (inv : Inv s) (op : Op) (wf : Op.wf s op) (g : op.isRewrite → ¬ Wrapped s) :
    (step s op).2 ≠ .panic ∧ Inv (step s op).1 := by
  cases op with
  | rewrite a d =>
    have h := rewrite_spec inv a d wf (small_of_inv inv (g trivial))
    refine ⟨?_, h.2.1⟩
    show (rewrite s a d).2 ≠ .panic
    rw [h.1]; simp
  | select a => exact ⟨(step_nonrewrite inv _ wf (fun _ _ h => by cases h)).1, (step_nonrewrite inv _ wf (fun _ _ h => by cases h)).2.1⟩
  | append d => exact ⟨(step_nonrewrite inv _ wf (fun _ _ h => by cases h)).1, (step_nonrewrite inv _ wf (fun _ _ h => by cases h)).2.1⟩
  | align n => exact ⟨(step_nonrewrite inv _ wf (fun _ _ h => by cases h)).1, (step_nonrewrite inv _ wf (fun _ _ h => by cases h)).2.1⟩
  | place d => exact ⟨(step_nonrewrite inv _ wf (fun _ _ h => by cases h)).1, (step_nonrewrite inv _ wf (fun _ _ h => by cases h)).2.1⟩
  | close => exact ⟨(step_nonrewrite inv _ wf (fun _ _ h => by cases h)).1, (step_nonrewrite inv _ wf (fun _ _ h => by cases h)).2.1⟩

theorem run_inv (ops : List Op) : ∀ (s : State), Inv s → Legal s ops →
    Inv (run s ops) ∧ ∀ o ∈ outs s ops, o ≠ .panic := by
  induction ops with
  | nil => intro s inv _; exact ⟨inv, fun o ho => by cases ho⟩
  | cons op r ih =>
    intro s inv lg
    obtain ⟨h1, h2⟩ := legal_step inv op lg.1 lg.2.1
    obtain ⟨i1, i2⟩ := ih _ h2 lg.2.2
    refine ⟨i1, fun o ho => ?_⟩
    rcases List.mem_cons.mp ho with h | h
    · rw [h]; exact h1
    · exact i2 o h

/-- one legal step changes a present byte only if it is a rewrite covering it -/
theorem legal_step_keeps {s : State} (inv : Inv s) (op : Op) (wf : Op.wf s op) (g : op.isRewrite → ¬ Wrapped s)
    (k : Nat) (hk : (image s k).isSome = true) (hno : ∀ a d, op = .rewrite a d → ¬ (a ≤ k ∧ k < a + d.length)) :
    image (step s op).1 k = image s k := by
  cases op with
  | rewrite a d =>
    exact (rewrite_spec inv a d wf (small_of_inv inv (g trivial))).2.2.1 k (hno a d rfl)
  | select a => exact (step_nonrewrite inv _ wf (fun _ _ h => by cases h)).2.2 k hk
  | append d => exact (step_nonrewrite inv _ wf (fun _ _ h => by cases h)).2.2 k hk
  | align n => exact (step_nonrewrite inv _ wf (fun _ _ h => by cases h)).2.2 k hk
  | place d => exact (step_nonrewrite inv _ wf (fun _ _ h => by cases h)).2.2 k hk
  | close => exact (step_nonrewrite inv _ wf (fun _ _ h => by cases h)).2.2 k hk

theorem run_keeps (ops : List Op) : ∀ (s : State), Inv s → Legal s ops → ∀ (k : Nat),
    (image s k).isSome = true → (∀ a d, Op.rewrite a d ∈ ops → ¬ (a ≤ k ∧ k < a + d.length)) →
    image (run s ops) k = image s k := by
  induction ops with
  | nil => intro s _ _ k _ _; rfl
  | cons op r ih =>
    intro s inv lg k hk hno
    have h1 := legal_step_keeps inv op lg.1 lg.2.1 k hk (fun a d e => hno a d (by rw [e]; exact List.mem_cons_self ..))
    have h2 := (legal_step inv op lg.1 lg.2.1).2
    rw [run_cons, ih _ h2 lg.2.2 k (by rw [h1]; exact hk) (fun a d e => hno a d (List.mem_cons_of_mem _ e)), h1]

end Trion.Seg
