import TrionModel.Lemmas.AsmFile
import TrionModel.Lemmas.AsmLoud
import TrionModel.Lemmas.AsmLayout
/-!
# The region history of a whole run, and its replay on the layout core of C05
-/
namespace Trion.Asm
open Trion Trion.SegLayout

/-- the region operations of a history on the layout core -/
def lfold (l : Layout.State) : List (Seg.Op × Seg.Out) → Except Layout.Fail Layout.State
  | [] => .ok l
  | (op, _) :: tr =>
    match lstep l op with
    | .ok l' => lfold l' tr
    | .error e => .error e

/-- a history without diagnostics replays on the layout core, operation by operation -/
theorem path_sim {s s' : Seg.State} {tr : List (Seg.Op × Seg.Out)} (hp : Path s tr s') (hd : diags tr = 0)
    {l : Layout.State} (r : R s l) :
    ∃ l', lfold l tr = .ok l' ∧ R s' l' ∧ l'.env = l.env ∧ l'.tasks = l.tasks := by
  induction hp generalizing l with
  | nil s => exact ⟨l, rfl, r, rfl, rfl⟩
  | cons inv wf hstep hnp _ ih =>
    rename_i s0 s1 s2 op o tr' _
    have hd' : isDiag o = false ∧ diags tr' = 0 := by
      simp only [diags, List.filter_cons] at hd
      cases ho : isDiag o with
      | true => simp [ho] at hd
      | false => simp only [ho] at hd; exact ⟨rfl, by simpa [diags] using hd⟩
    have hok : ∀ e, o ≠ .diag e := fun e he => by rw [he] at hd'; simp [isDiag] at hd'
    obtain ⟨l1, h1, r1, e1, t1⟩ := step_sim inv r op wf hstep hok
    obtain ⟨l', h2, r2, e2, t2⟩ := ih hd'.2 r1
    exact ⟨l', by simp only [lfold, h1]; exact h2, r2, e2.trans e1, t2.trans t1⟩

theorem finalize_traced {enc : Encoder} (henc : EncLen enc) {st st' : St} {fin : Bool} (h : Good false st)
    (hf : finalize enc Env.init st = .ok (st', fin)) : Traced st st' := by
  unfold finalize at hf
  have gc := good_clearGlobal h
  have gl := globalLoop_safe henc (env := Env.init) rfl rounds st.globalTasks _ gc.1
    (fun t m => ⟨h.gt t m, (h.top rfl).2.2 t m⟩)
  split at hf
  · rename_i st2 ab hl
    cases hf
    exact gc.2.2.2.trans (gl.2 _ _ hl).2.2.2
  · cases hf

/-- the regions of a finished run are reached from the empty ones by a legal history of region operations in
which every diagnostic is accounted for by a recorded error; a successful run has recorded none -/
theorem run_history {enc : Encoder} (henc : EncLen enc) (fs : Bytes → Option Bytes) (main : Bytes) (o : Outcome)
    (h : runWith enc fs main = .done o) (hs : o.success = true) :
    ∃ (tr : List (Seg.Op × Seg.Out)) (s' : Seg.State), Path Seg.init tr s' ∧ diags tr = 0 ∧ s'.map = o.image := by
  unfold runWith at h
  split at h
  · cases h
  · rename_i data _
    have af := assembleFile_safe henc fs maxDepth false Env.init St.init data main good_init
    split at h
    · rename_i st res ha
      obtain ⟨g, e⟩ := af.2 _ _ ha
      obtain ⟨tr1, p1, c1⟩ := e.2.2
      have hc := Seg.step_nonrewrite g.inv .close trivial (fun _ _ e => by cases e)
      have hcs := Seg.close_spec g.inv
      split at h
      · cases h; simp [Outcome.success] at hs
      · cases h
      · rename_i s1 o1 hnd hnp hcl
        have hclose : Seg.step st.seg .close = (s1, o1) := hcl
        rw [hcl] at hcs
        simp only at hcs
        have g' : Good false { st with seg := s1 } := good_setSeg g hcs.2.1 (by rw [hcs.2.2.2.2]; exact fun _ x => x)
        split at h
        · rename_i st' fin hf
          cases h
          obtain ⟨tr2, p2, c2⟩ := finalize_traced henc g' hf
          have hfin : fin = true := by simpa [Outcome.success] using hs
          have herr : st'.errors = [] := (finalize_grew hf).2.mp hfin
          have pclose : Path st.seg [(.close, o1)] s1 :=
            .cons g.inv trivial hclose (by rw [hcs.1]; simp) (.nil _)
          refine ⟨tr1 ++ [(Seg.Op.close, o1)] ++ tr2, st'.seg, (show Path Seg.init _ _ from (p1.append pclose).append p2), ?_, rfl⟩
          · rw [herr] at c2
            simp only [List.length_nil] at c2
            have : diags [(Seg.Op.close, o1)] = 0 := by rw [hcs.1]; simp [diags, isDiag]
            simp only [St.init, List.length_nil] at c1
            rw [diags_append, diags_append, this]
            omega
        all_goals cases h
    all_goals cases h

end Trion.Asm
