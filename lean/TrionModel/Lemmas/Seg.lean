import TrionModel.Model.Seg
import TrionModel.Lemmas.Map
/-!
# Output regions: image, invariant and helper lemmas
-/
namespace Trion.Seg
open Trion.Map Trion.Dict

/-- the bytes that will be output: the active buffer laid over the closed map -/
def image (s : State) : Dict := fun k =>
  match s.active with
  | some seg => if seg.base ≤ k ∧ k < seg.base + seg.buf.length then seg.buf[k - seg.base]? else abs s.map k
  | none => abs s.map k

/-- a placed statement lives entirely in the closed map or entirely in the active buffer -/
def Placed (s : State) (p : Nat × Nat) : Prop :=
  (∀ k, p.1 ≤ k → k < p.1 + p.2 → (abs s.map k).isSome) ∨
  (∃ seg, s.active = some seg ∧ seg.base ≤ p.1 ∧ p.1 + p.2 ≤ seg.base + seg.buf.length)

/-- the active region: buffer within capacity, capacity within the address space, and no closed byte inside
the capacity (`base + maxLen ≤` next occupied address) -/
def ActiveOk (m : Segs) (seg : Active) : Prop :=
  seg.buf.length ≤ seg.maxLen ∧ seg.base + seg.maxLen ≤ 4294967296 ∧
  ∀ k, seg.base ≤ k → k < seg.base + seg.maxLen → abs m k = none

def Inv (s : State) : Prop :=
  MInv s.map ∧ (∀ seg, s.active = some seg → ActiveOk s.map seg) ∧
  ∀ p ∈ s.pending, 0 < p.2 ∧ Placed s p

end Trion.Seg
