import TrionModel.Model.Seg
import TrionModel.Lemmas.MapPut
import TrionModel.Lemmas.MapFind
/-!
# Output regions: image, invariant and helper lemmas
-/
namespace Trion.Seg
open Trion.Map Trion.Dict

/-- the bytes that will be output: the active buffer laid over the closed map -/
def image (s : State) : Dict := fun k =>
  match s.active with
  | some seg => if seg.base ≤ k ∧ k < seg.base + seg.buf.length then seg.buf[k - seg.base]? else abs s.map k
  | none => abs s.map k

/-- a placed statement lives entirely in the closed map or entirely in the active buffer -/
def Placed (s : State) (p : Nat × Nat) : Prop :=
  (∀ k, p.1 ≤ k → k < p.1 + p.2 → (abs s.map k).isSome = true) ∨
  (∃ seg, s.active = some seg ∧ seg.base ≤ p.1 ∧ p.1 + p.2 ≤ seg.base + seg.buf.length)

/-- the active region: buffer within capacity, capacity within the address space, and no closed byte inside
the capacity (`base + maxLen ≤` next occupied address) -/
def ActiveOk (m : Segs) (seg : Active) : Prop :=
  seg.buf.length ≤ seg.maxLen ∧ seg.base + seg.maxLen ≤ 4294967296 ∧ 0 < seg.maxLen ∧
  ∀ k, seg.base ≤ k → k < seg.base + seg.maxLen → abs m k = none

def Inv (s : State) : Prop :=
  MInv s.map ∧ (∀ seg, s.active = some seg → ActiveOk s.map seg) ∧ ∀ p ∈ s.pending, Placed s p

/-- the operations a program can issue in state `s`: addresses are `u32`, alignments positive, and a rewrite
only targets a statement that was placed (with the length it was placed with) -/
def Op.wf (s : State) : Op → Prop
  | .select a => a ≤ u32Max
  | .align n => 0 < n
  | .rewrite addr d => (addr, d.length) ∈ s.pending
  | _ => True

theorem fresh_all_none (D : Dict) (a n : Nat) (h : ∀ k, k < n → D (a + k) = none) : fresh D a n = n := by
  induction n with
  | zero => simp [fresh]
  | succ n ih =>
    rw [fresh_succ, ih (fun k hk => h k (by omega)), h n (by omega)]; simp

theorem fresh_all_some (D : Dict) (a n : Nat) (h : ∀ k, k < n → (D (a + k)).isSome = true) : fresh D a n = 0 := by
  induction n with
  | zero => simp [fresh]
  | succ n ih =>
    rw [fresh_succ, ih (fun k hk => h k (by omega)), h n (by omega)]; simp

theorem fresh_zero_imp (D : Dict) (a n : Nat) (h : fresh D a n = 0) : ∀ k, k < n → (D (a + k)).isSome = true := by
  induction n with
  | zero => intro k hk; omega
  | succ n ih =>
    rw [fresh_succ] at h
    intro k hk
    by_cases c : k = n
    · subst c
      by_cases hs : (D (a + k)).isSome = true
      · exact hs
      · rw [if_neg hs] at h; omega
    · exact ih (by omega) k (by omega)

/-- under the invariant, closing the active region moves its buffer into the map and cannot fail -/
theorem close_ok {s : State} {seg : Active} (inv : Inv s) (ha : s.active = some seg) :
    closeSegment s = ({ s with map := (Map.put s.map seg.base seg.buf).2, active := none }, .ok) ∧
    MInv (Map.put s.map seg.base seg.buf).2 ∧
    abs (Map.put s.map seg.base seg.buf).2 = Dict.put (abs s.map) seg.base seg.buf := by
  obtain ⟨i1, i2, _⟩ := inv
  obtain ⟨a1, a2, _, a3⟩ := i2 seg ha
  obtain ⟨p1, p2, p3⟩ := put_refines_aux s.map seg.base seg.buf i1 (by omega)
  refine ⟨?_, p2, p3⟩
  unfold closeSegment
  rw [ha]
  have hf : fresh (abs s.map) seg.base seg.buf.length = seg.buf.length :=
    fresh_all_none _ _ _ (fun k hk => a3 _ (by omega) (by omega))
  rw [hf] at p1
  rcases hp : Map.put s.map seg.base seg.buf with ⟨r, m'⟩
  rw [hp] at p1
  simp only at p1
  subst p1
  simp only [hp]
  simp

theorem image_none {s : State} (h : s.active = none) : image s = abs s.map := by
  funext k; simp [image, h]

theorem close_spec {s : State} (inv : Inv s) :
    (closeSegment s).2 = .ok ∧ Inv (closeSegment s).1 ∧ (closeSegment s).1.active = none ∧
    abs (closeSegment s).1.map = image s ∧ (closeSegment s).1.pending = s.pending := by
  cases ha : s.active with
  | none =>
    have : closeSegment s = (s, .ok) := by unfold closeSegment; rw [ha]
    rw [this]
    exact ⟨rfl, inv, ha, (image_none ha).symm, rfl⟩
  | some seg =>
    obtain ⟨c1, c2, c3⟩ := close_ok inv ha
    rw [c1]
    refine ⟨rfl, ⟨c2, fun sg h => by simp at h, fun p hp => ?_⟩, rfl, ?_, rfl⟩
    · left
      intro k k1 k2
      show (abs (Map.put s.map seg.base seg.buf).2 k).isSome = true
      rw [c3, put_apply]
      rcases inv.2.2 p hp with h | ⟨sg, h1, h2, h3⟩
      · by_cases c : seg.base ≤ k ∧ k < seg.base + seg.buf.length
        · rw [if_pos c, List.getElem?_eq_getElem (by omega)]; rfl
        · rw [if_neg c]; exact h k k1 k2
      · rw [ha] at h1; cases h1
        rw [if_pos (by omega), List.getElem?_eq_getElem (by omega)]; rfl
    · show abs (Map.put s.map seg.base seg.buf).2 = image s
      rw [c3]; funext k; simp only [image, ha, put_apply]

theorem open_spec {s : State} (inv : Inv s) (hn : s.active = none) (a : Nat) (ha : a ≤ u32Max) :
    ((abs s.map a).isSome = true ∧ openSegment s a = (s, .diag (.occupied a))) ∨
    (abs s.map a = none ∧ ∃ n, openSegment s a = ({ s with active := some ⟨a, [], n⟩ }, .ok) ∧
      0 < n ∧ a + n ≤ 4294967296 ∧ ∀ k, a ≤ k → k < a + n → abs s.map k = none) := by
  unfold openSegment
  unfold u32Max at ha
  rcases find_above_spec inv.1 a with ⟨h1, h2⟩ | ⟨j, sg, h0, h1, h2⟩
  · right
    rw [h1]
    refine ⟨h2 a (Nat.le_refl _), u32Max - a + 1, rfl, by omega, by unfold u32Max; omega, fun k k1 _ => h2 k k1⟩
  · rw [h1]
    obtain ⟨a1, _, _, a4, a5⟩ := abs_of_idx inv.1 h0
    rcases h2 with ⟨h3, h4⟩ | ⟨h3, h4⟩
    · left
      simp only [h3, if_true, and_true]
      rw [a1 a h3 h4, List.getElem?_eq_getElem (by omega)]; rfl
    · right
      have hx : 0 < sg.2.length := List.length_pos_iff.mpr a4
      simp only [show ¬ (sg.1 ≤ a) by omega, if_false]
      refine ⟨h4 a (Nat.le_refl _) h3, sg.1 - a, rfl, by omega, by omega, fun k k1 k2 => h4 k k1 (by omega)⟩

/-- what a region selection does, stated for a state whose previous region is already closed -/
theorem open_full {s : State} (inv : Inv s) (hn : s.active = none) (a : Nat) (ha : a ≤ u32Max) :
    Inv (openSegment s a).1 ∧ image (openSegment s a).1 = image s ∧ (openSegment s a).1.pending = s.pending ∧
    (((image s a).isSome = true ∧ (openSegment s a).2 = .diag (.occupied a) ∧ (openSegment s a).1 = s) ∨
     (image s a = none ∧ (openSegment s a).2 = .ok ∧
        ∃ seg, (openSegment s a).1.active = some seg ∧ seg.base = a ∧ seg.buf = [])) := by
  rw [image_none hn]
  rcases open_spec inv hn a ha with ⟨h1, h2⟩ | ⟨h1, n, h2, h3, h4, h5⟩
  · rw [h2]; exact ⟨inv, image_none hn, rfl, Or.inl ⟨h1, rfl, rfl⟩⟩
  · rw [h2]
    refine ⟨⟨inv.1, fun sg hs => ?_, fun p hp => ?_⟩, ?_, rfl, Or.inr ⟨h1, rfl, _, rfl, rfl, rfl⟩⟩
    · simp only [Option.some.injEq] at hs; subst hs
      exact ⟨Nat.zero_le _, h4, h3, h5⟩
    · rcases inv.2.2 p hp with h | ⟨sg, hs, _⟩
      · exact Or.inl h
      · rw [hn] at hs; cases hs
    · funext k; simp [image]; omega

theorem select_spec {s : State} (inv : Inv s) (a : Nat) (ha : a ≤ u32Max) :
    Inv (changeSegment s a).1 ∧ image (changeSegment s a).1 = image s ∧
    (changeSegment s a).1.pending = s.pending ∧
    (((image s a).isSome = true ∧ (changeSegment s a).2 = .diag (.occupied a)) ∨
     (image s a = none ∧ (changeSegment s a).2 = .ok ∧
        ∃ seg, (changeSegment s a).1.active = some seg ∧ seg.base = a ∧ seg.buf = [])) := by
  cases hact : s.active with
  | none =>
    have : changeSegment s a = openSegment s a := by unfold changeSegment; rw [hact]
    rw [this]
    obtain ⟨o1, o2, o3, o4⟩ := open_full inv hact a ha
    refine ⟨o1, o2, o3, ?_⟩
    rcases o4 with ⟨h1, h2, _⟩ | h
    · exact Or.inl ⟨h1, h2⟩
    · exact Or.inr h
  | some seg =>
    by_cases c : a = seg.base ∧ seg.buf.isEmpty = true
    · have : changeSegment s a = (s, .ok) := by unfold changeSegment; rw [hact]; simp only [c, and_self, if_true]
      rw [this]
      obtain ⟨a1, a2, a3, a4⟩ := inv.2.1 seg hact
      have hb : seg.buf = [] := List.isEmpty_iff.mp c.2
      refine ⟨inv, rfl, rfl, Or.inr ⟨?_, rfl, seg, hact, c.1.symm, hb⟩⟩
      simp only [image, hact, hb, List.length_nil, Nat.add_zero]
      rw [if_neg (by omega)]
      exact a4 a (by omega) (by omega)
    · obtain ⟨c1, c2, c3, c4, c5⟩ := close_spec inv
      have : changeSegment s a = openSegment (closeSegment s).1 a := by
        unfold changeSegment; rw [hact]; simp only [c, if_false]
        rcases hcl : closeSegment s with ⟨s', o⟩
        rw [hcl] at c1; simp only at c1; subst c1; rfl
      rw [this]
      obtain ⟨o1, o2, o3, o4⟩ := open_full c2 c3 a ha
      rw [image_none c3, c4] at o2 o4
      refine ⟨o1, o2, o3.trans c5, ?_⟩
      rcases o4 with ⟨h1, h2, _⟩ | h
      · exact Or.inl ⟨h1, h2⟩
      · exact Or.inr h

theorem write_spec {m : Segs} {seg : Active} (ok : ActiveOk m seg) (d : List UInt8) :
    (seg.buf.length + d.length ≤ seg.maxLen ∧ seg.write d = ({ seg with buf := seg.buf ++ d }, .ok)) ∨
    (seg.buf.length + d.length > seg.maxLen ∧
      seg.write d = (seg, .diag (.overflow d.length (seg.maxLen - seg.buf.length)))) := by
  unfold Active.write Active.remaining
  rw [if_pos ok.1]
  by_cases c : d.length ≤ seg.maxLen - seg.buf.length
  · left; refine ⟨by have := ok.1; omega, ?_⟩; simp only [c, if_true]
  · right; refine ⟨by omega, ?_⟩; simp only [c, if_false]

/-- appending `d` to the active buffer (it fits): invariant kept, nothing already emitted changes, the new
bytes land exactly at the old cursor `base + |buf|` -/
theorem grow_spec {s : State} {seg : Active} (inv : Inv s) (ha : s.active = some seg) (d : List UInt8)
    (fits : seg.buf.length + d.length ≤ seg.maxLen) (extra : List (Nat × Nat))
    (hex : ∀ p ∈ extra, seg.base ≤ p.1 ∧ p.1 + p.2 ≤ seg.base + seg.buf.length + d.length) :
    let s' : State := { s with active := some { seg with buf := seg.buf ++ d }, pending := extra ++ s.pending }
    Inv s' ∧ (∀ k, (image s k).isSome = true → image s' k = image s k) ∧
    (∀ k, ¬ (seg.base + seg.buf.length ≤ k ∧ k < seg.base + seg.buf.length + d.length) → image s' k = image s k) ∧
    (∀ i, i < d.length → image s' (seg.base + seg.buf.length + i) = d[i]?) := by
  intro s'
  obtain ⟨a1, a2, a3, a4⟩ := inv.2.1 seg ha
  have himg : ∀ k, ¬ (seg.base + seg.buf.length ≤ k ∧ k < seg.base + seg.buf.length + d.length) →
      image s' k = image s k := by
    intro k hk
    simp only [image, s', ha, List.length_append]
    by_cases c : seg.base ≤ k ∧ k < seg.base + seg.buf.length
    · rw [if_pos (by omega), if_pos c, List.getElem?_append_left (by omega)]
    · rw [if_neg (by omega), if_neg c]
  refine ⟨⟨inv.1, fun sg hs => ?_, fun p hp => ?_⟩, fun k hk => himg k ?_, himg, fun i hi => ?_⟩
  · simp only [s', Option.some.injEq] at hs; subst hs
    exact ⟨by simp only [List.length_append]; omega, a2, a3, a4⟩
  · simp only [s', List.mem_append] at hp
    rcases hp with hp | hp
    · right; exact ⟨_, rfl, (hex p hp).1, by simp only [List.length_append]; have := (hex p hp).2; omega⟩
    · rcases inv.2.2 p hp with h | ⟨sg, hs, h1, h2⟩
      · exact Or.inl h
      · rw [ha] at hs; cases hs
        right; exact ⟨_, rfl, h1, by simp only [List.length_append]; omega⟩
  · intro hc
    simp only [image, ha] at hk
    rw [if_neg (by omega), a4 k (by omega) (by omega)] at hk
    simp at hk
  · simp only [image, s', List.length_append]
    rw [if_pos (by omega), List.getElem?_append_right (by omega)]
    congr 1; omega

theorem eta_active {s : State} {seg : Active} (h : s.active = some seg) : { s with active := some seg } = s := by
  cases s; simp_all

theorem cur_bounds (seg : Active) (hb : seg.base ≤ u32Max) : seg.base ≤ seg.cur ∧ seg.cur ≤ seg.base + seg.buf.length := by
  unfold Active.cur u32Max at *
  omega

/-- every operation except a rewrite: no panic, invariant kept, nothing already emitted changes -/
theorem step_nonrewrite {s : State} (inv : Inv s) (op : Op) (wf : Op.wf s op)
    (hop : ∀ a d, op ≠ .rewrite a d) :
    (step s op).2 ≠ .panic ∧ Inv (step s op).1 ∧
    ∀ k, (image s k).isSome = true → image (step s op).1 k = image s k := by
  cases op with
  | rewrite a d => exact absurd rfl (hop a d)
  | select a =>
    obtain ⟨h1, h2, _, h4⟩ := select_spec inv a wf
    refine ⟨?_, h1, fun k _ => by rw [show step s (.select a) = changeSegment s a from rfl, h2]⟩
    show (changeSegment s a).2 ≠ .panic
    rcases h4 with ⟨_, h⟩ | ⟨_, h, _⟩ <;> rw [h] <;> simp
  | close =>
    obtain ⟨c1, c2, c3, c4, _⟩ := close_spec inv
    refine ⟨by show (closeSegment s).2 ≠ .panic; rw [c1]; simp, c2, fun k _ => ?_⟩
    show image (closeSegment s).1 k = image s k
    rw [image_none c3, c4]
  | append d =>
    cases ha : s.active with
    | none => simp only [step, ha]; exact ⟨by simp, inv, by intros; first | rfl | trivial⟩
    | some seg =>
      have ok := inv.2.1 seg ha
      simp only [step, ha]
      rcases write_spec ok d with ⟨f1, f2⟩ | ⟨f1, f2⟩
      · rw [f2]
        obtain ⟨g1, g2, _, _⟩ := grow_spec inv ha d f1 [] (fun p hp => by simp at hp)
        exact ⟨by simp, g1, g2⟩
      · rw [f2]; simp only [eta_active ha]
        exact ⟨by simp, inv, by intros; first | rfl | trivial⟩
  | place d =>
    cases ha : s.active with
    | none => simp only [step, ha]; exact ⟨by simp, inv, by intros; first | rfl | trivial⟩
    | some seg =>
      have ok := inv.2.1 seg ha
      simp only [step, ha]
      rcases write_spec ok d with ⟨f1, f2⟩ | ⟨f1, f2⟩
      · rw [f2]
        have hb : seg.base ≤ u32Max := by unfold u32Max; have := ok.2.1; have := ok.2.2.1; omega
        obtain ⟨g1, g2, _, _⟩ := grow_spec inv ha d f1 [(seg.cur, d.length)] (fun p hp => by
          simp only [List.mem_singleton] at hp; subst hp
          have := cur_bounds seg hb; simp only; omega)
        exact ⟨by simp, g1, g2⟩
      · rw [f2]; simp only [eta_active ha]
        exact ⟨by simp, inv, by intros; first | rfl | trivial⟩
  | align n =>
    cases ha : s.active with
    | none => simp only [step, ha]; exact ⟨by simp, inv, by intros; first | rfl | trivial⟩
    | some seg =>
      have ok := inv.2.1 seg ha
      simp only [step, ha]
      by_cases c0 : (seg.base + seg.buf.length) % n = 0
      · simp only [c0, if_true]; exact ⟨by simp, inv, by intros; first | rfl | trivial⟩
      · simp only [c0, if_false]
        have hr : seg.remaining = some (seg.maxLen - seg.buf.length) := by
          unfold Active.remaining; rw [if_pos ok.1]
        rw [hr]; simp only
        by_cases c1 : n - (seg.base + seg.buf.length) % n ≤ seg.maxLen - seg.buf.length
        · simp only [c1, if_true]
          rcases write_spec ok (List.replicate (n - (seg.base + seg.buf.length) % n) 0xBE) with ⟨f1, f2⟩ | ⟨f1, f2⟩
          · rw [f2]
            obtain ⟨g1, g2, _, _⟩ := grow_spec inv ha _ f1 [] (fun p hp => by simp at hp)
            exact ⟨by simp, g1, g2⟩
          · simp only [List.length_replicate] at f1; have := ok.1; omega
        · simp only [c1, if_false]; exact ⟨by simp, inv, by intros; first | rfl | trivial⟩
