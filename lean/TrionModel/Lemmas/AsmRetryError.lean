import TrionModel.Lemmas.AsmRetry
/-!
# The retry of a statement whose first attempt ended in an ERROR (Front level)

`ArmInstr::assemble` that fails with a diagnostic still leaves the instruction queued: the arguments evaluated so far,
`args_done`, and the operand stores made before the failing getter.  The end-of-file retry runs `assemble` on that state.

* A getter that stops after its evaluation prologue (type / range / register / address-form checks, `finish`'s range and
  alignment checks, argument-count checks) has advanced `args_done` past its position: the retry does not evaluate
  anything again and stops at the same getter with the SAME diagnostic, whatever the second evaluator is
  (`get_stop_cases`, `conv_retry_stop`, `assemble_retry_error`, first alternative).
* A getter that stops inside the evaluation prologue (`EvalError`) leaves `args_done` at the position: the retry evaluates
  the tree left behind, and stops with whatever that evaluation reports (second alternative) — what that is, is a
  question about the evaluator (Lemmas/SimpErrorAgain.lean).
-/
namespace Trion.Front
open Trion

/-! ## stores commute -/

set_option maxHeartbeats 16000000 in
theorem setOp_comm01 (i : Instr) (v w : Val) : setOp (setOp i 0 v) 1 w = setOp (setOp i 1 w) 0 v := by
  cases v <;> cases w <;> cases i <;> rfl
set_option maxHeartbeats 16000000 in
theorem setOp_comm02 (i : Instr) (v w : Val) : setOp (setOp i 0 v) 2 w = setOp (setOp i 2 w) 0 v := by
  cases v <;> cases w <;> cases i <;> rfl
set_option maxHeartbeats 16000000 in
theorem setOp_comm12 (i : Instr) (v w : Val) : setOp (setOp i 1 v) 2 w = setOp (setOp i 2 w) 1 v := by
  cases v <;> cases w <;> cases i <;> rfl

theorem setOp_comm (i : Instr) {p q : Nat} (hp : p < 3) (hq : q < 3) (hne : p ≠ q) (v w : Val) :
    setOp (setOp i p v) q w = setOp (setOp i q w) p v := by
  rcases p with _|_|_|p <;> rcases q with _|_|_|q <;> first | omega | skip
  · exact setOp_comm01 ..
  · exact setOp_comm02 ..
  · exact (setOp_comm01 ..).symm
  · exact setOp_comm12 ..
  · exact (setOp_comm02 ..).symm
  · exact (setOp_comm12 ..).symm

/-- the instruction already holds the store `(p, v)` -/
def Has (i : Instr) (p : Nat) (v : Val) : Prop := setOp i p v = i

theorem has_self (i : Instr) (p : Nat) (v : Val) : Has (setOp i p v) p v := setOp_idem i p v

theorem has_other {i : Instr} {p q : Nat} (hp : p < 3) (hq : q < 3) (hne : p ≠ q) {v : Val} (w : Val) (h : Has i p v) :
    Has (setOp i q w) p v := by
  unfold Has at h ⊢
  rw [← setOp_comm i hp hq hne, h]

/-! ## one getter -/

theorem post_stop {k : Kind} {pos : Nat} {a : Arg} {d : Nat} {a' : Arg} {d' : Nat} {r : Res}
    (h : post k pos a d = .stop a' d' r) : a' = a ∧ d' = d ∧ ∀ D, post k pos a D = .stop a D r := by
  cases k <;> simp only [post] at h ⊢
  all_goals (repeat' split at h)
  all_goals first | (cases h; done) | skip
  all_goals (cases h; simp_all)

theorem evalArg_ok_done {e : Arg → EvalOut} {l : Bool} {pos done : Nat} {a a' : Arg} {d' : Nat}
    (h : evalArg e l pos done a = .ok (a', d')) :
    done ≤ d' ∧ pos < d' ∧ ∀ e' l' D, d' ≤ D → evalArg e' l' pos D a' = .ok (a', D) := by
  unfold evalArg at h
  split at h
  · rename_i hd
    cases he : e a with
    | complete x =>
      rw [he] at h; simp only [Except.ok.injEq, Prod.mk.injEq] at h
      obtain ⟨rfl, rfl⟩ := h
      refine ⟨by omega, by omega, fun e' l' D hD => ?_⟩
      unfold evalArg; rw [if_neg (by omega)]
    | deferred c x => rw [he] at h; cases h
    | noSuchVariable n x => rw [he] at h; simp only at h; split at h <;> cases h
    | error er x => rw [he] at h; cases h
  · rename_i hd
    simp only [Except.ok.injEq, Prod.mk.injEq] at h
    obtain ⟨rfl, rfl⟩ := h
    refine ⟨Nat.le_refl _, by omega, fun e' l' D hD => ?_⟩
    unfold evalArg; rw [if_neg (by omega)]

theorem evalArg_error_done {e : Arg → EvalOut} {l : Bool} {pos done : Nat} {a a' : Arg} {r : Res}
    (h : evalArg e l pos done a = .error (a', r)) : done ≤ pos := by
  unfold evalArg at h
  split at h
  · assumption
  · cases h

/-- a getter that succeeded: on the argument it left and with any later `args_done` it succeeds again with the same value,
without evaluating -/
theorem get_ok_again {k : Kind} {e : Arg → EvalOut} {l : Bool} {pos done : Nat} {a : Arg} {v : Val} {a' : Arg} {d' : Nat}
    (h : get k e l pos done a = .ok v a' d') :
    done ≤ d' ∧ ∀ e' l' D, d' ≤ D → get k e' l' pos D a' = .ok v a' D := by
  cases hk : k.evals with
  | false =>
    obtain ⟨h1, h2, h3⟩ := (get_nonevals hk).1 _ _ _ h
    subst h1; subst h2
    exact ⟨Nat.le_refl _, fun e' l' D _ => h3 e' l' D⟩
  | true =>
    rw [get_eq_post k hk] at h
    cases he : evalArg e l pos done a with
    | error p => rw [he] at h; cases h
    | ok p =>
      obtain ⟨x, d⟩ := p
      rw [he] at h
      simp only at h
      obtain ⟨q1, q2, q3⟩ := post_ok h
      subst q1; subst q2
      obtain ⟨g1, _, g3⟩ := evalArg_ok_done he
      refine ⟨g1, fun e' l' D hD => ?_⟩
      rw [get_eq_post k hk, g3 e' l' D hD]
      exact q3 D

/-- a getter that stopped: either it stops again in the same way whatever the evaluator (its `args_done` is past the
evaluation), or it stopped inside the evaluation prologue -/
theorem get_stop_cases {k : Kind} {e : Arg → EvalOut} {l : Bool} {pos done : Nat} {a aL : Arg} {D : Nat} {r : Res}
    (h : get k e l pos done a = .stop aL D r) :
    done ≤ D ∧
    ((∀ e' l', get k e' l' pos D aL = .stop aL D r) ∨
     (k.evals = true ∧ D = done ∧ evalArg e l pos done a = .error (aL, r))) := by
  cases hk : k.evals with
  | false =>
    cases k <;> simp [Kind.evals] at hk
    all_goals
      simp only [get] at h
      repeat' split at h
      all_goals first | (cases h; done) | skip
      all_goals
        simp only [GetOut.stop.injEq] at h
        obtain ⟨rfl, rfl, rfl⟩ := h
        refine ⟨Nat.le_refl _, .inl fun e' l' => ?_⟩
        simp only [get]
        all_goals simp_all
  | true =>
    rw [get_eq_post k hk] at h
    cases he : evalArg e l pos done a with
    | error p =>
      obtain ⟨x, r'⟩ := p
      rw [he] at h
      simp only [GetOut.stop.injEq] at h
      obtain ⟨rfl, rfl, rfl⟩ := h
      exact ⟨Nat.le_refl _, .inr ⟨rfl, rfl, rfl⟩⟩
    | ok p =>
      obtain ⟨x, d⟩ := p
      rw [he] at h
      simp only at h
      obtain ⟨q1, q2, q3⟩ := post_stop h
      subst q1; subst q2
      obtain ⟨g1, _, g3⟩ := evalArg_ok_done he
      refine ⟨g1, .inl fun e' l' => ?_⟩
      rw [get_eq_post k hk, g3 e' l' D (Nat.le_refl _)]
      exact q3 D

/-! ## `convert!` -/

/-- a `convert!` that went through: re-run on what it left (arguments, any later `args_done`, the instruction with its
stores) it goes through again without evaluating, with the same values, and leaves everything as it is -/
theorem conv_ok_again (e₁ : Arg → EvalOut) (l : Bool) : ∀ (ks : List Kind) (pos : Nat) (pre rest : List Arg) (done : Nat)
    (instr : Instr) (vals : List Val) (A : List Arg) (D : Nat) (I : Instr) (V : List Val),
    pos + ks.length ≤ 3 →
    conv e₁ l ks pos pre rest done instr vals = .ok A D I V →
    kinds I = kinds instr ∧
    ∃ restA, A = pre.reverse ++ restA ∧ restA.length = rest.length ∧ done ≤ D ∧
      (∀ p v, p < pos → Has instr p v → Has I p v) ∧
      ∀ (e' : Arg → EvalOut) (l' : Bool) (D' : Nat), D ≤ D' → conv e' l' ks pos pre restA D' I vals = .ok A D' I V := by
  intro ks
  induction ks with
  | nil =>
    intro pos pre rest done instr vals A D I V _ h
    simp only [conv, ConvOut.ok.injEq] at h
    obtain ⟨rfl, rfl, rfl, rfl⟩ := h
    exact ⟨rfl, rest, rfl, rfl, Nat.le_refl _, fun _ _ _ h => h, fun _ _ _ _ => by simp only [conv]⟩
  | cons k ks ih =>
    intro pos pre rest done instr vals A D I V hlen h
    cases rest with
    | nil => simp only [conv] at h; cases h
    | cons a rest =>
      simp only [conv] at h
      cases hg : get k e₁ l pos done a with
      | stop a' d' r => rw [hg] at h; cases h
      | ok v a' d' =>
        rw [hg] at h
        simp only at h
        simp only [List.length_cons] at hlen
        obtain ⟨g1, g2⟩ := get_ok_again hg
        obtain ⟨r0, restA, r1, r2, r3, r4, r5⟩ := ih (pos + 1) (a' :: pre) rest d' (setOp instr pos v) (v :: vals) A D I V (by omega) h
        have hI : Has I pos v := r4 pos v (by omega) (has_self ..)
        refine ⟨by rw [r0, kinds_setOp], a' :: restA, by rw [r1]; simp, by simp [r2], Nat.le_trans g1 r3, fun p w hp hw => ?_, fun e' l' D' hD => ?_⟩
        · exact r4 p w (by omega) (has_other (by omega) (by omega) (by omega) v hw)
        · simp only [conv, g2 e' l' D' (Nat.le_trans r3 hD)]
          rw [hI]
          exact r5 e' l' D' hD

/-- a `convert!` that stopped: re-run on what it left, it either stops again in exactly the same way whatever the
evaluator, or it had stopped inside an evaluation and now stops with what the evaluation of the left tree reports -/
theorem conv_stop_again (e₁ : Arg → EvalOut) (l : Bool) : ∀ (ks : List Kind) (pos : Nat) (pre rest : List Arg) (done : Nat)
    (instr : Instr) (vals : List Val) (A : List Arg) (D : Nat) (I : Instr) (r : Res),
    pos + ks.length ≤ 3 →
    conv e₁ l ks pos pre rest done instr vals = .stop A D I r →
    kinds I = kinds instr ∧ done ≤ D ∧ (∀ p v, p < pos → Has instr p v → Has I p v) ∧
    ∃ restA, A = pre.reverse ++ restA ∧ restA.length = rest.length ∧
      ((∀ (e' : Arg → EvalOut) (l' : Bool), conv e' l' ks pos pre restA D I vals = .stop A D I r) ∨
       (∃ (p : Nat) (a aL : Arg) (preL restL : List Arg), a ∈ rest ∧ evalArg e₁ l p D a = .error (aL, r) ∧
          A = preL ++ aL :: restL ∧
          ∀ (e' : Arg → EvalOut) (l' : Bool) (aL' : Arg) (r' : Res), evalArg e' l' p D aL = .error (aL', r') →
            conv e' l' ks pos pre restA D I vals = .stop (preL ++ aL' :: restL) D I r')) := by
  intro ks
  induction ks with
  | nil => intro pos pre rest done instr vals A D I r _ h; simp [conv] at h
  | cons k ks ih =>
    intro pos pre rest done instr vals A D I r hlen h
    cases rest with
    | nil =>
      simp only [conv, ConvOut.stop.injEq] at h
      obtain ⟨rfl, rfl, rfl, rfl⟩ := h
      exact ⟨rfl, Nat.le_refl _, fun _ _ _ h => h, [], by simp, rfl, .inl fun _ _ => by simp only [conv]⟩
    | cons a rest =>
      simp only [conv] at h
      simp only [List.length_cons] at hlen
      cases hg : get k e₁ l pos done a with
      | stop a' d' r' =>
        rw [hg] at h
        simp only [ConvOut.stop.injEq] at h
        obtain ⟨rfl, rfl, rfl, rfl⟩ := h
        obtain ⟨g1, g2⟩ := get_stop_cases hg
        refine ⟨rfl, g1, fun _ _ _ h => h, a' :: rest, rfl, rfl, ?_⟩
        rcases g2 with g2 | ⟨hk, hD, he⟩
        · left
          intro e' l'
          simp only [conv, g2 e' l']
        · right
          subst hD
          refine ⟨pos, a, a', pre.reverse, rest, List.mem_cons_self, he, rfl, fun e' l' aL' r2 he' => ?_⟩
          simp only [conv]
          rw [get_eq_post k hk, he']
      | ok v a' d' =>
        rw [hg] at h
        simp only at h
        obtain ⟨g1, g2⟩ := get_ok_again hg
        obtain ⟨r0, r3, r4, restA, r1, r2, r5⟩ := ih (pos + 1) (a' :: pre) rest d' (setOp instr pos v) (v :: vals) A D I r (by omega) h
        have hI : Has I pos v := r4 pos v (by omega) (has_self ..)
        refine ⟨by rw [r0, kinds_setOp], Nat.le_trans g1 r3, fun p w hp hw => r4 p w (by omega) (has_other (by omega) (by omega) (by omega) v hw),
          a' :: restA, by rw [r1]; simp, by simp [r2], ?_⟩
        rcases r5 with r5 | ⟨p, x, xL, preL, restL, hx, hex, hA, r5⟩
        · left
          intro e' l'
          simp only [conv, g2 e' l' D r3]
          rw [hI]
          exact r5 e' l'
        · right
          refine ⟨p, x, xL, preL, restL, List.mem_cons_of_mem _ hx, hex, hA, fun e' l' aL' r2 he' => ?_⟩
          simp only [conv, g2 e' l' D r3]
          rw [hI]
          exact r5 e' l' aL' r2 he'

/-! ## `assemble` -/

/-- **the retry of an instruction whose first `assemble` ended with a diagnostic**.  Either the diagnostic came from a
check behind the evaluations (argument count, operand type / range / register / address form, branch and literal range
and alignment): then the re-run reports the SAME diagnostic and leaves the state as it is, whatever the second evaluator
and `local` flag — it never completes; or it came out of the evaluation of one operand `a` (an `EvalError`, or
`NoSuchVariable` with `local = false`), which left the tree `aL`: then the re-run evaluates `aL`, and if that evaluation
fails again the re-run stops with that failure, with the same instruction and `args_done`. -/
theorem assemble_retry_error (e₁ : Arg → EvalOut) (l : Bool) (addr : Nat) (t : Instr) (args : List Arg) (fs1 : St) (d : Diag)
    (h1 : assemble ⟨addr, t, 0, args⟩ e₁ l = (fs1, .error d)) :
    (∀ (e₂ : Arg → EvalOut) (loc : Bool), assemble fs1 e₂ loc = (fs1, .error d)) ∨
    (∃ (p : Nat) (a aL : Arg) (preL restL : List Arg), a ∈ args ∧ evalArg e₁ l p fs1.argsDone a = .error (aL, .error d) ∧
      fs1.args = preL ++ aL :: restL ∧
      ∀ (e₂ : Arg → EvalOut) (loc : Bool) (aL' : Arg) (r' : Res), evalArg e₂ loc p fs1.argsDone aL = .error (aL', r') →
        assemble fs1 e₂ loc = ({ fs1 with args := preL ++ aL' :: restL }, r')) := by
  unfold assemble at h1
  simp only at h1
  by_cases c1 : args.length > (kinds t).length
  · rw [if_pos c1] at h1
    simp only [Prod.mk.injEq] at h1
    obtain ⟨rfl, h2⟩ := h1
    left; intro e₂ loc
    unfold assemble
    simp only [c1, if_true, h2]
  rw [if_neg c1] at h1
  by_cases c2 : args.length < (kinds t).length
  · rw [if_pos c2] at h1
    simp only [Prod.mk.injEq] at h1
    obtain ⟨rfl, h2⟩ := h1
    left; intro e₂ loc
    unfold assemble
    simp only [c1, c2, if_true, if_false, h2]
  rw [if_neg c2] at h1
  have hk3 := kinds_le_three t
  cases hc : conv e₁ l (kinds t) 0 [] args 0 t [] with
  | ok A D I V =>
    rw [hc] at h1
    simp only at h1
    cases hf : finish addr I V (kinds t).length with
    | ok i => rw [hf] at h1; cases h1
    | error d' =>
      rw [hf] at h1
      simp only [Prod.mk.injEq, Res.error.injEq] at h1
      obtain ⟨rfl, rfl⟩ := h1
      obtain ⟨hkI, restA, r1, r2, _, _, r5⟩ := conv_ok_again e₁ l (kinds t) 0 [] args 0 t [] A D I V (by omega) hc
      simp only [List.reverse_nil, List.nil_append] at r1
      subst r1
      left; intro e₂ loc
      unfold assemble
      simp only [hkI, r2, c1, c2, if_false, r5 e₂ loc D (Nat.le_refl _), hf]
  | stop A D I r =>
    rw [hc] at h1
    simp only [Prod.mk.injEq] at h1
    obtain ⟨rfl, rfl⟩ := h1
    obtain ⟨hkI, _, _, restA, r1, r2, r5⟩ := conv_stop_again e₁ l (kinds t) 0 [] args 0 t [] A D I (.error d) (by omega) hc
    simp only [List.reverse_nil, List.nil_append] at r1
    subst r1
    rcases r5 with r5 | ⟨p, x, xL, preL, restL, hx, hex, hA, r5⟩
    · left; intro e₂ loc
      unfold assemble
      simp only [hkI, r2, c1, c2, if_false, r5 e₂ loc]
    · right
      refine ⟨p, x, xL, preL, restL, hx, hex, hA, fun e₂ loc aL' r' he' => ?_⟩
      unfold assemble
      simp only [hkI, r2, c1, c2, if_false, r5 e₂ loc aL' r' he']

end Trion.Front
