import TrionModel.Lemmas.ShowEval
import TrionModel.Lemmas.CodecWfAll
/-! # every instruction the decoder returns is `Printable` (C19) -/
namespace Trion.Show
open Trion.Front Trion.Codec

macro "encsplit" h:ident : tactic => `(tactic| (
  simp only [encode, lo2, lo3, unrep, true_or, false_or, or_true, or_false, Bool.false_eq_true, Bool.true_eq_false,
    if_true, if_false, reduceCtorEq] at $h:ident
  (repeat' split at $h:ident) <;> (try cases $h:ident)))

/-- an instruction the encoder accepts has every field in range and every PC-relative offset encodable -/
theorem printable_of_encode (i : Instr) (a : Nat) (hws : List Nat) (he : encode i = .ok hws) (wf : i.wf)
    (ht : targetInRange i a) : Printable i a := by
  cases i
  case add f d l r => cases r <;> simp only [Printable, ImmReg.wf, inI32] <;> (try trivial) <;> (encsplit he <;> omega)
  case sub f d l r => cases r <;> simp only [Printable, ImmReg.wf, inI32] <;> (try trivial) <;> (encsplit he <;> omega)
  case cmp l r => cases r <;> simp only [Printable, ImmReg.wf, inI32] <;> (try trivial) <;> (encsplit he <;> omega)
  case mov f d r => cases r <;> simp only [Printable, ImmReg.wf, inI32] <;> (try trivial) <;> (encsplit he <;> omega)
  case asr d v s => cases s <;> simp only [Printable, ImmReg.wf, inI32] <;> (try trivial) <;> (encsplit he <;> omega)
  case lsl d v s => cases s <;> simp only [Printable, ImmReg.wf, inI32] <;> (try trivial) <;> (encsplit he <;> omega)
  case lsr d v s => cases s <;> simp only [Printable, ImmReg.wf, inI32] <;> (try trivial) <;> (encsplit he <;> omega)
  case ldrb d ad o => cases o <;> simp only [Printable, ImmReg.wf, inI32] <;> (try trivial) <;> (encsplit he <;> omega)
  case ldrh d ad o => cases o <;> simp only [Printable, ImmReg.wf, inI32] <;> (try trivial) <;> (encsplit he <;> omega)
  case str d ad o => cases o <;> simp only [Printable, ImmReg.wf, inI32] <;> (try trivial) <;> (encsplit he <;> omega)
  case strb d ad o => cases o <;> simp only [Printable, ImmReg.wf, inI32] <;> (try trivial) <;> (encsplit he <;> omega)
  case strh d ad o => cases o <;> simp only [Printable, ImmReg.wf, inI32] <;> (try trivial) <;> (encsplit he <;> omega)
  case ldr d ad o =>
    cases o with
    | reg r => trivial
    | imm off =>
      simp only [targetInRange] at ht
      simp only [Printable, inI32]
      split
      · rename_i h15
        have := ht h15
        encsplit he <;> omega
      · encsplit he <;> omega
  case adr d off =>
    simp only [targetInRange] at ht
    simp only [Instr.wf] at wf
    simp only [Printable]
    encsplit he; omega
  case b c off =>
    simp only [targetInRange] at ht
    simp only [Printable, bLo, bHi]
    encsplit he <;> (split <;> omega)
  case bl off =>
    simp only [targetInRange] at ht
    simp only [Printable]
    encsplit he <;> omega
  case bkpt v => simpa [Printable, Instr.wf] using wf
  case svc v => simpa [Printable, Instr.wf] using wf
  case udf v => simpa [Printable, Instr.wf] using wf
  case udfw v => simpa [Printable, Instr.wf] using wf
  all_goals trivial

/-- … and no negative immediate inside `[R + x]` -/
theorem memNonneg_of_encode (i : Instr) (hws : List Nat) (he : encode i = .ok hws) : MemNonneg i := by
  intro ad v hm
  cases i
  case ldrb d ad' o => simp only [memOf] at hm; cases hm; encsplit he <;> omega
  case ldrh d ad' o => simp only [memOf] at hm; cases hm; encsplit he <;> omega
  case str d ad' o => simp only [memOf] at hm; cases hm; encsplit he <;> omega
  case strb d ad' o => simp only [memOf] at hm; cases hm; encsplit he <;> omega
  case strh d ad' o => simp only [memOf] at hm; cases hm; encsplit he <;> omega
  case ldrsb d ad' o => simp only [memOf] at hm; cases hm
  case ldrsh d ad' o => simp only [memOf] at hm; cases hm
  case ldr d ad' o =>
    cases o with
    | reg r => simp only [memOf] at hm; cases hm
    | imm off =>
      simp only [memOf] at hm
      split at hm
      · cases hm
      · cases hm
        encsplit he <;> omega
  all_goals (simp only [memOf] at hm; cases hm)

end Trion.Show
