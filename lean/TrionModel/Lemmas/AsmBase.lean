import TrionModel.Model.Asm
import TrionModel.Props.C13
import TrionModel.Props.C08
import TrionModel.Props.C04
import TrionModel.Props.C10
import TrionModel.Props.C10Parse
/-!
# The whole-state invariant of `Trion.Asm` and the lemmas about its primitives

`Good b st`: region invariant (C13) ∧ the active region holds < 2^32 bytes ∧ every queued task refers to a
statement that was placed with the length it will be rewritten with ∧ no register name is a table key ∧
(`b = true`: inside a file, `locals`/`local_tasks` are `Some`; `b = false`: outside, `locals = None` and the
global queue holds no `.global` closure).
-/
namespace Trion.Asm
open Trion

/-- length of an instruction's encoding, by constructor -/
def ilen : Instr → Nat
  | .bl _ | .dmb | .dsb | .isb | .mrs .. | .msr .. | .udfw _ => 4
  | _ => 2

/-- what the theorems need from the encoder: the length of an encoding depends on the constructor only -/
def EncLen (enc : Encoder) : Prop := ∀ i bs, enc i = .ok bs → bs.length = ilen i

def Task.notCopy : Task → Bool
  | .globalCopy .. => false
  | _ => true

/-- a queued task is consistent with the regions: its statement was placed, with the length of its rewrite -/
def TaskOk (pend : List (Nat × Nat)) : Task → Prop
  | .data d _ => d.placed = true ∧ (d.addr, d.du.size) ∈ pend
  | .instr i _ => i.placed = true ∧ (i.st.addr, ilen i.st.instr) ∈ pend
  | .globalCopy n _ _ => Front.isRegister n = false

def TableOk (t : Table) : Prop := ∀ n v, t.find n = some v → Front.isRegister n = false

structure Good (b : Bool) (st : St) : Prop where
  inv : Seg.Inv st.seg
  gt : ∀ t ∈ st.globalTasks, TaskOk st.seg.pending t
  lt : ∀ l, st.localTasks = some l → ∀ t ∈ l, TaskOk st.seg.pending t
  gtab : TableOk st.globals
  ltab : ∀ l, st.locals = some l → TableOk l
  inFile : b = true → st.locals.isSome = true ∧ st.localTasks.isSome = true
  top : b = false → st.locals = none ∧ st.localTasks = none ∧ ∀ t ∈ st.globalTasks, t.notCopy = true

/-- a history of region operations: every operation was legal in a state satisfying the region invariant and
did not panic; the outcome (`ok`, `placed`, or a diagnostic) is recorded -/
inductive Path : Seg.State → List (Seg.Op × Seg.Out) → Seg.State → Prop
  | nil (s : Seg.State) : Path s [] s
  | cons {s s1 s' : Seg.State} {op : Seg.Op} {o : Seg.Out} {tr : List (Seg.Op × Seg.Out)} :
      Seg.Inv s → Seg.Op.wf s op → Seg.step s op = (s1, o) → o ≠ .panic → Path s1 tr s' → Path s ((op, o) :: tr) s'

def isDiag : Seg.Out → Bool
  | .diag _ => true
  | _ => false

/-- number of operations of a history that ended in a diagnostic -/
def diags (tr : List (Seg.Op × Seg.Out)) : Nat := (tr.filter fun p => isDiag p.2).length

theorem diags_append (a b : List (Seg.Op × Seg.Out)) : diags (a ++ b) = diags a + diags b := by
  simp [diags, List.filter_append]

theorem Path.append {a b c : Seg.State} {t1 t2 : List (Seg.Op × Seg.Out)} (h1 : Path a t1 b) (h2 : Path b t2 c) :
    Path a (t1 ++ t2) c := by
  induction h1 with
  | nil s => exact h2
  | cons i w e n _ ih => exact .cons i w e n (ih h2)

/-- the regions of `st'` are reached from those of `st` by a history of region operations, and every operation
that ended in a diagnostic is accounted for by a new entry of `errors` -/
def Traced (st st' : St) : Prop :=
  ∃ tr, Path st.seg tr st'.seg ∧ st.errors.length + diags tr ≤ st'.errors.length

theorem Traced.refl (st : St) : Traced st st := ⟨[], .nil _, by simp [diags]⟩

theorem Traced.trans {a b c : St} (h1 : Traced a b) (h2 : Traced b c) : Traced a c := by
  obtain ⟨t1, p1, e1⟩ := h1
  obtain ⟨t2, p2, e2⟩ := h2
  exact ⟨t1 ++ t2, p1.append p2, by rw [diags_append]; omega⟩

/-- what a step may do to the parts other steps rely on: placed statements stay placed, a task that is new in
the global queue is not a `.global` closure, and the regions change only through legal region operations -/
def Ext (st st' : St) : Prop :=
  st.seg.pending ⊆ st'.seg.pending ∧ (∀ t ∈ st'.globalTasks, t ∈ st.globalTasks ∨ t.notCopy = true) ∧ Traced st st'

/-- a step from a good state does not panic and ends in a good, extended state -/
def Safe {X : Type} (b : Bool) (st : St) (r : Out (St × X)) : Prop :=
  r ≠ .stop .panic ∧ ∀ st' x, r = .ok (st', x) → Good b st' ∧ Ext st st'

theorem Ext.refl (st : St) : Ext st st := ⟨fun _ h => h, fun _ h => .inl h, Traced.refl st⟩

theorem Ext.trans {a b c : St} (h1 : Ext a b) (h2 : Ext b c) : Ext a c :=
  ⟨fun _ h => h2.1 (h1.1 h), fun t h => by
    rcases h2.2.1 t h with h | h
    · exact h1.2.1 t h
    · exact .inr h, h1.2.2.trans h2.2.2⟩

/-- the regions change along a history, the global queue does not change -/
theorem ext_of_path {st st'' : St} {tr : List (Seg.Op × Seg.Out)} (hp : st.seg.pending ⊆ st''.seg.pending)
    (hg : st''.globalTasks = st.globalTasks) (hpath : Path st.seg tr st''.seg)
    (he : st.errors.length + diags tr ≤ st''.errors.length) : Ext st st'' :=
  ⟨hp, fun t m => .inl (hg ▸ m), tr, hpath, he⟩

theorem TaskOk.mono {p q : List (Nat × Nat)} (h : p ⊆ q) {t : Task} (ht : TaskOk p t) : TaskOk q t := by
  cases t with
  | data d g => exact ⟨ht.1, h ht.2⟩
  | instr i g => exact ⟨ht.1, h ht.2⟩
  | globalCopy n l c => exact ht

theorem good_init : Good false St.init :=
  ⟨Seg.inv_init, fun _ h => (by simp [St.init] at h), fun _ h => (by simp [St.init] at h),
   fun _ _ h => (by simp [St.init, Table.find] at h), fun _ h => (by simp [St.init] at h),
   fun h => (by cases h), fun _ => ⟨rfl, rfl, fun _ h => (by simp [St.init] at h)⟩⟩

/-! ## errors -/

theorem good_pushIn {b : Bool} {st : St} (h : Good b st) (f : Bytes) (l c : Nat) (k : Kind) : Good b (st.pushIn f l c k) :=
  ⟨h.inv, h.gt, h.lt, h.gtab, h.ltab, h.inFile, h.top⟩

theorem good_push {b : Bool} {st : St} (h : Good b st) (env : Env) (l c : Nat) (k : Kind) : Good b (st.push env l c k) :=
  good_pushIn h _ _ _ _

theorem ext_pushIn (st : St) (f : Bytes) (l c : Nat) (k : Kind) : Ext st (st.pushIn f l c k) :=
  ⟨fun _ h => h, fun _ h => .inl h, [], .nil _, by simp [diags, St.pushIn]⟩

theorem ext_push (st : St) (env : Env) (l c : Nat) (k : Kind) : Ext st (st.push env l c k) := ext_pushIn ..

/-- returning at once with a diagnostic -/
theorem safe_push {X : Type} {b : Bool} {st : St} (h : Good b st) (env : Env) (l c : Nat) (k : Kind) (x : X) :
    Safe b st (.ok (st.push env l c k, x)) :=
  ⟨by simp, fun st' x' e => by cases e; exact ⟨good_push h .., ext_push ..⟩⟩

theorem safe_pushIn {X : Type} {b : Bool} {st : St} (h : Good b st) (f : Bytes) (l c : Nat) (k : Kind) (x : X) :
    Safe b st (.ok (st.pushIn f l c k, x)) :=
  ⟨by simp, fun st' x' e => by cases e; exact ⟨good_pushIn h .., ext_pushIn ..⟩⟩

theorem safe_ok {X : Type} {b : Bool} {st : St} (h : Good b st) (x : X) : Safe b st (.ok (st, x)) :=
  ⟨by simp, fun st' x' e => by cases e; exact ⟨h, Ext.refl _⟩⟩

/-- weakening the start state of `Safe` along an extension -/
theorem Safe.from {X : Type} {b : Bool} {st0 st : St} {r : Out (St × X)} (e : Ext st0 st) (h : Safe b st r) : Safe b st0 r :=
  ⟨h.1, fun st' x hr => ⟨(h.2 st' x hr).1, e.trans (h.2 st' x hr).2⟩⟩

/-! ## tables -/

theorem find_set (t : Table) (n m : Bytes) (v : Option Int) :
    (t.set n v).find m = if n = m then some v else t.find m := by
  induction t with
  | nil => simp [Table.set, Table.find]
  | cons p t ih =>
    obtain ⟨k, w⟩ := p
    simp only [Table.set]
    by_cases hk : k = n
    · subst hk
      simp only [if_true, Table.find]
      by_cases hm : k = m <;> simp [hm]
    · simp only [hk, if_false, Table.find, ih]
      by_cases hm : k = m
      · subst hm; simp [Ne.symm hk]
      · simp [hm]

theorem tableOk_set {t : Table} (h : TableOk t) {n : Bytes} (hn : Front.isRegister n = false) (v : Option Int) :
    TableOk (t.set n v) := by
  intro m w hm
  rw [find_set] at hm
  by_cases e : n = m
  · subst e; exact hn
  · rw [if_neg e] at hm; exact h m w hm

theorem tableOk_nil : TableOk [] := fun _ _ h => by simp [Table.find] at h

theorem get_found {t : Table} {n : Bytes} {v : Int} (h : t.get n = .found v) : t.find n = some (some v) := by
  unfold Table.get at h
  split at h <;> simp_all

theorem get_deferred {t : Table} {n : Bytes} (h : t.get n = .deferred) : t.find n = some none := by
  unfold Table.get at h
  split at h <;> simp_all

theorem get_notFound {t : Table} {n : Bytes} (h : t.get n = .notFound) : t.find n = none := by
  unfold Table.get at h
  split at h <;> simp_all

end Trion.Asm
