import TrionModel.Lemmas.CodecWf
namespace Trion.Codec
theorem wfBlock1 : wfBlock 1 32 := by decide +kernel
end Trion.Codec
