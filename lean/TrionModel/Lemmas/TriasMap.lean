import TrionModel.Lemmas.TriasDict
import TrionModel.Lemmas.Map
/-!
The list helpers of `Model/Trias.lean` are the `MemoryMap` model of C15 (`Model/Map.lean`) on normalised lists:
`lookup = Map.abs`, `Norm ↔ Map.MInv`, and `insertMerge a d` into a free range is `Map.put` (which then
returns `Ok(d.len())`, the value the `assert_eq!`s of the padding loop expect).
-/
namespace Trion.Trias
open Trion.Uf2

theorem lookup_eq_abs (m : List Seg) : lookup m = Trion.Map.abs m := by
  induction m with
  | nil => rfl
  | cons s r ih =>
    obtain ⟨f, d⟩ := s
    funext a
    rw [lookup_cons, Trion.Map.abs_cons, ih]

theorem normAbove_of_ok {lo : Nat} {m : List Seg} (h : Trion.Map.Ok lo m) : NormAbove lo m := by
  induction m generalizing lo with
  | nil => trivial
  | cons s r ih =>
    obtain ⟨f, d⟩ := s
    exact ⟨h.1, h.2.1, ih h.2.2.2⟩

theorem norm_iff_minv : ∀ (m : List Seg), Norm m ↔ Trion.Map.MInv m := by
  have ok_of : ∀ (m : List Seg) (lo : Nat), NormAbove lo m → (∀ s ∈ m, s.1 + s.2.length ≤ 4294967296) →
      Trion.Map.Ok lo m := by
    intro m
    induction m with
    | nil => intro _ _ _; trivial
    | cons s r ih =>
      obtain ⟨f, d⟩ := s
      intro lo hn hb
      exact ⟨hn.1, hn.2.1, hb (f, d) (by simp), ih _ hn.2.2 (fun s hs => hb s (by simp [hs]))⟩
  have norm_of : ∀ (m : List Seg) (lo : Nat), Trion.Map.Ok lo m → Norm m := by
    intro m
    induction m with
    | nil => intro _ _; trivial
    | cons s r ih =>
      obtain ⟨f, d⟩ := s
      intro lo h
      cases r with
      | nil => exact ⟨h.2.1, h.2.2.1⟩
      | cons t q =>
        obtain ⟨g, e⟩ := t
        exact ⟨h.2.1, by have := h.2.2.2.1; omega, ih _ h.2.2.2⟩
  intro m
  exact ⟨fun h => ok_of m 0 h.normAbove (Norm.bound m h), norm_of m 0⟩

/-- on a free range of a normalised list the merge walk of `MemoryMap::put` overwrites nothing and produces
exactly `insertMerge` -/
theorem putGo_free (m : List Seg) : ∀ (lo a : Nat) (d : List UInt8), NormAbove lo m → d ≠ [] →
    (∀ x, a ≤ x → x < a + d.length → lookup m x = none) →
    Trion.Map.putGo m a d = (0, insertMerge a d m) := by
  induction m with
  | nil => intro _ _ _ _ _ _; rfl
  | cons s r ih =>
    obtain ⟨f, e⟩ := s
    intro lo a d hn hd hfree
    have he : 0 < e.length := List.length_pos_iff.mpr hn.2.1
    have hdl : 0 < d.length := List.length_pos_iff.mpr hd
    simp only [Trion.Map.putGo, insertMerge]
    by_cases h1 : f + e.length < a
    · have hfr : ∀ x, a ≤ x → x < a + d.length → lookup r x = none := by
        intro x hx1 hx2
        have := hfree x hx1 hx2
        rwa [lookup_cons, if_neg (by omega)] at this
      rw [if_pos h1, if_pos h1, ih _ a d hn.2.2 hd hfr]
    · rw [if_neg h1, if_neg h1]
      have hfa : a + d.length ≤ f ∨ f + e.length = a := by
        by_cases hc : f < a
        · by_cases hc3 : f + e.length = a
          · exact Or.inr hc3
          · have := hfree a (Nat.le_refl _) (by omega)
            rw [lookup_in f e r a (by omega)] at this
            cases this
        · by_cases hc2 : f < a + d.length
          · have := hfree f (by omega) hc2
            rw [lookup_in f e r f (by omega)] at this
            cases this
          · exact Or.inl (by omega)
      by_cases h2 : f + e.length = a
      · rw [if_pos h2, if_neg (by omega)]
        have hfr : ∀ x, f ≤ x → x < f + (e ++ d).length → lookup r x = none := by
          intro x hx1 hx2
          rw [List.length_append] at hx2
          by_cases hx : x < f + e.length + 1
          · exact lookup_none_below hn.2.2 hx
          · have := hfree x (by omega) (by omega)
            rwa [lookup_cons, if_neg (by omega)] at this
        have hpre : List.take (a - f) e = e := List.take_of_length_le (by omega)
        have hpost : List.drop (a + d.length - f) e = [] := List.drop_eq_nil_of_le (by omega)
        rw [hpre, hpost, List.append_nil, Nat.min_eq_right (by omega : f ≤ a),
          ih _ f (e ++ d) hn.2.2 (by simp [hd]) hfr]
        simp
      · rw [if_neg h2]
        have hle : a + d.length ≤ f := by rcases hfa with h | h; exact h; exact absurd h h2
        by_cases h3 : a + d.length = f
        · rw [if_pos h3, if_neg (by omega)]
          have hpre : List.take (a - f) e = [] := by
            rw [show a - f = 0 by omega]; rfl
          have hpost : List.drop (a + d.length - f) e = e := by
            rw [show a + d.length - f = 0 by omega]; rfl
          rw [hpre, hpost, List.nil_append, Nat.min_eq_left (by omega : a ≤ f)]
          -- the rest of the list lies strictly above the merged segment
          cases r with
          | nil => simp [Trion.Map.putGo]
          | cons t q =>
            obtain ⟨g, y⟩ := t
            have hg := hn.2.2.1
            simp only [Trion.Map.putGo, List.length_append]
            rw [if_neg (by omega), if_pos (by omega)]
            simp
        · rw [if_neg h3, if_pos (by omega)]

/-- **`insertMerge` is `MemoryMap::put`** (model of C15) on a free range of a well-formed map; the put reports
`Ok(d.len())` newly filled addresses -/
theorem insertMerge_eq_put (m : List Seg) (a : Nat) (d : List UInt8) (inv : Trion.Map.MInv m) (hd : d ≠ [])
    (hb : a + d.length ≤ 4294967296) (hfree : ∀ x, a ≤ x → x < a + d.length → lookup m x = none) :
    Trion.Map.put m a d = (.ok d.length, insertMerge a d m) := by
  have hemp : d.isEmpty = false := by simpa using hd
  have hdl : 0 < d.length := List.length_pos_iff.mpr hd
  unfold Trion.Map.put
  rw [hemp]
  simp only [Bool.false_eq_true, if_false]
  rw [if_neg (by unfold Trion.Map.u32Max; omega), putGo_free m 0 a d (normAbove_of_ok inv) hd hfree]
  rfl

end Trion.Trias
