import TrionModel.Lemmas.CodecWf
namespace Trion.Codec
theorem wfBlock3 : wfBlock 3 32 := by decide +kernel
end Trion.Codec
