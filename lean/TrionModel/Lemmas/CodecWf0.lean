import TrionModel.Lemmas.CodecWf
namespace Trion.Codec
theorem wfBlock0 : wfBlock 0 32 := by decide +kernel
end Trion.Codec
