import TrionModel.Lemmas.LexPieces
import TrionModel.Lemmas.LexStr
/-!
# Specification of source layout (definitions only)

A source text is `sep₀ tok₁ sep₁ tok₂ … tokₙ trail`:

* `IsSep d` — `d` is separator text: any sequence of white-space bytes (TAB, LF, CR, space), line comments
  `// … LF` and block comments `/* … */`. Block comments nest: `Inside n d` reads `d` from just after an
  opening `/*` with `n` further comments open around it, up to and including the `*/` that closes the outermost
  one; in it the byte pairs `/*` and `*/` open and close, and any other byte stands for itself (it must not be
  the first byte of such a pair). Comment bodies are arbitrary well-formed UTF-8.
* `IsSepEnd d` — separator text that may end in a line comment which the end of the text terminates.
* `Spell bs t nx` — `bs` is a spelling of the token `t` when the byte `nx` follows (`none` = end of text):
  punctuation and operators (`/` must not be followed by `/` or `*`), `<<`, `>>`, identifiers, integers in radix
  2/8/10/16 with any zero padding and digit case (identifiers and integers must not be followed by an identifier
  byte), character literals (raw scalar value or one of the six escapes), string literals (any sequence of raw
  characters, escapes and `\u{…}` — `StrItem`, `Lemmas/LexStr.lean`).
* `LTok` / `ltext` / `LOk` / `ltoks` — a layout, its text, its well-formedness, and the tokens the specification
  assigns to it: token `i` carries `Pos.of (the text before its spelling)`.
-/
namespace Trion.Lex
open Trion.Pos (adv isCont)

/-- the first byte of `d` is not the second half of the pair that `b` would begin -/
def notPair (b : UInt8) (d : Bytes) : Prop :=
  ∀ c, d.head? = some c → ¬ (b.toNat = 47 ∧ c.toNat = 42) ∧ ¬ (b.toNat = 42 ∧ c.toNat = 47)

/-- the text after an opening `/*`, with `n` enclosing comments still open, through the final `*/` -/
inductive Inside : Nat → Bytes → Prop
  | close0 : Inside 0 [42, 47]
  | close (n : Nat) (d : Bytes) : Inside n d → Inside (n + 1) (42 :: 47 :: d)
  | «open» (n : Nat) (d : Bytes) : Inside (n + 1) d → Inside n (47 :: 42 :: d)
  | byte (n : Nat) (b : UInt8) (d : Bytes) : Inside n d → notPair b d → Inside n (b :: d)

/-- separator text -/
inductive IsSep : Bytes → Prop
  | nil : IsSep []
  | space (b : UInt8) (d : Bytes) : isSpace b = true → IsSep d → IsSep (b :: d)
  | line (body d : Bytes) : (∀ b ∈ body, b.toNat ≠ 10) → Utf8 body → IsSep d → IsSep (47 :: 47 :: body ++ 10 :: d)
  | block (body d : Bytes) : Inside 0 body → Utf8 body → IsSep d → IsSep (47 :: 42 :: body ++ d)

/-- separator text at the end of the input: the last line comment needs no line feed -/
def IsSepEnd (d : Bytes) : Prop :=
  IsSep d ∨ ∃ a body, d = a ++ 47 :: 47 :: body ∧ IsSep a ∧ (∀ b ∈ body, b.toNat ≠ 10) ∧ Utf8 body

/-- the six escapes of a character literal: letter ↦ value -/
def charEsc (e : Nat) : Option Nat :=
  if e = 116 then some 9 else if e = 110 then some 10 else if e = 114 then some 13
  else if e = 34 then some 34 else if e = 39 then some 39 else if e = 92 then some 92 else none

/-- `bs` spells the token `t` when followed by `nx` -/
inductive Spell : Bytes → Tok → Option UInt8 → Prop
  | punct (c : UInt8) (t : Tok) (nx : Option UInt8) : punct c.toNat = some t → c.toNat ≠ 47 → Spell [c] t nx
  | div (nx : Option UInt8) : (∀ b, nx = some b → b.toNat ≠ 47 ∧ b.toNat ≠ 42) → Spell [47] .div nx
  | shl (nx : Option UInt8) : Spell [60, 60] .shl nx
  | shr (nx : Option UInt8) : Spell [62, 62] .shr nx
  | ident (s : Bytes) (nx : Option UInt8) : identOk s = true → Follow nx → Spell s (.ident s) nx
  | num (r : Nat) (ds : Bytes) (v : Int) (nx : Option UInt8) : (r = 2 ∨ r = 8 ∨ r = 10 ∨ r = 16) → ds ≠ [] →
      (∀ b ∈ ds, isDigit r b = true) → i64FromStrRadix ds r = some v → Follow nx →
      Spell (radixPrefix r ++ ds) (.num v) nx
  | chr (c : Nat) (nx : Option UInt8) : RawChar c → Spell (39 :: encodeChar c ++ [39]) (.num (Int.ofNat c)) nx
  | chrEsc (e : UInt8) (v : Nat) (nx : Option UInt8) : charEsc e.toNat = some v →
      Spell [39, 92, e, 39] (.num (Int.ofNat v)) nx
  | str (items : List StrItem) (nx : Option UInt8) : (∀ it ∈ items, it.Ok) →
      Spell (34 :: renderAll items ++ [34]) (.str (denoteAll items)) nx

/-- one token of a layout: the separator text in front of it, its spelling, the token -/
structure LTok where
  sep : Bytes
  spell : Bytes
  tok : Tok

/-- the text of a layout: `sep₁ tok₁ … sepₙ tokₙ trail` -/
def ltext : List LTok → Bytes → Bytes
  | [], trail => trail
  | x :: r, trail => x.sep ++ x.spell ++ ltext r trail

/-- a well-formed layout -/
def LOk : List LTok → Bytes → Prop
  | [], trail => IsSepEnd trail
  | x :: r, trail => IsSep x.sep ∧ Spell x.spell x.tok (ltext r trail).head? ∧ LOk r trail

/-- the tokens of a layout whose text comes after `pre`: each at the specified position of its spelling -/
def ltoks (pre : Bytes) : List LTok → List Token
  | [] => []
  | x :: r => ⟨(Pos.of (pre ++ x.sep)).1, (Pos.of (pre ++ x.sep)).2, x.tok⟩ :: ltoks (pre ++ x.sep ++ x.spell) r

/-- byte extents `[o, e)` of the spellings of a layout that begins at offset `start` -/
def lextents (start : Nat) : List LTok → List (Nat × Nat)
  | [] => []
  | x :: r => (start + x.sep.length, start + x.sep.length + x.spell.length) ::
      lextents (start + x.sep.length + x.spell.length) r

end Trion.Lex
