import TrionModel.Lemmas.LayoutDef
/-!
# C05 helper lemmas, part 7: splitting programs; every statement's bytes are in the image; `.const` moves
-/
namespace Trion.Layout
open Ref

theorem steps_append (q r : List Stmt) (st st' : State) (h : steps st (q ++ r) = .ok st') :
    ∃ st1, steps st q = .ok st1 ∧ steps st1 r = .ok st' := by
  induction q generalizing st with
  | nil => exact ⟨st, rfl, h⟩
  | cons s q ih =>
    simp only [List.cons_append, steps] at h ⊢
    cases hs : step st s with
    | error e => rw [hs] at h; cases h
    | ok st1 =>
      rw [hs] at h; simp only at h ⊢
      exact ih st1 h

theorem trace_append (q r : List Stmt) (c : Option Nat) :
    trace c (q ++ r) = trace c q ++ trace (cursorAfter c q) r := by
  induction q generalizing c with
  | nil => rfl
  | cons s q ih => simp only [List.cons_append, trace, cursorAfter, ih]

theorem cursorAfter_append (q r : List Stmt) (c : Option Nat) :
    cursorAfter c (q ++ r) = cursorAfter (cursorAfter c q) r := by
  induction q generalizing c with
  | nil => rfl
  | cons s q ih => simp only [List.cons_append, cursorAfter, ih]

/-- the end of `run` (task queue, closing the last region) turns a `Rel` state into the reference image -/
theorem tail_rel (st st1 st2 : State) (c : Option Nat) (im : Img) (hr : Rel st st.tasks c im)
    (h1 : runTasks { st with tasks := [] } st.tasks = .ok st1) (h2 : closeSeg st1 = .ok st2) :
    ∀ a, st2.closed.get a = im.get a := by
  have r1' : Rel { st with tasks := [] } st.tasks c im := hr.congr rfl rfl
  obtain ⟨hc1, hv⟩ := runTasks_rel st.tasks _ st1 _ im r1' h1
  obtain ⟨st2', h2', _, _, _, _, hg, _⟩ := closeSeg_spec st1 hc1
  rw [h2] at h2'; cases h2'
  exact fun a => by rw [hg a, hv a]

/-- statements that emit bytes -/
def Stmt.emits : Stmt → Bool
  | .raw _ => true
  | .emit _ _ _ => true
  | .align _ => true
  | _ => false

/-- every emitting statement's bytes stand at its reference address in the image of a successful run -/
theorem stmt_in_image (p q r : List Stmt) (s : Stmt) (img : Img) (h : run p = .ok img)
    (hwf : ∀ s ∈ p, s.wf = true) (hp : p = q ++ s :: r) (hs : s.emits = true) :
    ∃ c, cursorAfter none q = some c ∧ ∀ i, i < (bytes c s).length → img.get (c + i) = (bytes c s)[i]? := by
  subst hp
  obtain ⟨st, st1, st2, hst, hrt, hcs, rfl⟩ := run_ok _ img h
  obtain ⟨sa, ha, hb⟩ := steps_append q (s :: r) {} st hst
  unfold steps at hb
  cases hstep : step sa s with
  | error e => rw [hstep] at hb; cases hb
  | ok sb =>
    rw [hstep] at hb; simp only at hb
    obtain ⟨im1, e1, r1, _⟩ := steps_rel q {} sa none [] rel_init
      (fun x hx => hwf x (List.mem_append_left _ hx)) ha
    have hsome : sa.active.isSome = true := by
      have := (step_shape sa sb s ⟨r1.core, r1.tasks⟩ hstep).1
      cases s <;> first | exact this | cases hs
    cases hc : cursorAfter none q with
    | none =>
      have := r1.cur; rw [hc] at this
      unfold pos at this
      cases hact : sa.active with
      | none => rw [hact] at hsome; cases hsome
      | some a => rw [hact] at this; cases this
    | some c =>
      rw [hc] at r1
      obtain ⟨im2, e2, r2, _⟩ := step_rel sa sb s (some c) im1 r1
        (hwf s (List.mem_append_right _ List.mem_cons_self)) hstep
      obtain ⟨im3, e3, r3, m3⟩ := steps_rel r sb st (next (some c) s) im2 r2
        (fun x hx => hwf x (List.mem_append_right _ (List.mem_cons_of_mem _ hx))) hb
      have him2 : im2 = im1.put c (bytes c s) := by
        have := e2 []
        cases s with
        | raw bs => exact (Option.some.inj this).symm
        | emit len deps final => exact (Option.some.inj this).symm
        | align n => exact (Option.some.inj this).symm
        | addr a => cases hs
        | label n => cases hs
        | const n d v => cases hs
      refine ⟨c, rfl, fun i hi => ?_⟩
      have h2 : im2.get (c + i) = (bytes c s)[i]? := by
        rw [him2, get_put_inside _ _ _ _ (by omega) (by omega)]
        congr 1; omega
      rw [tail_rel st st1 st2 _ im3 r3 hrt hcs (c + i), m3 (c + i) (by rw [h2, isSome_getElem?]; simpa using hi), h2]

/-! ### `.const` statements and the reference -/

theorem pass2_const (q r : List Stmt) (c : Option Nat) (im : Img) (n : Nat) (d : List Nat) (v : Int) :
    pass2 c im (q ++ .const n d v :: r) = pass2 c im (q ++ r) := by
  induction q generalizing c im with
  | nil => rfl
  | cons s q ih =>
    simp only [List.cons_append]
    cases s with
    | addr a => exact ih _ _
    | label m => exact ih _ _
    | const m d' v' => exact ih _ _
    | raw bs => cases c with
      | none => rfl
      | some x => exact ih _ _
    | emit len deps final => cases c with
      | none => rfl
      | some x => exact ih _ _
    | align m => cases c with
      | none => rfl
      | some x => exact ih _ _

theorem next_const (c : Option Nat) (n : Nat) (d : List Nat) (v : Int) : next c (.const n d v) = c := rfl

/-! ### `pass1` -/

theorem pass1_label_cons (c : Option Nat) (e0 e : Env) (m : Nat) (r : List Stmt)
    (h : pass1 c e0 (.label m :: r) = some e) :
    ∃ x, c = some x ∧ x < top ∧ e0.get m = none ∧ pass1 c ((m, (x : Int)) :: e0) r = some e := by
  cases c with
  | none => simp [pass1] at h
  | some x =>
    cases hg : e0.get m with
    | some v => simp [pass1, hg] at h
    | none =>
      by_cases hx : x < top
      · simp only [pass1, hg, if_pos hx] at h
        exact ⟨x, rfl, hx, rfl, h⟩
      · simp [pass1, hg, if_neg hx] at h

theorem pass1_const_cons (c : Option Nat) (e0 e : Env) (m : Nat) (d : List Nat) (v : Int) (r : List Stmt)
    (h : pass1 c e0 (.const m d v :: r) = some e) :
    e0.get m = none ∧ pass1 c ((m, v) :: e0) r = some e := by
  cases hg : e0.get m with
  | some v => simp [pass1, hg] at h
  | none =>
    simp only [pass1, hg] at h
    exact ⟨rfl, h⟩

theorem pass1_data_cons (c : Option Nat) (e0 e : Env) (s : Stmt) (r : List Stmt) (hs : s.emits = true)
    (h : pass1 c e0 (s :: r) = some e) : ∃ x, c = some x ∧ pass1 (next c s) e0 r = some e := by
  cases s <;> cases c <;> first | exact ⟨_, rfl, h⟩ | (cases hs; done) | (cases h; done)

/-- values never change: what is in the table stays in the table -/
theorem pass1_keeps (r : List Stmt) (c : Option Nat) (e0 e : Env) (n : Nat) (v : Int)
    (h : pass1 c e0 r = some e) (hn : e0.get n = some v) : e.get n = some v := by
  induction r generalizing c e0 with
  | nil => simp only [pass1] at h; cases h; exact hn
  | cons s r ih =>
    cases s with
    | addr a => exact ih _ _ h hn
    | label m =>
      obtain ⟨x, _, _, hm, h'⟩ := pass1_label_cons c e0 e m r h
      refine ih _ _ h' ?_
      rw [env_get_cons, if_neg (fun hmn => by rw [hmn, hn] at hm; cases hm)]; exact hn
    | const m d w =>
      obtain ⟨hm, h'⟩ := pass1_const_cons c e0 e m d w r h
      refine ih _ _ h' ?_
      rw [env_get_cons, if_neg (fun hmn => by rw [hmn, hn] at hm; cases hm)]; exact hn
    | raw bs => obtain ⟨x, _, h'⟩ := pass1_data_cons c e0 e _ r rfl h; exact ih _ _ h' hn
    | emit len deps final => obtain ⟨x, _, h'⟩ := pass1_data_cons c e0 e _ r rfl h; exact ih _ _ h' hn
    | align m => obtain ⟨x, _, h'⟩ := pass1_data_cons c e0 e _ r rfl h; exact ih _ _ h' hn

/-- the table value of a label is the reference cursor in front of it -/
theorem pass1_label (q r : List Stmt) (c0 : Option Nat) (e0 e : Env) (n : Nat)
    (h : pass1 c0 e0 (q ++ .label n :: r) = some e) :
    ∃ c, cursorAfter c0 q = some c ∧ c < top ∧ e.get n = some (c : Int) := by
  induction q generalizing c0 e0 with
  | nil =>
    obtain ⟨x, hx, hlt, _, h'⟩ := pass1_label_cons c0 e0 e n r h
    exact ⟨x, hx, hlt, pass1_keeps r _ _ e n _ h' (by rw [env_get_cons, if_pos rfl])⟩
  | cons s q ih =>
    simp only [List.cons_append] at h
    cases s with
    | addr a => exact ih _ _ h
    | label m => obtain ⟨x, _, _, _, h'⟩ := pass1_label_cons c0 e0 e m _ h; exact ih _ _ h'
    | const m d w => obtain ⟨_, h'⟩ := pass1_const_cons c0 e0 e m d w _ h; exact ih _ _ h'
    | raw bs => obtain ⟨x, _, h'⟩ := pass1_data_cons c0 e0 e _ _ rfl h; exact ih _ _ h'
    | emit len deps final => obtain ⟨x, _, h'⟩ := pass1_data_cons c0 e0 e _ _ rfl h; exact ih _ _ h'
    | align m => obtain ⟨x, _, h'⟩ := pass1_data_cons c0 e0 e _ _ rfl h; exact ih _ _ h'

/-- statements that neither move the cursor nor emit: labels and constants -/
def Stmt.silent : Stmt → Bool
  | .label _ => true
  | .const _ _ _ => true
  | _ => false

theorem cursorAfter_silent (mid : List Stmt) (c : Option Nat) (h : ∀ s ∈ mid, s.silent = true) :
    cursorAfter c mid = c := by
  induction mid generalizing c with
  | nil => rfl
  | cons s mid ih =>
    have hs := h s List.mem_cons_self
    have := ih (next c s) (fun x hx => h x (List.mem_cons_of_mem _ hx))
    cases s with
    | label m => exact this
    | const m d v => exact this
    | addr a => cases hs
    | raw bs => cases hs
    | emit l d f => cases hs
    | align m => cases hs

/-! ### the machine's symbol table is the reference's -/

theorem steps_env (p : List Stmt) (st st' : State) (c : Option Nat) (im : Img)
    (hr : Rel st st.tasks c im) (hwf : ∀ s ∈ p, s.wf = true)
    (hl : ∀ x n, (some x, Stmt.label n) ∈ trace c p → x < top)
    (h : steps st p = .ok st') : pass1 c st.env p = some st'.env := by
  induction p generalizing st c im with
  | nil => simp only [steps] at h; cases h; rfl
  | cons s r ih =>
    simp only [steps] at h
    cases hs : step st s with
    | error err => rw [hs] at h; cases h
    | ok st1 =>
      rw [hs] at h; simp only at h
      obtain ⟨im1, _, r1, _⟩ := step_rel st st1 s c im hr (hwf s List.mem_cons_self) hs
      have ih' := ih st1 (next c s) im1 r1 (fun x hx => hwf x (List.mem_cons_of_mem _ hx))
        (fun x n hx => hl x n (List.mem_cons_of_mem _ hx)) h
      obtain ⟨sh1, _, sh3⟩ := step_shape st st1 s ⟨hr.core, hr.tasks⟩ hs
      have hcs : st.active.isSome = true → ∃ x, c = some x := by
        intro hsome
        cases hact : st.active with
        | none => rw [hact] at hsome; cases hsome
        | some a => exact ⟨a.base + a.buf.length, by rw [← hr.cur]; simp only [pos, hact, Option.map_some]⟩
      cases s with
      | addr a => simp only at sh3; rw [← sh3]; exact ih'
      | label n =>
        simp only at sh3
        obtain ⟨a, hact, hn, he⟩ := sh3
        have hc : c = some (a.base + a.buf.length) := by
          rw [← hr.cur]; simp only [pos, hact, Option.map_some]
        have hx : a.base + a.buf.length < top := hl _ n (by rw [hc]; exact List.mem_cons_self)
        rw [he, curr_eq a hx] at ih'
        rw [hc]
        simp only [pass1, hn, if_pos hx]
        rw [hc] at ih'
        exact ih'
      | const n d v =>
        simp only at sh3
        obtain ⟨hn, he⟩ := sh3
        rw [he] at ih'
        simp only [pass1, hn]
        exact ih'
      | raw bs =>
        simp only at sh1 sh3
        obtain ⟨x, rfl⟩ := hcs sh1
        rw [sh3] at ih'; exact ih'
      | emit len deps final =>
        simp only at sh1 sh3
        obtain ⟨x, rfl⟩ := hcs sh1
        rw [sh3] at ih'; exact ih'
      | align n =>
        simp only at sh1 sh3
        obtain ⟨x, rfl⟩ := hcs sh1
        rw [sh3] at ih'; exact ih'


/-! ### the image of a run lies inside the address space -/

theorem run_lt_top (p : List Stmt) (img : Img) (h : run p = .ok img) (hwf : ∀ s ∈ p, s.wf = true)
    (a : Nat) (ha : top ≤ a) : img.get a = none := by
  obtain ⟨st, st1, st2, hs, hr, hc, rfl⟩ := run_ok p img h
  have hi := steps_inv p {} st inv_init hwf hs
  have hc0 : Core { st with tasks := [] } := hi.1
  have ht : ∀ t ∈ st.tasks, TaskOk { st with tasks := [] } t := hi.2
  have hc1 := runTasks_core st.tasks _ st1 hc0 ht hr
  obtain ⟨st2', h2, hc2, _⟩ := closeSeg_spec st1 hc1
  rw [hc] at h2; cases h2
  cases hga : st2.closed.get a with
  | none => rfl
  | some v =>
    have := hc2.1 a (by unfold Img.has; rw [hga]; rfl)
    omega

end Trion.Layout
