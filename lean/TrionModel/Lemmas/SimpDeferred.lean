import TrionModel.Lemmas.SimpNF
import TrionModel.Lemmas.SimpTaint
/-!
# First attempts over a table with `Deferred` names

A name declared by `.global` (or imported while unvalued) is `Lookup::Deferred`: `evaluate` does not stop at it but leaves
the identifier in the tree and goes on, so the whole operand is simplified AROUND the name (constants are merged across it,
neutral elements removed, …) and the statement is deferred with the simplified tree.  A first attempt thus leaves a tree
`a₁` either by completing (`Ok`, possibly with a `Deferred` cause) or by stopping at an unknown name (`LeftBy`).

* `leftBy_val`: whatever the first attempt did, it preserved the ideal value under every completion of its table;
* `number_order_independent`: if the re-evaluation of `a₁` over a larger table and the fresh evaluation of the operand both
  end in a NUMBER, it is the same number (C08 `eval_commutes` / `retry_commutes` for the trees `evaluateE` leaves).
-/
namespace Trion.Simp
open Trion

/-- `a₁` is what a first `evaluate` over `lk₁` leaves in place of `a` (when the statement is kept for a later re-run) -/
def LeftBy (lk₁ : Bytes → Lookup) (isReg : Bytes → Bool) (a a₁ : Arg) : Prop :=
  (∃ ev, evaluateE lk₁ isReg a = .ok ev a₁) ∨ (∃ n, evaluateE lk₁ isReg a = .nosuch n a₁)

theorem evaluateE_ok_evaluate {lk : Bytes → Lookup} {isReg : Bytes → Bool} {a : Arg} {ev : Ev} {a' : Arg}
    (h : evaluateE lk isReg a = .ok ev a') : evaluate lk isReg a = .ok (ev, a') := by
  have h1 := evaluateE_is_evaluateT lk isReg a
  rw [h] at h1
  have h2 := (evaluateT_proj_both lk isReg).1 a
  rw [← h1] at h2
  exact h2.symm

theorem evaluateE_nosuch_evaluateT {lk : Bytes → Lookup} {isReg : Bytes → Bool} {a : Arg} {n : Bytes} {a' : Arg}
    (h : evaluateE lk isReg a = .nosuch n a') : evaluateT lk isReg a = .nosuch n a' := by
  have h1 := evaluateE_is_evaluateT lk isReg a
  rw [h] at h1
  exact h1.symm

/-- a first attempt preserves the ideal value under every completion of its table -/
theorem leftBy_val {lk₁ : Bytes → Lookup} {isReg : Bytes → Bool} {ρ : Env} (hρ : consistent lk₁ isReg ρ) {a a₁ : Arg}
    (h : LeftBy lk₁ isReg a a₁) {w : Int} (hv : valZ ρ a = some w) : valZ ρ a₁ = some w := by
  rcases h with ⟨ev, h⟩ | ⟨n, h⟩
  · exact evaluate_val lk₁ isReg ρ hρ a ev a₁ w (evaluateE_ok_evaluate h) hv
  · exact evaluateT_nosuch_val lk₁ isReg ρ hρ a n a₁ w (evaluateE_nosuch_evaluateT h) hv

/-- **numbers do not depend on the order**: the re-evaluation of the tree a first attempt left and the fresh evaluation
agree whenever both deliver a number -/
theorem number_order_independent {lk₁ lk₂ : Bytes → Lookup} {isReg : Bytes → Bool}
    (h₁ : ∀ s v, lk₁ s = .found v → lk₂ s = .found v) (hT : tableOk lk₂) {a a₁ : Arg} (hlit : litsOk a = true)
    (hl : LeftBy lk₁ isReg a a₁) {ev₂ ev : Ev} {v w : Int}
    (e₂ : evaluateE lk₂ isReg a₁ = .ok ev₂ (.const v)) (e : evaluateE lk₂ isReg a = .ok ev (.const w)) : v = w := by
  have hc := evaluate_const_valC lk₂ isReg (envOf lk₂) (consistent_of_sub isReg (fun _ _ h => h)) hT a ev w hlit
    (evaluateE_ok_evaluate e)
  have hz := valC_sub_valZ _ a hc
  have hz1 := leftBy_val (consistent_of_sub isReg h₁) hl hz
  have hz2 := evaluate_val lk₂ isReg (envOf lk₂) (consistent_of_sub isReg (fun _ _ h => h)) a₁ ev₂ (.const v) w
    (evaluateE_ok_evaluate e₂) hz1
  simpa [valZ] using hz2

end Trion.Simp
