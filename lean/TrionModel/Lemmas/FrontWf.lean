import TrionModel.Lemmas.FrontTargets
import TrionModel.Lemmas.FrontReject
/-! # Every instruction the front end completes is well-formed (fields within their Rust types) — C04 `build_wf` -/
namespace Trion.Front
set_option maxRecDepth 8000

def Val.wf : Val → Prop
  | .imm v => inI32 v
  | .immReg x => x.wf
  | .off v => 0 ≤ v ∧ v ≤ 4294967295
  | .address _ (some x) => x.wf
  | _ => True

theorem narrowI32_inI32 {v w : Int} (h : narrowI32 v = some w) : inI32 w := by
  unfold narrowI32 at h; split at h
  · cases h; unfold inI32; assumption
  · cases h

theorem narrowU32_range {v w : Int} (h : narrowU32 v = some w) : 0 ≤ w ∧ w ≤ 4294967295 := by
  unfold narrowU32 at h; split at h
  · cases h; assumption
  · cases h

theorem addrOff_wf {idx : Nat} {a : Arg} {r : Reg} {x : ImmReg} (h : addrOff idx a = .ok (r, some x)) : x.wf := by
  unfold addrOff at h
  split at h
  all_goals (repeat' split at h)
  all_goals (first | (cases h; done) | skip)
  all_goals (cases h; simp [ImmReg.wf, inI32])
  all_goals (exact narrowI32_inI32 ‹narrowI32 _ = some _›)

theorem addrOff_val_wf {idx : Nat} {a : Arg} {r : Reg} {o : Option ImmReg} (h : addrOff idx a = .ok (r, o)) :
    (Val.address r o).wf := by
  cases o with
  | none => trivial
  | some x => exact addrOff_wf h

theorem get_wf {k : Kind} {eval : Arg → EvalOut} {loc : Bool} {pos done : Nat} {a a' : Arg} {d : Nat} {v : Val}
    (h : get k eval loc pos done a = .ok v a' d) : v.wf := by
  cases k <;> simp only [get] at h
  all_goals (repeat' split at h)
  all_goals (first | (cases h; done) | skip)
  all_goals (cases h)
  all_goals (first | exact addrOff_val_wf ‹_› | (simp only [Val.wf, ImmReg.wf]; done) | (simp only [Val.wf, ImmReg.wf]; first | trivial | exact narrowI32_inI32 ‹narrowI32 _ = some _› | exact narrowU32_range ‹narrowU32 _ = some _›))

theorem setOp_wf (i : Instr) (pos : Nat) (v : Val) (hi : i.wf) (hv : v.wf) : (setOp i pos v).wf := by
  cases i <;> simp only [setOp] <;> (try exact hi) <;> split <;> (first | exact hi | exact hv | trivial | skip)

theorem literal_range {a : Nat} {t o : Int} (h : literal a t = .ok o) : 0 ≤ o ∧ o ≤ 1020 :=
  let h := (literal_ok_iff a t o).mp h; ⟨h.2.1, h.2.2.1⟩
theorem branch_range {a : Nat} {t lo hi o : Int} (h : branch a t lo hi = .ok o) : lo ≤ o ∧ o ≤ hi :=
  let h := (branch_ok_iff a t lo hi o).mp h; ⟨h.2.1, h.2.2.1⟩

theorem narrowU8_range {v w : Int} (h : narrowU8 v = some w) : 0 ≤ w ∧ w ≤ 255 := by
  unfold narrowU8 at h; split at h
  · cases h; assumption
  · cases h
theorem narrowU16_range {v w : Int} (h : narrowU16 v = some w) : 0 ≤ w ∧ w ≤ 65535 := by
  unfold narrowU16 at h; split at h
  · cases h; assumption
  · cases h

theorem unwrapOff_wf {r : Reg} {o : Option ImmReg} (h : (Val.address r o).wf) : (unwrapOff o).wf := by
  cases o with
  | none => simp [unwrapOff, ImmReg.wf, inI32]
  | some x => exact h

theorem finish_wf (addr : Nat) (i j : Instr) (vals : List Val) (n : Nat) (hi : i.wf) (hv : ∀ v ∈ vals, v.wf)
    (h : finish addr i vals n = .ok j) : j.wf := by
  unfold finish at h
  split at h
  all_goals (repeat' split at h)
  all_goals (first | (cases h; done) | skip)
  all_goals (cases h)
  all_goals (first | exact hi | (change (unwrapOff _).wf; apply unwrapOff_wf; apply hv; exact List.mem_cons_of_mem _ List.mem_cons_self) | skip)
  all_goals (simp only [Instr.wf, ImmReg.wf, inI32])
  all_goals (first
    | (have := literal_range ‹literal _ _ = .ok _›; omega)
    | (have := branch_range ‹branch _ _ _ _ = .ok _›; omega)
    | (have := narrowU8_range ‹narrowU8 _ = some _›; omega)
    | (have := narrowU16_range ‹narrowU16 _ = some _›; omega)
    | (have hb := ‹(if _ then _ else _) = Except.ok _›; split at hb <;> (have := branch_range hb; omega))
    | trivial)

theorem conv_wf (eval : Arg → EvalOut) (loc : Bool) : ∀ (ks : List Kind) (pos : Nat) (pre rest : List Arg) (done : Nat)
    (instr : Instr) (vals : List Val) (args : List Arg) (d : Nat) (i : Instr) (vs : List Val),
    instr.wf → (∀ v ∈ vals, v.wf) → conv eval loc ks pos pre rest done instr vals = .ok args d i vs →
    i.wf ∧ ∀ v ∈ vs, v.wf := by
  intro ks
  induction ks with
  | nil =>
    intro pos pre rest done instr vals args d i vs hi hv h
    simp only [conv] at h
    cases h
    exact ⟨hi, fun v hm => hv v (List.mem_reverse.mp hm)⟩
  | cons k ks ih =>
    intro pos pre rest done instr vals args d i vs hi hv h
    cases rest with
    | nil => simp [conv] at h
    | cons x rest =>
      simp only [conv] at h
      split at h
      · rename_i v a' done' hg
        have hvw := get_wf hg
        refine ih _ _ _ _ _ _ _ _ _ _ (setOp_wf _ _ _ hi hvw) ?_ h
        intro w hw
        rcases List.mem_cons.mp hw with rfl | hw
        · exact hvw
        · exact hv w hw
      · cases h

instance instDecidableInstrWf (i : Instr) : Decidable i.wf := by
  cases i <;> (simp only [Instr.wf]; infer_instance)

theorem table_wf : ∀ p ∈ mnemonicTable, p.2.wf := by
  have h : mnemonicTable.all (fun p => decide p.2.wf) = true := by decide
  intro p hp
  have := List.all_eq_true.mp h p hp
  simpa using this

theorem template_wf {name : Bytes} {t : Instr} (h : mnemonic name = some t) : t.wf := by
  unfold mnemonic at h
  simp only at h
  split at h
  · rename_i d s hl
    cases h
    have := table_wf _ (mem_of_lookup_some _ _ _ hl)
    exact this
  · rename_i r hr
    exact table_wf _ (mem_of_lookup_some _ _ _ h)

theorem evalArg_ne_completed {eval : Arg → EvalOut} {loc : Bool} {pos done : Nat} {a a' : Arg} {r : Res}
    (h : evalArg eval loc pos done a = .error (a', r)) : r ≠ .completed := by
  unfold evalArg at h
  split at h
  · split at h
    · cases h
    · cases h; simp
    · split at h <;> (cases h; simp)
    · cases h; simp
  · cases h

theorem get_ne_completed {k : Kind} {eval : Arg → EvalOut} {loc : Bool} {pos done : Nat} {a a' : Arg} {d : Nat} {r : Res}
    (h : get k eval loc pos done a = .stop a' d r) : r ≠ .completed := by
  cases k <;> simp only [get] at h
  all_goals (repeat' split at h)
  all_goals (first | (cases h; simp; done) | (cases h; done) | skip)
  all_goals (rename_i he; cases h; exact evalArg_ne_completed he)

theorem conv_ne_completed (eval : Arg → EvalOut) (loc : Bool) : ∀ (ks : List Kind) (pos : Nat) (pre rest : List Arg) (done : Nat)
    (instr : Instr) (vals : List Val) (args : List Arg) (d : Nat) (i : Instr) (r : Res),
    conv eval loc ks pos pre rest done instr vals = .stop args d i r → r ≠ .completed := by
  intro ks
  induction ks with
  | nil => intro pos pre rest done instr vals args d i r h; simp [conv] at h
  | cons k ks ih =>
    intro pos pre rest done instr vals args d i r h
    cases rest with
    | nil => simp only [conv] at h; cases h; simp
    | cons x rest =>
      simp only [conv] at h
      split at h
      · exact ih _ _ _ _ _ _ _ _ _ _ h
      · rename_i hg
        cases h
        exact get_ne_completed hg

theorem assemble_wf (st st' : St) (eval : Arg → EvalOut) (loc : Bool) (hi : st.instr.wf)
    (h : assemble st eval loc = (st', .completed)) : st'.instr.wf := by
  unfold assemble at h
  simp only at h
  split at h
  · cases h
  · split at h
    · cases h
    · split at h
      · rename_i hc
        have hne := conv_ne_completed eval loc _ _ _ _ _ _ _ _ _ _ _ hc
        simp only [Prod.mk.injEq] at h
        exact absurd h.2 hne
      · rename_i argsx d instr vals hc
        have hw := conv_wf eval loc _ _ _ _ _ _ _ _ _ _ _ hi (by simp) hc
        split at h
        · rename_i j hf
          cases h
          exact finish_wf _ _ _ _ _ hw.1 hw.2 hf
        · cases h

/-- every instruction `build` completes has all fields within their Rust types: nothing was wrapped or truncated -/
theorem build_wf_proof (a : Nat) (name : Bytes) (args : List Arg) (eval : Arg → EvalOut) (loc : Bool) (i : Instr)
    (h : build a name args eval loc = .completed i) : i.wf := by
  unfold build at h
  split at h
  · cases h
  · rename_i t hm
    have ht := template_wf hm
    cases hr : assemble { addr := a, instr := t, argsDone := 0, args := args } eval loc with
    | mk st' r =>
      rw [hr] at h
      cases r with
      | completed =>
        simp only at h
        cases h
        exact assemble_wf _ _ eval loc ht hr
      | deferred c => cases h
      | error d => cases h
      | panic => cases h
end Trion.Front
