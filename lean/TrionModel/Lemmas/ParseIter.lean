import TrionModel.Model.ParseIter
import TrionModel.Lemmas.ParseAll
/-!
# The call-by-call parser (`…S`, on the tokenizer state with look-ahead) computes what the batch
model computes on the token list `queue ++ src`
-/
namespace Trion.Parse

/-- the error the tokenizer has not yet handed out: the one sitting in `token_err`, else the one
`next_token()` will still produce -/
def TState.pendErr (s : TState) : Option LexErr :=
  match s.tokenErr with
  | some e => some e
  | none => s.srcErr

/-- the tokenizer state `s` stands for the remaining token list `ts` of the batch model over `lo` -/
structure Rel (lo : LexOut) (s : TState) (ts : List Token) : Prop where
  toks : s.queue ++ s.src = ts
  err : s.pendErr = lo.err
  taken : s.tokenErr.isSome → s.src = []
  sole : s.tokenErr.isSome → s.srcErr = none
  line : s.endLine = lo.endLine
  col : s.endCol = lo.endCol

theorem rel_init (lo : LexOut) : Rel lo (TState.init lo) lo.toks :=
  ⟨rfl, rfl, by simp [TState.init], by simp [TState.init], rfl, rfl⟩

theorem pop_cons {lo : LexOut} {s : TState} {t : Token} {r : List Token} (h : Rel lo s (t :: r)) :
    ∃ s', s.pop = (some (.ok t), s') ∧ Rel lo s' r := by
  obtain ⟨q, te, src, se, el, ec⟩ := s
  obtain ⟨ht, he, hk, hso, hl, hc⟩ := h
  simp only at ht hk hso hl hc
  cases q with
  | cons t' q =>
    simp only [List.cons_append, List.cons.injEq] at ht
    obtain ⟨rfl, rfl⟩ := ht
    exact ⟨_, rfl, ⟨rfl, he, hk, hso, hl, hc⟩⟩
  | nil =>
    simp only [List.nil_append] at ht
    subst ht
    cases te with
    | some e => simp at hk
    | none => exact ⟨_, rfl, ⟨rfl, he, by simp, by simp, hl, hc⟩⟩

theorem peek_cons {lo : LexOut} {s : TState} {t : Token} {r : List Token} (h : Rel lo s (t :: r)) :
    ∃ s', s.peek = (some (.ok t), s') ∧ Rel lo s' (t :: r) := by
  obtain ⟨q, te, src, se, el, ec⟩ := s
  obtain ⟨ht, he, hk, hso, hl, hc⟩ := h
  simp only at ht hk hso hl hc
  cases q with
  | cons t' q =>
    simp only [List.cons_append, List.cons.injEq] at ht
    obtain ⟨rfl, rfl⟩ := ht
    exact ⟨_, rfl, ⟨rfl, he, hk, hso, hl, hc⟩⟩
  | nil =>
    simp only [List.nil_append] at ht
    subst ht
    cases te with
    | some e => simp at hk
    | none => exact ⟨_, rfl, ⟨rfl, he, by simp, by simp, hl, hc⟩⟩

/-- at the end of the ok tokens, no error: `peek`/`next` give `None` -/
theorem end_none {lo : LexOut} {s : TState} (h : Rel lo s []) (hn : lo.err = none) :
    (∃ s', s.peek = (none, s') ∧ Rel lo s' []) ∧ (∃ s', s.pop = (none, s') ∧ Rel lo s' []) := by
  obtain ⟨q, te, src, se, el, ec⟩ := s
  obtain ⟨ht, he, hk, hso, hl, hc⟩ := h
  simp only at ht hk hso hl hc
  obtain ⟨rfl, rfl⟩ := List.append_eq_nil_iff.1 ht
  rw [hn] at he
  cases te with
  | some e => simp [TState.pendErr] at he
  | none =>
    simp only [TState.pendErr] at he
    subst he
    exact ⟨⟨_, rfl, ⟨rfl, by rw [hn]; rfl, by simp, by simp, hl, hc⟩⟩, ⟨_, rfl, ⟨rfl, by rw [hn]; rfl, by simp, by simp, hl, hc⟩⟩⟩

/-- at the end of the ok tokens with a tokenizer error: `next` gives it; `peek` gives it, keeps the
state in relation, and the following `next` gives it (the `unwrap().unwrap_err()` sites) -/
theorem end_err {lo : LexOut} {s : TState} {e : LexErr} (h : Rel lo s []) (hn : lo.err = some e) :
    (∃ s', s.pop = (some (.error e), s')) ∧
    (∃ s', s.peek = (some (.error e), s') ∧ Rel lo s' [] ∧ ∃ s'', s'.pop = (some (.error e), s'')) := by
  obtain ⟨q, te, src, se, el, ec⟩ := s
  obtain ⟨ht, he, hk, hso, hl, hc⟩ := h
  simp only at ht hk hso hl hc
  obtain ⟨rfl, rfl⟩ := List.append_eq_nil_iff.1 ht
  rw [hn] at he
  cases te with
  | some e' =>
    simp only [TState.pendErr, Option.some.injEq] at he
    subst he
    exact ⟨⟨_, rfl⟩, ⟨_, rfl, ⟨rfl, by rw [hn]; rfl, by simp, hso, hl, hc⟩, _, rfl⟩⟩
  | none =>
    simp only [TState.pendErr] at he
    subst he
    exact ⟨⟨_, rfl⟩, ⟨_, rfl, ⟨rfl, by rw [hn]; rfl, by simp, by simp, hl, hc⟩, _, rfl⟩⟩

/-- simulation: the state-level result corresponds to the list-level result -/
def Sim (lo : LexOut) {α : Type} (x : SRes α) (y : Res (α × List Token)) : Prop :=
  match y with
  | .ok p => ∃ s', x = .ok p.1 s' ∧ Rel lo s' p.2
  | .err e => ∃ s', x = .err e s'
  | .panic => x = .panic
  | .fuel => x = .fuel

theorem sim_bind {lo : LexOut} {α β : Type} {x : SRes α} {y : Res (α × List Token)}
    {f : α → TState → SRes β} {g : α × List Token → Res (β × List Token)}
    (h : Sim lo x y) (hf : ∀ a r s', Rel lo s' r → Sim lo (f a s') (g (a, r))) : Sim lo (x.bind f) (y.bind g) := by
  cases y with
  | ok p =>
    obtain ⟨s', hx, hr⟩ := h
    rw [hx]
    exact hf p.1 p.2 s' hr
  | err e => obtain ⟨s', hx⟩ := h; rw [hx]; exact ⟨s', rfl⟩
  | panic => have : x = .panic := h; rw [this]; rfl
  | fuel => have : x = .fuel := h; rw [this]; rfl

theorem sim_ok {lo : LexOut} {α : Type} {a : α} {s : TState} {r : List Token} (h : Rel lo s r) :
    Sim lo (SRes.ok a s) (Res.ok (a, r)) := ⟨s, rfl, h⟩

theorem sim_err {lo : LexOut} {α : Type} (e : ParseErr) (s : TState) :
    Sim lo (SRes.err e s : SRes α) (Res.err e) := ⟨s, rfl⟩

theorem eofErrS_eq {lo : LexOut} {s : TState} {ts : List Token} (h : Rel lo s ts) (e : String) :
    eofErrS s e = eofErr lo e := by
  simp [eofErrS, eofErr, h.line, h.col]

/-- `next_inner` at the end of the ok tokens -/
theorem nextInner_nil {lo : LexOut} {s : TState} (h : Rel lo s []) (e : String) :
    ∃ s', nextInnerS e s = .err (endErr lo e) s' := by
  cases hn : lo.err with
  | none =>
    obtain ⟨_, s', hp, hr⟩ := end_none h hn
    exact ⟨s', by simp only [nextInnerS, hp, endErr, hn, eofErrS_eq hr]⟩
  | some le =>
    obtain ⟨⟨s', hp⟩, _⟩ := end_err h hn
    exact ⟨s', by simp only [nextInnerS, hp, endErr, hn]⟩

theorem nextInner_cons {lo : LexOut} {s : TState} {t : Token} {r : List Token} (h : Rel lo s (t :: r)) (e : String) :
    ∃ s', nextInnerS e s = .ok t s' ∧ Rel lo s' r := by
  obtain ⟨s', hp, hr⟩ := pop_cons h
  exact ⟨s', by simp only [nextInnerS, hp], hr⟩

/-- the closing bracket -/
theorem close_sim {lo : LexOut} {α : Type} {s : TState} {ts : List Token} (h : Rel lo s ts) (e : String) (w : Tok) (x : α) :
    Sim lo ((closeS e w s).bind fun _ s5 => SRes.ok x s5) ((close lo e w ts).bind fun r3 => Res.ok (x, r3)) := by
  cases ts with
  | nil =>
    obtain ⟨s', hs⟩ := nextInner_nil h e
    simp only [closeS, hs, SRes.bind, close, Res.bind]
    exact ⟨s', rfl⟩
  | cons t r =>
    obtain ⟨s', hs, hr⟩ := nextInner_cons h e
    simp only [closeS, hs, SRes.bind, close]
    by_cases hw : t.val = w
    · simp only [if_pos hw, Res.bind]; exact ⟨s', rfl, hr⟩
    · simp only [if_neg hw, Res.bind]; exact ⟨s', rfl⟩

theorem exprStart_sim {lo : LexOut} {s : TState} {ts : List Token} (h : Rel lo s ts) :
    (exprStartS s).1 = exprStart lo ts ∧ Rel lo (exprStartS s).2 ts := by
  cases ts with
  | cons t r =>
    obtain ⟨s', hp, hr⟩ := peek_cons h
    simp only [exprStartS, hp, exprStart]
    exact ⟨trivial, hr⟩
  | nil =>
    cases hn : lo.err with
    | none =>
      obtain ⟨⟨s', hp, hr⟩, _⟩ := end_none h hn
      simp only [exprStartS, hp, exprStart, hr.line, hr.col]
      exact ⟨trivial, hr⟩
    | some e =>
      obtain ⟨_, s', hp, hr, _⟩ := end_err h hn
      simp only [exprStartS, hp, exprStart, hr.line, hr.col]
      exact ⟨trivial, hr⟩

/-- `takeErrS` after a peeked error never hits the `unwrap` panics -/
theorem takeErr_sim {lo : LexOut} {α : Type} {s' : TState} {e : LexErr} (k : LexErr → ParseErr)
    (h : ∃ s'', s'.pop = (some (.error e), s'')) : Sim lo (takeErrS s' k : SRes α) (Res.err (k e)) := by
  obtain ⟨s'', hp⟩ := h
  simp only [takeErrS, hp]
  exact ⟨s'', rfl⟩

/-- the simulation at fuel `n`, for all five functions -/
structure RefAt (lo : LexOut) (n : Nat) : Prop where
  unary : ∀ s ts, Rel lo s ts → Sim lo (unaryS n s) (unaryF lo n ts)
  binary : ∀ g st s ts, Rel lo s ts → Sim lo (binaryS n g st s) (binaryF lo n g st ts)
  loop : ∀ g st lhs s ts, Rel lo s ts → Sim lo (binLoopS n g st lhs s) (binLoopF lo n g st lhs ts)
  args : ∀ s ts, Rel lo s ts → Sim lo (argsS n s) (argsF lo n ts)
  argsLoop : ∀ s ts, Rel lo s ts → Sim lo (argsLoopS n s) (argsLoopF lo n ts)

theorem operand_sim {lo : LexOut} {n : Nat} (ih : RefAt lo n) (g : BinOpGroup) (st : Nat × Nat) {s : TState}
    {ts : List Token} (h : Rel lo s ts) :
    Sim lo (match g.higher with
      | none => unaryS n s
      | some h => binaryS n h st s) (operandF lo n g st ts) := by
  unfold operandF
  cases g.higher with
  | none => exact ih.unary s ts h
  | some h' => exact ih.binary h' st s ts h

theorem refAt (lo : LexOut) : ∀ n, RefAt lo n := by
  intro n
  induction n with
  | zero =>
    constructor <;> intros <;> simp only [unaryS, binaryS, binLoopS, argsS, argsLoopS, unaryF, binaryF, binLoopF, argsF,
      argsLoopF] <;> rfl
  | succ n ih =>
    constructor
    · -- unary
      intro s ts h
      rw [unaryS]
      cases ts with
      | nil =>
        obtain ⟨s', hs⟩ := nextInner_nil h "<unary>"
        rw [hs, unaryF]
        exact ⟨s', rfl⟩
      | cons t r =>
        obtain ⟨s1, hs, hr⟩ := nextInner_cons h "<unary>"
        rw [hs, unaryF]
        simp only [SRes.bind]
        obtain ⟨l, c, v⟩ := t
        cases v <;> simp only [] <;> try exact sim_err _ _
        · exact sim_bind (ih.unary s1 r hr) (fun a r' s' hr' => sim_ok hr')
        · exact sim_bind (ih.unary s1 r hr) (fun a r' s' hr' => sim_ok hr')
        · exact sim_ok hr
        · -- identifier: function call or plain
          rename_i name
          cases r with
          | nil =>
            cases hn : lo.err with
            | none =>
              obtain ⟨⟨s2, hp, hr2⟩, _⟩ := end_none hr hn
              simp only [hp]
              exact sim_ok hr2
            | some e =>
              obtain ⟨_, s2, hp, hr2, _⟩ := end_err hr hn
              simp only [hp]
              exact sim_ok hr2
          | cons t1 r1 =>
            obtain ⟨s2, hp, hr2⟩ := peek_cons hr
            obtain ⟨s3, hp3, hr3⟩ := pop_cons hr2
            obtain ⟨l1, c1, v1⟩ := t1
            simp only [hp]
            cases v1 <;> simp only [] <;> try exact sim_ok hr2
            rw [hp3]
            exact sim_bind (ih.args s3 r1 hr3) (fun as r' s' hr' => close_sim hr' _ _ _)
        · exact sim_ok hr
        · obtain ⟨he, hr2⟩ := exprStart_sim hr
          rw [he]
          exact sim_bind (ih.binary _ _ _ r hr2) (fun a r' s' hr' => close_sim hr' _ _ _)
        · obtain ⟨he, hr2⟩ := exprStart_sim hr
          rw [he]
          exact sim_bind (ih.binary _ _ _ r hr2) (fun a r' s' hr' => close_sim hr' _ _ _)
        · exact sim_bind (ih.args s1 r hr) (fun as r' s' hr' => close_sim hr' _ _ _)
    · -- binary
      intro g st s ts h
      rw [binaryS, binaryF_succ]
      exact sim_bind (operand_sim ih g st h) (fun a r' s' hr' => ih.loop g st a s' r' hr')
    · -- loop
      intro g st lhs s ts h
      rw [binLoopS]
      cases ts with
      | nil =>
        rw [binLoopF]
        cases hn : lo.err with
        | none =>
          obtain ⟨⟨s1, hp, hr⟩, _⟩ := end_none h hn
          simp only [hp]
          exact sim_ok hr
        | some e =>
          obtain ⟨_, s1, hp, _, hpop⟩ := end_err h hn
          simp only [hp]
          exact takeErr_sim _ hpop
      | cons t r =>
        obtain ⟨s1, hp, hr⟩ := peek_cons h
        obtain ⟨s2, hp2, hr2⟩ := pop_cons hr
        rw [binLoopF_cons]
        simp only [hp]
        by_cases hs : t.val.isStop = true
        · simp only [if_pos hs]; exact sim_ok hr
        · simp only [if_neg hs]
          cases hop : t.val.binOp with
          | none => simp only []; exact sim_err _ _
          | some op =>
            simp only []
            by_cases h1 : op.group.toNat < g.toNat
            · simp only [if_pos h1]; exact sim_ok hr
            · simp only [if_neg h1]
              by_cases h2 : g.toNat < op.group.toNat
              · simp only [if_pos h2]; rfl
              · simp only [if_neg h2, hp2]
                exact sim_bind (operand_sim ih g st hr2) (fun a r' s' hr' => ih.loop g st _ s' r' hr')
    · -- args
      intro s ts h
      rw [argsS]
      cases ts with
      | nil =>
        rw [argsF]
        cases hn : lo.err with
        | none =>
          obtain ⟨⟨s1, hp, hr⟩, _⟩ := end_none h hn
          simp only [hp]
          exact sim_ok hr
        | some e =>
          obtain ⟨_, s1, hp, _, hpop⟩ := end_err h hn
          simp only [hp]
          exact takeErr_sim _ hpop
      | cons t r =>
        obtain ⟨s1, hp, hr⟩ := peek_cons h
        rw [argsF]
        simp only [hp]
        by_cases he : t.val.isArgsEnd = true
        · simp only [if_pos he]; exact sim_ok hr
        · simp only [if_neg he]; exact ih.argsLoop s1 _ hr
    · -- argsLoop
      intro s ts h
      rw [argsLoopS, argsLoopF]
      obtain ⟨he, hr0⟩ := exprStart_sim h
      rw [he]
      refine sim_bind (ih.binary _ _ _ ts hr0) ?_
      intro a r s2 hr
      cases r with
      | nil =>
        cases hn : lo.err with
        | none =>
          obtain ⟨⟨s3, hp, hr3⟩, _⟩ := end_none hr hn
          simp only [hp, eofErrS_eq hr3]
          exact sim_err _ _
        | some e =>
          obtain ⟨_, s3, hp, _, hpop⟩ := end_err hr hn
          simp only [hp]
          exact takeErr_sim _ hpop
      | cons t r1 =>
        obtain ⟨s3, hp, hr3⟩ := peek_cons hr
        obtain ⟨s4, hp4, hr4⟩ := pop_cons hr3
        simp only [hp]
        by_cases hsep : t.val = .sep
        · simp only [if_pos hsep, hp4]
          exact sim_bind (ih.argsLoop s4 r1 hr4) (fun as r' s' hr' => sim_ok hr')
        · simp only [if_neg hsep]
          by_cases hend : t.val.isArgsEnd = true
          · simp only [if_pos hend]; exact sim_ok hr3
          · simp only [if_neg hend]; exact sim_err _ _

end Trion.Parse
