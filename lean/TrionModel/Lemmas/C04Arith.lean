import TrionModel.Lemmas.C04Eval
import TrionModel.Lemmas.SimpClosed
/-!
# `C04.value` against the arithmetic specification `Arith.eval` (C07) by substitution of the symbol table

`C04.value T e := Simp.valC (env T) e` is defined through the model's folding step `foldBin`.  `subst T e` replaces every
defined, non-register name by its value; on the resulting literal-only tree `valC` is `valM` (bottom-up folding), which C07
(`valM_agree`) ties to `Arith.eval` away from the corners the property leaves open (`Arith.inScope`).
-/
namespace Trion.C04
open Trion Trion.Front Trion.Simp

/-- replace the defined names by their values -/
def subst (T : SymTable) : Arg → Arg
  | .ident s => match env T s with | some v => .const v | none => .ident s
  | .bin op l r => .bin op (subst T l) (subst T r)
  | .neg a => .neg (subst T a)
  | .not a => .not (subst T a)
  | a => a

theorem valC_subst (T : SymTable) : ∀ e, valC (env T) e = valC (env T) (subst T e) := by
  apply Arg.ind
  case const => intro v; rfl
  case ident =>
    intro s
    simp only [subst]
    cases h : env T s with
    | none => simp [valC, h]
    | some v => simp [valC, h]
  case str => intro s; rfl
  case bin => intro op l r ihl ihr; simp only [subst, valC, ihl, ihr]
  case neg => intro a ih; simp only [subst, valC, ih]
  case not => intro a ih; simp only [subst, valC, ih]
  case addr => intro a _; rfl
  case seq => intro as; rfl
  case func => intro n as; rfl

/-- on literal-only trees the checked value is the bottom-up folding -/
theorem valC_closed (ρ : Simp.Env) : ∀ t, Arith.closed t = true →
    valC ρ t = (match valM t with | .ok v => some v | .error _ => none) := by
  apply Arg.ind
  case const =>
    intro v hc
    simp only [Arith.closed] at hc
    simp [valC, valM, checked, inI64_eq_fits, hc]
  case ident => intro s hc; simp [Arith.closed] at hc
  case str => intro s hc; simp [Arith.closed] at hc
  case bin =>
    intro op l r ihl ihr hc
    simp only [Arith.closed, Bool.and_eq_true] at hc
    simp only [valC, valM, ihl hc.1, ihr hc.2]
    cases valM l with
    | error k => simp [liftBin]
    | ok a =>
      cases valM r with
      | error k => simp [liftBin]
      | ok b => simp only [liftBin, opC]; cases foldBin op a b <;> rfl
  case neg =>
    intro a ih hc
    simp only [Arith.closed] at hc
    simp only [valC, valM, ih hc]
    cases hv : valM a with
    | error k => rfl
    | ok v =>
      have hr := valM_range a hc hv
      simp only [Option.bind_some, checkedNeg, checked]
      by_cases hm : v = i64Min
      · subst hm; simp; decide
      · simp only [hm, if_false]
        have : inI64 (-v) = true := by
          have h12 : i64Min ≤ v ∧ v ≤ i64Max := by simpa [inI64] using hr
          obtain ⟨h1, h2⟩ := h12
          simp only [i64Min, i64Max] at h1 h2 hm
          have g1 : i64Min ≤ -v := by simp only [i64Min]; omega
          have g2 : -v ≤ i64Max := by simp only [i64Max]; omega
          simp [inI64, g1, g2]
        simp [this]
  case not =>
    intro a ih hc
    simp only [Arith.closed] at hc
    simp only [valC, valM, ih hc]
    cases valM a <;> rfl
  case addr => intro a _ hc; simp [Arith.closed] at hc
  case seq => intro as hc; simp [Arith.closed] at hc
  case func => intro n as hc; simp [Arith.closed] at hc

/-- a register-free expression over defined names with `i64` literals and `i64` table values becomes literal-only -/
theorem closed_subst (T : SymTable) (hT : ∀ s v, T s = some v → inI64 v = true) : ∀ e, expr e = true → valued T e = true →
    lits e = true → Arith.closed (subst T e) = true := by
  apply Arg.ind
  case const => intro v _ _ hl; simpa [subst, Arith.closed, lits, inI64_eq_fits] using hl
  case ident =>
    intro s he hv _
    simp only [expr, Bool.not_eq_true'] at he
    simp only [valued, he, Bool.false_or, Option.isSome_iff_exists] at hv
    obtain ⟨v, hv⟩ := hv
    simp [subst, env, he, hv, Arith.closed, ← inI64_eq_fits, hT s v hv]
  case str => intro s he; simp [expr] at he
  case bin =>
    intro op l r ihl ihr he hv hl
    simp only [expr, Bool.and_eq_true] at he
    simp only [valued, Bool.and_eq_true] at hv
    simp only [lits, Bool.and_eq_true] at hl
    simp [subst, Arith.closed, ihl he.1 hv.1 hl.1, ihr he.2 hv.2 hl.2]
  case neg => intro a ih he hv hl; simp only [expr] at he; simp only [valued] at hv; simp only [lits] at hl
              simp [subst, Arith.closed, ih he hv hl]
  case not => intro a ih he hv hl; simp only [expr] at he; simp only [valued] at hv; simp only [lits] at hl
              simp [subst, Arith.closed, ih he hv hl]
  case addr => intro a _ he; simp [expr] at he
  case seq => intro as he; simp [expr] at he
  case func => intro n as he; simp [expr] at he

/-- **`C04.value` is the arithmetic specification of C07 applied to the expression with the names substituted** (away from
the corners C07 leaves open: shifts of negative operands / into bit 63, `MIN % -1`) -/
theorem value_arith (T : SymTable) (e : Arg) (hc : Arith.closed (subst T e) = true) (hs : Arith.inScope (subst T e) = true) :
    (∀ v, value T e = some v ↔ Arith.eval (subst T e) = .ok v) ∧
    (value T e = none ↔ ∃ err, Arith.eval (subst T e) = .error err) := by
  have h1 : value T e = (match valM (subst T e) with | .ok v => some v | .error _ => none) := by
    unfold value; rw [valC_subst, valC_closed _ _ hc]
  have hag := valM_agree (subst T e) hc hs
  rw [h1]
  cases hv : valM (subst T e) with
  | ok w =>
    rw [hv] at hag
    cases he : Arith.eval (subst T e) with
    | error er => simp [he, agree] at hag
    | ok w' =>
      have : w = w' := by simpa [he, agree] using hag
      subst this
      simp
  | error k =>
    rw [hv] at hag
    cases he : Arith.eval (subst T e) with
    | ok w => simp [he, agree] at hag
    | error er => simp

end Trion.C04
