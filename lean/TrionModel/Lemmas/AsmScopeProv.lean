import TrionModel.Lemmas.AsmScopeRel
/-!
# `Trion.Asm`: where a valued entry of a file's own table can come from (C14 isolation on the whole-pipeline model)

`Src3 … m v` classifies the statements of a file's own text that can give `m` the value `v` in the file's table:
a definition (`m:` / `.const m, e`), an `.import m` (then the includer's table has `m = v`), or an `.include` whose
file itself exports / declares global `m` and has `m = v` in its own final table.  Nothing else creates a valued
entry: not `.global` (it only announces), not `.export`, not a `.du*` or an instruction, not a task.
-/
namespace Trion.Asm
open Trion

/-- the statement defines `m`: the label `m:` or `.const m, e` -/
def defines (m : Bytes) (el : Element) : Prop :=
  el.val = .label m ∨ ∃ args e, el.val = .directive (bytesOf "const") args ∧ args.toList = [.ident m, e]

/-- the statement is `.import m` -/
def imports (m : Bytes) (el : Element) : Prop :=
  ∃ args, el.val = .directive (bytesOf "import") args ∧ args.toList = [.ident m]

def isInclude (el : Element) : Prop := ∃ args, el.val = .directive (bytesOf "include") args

/-- a `.include` processed by a file whose table was `L`: it assembled the file `path` from the empty table, that file's
own text exports / declares global `m`, and its own final table has `m = v` -/
def SentUp (fs : Bytes → Option Bytes) (enc : Encoder) (fuel : Nat) (env : Env) (L : Table) (m : Bytes) (v : Int) : Prop :=
  ∃ fuel' path data els perr st2 st4 r4 C, fuel = fuel' + 1 ∧ fs path = some data ∧
    parseFile data = .ok (els, perr) ∧ st2.locals = some [] ∧ st2.globals = L ∧ st2.localTasks = some [] ∧
    fileBody fs enc (assembleFile fs enc fuel') ⟨path :: env.paths, path⟩ data st2 = .ok (st4, r4) ∧
    st4.locals = some C ∧ m ∈ fileNames els ∧ C.find m = some (some v)

/-- no entry of the file's own table became valued -/
def NoNew (st st' : St) : Prop :=
  ∀ C', st'.locals = some C' → ∃ C, st.locals = some C ∧ ∀ m v, C'.find m = some (some v) → C.find m = some (some v)

theorem NoNew.of_eq {st st' : St} (h : st'.locals = st.locals) : NoNew st st' :=
  fun C' hC' => ⟨C', h ▸ hC', fun _ _ hv => hv⟩

theorem NoNew.trans {a b c : St} (h1 : NoNew a b) (h2 : NoNew b c) : NoNew a c := by
  intro C2 hC2
  obtain ⟨C1, hC1, f2⟩ := h2 C2 hC2
  obtain ⟨C0, hC0, f1⟩ := h1 C1 hC1
  exact ⟨C0, hC0, fun m v hv => f1 m v (f2 m v hv)⟩

theorem insertConstant_global_locals {st st' : St} {n : Bytes} {v : Int} {x : Except CErr Bool}
    (h : insertConstant st n v .global = .ok (st', x)) : st'.locals = st.locals := by
  rcases insertConstant_char h with ⟨rfl, _⟩ | ⟨_, _, _, _, _, _, ho, _⟩
  · rfl
  · exact ho

theorem deferConstant_global_locals {st st' : St} {n : Bytes} {x : Except CErr Unit}
    (h : deferConstant st n .global = .ok (st', x)) : st'.locals = st.locals := by
  rcases deferConstant_char h with ⟨rfl, _⟩ | ⟨_, _, _, _, _, ho, _⟩
  · rfl
  · exact ho

theorem deferConstant_loc_nonew {st st' : St} {n : Bytes} {x : Except CErr Unit}
    (h : deferConstant st n .loc = .ok (st', x)) : NoNew st st' := by
  rcases deferConstant_char h with ⟨rfl, _⟩ | ⟨t, _, ht, hn, ht', _, _, _⟩
  · exact .of_eq rfl
  · simp only [St.tab] at ht ht'
    intro C' hC'
    rw [ht'] at hC'; cases hC'
    refine ⟨t, ht, fun m v hv => ?_⟩
    rw [find_set] at hv
    split at hv
    · cases hv
    · exact hv

theorem addTask_locals {st st' : St} {t : Task} {r : Realm} (h : addTask st t r = .ok st') : st'.locals = st.locals := by
  unfold addTask at h
  repeat' split at h
  all_goals (first | (cases h; done) | (cases h; rfl))

theorem runGlobalCopy_locals {name : Bytes} {line col : Nat} {env : Env} {st : St} :
    ∀ st' r, runGlobalCopy name line col env st = .ok (st', r) → st'.locals = st.locals := by
  unfold runGlobalCopy
  splits
  all_goals (intro st' r h)
  all_goals (first | (cases h; done) | (cases h; rfl) | skip)
  all_goals (have w := insertConstant_global_locals ‹insertConstant _ _ _ .global = _›)
  all_goals (cases h; exact w)

/-- `.global` and `.export` never give an entry of the file's own table a value -/
theorem upDirective_nonew {g : GDir} (hg : g ≠ .import_) {env : Env} {st : St} {line col : Nat} {args : List Arg} :
    ∀ st' r, globalDirective g env st line col args = .ok (st', r) → NoNew st st' := by
  cases g with
  | import_ => exact absurd rfl hg
  | export_ =>
    unfold globalDirective
    splits
    all_goals (intro st' r h)
    all_goals (first | (cases h; done) | (cases h; exact .of_eq rfl) | skip)
    all_goals (first | exact absurd trivial ‹¬True› | exact absurd ‹GDir.export_ = GDir.global› (by decide) | exact absurd ‹GDir.export_ = GDir.import_› (by decide) | exact absurd rfl ‹¬GDir.export_ = GDir.export_› | skip)
    all_goals (have w := insertConstant_global_locals ‹insertConstant st _ _ .global = _›)
    all_goals (cases h; exact .of_eq w)
  | global =>
    unfold globalDirective
    splits
    all_goals (intro st' r h)
    all_goals (first | (cases h; done) | (cases h; exact .of_eq rfl) | skip)
    all_goals (first | exact absurd rfl ‹GDir.global = GDir.global → False› | skip)
    all_goals (have w2 : NoNew st _ := .of_eq (deferConstant_global_locals ‹deferConstant st _ Realm.global = _›))
    all_goals (first | (cases h; exact w2) | skip)
    all_goals (try (have w1 : NoNew _ _ := .of_eq (insertConstant_global_locals ‹insertConstant _ _ _ Realm.global = _›)))
    all_goals (first | (cases h; exact w2.trans w1) | skip)
    all_goals (try (have w3 := deferConstant_loc_nonew ‹deferConstant _ _ Realm.loc = _›))
    all_goals (have w4 : NoNew _ _ := .of_eq (addTask_locals ‹addTask _ _ _ = _›))
    all_goals (cases h; first | exact (w2.trans w3).trans w4 | exact w2.trans w4)

theorem define_char {st st' : St} {l : Table} {n : Bytes} {v : Int} {x : Except CErr Bool}
    (hl : st.locals = some l) (h : insertConstant st n v .loc = .ok (st', x)) :
    st'.globals = st.globals ∧
    ∃ l', st'.locals = some l' ∧ ∀ m, l'.find m = l.find m ∨ (m = n ∧ l'.find m = some (some v)) := by
  rcases insertConstant_char h with ⟨rfl, _⟩ | ⟨t, b, _, ht, _, ht', ho, _, _, _⟩
  · exact ⟨rfl, l, hl, fun _ => .inl rfl⟩
  · simp only [St.tab, Realm.other, Option.some.injEq] at ht ht' ho
    rw [hl] at ht; cases ht
    refine ⟨ho, _, ht', fun m => ?_⟩
    rw [find_set]
    by_cases e : n = m
    · subst e; exact .inr ⟨rfl, by simp⟩
    · rw [if_neg e]; exact .inl rfl

theorem isolation_define_aux {fs : Bytes → Option Bytes} {enc : Encoder} {inc : Inc} {env : Env} {st st' : St}
    {el : Element} {r : Res} {l : Table} (hl : st.locals = some l)
    (hk : (∃ n, el.val = .label n) ∨ ∃ args, el.val = .directive (bytesOf "const") args)
    (h : statement fs enc inc env st el = .ok (st', r)) :
    st'.globals = st.globals ∧
    ∃ l', st'.locals = some l' ∧ ∀ m, l'.find m = l.find m ∨
      (∃ v, l'.find m = some (some v) ∧
        ((el.val = .label m) ∨ ∃ args e, el.val = .directive (bytesOf "const") args ∧ args.toList = [.ident m, e])) := by
  have keep : ∀ {st1 : St}, st1.globals = st.globals → st1.locals = st.locals →
      st1.globals = st.globals ∧ ∃ l', st1.locals = some l' ∧ ∀ m, l'.find m = l.find m ∨
      (∃ v, l'.find m = some (some v) ∧
        ((el.val = .label m) ∨ ∃ args e, el.val = .directive (bytesOf "const") args ∧ args.toList = [.ident m, e])) :=
    fun hg hl' => ⟨hg, l, hl'.trans hl, fun _ => .inl rfl⟩
  rcases hk with ⟨n, hv⟩ | ⟨args, hv⟩
  · simp only [statement, hv] at h
    repeat' split at h
    all_goals (first | (cases h; done) | (cases h; exact keep rfl rfl) | skip)
    all_goals
      rename_i hi
      obtain ⟨hg, l', hl', hm⟩ := define_char hl hi
      cases h
      refine ⟨hg, l', hl', fun m => ?_⟩
      rcases hm m with e | ⟨rfl, e⟩
      · exact .inl e
      · exact .inr ⟨_, e, .inl hv⟩
  · simp only [statement, hv, directive_const] at h
    unfold constDirective at h
    repeat' split at h
    all_goals (first | (cases h; done) | (cases h; exact keep rfl rfl) | (cases h; exact keep (evalStrict_quiet ‹evalStrict _ _ _ _ _ _ = _›).globals (evalStrict_quiet ‹evalStrict _ _ _ _ _ _ = _›).locals) | skip)
    all_goals
      rename_i hi
      obtain ⟨hg, l', hl', hm⟩ := define_char hl hi
      cases h
      refine ⟨hg, l', hl', fun m => ?_⟩
      rcases hm m with e | ⟨rfl, e⟩
      · exact .inl e
      · exact .inr ⟨_, e, .inr ⟨args, _, hv, ‹args.toList = _›⟩⟩

theorem import_aux {env : Env} {st st' : St} {l : Table} {line col : Nat} {args : List Arg} {r : Res}
    (hl : st.locals = some l) (h : globalDirective .import_ env st line col args = .ok (st', r)) :
    st'.globals = st.globals ∧
    ∃ l', st'.locals = some l' ∧ ∀ m, l'.find m = l.find m ∨ (args = [.ident m] ∧ l'.find m = st.globals.find m) := by
  have keep : ∀ {st1 : St}, st1.globals = st.globals → st1.locals = st.locals →
      st1.globals = st.globals ∧ ∃ l', st1.locals = some l' ∧ ∀ m, l'.find m = l.find m ∨
        (args = [.ident m] ∧ l'.find m = st.globals.find m) :=
    fun hg hl' => ⟨hg, l, hl'.trans hl, fun _ => .inl rfl⟩
  unfold globalDirective at h
  repeat' (first | split at h | simp only at h)
  all_goals (first | (cases h; done) | (cases h; exact keep rfl rfl) | skip)
  all_goals (first | exact absurd trivial ‹¬True› | exact absurd ‹GDir.import_ = GDir.global› (by decide) | exact absurd ‹GDir.import_ = GDir.export_› (by decide) | exact absurd rfl ‹¬GDir.import_ = GDir.import_› | skip)
  -- the includer's entry is unvalued: announce it locally
  all_goals (try (
    have hgc := ‹getConstant st _ Realm.global = Out.ok Simp.Lookup.deferred›
    have hd := ‹deferConstant st _ Realm.loc = _›
    have hgf : st.globals.find _ = some none := get_deferred (by simpa [getConstant] using hgc)
    rcases deferConstant_char hd with ⟨rfl, _⟩ | ⟨t, _, ht, _, ht', ho, _, _⟩
    · cases h; exact keep rfl rfl
    · simp only [St.tab, Realm.other, Option.some.injEq] at ht ht' ho
      rw [hl] at ht; cases ht
      cases h
      refine ⟨ho, _, ht', fun m => ?_⟩
      rw [find_set]
      split
      · rename_i e; subst e; exact .inr ⟨rfl, by simp [hgf]⟩
      · exact .inl rfl))
  -- the includer's entry has a value: copy it
  all_goals (
    have hgc := ‹getConstant st _ Realm.global = Out.ok (Simp.Lookup.found _)›
    have hi := ‹insertConstant st _ _ Realm.loc = _›
    have hgf : st.globals.find _ = some (some _) := get_found (by simpa [getConstant] using hgc)
    rcases insertConstant_char hi with ⟨rfl, _⟩ | ⟨t, b, _, ht, _, ht', ho, _, _, _⟩
    · cases h; exact keep rfl rfl
    · simp only [St.tab, Realm.other, Option.some.injEq] at ht ht' ho
      rw [hl] at ht; cases ht
      cases h
      refine ⟨ho, _, ht', fun m => ?_⟩
      rw [find_set]
      split
      · rename_i e; subst e; exact .inr ⟨rfl, by simp [hgf]⟩
      · exact .inl rfl)

theorem frame_aux {fs : Bytes → Option Bytes} {enc : Encoder} {fuel : Nat} {env : Env} {st st' : St} {line col : Nat}
    {args : List Arg} {r : Res} {L : Table} (hL : st.locals = some L)
    (h : includeDirective fs (assembleFile fs enc fuel) env st line col args = .ok (st', r)) :
    st'.globals = st.globals ∧
    ((st'.locals = some L ∧ ∃ k, st' = st.push env line col k) ∨
     ∃ fuel' path data els perr st2 st4 r4 C L', fuel = fuel' + 1 ∧ fs path = some data ∧
       parseFile data = .ok (els, perr) ∧
       st2.locals = some [] ∧ st2.globals = L ∧ st2.localTasks = some [] ∧
       fileBody fs enc (assembleFile fs enc fuel') ⟨path :: env.paths, path⟩ data st2 = .ok (st4, r4) ∧
       st4.locals = some C ∧ st'.locals = some L' ∧ Upd (fileNames els) L L' C) := by
  rcases includeDirective_cases _ _ h with ⟨k, rfl⟩ | ⟨data, path, st1, r1, hfs, hinc, hst⟩
  · exact ⟨rfl, .inl ⟨hL, k, rfl⟩⟩
  · cases fuel with
    | zero => simp [assembleFile] at hinc
    | succ fuel' =>
      obtain ⟨st2, st4, els, perr, C, h1, h2, h3, h4, h5, _, h7, h8, h9, h10, _⟩ :=
        assembleFile_inside (assembleFile_rel fs enc fuel') hL hinc
      have key : st1.globals = st.globals ∧ ∃ fuel'' path data els perr st2 st4 r4 C L', fuel' + 1 = fuel'' + 1 ∧
          fs path = some data ∧ parseFile data = .ok (els, perr) ∧
          st2.locals = some [] ∧ st2.globals = L ∧ st2.localTasks = some [] ∧
          fileBody fs enc (assembleFile fs enc fuel'') ⟨path :: env.paths, path⟩ data st2 = .ok (st4, r4) ∧
          st4.locals = some C ∧ st1.locals = some L' ∧ Upd (fileNames els) L L' C :=
        ⟨h10, fuel', path, data, els, perr, st2, st4, r1, C, st4.globals, rfl, hfs, h5, h1, h2, h3, h4, h7, h8, h9⟩
      rcases hst with rfl | ⟨k, rfl⟩
      · exact ⟨key.1, .inr key.2⟩
      · exact ⟨key.1, .inr key.2⟩

theorem include_aux {fs : Bytes → Option Bytes} {enc : Encoder} {fuel : Nat} {env : Env} {st st' : St}
    {line col : Nat} {args : List Arg} {r : Res} {L : Table} (hL : st.locals = some L)
    (h : includeDirective fs (assembleFile fs enc fuel) env st line col args = .ok (st', r)) :
    ∃ L', st'.locals = some L' ∧ ∀ m v, L'.find m = some (some v) → L.find m = some (some v) ∨
      SentUp fs enc fuel env L m v := by
  rcases (frame_aux hL h).2 with ⟨hl', _⟩ | ⟨fuel', path, data, els, perr, st2, st4, r4, C, L', hf, hfs, hp, h1, h2, h3, h4, h5, h6, u⟩
  · exact ⟨L, hl', fun m v hv => .inl hv⟩
  · refine ⟨L', h6, fun m v hv => ?_⟩
    rcases u m with e | ⟨hn, _, hc⟩
    · rw [e] at hv; exact .inl hv
    · rcases hc with ⟨v', hc1, hc2⟩ | ⟨_, hc2⟩
      · rw [hc2] at hv; cases hv
        exact .inr ⟨fuel', path, data, els, perr, st2, st4, r4, C, hf, hfs, hp, h1, h2, h3, h4, h5, hn, hc1⟩
      · rw [hc2] at hv; cases hv

/-- the classification of one statement: what is valued afterwards was valued before, or the statement defines it, or
imports it (the includer has it with this value), or is an `.include` whose file sent it up -/
theorem statement_origin {fs : Bytes → Option Bytes} {enc : Encoder} {fuel : Nat} {env : Env} {st st' : St} {C C' : Table}
    {el : Element} {r : Res} (hC : st.locals = some C) (hC' : st'.locals = some C')
    (h : statement fs enc (assembleFile fs enc fuel) env st el = .ok (st', r)) :
    ∀ m v, C'.find m = some (some v) → C.find m = some (some v) ∨ defines m el ∨
      (imports m el ∧ st.globals.find m = some (some v)) ∨ (isInclude el ∧ SentUp fs enc fuel env C m v) := by
  have same : NoNew st st' → ∀ m v, C'.find m = some (some v) → C.find m = some (some v) ∨ defines m el ∨
      (imports m el ∧ st.globals.find m = some (some v)) ∨ (isInclude el ∧ SentUp fs enc fuel env C m v) := by
    intro hn m v hv
    obtain ⟨C0, hC0, f⟩ := hn C' hC'
    rw [hC] at hC0; cases hC0
    exact .inl (f m v hv)
  have quiet : Quiet st st' → NoNew st st' := fun q => .of_eq q.locals
  cases hv : el.val with
  | label name =>
    obtain ⟨_, l', hl', hm⟩ := isolation_define_aux hC (.inl ⟨name, hv⟩) h
    rw [hC'] at hl'; cases hl'
    intro m v hval
    rcases hm m with e | ⟨_, _, hd⟩
    · rw [e] at hval; exact .inl hval
    · exact .inr (.inl hd)
  | instruction name args =>
    simp only [statement, hv] at h
    split at h
    · cases h; exact same (.of_eq rfl)
    · exact same (quiet (instruction_quiet _ _ h))
  | directive name args =>
    by_cases h2 : name = bytesOf "const"
    · subst h2
      obtain ⟨_, l', hl', hm⟩ := isolation_define_aux hC (.inr ⟨args, hv⟩) h
      rw [hC'] at hl'; cases hl'
      intro m v hval
      rcases hm m with e | ⟨_, _, hd⟩
      · rw [e] at hval; exact .inl hval
      · exact .inr (.inl hd)
    simp only [statement, hv] at h
    by_cases h10 : name = bytesOf "import"
    · subst h10
      rw [directive_import] at h
      obtain ⟨_, l', hl', hm⟩ := import_aux hC h
      rw [hC'] at hl'; cases hl'
      intro m v hval
      rcases hm m with e | ⟨ha, e⟩
      · rw [e] at hval; exact .inl hval
      · rw [e] at hval
        exact .inr (.inr (.inl ⟨⟨args, hv, ha⟩, hval⟩))
    by_cases h12 : name = bytesOf "include"
    · subst h12
      rw [directive_include] at h
      obtain ⟨L', hL', hm⟩ := include_aux hC h
      rw [hC'] at hL'; cases hL'
      intro m v hval
      rcases hm m v hval with e | e
      · exact .inl e
      · exact .inr (.inr (.inr ⟨⟨args, hv⟩, e⟩))
    by_cases h9 : name = bytesOf "global"
    · subst h9
      rw [directive_global] at h
      exact same (upDirective_nonew (by decide) _ _ h)
    by_cases h11 : name = bytesOf "export"
    · subst h11
      rw [directive_export] at h
      exact same (upDirective_nonew (by decide) _ _ h)
    delta directive at h
    by_cases h0 : name = bytesOf "addr"
    · rw [if_pos h0] at h; exact same (quiet (addrDirective_quiet _ _ h))
    rw [if_neg h0] at h
    by_cases h1 : name = bytesOf "align"
    · rw [if_pos h1] at h; exact same (quiet (alignDirective_quiet _ _ h))
    rw [if_neg h1, if_neg h2] at h
    by_cases h3 : name = bytesOf "du8"
    · rw [if_pos h3] at h; exact same (quiet (duDirective_quiet _ _ h))
    rw [if_neg h3] at h
    by_cases h4 : name = bytesOf "du16"
    · rw [if_pos h4] at h; exact same (quiet (duDirective_quiet _ _ h))
    rw [if_neg h4] at h
    by_cases h5 : name = bytesOf "du32"
    · rw [if_pos h5] at h; exact same (quiet (duDirective_quiet _ _ h))
    rw [if_neg h5] at h
    by_cases h6 : name = bytesOf "dhex"
    · rw [if_pos h6] at h; exact same (quiet (stringDirective_quiet _ _ h))
    rw [if_neg h6] at h
    by_cases h7 : name = bytesOf "dstr"
    · rw [if_pos h7] at h; exact same (quiet (stringDirective_quiet _ _ h))
    rw [if_neg h7] at h
    by_cases h8 : name = bytesOf "dfile"
    · rw [if_pos h8] at h; exact same (quiet (stringDirective_quiet _ _ h))
    rw [if_neg h8, if_neg h9, if_neg h10, if_neg h11, if_neg h12] at h
    cases h; exact same (.of_eq rfl)

/-! ## a whole body, the task loop, a whole file -/

/-- where `m = v` in a file's table can come from, over the statements `els` of its own text; `G` = the includer's
table as the file (so far) leaves it, `Ls` = the tables the file had when it processed its `.include`s -/
def Origin (fs : Bytes → Option Bytes) (enc : Encoder) (fuel : Nat) (env : Env) (els : List Element) (G : Table)
    (m : Bytes) (v : Int) : Prop :=
  (∃ el ∈ els, defines m el) ∨ ((∃ el ∈ els, imports m el) ∧ G.find m = some (some v)) ∨
  (∃ el ∈ els, isInclude el ∧ ∃ L, SentUp fs enc fuel env L m v)

theorem Origin.mono {fs : Bytes → Option Bytes} {enc : Encoder} {fuel : Nat} {env : Env} {els els' : List Element}
    {G G' : Table} {m : Bytes} {v : Int} (h : Origin fs enc fuel env els G m v) (hs : ∀ el ∈ els, el ∈ els')
    (hg : G.le G') : Origin fs enc fuel env els' G' m v := by
  rcases h with ⟨el, he, hd⟩ | ⟨⟨el, he, hi⟩, hv⟩ | ⟨el, he, hi⟩
  · exact .inl ⟨el, hs el he, hd⟩
  · exact .inr (.inl ⟨⟨el, hs el he, hi⟩, hg m v hv⟩)
  · exact .inr (.inr ⟨el, hs el he, hi⟩)

theorem doAssemble_origin {fs : Bytes → Option Bytes} {enc : Encoder} {fuel : Nat} {env : Env} (err : Option ParseErr) :
    ∀ (els : List Element) (st : St) (C : Table), st.locals = some C →
      ∀ st' r C', doAssemble fs enc (assembleFile fs enc fuel) env els err st = .ok (st', r) → st'.locals = some C' →
      ∀ m v, C'.find m = some (some v) → C.find m = some (some v) ∨ Origin fs enc fuel env els st'.globals m v := by
  intro els
  induction els with
  | nil =>
    intro st C hC st' r C' h hC' m v hv
    cases err with
    | none => simp only [doAssemble] at h; cases h; rw [hC] at hC'; cases hC'; exact .inl hv
    | some e => simp only [doAssemble] at h; cases h; rw [show (st.push env e.line e.col _).locals = st.locals from rfl, hC] at hC'; cases hC'; exact .inl hv
  | cons el els ih =>
    intro st C hC st' r C' h hC' m v hv
    simp only [doAssemble] at h
    have one : ∀ {st1 : St} {r1 : Res} {C1 : Table} {G : Table},
        statement fs enc (assembleFile fs enc fuel) env st el = .ok (st1, r1) → st1.locals = some C1 →
        st.globals.le G → C1.find m = some (some v) →
        C.find m = some (some v) ∨ Origin fs enc fuel env (el :: els) G m v := by
      intro st1 r1 C1 G hs hC1 hle hv1
      rcases statement_origin hC hC1 hs m v hv1 with e | hd | ⟨hi, hg⟩ | ⟨hi, hu⟩
      · exact .inl e
      · exact .inr (.inl ⟨el, List.mem_cons_self, hd⟩)
      · exact .inr (.inr (.inl ⟨⟨el, List.mem_cons_self, hi⟩, hle m v hg⟩))
      · exact .inr (.inr (.inr ⟨el, List.mem_cons_self, hi, C, hu⟩))
    split at h
    · rename_i st1 hs
      have w1 := statement_rel (assembleFile_rel fs enc fuel) hC _ _ hs
      obtain ⟨C1, hC1⟩ := w1.locals_some
      have w2 := doAssemble_rel (assembleFile_rel fs enc fuel) err els st1 C1 hC1 _ _ h
      have le1 : st.globals.le st1.globals := by obtain ⟨_, _, _, _, _, u⟩ := w1.tabs; exact u.le
      have le2 : st1.globals.le st'.globals := by obtain ⟨_, _, _, _, _, u⟩ := w2.tabs; exact u.le
      rcases ih st1 C1 hC1 st' r C' h hC' m v hv with e | ho
      · exact one hs hC1 (Table.le_trans le1 le2) e
      · exact .inr (ho.mono (fun x hx => List.mem_cons_of_mem _ hx) (Table.le_refl _))
    · rename_i st1 l hs
      cases h
      have w1 := statement_rel (assembleFile_rel fs enc fuel) hC _ _ hs
      have le1 : st.globals.le st'.globals := by obtain ⟨_, _, _, _, _, u⟩ := w1.tabs; exact u.le
      exact one hs hC' le1 hv
    · cases h

theorem runTask_locals {enc : Encoder} {env : Env} {st : St} {t : Task} :
    ∀ st' r, runTask enc env st t = .ok (st', r) → st'.locals = st.locals := by
  cases t with
  | data d g => exact fun st' r h => (runDataTask_quiet st' r h).locals
  | instr i g => exact fun st' r h => (runInstrTask_quiet st' r h).locals
  | globalCopy n l c => exact runGlobalCopy_locals

theorem localRound_locals {enc : Encoder} {env : Env} : ∀ (ts : List Task) (st : St) (res : Res),
    ∀ st' r, localRound enc env ts st res = .ok (st', r) → st'.locals = st.locals := by
  intro ts
  induction ts with
  | nil => intro st res st' r h; simp only [localRound] at h; cases h; rfl
  | cons t ts ih =>
    intro st res st' r h
    simp only [localRound] at h
    split at h
    · rename_i st1 hr; exact (ih st1 res _ _ h).trans (runTask_locals _ _ hr)
    · rename_i st1 l hr
      split at h
      · cases h; exact runTask_locals _ _ hr
      · exact (ih st1 _ _ _ h).trans (runTask_locals _ _ hr)
    · cases h

/-- the task loop of a file never touches the file's own table -/
theorem localLoop_locals {enc : Encoder} {env : Env} : ∀ (n : Nat) (ts : List Task) (st : St) (res : Res),
    ∀ st' r, localLoop enc env n ts st res = .ok (st', r) → st'.locals = st.locals := by
  intro n
  induction n with
  | zero => intro ts st res st' r h; simp [localLoop] at h
  | succ n ih =>
    intro ts st res st' r h
    simp only [localLoop] at h
    split at h
    · cases h; rfl
    · split at h
      · rename_i st1 res1 hr
        have e1 := localRound_locals ts st res _ _ hr
        split at h
        · cases h
        · split at h
          · cases h; exact e1
          · exact (ih _ { st1 with localTasks := some [] } res1 _ _ h).trans e1
      · cases h

/-- a whole file, assembled from the empty table: every valued entry of its final table has an `Origin` in the
statements of its own text (with the includer's table as the file leaves it) -/
theorem fileBody_origin {fs : Bytes → Option Bytes} {enc : Encoder} {fuel : Nat} {env : Env} {data : Bytes} {st st' : St}
    {r : Res} {C' : Table} (hC : st.locals = some []) (hq : st.localTasks = some [])
    (h : fileBody fs enc (assembleFile fs enc fuel) env data st = .ok (st', r)) (hC' : st'.locals = some C') :
    ∃ els perr, parseFile data = .ok (els, perr) ∧
      ∀ m v, C'.find m = some (some v) → Origin fs enc fuel env els st'.globals m v := by
  have hrel := fileBody_rel (assembleFile_rel fs enc fuel) hC hq _ _ h
  unfold fileBody at h
  split at h
  · rename_i els perr hpf
    refine ⟨els, perr, hpf, fun m v hv => ?_⟩
    split at h
    · rename_i st3 res hd
      have w1 := doAssemble_rel (assembleFile_rel fs enc fuel) perr els st [] hC _ _ hd
      obtain ⟨C3, hC3⟩ := w1.locals_some
      have fromBody : ∀ {G : Table}, st3.globals.le G → C3.find m = some (some v) → Origin fs enc fuel env els G m v := by
        intro G hle hv3
        rcases doAssemble_origin perr els st [] hC st3 res C3 hd hC3 m v hv3 with e | ho
        · simp [Table.find] at e
        · exact ho.mono (fun _ hx => hx) hle
      split at h
      · cases h
        rw [hC3] at hC'; cases hC'
        exact fromBody (Table.le_refl _) hv
      · split at h
        · cases h
        · rename_i tasks ht
          have el := localLoop_locals rounds tasks { st3 with localTasks := some [] } res _ _ h
          have hC3' : st'.locals = some C3 := el.trans hC3
          rw [hC'] at hC3'; cases hC3'
          have htN : ∀ t ∈ tasks, t.fromN (fileNames els) := by
            intro t hm
            rcases w1.lt tasks ht t hm with ⟨q, hq0, hm0⟩ | hf
            · rw [hq] at hq0; cases hq0; cases hm0
            · exact hf
          have w2 := localLoop_rel rounds tasks { st3 with localTasks := some [] } res _ hC3 htN
            (fun q hq t ht => by cases hq; cases ht) _ _ h
          have le2 : st3.globals.le st'.globals := by obtain ⟨_, _, _, _, _, u⟩ := w2.tabs; exact u.le
          exact fromBody le2 hv
    · cases h
  · cases h

/-! ## a name that no file defines -/

/-- no file of the project has a label `m:` or a `.const m, …` -/
def NoDef (fs : Bytes → Option Bytes) (m : Bytes) : Prop :=
  ∀ path data els perr, fs path = some data → parseFile data = .ok (els, perr) → ∀ el ∈ els, ¬ defines m el

def Unvalued (t : Table) (m : Bytes) : Prop := ∀ w, t.find m ≠ some (some w)

theorem unvalued_of_rel {N : List Bytes} {a b : St} {m : Bytes} (h : Rel N a b)
    (hb : ∀ C', b.locals = some C' → Unvalued C' m) (ha : Unvalued a.globals m) : Unvalued b.globals m := by
  obtain ⟨C, C', _, hC', _, u⟩ := h.tabs
  intro w hw
  rcases u m with e | ⟨_, _, hc⟩
  · rw [e] at hw; exact ha w hw
  · rcases hc with ⟨v, hv, _⟩ | ⟨_, hn⟩
    · exact hb C' hC' v hv
    · rw [hn] at hw; cases hw

/-- what the induction over the include depth provides for the files included from here -/
def ChildOk (fs : Bytes → Option Bytes) (enc : Encoder) (fuel : Nat) (m : Bytes) : Prop :=
  ∀ env data path st st' r, fs path = some data → st.locals = some [] → st.localTasks = some [] →
    Unvalued st.globals m → fileBody fs enc (assembleFile fs enc fuel) env data st = .ok (st', r) →
    (∀ C', st'.locals = some C' → Unvalued C' m) ∧ Unvalued st'.globals m

theorem doAssemble_unvalued {fs : Bytes → Option Bytes} {enc : Encoder} {fuel : Nat} {env : Env} {m : Bytes}
    (ihf : ∀ fuel', fuel = fuel' + 1 → ChildOk fs enc fuel' m) (err : Option ParseErr) :
    ∀ (els : List Element) (st : St) (C : Table), (∀ el ∈ els, ¬ defines m el) → st.locals = some C →
      Unvalued C m → Unvalued st.globals m →
      ∀ st' r, doAssemble fs enc (assembleFile fs enc fuel) env els err st = .ok (st', r) →
      (∀ C', st'.locals = some C' → Unvalued C' m) ∧ Unvalued st'.globals m := by
  intro els
  induction els with
  | nil =>
    intro st C _ hC hu hg st' r h
    cases err with
    | none =>
      simp only [doAssemble] at h; cases h
      exact ⟨fun C' hC' => by rw [hC] at hC'; cases hC'; exact hu, hg⟩
    | some e =>
      simp only [doAssemble] at h; cases h
      exact ⟨fun C' hC' => by
        rw [show (st.push env e.line e.col _).locals = st.locals from rfl, hC] at hC'; cases hC'; exact hu, hg⟩
  | cons el els ih =>
    intro st C hnd hC hu hg st' r h
    simp only [doAssemble] at h
    have one : ∀ {st1 : St} {r1 : Res}, statement fs enc (assembleFile fs enc fuel) env st el = .ok (st1, r1) →
        (∀ C1, st1.locals = some C1 → Unvalued C1 m) ∧ Unvalued st1.globals m := by
      intro st1 r1 hs
      have w1 := statement_rel (assembleFile_rel fs enc fuel) hC _ _ hs
      have hloc : ∀ C1, st1.locals = some C1 → Unvalued C1 m := by
        intro C1 hC1 v hv
        rcases statement_origin hC hC1 hs m v hv with e | hd | ⟨_, hgv⟩ | ⟨_, hup⟩
        · exact hu v e
        · exact hnd el List.mem_cons_self hd
        · exact hg v hgv
        · obtain ⟨fuel', path, data, els', perr, st2, st4, r4, C4, hf, hfs, _, h1, h2, h3, h4, h5, _, h7⟩ := hup
          have := ihf fuel' hf ⟨path :: env.paths, path⟩ data path st2 st4 r4 hfs h1 h3 (by rw [h2]; exact hu) h4
          exact this.1 C4 h5 v h7
      exact ⟨hloc, unvalued_of_rel w1 hloc hg⟩
    split at h
    · rename_i st1 hs
      obtain ⟨hl1, hg1⟩ := one hs
      obtain ⟨C1, hC1⟩ := (statement_rel (assembleFile_rel fs enc fuel) hC _ _ hs).locals_some
      exact ih st1 C1 (fun x hx => hnd x (List.mem_cons_of_mem _ hx)) hC1 (hl1 C1 hC1) hg1 _ _ h
    · rename_i st1 l hs
      cases h
      exact one hs
    · cases h

/-- a name that no file of the project defines never has a value: not in the table of any file at any include depth, and
not in its includer's table unless the includer brought the value itself -/
theorem nodef_file {fs : Bytes → Option Bytes} {enc : Encoder} {m : Bytes} (hnd : NoDef fs m) :
    ∀ fuel, ChildOk fs enc fuel m := by
  intro fuel
  induction fuel using Nat.strongRecOn with
  | ind fuel ihs =>
    intro env data path st st' r hfs hC hq hg h
    have ihf : ∀ fuel', fuel = fuel' + 1 → ChildOk fs enc fuel' m := fun fuel' e => ihs fuel' (by omega)
    unfold fileBody at h
    split at h
    · rename_i els perr hpf
      have hels : ∀ el ∈ els, ¬ defines m el := hnd path data els perr hfs hpf
      split at h
      · rename_i st3 res hd
        have hu0 : Unvalued ([] : Table) m := fun w hw => by simp [Table.find] at hw
        obtain ⟨hl3, hg3⟩ := doAssemble_unvalued ihf perr els st [] hels hC hu0 hg _ _ hd
        have w1 := doAssemble_rel (assembleFile_rel fs enc fuel) perr els st [] hC _ _ hd
        obtain ⟨C3, hC3⟩ := w1.locals_some
        split at h
        · cases h; exact ⟨hl3, hg3⟩
        · split at h
          · cases h
          · rename_i tasks ht
            have el := localLoop_locals rounds tasks { st3 with localTasks := some [] } res _ _ h
            have htN : ∀ t ∈ tasks, t.fromN (fileNames els) := by
              intro t hm
              rcases w1.lt tasks ht t hm with ⟨q, hq0, hm0⟩ | hf
              · rw [hq] at hq0; cases hq0; cases hm0
              · exact hf
            have w2 := localLoop_rel rounds tasks { st3 with localTasks := some [] } res C3 hC3 htN
              (fun q hq t ht => by cases hq; cases ht) _ _ h
            have hl4 : ∀ C', st'.locals = some C' → Unvalued C' m := fun C' hC' => hl3 C' (by rw [← hC']; exact el.symm)
            exact ⟨hl4, unvalued_of_rel w2 hl4 hg3⟩
      · cases h
    · cases h

end Trion.Asm
