import TrionModel.Lemmas.LexLayoutDef
import TrionModel.Lemmas.LexStrAll
/-!
# The tokenizer on a text given by its layout: separators (white space, line comments, nested block comments)
-/
namespace Trion.Lex
open Trion.Pos (adv isCont)

/-! ### well-formed UTF-8 composes -/

theorem decodeChar_append {d : Bytes} {c n : Nat} (h : decodeChar d = some (c, n)) (b : Bytes) :
    decodeChar (d ++ b) = some (c, n) := by
  obtain ⟨hs, hd⟩ := decodeChar_inv h
  have hn : n = (encodeChar c).length := by
    have h2 := decodeChar_encodeChar c hs (d.drop n)
    rw [← hd, h] at h2
    simpa using h2
  have : d ++ b = encodeChar c ++ (d.drop n ++ b) := by
    rw [← List.append_assoc, ← hd]
  rw [this, decodeChar_encodeChar c hs, hn]

theorem utf8_append {a b : Bytes} (ha : Utf8 a) (hb : Utf8 b) : Utf8 (a ++ b) := by
  induction ha with
  | nil => simpa using hb
  | cons d c n hd _ ih =>
    have hn := (decodeChar_some hd).2.1
    refine Utf8.cons _ c n (decodeChar_append hd b) ?_
    rw [List.drop_append_of_le_length hn]
    exact ih

/-! ### block comments -/

theorem inside_len {n : Nat} {d : Bytes} (h : Inside n d) : 2 ≤ d.length := by
  induction h with
  | close0 => simp
  | close n d _ ih => simp
  | «open» n d _ ih => simp
  | byte n b d _ _ ih => simp; omega

/-- one byte that `start` still protects (the second byte of a pair just consumed) -/
theorem scanBlock_skip (x y : UInt8) (more : Bytes) (k depth : Nat) (hdep : depth ≠ 0) :
    scanBlock (x :: y :: more) k (k + 3) depth = scanBlock (y :: more) (k + 1) (k + 3) depth := by
  rw [scanBlock]
  have h1 : decide (k + 2 ≥ k + 3) = false := by simp
  have : scanStep x y (k + 2) (k + 3) depth = (k + 3, depth) := by
    simp [scanStep, h1]
  simp only [this]
  have : (depth == 0) = false := by simpa using hdep
  simp [this]

/-- the scan of `next_token` finds the `*/` that closes the comment -/
theorem scanBlock_inside {n : Nat} {body : Bytes} (h : Inside n body) :
    ∀ (k start : Nat) (rest : Bytes), start ≤ k + 2 →
      scanBlock (body ++ rest) k start (n + 1) = some (k + body.length - 2) := by
  induction h with
  | close0 =>
    intro k start rest hs
    simp only [List.cons_append, List.nil_append]
    rw [scanBlock]
    have hd : decide (k + 2 ≥ start) = true := by simpa using hs
    simp [scanStep, hd]
  | close n d hin ih =>
    intro k start rest hs
    obtain ⟨y, more, hd⟩ : ∃ y more, d ++ rest = y :: more := by
      have := inside_len hin
      cases d with
      | nil => simp at this
      | cons y m => exact ⟨y, m ++ rest, rfl⟩
    simp only [List.cons_append]
    rw [scanBlock]
    have hdc : decide (k + 2 ≥ start) = true := by simpa using hs
    have hst : scanStep 42 47 (k + 2) start (n + 1 + 1) = (k + 2 + 2, n + 1) := by
      simp [scanStep, hdc]
    simp only [hst]
    have : ((n + 1) == 0) = false := by simp
    simp only [this, Bool.false_eq_true, if_false]
    rw [hd, show k + 2 + 2 = (k + 1) + 3 by omega, scanBlock_skip 47 y more (k + 1) (n + 1) (by omega), ← hd]
    rw [ih (k + 1 + 1) _ rest (by omega)]
    have := inside_len hin
    simp; omega
  | «open» n d hin ih =>
    intro k start rest hs
    obtain ⟨y, more, hd⟩ : ∃ y more, d ++ rest = y :: more := by
      have := inside_len hin
      cases d with
      | nil => simp at this
      | cons y m => exact ⟨y, m ++ rest, rfl⟩
    simp only [List.cons_append]
    rw [scanBlock]
    have hdc : decide (k + 2 ≥ start) = true := by simpa using hs
    have hst : scanStep 47 42 (k + 2) start (n + 1) = (k + 2 + 2, n + 1 + 1) := by
      simp [scanStep, hdc]
    simp only [hst]
    have : ((n + 1 + 1) == 0) = false := by simp
    simp only [this, Bool.false_eq_true, if_false]
    rw [hd, show k + 2 + 2 = (k + 1) + 3 by omega, scanBlock_skip 42 y more (k + 1) (n + 1 + 1) (by omega), ← hd]
    rw [ih (k + 1 + 1) _ rest (by omega)]
    have := inside_len hin
    simp; omega
  | byte n b d hin hnp ih =>
    intro k start rest hs
    obtain ⟨y, more, hd, hy⟩ : ∃ y more, d ++ rest = y :: more ∧ d.head? = some y := by
      have := inside_len hin
      cases d with
      | nil => simp at this
      | cons y m => exact ⟨y, m ++ rest, rfl, rfl⟩
    simp only [List.cons_append]
    rw [hd, scanBlock]
    have hp := hnp y hy
    have hst : scanStep b y (k + 2) start (n + 1) = (start, n + 1) := by
      have h1 : (b.toNat == 47 && decide (k + 2 ≥ start) && y.toNat == 42) = false := by
        simp; intro h1 _; intro h2; exact hp.1 ⟨h1, h2⟩
      have h2 : (b.toNat == 42 && decide (k + 2 ≥ start) && y.toNat == 47) = false := by
        simp; intro h1 _; intro h2; exact hp.2 ⟨h1, h2⟩
      simp [scanStep, h1, h2]
    simp only [hst]
    have : ((n + 1) == 0) = false := by simp
    simp only [this, Bool.false_eq_true, if_false]
    rw [← hd, ih (k + 1) start rest (by omega)]
    have := inside_len hin
    simp; omega

/-! ### the skip loop, one iteration at a time -/

/-- the part of one iteration of the `while` loop that follows the white-space skip -/
def skipBody (f : Nat) (s1 : State) : SkipRes :=
  if startsWith2 s1.data 47 47 then
    match position (fun b => b.toNat == 10) s1.data with
    | none =>
      match updatePos s1.line s1.col s1.data with
      | none => .panic
      | some (l, c) =>
        if s1.utfErr then .err ⟨l, c, .badUnicode⟩ ⟨[], false, l, c⟩
        else .go ⟨[], false, l, c⟩
    | some lineLen =>
      match sliceFrom s1.data (lineLen + 1) with
      | none => .panic
      | some rest => skipLoop f { s1 with data := rest, line := s1.line + 1, col := 1 }
  else if startsWith2 s1.data 47 42 then
    match scanBlock (s1.data.drop 2) 0 2 1 with
    | some commentBytes =>
      match sliceTo s1.data (4 + commentBytes), sliceFrom s1.data (4 + commentBytes) with
      | some pre, some rest =>
        match updatePos s1.line s1.col pre with
        | none => .panic
        | some (l, c) => skipLoop f { s1 with data := rest, line := l, col := c }
      | _, _ => .panic
    | none =>
      match updatePos s1.line s1.col s1.data with
      | none => .panic
      | some (l, c) =>
        .err ⟨l, c, if s1.utfErr then .badUnicode else .blockComment⟩ ⟨[], false, l, c⟩
  else .go s1

theorem skipLoop_succ (f : Nat) (s : State) :
    skipLoop (f + 1) s = if s.data.length == 0 then .go s else
      match skipSpaces s with
      | none => .panic
      | some s1 => skipBody f s1 := by
  rw [skipLoop]; rfl

/-- the white-space skip on `w ++ rest`, `w` the maximal run of white space -/
theorem skipSpaces_run (s : State) (w rest : Bytes) (hd : s.data = w ++ rest) (hw : ∀ x ∈ w, isSpace x = true)
    (hr : ∀ b, rest.head? = some b → isSpace b = false ∧ isCont b = false) :
    skipSpaces s = some ⟨rest, s.utfErr, (adv s.pos w).1, (adv s.pos w).2⟩ := by
  obtain ⟨d, u, l, c⟩ := s
  simp only at hd; subst hd
  cases w with
  | nil =>
    cases rest with
    | nil => simp [skipSpaces, position, State.pos, Pos.adv_nil]
    | cons b r => simp [skipSpaces, position, (hr b rfl).1, State.pos, Pos.adv_nil]
  | cons x w' =>
    have hgood : Good (x :: w') := good_ascii _ (fun y hy => isSpace_ascii (hw y hy))
    have hnc : ∀ b, rest.head? = some b → isCont b = false := fun b hb => (hr b hb).2
    have e1 := sliceTo_split (x :: w') rest hnc
    have e2 := sliceFrom_split (x :: w') rest hnc
    simp only [List.length_cons] at e1 e2
    cases rest with
    | nil =>
      have hpos : position (fun b => !isSpace b) (x :: w' ++ []) = none :=
        position_none_of_all _ (by intro y hy; simp at hy; simp [hw y (by simpa using hy)])
      unfold skipSpaces
      simp only [hpos, List.length_cons, List.length_append, List.length_nil, Nat.add_zero, Nat.zero_lt_succ, if_true, gt_iff_lt]
      rw [e1, e2]
      simp only
      rw [updatePos_eq hgood]
      rfl
    | cons b r =>
      have hpos : position (fun b => !isSpace b) (x :: w' ++ b :: r) = some (x :: w').length :=
        position_append_of_all (p := fun b => !isSpace b) (x :: w') b r
          (by intro y hy; simp [hw y hy]) (by simp [(hr b rfl).1])
      unfold skipSpaces
      simp only [hpos, List.length_cons, Nat.zero_lt_succ, if_true, gt_iff_lt]
      rw [e1, e2]
      simp only
      rw [updatePos_eq hgood]
      rfl

/-- every text is a maximal run of white space followed by a rest that does not begin with white space -/
theorem space_split (d : Bytes) : ∃ w rest, d = w ++ rest ∧ (∀ x ∈ w, isSpace x = true) ∧
    (∀ b, rest.head? = some b → isSpace b = false) := by
  cases hp : position (fun b => !isSpace b) d with
  | none =>
    exact ⟨d, [], by simp, fun x hx => by have := position_none hp x hx; simpa using this, by simp⟩
  | some i =>
    obtain ⟨pre, b, post, hd, _, hb, hall⟩ := position_some hp
    refine ⟨pre, b :: post, hd, fun x hx => by have := hall x hx; simpa using this, ?_⟩
    intro c hc; simp at hc; subst hc; simpa using hb

theorem skipBody_nil (f : Nat) (u : Bool) (l c : Nat) : skipBody f ⟨[], u, l, c⟩ = .go ⟨[], u, l, c⟩ := by
  simp [skipBody, startsWith2]

/-- one iteration = skip the white-space run, then the rest of the iteration on what follows -/
theorem skipLoop_body (f : Nat) (u : Bool) (l c : Nat) (w rest : Bytes) (hw : ∀ x ∈ w, isSpace x = true)
    (hr : ∀ b, rest.head? = some b → isSpace b = false ∧ isCont b = false) :
    skipLoop (f + 1) ⟨w ++ rest, u, l, c⟩ = skipBody f ⟨rest, u, (adv (l, c) w).1, (adv (l, c) w).2⟩ := by
  rw [skipLoop_succ]
  by_cases hz : (w ++ rest).length = 0
  · have hwn : w = [] := by
      cases w with
      | nil => rfl
      | cons _ _ => simp at hz
    have hrn : rest = [] := by
      cases rest with
      | nil => rfl
      | cons _ _ => simp at hz
    subst hwn; subst hrn
    simp [skipBody_nil, Pos.adv_nil]
  · have : ((w ++ rest).length == 0) = false := by simpa using hz
    simp only [this, Bool.false_eq_true, if_false]
    rw [skipSpaces_run ⟨w ++ rest, u, l, c⟩ w rest rfl hw hr]
    rfl

theorem skipLoop_space_cons (f : Nat) (u : Bool) (l c : Nat) (b : UInt8) (d : Bytes) (hb : isSpace b = true)
    (hu : Utf8 (b :: d)) :
    skipLoop (f + 1) ⟨b :: d, u, l, c⟩ = skipLoop (f + 1) ⟨d, u, (adv (l, c) [b]).1, (adv (l, c) [b]).2⟩ := by
  obtain ⟨w, rest, hd, hw, hr⟩ := space_split d
  have hud : Utf8 d := utf8_tail_of_ascii hu (isSpace_ascii hb)
  have hur : Utf8 rest := utf8_drop_ascii (hd ▸ hud) (fun x hx => isSpace_ascii (hw x hx))
  have hr' : ∀ x, rest.head? = some x → isSpace x = false ∧ isCont x = false :=
    fun x hx => ⟨hr x hx, utf8_head? hur x hx⟩
  have h1 := skipLoop_body f u l c (b :: w) rest (by intro x hx; simp at hx; rcases hx with rfl | hx; exact hb; exact hw x hx) hr'
  have h2 := skipLoop_body f u (adv (l, c) [b]).1 (adv (l, c) [b]).2 w rest hw hr'
  rw [hd]
  rw [show b :: (w ++ rest) = (b :: w) ++ rest by simp, h1, h2]
  rw [show (b :: w) = [b] ++ w by simp, Pos.adv_append]

/-- a text at which the tokenizer stops skipping: a byte that is neither white space nor the start of a comment -/
def TokStart (d : Bytes) : Prop :=
  ∃ b tl, d = b :: tl ∧ isSpace b = false ∧ isCont b = false ∧ startsWith2 d 47 47 = false ∧ startsWith2 d 47 42 = false

theorem utf8_sep {d : Bytes} (h : IsSep d) {tail : Bytes} (ht : Utf8 tail) : Utf8 (d ++ tail) := by
  induction h with
  | nil => simpa using ht
  | space b d hb _ ih => exact utf8_ascii_cons b (isSpace_ascii hb) ih
  | line body d _ hub _ ih =>
    have : (47 :: 47 :: body ++ 10 :: d) ++ tail = [47, 47] ++ (body ++ ([10] ++ (d ++ tail))) := by simp
    rw [this]
    exact utf8_ascii_append _ (by decide) (utf8_append hub (utf8_ascii_append _ (by decide) ih))
  | block body d _ hub _ ih =>
    have : (47 :: 42 :: body ++ d) ++ tail = [47, 42] ++ (body ++ (d ++ tail)) := by simp
    rw [this]
    exact utf8_ascii_append _ (by decide) (utf8_append hub ih)

theorem slash_not_space : ∀ b, (47 :: b : Bytes).head? = some (47 : UInt8) := fun _ => rfl

/-- **separator text is skipped**: whatever the loop does on `tail` (independently of the fuel), it does on
`sep ++ tail` from the position advanced over `sep` -/
theorem skipLoop_sep {sep : Bytes} (hsep : IsSep sep) (tail : Bytes) (ht : Utf8 tail) (u : Bool)
    (R : Nat → Nat → SkipRes) (hT : ∀ g l' c', skipLoop (g + 1) ⟨tail, u, l', c'⟩ = R l' c') :
    ∀ (f l c : Nat), sep.length + 1 ≤ f →
      skipLoop f ⟨sep ++ tail, u, l, c⟩ = R (adv (l, c) sep).1 (adv (l, c) sep).2 := by
  induction hsep with
  | nil =>
    intro f l c hf
    obtain ⟨g, rfl⟩ : ∃ g, f = g + 1 := ⟨f - 1, by omega⟩
    simpa [Pos.adv_nil] using hT g l c
  | space b d hb hd ih =>
    intro f l c hf
    obtain ⟨g, rfl⟩ : ∃ g, f = g + 1 := ⟨f - 1, by omega⟩
    have hu : Utf8 (b :: (d ++ tail)) := utf8_sep (IsSep.space b d hb hd) ht
    rw [List.cons_append, skipLoop_space_cons g u l c b (d ++ tail) hb hu,
      ih (g + 1) _ _ (by simp at hf; omega)]
    rw [show b :: d = [b] ++ d by simp, Pos.adv_append]
  | line body d hbody hub hd ih =>
    intro f l c hf
    obtain ⟨g, rfl⟩ : ∃ g, f = g + 1 := ⟨f - 1, by omega⟩
    have hrest : Utf8 (d ++ tail) := utf8_sep hd ht
    have hdata : (47 :: 47 :: body ++ 10 :: d) ++ tail = [] ++ (47 :: 47 :: (body ++ 10 :: (d ++ tail))) := by simp
    rw [hdata, skipLoop_body g u l c [] _ (by simp) (by intro b hb; simp at hb; subst hb; decide)]
    simp only [Pos.adv_nil]
    unfold skipBody
    have hsw : startsWith2 (47 :: 47 :: (body ++ 10 :: (d ++ tail))) 47 47 = true := by simp [startsWith2]
    have hall : ∀ x ∈ (47 :: 47 :: body : Bytes), x.toNat ≠ 10 := by
      intro x hx
      rcases List.mem_cons.mp hx with rfl | hx
      · decide
      · rcases List.mem_cons.mp hx with rfl | hx
        · decide
        · exact hbody x hx
    simp only [hsw, if_true]
    have hpos : position (fun b => b.toNat == 10) (47 :: 47 :: (body ++ 10 :: (d ++ tail))) = some (47 :: 47 :: body).length := by
      have := position_append_of_all (p := fun b => b.toNat == 10) (47 :: 47 :: body) 10 (d ++ tail)
        (by intro x hx; simpa using hall x hx) (by decide)
      simpa using this
    rw [hpos]
    simp only
    have hsl : sliceFrom (47 :: 47 :: (body ++ 10 :: (d ++ tail))) ((47 :: 47 :: body).length + 1) = some (d ++ tail) := by
      have := sliceFrom_split ((47 :: 47 :: body) ++ [10]) (d ++ tail) (utf8_head? hrest)
      simpa using this
    rw [hsl]
    simp only
    rw [ih g _ _ (by simp at hf; omega)]
    have hadv : adv (l, c) (47 :: 47 :: body ++ 10 :: d) = adv (l + 1, 1) d := by
      rw [show (47 :: 47 :: body ++ 10 :: d) = ((47 :: 47 :: body) ++ [10]) ++ d by simp, Pos.adv_append,
        adv_line_comment (l, c) (47 :: 47 :: body) 10 hall (by decide)]
    rw [hadv]
  | block body d hin hub hd ih =>
    intro f l c hf
    obtain ⟨g, rfl⟩ : ∃ g, f = g + 1 := ⟨f - 1, by omega⟩
    have hrest : Utf8 (d ++ tail) := utf8_sep hd ht
    have hlen := inside_len hin
    have hdata : (47 :: 42 :: body ++ d) ++ tail = [] ++ (47 :: 42 :: (body ++ (d ++ tail))) := by simp
    rw [hdata, skipLoop_body g u l c [] _ (by simp) (by intro b hb; simp at hb; subst hb; decide)]
    simp only [Pos.adv_nil]
    unfold skipBody
    have hsw1 : startsWith2 (47 :: 42 :: (body ++ (d ++ tail))) 47 47 = false := by simp [startsWith2]
    have hsw2 : startsWith2 (47 :: 42 :: (body ++ (d ++ tail))) 47 42 = true := by simp [startsWith2]
    simp only [hsw1, hsw2, Bool.false_eq_true, if_false, if_true]
    have hscan : scanBlock ((47 :: 42 :: (body ++ (d ++ tail))).drop 2) 0 2 1 = some (body.length - 2) := by
      have := scanBlock_inside hin 0 2 (d ++ tail) (by omega)
      simpa using this
    rw [hscan]
    simp only
    have hk : 4 + (body.length - 2) = (47 :: 42 :: body).length := by simp; omega
    have hcom : Utf8 (47 :: 42 :: body) := utf8_ascii_append [47, 42] (by decide) hub
    rw [hk]
    have e1 := sliceTo_split (47 :: 42 :: body) (d ++ tail) (utf8_head? hrest)
    have e2 := sliceFrom_split (47 :: 42 :: body) (d ++ tail) (utf8_head? hrest)
    simp only [List.cons_append] at e1 e2
    rw [e1, e2]
    simp only
    rw [updatePos_eq (good_of_utf8 hcom)]
    simp only
    rw [ih g _ _ (by simp at hf; omega)]
    rw [show (47 :: 42 :: body ++ d) = (47 :: 42 :: body) ++ d by simp, Pos.adv_append]

/-! ### the token arms on any spelling, followed by any well-formed text -/

theorem utf8_spell {bs : Bytes} {t : Tok} {nx : Option UInt8} (h : Spell bs t nx) {rest : Bytes} (hr : Utf8 rest) :
    Utf8 (bs ++ rest) := by
  cases h with
  | punct c t nx hp _ => exact utf8_ascii_cons c (punct_some hp).1 hr
  | div => exact utf8_ascii_cons 47 (by decide) hr
  | shl => exact utf8_ascii_append [60, 60] (by decide) hr
  | shr => exact utf8_ascii_append [62, 62] (by decide) hr
  | ident _ _ hs _ => exact utf8_ascii_append _ (fun b hb => (isIdentByte_ascii (identOk_bytes hs b hb)).1) hr
  | num r ds v nx _ _ hds _ _ =>
    exact utf8_ascii_append _ (by
      intro b hb; simp at hb; rcases hb with hb | hb
      · exact radixPrefix_ascii r b hb
      · exact (isDigit_ascii (hds b hb)).1) hr
  | chr c nx hc =>
    have : (39 :: encodeChar c ++ [39]) ++ rest = [39] ++ (encodeChar c ++ ([39] ++ rest)) := by simp
    rw [this]
    exact utf8_ascii_append [39] (by decide) (utf8_encodeChar c hc.1 (utf8_ascii_append [39] (by decide) hr))
  | chrEsc e v nx he =>
    have he' : e.toNat < 128 := by
      unfold charEsc at he
      repeat' split at he
      all_goals first | omega | (simp at he)
    exact utf8_ascii_append [39, 92, e, 39] (by
      intro b hb
      rcases List.mem_cons.mp hb with rfl | hb
      · decide
      · rcases List.mem_cons.mp hb with rfl | hb
        · decide
        · rcases List.mem_cons.mp hb with rfl | hb
          · exact he'
          · simp at hb; subst hb; decide) hr
  | str items nx hok =>
    have : (34 :: renderAll items ++ [34]) ++ rest = [34] ++ (renderAll items ++ ([34] ++ rest)) := by simp
    rw [this]
    exact utf8_ascii_append [34] (by decide) (utf8_renderAll items hok (utf8_ascii_append [34] (by decide) hr))

theorem doNext_punct (c : UInt8) (t : Tok) (rest : Bytes) (hpu : punct c.toNat = some t) (hur : Utf8 rest) (l k : Nat) :
    doNext ⟨c :: rest, false, l, k⟩ = .tok ⟨l, k, t⟩ ⟨rest, false, (adv (l, k) [c]).1, (adv (l, k) [c]).2⟩ := by
  have hc := punct_some hpu
  have hdo : doNext ⟨c :: rest, false, l, k⟩ = emit ⟨c :: rest, false, l, k⟩ 1 true t := by
    unfold doNext
    simp [hpu]
  rw [hdo]
  have := emit_eq ⟨c :: rest, false, l, k⟩ [c] rest t true (by simp) (utf8_ascii_cons c hc.1 hur) hur
    (by intro _ b hb; simp at hb; subst hb; exact ⟨hc.1, hc.2.1⟩)
  simpa [State.pos] using this

theorem doNext_shift (x : UInt8) (t : Tok) (rest : Bytes) (hx : x.toNat = 60 ∧ t = .shl ∨ x.toNat = 62 ∧ t = .shr)
    (hur : Utf8 rest) (l k : Nat) :
    doNext ⟨x :: x :: rest, false, l, k⟩ = .tok ⟨l, k, t⟩ ⟨rest, false, (adv (l, k) [x, x]).1, (adv (l, k) [x, x]).2⟩ := by
  have hasc : x.toNat < 128 ∧ x.toNat ≠ 10 := by rcases hx with ⟨h, _⟩ | ⟨h, _⟩ <;> omega
  have hdo : doNext ⟨x :: x :: rest, false, l, k⟩ = emit ⟨x :: x :: rest, false, l, k⟩ 2 true t := by
    unfold doNext
    rcases hx with ⟨h, rfl⟩ | ⟨h, rfl⟩
    · simp [h, punct, secondIs]
    · simp [h, punct, secondIs]
  rw [hdo]
  have := emit_eq ⟨x :: x :: rest, false, l, k⟩ [x, x] rest t true (by simp)
    (utf8_ascii_append [x, x] (by intro b hb; simp at hb; subst hb; exact hasc.1) hur) hur
    (by intro _ b hb; simp at hb; subst hb; exact hasc)
  simpa [State.pos] using this

theorem lexIdent_exact (b0 : UInt8) (tl rest : Bytes) (hs : identOk (b0 :: tl) = true) (hf : Follow rest.head?)
    (hur : Utf8 rest) (l k : Nat) :
    lexIdent ⟨b0 :: tl ++ rest, false, l, k⟩ =
      .tok ⟨l, k, .ident (b0 :: tl)⟩ ⟨rest, false, (adv (l, k) (b0 :: tl)).1, (adv (l, k) (b0 :: tl)).2⟩ := by
  have hall : ∀ x ∈ b0 :: tl, isIdentByte x = true := identOk_bytes hs
  have hall' : ∀ x ∈ b0 :: tl, x.toNat < 128 ∧ x.toNat ≠ 10 := fun x hx => isIdentByte_ascii (hall x hx)
  have hubr : Utf8 (b0 :: tl ++ rest) := utf8_ascii_append _ (fun x hx => (hall' x hx).1) hur
  unfold lexIdent
  cases rest with
  | nil =>
    simp only [List.append_nil] at hubr ⊢
    have hpos : position (fun b => !isIdentByte b) (b0 :: tl) = none :=
      position_none_of_all _ (by intro x hx; simp [hall x hx])
    simp only [hpos, Bool.false_eq_true, if_false]
    have : sliceTo (b0 :: tl) (b0 :: tl).length = some (b0 :: tl) := by
      have hb := isBoundary_length (b0 :: tl)
      simp only [sliceTo, hb, if_true, List.take_length]
    rw [this]
    simp only
    have e := emit_eq ⟨b0 :: tl, false, l, k⟩ (b0 :: tl) [] (.ident (b0 :: tl)) true
      (by simp) hubr Utf8.nil (fun _ => hall')
    rw [e]
    rfl
  | cons r0 rtl =>
    have hr0 : isIdentByte r0 = false := hf r0 rfl
    have hpos : position (fun b => !isIdentByte b) (b0 :: tl ++ r0 :: rtl) = some (b0 :: tl).length :=
      position_append_of_all (p := fun b => !isIdentByte b) (b0 :: tl) r0 rtl
        (by intro x hx; simp [hall x hx]) (by simp [hr0])
    simp only [hpos]
    have hhead : ∀ x, (r0 :: rtl).head? = some x → isCont x = false := utf8_head? hur
    rw [sliceTo_split (b0 :: tl) (r0 :: rtl) hhead]
    simp only
    have e := emit_eq ⟨b0 :: tl ++ r0 :: rtl, false, l, k⟩ (b0 :: tl) (r0 :: rtl) (.ident (b0 :: tl)) true
      rfl hubr hur (fun _ => hall')
    rw [e]
    rfl

theorem lexNumber_spell (r : Nat) (ds rest : Bytes) (v : Int) (hrx : r = 2 ∨ r = 8 ∨ r = 10 ∨ r = 16) (hne : ds ≠ [])
    (hds : ∀ b ∈ ds, isDigit r b = true) (hv : i64FromStrRadix ds r = some v) (hf : Follow rest.head?)
    (hur : Utf8 rest) (l k : Nat) :
    lexNumber ⟨radixPrefix r ++ ds ++ rest, false, l, k⟩ =
      .tok ⟨l, k, .num v⟩ ⟨rest, false, (adv (l, k) (radixPrefix r ++ ds)).1, (adv (l, k) (radixPrefix r ++ ds)).2⟩ := by
  have hrestdig : ∀ b, rest.head? = some b → isDigit r b = false := by
    intro b hb
    cases hdg : isDigit r b with
    | false => rfl
    | true => have := hf b hb; rw [isIdentByte_of_isDigit hdg] at this; cases this
  have hdet := prefix_detect r hrx ds rest hds (fun _ => hne) (by
    intro _ b hb _
    have := hf b hb
    simp [isIdentByte] at this
    omega)
  have hlex := lexNumber_exact ⟨radixPrefix r ++ ds ++ rest, false, l, k⟩ (radixPrefix r) ds rest r rfl
    hdet.1 hdet.2 hds
    (by intro b hb
        cases ds with
        | nil => exact absurd rfl hne
        | cons a ds' => simp at hb; subst hb; exact isDigit_noncont (hds _ (by simp)))
    (by cases rest with
        | nil => exact Or.inl ⟨rfl, rfl⟩
        | cons r0 rtl => exact Or.inr ⟨r0, rtl, rfl, hrestdig r0 rfl, utf8_head? hur r0 rfl⟩)
  rw [hlex, hv]
  simp only
  have hasc : ∀ b ∈ radixPrefix r ++ ds, b.toNat < 128 ∧ b.toNat ≠ 10 := by
    intro b hb
    simp at hb
    rcases hb with hb | hb
    · have := radixPrefix_ascii r b hb
      refine ⟨this, ?_⟩
      unfold radixPrefix at hb
      split at hb
      · simp at hb; rcases hb with rfl | rfl <;> decide
      · split at hb
        · simp at hb; rcases hb with rfl | rfl <;> decide
        · split at hb
          · simp at hb; rcases hb with rfl | rfl <;> decide
          · simp at hb
    · exact isDigit_ascii (hds b hb)
  rw [Pos.adv_ascii (l, k) _ hasc]

/-! ### character literals followed by any text -/

theorem lexChar_raw_then (c : Nat) (hc : RawChar c) (rest : Bytes) (hur : Utf8 rest) (l k : Nat) :
    lexChar ⟨39 :: encodeChar c ++ 39 :: rest, false, l, k⟩ =
      .tok ⟨l, k, .num (Int.ofNat c)⟩
        ⟨rest, false, (adv (l, k) (39 :: encodeChar c ++ [39])).1, (adv (l, k) (39 :: encodeChar c ++ [39])).2⟩ := by
  obtain ⟨hs, hadm⟩ := hc
  have hq : Utf8 ((39 : UInt8) :: rest) := utf8_ascii_cons 39 (by decide) hur
  have hrest : Utf8 (encodeChar c ++ 39 :: rest) := utf8_encodeChar c hs hq
  have hall : Utf8 ((39 : UInt8) :: encodeChar c ++ 39 :: rest) := utf8_ascii_cons 39 (by decide) hrest
  unfold lexChar
  have hsl : sliceFrom ((39 : UInt8) :: encodeChar c ++ 39 :: rest) 1 = some (encodeChar c ++ 39 :: rest) := by
    have := sliceFrom_split [(39 : UInt8)] (encodeChar c ++ 39 :: rest) (utf8_head? hrest)
    simpa using this
  simp only [hsl]
  have hbody : lexCharBody false (encodeChar c ++ 39 :: rest) = .ok (encodeChar c).length c := by
    unfold lexCharBody lexCharFirst
    rw [decodeChar_encodeChar c hs]
    simp only
    have h92 : (c == 92) = false := by simp; omega
    have hok : (c == 9 || (decide (32 ≤ c) && decide (c ≤ 126)) || decide (128 ≤ c)) = true := by
      simp; omega
    simp only [h92, Bool.false_eq_true, if_false, hok, if_true]
    have : (encodeChar c ++ 39 :: rest).drop (encodeChar c).length = 39 :: rest := by simp
    rw [this, decodeChar_ascii_cons 39 rest (by decide)]
    rfl
  rw [hbody]
  simp only
  have hl : 1 + (encodeChar c).length + 1 = ((39 : UInt8) :: encodeChar c ++ [39]).length := by simp; omega
  rw [hl]
  exact emit_eq _ ((39 : UInt8) :: encodeChar c ++ [39]) rest _ _ (by simp) hall hur (by
    intro hlt b hb
    simp only [decide_eq_true_eq] at hlt
    rw [encodeChar_ascii c hlt] at hb
    simp at hb
    rcases hb with rfl | rfl | rfl
    · decide
    · rw [toNat_toUInt8 _ (by omega)]; omega
    · decide)

theorem charEsc_cases {e v : Nat} (he : charEsc e = some v) :
    (e = 116 ∧ v = 9) ∨ (e = 110 ∧ v = 10) ∨ (e = 114 ∧ v = 13) ∨ (e = 34 ∧ v = 34) ∨ (e = 39 ∧ v = 39) ∨
      (e = 92 ∧ v = 92) := by
  unfold charEsc at he
  repeat' split at he
  all_goals first
    | (simp at he; omega)
    | (simp at he)

theorem lexChar_esc_then (e : UInt8) (v : Nat) (he : charEsc e.toNat = some v) (rest : Bytes) (hur : Utf8 rest)
    (l k : Nat) :
    lexChar ⟨39 :: 92 :: e :: 39 :: rest, false, l, k⟩ =
      .tok ⟨l, k, .num (Int.ofNat v)⟩ ⟨rest, false, (adv (l, k) [39, 92, e, 39]).1, (adv (l, k) [39, 92, e, 39]).2⟩ := by
  have hc := charEsc_cases he
  have he' : e.toNat < 128 ∧ e.toNat ≠ 10 ∧ v < 128 := by omega
  have hasc : ∀ b ∈ ([39, 92, e, 39] : Bytes), b.toNat < 128 ∧ b.toNat ≠ 10 := by
    intro b hb
    rcases List.mem_cons.mp hb with rfl | hb
    · decide
    · rcases List.mem_cons.mp hb with rfl | hb
      · decide
      · rcases List.mem_cons.mp hb with rfl | hb
        · exact ⟨he'.1, he'.2.1⟩
        · simp at hb; subst hb; decide
  have hall : Utf8 ((39 : UInt8) :: 92 :: e :: 39 :: rest) :=
    utf8_ascii_append [39, 92, e, 39] (fun b hb => (hasc b hb).1) hur
  have hin : Utf8 ((92 : UInt8) :: e :: 39 :: rest) := utf8_tail_of_ascii hall (by decide)
  unfold lexChar
  have hsl : sliceFrom ((39 : UInt8) :: 92 :: e :: 39 :: rest) 1 = some (92 :: e :: 39 :: rest) := by
    have := sliceFrom_split [(39 : UInt8)] (92 :: e :: 39 :: rest) (utf8_head? hin)
    simpa using this
  simp only [hsl]
  have hbody : lexCharBody false (92 :: e :: 39 :: rest) = .ok 2 v := by
    unfold lexCharBody lexCharFirst
    rw [decodeChar_ascii_cons 92 _ (by decide)]
    simp only [show (92 : UInt8).toNat = 92 from rfl, beq_self_eq_true, if_true, List.drop_succ_cons, List.drop_zero]
    rw [decodeChar_ascii_cons e _ he'.1]
    simp only
    rcases hc with ⟨h, rfl⟩ | ⟨h, rfl⟩ | ⟨h, rfl⟩ | ⟨h, rfl⟩ | ⟨h, rfl⟩ | ⟨h, rfl⟩ <;>
      simp [h, decodeChar_ascii_cons 39 rest (by decide)]
  rw [hbody]
  simp only
  have hl : 1 + 2 + 1 = ([39, 92, e, 39] : Bytes).length := rfl
  rw [hl]
  exact emit_eq _ [39, 92, e, 39] rest _ _ rfl hall hur (fun _ => hasc)

/-! ### `do_next` on any spelling -/

theorem spell_ne_nil {bs : Bytes} {t : Tok} {nx : Option UInt8} (h : Spell bs t nx) : bs ≠ [] := by
  cases h with
  | ident _ _ hs _ => intro e; subst e; simp [identOk] at hs
  | num r ds v nx _ hne _ _ _ => intro e; simp at e; exact hne e.2
  | _ => simp

theorem doNext_spell (bs rest : Bytes) (t : Tok) (hs : Spell bs t rest.head?) (hur : Utf8 rest) (l k : Nat) :
    doNext ⟨bs ++ rest, false, l, k⟩ = .tok ⟨l, k, t⟩ ⟨rest, false, (adv (l, k) bs).1, (adv (l, k) bs).2⟩ := by
  cases hs with
  | punct c t nx hp _ => exact doNext_punct c t rest hp hur l k
  | div => exact doNext_punct 47 .div rest (by decide) hur l k
  | shl => exact doNext_shift 60 .shl rest (Or.inl ⟨rfl, rfl⟩) hur l k
  | shr => exact doNext_shift 62 .shr rest (Or.inr ⟨rfl, rfl⟩) hur l k
  | ident _ _ hs hf =>
    cases bs with
    | nil => simp [identOk] at hs
    | cons b0 tl =>
      have hb0 : identStart b0 = true := by
        simp only [identOk, Bool.and_eq_true] at hs; exact hs.1
      rw [doNext_ident ⟨b0 :: tl ++ rest, false, l, k⟩ b0 (tl ++ rest) rfl hb0]
      exact lexIdent_exact b0 tl rest hs hf hur l k
  | num r ds v nx hrx hne hds hv hf =>
    obtain ⟨d0, dtl, hdd, h0⟩ : ∃ d0 dtl, radixPrefix r ++ ds = d0 :: dtl ∧ 48 ≤ d0.toNat ∧ d0.toNat ≤ 57 := by
      rcases hrx with rfl | rfl | rfl | rfl
      · exact ⟨48, 98 :: ds, by simp [radixPrefix], by decide⟩
      · exact ⟨48, 111 :: ds, by simp [radixPrefix], by decide⟩
      · cases ds with
        | nil => exact absurd rfl hne
        | cons a ds' => exact ⟨a, ds', by simp [radixPrefix], isDigit10_range (hds a (by simp))⟩
      · exact ⟨48, 120 :: ds, by simp [radixPrefix], by decide⟩
    rw [doNext_number ⟨radixPrefix r ++ ds ++ rest, false, l, k⟩ d0 (dtl ++ rest) (by simp [hdd]) h0]
    exact lexNumber_spell r ds rest v hrx hne hds hv hf hur l k
  | chr c nx hc =>
    have : (39 :: encodeChar c ++ [39]) ++ rest = 39 :: encodeChar c ++ 39 :: rest := by simp
    rw [this, doNext_char _ 39 (encodeChar c ++ 39 :: rest) rfl (by decide)]
    exact lexChar_raw_then c hc rest hur l k
  | chrEsc e v nx he =>
    have : ([39, 92, e, 39] : Bytes) ++ rest = 39 :: 92 :: e :: 39 :: rest := rfl
    rw [this, doNext_char _ 39 (92 :: e :: 39 :: rest) rfl (by decide)]
    exact lexChar_esc_then e v he rest hur l k
  | str items nx hok =>
    have : (34 :: renderAll items ++ [34]) ++ rest = 34 :: renderAll items ++ 34 :: rest := by simp
    rw [this, doNext_string _ 34 (renderAll items ++ 34 :: rest) rfl (by decide)]
    exact lexString_items items hok rest hur l k

theorem tokStart_of_head (b : UInt8) (tl : Bytes) (h1 : isSpace b = false) (h2 : b.toNat ≠ 47) (h3 : b.toNat < 128) :
    TokStart (b :: tl) := by
  refine ⟨b, tl, rfl, h1, by rw [isCont_false_iff]; omega, ?_, ?_⟩ <;> cases tl <;> simp [startsWith2, h2]

theorem spell_tokStart {bs : Bytes} {t : Tok} {rest : Bytes} (hs : Spell bs t rest.head?) : TokStart (bs ++ rest) := by
  cases hs with
  | punct c t nx hp h47 =>
    have hc := punct_some hp
    have hsp : isSpace c = false := by
      cases hs : isSpace c with
      | false => rfl
      | true =>
        exfalso
        simp [isSpace] at hs
        rcases hs with ((h | h) | h) | h <;> rw [h] at hp <;> simp [punct] at hp
    exact tokStart_of_head c rest hsp h47 hc.1
  | div _ hnx =>
    refine ⟨47, rest, rfl, by decide, by decide, ?_, ?_⟩
    · cases rest with
      | nil => simp [startsWith2]
      | cons b r => have := (hnx b rfl).1; simp [startsWith2, this]
    · cases rest with
      | nil => simp [startsWith2]
      | cons b r => have := (hnx b rfl).2; simp [startsWith2, this]
  | shl => exact tokStart_of_head 60 _ (by decide) (by decide) (by decide)
  | shr => exact tokStart_of_head 62 _ (by decide) (by decide) (by decide)
  | ident _ _ hs _ =>
    cases bs with
    | nil => simp [identOk] at hs
    | cons b0 tl =>
      have hb0 : identStart b0 = true := by
        simp only [identOk, Bool.and_eq_true] at hs; exact hs.1
      have : (65 ≤ b0.toNat ∧ b0.toNat ≤ 90) ∨ b0.toNat = 95 ∨ (97 ≤ b0.toNat ∧ b0.toNat ≤ 122) := by
        simp [identStart] at hb0; omega
      exact tokStart_of_head b0 _ (by simp [isSpace]; omega) (by omega) (by omega)
  | num r ds v nx hrx hne hds _ _ =>
    obtain ⟨d0, dtl, hdd, h0⟩ : ∃ d0 dtl, radixPrefix r ++ ds = d0 :: dtl ∧ 48 ≤ d0.toNat ∧ d0.toNat ≤ 57 := by
      rcases hrx with rfl | rfl | rfl | rfl
      · exact ⟨48, 98 :: ds, by simp [radixPrefix], by decide⟩
      · exact ⟨48, 111 :: ds, by simp [radixPrefix], by decide⟩
      · cases ds with
        | nil => exact absurd rfl hne
        | cons a ds' => exact ⟨a, ds', by simp [radixPrefix], isDigit10_range (hds a (by simp))⟩
      · exact ⟨48, 120 :: ds, by simp [radixPrefix], by decide⟩
    rw [hdd]
    exact tokStart_of_head d0 _ (by simp [isSpace]; omega) (by omega) (by omega)
  | chr c nx hc => exact tokStart_of_head 39 _ (by decide) (by decide) (by decide)
  | chrEsc e v nx he => exact tokStart_of_head 39 _ (by decide) (by decide) (by decide)
  | str items nx hok => exact tokStart_of_head 34 _ (by decide) (by decide) (by decide)

theorem skipLoop_tokStart {tail : Bytes} (h : TokStart tail) (g : Nat) (u : Bool) (l c : Nat) :
    skipLoop (g + 1) ⟨tail, u, l, c⟩ = .go ⟨tail, u, l, c⟩ := by
  obtain ⟨b, tl, hd, h1, h2, h3, h4⟩ := h
  have := skipLoop_body g u l c [] tail (by simp) (by intro x hx; rw [hd] at hx; simp at hx; subst hx; exact ⟨h1, h2⟩)
  simp only [List.nil_append, Pos.adv_nil] at this
  rw [this]
  simp [skipBody, h3, h4]

/-! ### `next_token` on a layout -/

theorem nextToken_layout (sep bs rest : Bytes) (t : Tok) (hsep : IsSep sep) (hs : Spell bs t rest.head?)
    (hur : Utf8 rest) (l c : Nat) :
    nextToken ⟨sep ++ bs ++ rest, false, l, c⟩ =
      .tok ⟨(adv (l, c) sep).1, (adv (l, c) sep).2, t⟩
        ⟨rest, false, (adv (l, c) (sep ++ bs)).1, (adv (l, c) (sep ++ bs)).2⟩ := by
  unfold nextToken
  have hsk := skipLoop_sep hsep (bs ++ rest) (utf8_spell hs hur) false
    (fun l' c' => .go ⟨bs ++ rest, false, l', c'⟩) (fun g l' c' => skipLoop_tokStart (spell_tokStart hs) g false l' c')
    ((sep ++ (bs ++ rest)).length + 1) l c (by simp only [List.length_append]; omega)
  rw [List.append_assoc]
  dsimp only
  rw [hsk]
  simp only
  have hne : (!(bs ++ rest).isEmpty) = true := by
    have := spell_ne_nil hs
    cases bs with
    | nil => exact absurd rfl this
    | cons _ _ => simp
  simp only [hne, if_true]
  rw [doNext_spell bs rest t hs hur]
  simp only
  rw [Pos.adv_append]

theorem utf8_sepEnd {d : Bytes} (h : IsSepEnd d) : Utf8 d := by
  rcases h with h | ⟨a, body, rfl, ha, _, hub⟩
  · simpa using utf8_sep h Utf8.nil
  · exact utf8_sep ha (utf8_ascii_append [47, 47] (by decide) hub)

theorem nextToken_end (trail : Bytes) (h : IsSepEnd trail) (l c : Nat) :
    nextToken ⟨trail, false, l, c⟩ = .done ⟨[], false, (adv (l, c) trail).1, (adv (l, c) trail).2⟩ := by
  unfold nextToken
  rcases h with h | ⟨a, body, rfl, ha, hbody, hub⟩
  · have hsk := skipLoop_sep h [] Utf8.nil false (fun l' c' => .go ⟨[], false, l', c'⟩)
      (fun g l' c' => by simp [skipLoop]) (trail.length + 1) l c (by omega)
    simp only [List.append_nil] at hsk
    dsimp only
    rw [hsk]
    simp
  · have htail : Utf8 ((47 : UInt8) :: 47 :: body) := utf8_ascii_append [47, 47] (by decide) hub
    have hall : ∀ x ∈ ((47 : UInt8) :: 47 :: body), x.toNat ≠ 10 := by
      intro x hx
      rcases List.mem_cons.mp hx with rfl | hx
      · decide
      · rcases List.mem_cons.mp hx with rfl | hx
        · decide
        · exact hbody x hx
    have hT : ∀ g l' c', skipLoop (g + 1) ⟨47 :: 47 :: body, false, l', c'⟩ =
        .go ⟨[], false, (adv (l', c') (47 :: 47 :: body)).1, (adv (l', c') (47 :: 47 :: body)).2⟩ := by
      intro g l' c'
      have := skipLoop_body g false l' c' [] (47 :: 47 :: body) (by simp) (by intro x hx; simp at hx; subst hx; decide)
      simp only [List.nil_append, Pos.adv_nil] at this
      rw [this]
      unfold skipBody
      have hsw : startsWith2 (47 :: 47 :: body) 47 47 = true := by simp [startsWith2]
      have hpos : position (fun b => b.toNat == 10) (47 :: 47 :: body) = none :=
        position_none_of_all _ (by intro x hx; simpa using hall x hx)
      simp only [hsw, if_true, hpos]
      rw [updatePos_eq (good_of_utf8 htail)]
      simp
    have hsk := skipLoop_sep ha (47 :: 47 :: body) htail false _ hT ((a ++ 47 :: 47 :: body).length + 1) l c
      (by simp only [List.length_append]; omega)
    dsimp only
    rw [hsk]
    simp only
    simp [Pos.adv_append]

/-! ### the whole text -/

theorem utf8_ltext {L : List LTok} {trail : Bytes} (h : LOk L trail) : Utf8 (ltext L trail) := by
  induction L with
  | nil => exact utf8_sepEnd h
  | cons x r ih =>
    obtain ⟨h1, h2, h3⟩ := h
    simp only [ltext]
    rw [List.append_assoc]
    exact utf8_sep h1 (utf8_spell h2 (ih h3))

theorem run_layout (L : List LTok) (trail : Bytes) (h : LOk L trail) (pre : Bytes) (f : Nat) (hf : L.length + 1 ≤ f) :
    run f ⟨ltext L trail, false, (Pos.of pre).1, (Pos.of pre).2⟩ =
      .ok ⟨ltoks pre L, none, (Pos.of (pre ++ ltext L trail)).1, (Pos.of (pre ++ ltext L trail)).2⟩ := by
  induction L generalizing pre f with
  | nil =>
    obtain ⟨g, rfl⟩ : ∃ g, f = g + 1 := ⟨f - 1, by omega⟩
    simp only [ltext, ltoks, run]
    rw [nextToken_end trail h]
    simp only
    rw [Pos.of_append]
  | cons x r ih =>
    obtain ⟨g, rfl⟩ : ∃ g, f = g + 1 := ⟨f - 1, by omega⟩
    obtain ⟨h1, h2, h3⟩ := h
    simp only [ltext, ltoks, run]
    rw [nextToken_layout x.sep x.spell (ltext r trail) x.tok h1 h2 (utf8_ltext h3)]
    simp only
    have e1 : adv (Pos.of pre) x.sep = Pos.of (pre ++ x.sep) := (Pos.of_append _ _).symm
    have e2 : adv (Pos.of pre) (x.sep ++ x.spell) = Pos.of (pre ++ x.sep ++ x.spell) := by
      rw [List.append_assoc]; exact (Pos.of_append _ _).symm
    have := ih h3 (pre ++ x.sep ++ x.spell) g (by simp at hf; omega)
    rw [e1, e2, this]
    simp [Out.push, List.append_assoc]

theorem llen_le {L : List LTok} {trail : Bytes} (h : LOk L trail) : L.length ≤ (ltext L trail).length := by
  induction L with
  | nil => simp
  | cons x r ih =>
    obtain ⟨_, h2, h3⟩ := h
    have := ih h3
    have hne := spell_ne_nil h2
    have : 0 < x.spell.length := List.length_pos_iff.mpr hne
    simp [ltext]; omega

/-- **the tokenizer reads a layout back exactly**: the token of each spelling at the specified position of the
text before the spelling, no error, final position = position of the end of the text -/
theorem tokens_layout (L : List LTok) (trail : Bytes) (h : LOk L trail) :
    tokens (ltext L trail) =
      .ok ⟨ltoks [] L, none, (Pos.of (ltext L trail)).1, (Pos.of (ltext L trail)).2⟩ := by
  unfold tokens
  rw [new_of_utf8 _ (utf8_ltext h)]
  have := run_layout L trail h [] ((ltext L trail).length + 2) (by have := llen_le h; omega)
  simp only [List.nil_append] at this
  exact this

end Trion.Lex
