import TrionModel.Lemmas.SimpSound2
import TrionModel.Lemmas.SimpInv
/-!
# Soundness of the simplifier, part 3: value lemmas for `findC` / `setC` / `dropC`

* additive family (`+`, `-`, unary `-`): the chain value is `q + sgn s · c`
* the commutative-associative one-operator families (`*`, `&`, `|`, `^`): the chain value is `f q c`
* the left spine of `/`
-/
namespace Trion.Simp
open Trion

def sgn (b : Bool) : Int := if b then -1 else 1

theorem findC_found_inv {ty : BinOp} {a : Arg} {i : Bool} {c : Int} {s : Bool}
    (h : findC ty a i = .found c s) : ∃ s0, findC ty a false = .found c s0 ∧ s = (s0 ^^ i) := by
  rw [findC_inv] at h
  cases hf : findC ty a false with
  | found c0 s0 =>
    simp only [hf, Find.flip, Find.found.injEq] at h
    exact ⟨s0, by rw [h.1], h.2.symm⟩
  | none => simp [hf, Find.flip] at h
  | panic => simp [hf, Find.flip] at h

theorem valZ_neg_mk {ρ : Env} {a : Arg} {w : Int} (h : valZ ρ a = some w) : valZ ρ (.neg a) = some (-w) := by
  simp [valZ, h]

/-! ### additive family -/

theorem sameFam_addsub {ty op : BinOp} (hty : isAddSub ty = true) : sameFam ty op = isAddSub op := by
  cases ty <;> cases op <;> simp_all [sameFam, isAddSub]

theorem chainOp_of_addsub {op : BinOp} (h : isAddSub op = true) : chainOp op = true := by
  cases op <;> simp_all [isAddSub, chainOp]

theorem opZ_addsub {op : BinOp} (h : isAddSub op = true) (a b : Int) :
    opZ op a b = some (asZ (op == .sub) a b) := by
  cases op <;> simp_all [isAddSub, opZ, asZ]

theorem addsub_chain (ρ : Env) (ty : BinOp) (hty : isAddSub ty = true) (a : Arg) :
    ∀ (c : Int) (s : Bool) (v : Int), findC ty a false = .found c s → valZ ρ a = some v →
      ∃ q, v = q + sgn s * c ∧ (∀ n, valZ ρ (setC ty n a) = some (q + sgn s * n)) ∧
        valZ ρ (dropC ty a) = some q := by
  induction a using Arg.ind with
  | bin op l r ihl ihr =>
    intro c s v hf hv
    obtain ⟨x, y, hl, hr, ho⟩ := valZ_bin hv
    by_cases hop : isAddSub op = true
    · have hch := chainOp_of_addsub hop
      have hsf : sameFam ty op = true := by rw [sameFam_addsub hty]; exact hop
      rw [opZ_addsub hop] at ho
      have hv' : v = asZ (op == .sub) x y := (Option.some.inj ho).symm
      simp only [findC, hch, hsf, if_true] at hf
      simp only [setC, dropC, hch, hsf, if_true]
      cases hcl : cval l with
      | some cl =>
        have hx : x = cl := by have := cval_valZ (ρ := ρ) hcl; rw [hl] at this; exact Option.some.inj this
        cases hcr : cval r with
        | some cr => simp [hcl, hcr] at hf
        | none =>
          simp only [hcl, hcr, Find.found.injEq] at hf
          obtain ⟨rfl, rfl⟩ := hf
          subst hx
          simp only
          refine ⟨asZ (op == .sub) 0 y, ?_, fun n => ?_, ?_⟩
          · rw [hv']; cases (op == BinOp.sub) <;> simp [asZ, sgn] <;> omega
          · rw [valZ_bin_mk (l := .const n) rfl hr, opZ_addsub hop]
            cases (op == BinOp.sub) <;> simp [asZ, sgn] <;> omega
          · cases hb : (op == BinOp.sub)
            · simpa [asZ] using hr
            · simpa [asZ] using valZ_neg_mk hr
      | none =>
        cases hcr : cval r with
        | some cr =>
          have hy : y = cr := by have := cval_valZ (ρ := ρ) hcr; rw [hr] at this; exact Option.some.inj this
          simp only [hcl, hcr, Find.found.injEq, Bool.false_xor] at hf
          obtain ⟨rfl, rfl⟩ := hf
          subst hy
          simp only
          refine ⟨x, ?_, fun n => ?_, hl⟩
          · rw [hv']; cases (op == BinOp.sub) <;> simp [asZ, sgn] <;> omega
          · rw [valZ_bin_mk (r := .const n) hl rfl, opZ_addsub hop]
            cases (op == BinOp.sub) <;> simp [asZ, sgn] <;> omega
        | none =>
          simp only [hcl, hcr] at hf
          simp only
          cases hfl : findC ty l false with
          | found c1 s1 =>
            simp only [hfl, Find.found.injEq] at hf
            obtain ⟨rfl, rfl⟩ := hf
            obtain ⟨q, hq, hset, hdrop⟩ := ihl c1 s1 x hfl hl
            simp only [Find.isFound, if_true]
            refine ⟨asZ (op == .sub) q y, ?_, fun n => ?_, ?_⟩
            · rw [hv', hq]; cases (op == BinOp.sub) <;> simp [asZ] <;> omega
            · rw [valZ_bin_mk (hset n) hr, opZ_addsub hop]
              cases (op == BinOp.sub) <;> simp [asZ] <;> omega
            · rw [valZ_bin_mk hdrop hr, opZ_addsub hop]
          | panic => simp [hfl] at hf
          | none =>
            simp only [hfl, Bool.false_xor] at hf
            obtain ⟨s0, hf0, hs⟩ := findC_found_inv hf
            obtain ⟨q, hq, hset, hdrop⟩ := ihr c s0 y hf0 hr
            simp only [Find.isFound, Bool.false_eq_true, if_false]
            refine ⟨asZ (op == .sub) x q, ?_, fun n => ?_, ?_⟩
            · rw [hv', hq, hs]; cases (op == BinOp.sub) <;> cases s0 <;> simp [asZ, sgn] <;> omega
            · rw [valZ_bin_mk hl (hset n), opZ_addsub hop, hs]
              cases (op == BinOp.sub) <;> cases s0 <;> simp [asZ, sgn] <;> omega
            · rw [valZ_bin_mk hl hdrop, opZ_addsub hop]
    · have hsf : sameFam ty op = false := by rw [sameFam_addsub hty]; simpa using hop
      have hnd : (ty == BinOp.div) = false := by cases ty <;> simp_all [isAddSub]
      simp only [findC, hsf, hnd] at hf
      split at hf
      · simp at hf
      · split at hf <;> simp at hf
  | neg w ih =>
    intro c s v hf hv
    obtain ⟨x, hx, rfl⟩ := valZ_neg hv
    simp only [findC, hty, if_true] at hf
    obtain ⟨s0, hf0, hs⟩ := findC_found_inv hf
    obtain ⟨q, hq, hset, hdrop⟩ := ih c s0 x hf0 hx
    simp only [setC, dropC, hty, if_true]
    refine ⟨-q, ?_, fun n => ?_, valZ_neg_mk hdrop⟩
    · rw [hq, hs]; cases s0 <;> simp [sgn] <;> omega
    · rw [valZ_neg_mk (hset n), hs]; cases s0 <;> simp [sgn] <;> omega
  | const w => intro c s v hf; simp [findC] at hf
  | ident w => intro c s v hf; simp [findC] at hf
  | str w => intro c s v hf; simp [findC] at hf
  | not w _ => intro c s v hf; simp [findC] at hf
  | addr w _ => intro c s v hf; simp [findC] at hf
  | seq w => intro c s v hf; simp [findC] at hf
  | func n w => intro c s v hf; simp [findC] at hf

/-! ### one-operator commutative-associative families: `*`, `&`, `|`, `^` -/

/-- what the chain lemma needs to know about the operator `ty` -/
structure CAFam (ty : BinOp) (f : Int → Int → Int) (D : Int → Prop) (unit : Int) : Prop where
  chain : chainOp ty = true
  notAS : isAddSub ty = false
  opz : ∀ a b v, opZ ty a b = some v ↔ (D a ∧ D b ∧ v = f a b)
  closed : ∀ a b, D a → D b → D (f a b)
  comm : ∀ a b, f a b = f b a
  assoc : ∀ a b c, f (f a b) c = f a (f b c)
  dunit : D unit
  hunit : ∀ n, D n → f unit n = n

theorem CAFam.sameFam {ty : BinOp} {f D e} (F : CAFam ty f D e) (op : BinOp) : sameFam ty op = (ty == op) := by
  have := F.notAS
  cases ty <;> cases op <;> simp_all [Trion.Simp.sameFam, isAddSub]

theorem CAFam.ne_sub {ty : BinOp} {f D e} (F : CAFam ty f D e) : (ty == BinOp.sub) = false := by
  have := F.notAS
  cases ty <;> simp_all [isAddSub]

theorem CAFam.ne_div {ty : BinOp} {f D e} (F : CAFam ty f D e) : (ty == BinOp.div) = false := by
  have := F.chain
  cases ty <;> simp_all [chainOp]

theorem CAFam.mk_val {ty : BinOp} {f D e} (F : CAFam ty f D e) {ρ : Env} {l r : Arg} {a b : Int}
    (hl : valZ ρ l = some a) (hr : valZ ρ r = some b) (ha : D a) (hb : D b) :
    valZ ρ (.bin ty l r) = some (f a b) := by
  rw [valZ_bin_mk hl hr]; exact (F.opz a b _).2 ⟨ha, hb, rfl⟩

theorem ca_chain {ty : BinOp} {f D e} (F : CAFam ty f D e) (ρ : Env) (a : Arg) :
    ∀ (c : Int) (s : Bool) (v : Int), findC ty a false = .found c s → valZ ρ a = some v →
      ∃ q, D q ∧ D c ∧ v = f q c ∧ (∀ n, D n → valZ ρ (setC ty n a) = some (f q n)) ∧
        valZ ρ (dropC ty a) = some q := by
  induction a using Arg.ind with
  | bin op l r ihl ihr =>
    intro c s v hf hv
    by_cases hop : (ty == op) = true
    · have hop' : ty = op := by simpa using hop
      subst hop'
      obtain ⟨x, y, hl, hr, ho⟩ := valZ_bin hv
      obtain ⟨hDx, hDy, rfl⟩ := (F.opz x y v).1 ho
      have hsf : Trion.Simp.sameFam ty ty = true := by rw [F.sameFam]; simp
      simp only [findC, F.chain, hsf, if_true] at hf
      simp only [setC, dropC, F.chain, hsf, if_true]
      cases hcl : cval l with
      | some cl =>
        have hx : x = cl := by have := cval_valZ (ρ := ρ) hcl; rw [hl] at this; exact Option.some.inj this
        cases hcr : cval r with
        | some cr => simp [hcl, hcr] at hf
        | none =>
          simp only [hcl, hcr, Find.found.injEq] at hf
          obtain ⟨rfl, rfl⟩ := hf
          subst hx
          simp only [F.ne_sub, Bool.false_eq_true, if_false]
          refine ⟨y, hDy, hDx, F.comm _ _, fun n hn => ?_, hr⟩
          rw [F.mk_val (l := .const n) rfl hr hn hDy, F.comm]
      | none =>
        cases hcr : cval r with
        | some cr =>
          have hy : y = cr := by have := cval_valZ (ρ := ρ) hcr; rw [hr] at this; exact Option.some.inj this
          simp only [hcl, hcr, Find.found.injEq] at hf
          obtain ⟨rfl, _⟩ := hf
          subst hy
          exact ⟨x, hDx, hDy, rfl, fun n hn => F.mk_val (r := .const n) hl rfl hDx hn, hl⟩
        | none =>
          simp only [hcl, hcr] at hf
          simp only
          cases hfl : findC ty l false with
          | found c1 s1 =>
            simp only [hfl, Find.found.injEq] at hf
            obtain ⟨rfl, rfl⟩ := hf
            obtain ⟨q, hDq, hDc, hq, hset, hdrop⟩ := ihl c1 s1 x hfl hl
            simp only [Find.isFound, if_true]
            refine ⟨f q y, F.closed _ _ hDq hDy, hDc, ?_, fun n hn => ?_, F.mk_val hdrop hr hDq hDy⟩
            · rw [hq, F.assoc, F.comm c1 y, ← F.assoc]
            · rw [F.mk_val (hset n hn) hr (F.closed _ _ hDq hn) hDy, F.assoc, F.comm n y, ← F.assoc]
          | panic => simp [hfl] at hf
          | none =>
            simp only [hfl] at hf
            obtain ⟨s0, hf0, _⟩ := findC_found_inv hf
            obtain ⟨q, hDq, hDc, hq, hset, hdrop⟩ := ihr c s0 y hf0 hr
            simp only [Find.isFound, Bool.false_eq_true, if_false]
            refine ⟨f x q, F.closed _ _ hDx hDq, hDc, ?_, fun n hn => ?_, F.mk_val hl hdrop hDx hDq⟩
            · rw [hq, F.assoc]
            · rw [F.mk_val hl (hset n hn) hDx (F.closed _ _ hDq hn), F.assoc]
    · have hsf : Trion.Simp.sameFam ty op = false := by rw [F.sameFam]; simpa using hop
      simp only [findC, hsf, F.ne_div] at hf
      split at hf
      · simp at hf
      · split at hf <;> simp at hf
  | neg w _ => intro c s v hf; simp [findC, F.notAS] at hf
  | const w => intro c s v hf; simp [findC] at hf
  | ident w => intro c s v hf; simp [findC] at hf
  | str w => intro c s v hf; simp [findC] at hf
  | not w _ => intro c s v hf; simp [findC] at hf
  | addr w _ => intro c s v hf; simp [findC] at hf
  | seq w => intro c s v hf; simp [findC] at hf
  | func n w => intro c s v hf; simp [findC] at hf

theorem famMul : CAFam .mul (· * ·) (fun _ => True) 1 where
  chain := rfl
  notAS := rfl
  opz := fun a b v => by simp [opZ, eq_comm]
  closed := fun _ _ _ _ => trivial
  comm := Int.mul_comm
  assoc := Int.mul_assoc
  dunit := trivial
  hunit := fun n _ => Int.one_mul n

theorem famAnd : CAFam .band band (fun v => inI64 v = true) (-1) where
  chain := rfl
  notAS := rfl
  opz := fun a b v => by
    simp only [opZ]
    by_cases h : inI64 a = true ∧ inI64 b = true
    · simp [h, eq_comm]
    · simp only [h, if_false]; constructor
      · intro h1; simp at h1
      · intro h1; exact (h ⟨h1.1, h1.2.1⟩).elim
  closed := fun a b _ _ => band_range a b
  comm := band_comm
  assoc := band_assoc
  dunit := by decide
  hunit := fun n hn => by rw [band_comm]; exact band_neg_one hn

theorem famOr : CAFam .bor bor (fun v => inI64 v = true) 0 where
  chain := rfl
  notAS := rfl
  opz := fun a b v => by
    simp only [opZ]
    by_cases h : inI64 a = true ∧ inI64 b = true
    · simp [h, eq_comm]
    · simp only [h, if_false]; constructor
      · intro h1; simp at h1
      · intro h1; exact (h ⟨h1.1, h1.2.1⟩).elim
  closed := fun a b _ _ => bor_range a b
  comm := bor_comm
  assoc := bor_assoc
  dunit := by decide
  hunit := fun n hn => by rw [bor_comm]; exact bor_zero hn

theorem famXor : CAFam .bxor bxor (fun v => inI64 v = true) 0 where
  chain := rfl
  notAS := rfl
  opz := fun a b v => by
    simp only [opZ]
    by_cases h : inI64 a = true ∧ inI64 b = true
    · simp [h, eq_comm]
    · simp only [h, if_false]; constructor
      · intro h1; simp at h1
      · intro h1; exact (h ⟨h1.1, h1.2.1⟩).elim
  closed := fun a b _ _ => bxor_range a b
  comm := bxor_comm
  assoc := bxor_assoc
  dunit := by decide
  hunit := fun n hn => by rw [bxor_comm]; exact bxor_zero hn

/-! ### the left spine of a division -/

theorem valZ_div_mk {ρ : Env} {l r : Arg} {a b : Int} (hl : valZ ρ l = some a) (hr : valZ ρ r = some b)
    (hb : b ≠ 0) : valZ ρ (.bin .div l r) = some (a.tdiv b) := by
  rw [valZ_bin_mk hl hr]; simp [opZ, hb]

theorem div_chain (ρ : Env) (a : Arg) :
    ∀ (c : Int) (s : Bool) (v : Int), findC .div a false = .found c s → valZ ρ a = some v →
      ∀ b, b ≠ 0 →
        valZ ρ (setC .div (if s then c * b else c.tdiv b) a) = some (v.tdiv b) := by
  induction a using Arg.ind with
  | bin op l r ihl _ =>
    intro c s v hf hv b hb
    by_cases hop : op = .div
    · subst hop
      obtain ⟨x, y, hl, hr, ho⟩ := valZ_bin hv
      simp only [opZ] at ho
      by_cases hy0 : y = 0
      · simp [hy0] at ho
      · simp only [hy0, if_false, Option.some.injEq] at ho
        subst ho
        simp only [findC, chainOp, Bool.false_eq_true, if_false, beq_self_eq_true, if_true] at hf
        simp only [setC, chainOp, Bool.false_eq_true, if_false, beq_self_eq_true, if_true]
        cases hcl : cval l with
        | some cl =>
          have hx : x = cl := by have := cval_valZ (ρ := ρ) hcl; rw [hl] at this; exact Option.some.inj this
          cases hcr : cval r with
          | some cr => simp [hcl, hcr] at hf
          | none =>
            simp only [hcl, hcr, Find.found.injEq] at hf
            obtain ⟨rfl, rfl⟩ := hf
            subst hx
            simp only [Bool.false_eq_true, if_false]
            rw [valZ_div_mk (l := .const (x.tdiv b)) rfl hr hy0, tdiv_comm]
        | none =>
          cases hcr : cval r with
          | some cr =>
            have hy : y = cr := by have := cval_valZ (ρ := ρ) hcr; rw [hr] at this; exact Option.some.inj this
            simp only [hcl, hcr, Find.found.injEq, Bool.not_false] at hf
            obtain ⟨rfl, rfl⟩ := hf
            subst hy
            simp only [if_true]
            have : y * b ≠ 0 := Int.mul_ne_zero hy0 hb
            rw [valZ_div_mk (r := .const (y * b)) hl rfl this, tdiv_tdiv]
          | none =>
            simp only [hcl, hcr] at hf
            simp only
            rw [valZ_div_mk (ihl c s x hf hl b hb) hr hy0, tdiv_comm]
    · have h1 : chainOp op = true ∨ chainOp op = false := by cases chainOp op <;> simp
      rcases h1 with h1 | h1
      · have hsf : sameFam .div op = false := by cases op <;> simp_all [sameFam, isAddSub, chainOp]
        simp [findC, h1, hsf] at hf
      · have h2 : (op == BinOp.div) = false := by simpa using hop
        simp [findC, h1, h2] at hf
  | neg w _ => intro c s v hf; simp [findC, isAddSub] at hf
  | const w => intro c s v hf; simp [findC] at hf
  | ident w => intro c s v hf; simp [findC] at hf
  | str w => intro c s v hf; simp [findC] at hf
  | not w _ => intro c s v hf; simp [findC] at hf
  | addr w _ => intro c s v hf; simp [findC] at hf
  | seq w => intro c s v hf; simp [findC] at hf
  | func n w => intro c s v hf; simp [findC] at hf

end Trion.Simp
