import TrionModel.Model.Codec
/-! The finite table behind C03 (16-bit half): a Boolean checker evaluated by the kernel on every
halfword below the 32-bit space, in 8 blocks that build in parallel (`CodecTab0` … `CodecTab7`). -/
namespace Trion.Codec
open Trion

/-- what C03 demands of one halfword `h` below the 32-bit space: `decode16 h` is not a panic and not an
underflow; a classified error names `h`; a decoded instruction has length 2, re-encodes to a single
halfword below the 32-bit space, and that halfword decodes to the same instruction. -/
def chk16 (h : Nat) : Bool :=
  match decode16 h with
  | .ok (n, i) =>
    n == 2 && (match encode i with
      | .ok [h'] =>
        -- almost always the same halfword comes back; the alias encodings need the second decode
        h' == h || (decide (h' / 2048 < 29) && decide (h' < 65536) && (match decode16 h' with
          | .ok (n', i') => n' == 2 && decide (i' = i)
          | .error _ => false))
      | _ => false)
  | .error (.undefined a none) => a == h
  | .error (.unpredictable a none) => a == h
  | .error (.reserved a none) => a == h
  | .error _ => false

/-- block `k`: high bytes `32 k + a` for `a < cnt`, every low byte `b` -/
def chkBlock (k cnt : Nat) : Prop := ∀ a : Fin cnt, ∀ b : Fin 256, chk16 ((32 * k + a.val) * 256 + b.val) = true

instance (k cnt : Nat) : Decidable (chkBlock k cnt) := by unfold chkBlock; infer_instance

end Trion.Codec
