import TrionModel.Lemmas.Map
/-!
# Memory map: the return count of `put`
-/
namespace Trion.Map
open Trion.Dict

/-- number of addresses of `[a, e)` covered by the segments (segment-wise interval arithmetic) -/
def occSegs : Segs → Nat → Nat → Nat
  | [], _, _ => 0
  | (f, x) :: r, a, e => (min e (f + x.length) - max a f) + occSegs r a e

theorem occSegs_zero {lo : Nat} {r : Segs} (ok : Ok lo r) (a e : Nat) (h : e ≤ lo) : occSegs r a e = 0 := by
  induction r generalizing lo with
  | nil => rfl
  | cons s r ih =>
    obtain ⟨f, x⟩ := s
    obtain ⟨o1, _, _, o4⟩ := ok
    simp only [occSegs]
    rw [ih o4 (by omega)]
    omega

theorem occSegs_congr {lo : Nat} {r : Segs} (ok : Ok lo r) (a a' e e' : Nat) (ha : a ≤ lo) (ha' : a' ≤ lo)
    (he : e = e' ∨ (e ≤ lo ∧ e' ≤ lo)) : occSegs r a e = occSegs r a' e' := by
  induction r generalizing lo with
  | nil => rfl
  | cons s r ih =>
    obtain ⟨f, x⟩ := s
    obtain ⟨o1, _, _, o4⟩ := ok
    simp only [occSegs]
    rw [ih o4 (by omega) (by omega) (by omega)]
    omega

theorem putGo_fst (ps : Segs) : ∀ (lo a : Nat) (d : List UInt8), Ok lo ps → d ≠ [] →
    (putGo ps a d).1 = occSegs ps a (a + d.length) := by
  induction ps with
  | nil => intro lo a d _ _; rfl
  | cons s r ih =>
    obtain ⟨f, x⟩ := s
    intro lo a d ok hd
    obtain ⟨o1, o2, o3, o4⟩ := ok
    unfold putGo
    by_cases c1 : f + x.length < a
    · simp only [c1, if_true, occSegs]
      rw [ih _ a d o4 hd]
      omega
    · simp only [c1, if_false]
      by_cases c2 : a + d.length < f
      · simp only [c2, if_true, occSegs]
        rw [occSegs_zero o4 a (a + d.length) (by omega)]
        omega
      · simp only [c2, if_false, occSegs]
        have hne : x.take (a - f) ++ d ++ x.drop (a + d.length - f) ≠ [] := by
          intro h; apply hd
          have := congrArg List.length h
          simp only [List.length_append, List.length_nil] at this
          exact List.eq_nil_of_length_eq_zero (by omega)
        rw [ih _ (min a f) _ o4 hne]
        have hl : (x.take (a - f) ++ d ++ x.drop (a + d.length - f)).length
            = min (a - f) x.length + d.length + (x.length - (a + d.length - f)) := by
          simp [List.length_append, List.length_take, List.length_drop]; omega
        rw [occSegs_congr o4 (min a f) a (min a f + (x.take (a - f) ++ d ++ x.drop (a + d.length - f)).length)
          (a + d.length) (by omega) (by omega) (by rw [hl]; omega)]
        simp only [List.length_take, List.length_drop]
        omega

theorem occupied_succ (D : Dict) (a n : Nat) :
    occupied D a (n + 1) = occupied D a n + (if (D (a + n)).isSome then 1 else 0) := by
  unfold occupied
  rw [List.range_succ, List.filter_append, List.length_append]
  by_cases h : (D (a + n)).isSome <;> simp [h]

theorem fresh_succ (D : Dict) (a n : Nat) :
    fresh D a (n + 1) = fresh D a n + (if (D (a + n)).isSome then 0 else 1) := by
  unfold fresh
  rw [List.range_succ, List.filter_append, List.length_append]
  by_cases h : (D (a + n)).isSome
  · have : (D (a + n)).isNone = false := by cases hh : D (a + n) <;> simp_all
    simp [h, this]
  · have : (D (a + n)).isNone = true := by cases hh : D (a + n) <;> simp_all
    simp [h, this]

theorem fresh_add_occupied (D : Dict) (a n : Nat) : fresh D a n + occupied D a n = n := by
  induction n with
  | zero => simp [fresh, occupied]
  | succ n ih =>
    rw [fresh_succ, occupied_succ]
    by_cases h : (D (a + n)).isSome <;> simp [h] <;> omega

theorem occSegs_succ {lo : Nat} {ps : Segs} (ok : Ok lo ps) (a e : Nat) (h : a ≤ e) :
    occSegs ps a (e + 1) = occSegs ps a e + (if (abs ps e).isSome then 1 else 0) := by
  induction ps generalizing lo with
  | nil => simp [occSegs, abs]
  | cons s r ih =>
    obtain ⟨f, x⟩ := s
    obtain ⟨o1, o2, o3, o4⟩ := ok
    simp only [occSegs]
    rw [ih o4]
    by_cases c : f ≤ e ∧ e < f + x.length
    · have hA : abs ((f, x) :: r) e = x[e - f]? := by rw [abs_cons, if_pos c]
      have h1 : abs r e = none := abs_none_of_lt o4 (by omega)
      have h2 : (x[e - f]?).isSome = true := by
        rw [List.getElem?_eq_getElem (by omega)]; rfl
      rw [hA, h1, h2]
      simp only [Option.isSome_none, Bool.false_eq_true, if_false, if_true]
      omega
    · have hA : abs ((f, x) :: r) e = abs r e := by rw [abs_cons, if_neg c]
      rw [hA]
      omega

theorem occSegs_eq_occupied {lo : Nat} {ps : Segs} (ok : Ok lo ps) (a n : Nat) :
    occSegs ps a (a + n) = occupied (abs ps) a n := by
  induction n with
  | zero =>
    simp only [Nat.add_zero, occupied, List.range_zero, List.filter_nil, List.length_nil]
    induction ps generalizing lo with
    | nil => rfl
    | cons s r ih =>
      obtain ⟨f, x⟩ := s
      simp only [occSegs]
      rw [ih ok.2.2.2]
      omega
  | succ n ih =>
    rw [← Nat.add_assoc, occSegs_succ ok a (a + n) (by omega), ih, occupied_succ]

end Trion.Map

namespace Trion.Map
open Trion.Dict

/-- `put` on a well-formed map, fitting below 2^32: return count, invariant, dictionary -/
theorem put_refines_aux (ps : Segs) (a : Nat) (d : List UInt8) (inv : MInv ps)
    (h : a + d.length ≤ 4294967296) :
    (put ps a d).1 = .ok (fresh (abs ps) a d.length) ∧
    MInv (put ps a d).2 ∧ abs (put ps a d).2 = Dict.put (abs ps) a d := by
  unfold put
  cases d with
  | nil =>
    refine ⟨by simp [fresh], inv, ?_⟩
    funext k
    simp [Dict.put]; omega
  | cons b t =>
    have hne : (b :: t) ≠ [] := by simp
    simp only [List.isEmpty_cons, Bool.false_eq_true, if_false]
    rw [if_neg (by unfold u32Max; simp only [List.length_cons] at h ⊢; omega)]
    obtain ⟨i1, i2⟩ := putGo_spec ps 0 a (b :: t) inv (Nat.zero_le _) hne h
    refine ⟨?_, i1, funext i2⟩
    have hc := putGo_fst ps 0 a (b :: t) inv hne
    have ho := occSegs_eq_occupied inv a (b :: t).length
    have hf := fresh_add_occupied (abs ps) a (b :: t).length
    show Except.ok ((b :: t).length - (putGo ps a (b :: t)).1) = _
    congr 1
    omega

end Trion.Map
