import TrionModel.Lemmas.Map
/-!
# Memory map: `removeRange` refines the dictionary range deletion
-/
namespace Trion.Map
open Trion.Dict

theorem abs_cons_nil (f : Nat) (r : Segs) (k : Nat) : abs ((f, []) :: r) k = abs r k := by
  rw [abs_cons, if_neg (by simp only [List.length_nil]; omega)]

/-- empty pieces denote nothing, so the conditional pieces can be read uniformly -/
theorem abs_pieces (f M : Nat) (pre post : List UInt8) (rest : Segs) (k : Nat) :
    abs ((if pre.isEmpty then [] else [(f, pre)]) ++ (if post.isEmpty then [] else [(M, post)]) ++ rest) k
      = abs ((f, pre) :: (M, post) :: rest) k := by
  cases pre with
  | nil =>
    cases post with
    | nil => simp only [List.isEmpty_nil, if_true, List.nil_append]; rw [abs_cons_nil, abs_cons_nil]
    | cons b t =>
      simp only [List.isEmpty_nil, List.isEmpty_cons, if_true, List.nil_append, Bool.false_eq_true, if_false]
      rw [abs_cons_nil]; rfl
  | cons a s =>
    cases post with
    | nil =>
      simp only [List.isEmpty_nil, List.isEmpty_cons, if_true, Bool.false_eq_true, if_false, List.append_nil]
      show abs ((f, a :: s) :: rest) k = _
      rw [abs_cons, abs_cons, abs_cons_nil]
    | cons b t => simp only [List.isEmpty_cons, Bool.false_eq_true, if_false]; rfl

theorem removeRange_apply (D : Dict) (l h k : Nat) :
    Dict.removeRange D l h k = if l ≤ k ∧ k ≤ h then none else D k := rfl

theorem removeRange_spec (ps : Segs) : ∀ (lo l h : Nat), Ok lo ps → l ≤ h →
    Ok lo (removeRange ps l h) ∧ ∀ k, abs (removeRange ps l h) k = Dict.removeRange (abs ps) l h k := by
  induction ps with
  | nil => intro lo l h _ _; exact ⟨trivial, fun k => by simp [removeRange, abs, removeRange_apply]⟩
  | cons s r ih =>
    obtain ⟨f, x⟩ := s
    intro lo l h ok hlh
    obtain ⟨o1, o2, o3, o4⟩ := ok
    obtain ⟨i1, i2⟩ := ih (f + x.length + 1) l h o4 hlh
    have hx : 0 < x.length := List.length_pos_iff.mpr o2
    have hpl : (x.take (l - f)).length = min (l - f) x.length := List.length_take
    have hql : (x.drop (h + 1 - f)).length = x.length - (h + 1 - f) := List.length_drop
    unfold removeRange
    refine ⟨?_, fun k => ?_⟩
    · -- invariant
      by_cases hp : (x.take (l - f)).isEmpty
      · by_cases hq : (x.drop (h + 1 - f)).isEmpty
        · simp only [hp, hq, if_true, List.nil_append]
          exact Ok_mono (by omega) i1
        · simp only [hp, hq, if_true, List.nil_append, Bool.false_eq_true, if_false, List.singleton_append]
          have hq' : x.drop (h + 1 - f) ≠ [] := by simpa [List.isEmpty_iff] using hq
          have hq0 : 0 < (x.drop (h + 1 - f)).length := List.length_pos_iff.mpr hq'
          have e : max f (h + 1) + (x.drop (h + 1 - f)).length = f + x.length := by omega
          refine ⟨by omega, hq', by omega, ?_⟩
          rw [e]; exact i1
      · have hp' : x.take (l - f) ≠ [] := by simpa [List.isEmpty_iff] using hp
        have hp0 : 0 < (x.take (l - f)).length := List.length_pos_iff.mpr hp'
        by_cases hq : (x.drop (h + 1 - f)).isEmpty
        · simp only [hp, hq, if_true, Bool.false_eq_true, if_false, List.append_nil, List.singleton_append]
          exact ⟨o1, hp', by omega, Ok_mono (by omega) i1⟩
        · simp only [hp, hq, Bool.false_eq_true, if_false, List.singleton_append, List.cons_append, List.nil_append]
          have hq' : x.drop (h + 1 - f) ≠ [] := by simpa [List.isEmpty_iff] using hq
          have hq0 : 0 < (x.drop (h + 1 - f)).length := List.length_pos_iff.mpr hq'
          have e : max f (h + 1) + (x.drop (h + 1 - f)).length = f + x.length := by omega
          refine ⟨o1, hp', by omega, by omega, hq', by omega, ?_⟩
          rw [e]; exact i1
    · -- dictionary
      rw [abs_pieces, abs_cons, abs_cons, i2, removeRange_apply, removeRange_apply, abs_cons]
      by_cases c1 : f ≤ k ∧ k < f + (x.take (l - f)).length
      · rw [if_pos c1, if_neg (by omega), if_pos (by omega)]
        rw [List.getElem?_take_of_lt (by omega)]
      · rw [if_neg c1]
        by_cases c2 : max f (h + 1) ≤ k ∧ k < max f (h + 1) + (x.drop (h + 1 - f)).length
        · rw [if_pos c2, if_neg (by omega), if_pos (by omega)]
          rw [List.getElem?_drop]
          congr 1; omega
        · rw [if_neg c2]
          by_cases c3 : l ≤ k ∧ k ≤ h
          · rw [if_pos c3, if_pos c3]
          · rw [if_neg c3, if_neg c3, if_neg (by omega)]

end Trion.Map
