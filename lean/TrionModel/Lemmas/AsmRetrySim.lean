import TrionModel.Lemmas.AsmRetry
import TrionModel.Lemmas.SimpTaint
import TrionModel.Lemmas.SimpStable
import TrionModel.Props.C08Asm
/-!
# The retry theorem for `Front.assemble` at the level of OUTCOME and INSTRUCTION (not trees)

`Front.assemble_retry` (Lemmas/AsmRetry.lean) needs the retried operand tree to evaluate to the very tree the fresh
operand evaluates to (`Grows.stop : e₂ a₁ = e₂ a`).  What the rest of the pipeline reads from `assemble` is less: did it
complete, and with which instruction.  Here the getter at the stop position only has to SUCCEED EQUALLY on the two trees
(`GetSim`: one getter yields the value `v` iff the other does); the trees left in the argument list may differ.

* `conv_pre_irrel`: the outcome/instruction/values of `convert!` do not depend on the argument trees already passed;
* `conv_retry_sim`, `assemble_retry_sim`: first attempt deferred, re-run over `e₂`: the re-run completes iff the fresh run
  completes, with the same instruction (`AsmSim`);
* `growsS_of_tables`: for the evaluators of `Asm` over `t₁ ⊆ t₂` the hypothesis holds
  - UNCONDITIONALLY at every operand position of kind `Immediate` / `Offset` (the operand must become a number:
    `Simp.const_retry`), and
  - under `Simp.LeftStable` (hence under `plain`) at the other evaluated kinds (`ImmReg`, `Address`, `AddrOffset`).
-/
namespace Trion.Front
open Trion

/-- two getter outcomes succeed equally: same value, same `args_done` (the tree left may differ) -/
def GetSim (g g' : GetOut) : Prop :=
  (∀ v x d, g = .ok v x d → ∃ x', g' = .ok v x' d) ∧ (∀ v x' d, g' = .ok v x' d → ∃ x, g = .ok v x d)

theorem GetSim.refl (g : GetOut) : GetSim g g := ⟨fun _ x _ h => ⟨x, h⟩, fun _ x _ h => ⟨x, h⟩⟩

theorem GetSim.of_eq {g g' : GetOut} (h : g = g') : GetSim g g' := h ▸ GetSim.refl g

/-- two `convert!` runs succeed equally: same instruction and values -/
def ConvSim (c c' : ConvOut) : Prop :=
  (∀ A D I V, c = .ok A D I V → ∃ A' D', c' = .ok A' D' I V) ∧ (∀ A' D' I V, c' = .ok A' D' I V → ∃ A D, c = .ok A D I V)

theorem ConvSim.refl (c : ConvOut) : ConvSim c c := ⟨fun A D _ _ h => ⟨A, D, h⟩, fun A D _ _ h => ⟨A, D, h⟩⟩

theorem ConvSim.trans {a b c : ConvOut} (h1 : ConvSim a b) (h2 : ConvSim b c) : ConvSim a c := by
  refine ⟨fun A D I V h => ?_, fun A D I V h => ?_⟩
  · obtain ⟨A', D', h'⟩ := h1.1 A D I V h
    exact h2.1 A' D' I V h'
  · obtain ⟨A', D', h'⟩ := h2.2 A D I V h
    exact h1.2 A' D' I V h'

/-- the argument trees already passed only end up in the returned argument list -/
theorem conv_pre_irrel (e : Arg → EvalOut) (loc : Bool) : ∀ (ks : List Kind) (pos : Nat) (pre pre' rest : List Arg)
    (done : Nat) (instr : Instr) (vals : List Val),
    ConvSim (conv e loc ks pos pre rest done instr vals) (conv e loc ks pos pre' rest done instr vals) := by
  intro ks
  induction ks with
  | nil =>
    intro pos pre pre' rest done instr vals
    simp only [conv]
    refine ⟨fun A D I V h => ?_, fun A D I V h => ?_⟩ <;>
    · simp only [ConvOut.ok.injEq] at h
      obtain ⟨_, rfl, rfl, rfl⟩ := h
      exact ⟨_, _, rfl⟩
  | cons k ks ih =>
    intro pos pre pre' rest done instr vals
    cases rest with
    | nil => simp only [conv]; exact ⟨fun _ _ _ _ h => (by cases h), fun _ _ _ _ h => (by cases h)⟩
    | cons a rest =>
      simp only [conv]
      cases hg : get k e loc pos done a with
      | ok v a' d' => exact ih _ _ _ _ _ _ _
      | stop a' d' r => exact ⟨fun _ _ _ _ h => (by cases h), fun _ _ _ _ h => (by cases h)⟩

/-- a `convert!` step on two trees whose getters succeed equally -/
theorem conv_step_sim (e : Arg → EvalOut) (loc : Bool) (k : Kind) (ks : List Kind) (pos : Nat) (pre rest : List Arg)
    (done : Nat) (instr : Instr) (vals : List Val) (a a' : Arg)
    (hg : GetSim (get k e loc pos done a) (get k e loc pos done a')) :
    ConvSim (conv e loc (k :: ks) pos pre (a :: rest) done instr vals)
      (conv e loc (k :: ks) pos pre (a' :: rest) done instr vals) := by
  simp only [conv]
  refine ⟨fun A D I V h => ?_, fun A D I V h => ?_⟩
  · cases h1 : get k e loc pos done a with
    | stop x d r => rw [h1] at h; cases h
    | ok v x d =>
      rw [h1] at h
      obtain ⟨x', h2⟩ := hg.1 v x d h1
      rw [h2]
      exact (conv_pre_irrel e loc ks (pos + 1) (x :: pre) (x' :: pre) rest d (setOp instr pos v) (v :: vals)).1 A D I V h
  · cases h1 : get k e loc pos done a' with
    | stop x d r => rw [h1] at h; cases h
    | ok v x d =>
      rw [h1] at h
      obtain ⟨x', h2⟩ := hg.2 v x d h1
      rw [h2]
      exact (conv_pre_irrel e loc ks (pos + 1) (x' :: pre) (x :: pre) rest d (setOp instr pos v) (v :: vals)).2 A D I V h

/-- what `e₂` has to satisfy relative to `e₁` on the operand of a getter of kind `k` -/
structure GrowsS (k : Kind) (e₁ e₂ : Arg → EvalOut) (a : Arg) : Prop where
  complete : ∀ a', e₁ a = .complete a' → e₂ a = .complete a'
  stop : k.evals = true → ∀ n a₁, e₁ a = .noSuchVariable n a₁ → ∀ loc pos done, done ≤ pos →
    GetSim (get k e₂ loc pos done a₁) (get k e₂ loc pos done a)
  nodef : ∀ c a₁, e₁ a ≠ .deferred c a₁

theorem evalArg_congr {e : Arg → EvalOut} {a b : Arg} (h : e a = e b) (loc : Bool) {pos done : Nat} (hd : done ≤ pos) :
    evalArg e loc pos done a = evalArg e loc pos done b := by
  unfold evalArg
  simp only [hd, if_true, h]

/-- `Grows` (tree equality) is the special case -/
theorem Grows.toS {e₁ e₂ : Arg → EvalOut} {a : Arg} (h : Grows e₁ e₂ a) (k : Kind) : GrowsS k e₁ e₂ a := by
  refine ⟨h.complete, fun hk n a₁ he loc pos done hd => GetSim.of_eq ?_, h.nodef⟩
  rw [get_eq_post k hk, get_eq_post k hk, evalArg_congr (h.stop n a₁ he) loc hd]

/-- a getter that succeeded at the first attempt (only `complete` is used) -/
theorem get_ok_growsS {k : Kind} {e₁ e₂ : Arg → EvalOut} {a : Arg}
    (hcomp : ∀ a', e₁ a = .complete a' → e₂ a = .complete a') {pos done : Nat} {v : Val}
    {a' : Arg} {d' : Nat} (h : get k e₁ true pos done a = .ok v a' d') (loc : Bool) :
    get k e₂ loc pos done a = .ok v a' d' ∧ done ≤ d' ∧ ∀ D, d' ≤ D → get k e₂ loc pos D a' = .ok v a' D := by
  cases hk : k.evals with
  | false =>
    obtain ⟨h1, h2, h3⟩ := (get_nonevals hk).1 _ _ _ h
    subst h1; subst h2
    exact ⟨h3 _ _ _, Nat.le_refl _, fun D _ => h3 _ _ _⟩
  | true =>
    rw [get_eq_post k hk] at h
    cases he : evalArg e₁ true pos done a with
    | error p => rw [he] at h; cases h
    | ok p =>
      obtain ⟨x, d⟩ := p
      rw [he] at h
      simp only at h
      obtain ⟨p1, p2, p3⟩ := post_ok h
      subst p1; subst p2
      -- the evaluation prologue
      have q : evalArg e₂ loc pos done a = .ok (a', d') ∧ pos < d' ∧ done ≤ d' ∧
          ∀ D, d' ≤ D → evalArg e₂ loc pos D a' = .ok (a', D) := by
        unfold evalArg at he ⊢
        by_cases hd : done ≤ pos
        · simp only [hd, if_true] at he ⊢
          cases hx : e₁ a with
          | complete x =>
            rw [hx] at he
            cases he
            rw [hcomp _ hx]
            exact ⟨rfl, by omega, by omega, fun D hD => by rw [if_neg (by omega)]⟩
          | deferred c x => rw [hx] at he; cases he
          | noSuchVariable n x => rw [hx] at he; simp at he
          | error er x => rw [hx] at he; cases he
        · simp only [hd, if_false] at he ⊢
          cases he
          exact ⟨rfl, by omega, by omega, fun D hD => by rw [if_neg (by omega)]⟩
      obtain ⟨q1, _, q3, q4⟩ := q
      refine ⟨by rw [get_eq_post k hk, q1]; exact h, q3, fun D hD => ?_⟩
      rw [get_eq_post k hk, q4 D hD]
      exact p3 D

/-- the getter at which the first attempt stopped with `Deferred` -/
theorem get_stop_growsS {k : Kind} {e₁ e₂ : Arg → EvalOut} {a : Arg} (hg : GrowsS k e₁ e₂ a) {pos done : Nat}
    {a' : Arg} {d' : Nat} {c : Bytes} (h : get k e₁ true pos done a = .stop a' d' (.deferred c)) (loc : Bool) :
    d' = done ∧ GetSim (get k e₂ loc pos done a') (get k e₂ loc pos done a) := by
  cases hk : k.evals with
  | false => exact absurd h ((get_nonevals hk).2 _ _ _)
  | true =>
    rw [get_eq_post k hk] at h
    cases he : evalArg e₁ true pos done a with
    | error p =>
      obtain ⟨x, r⟩ := p
      rw [he] at h
      simp only [GetOut.stop.injEq] at h
      obtain ⟨h1, h2, h3⟩ := h
      subst h1; subst h2; subst h3
      refine ⟨rfl, ?_⟩
      unfold evalArg at he
      by_cases hd : done ≤ pos
      · simp only [hd, if_true] at he
        cases hx : e₁ a with
        | complete y => rw [hx] at he; cases he
        | deferred c y => exact absurd hx (hg.nodef _ _)
        | noSuchVariable n y =>
          rw [hx] at he
          simp only [Except.error.injEq, Prod.mk.injEq] at he
          obtain ⟨h1, _⟩ := he
          subst h1
          exact hg.stop hk n _ hx loc pos done hd
        | error er y => rw [hx] at he; cases he
      · simp only [hd, if_false] at he; cases he
    | ok p =>
      obtain ⟨x, d⟩ := p
      rw [he] at h
      exact absurd h post_not_deferred

/-- **the retry, getter by getter, up to `ConvSim`** -/
theorem conv_retry_sim (e₁ e₂ : Arg → EvalOut) (loc : Bool) : ∀ (ks : List Kind) (pos : Nat) (pre rest : List Arg) (done : Nat)
    (instr : Instr) (vals : List Val) (A : List Arg) (D : Nat) (I : Instr) (c : Bytes),
    (∀ p ∈ List.zip ks rest, GrowsS p.1 e₁ e₂ p.2) → pos + ks.length ≤ 3 →
    conv e₁ true ks pos pre rest done instr vals = .stop A D I (.deferred c) →
    ∃ restA, A = pre.reverse ++ restA ∧ restA.length = rest.length ∧ done ≤ D ∧
      I = replay (stores e₁ ks pos rest done) instr ∧
      ConvSim (conv e₂ loc ks pos pre restA D I vals) (conv e₂ loc ks pos pre rest done instr vals) := by
  intro ks
  induction ks with
  | nil => intro pos pre rest done instr vals A D I c _ _ h; simp [conv] at h
  | cons k ks ih =>
    intro pos pre rest done instr vals A D I c hgr hlen h
    cases rest with
    | nil => simp only [conv] at h; cases h
    | cons a rest =>
      have hga : GrowsS k e₁ e₂ a := hgr (k, a) (by simp)
      simp only [conv] at h
      cases hg : get k e₁ true pos done a with
      | ok v a' d' =>
        rw [hg] at h
        simp only at h
        obtain ⟨g1, g2, g3⟩ := get_ok_growsS hga.complete hg loc
        have hlen' : pos + 1 + ks.length ≤ 3 := by simp only [List.length_cons] at hlen; omega
        obtain ⟨restA, r1, r2, r3, r4, r5⟩ :=
          ih (pos + 1) (a' :: pre) rest d' (setOp instr pos v) (v :: vals) A D I c
            (fun x hx => hgr x (by simp only [List.zip_cons_cons]; exact List.mem_cons_of_mem _ hx)) hlen' h
        obtain ⟨s1, s2⟩ := stores_shape e₁ ks (pos + 1) (a' :: pre) rest d' (setOp instr pos v) (v :: vals) A D I c h
        have hσ : stores e₁ ks (pos + 1) rest d' = [] ∨ (pos = 0 ∧ ∃ w, stores e₁ ks (pos + 1) rest d' = [(1, w)]) := by
          cases hs : stores e₁ ks (pos + 1) rest d' with
          | nil => exact .inl rfl
          | cons p σ =>
            rw [hs] at s1 s2
            simp only [List.length_cons] at s1
            have hp0 : pos = 0 := by omega
            have hσ' : σ = [] := by
              cases σ with
              | nil => rfl
              | cons _ _ => simp only [List.length_cons] at s1; omega
            have hp1 := s2 p (by simp)
            subst hσ'
            subst hp0
            exact .inr ⟨rfl, p.2, by cases p; simp only at hp1; subst hp1; rfl⟩
        refine ⟨a' :: restA, by rw [r1]; simp, by simp [r2], Nat.le_trans g2 r3, ?_, ?_⟩
        · simp only [stores, hg, replay, List.foldl_cons]; exact r4
        · simp only [conv, g1, g3 D r3]
          rw [r4, replay_absorb _ _ _ _ hσ, ← r4]
          exact r5
      | stop a' d' r =>
        rw [hg] at h
        simp only [ConvOut.stop.injEq] at h
        obtain ⟨h1, h2, h3, h4⟩ := h
        subst h4
        obtain ⟨q1, q2⟩ := get_stop_growsS hga hg loc
        subst q1
        subst h2
        subst h3
        refine ⟨a' :: rest, h1.symm, rfl, Nat.le_refl _, by simp [stores, hg, replay], ?_⟩
        exact conv_step_sim e₂ loc k ks pos pre rest d' instr vals a' a q2

/-- two runs of `assemble` end equally: one completes iff the other does, with the same instruction -/
def AsmSim (x y : St × Res) : Prop :=
  (x.2 = .completed ↔ y.2 = .completed) ∧ (x.2 = .completed → x.1.instr = y.1.instr)

/-- **the retry theorem for `Front.assemble`, outcome level**: the first attempt (over `e₁`, `local`) was deferred and
left `fs1`; the re-run from `fs1` over `e₂` completes iff the fresh run over `e₂` completes, and with the same
instruction -/
theorem assemble_retry_sim (e₁ e₂ : Arg → EvalOut) (addr : Nat) (t : Instr) (args : List Arg)
    (hgr : ∀ p ∈ List.zip (kinds t) args, GrowsS p.1 e₁ e₂ p.2) (fs1 : St) (c : Bytes)
    (h1 : assemble ⟨addr, t, 0, args⟩ e₁ true = (fs1, .deferred c)) (loc : Bool) :
    AsmSim (assemble fs1 e₂ loc) (assemble ⟨addr, t, 0, args⟩ e₂ loc) := by
  unfold assemble at h1
  simp only at h1
  by_cases c1 : args.length > (kinds t).length
  · rw [if_pos c1] at h1; cases h1
  rw [if_neg c1] at h1
  by_cases c2 : args.length < (kinds t).length
  · rw [if_pos c2] at h1; cases h1
  rw [if_neg c2] at h1
  cases hc : conv e₁ true (kinds t) 0 [] args 0 t [] with
  | ok A D I vals =>
    rw [hc] at h1
    simp only at h1
    split at h1 <;> cases h1
  | stop A D I r =>
    rw [hc] at h1
    simp only [Prod.mk.injEq] at h1
    obtain ⟨hfs, hr⟩ := h1
    subst hr
    have hk3 := kinds_le_three t
    obtain ⟨restA, r1, r2, _, r4, r5⟩ := conv_retry_sim e₁ e₂ loc (kinds t) 0 [] args 0 t [] A D I c hgr (by omega) hc
    simp only [List.reverse_nil, List.nil_append] at r1
    subst r1
    subst hfs
    have hkI : kinds I = kinds t := by rw [r4, kinds_replay]
    unfold assemble
    simp only [hkI, r2, c1, c2, if_false]
    cases ha : conv e₂ loc (kinds t) 0 [] A D I [] with
    | ok A1 D1 I1 V1 =>
      obtain ⟨A2, D2, hb⟩ := r5.1 _ _ _ _ ha
      rw [hb]
      simp only
      cases finish addr I1 V1 (kinds t).length with
      | ok i => exact ⟨Iff.rfl, fun _ => rfl⟩
      | error d => exact ⟨⟨fun h => (by cases h), fun h => (by cases h)⟩, fun h => (by cases h)⟩
    | stop A1 D1 I1 r1 =>
      have hr1 : r1 ≠ .completed := fun h => Asm.conv_stop_not_completed e₂ loc _ _ _ _ _ _ _ _ _ _ (h ▸ ha)
      cases hb : conv e₂ loc (kinds t) 0 [] args 0 t [] with
      | ok A2 D2 I2 V2 =>
        obtain ⟨A3, D3, hx⟩ := r5.2 _ _ _ _ hb
        rw [ha] at hx; cases hx
      | stop A2 D2 I2 r2 =>
        have hr2 : r2 ≠ .completed := fun h => Asm.conv_stop_not_completed e₂ loc _ _ _ _ _ _ _ _ _ _ (h ▸ hb)
        exact ⟨⟨fun h => absurd h hr1, fun h => absurd h hr2⟩, fun h => absurd h hr1⟩

/-! ## operand positions that need a number -/

/-- the getters whose operand must evaluate to a constant -/
def Kind.number : Kind → Bool
  | .immediate | .offset => true
  | _ => false

/-- a number getter succeeds on `x'` whenever it succeeds on `x`, if `x'` evaluates to every constant `x` does -/
theorem get_number_le {k : Kind} (hk : k.number = true) {e : Arg → EvalOut} {loc : Bool} {pos done : Nat} (hd : done ≤ pos)
    {x x' : Arg} (hC : ∀ c, e x = .complete (.const c) → e x' = .complete (.const c)) {v : Val} {y : Arg} {d : Nat}
    (h : get k e loc pos done x = .ok v y d) : get k e loc pos done x' = .ok v y d := by
  cases k <;> simp [Kind.number] at hk
  all_goals
    simp only [get, evalArg, hd, if_true] at h ⊢
    cases hx : e x with
    | complete t =>
      cases t with
      | const c => rw [hC c hx]; rw [hx] at h; exact h
      | _ => rw [hx] at h; cases h
    | deferred c t => rw [hx] at h; cases h
    | noSuchVariable n t => rw [hx] at h; cases loc <;> cases h
    | error er t => rw [hx] at h; cases h

theorem getSim_number {k : Kind} (hk : k.number = true) {e : Arg → EvalOut} (loc : Bool) {pos done : Nat} (hd : done ≤ pos)
    {x x' : Arg} (hC : ∀ c, e x = .complete (.const c) ↔ e x' = .complete (.const c)) :
    GetSim (get k e loc pos done x) (get k e loc pos done x') :=
  ⟨fun _ y _ h => ⟨y, get_number_le hk hd (fun c => (hC c).1) h⟩,
   fun _ y _ h => ⟨y, get_number_le hk hd (fun c => (hC c).2) h⟩⟩

end Trion.Front

namespace Trion.Asm
open Trion

theorem frontEval_complete_const (t : Table) (x : Arg) (c : Int) :
    frontEval t x = .complete (.const c) ↔
      ∃ ev, Simp.evaluateE (fun n => t.get n) Front.isRegister x = .ok ev (.const c) ∧ ev.cause = none := by
  unfold frontEval evalIn
  cases he : Simp.evaluateE (fun n => t.get n) Front.isRegister x with
  | ok ev a' =>
    cases hcz : ev.cause with
    | none =>
      simp only [hcz]
      constructor
      · intro h; cases h; exact ⟨ev, rfl, hcz⟩
      · rintro ⟨ev', h, _⟩; cases h; rfl
    | some cc =>
      simp only [hcz]
      constructor
      · intro h; cases h
      · rintro ⟨ev', h, h'⟩; cases h; rw [hcz] at h'; cases h'
  | nosuch n a' =>
    simp only
    constructor
    · intro h; cases h
    · rintro ⟨ev', h, _⟩; cases h
  | err e a' =>
    simp only
    constructor
    · intro h; cases e <;> cases h
    · rintro ⟨ev', h, _⟩; cases h
  | panic =>
    simp only
    constructor
    · intro h; cases h
    · rintro ⟨ev', h, _⟩; cases h

theorem frontEval_noSuch_eval {t : Table} {a : Arg} {n : Bytes} {a₁ : Arg} (h : frontEval t a = .noSuchVariable n a₁) :
    Simp.evaluateE (fun n => t.get n) Front.isRegister a = .nosuch n a₁ := by
  unfold frontEval evalIn at h
  cases he : Simp.evaluateE (fun n => t.get n) Front.isRegister a with
  | ok ev x => rw [he] at h; cases hc : ev.cause <;> simp [hc] at h
  | nosuch m x => rw [he] at h; cases h; rfl
  | err e x => rw [he] at h; cases e <;> cases h
  | panic => rw [he] at h; cases h

/-- the exact condition, for the evaluators of `Asm` -/
def LeftStableArg (t₁ t₂ : Table) (a : Arg) : Prop :=
  Simp.LeftStable (fun n => t₁.get n) (fun n => t₂.get n) Front.isRegister a

/-- **the retry of one operand under the exact condition** -/
theorem data_retry_stable {t₁ t₂ : Table} (hs : Table.Sub t₁ t₂) (hn : Table.NoDef t₁) {a : Arg}
    (hp : LeftStableArg t₁ t₂ a) {n : Bytes} {a₁ : Arg} (h : evalIn t₁ a = .ok (.noSuch n a₁)) :
    evalIn t₂ a₁ = evalIn t₂ a := by
  apply evalIn_forget
  apply Simp.leftStable_resumes (Table.sub_get hs) (Table.nodef_get hn) hp n a₁
  unfold evalIn at h
  cases he : Simp.evaluateE (fun n => t₁.get n) Front.isRegister a with
  | ok ev x => rw [he] at h; simp only at h; split at h <;> cases h
  | nosuch m x => rw [he] at h; cases h; rfl
  | err e x => rw [he] at h; cases h
  | panic => rw [he] at h; cases h

theorem frontEval_complete_mono {t₁ t₂ : Table} (hs : Table.Sub t₁ t₂) (hn : Table.NoDef t₁) {a a' : Arg}
    (h : frontEval t₁ a = .complete a') : frontEval t₂ a = .complete a' := by
  obtain ⟨ev, hev⟩ := evalIn_ok t₁ a
  have : evalIn t₁ a = .ok (.complete a') := by
    rw [hev]
    simp only [frontEval, hev] at h
    cases ev with
    | complete x => cases h; rfl
    | deferred c x => cases h
    | noSuch n x => cases h
    | err e x => cases e <;> cases h
  simp only [frontEval, evalIn_complete_mono hs hn this]

theorem frontEval_never_deferred {t : Table} (hn : Table.NoDef t) (a : Arg) (c : Bytes) (a₁ : Arg) :
    frontEval t a ≠ .deferred c a₁ := by
  intro h
  obtain ⟨ev, hev⟩ := evalIn_ok t a
  simp only [frontEval, hev] at h
  cases ev with
  | complete x => cases h
  | deferred c' x => exact evalIn_not_deferred hn a c' x hev
  | noSuch n x => cases h
  | err e x => cases e <;> cases h

/-- the evaluators of `Asm` over a growing table satisfy `GrowsS` at every NUMBER position, with no side condition -/
theorem growsS_number {t₁ t₂ : Table} (hs : Table.Sub t₁ t₂) (hn : Table.NoDef t₁) {k : Front.Kind}
    (hk : k.number = true) (a : Arg) : Front.GrowsS k (frontEval t₁) (frontEval t₂) a := by
  refine ⟨fun a' h => frontEval_complete_mono hs hn h, fun _ n a₁ h loc pos done hd => ?_,
    fun c a₁ => frontEval_never_deferred hn a c a₁⟩
  apply Front.getSim_number hk loc hd
  intro c
  rw [frontEval_complete_const, frontEval_complete_const]
  exact Simp.const_retry (Table.sub_get hs) (Table.nodef_get hn) (frontEval_noSuch_eval h) c none

/-- tree-level `Grows` under the exact condition `LeftStable` -/
theorem grows_stable {t₁ t₂ : Table} (hs : Table.Sub t₁ t₂) (hn : Table.NoDef t₁) {a : Arg}
    (hp : LeftStableArg t₁ t₂ a) : Front.Grows (frontEval t₁) (frontEval t₂) a := by
  refine ⟨fun a' h => frontEval_complete_mono hs hn h, fun n a₁ h => ?_, fun c a₁ => frontEval_never_deferred hn a c a₁⟩
  have h' := frontEval_noSuch_eval h
  have : evalIn t₁ a = .ok (.noSuch n a₁) := by unfold evalIn; rw [h']
  exact frontEval_congr t₂ _ _ (data_retry_stable hs hn hp this)

/-- … and at every position under the exact condition `LeftStable` -/
theorem growsS_stable {t₁ t₂ : Table} (hs : Table.Sub t₁ t₂) (hn : Table.NoDef t₁) (k : Front.Kind) {a : Arg}
    (hp : LeftStableArg t₁ t₂ a) : Front.GrowsS k (frontEval t₁) (frontEval t₂) a := by
  have hg : Front.Grows (frontEval t₁) (frontEval t₂) a := by
    refine ⟨fun a' h => frontEval_complete_mono hs hn h, fun n a₁ h => ?_, fun c a₁ => frontEval_never_deferred hn a c a₁⟩
    have h' := frontEval_noSuch_eval h
    have : evalIn t₁ a = .ok (.noSuch n a₁) := by unfold evalIn; rw [h']
    exact frontEval_congr t₂ _ _ (data_retry_stable hs hn hp this)
  exact hg.toS k

end Trion.Asm

/-! ## every operand position at once, and the data directives -/

namespace Trion.Front

/-- the getters whose operand may end as a register or an address shape (`Rn`, `[Rn]`, `[Rn + Rm]`, `[Rn ± c]`) -/
def Kind.shape : Kind → Bool
  | .immReg | .address | .addrOffset => true
  | _ => false

end Trion.Front

namespace Trion.Asm
open Trion

/-- `GrowsS` at any getter: no condition at `Identifier / Register / SystemReg / RegSet` (not evaluated) and at
`Immediate / Offset` (numbers); the exact condition `LeftStable` at `ImmReg / Address / AddrOffset` -/
theorem growsS_any {t₁ t₂ : Table} (hs : Table.Sub t₁ t₂) (hn : Table.NoDef t₁) (k : Front.Kind) (a : Arg)
    (hp : k.shape = true → LeftStableArg t₁ t₂ a) : Front.GrowsS k (frontEval t₁) (frontEval t₂) a := by
  cases hsh : k.shape with
  | true => exact growsS_stable hs hn k (hp hsh)
  | false =>
    cases hnum : k.number with
    | true => exact growsS_number hs hn hnum a
    | false =>
      have hk : k.evals = false := by
        cases k <;> simp_all [Front.Kind.shape, Front.Kind.number, Front.Kind.evals]
      exact ⟨fun a' h => frontEval_complete_mono hs hn h, fun h => (by rw [hk] at h; cases h),
        fun c a₁ => frontEval_never_deferred hn a c a₁⟩

theorem evalIn_complete_const (t : Table) (x : Arg) (c : Int) :
    evalIn t x = .ok (.complete (.const c)) ↔
      ∃ ev, Simp.evaluateE (fun n => t.get n) Front.isRegister x = .ok ev (.const c) ∧ ev.cause = none := by
  unfold evalIn
  cases he : Simp.evaluateE (fun n => t.get n) Front.isRegister x with
  | ok ev a' =>
    cases hcz : ev.cause with
    | none =>
      simp only [hcz]
      constructor
      · intro h; cases h; exact ⟨ev, rfl, hcz⟩
      · rintro ⟨ev', h, _⟩; cases h; rfl
    | some cc =>
      simp only [hcz]
      constructor
      · intro h; cases h
      · rintro ⟨ev', h, h'⟩; cases h; rw [hcz] at h'; cases h'
  | nosuch n a' =>
    simp only
    constructor
    · intro h; cases h
    · rintro ⟨ev', h, _⟩; cases h
  | err e a' =>
    simp only
    constructor
    · intro h; cases h
    · rintro ⟨ev', h, _⟩; cases h
  | panic =>
    simp only
    constructor
    · intro h; cases h
    · rintro ⟨ev', h, _⟩; cases h

theorem evalIn_noSuch {t : Table} {a : Arg} {n : Bytes} {a₁ : Arg} (h : evalIn t a = .ok (.noSuch n a₁)) :
    Simp.evaluateE (fun n => t.get n) Front.isRegister a = .nosuch n a₁ := by
  unfold evalIn at h
  cases he : Simp.evaluateE (fun n => t.get n) Front.isRegister a with
  | ok ev x => rw [he] at h; cases hc : ev.cause <;> simp [hc] at h
  | nosuch m x => rw [he] at h; cases h; rfl
  | err e x => rw [he] at h; cases h
  | panic => rw [he] at h; cases h

/-- the retried operand of a data directive evaluates to the number `v` iff the fresh operand does — no `plain` -/
theorem evalIn_const_retry {t₁ t₂ : Table} (hs : Table.Sub t₁ t₂) (hn : Table.NoDef t₁) {a : Arg} {n : Bytes} {a₁ : Arg}
    (h : evalIn t₁ a = .ok (.noSuch n a₁)) (v : Int) :
    evalIn t₂ a₁ = .ok (.complete (.const v)) ↔ evalIn t₂ a = .ok (.complete (.const v)) := by
  rw [evalIn_complete_const, evalIn_complete_const]
  exact Simp.const_retry (Table.sub_get hs) (Table.nodef_get hn) (evalIn_noSuch h) v none

theorem DataExpr.writer_ok_const {d d' : DataExpr} {st st' : St} (h : d.writer st = .ok (d', st', .ok)) :
    ∃ v, d.arg = .const v := by
  unfold DataExpr.writer at h
  split at h
  · rename_i v hv; exact ⟨v, hv⟩
  · cases h

/-- `DataExpr::apply` completes exactly when the operand evaluates completely and the writer accepts the value -/
theorem DataExpr.apply_completed_iff (d : DataExpr) (env : Env) (st : St) (loc : Bool) (d' : DataExpr) (st' : St) :
    d.apply env st loc = .ok (d', st', .completed) ↔
      ∃ a, evalArg env st d.arg = .ok (.complete a) ∧ ({ d with arg := a } : DataExpr).writer st = .ok (d', st', .ok) := by
  unfold DataExpr.apply
  cases he : evalArg env st d.arg with
  | stop r =>
    simp only
    exact ⟨fun h => (by cases h), fun ⟨a, h, _⟩ => (by cases h)⟩
  | ok ev =>
    cases ev with
    | complete a =>
      simp only
      cases hw : ({ d with arg := a } : DataExpr).writer st with
      | stop r =>
        simp only
        exact ⟨fun h => (by cases h), fun ⟨a', h, h'⟩ => (by cases h; rw [hw] at h'; cases h')⟩
      | ok p =>
        obtain ⟨d2, st2, r⟩ := p
        cases r with
        | ok =>
          simp only
          constructor
          · intro h; cases h; exact ⟨a, rfl, hw⟩
          · rintro ⟨a', h, h'⟩; cases h; rw [hw] at h'; cases h'; rfl
        | err l =>
          simp only
          exact ⟨fun h => (by cases h), fun ⟨a', h, h'⟩ => (by cases h; rw [hw] at h'; cases h')⟩
    | deferred c a =>
      simp only
      exact ⟨fun h => (by cases h), fun ⟨a', h, _⟩ => (by cases h)⟩
    | noSuch n a =>
      simp only
      exact ⟨fun h => (by cases loc <;> cases h), fun ⟨a', h, _⟩ => (by cases h)⟩
    | err e a =>
      simp only
      exact ⟨fun h => (by cases h), fun ⟨a', h, _⟩ => (by cases h)⟩

end Trion.Asm
