import TrionModel.Lemmas.LexFrame
import TrionModel.Lemmas.LexPieces
/-!
# A piece list (the program's `.addr` / `.const` lines) in front of an arbitrary LAYOUT (the statement: any separators —
white space, line and block comments — and any token spellings the tokenizer knows)
-/
namespace Trion.Lex
open Trion.Pos (adv isCont)

theorem toLayout_vals (ps : List Piece) (acc : Bytes) : ((toLayout ps acc).1).map (·.tok) = tokVals ps := by
  induction ps generalizing acc with
  | nil => rfl
  | cons p r ih => cases p <;> simp [toLayout, tokVals, ih]

theorem toLayout_acc_space (ps : List Piece) {nx : Option UInt8} (hv : Valid ps nx) (acc : Bytes) (hacc : ∀ x ∈ acc, isSpace x = true) :
    ∀ x ∈ (toLayout ps acc).2, isSpace x = true := by
  induction ps generalizing acc with
  | nil => exact hacc
  | cons p r ih =>
    cases p with
    | ws w => exact ih hv.2 (acc ++ w) (by intro x hx; simp at hx; rcases hx with hx | hx; exact hacc x hx; exact hv.1 x hx)
    | tok bs t => exact ih hv.2 [] (by simp)

theorem head?_append_firstOr (a b : Bytes) : (a ++ b).head? = firstOr a b.head? := by cases a <;> rfl

theorem toLayout_okTo (ps : List Piece) (next : Bytes) (hv : Valid ps next.head?) (acc : Bytes)
    (hacc : ∀ x ∈ acc, isSpace x = true) : LOkTo (toLayout ps acc).1 ((toLayout ps acc).2 ++ next) := by
  induction ps generalizing acc with
  | nil => trivial
  | cons p r ih =>
    cases p with
    | ws w =>
      exact ih hv.2 (acc ++ w) (by intro x hx; simp at hx; rcases hx with hx | hx; exact hacc x hx; exact hv.1 x hx)
    | tok bs t =>
      refine ⟨isSep_ws acc hacc, ?_, ih hv.2 [] (by simp)⟩
      show Spell bs t (ltext (toLayout r []).1 ((toLayout r []).2 ++ next)).head?
      have : ltext (toLayout r []).1 ((toLayout r []).2 ++ next) = pbytes r ++ next := by
        rw [ltext_split, ← List.append_assoc, ← ltext_split, toLayout_text, List.nil_append]
      rw [this, head?_append_firstOr]
      exact spell_of_tokOk hv.1

/-- **pieces in front of a layout**: the tokenizer reads `pbytes P ++ ltext (x :: r) trail` as the tokens of `P` followed by
the tokens of the layout, without error; the token VALUES are those of `P` followed by those of the layout -/
theorem tokens_pieces_layout (P : List Piece) (x : LTok) (r : List LTok) (trail : Bytes)
    (hP : Valid P (x.sep ++ x.spell ++ ltext r trail).head?) (hL : LOk (x :: r) trail) :
    ∃ ts, tokens (pbytes P ++ ltext (x :: r) trail) =
        .ok ⟨ts, none, (Pos.of (pbytes P ++ ltext (x :: r) trail)).1, (Pos.of (pbytes P ++ ltext (x :: r) trail)).2⟩ ∧
      ts.map (·.val) = tokVals P ++ (x :: r).map (·.tok) := by
  let L1 := (toLayout P []).1
  let acc1 := (toLayout P []).2
  let x' : LTok := ⟨acc1 ++ x.sep, x.spell, x.tok⟩
  have hacc1 : ∀ b ∈ acc1, isSpace b = true := toLayout_acc_space P hP [] (by simp)
  have hL' : LOk (x' :: r) trail := ⟨isSep_append (isSep_ws acc1 hacc1) hL.1, hL.2.1, hL.2.2⟩
  have hto : LOkTo L1 (ltext (x' :: r) trail) := by
    have := toLayout_okTo P (x.sep ++ x.spell ++ ltext r trail) hP [] (by simp)
    simpa [ltext, x', List.append_assoc] using this
  have hW := tokens_layout (L1 ++ x' :: r) trail (lok_append hto hL')
  have htext : ltext (L1 ++ x' :: r) trail = pbytes P ++ ltext (x :: r) trail := by
    rw [ltext_append, ltext_split L1]
    have h1 : ltext L1 acc1 = pbytes P := by simpa using toLayout_text P []
    rw [ltext_split L1 acc1] at h1
    simp only [ltext, x', List.append_assoc]
    rw [← List.append_assoc (ltext L1 []) acc1, h1]
  rw [htext] at hW
  refine ⟨_, hW, ?_⟩
  rw [ltoks_vals, List.map_append, toLayout_vals]
  rfl

end Trion.Lex
