import TrionModel.Lemmas.Trias
/-!
Dictionary lemmas for C18: `insertMerge` and `padGo` on normalised segment lists.

* `NormAbove lo m`  – the recursive form of `Norm` (ascending, non-empty, one free address between segments);
* `lookup_insertMerge` – `insertMerge a d` into a free range is the dictionary update;
* `Ext g h` – `h` is `g` plus zero bytes in pages `g` already touches (what padding may do);
* `padGo_spec` / `padAll_spec` – the padded list is an `Ext` of the original and is `PNorm`
  (page-aligned starts, consecutive segments in different pages);
* `segsImage_pnorm` – the loader image of a `PNorm` list: its bytes, zero in the rest of every touched page,
  nothing elsewhere.
-/
namespace Trion.Trias
open Trion.Uf2

/-! ### normalised lists -/

def NormAbove (lo : Nat) : List Seg → Prop
  | [] => True
  | (f, d) :: r => lo ≤ f ∧ d ≠ [] ∧ NormAbove (f + d.length + 1) r

theorem NormAbove.mono {lo lo' : Nat} {m : List Seg} (h : NormAbove lo m) (hl : lo' ≤ lo) : NormAbove lo' m := by
  cases m with
  | nil => trivial
  | cons s r =>
    obtain ⟨f, d⟩ := s
    exact ⟨Nat.le_trans hl h.1, h.2⟩

theorem Norm.normAbove : ∀ (m : List Seg), Norm m → NormAbove 0 m
  | [], _ => trivial
  | [(f, d)], h => ⟨Nat.zero_le _, h.1, trivial⟩
  | (f, d) :: (g, e) :: r, h => by
    have ih := Norm.normAbove ((g, e) :: r) h.2.2
    exact ⟨Nat.zero_le _, h.1, by have := h.2.1; omega, ih.2⟩

/-- every segment of a normalised list ends inside the 32-bit address space -/
theorem Norm.bound : ∀ (m : List Seg), Norm m → ∀ s ∈ m, s.1 + s.2.length ≤ 4294967296
  | [], _ => by intro s hs; cases hs
  | [(f, d)], h => by
    intro s hs
    simp only [List.mem_singleton] at hs
    subst hs; exact h.2
  | (f, d) :: (g, e) :: r, h => by
    intro s hs
    have ih := Norm.bound ((g, e) :: r) h.2.2
    rcases List.mem_cons.mp hs with hs | hs
    · subst hs
      have := ih (g, e) (by simp)
      have := h.2.1
      simp only at *
      omega
    · exact ih s hs

theorem Norm.addr32 (m : List Seg) (h : Norm m) : Addr32 m := by
  intro s hs
  have h1 := Norm.bound m h s hs
  have h2 : s.2 ≠ [] := by
    have hn := Norm.normAbove m h
    clear h h1
    induction m generalizing s with
    | nil => cases hs
    | cons t r ih =>
      obtain ⟨f, d⟩ := t
      rcases List.mem_cons.mp hs with hs | hs
      · subst hs; exact hn.2.1
      · exact ih s hs (hn.2.2.mono (Nat.zero_le _))
  have := List.length_pos_iff.mpr h2
  omega

/-! ### lookup -/

theorem lookup_cons (f : Nat) (d : List UInt8) (r : List Seg) (a : Nat) :
    lookup ((f, d) :: r) a = if f ≤ a ∧ a < f + d.length then d[a - f]? else lookup r a := rfl

theorem lookup_none_below {lo : Nat} {m : List Seg} (h : NormAbove lo m) {a : Nat} (ha : a < lo) :
    lookup m a = none := by
  induction m generalizing lo with
  | nil => rfl
  | cons s r ih =>
    obtain ⟨f, d⟩ := s
    rw [lookup_cons, if_neg (by have := h.1; omega)]
    exact ih h.2.2 (by have := h.1; omega)

theorem lookup_in (f : Nat) (d : List UInt8) (r : List Seg) (a : Nat) (h : f ≤ a ∧ a < f + d.length) :
    lookup ((f, d) :: r) a = some (d[a - f]'(by omega)) := by
  rw [lookup_cons, if_pos h, List.getElem?_eq_getElem]

theorem lookup_in_isSome (f : Nat) (d : List UInt8) (r : List Seg) (a : Nat) (h : f ≤ a ∧ a < f + d.length) :
    (lookup ((f, d) :: r) a).isSome = true := by
  rw [lookup_in f d r a h]; rfl

/-- merging two touching segments does not change the dictionary -/
theorem lookup_merge (c : Nat) (cd e : List UInt8) (r : List Seg) (x : Nat) :
    lookup ((c, cd ++ e) :: r) x = lookup ((c, cd) :: (c + cd.length, e) :: r) x := by
  simp only [lookup_cons, List.length_append]
  by_cases h1 : c ≤ x ∧ x < c + cd.length
  · rw [if_pos h1, if_pos (by omega), List.getElem?_append_left (by omega)]
  · rw [if_neg h1]
    by_cases h2 : c + cd.length ≤ x ∧ x < c + cd.length + e.length
    · rw [if_pos h2, if_pos (by omega), List.getElem?_append_right (by omega)]
      congr 1; omega
    · rw [if_neg h2, if_neg (by omega)]

/-- **`insertMerge` is the dictionary update** when the target range is free in a normalised list, and the
result is normalised again. -/
theorem insertMerge_spec (m : List Seg) : ∀ (lo a : Nat) (d : List UInt8), NormAbove lo m → d ≠ [] →
    (∀ x, a ≤ x → x < a + d.length → lookup m x = none) →
    NormAbove (min lo a) (insertMerge a d m) ∧
    ∀ x, lookup (insertMerge a d m) x = if a ≤ x ∧ x < a + d.length then d[x - a]? else lookup m x := by
  induction m with
  | nil =>
    intro lo a d _ hd _
    exact ⟨⟨Nat.min_le_right _ _, hd, trivial⟩, fun x => rfl⟩
  | cons s r ih =>
    obtain ⟨f, e⟩ := s
    intro lo a d hn hd hfree
    have he : 0 < e.length := List.length_pos_iff.mpr hn.2.1
    have hdl : 0 < d.length := List.length_pos_iff.mpr hd
    have hlo := hn.1
    simp only [insertMerge]
    split
    · -- the segment lies strictly below
      rename_i h1
      have hfr : ∀ x, a ≤ x → x < a + d.length → lookup r x = none := by
        intro x hx1 hx2
        have := hfree x hx1 hx2
        rwa [lookup_cons, if_neg (by omega)] at this
      obtain ⟨i1, i2⟩ := ih (f + e.length + 1) a d hn.2.2 hd hfr
      refine ⟨⟨by omega, hn.2.1, i1.mono (by omega)⟩, ?_⟩
      intro x
      rw [lookup_cons, lookup_cons, i2 x]
      by_cases hx : f ≤ x ∧ x < f + e.length
      · rw [if_pos hx, if_pos hx, if_neg (by omega)]
      · rw [if_neg hx, if_neg hx]
    · split
      · -- the segment ends exactly at `a`: merge on the left
        rename_i h1 h2
        have hfr : ∀ x, f ≤ x → x < f + (e ++ d).length → lookup r x = none := by
          intro x hx1 hx2
          rw [List.length_append] at hx2
          by_cases hx : x < f + e.length + 1
          · exact lookup_none_below hn.2.2 hx
          · have := hfree x (by omega) (by omega)
            rwa [lookup_cons, if_neg (by omega)] at this
        obtain ⟨i1, i2⟩ := ih (f + e.length + 1) f (e ++ d) hn.2.2 (by simp [hn.2.1]) hfr
        refine ⟨i1.mono (by omega), ?_⟩
        intro x
        rw [i2 x, lookup_cons, List.length_append]
        by_cases hx : f ≤ x ∧ x < f + e.length
        · rw [if_pos (by omega), if_neg (by omega), if_pos hx, List.getElem?_append_left (by omega)]
        · by_cases hx2 : a ≤ x ∧ x < a + d.length
          · rw [if_pos (by omega), if_pos hx2, List.getElem?_append_right (by omega)]
            congr 1; omega
          · rw [if_neg (by omega), if_neg hx2, if_neg hx]
      · rename_i h1 h2
        have hfa : a + d.length ≤ f := by
          -- `f` is occupied, so it is not in the free range; and `a` itself is free, so it is not inside `(f, e)`
          by_cases hc : f < a
          · have := hfree a (Nat.le_refl _) (by omega)
            rw [lookup_in f e r a (by omega)] at this
            cases this
          · by_cases hc2 : f < a + d.length
            · have := hfree f (by omega) hc2
              rw [lookup_in f e r f (by omega)] at this
              cases this
            · omega
        split
        · -- the new data ends exactly at `f`: merge on the right
          rename_i h3
          refine ⟨⟨Nat.min_le_right _ _, by simp [hd], ?_⟩, ?_⟩
          · rw [List.length_append]
            exact hn.2.2.mono (by omega)
          · intro x
            rw [lookup_cons, lookup_cons, List.length_append]
            by_cases hx2 : a ≤ x ∧ x < a + d.length
            · rw [if_pos (by omega), if_pos hx2, List.getElem?_append_left (by omega)]
            · rw [if_neg hx2]
              by_cases hx : f ≤ x ∧ x < f + e.length
              · rw [if_pos (by omega), if_pos hx, List.getElem?_append_right (by omega)]
                congr 1; omega
              · rw [if_neg (by omega), if_neg hx]
        · rename_i h3
          exact ⟨⟨Nat.min_le_right _ _, hd, by omega, hn.2.1, hn.2.2⟩, fun x => rfl⟩

/-! ### touched pages and zero-extension -/

/-- some address of `x`'s 256-byte page is occupied -/
def TouchedF (g : Nat → Option UInt8) (x : Nat) : Prop := ∃ a, (g a).isSome = true ∧ a / 256 = x / 256

/-- `h` is `g` with additional zero bytes, all of them inside pages that `g` touches -/
def Ext (g h : Nat → Option UInt8) : Prop :=
  ∀ x, h x = g x ∨ (g x = none ∧ h x = some 0 ∧ TouchedF g x)

theorem Ext.refl (g : Nat → Option UInt8) : Ext g g := fun _ => Or.inl rfl

theorem Ext.of_eq {g h : Nat → Option UInt8} (e : ∀ x, h x = g x) : Ext g h := fun x => Or.inl (e x)

theorem Ext.touched_mp {g h : Nat → Option UInt8} (e : Ext g h) {x : Nat} (t : TouchedF h x) : TouchedF g x := by
  obtain ⟨a, ha, hp⟩ := t
  rcases e a with h1 | ⟨_, _, b, hb, hq⟩
  · exact ⟨a, by rw [← h1]; exact ha, hp⟩
  · exact ⟨b, hb, by omega⟩

theorem Ext.touched_mpr {g h : Nat → Option UInt8} (e : Ext g h) {x : Nat} (t : TouchedF g x) : TouchedF h x := by
  obtain ⟨a, ha, hp⟩ := t
  rcases e a with h1 | ⟨h1, _, _⟩
  · exact ⟨a, by rw [h1]; exact ha, hp⟩
  · rw [h1] at ha; cases ha

theorem Ext.touched {g h : Nat → Option UInt8} (e : Ext g h) (x : Nat) : TouchedF h x ↔ TouchedF g x :=
  ⟨e.touched_mp, e.touched_mpr⟩

theorem Ext.getD {g h : Nat → Option UInt8} (e : Ext g h) (x : Nat) : (h x).getD 0 = (g x).getD 0 := by
  rcases e x with h1 | ⟨h1, h2, _⟩
  · rw [h1]
  · rw [h1, h2]; rfl

theorem Ext.trans {g h k : Nat → Option UInt8} (e1 : Ext g h) (e2 : Ext h k) : Ext g k := by
  intro x
  rcases e2 x with h2 | ⟨h2, h3, t⟩
  · rcases e1 x with h1 | h1
    · exact Or.inl (h2.trans h1)
    · exact Or.inr ⟨h1.1, h2.trans h1.2.1, h1.2.2⟩
  · rcases e1 x with h1 | ⟨_, h1, _⟩
    · exact Or.inr ⟨h1 ▸ h2, h3, e1.touched_mp t⟩
    · rw [h1] at h2; cases h2

/-- both lists get the same head segment -/
theorem Ext.cons {A B : List Seg} (e : Ext (lookup A) (lookup B)) (s : Seg) :
    Ext (lookup (s :: A)) (lookup (s :: B)) := by
  obtain ⟨f, d⟩ := s
  intro x
  rw [lookup_cons, lookup_cons]
  by_cases hx : f ≤ x ∧ x < f + d.length
  · rw [if_pos hx, if_pos hx]; exact Or.inl rfl
  · rw [if_neg hx, if_neg hx]
    rcases e x with h1 | ⟨h1, h2, a, ha, hp⟩
    · exact Or.inl h1
    · refine Or.inr ⟨h1, h2, a, ?_, hp⟩
      rw [lookup_cons]
      by_cases hxa : f ≤ a ∧ a < f + d.length
      · rw [if_pos hxa, List.getElem?_eq_getElem (by omega)]; rfl
      · rw [if_neg hxa]; exact ha

/-- prepending `g ≤ f % 256` zeros to a segment whose predecessors end below: an extension -/
theorem Ext.fill (f : Nat) (d : List UInt8) (r : List Seg) (g : Nat) (hg : g ≤ f % 256) (hd : d ≠ [])
    (hn : NormAbove (f + d.length + 1) r) :
    Ext (lookup ((f, d) :: r)) (lookup ((f - g, zeros g ++ d) :: r)) := by
  have hdl : 0 < d.length := List.length_pos_iff.mpr hd
  have hfm : f % 256 ≤ f := Nat.mod_le _ _
  intro x
  rw [lookup_cons, lookup_cons, List.length_append, zeros_length]
  by_cases hx : f ≤ x ∧ x < f + d.length
  · left
    rw [if_pos hx, if_pos (by omega), List.getElem?_append_right (by rw [zeros_length]; omega), zeros_length]
    congr 1; omega
  · rw [if_neg hx]
    by_cases hx2 : f - g ≤ x ∧ x < f
    · right
      rw [if_pos (by omega), List.getElem?_append_left (by rw [zeros_length]; omega)]
      refine ⟨lookup_none_below hn (by omega), ?_, f, ?_, by omega⟩
      · unfold zeros
        rw [List.getElem?_replicate, if_pos (by omega)]
      · rw [lookup_cons, if_pos (by omega), List.getElem?_eq_getElem (by omega)]; rfl
    · left
      rw [if_neg (by omega)]

/-! ### the padding loop -/

/-- page-normal: every segment starts on a page boundary, is non-empty, and the next one starts at or after
the end of this one's last page -/
def PNorm (lo : Nat) : List Seg → Prop
  | [] => True
  | (f, d) :: r => lo ≤ f ∧ f % 256 = 0 ∧ d ≠ [] ∧ PNorm (roundUp (f + d.length) 256) r

theorem PNorm.mono {lo lo' : Nat} {m : List Seg} (h : PNorm lo m) (hl : lo' ≤ lo) : PNorm lo' m := by
  cases m with
  | nil => trivial
  | cons s r =>
    obtain ⟨f, d⟩ := s
    exact ⟨Nat.le_trans hl h.1, h.2⟩

theorem roundUp_le_aligned (n p : Nat) (h : n ≤ p) (hp : p % 256 = 0) : roundUp n 256 ≤ p := by
  unfold roundUp; split <;> omega

theorem padGo_spec (r : List Seg) : ∀ (c : Nat) (cd : List UInt8), c % 256 = 0 → cd ≠ [] →
    NormAbove (c + cd.length + 1) r →
    PNorm c (padGo (c, cd) r) ∧ Ext (lookup ((c, cd) :: r)) (lookup (padGo (c, cd) r)) := by
  induction r with
  | nil =>
    intro c cd hc hcd _
    exact ⟨⟨Nat.le_refl _, hc, hcd, trivial⟩, Ext.refl _⟩
  | cons s r ih =>
    obtain ⟨f, d⟩ := s
    intro c cd hc hcd hn
    have hcl : 0 < cd.length := List.length_pos_iff.mpr hcd
    have hdl : 0 < d.length := List.length_pos_iff.mpr hn.2.1
    have hf := hn.1
    have hfm : f % 256 ≤ f := Nat.mod_le _ _
    -- merged form, used by the two "same page"/"touching" branches
    have merged : ∀ g, g ≤ f % 256 → c + cd.length = f - g →
        PNorm c (padGo (c, cd ++ zeros g ++ d) r) ∧
          Ext (lookup ((c, cd) :: (f, d) :: r)) (lookup (padGo (c, cd ++ zeros g ++ d) r)) := by
      intro g hg hcg
      have hne : cd ++ zeros g ++ d ≠ [] := by simp [hcd]
      have hlen : (cd ++ zeros g ++ d).length = cd.length + g + d.length := by
        simp only [List.length_append, zeros_length]
      obtain ⟨i1, i2⟩ := ih c (cd ++ zeros g ++ d) hc hne (by rw [hlen]; exact hn.2.2.mono (by omega))
      refine ⟨i1, Ext.trans ?_ i2⟩
      have e1 := (Ext.fill f d r g hg hn.2.1 hn.2.2).cons (c, cd)
      refine e1.trans (Ext.of_eq ?_)
      intro x
      rw [List.append_assoc, lookup_merge, hcg]
    simp only [padGo]
    split
    · -- already page aligned
      rename_i h0
      obtain ⟨i1, i2⟩ := ih f d h0 hn.2.1 hn.2.2
      exact ⟨⟨Nat.le_refl _, hc, hcd, i1.mono (roundUp_le_aligned _ _ (by omega) h0)⟩, i2.cons (c, cd)⟩
    · rename_i h0
      split
      · rename_i h1
        have := merged (f - (c + cd.length - 1) - 1) (by omega) (by omega)
        exact this
      · rename_i h1
        split
        · rename_i h2
          exact merged (f % 256) (Nat.le_refl _) (by omega)
        · rename_i h2
          have hne : zeros (f % 256) ++ d ≠ [] := by simp [hn.2.1]
          have hlen : (zeros (f % 256) ++ d).length = f % 256 + d.length := by simp [List.length_append]
          obtain ⟨i1, i2⟩ := ih (f - f % 256) (zeros (f % 256) ++ d) (by omega) hne
            (by rw [hlen]; exact hn.2.2.mono (by omega))
          refine ⟨⟨Nat.le_refl _, hc, hcd, i1.mono (roundUp_le_aligned _ _ (by omega) (by omega))⟩, ?_⟩
          exact ((Ext.fill f d r (f % 256) (Nat.le_refl _) hn.2.1 hn.2.2).trans i2).cons (c, cd)

theorem padAll_spec (m : List Seg) (hn : NormAbove 0 m) :
    PNorm 0 (padAll m) ∧ Ext (lookup m) (lookup (padAll m)) := by
  cases m with
  | nil => exact ⟨trivial, Ext.refl _⟩
  | cons s r =>
    obtain ⟨f, d⟩ := s
    have hfm : f % 256 ≤ f := Nat.mod_le _ _
    have hne : zeros (f % 256) ++ d ≠ [] := by simp [hn.2.1]
    have hlen : (zeros (f % 256) ++ d).length = f % 256 + d.length := by simp [List.length_append]
    obtain ⟨i1, i2⟩ := padGo_spec r (f - f % 256) (zeros (f % 256) ++ d) (by omega) hne
      (by rw [hlen]; exact hn.2.2.mono (by omega))
    exact ⟨i1.mono (Nat.zero_le _), (Ext.fill f d r (f % 256) (Nat.le_refl _) hn.2.1 hn.2.2).trans i2⟩

/-! ### the loader image of a page-normal list -/

theorem segsImage_none_below {lo : Nat} {m : List Seg} (h : PNorm lo m) {x : Nat} (hx : x < lo) :
    segsImage m x = none := by
  induction m generalizing lo with
  | nil => rfl
  | cons s r ih =>
    obtain ⟨f, d⟩ := s
    have hge := (roundUp_ge (f + d.length) 256 (by decide)).1
    simp only [segsImage]
    rw [ih h.2.2.2 (by have := h.1; omega)]
    simp only [expectImage]
    rw [if_neg (by have := h.1; omega)]

theorem touched_none_below {lo : Nat} {m : List Seg} (h : PNorm lo m) (hlo : lo % 256 = 0) {x : Nat} (hx : x < lo) :
    ¬ TouchedF (lookup m) x := by
  induction m generalizing lo with
  | nil => rintro ⟨a, ha, _⟩; cases ha
  | cons s r ih =>
    obtain ⟨f, d⟩ := s
    rintro ⟨a, ha, hp⟩
    have hge := (roundUp_ge (f + d.length) 256 (by decide)).1
    have hf := h.1
    rw [lookup_cons] at ha
    by_cases hxa : f ≤ a ∧ a < f + d.length
    · omega
    · rw [if_neg hxa] at ha
      have hru : roundUp (f + d.length) 256 % 256 = 0 := by unfold roundUp; split <;> omega
      exact ih h.2.2.2 hru (by omega) ⟨a, ha, hp⟩

theorem lookup_none_below_pnorm {lo : Nat} {m : List Seg} (h : PNorm lo m) {a : Nat} (ha : a < lo) :
    lookup m a = none := by
  induction m generalizing lo with
  | nil => rfl
  | cons s r ih =>
    obtain ⟨f, d⟩ := s
    have hge := (roundUp_ge (f + d.length) 256 (by decide)).1
    rw [lookup_cons, if_neg (by have := h.1; omega)]
    exact ih h.2.2.2 (by have := h.1; omega)

theorem segsImage_pnorm {lo : Nat} {m : List Seg} (h : PNorm lo m) (x : Nat) :
    (TouchedF (lookup m) x → segsImage m x = some ((lookup m x).getD 0)) ∧
    (¬ TouchedF (lookup m) x → segsImage m x = none) := by
  induction m generalizing lo with
  | nil =>
    refine ⟨?_, fun _ => rfl⟩
    rintro ⟨a, ha, _⟩; cases ha
  | cons s r ih =>
    obtain ⟨f, d⟩ := s
    have hdl : 0 < d.length := List.length_pos_iff.mpr h.2.2.1
    have hf0 := h.2.1
    obtain ⟨hge, hlt⟩ := roundUp_ge (f + d.length) 256 (by decide)
    have hru : roundUp (f + d.length) 256 % 256 = 0 := by unfold roundUp; split <;> omega
    have hradd : roundUp (f + d.length) 256 = f + roundUp d.length 256 := roundUp_add f d.length 256 (by decide) hf0
    have hdle : d.length ≤ roundUp d.length 256 := (roundUp_ge d.length 256 (by decide)).1
    simp only [segsImage]
    by_cases hx : x < roundUp (f + d.length) 256
    · rw [segsImage_none_below h.2.2.2 hx]
      simp only
      rw [expectImage_val _ _ _ _ hdle]
      by_cases hxf : f ≤ x
      · rw [if_pos (by omega)]
        have hw : TouchedF (lookup ((f, d) :: r)) x := by
          by_cases hxd : x - f < d.length
          · exact ⟨x, lookup_in_isSome f d r x (by omega), rfl⟩
          · exact ⟨f + d.length - 1, lookup_in_isSome f d r _ (by omega), by omega⟩
        refine ⟨fun _ => ?_, fun hnt => absurd hw hnt⟩
        rw [lookup_cons]
        by_cases hxd : x - f < d.length
        · rw [if_pos hxd, if_pos (by omega), List.getElem?_eq_getElem hxd]; rfl
        · rw [if_neg hxd, if_neg (by omega), lookup_none_below_pnorm h.2.2.2 hx]
          rfl
      · rw [if_neg (by omega)]
        refine ⟨?_, fun _ => rfl⟩
        rintro ⟨a, ha, hp⟩
        rw [lookup_cons] at ha
        by_cases hxa : f ≤ a ∧ a < f + d.length
        · omega
        · rw [if_neg hxa] at ha
          exact absurd ⟨a, ha, hp⟩ (touched_none_below h.2.2.2 hru (x := x) (by omega))
    · -- at or above the end of this segment's last page: the rest of the list decides
      have hexp : expectImage f d (roundUp d.length 256) x = none := by
        rw [expectImage_val _ _ _ _ hdle, if_neg (by omega)]
      have htouch : TouchedF (lookup ((f, d) :: r)) x ↔ TouchedF (lookup r) x := by
        constructor
        · rintro ⟨a, ha, hp⟩
          rw [lookup_cons] at ha
          by_cases hxa : f ≤ a ∧ a < f + d.length
          · omega
          · rw [if_neg hxa] at ha; exact ⟨a, ha, hp⟩
        · rintro ⟨a, ha, hp⟩
          refine ⟨a, ?_, hp⟩
          rw [lookup_cons]
          by_cases hxa : f ≤ a ∧ a < f + d.length
          · rw [if_pos hxa, List.getElem?_eq_getElem (by omega)]; rfl
          · rw [if_neg hxa]; exact ha
      have hl : lookup ((f, d) :: r) x = lookup r x := by rw [lookup_cons, if_neg (by omega)]
      obtain ⟨i1, i2⟩ := ih h.2.2.2
      rw [hexp, hl, htouch]
      constructor
      · intro ht; rw [i1 ht]
      · intro ht; rw [i2 ht]

/-! ### blocks of a page-normal list: ascending, one page each -/

theorem allBlks_addr_lt (cfg : Cfg) (hps : 0 < cfg.ps) (nf : Bool) (fuel : Nat) :
    ∀ (d : List UInt8) (a no : Nat), ∀ b ∈ allBlks cfg nf fuel d a no, b.addr < a + d.length := by
  induction fuel with
  | zero => intro d a no b hb; simp [allBlks] at hb
  | succ f ih =>
    intro d a no b hb
    by_cases hd : d = []
    · subst hd; simp [allBlks] at hb
    · have hemp : d.isEmpty = false := by simpa using hd
      have hdl : 0 < d.length := List.length_pos_iff.mpr hd
      simp only [allBlks, hemp, Bool.false_eq_true, if_false] at hb
      rcases List.mem_cons.mp hb with h | h
      · subst h; simp only; omega
      · by_cases hlt : d.length ≤ cfg.ps
        · rw [List.drop_eq_nil_of_le hlt, allBlks_nil] at h; cases h
        · have := ih _ _ _ b h
          rw [List.length_drop] at this; omega

theorem segsBlks_sorted (segs : List Seg) : ∀ (lo : Nat) (st : St), Inv st → st.cfg.ps = 256 → st.cfg.al = 256 →
    PNorm lo segs → (∀ s ∈ segs, s.1 < 4294967296) →
    List.Pairwise (fun b c : Blk => b.addr + 256 ≤ c.addr) (segsBlks st segs) ∧
    ∀ b ∈ segsBlks st segs, lo ≤ b.addr := by
  induction segs with
  | nil => intro lo st _ _ _ _ _; simp [segsBlks]
  | cons fd r ih =>
    intro lo st hI hps hal hp ha
    obtain ⟨f, d⟩ := fd
    have hf : f < 4294967296 := ha (f, d) (by simp)
    have hge := (roundUp_ge (f + d.length) 256 (by decide)).1
    have hrest : List.Pairwise (fun b c : Blk => b.addr + 256 ≤ c.addr) (segsBlks (writeAll st f d false).1 r) ∧
        ∀ b ∈ segsBlks (writeAll st f d false).1 r, roundUp (f + d.length) 256 ≤ b.addr := by
      rcases writeAll_spec st hI f hf d false with ⟨st1, h1, hI1, hE1, _⟩ | ⟨e, h1, _⟩
      · rw [h1]
        exact ih _ st1 hI1 (by rw [hE1.cfg]; exact hps) (by rw [hE1.cfg]; exact hal) hp.2.2.2
          (fun s hs => ha s (by simp [hs]))
      · rw [h1]
        exact ih _ st hI hps hal hp.2.2.2 (fun s hs => ha s (by simp [hs]))
    have hhead : ∀ b ∈ writeAllBlks st f d false, f ≤ b.addr ∧ b.addr < f + d.length ∧ b.blen = 256 :=
      fun b hb => ⟨allBlks_addr_ge _ _ _ _ _ _ b hb, allBlks_addr_lt _ (by omega) _ _ _ _ _ b hb,
        (allBlks_256 st.cfg hps hal false _ d f st.count hp.2.1 b hb).1⟩
    simp only [segsBlks]
    refine ⟨List.pairwise_append.mpr ⟨?_, hrest.1, ?_⟩, ?_⟩
    · have := allBlks_disjoint st.cfg hI.valid false d.length d f st.count
      refine List.Pairwise.imp_of_mem ?_ this
      intro b c hb _ hbc
      have := (hhead b hb).2.2
      omega
    · intro b hb c hc
      have h1 := hhead b hb
      have h2 := hrest.2 c hc
      have h3 := (allBlks_256 st.cfg hps hal false _ d f st.count hp.2.1 b hb).2.1
      have h4 : roundUp (f + d.length) 256 % 256 = 0 := by unfold roundUp; split <;> omega
      omega
    · intro b hb
      rcases List.mem_append.mp hb with h | h
      · have := (hhead b h).1; have := hp.1; omega
      · have := hrest.2 b h; have := hp.1; omega

end Trion.Trias
