import TrionModel.Lemmas.LayoutImg
/-!
# C05 helper lemmas, part 2: the state invariant of the layout machine and the effect of every operation

`Core st`   : the active region satisfies `buf.length ≤ maxLen`, `base + maxLen ≤ 2^32`, and no closed byte
              lies in `[base, base + maxLen)`.
`TaskOk st t` : the pending task's final bytes have the placed length, and its range `[addr, addr+len)` lies
              entirely in the closed image or entirely in the active buffer.
`Inv st`    : `Core st` and every pending task is `TaskOk`.
`view st`   : the address → byte dictionary of everything emitted so far (closed image overlaid with the
              active buffer).

For every operation (`closeSeg`, `changeSeg`, `append`, `rewrite`, `insertConst`) a `…_no_panic` lemma and an
`…_ok` lemma describing the successor state (invariant, `view`, environment, tasks).
-/
namespace Trion.Layout

def ActiveOk (closed : Img) (s : Active) : Prop :=
  s.buf.length ≤ s.maxLen ∧ s.base + s.maxLen ≤ top ∧
  ∀ k, s.base ≤ k → k < s.base + s.maxLen → closed.has k = false

def Core (st : State) : Prop :=
  (∀ k, st.closed.has k = true → k < top) ∧ ∀ s, st.active = some s → ActiveOk st.closed s

def TaskOk (st : State) (t : Task) : Prop :=
  t.final.length = t.len ∧
  ((∀ i, i < t.len → st.closed.has (t.addr + i) = true) ∨
   ∃ s, st.active = some s ∧ s.base ≤ t.addr ∧ t.addr + t.len ≤ s.base + s.buf.length)

def Inv (st : State) : Prop := Core st ∧ ∀ t ∈ st.tasks, TaskOk st t

/-- everything emitted so far -/
def view (st : State) (a : Nat) : Option UInt8 :=
  match st.active with
  | some s => if s.base ≤ a ∧ a < s.base + s.buf.length then s.buf[a - s.base]? else st.closed.get a
  | none => st.closed.get a

/-- the reference cursor of the machine: the address of the next byte (NOT saturated) -/
def pos (st : State) : Option Nat := st.active.map fun s => s.base + s.buf.length

theorem inv_init : Inv {} :=
  ⟨⟨fun _ h => (by cases h), fun _ h => (by cases h)⟩, fun _ h => (by cases h)⟩

theorem view_closed_of_none (st : State) (h : st.active = none) (a : Nat) : view st a = st.closed.get a := by
  simp only [view, h]

/-- `TaskOk` only depends on which closed addresses are present and on the extent of the active buffer -/
theorem TaskOk.mono {st st' : State} {t : Task} (h : TaskOk st t)
    (hc : ∀ k, st.closed.has k = true → st'.closed.has k = true)
    (ha : ∀ s, st.active = some s →
      (∃ s', st'.active = some s' ∧ s'.base = s.base ∧ s.buf.length ≤ s'.buf.length) ∨
      (∀ k, s.base ≤ k → k < s.base + s.buf.length → st'.closed.has k = true)) : TaskOk st' t := by
  obtain ⟨h1, h2⟩ := h
  refine ⟨h1, ?_⟩
  rcases h2 with h2 | ⟨s, hs, h3, h4⟩
  · exact Or.inl fun i hi => hc _ (h2 i hi)
  · rcases ha s hs with ⟨s', hs', hb, hl⟩ | h5
    · exact Or.inr ⟨s', hs', by omega, by omega⟩
    · exact Or.inl fun i hi => h5 _ (by omega) (by omega)

/-! ### closeSeg -/

theorem closeSeg_spec (st : State) (hc : Core st) :
    ∃ st', closeSeg st = .ok st' ∧ Core st' ∧ st'.active = none ∧ st'.env = st.env ∧ st'.tasks = st.tasks ∧
      (∀ a, st'.closed.get a = view st a) ∧ (∀ t, TaskOk st t → TaskOk st' t) := by
  unfold closeSeg
  cases hact : st.active with
  | none =>
    exact ⟨st, rfl, hc, hact, rfl, rfl, fun a => by simp only [view, hact], fun t h => h⟩
  | some s =>
    obtain ⟨h1, h2, h3⟩ := hc.2 s hact
    have hf : st.closed.freeRange s.base s.buf.length = true := by
      rw [freeRange_iff]; intro k hk1 hk2; exact h3 k hk1 (by omega)
    simp only [hf, if_true]
    refine ⟨_, rfl, ⟨fun k hk => ?_, fun s' hs' => by cases hs'⟩, rfl, rfl, rfl, fun a => ?_, fun t ht => ?_⟩
    · simp only [has_put, Bool.or_eq_true, decide_eq_true_eq] at hk
      rcases hk with hk | hk
      · omega
      · exact hc.1 k hk
    · simp only [view, hact, get_put]
    · refine ht.mono (fun k hk => has_put_mono _ _ _ _ hk) (fun s' hs' => Or.inr fun k hk1 hk2 => ?_)
      rw [hact] at hs'; cases hs'
      simp only [has_put]
      simp [hk1, hk2]

/-! ### changeSeg -/

theorem openAt_ok (st st' : State) (a : Nat) (ha : a < top) (hb : ∀ k, st.closed.has k = true → k < top)
    (h : changeSeg.openAt st a = .ok st') :
    ∃ s, st' = { st with active := some s } ∧ s.base = a ∧ s.buf = [] ∧ ActiveOk st.closed s := by
  unfold changeSeg.openAt at h
  split at h
  · rename_i n hn
    obtain ⟨h1, h2, h3⟩ := nextAbove_some _ _ _ hn
    split at h
    · cases h
    · cases h
      refine ⟨_, rfl, rfl, rfl, ?_, ?_, ?_⟩
      · simp
      · simp only
        have := hb n h2
        omega
      · intro k hk1 hk2
        simp only at hk1 hk2
        exact h3 k hk1 (by omega)
  · rename_i hn
    cases h
    refine ⟨_, rfl, rfl, rfl, ?_, ?_, ?_⟩
    · simp
    · simp only; omega
    · intro k hk1 _
      exact nextAbove_none _ _ hn k hk1


theorem openAt_no_panic (st : State) (a : Nat) : changeSeg.openAt st a ≠ .error .panic := by
  unfold changeSeg.openAt
  split
  · split <;> simp
  · simp

theorem changeSeg_no_panic (st : State) (a : Nat) (hc : Core st) : changeSeg st a ≠ .error .panic := by
  unfold changeSeg
  split
  · simp
  · cases hact : st.active with
    | none => exact openAt_no_panic _ _
    | some s =>
      simp only
      split
      · simp
      · obtain ⟨st1, h1, _⟩ := closeSeg_spec st hc
        rw [h1]; exact openAt_no_panic _ _

theorem changeSeg_ok (st st' : State) (a : Nat) (hc : Core st) (h : changeSeg st a = .ok st') :
    Core st' ∧ st'.env = st.env ∧ st'.tasks = st.tasks ∧ (∀ x, view st' x = view st x) ∧
    (∀ t, TaskOk st t → TaskOk st' t) ∧ pos st' = some a := by
  unfold changeSeg at h
  split at h
  · cases h
  · rename_i hat
    have key : ∀ st1 : State, Core st1 → st1.active = none → changeSeg.openAt st1 a = .ok st' →
        Core st' ∧ st'.env = st1.env ∧ st'.tasks = st1.tasks ∧ (∀ x, view st' x = st1.closed.get x) ∧
        (∀ t, TaskOk st1 t → TaskOk st' t) ∧ pos st' = some a := by
      intro st1 hc1 hn ho
      obtain ⟨s, rfl, hb, hbuf, hok⟩ := openAt_ok st1 st' a (by omega) hc1.1 ho
      refine ⟨⟨hc1.1, fun s' hs' => by cases hs'; exact hok⟩, rfl, rfl, fun x => ?_, fun t ht => ?_, ?_⟩
      · simp only [view, hbuf, List.length_nil]
        have : ¬ (s.base ≤ x ∧ x < s.base + 0) := by omega
        rw [if_neg this]
      · exact ht.mono (fun k hk => hk) (fun s' hs' => by rw [hn] at hs'; cases hs')
      · simp only [pos, Option.map_some, hbuf, List.length_nil, hb, Nat.add_zero]
    cases hact : st.active with
    | none =>
      rw [hact] at h
      obtain ⟨k1, k2, k3, k4, k5, k6⟩ := key st hc hact h
      exact ⟨k1, k2, k3, fun x => by rw [k4, view_closed_of_none st hact], k5, k6⟩
    | some s =>
      rw [hact] at h
      simp only at h
      split at h
      · rename_i hsame
        cases h
        refine ⟨hc, rfl, rfl, fun x => rfl, fun t ht => ht, ?_⟩
        simp only [pos, hact, Option.map_some, hsame.2, List.length_nil, hsame.1, Nat.add_zero]
      · obtain ⟨st1, h1, hc1, hn1, he1, ht1, hv1, hk1⟩ := closeSeg_spec st hc
        rw [h1] at h
        simp only at h
        obtain ⟨k1, k2, k3, k4, k5, k6⟩ := key st1 hc1 hn1 h
        exact ⟨k1, k2.trans he1, k3.trans ht1, fun x => by rw [k4, hv1], fun t ht => k5 t (hk1 t ht), k6⟩

/-! ### append -/

theorem append_no_panic (st : State) (bs : Bytes) (hc : Core st) : append st bs ≠ .error .panic := by
  unfold append
  cases hact : st.active with
  | none => simp
  | some s =>
    have := (hc.2 s hact).1
    simp only
    rw [if_neg (by omega)]
    split <;> simp

theorem append_ok (st st' : State) (bs : Bytes) (h : append st bs = .ok st') :
    ∃ s, st.active = some s ∧ s.buf.length + bs.length ≤ s.maxLen ∧
      st' = { st with active := some { s with buf := s.buf ++ bs } } := by
  unfold append at h
  cases hact : st.active with
  | none => rw [hact] at h; cases h
  | some s =>
    rw [hact] at h; simp only at h
    split at h
    · cases h
    · split at h
      · rename_i h1 h2
        unfold Active.remaining at h2
        refine ⟨s, rfl, by omega, ?_⟩
        cases h; rfl
      · cases h

theorem append_effects (st : State) (s : Active) (bs : Bytes) (hc : Core st) (hact : st.active = some s)
    (hfit : s.buf.length + bs.length ≤ s.maxLen) :
    let st' : State := { st with active := some { s with buf := s.buf ++ bs } }
    Core st' ∧ (∀ t, TaskOk st t → TaskOk st' t) ∧
    (∀ x, view st' x = if s.base + s.buf.length ≤ x ∧ x < s.base + s.buf.length + bs.length
        then bs[x - (s.base + s.buf.length)]? else view st x) := by
  obtain ⟨h1, h2, h3⟩ := hc.2 s hact
  refine ⟨⟨hc.1, fun s' hs' => ?_⟩, fun t ht => ?_, fun x => ?_⟩
  · cases hs'
    exact ⟨by simp only [List.length_append]; omega, h2, h3⟩
  · exact ht.mono (fun k hk => hk) (fun s' hs' => Or.inl ⟨_, rfl, by
      rw [hact] at hs'; cases hs'; exact ⟨rfl, by simp only [List.length_append]; omega⟩⟩)
  · simp only [view, hact, List.length_append]
    by_cases c1 : x < s.base + s.buf.length
    · by_cases c0 : s.base ≤ x
      · rw [if_pos ⟨c0, by omega⟩, if_neg (by omega), if_pos ⟨c0, c1⟩,
          List.getElem?_append_left (by omega)]
      · rw [if_neg (by omega), if_neg (by omega), if_neg (by omega)]
    · by_cases c2 : x < s.base + s.buf.length + bs.length
      · rw [if_pos ⟨by omega, by omega⟩, if_pos ⟨by omega, c2⟩, List.getElem?_append_right (by omega)]
        congr 1; omega
      · rw [if_neg (by omega), if_neg (by omega), if_neg (by omega)]


/-! ### rewrite -/

theorem rewrite_spec (st : State) (t : Task) (hc : Core st) (ht : TaskOk st t) :
    ∃ st', rewrite st t.addr t.final = .ok st' ∧ Core st' ∧ st'.env = st.env ∧ st'.tasks = st.tasks ∧
      pos st' = pos st ∧ (∀ t', TaskOk st t' → TaskOk st' t') ∧
      (∀ x, view st' x = if t.addr ≤ x ∧ x < t.addr + t.len then t.final[x - t.addr]? else view st x) := by
  obtain ⟨addr, len, deps, final⟩ := t
  obtain ⟨hlen, hrange⟩ := ht
  simp only at hlen hrange ⊢
  subst hlen
  unfold rewrite
  by_cases hhas : st.closed.has addr = true
  · -- the statement lives in the closed image
    have hall : ∀ i, i < final.length → st.closed.has (addr + i) = true := by
      rcases hrange with h | ⟨s, hs, h1, h2⟩
      · exact h
      · intro i hi
        obtain ⟨g1, g2, g3⟩ := hc.2 s hs
        have := g3 addr h1 (by omega)
        rw [this] at hhas; cases hhas
    have hr : st.closed.hasRange addr final.length = true := by
      rw [hasRange_iff]; intro k hk1 hk2
      have := hall (k - addr) (by omega)
      rwa [show addr + (k - addr) = k by omega] at this
    rw [if_pos hhas, if_pos hr]
    have hsame : ∀ k, (st.closed.put addr final).has k = st.closed.has k := by
      intro k
      rw [has_put]
      by_cases hk : addr ≤ k ∧ k < addr + final.length
      · have := hall (k - addr) (by omega)
        rw [show addr + (k - addr) = k by omega] at this
        rw [this, Bool.or_true]
      · simp [hk]
    refine ⟨_, rfl, ⟨fun k hk => hc.1 k (by rwa [hsame] at hk), fun s hs => ?_⟩, rfl, rfl, rfl,
      fun t' ht' => ?_, fun x => ?_⟩
    · obtain ⟨g1, g2, g3⟩ := hc.2 s hs
      exact ⟨g1, g2, fun k hk1 hk2 => by simp only; rw [hsame]; exact g3 k hk1 hk2⟩
    · exact ht'.mono (fun k hk => by simp only; rwa [hsame]) (fun s hs => Or.inl ⟨s, hs, rfl, Nat.le_refl _⟩)
    · simp only [view]
      cases hact : st.active with
      | none => simp only [get_put]
      | some s =>
        simp only [get_put]
        obtain ⟨g1, g2, g3⟩ := hc.2 s hact
        by_cases hx : s.base ≤ x ∧ x < s.base + s.buf.length
        · simp only [if_pos hx]
          have hfree := g3 x hx.1 (by omega)
          have hn : ¬ (addr ≤ x ∧ x < addr + final.length) := by
            intro hh
            have := hall (x - addr) (by omega)
            rw [show addr + (x - addr) = x by omega, hfree] at this
            cases this
          rw [if_neg hn]
        · simp only [if_neg hx]
  · -- not in the closed image: the active buffer, or a zero-length statement
    rw [if_neg hhas]
    have hzero : ∀ (st' : State), st' = st → final.length = 0 →
        Core st' ∧ st'.env = st.env ∧ st'.tasks = st.tasks ∧
        pos st' = pos st ∧ (∀ t', TaskOk st t' → TaskOk st' t') ∧
        (∀ x, view st' x = if addr ≤ x ∧ x < addr + final.length then final[x - addr]? else view st x) := by
      intro st' he hz
      subst he
      refine ⟨hc, rfl, rfl, rfl, fun _ h => h, fun x => ?_⟩
      rw [if_neg (by omega)]
    have hcl0 : (∀ i, i < final.length → st.closed.has (addr + i) = true) → final.length = 0 := by
      intro h
      by_cases h0 : final.length = 0
      · exact h0
      · have := h 0 (by omega)
        rw [Nat.add_zero] at this
        exact absurd this hhas
    cases hact : st.active with
    | none =>
      have hz : final.length = 0 := by
        rcases hrange with h | ⟨s, hs, _⟩
        · exact hcl0 h
        · rw [hact] at hs; cases hs
      simp only
      rw [if_pos hz]
      exact ⟨st, rfl, hzero st rfl hz⟩
    | some s =>
      obtain ⟨g1, g2, g3⟩ := hc.2 s hact
      simp only
      have hcurr : s.curr = min (s.base + s.buf.length) (top - 1) := rfl
      by_cases hin : s.base ≤ addr ∧ addr ≤ s.curr
      · rw [if_pos hin]
        have hstart : addr - s.base ≤ s.buf.length := by omega
        rw [if_neg (by omega)]
        have hfit : addr - s.base + final.length ≤ s.buf.length := by
          rcases hrange with h | ⟨s', hs', h1, h2⟩
          · have := hcl0 h; omega
          · rw [hact] at hs'; cases hs'; omega
        rw [if_neg (by omega)]
        refine ⟨_, rfl, ⟨hc.1, fun s' hs' => ?_⟩, rfl, rfl, ?_, fun t' ht' => ?_, fun x => ?_⟩
        · cases hs'
          exact ⟨by simp only [length_overwrite _ _ _ hfit]; exact g1, g2, g3⟩
        · simp only [pos, hact, Option.map_some, length_overwrite _ _ _ hfit]
        · exact ht'.mono (fun k hk => hk) (fun s' hs' => Or.inl ⟨_, rfl, by
            rw [hact] at hs'; cases hs'; exact ⟨rfl, by simp only [length_overwrite _ _ _ hfit]; omega⟩⟩)
        · simp only [view, hact, length_overwrite _ _ _ hfit, getElem?_overwrite _ _ _ hfit]
          by_cases hx : s.base ≤ x ∧ x < s.base + s.buf.length
          · simp only [if_pos hx]
            by_cases hy : addr ≤ x ∧ x < addr + final.length
            · rw [if_pos hy, if_pos (by omega)]
              congr 1; omega
            · rw [if_neg hy, if_neg (by omega)]
          · simp only [if_neg hx]
            rw [if_neg (by omega)]
      · rw [if_neg hin]
        have hz : final.length = 0 := by
          rcases hrange with h | ⟨s', hs', h1, h2⟩
          · exact hcl0 h
          · rw [hact] at hs'; cases hs'
            by_cases h0 : final.length = 0
            · exact h0
            · exfalso; apply hin; unfold top at g2 hcurr; omega
        rw [if_pos hz]
        exact ⟨st, rfl, hzero st rfl hz⟩

/-! ### insertConst -/

theorem insertConst_ok (st st' : State) (n : Nat) (v : Int) (h : insertConst st n v = .ok st') :
    st.env.get n = none ∧ st' = { st with env := (n, v) :: st.env } := by
  unfold insertConst at h
  split at h
  · cases h
  · rename_i hn; cases h; exact ⟨hn, rfl⟩

theorem insertConst_no_panic (st : State) (n : Nat) (v : Int) : insertConst st n v ≠ .error .panic := by
  unfold insertConst
  split <;> simp

end Trion.Layout
