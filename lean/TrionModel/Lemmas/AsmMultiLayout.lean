import TrionModel.Lemmas.LayoutCor
/-!
# The layout core run file by file (`.include`): task queues flushed at the end of every file

`Layout.run` runs ONE task queue at the end of the (single) file.  In a project with `.include` the real code runs the
queue of an included file when that file ends, i.e. in the middle of the includer's statements.  `MRun l p l'` describes
such an execution of the layout core on the flattened program `p`: single statements (`Layout.step`) and complete
included files (their statements from an empty queue, then `Layout.runTasks` on that queue, then the includer's queue
is back).  `mrun_rel` shows that such an execution is matched by the two-pass reference on `p` exactly as a plain run is
(`Layout.steps_rel`): the invariant `Rel` of Lemmas/LayoutRef.lean with the pending tasks of ALL open files.
-/
namespace Trion.Layout
open Ref

/-! ## a frame of outer tasks -/

def withTasks (T : List Task) (st : State) : State := { st with tasks := T }

theorem closeSeg_frame (T : List Task) (st st' : State) (h : closeSeg st = .ok st') :
    closeSeg (withTasks T st) = .ok (withTasks T st') ∧ st'.tasks = st.tasks := by
  obtain ⟨c, a, e, t⟩ := st
  unfold closeSeg at h ⊢
  cases a <;> simp only [withTasks] at h ⊢
  · cases h; exact ⟨rfl, rfl⟩
  · split at h
    · rename_i hf; cases h; simp only [hf, if_true, and_self]
    · cases h

theorem openAt_frame (T : List Task) (st st' : State) (a : Nat) (h : changeSeg.openAt st a = .ok st') :
    changeSeg.openAt (withTasks T st) a = .ok (withTasks T st') ∧ st'.tasks = st.tasks := by
  obtain ⟨c, ac, e, t⟩ := st
  unfold changeSeg.openAt at h ⊢
  simp only [withTasks] at h ⊢
  cases hn : c.nextAbove a with
  | none => rw [hn] at h; simp only at h ⊢; cases h; exact ⟨rfl, rfl⟩
  | some n =>
    rw [hn] at h; simp only at h ⊢
    split at h
    · cases h
    · rename_i hf; cases h; simp only [hf, if_false, and_self]

theorem append_frame (T : List Task) (st st' : State) (bs : Bytes) (h : append st bs = .ok st') :
    append (withTasks T st) bs = .ok (withTasks T st') ∧ st'.tasks = st.tasks := by
  obtain ⟨c, ac, e, t⟩ := st
  unfold append at h ⊢
  cases ac <;> simp only [withTasks] at h ⊢
  · cases h
  · split at h
    · cases h
    · rename_i h1
      split at h
      · rename_i h2; cases h; simp only [h1, h2, if_true, if_false, and_self]
      · cases h

theorem insertConst_frame (T : List Task) (st st' : State) (n : Nat) (v : Int) (h : insertConst st n v = .ok st') :
    insertConst (withTasks T st) n v = .ok (withTasks T st') ∧ st'.tasks = st.tasks := by
  obtain ⟨c, ac, e, t⟩ := st
  unfold insertConst at h ⊢
  simp only [withTasks] at h ⊢
  cases hg : e.get n with
  | some x => rw [hg] at h; cases h
  | none => rw [hg] at h; simp only at h ⊢; cases h; exact ⟨rfl, rfl⟩

theorem changeSeg_frame (T : List Task) (st st' : State) (a : Nat) (h : changeSeg st a = .ok st') :
    changeSeg (withTasks T st) a = .ok (withTasks T st') ∧ st'.tasks = st.tasks := by
  unfold changeSeg at h ⊢
  split at h
  · cases h
  · rename_i hta
    rw [if_neg hta]
    cases hact : st.active with
    | none =>
      rw [hact] at h
      have e : (withTasks T st).active = none := hact
      rw [e]
      exact openAt_frame T st st' a h
    | some s =>
      rw [hact] at h; simp only at h
      have e : (withTasks T st).active = some s := hact
      rw [e]; simp only
      split at h
      · rename_i hc; cases h; rw [if_pos hc]; exact ⟨rfl, rfl⟩
      · rename_i hc
        rw [if_neg hc]
        cases hcl : closeSeg st with
        | error e => rw [hcl] at h; cases h
        | ok st1 =>
          rw [hcl] at h; simp only at h
          obtain ⟨c1, c2⟩ := closeSeg_frame T st st1 hcl
          rw [c1]; simp only
          obtain ⟨o1, o2⟩ := openAt_frame T st1 st' a h
          exact ⟨o1, o2.trans c2⟩
/-- a statement does not look at the pending tasks: it only appends to them -/
theorem step_frame (P : List Task) (st st' : State) (s : Stmt) (h : step st s = .ok st') :
    step (withTasks (P ++ st.tasks) st) s = .ok (withTasks (P ++ st'.tasks) st') := by
  cases s with
  | addr a =>
    obtain ⟨h1, h2⟩ := changeSeg_frame (P ++ st.tasks) st st' a h
    simp only [step] at h ⊢; rw [h1, h2]
  | align n =>
    rw [step_align] at h ⊢
    cases hact : st.active with
    | none => rw [hact] at h; cases h
    | some s =>
      rw [hact] at h; simp only at h
      have e : (withTasks (P ++ st.tasks) st).active = some s := hact
      rw [e]; simp only
      split at h
      · cases h
      · rename_i hn
        rw [if_neg hn]
        split at h
        · rename_i ho; cases h; rw [if_pos ho]
        · rename_i ho
          rw [if_neg ho]
          obtain ⟨h1, h2⟩ := append_frame (P ++ st.tasks) st st' _ h
          rw [h1, h2]
  | label n =>
    simp only [step] at h ⊢
    cases hact : st.active with
    | none => rw [hact] at h; cases h
    | some s =>
      rw [hact] at h; simp only at h
      have e : (withTasks (P ++ st.tasks) st).active = some s := hact
      rw [e]; simp only
      obtain ⟨h1, h2⟩ := insertConst_frame (P ++ st.tasks) st st' _ _ h
      rw [h1, h2]
  | const n deps v =>
    simp only [step] at h ⊢
    have e : (withTasks (P ++ st.tasks) st).env = st.env := rfl
    rw [e]
    split at h
    · rename_i hh
      rw [if_pos hh]
      obtain ⟨h1, h2⟩ := insertConst_frame (P ++ st.tasks) st st' _ _ h
      rw [h1, h2]
    · cases h
  | raw bs =>
    simp only [step] at h ⊢
    obtain ⟨h1, h2⟩ := append_frame (P ++ st.tasks) st st' _ h
    rw [h1, h2]
  | emit len deps final =>
    simp only [step] at h ⊢
    cases hact : st.active with
    | none => rw [hact] at h; cases h
    | some s =>
      rw [hact] at h; simp only at h
      have e : (withTasks (P ++ st.tasks) st).active = some s := hact
      have e' : (withTasks (P ++ st.tasks) st).env = st.env := rfl
      rw [e, e']; simp only
      split at h
      · rename_i hh
        rw [if_pos hh]
        obtain ⟨h1, h2⟩ := append_frame (P ++ st.tasks) st st' _ h
        rw [h1, h2]
      · rename_i hh
        rw [if_neg hh]
        cases ha : append st (placeholder len) with
        | error x => rw [ha] at h; cases h
        | ok st1 =>
          rw [ha] at h; simp only at h
          cases h
          obtain ⟨h1, h2⟩ := append_frame (P ++ st.tasks) st st1 _ ha
          rw [h1]
          simp only [withTasks, h2, List.append_assoc]

/-- `step_rel` with the pending tasks `P` of the including files -/
theorem step_rel_frame (P : List Task) (st st' : State) (s : Stmt) (c : Option Nat) (im : Img)
    (hr : Rel st (P ++ st.tasks) c im) (hwf : s.wf = true) (h : step st s = .ok st') :
    ∃ im', (∀ r, pass2 c im (s :: r) = pass2 (next c s) im' r) ∧ Rel st' (P ++ st'.tasks) (next c s) im' ∧
      (∀ a, (im.get a).isSome = true → im'.get a = im.get a) := by
  have hf := step_frame P st st' s h
  have hr' : Rel (withTasks (P ++ st.tasks) st) (withTasks (P ++ st.tasks) st).tasks c im := hr.congr rfl rfl
  obtain ⟨im', e1, e2, e3⟩ := step_rel _ _ s c im hr' hwf hf
  exact ⟨im', e1, e2.congr rfl rfl, e3⟩

/-- the environment after a step, as `pass1` computes it (cf. `steps_env`) -/
theorem step_env_frame (P : List Task) (st st' : State) (s : Stmt) (c : Option Nat) (im : Img)
    (hr : Rel st (P ++ st.tasks) c im) (hwf : s.wf = true)
    (hl : ∀ x n, (some x, Stmt.label n) ∈ trace c [s] → x < top) (h : step st s = .ok st') :
    ∀ r, pass1 c st.env (s :: r) = pass1 (next c s) st'.env r := by
  have hf := step_frame P st st' s h
  have hr' : Rel (withTasks (P ++ st.tasks) st) (withTasks (P ++ st.tasks) st).tasks c im := hr.congr rfl rfl
  obtain ⟨sh1, _, sh3⟩ := step_shape _ _ s ⟨hr'.core, hr'.tasks⟩ hf
  have hcs : st.active.isSome = true → ∃ x, c = some x := by
    intro hsome
    cases hact : st.active with
    | none => rw [hact] at hsome; cases hsome
    | some a => exact ⟨a.base + a.buf.length, by rw [← hr.cur]; simp only [pos, hact, Option.map_some]⟩
  intro r
  cases s with
  | addr a => simp only [withTasks] at sh3; simp only [pass1, next]; rw [sh3]
  | label n =>
    simp only [withTasks] at sh3
    obtain ⟨a, hact, hn, he⟩ := sh3
    have hc : c = some (a.base + a.buf.length) := by
      rw [← hr.cur]; simp only [pos, hact, Option.map_some]
    have hx : a.base + a.buf.length < top := hl _ n (by rw [hc]; exact List.mem_cons_self)
    rw [he, curr_eq a hx, hc]
    simp only [pass1, hn, if_pos hx, next]
  | const n d v =>
    simp only [withTasks] at sh3
    obtain ⟨hn, he⟩ := sh3
    rw [he]
    simp only [pass1, hn, next]
  | raw bs =>
    simp only [withTasks] at sh1 sh3
    obtain ⟨x, rfl⟩ := hcs sh1
    rw [sh3]; simp only [pass1, next, size, Option.map_some]
  | emit len deps final =>
    simp only [withTasks] at sh1 sh3
    obtain ⟨x, rfl⟩ := hcs sh1
    rw [sh3]; simp only [pass1, next, size, Option.map_some]
  | align n =>
    simp only [withTasks] at sh1 sh3
    obtain ⟨x, rfl⟩ := hcs sh1
    rw [sh3]; simp only [pass1, next, Option.map_some]

/-! ## flushing the queue of one file -/

/-- one pending task anywhere in the list is run: it leaves the list -/
theorem rewrite_rel (A B : List Task) (t : Task) (st st' : State) (c : Option Nat) (im : Img)
    (hr : Rel st (A ++ t :: B) c im) (h : rewrite st t.addr t.final = .ok st') :
    Rel st' (A ++ B) c im ∧ st'.env = st.env ∧ st'.tasks = st.tasks := by
  have hmem : t ∈ A ++ t :: B := by simp
  obtain ⟨st1, h1, hc1, he, ht, hp, hk, hv⟩ := rewrite_spec st t hr.core (hr.tasks t hmem)
  rw [h] at h1; cases h1
  have hsub : ∀ x ∈ A ++ B, x ∈ A ++ t :: B := by
    intro x hx
    simp only [List.mem_append, List.mem_cons] at hx ⊢
    rcases hx with hx | hx
    · exact .inl hx
    · exact .inr (.inr hx)
  have hin : ∀ x, t.addr ≤ x ∧ x < t.addr + t.len → view st' x = im.get x := by
    intro x hx
    rw [hv x, if_pos hx]
    have := hr.fin t hmem (x - t.addr) (by omega)
    rw [show t.addr + (x - t.addr) = x by omega] at this
    exact this.symm
  refine ⟨⟨hc1, fun x hx => hk x (hr.tasks x (hsub x hx)), hp.trans hr.cur, fun x => ?_, fun x hx => ?_,
    fun x hx => hr.fin x (hsub x hx)⟩, he, ht⟩
  · by_cases hx : t.addr ≤ x ∧ x < t.addr + t.len
    · rw [hin x hx]
    · rw [hv x, if_neg hx]; exact hr.dom x
  · by_cases hx' : t.addr ≤ x ∧ x < t.addr + t.len
    · exact hin x hx'
    · rw [hv x, if_neg hx']
      apply hr.agree
      intro t' ht'
      simp only [List.mem_append, List.mem_cons] at ht'
      rcases ht' with ht' | rfl | ht'
      · exact hx t' (List.mem_append_left _ ht')
      · exact hx'
      · exact hx t' (List.mem_append_right _ ht')

/-- the queue `Q` of an included file is run while the tasks `P` of the including files stay pending -/
theorem runTasks_rel_frame (P : List Task) : ∀ (Q : List Task) (st st' : State) (c : Option Nat) (im : Img),
    Rel st (P ++ Q) c im → runTasks st Q = .ok st' → Rel st' P c im ∧ st'.env = st.env ∧ st'.tasks = st.tasks := by
  intro Q
  induction Q with
  | nil =>
    intro st st' c im hr h
    simp only [runTasks] at h; cases h
    rw [List.append_nil] at hr
    exact ⟨hr, rfl, rfl⟩
  | cons t Q ih =>
    intro st st' c im hr h
    unfold runTasks at h
    split at h
    · cases hrw : rewrite st t.addr t.final with
      | error e => rw [hrw] at h; cases h
      | ok st1 =>
        rw [hrw] at h; simp only at h
        obtain ⟨r1, e1, t1⟩ := rewrite_rel P Q t st st1 c im hr hrw
        obtain ⟨r2, e2, t2⟩ := ih st1 st' c im r1 h
        exact ⟨r2, e2.trans e1, t2.trans t1⟩
    · cases h

/-! ## programs -/

/-- an execution of the layout core on a flattened multi-file program: statements, and complete included files whose
task queue is run when the file ends -/
inductive MRun : State → List Stmt → State → Prop
  | nil (l : State) : MRun l [] l
  | step {l l1 l' : State} {s : Stmt} {p : List Stmt} : step l s = .ok l1 → MRun l1 p l' → MRun l (s :: p) l'
  | file {l l1 l2 l' : State} {pc p : List Stmt} : MRun (withTasks [] l) pc l1 →
      runTasks (withTasks [] l1) l1.tasks = .ok l2 → MRun (withTasks l.tasks l2) p l' → MRun l (pc ++ p) l'

/-- no label of `p` (run from cursor `c`) stands at the cursor 2^32 -/
def NoTop (c : Option Nat) (p : List Stmt) : Prop := ∀ x n, (some x, Stmt.label n) ∈ trace c p → x < top

theorem mrun_rel {l l' : State} {p : List Stmt} (h : MRun l p l') : ∀ (P : List Task) (c : Option Nat) (im : Img),
    Rel l (P ++ l.tasks) c im → (∀ s ∈ p, s.wf = true) →
    ∃ im', (∀ r, pass2 c im (p ++ r) = pass2 (cursorAfter c p) im' r) ∧ Rel l' (P ++ l'.tasks) (cursorAfter c p) im' ∧
      (NoTop c p → ∀ r, pass1 c l.env (p ++ r) = pass1 (cursorAfter c p) l'.env r) := by
  induction h with
  | nil l => intro P c im hr _; exact ⟨im, fun r => rfl, hr, fun _ r => rfl⟩
  | @step l l1 l' s p hs _ ih =>
    intro P c im hr hwf
    obtain ⟨im1, e1, r1, _⟩ := step_rel_frame P l l1 s c im hr (hwf s List.mem_cons_self) hs
    obtain ⟨im2, e2, r2, e3⟩ := ih P (next c s) im1 r1 (fun x hx => hwf x (List.mem_cons_of_mem _ hx))
    refine ⟨im2, fun r => ?_, r2, fun hl r => ?_⟩
    · simp only [List.cons_append, cursorAfter]; rw [e1, e2]
    · simp only [List.cons_append, cursorAfter]
      rw [step_env_frame P l l1 s c im hr (hwf s List.mem_cons_self)
        (fun x n hx => hl x n (by simp only [trace, List.mem_cons, List.not_mem_nil, or_false] at hx ⊢; exact .inl hx)) hs]
      exact e3 (fun x n hx => hl x n (List.mem_cons_of_mem _ hx)) r
  | @file l l1 l2 l' pc p _ hrun _ ih1 ih2 =>
    intro P c im hr hwf
    have hr0 : Rel (withTasks [] l) ((P ++ l.tasks) ++ (withTasks [] l).tasks) c im := by
      simp only [withTasks, List.append_nil]; exact hr.congr rfl rfl
    obtain ⟨im1, e1, r1, n1⟩ := ih1 (P ++ l.tasks) c im hr0 (fun x hx => hwf x (List.mem_append_left _ hx))
    have r1' : Rel (withTasks [] l1) ((P ++ l.tasks) ++ l1.tasks) (cursorAfter c pc) im1 := r1.congr rfl rfl
    obtain ⟨r2, he2, _⟩ := runTasks_rel_frame (P ++ l.tasks) l1.tasks _ l2 _ im1 r1' hrun
    have r2' : Rel (withTasks l.tasks l2) (P ++ (withTasks l.tasks l2).tasks) (cursorAfter c pc) im1 := r2.congr rfl rfl
    obtain ⟨im2, e2, r3, n2⟩ := ih2 P (cursorAfter c pc) im1 r2' (fun x hx => hwf x (List.mem_append_right _ hx))
    refine ⟨im2, fun r => ?_, by rw [cursorAfter_append]; exact r3, fun hl r => ?_⟩
    · rw [List.append_assoc, e1, e2, cursorAfter_append]
    · have hl1 : NoTop c pc := fun x n hx => hl x n (by rw [trace_append]; exact List.mem_append_left _ hx)
      have hl2 : NoTop (cursorAfter c pc) p := fun x n hx => hl x n (by rw [trace_append]; exact List.mem_append_right _ hx)
      rw [List.append_assoc, cursorAfter_append]
      have := n1 hl1 (p ++ r)
      simp only [withTasks] at this
      rw [this]
      have e : l1.env = (withTasks l.tasks l2).env := by simp only [withTasks]; exact he2.symm
      rw [e]
      exact n2 hl2 r

/-- the symbol a statement defines -/
def defines : Stmt → Option Nat
  | .label n => some n
  | .const n _ _ => some n
  | _ => none

theorem closeSeg_env (st st' : State) (h : closeSeg st = .ok st') : st'.env = st.env := by
  obtain ⟨c, a, e, t⟩ := st
  unfold closeSeg at h
  cases a <;> simp only at h
  · cases h; rfl
  · split at h
    · cases h; rfl
    · cases h

theorem openAt_env (st st' : State) (a : Nat) (h : changeSeg.openAt st a = .ok st') : st'.env = st.env := by
  obtain ⟨c, ac, e, t⟩ := st
  unfold changeSeg.openAt at h
  simp only at h
  repeat' split at h
  all_goals first | (cases h; rfl) | cases h

theorem changeSeg_env (st st' : State) (a : Nat) (h : changeSeg st a = .ok st') : st'.env = st.env := by
  unfold changeSeg at h
  split at h
  · cases h
  · cases hact : st.active with
    | none => rw [hact] at h; exact openAt_env _ _ _ h
    | some s =>
      rw [hact] at h; simp only at h
      split at h
      · cases h; rfl
      · cases hcl : closeSeg st with
        | error e => rw [hcl] at h; cases h
        | ok st1 =>
          rw [hcl] at h; simp only at h
          rw [openAt_env _ _ _ h, closeSeg_env _ _ hcl]

theorem rewrite_env (st st' : State) (addr : Nat) (bs : Bytes) (h : rewrite st addr bs = .ok st') : st'.env = st.env := by
  obtain ⟨c, a, e, t⟩ := st
  simp only [rewrite] at h
  repeat' split at h
  all_goals first | (cases h; rfl) | cases h

theorem runTasks_env : ∀ (Q : List Task) (st st' : State), runTasks st Q = .ok st' → st'.env = st.env := by
  intro Q
  induction Q with
  | nil => intro st st' h; simp only [runTasks] at h; cases h; rfl
  | cons t Q ih =>
    intro st st' h
    unfold runTasks at h
    split at h
    · cases hrw : rewrite st t.addr t.final with
      | error e => rw [hrw] at h; cases h
      | ok st1 =>
        rw [hrw] at h; simp only at h
        rw [ih st1 st' h, rewrite_env _ _ _ _ hrw]
    · cases h

theorem step_env_raw (st st' : State) (s : Stmt) (h : step st s = .ok st') (k : Nat) (hk : defines s ≠ some k) :
    st'.env.get k = st.env.get k := by
  have hic : ∀ n v, insertConst st n v = .ok st' → n ≠ k → st'.env.get k = st.env.get k := by
    intro n v hi hne
    obtain ⟨_, rfl⟩ := insertConst_ok _ _ _ _ hi
    simp only [env_get_cons, if_neg hne]
  have happ : ∀ bs st1, append st bs = .ok st1 → st1.env = st.env := by
    intro bs st1 hb
    obtain ⟨_, _, _, rfl⟩ := append_ok st st1 bs hb; rfl
  cases s with
  | addr a => simp only [step] at h; rw [changeSeg_env _ _ _ h]
  | label n =>
    simp only [step] at h
    split at h
    · cases h
    · exact hic _ _ h (fun e => hk (by rw [e]; rfl))
  | const n d v =>
    simp only [step] at h
    split at h
    · exact hic _ _ h (fun e => hk (by rw [e]; rfl))
    · cases h
  | raw bs => simp only [step] at h; rw [happ _ _ h]
  | align n =>
    rw [step_align] at h
    repeat' split at h
    all_goals first | (cases h; done) | (cases h; rfl) | (rw [happ _ _ h])
  | emit len d f =>
    simp only [step] at h
    split at h
    · cases h
    · split at h
      · rw [happ _ _ h]
      · split at h
        · cases h
        · rename_i st1 ha
          cases h
          have := happ _ _ ha
          show st1.env.get k = st.env.get k
          rw [this]

theorem mrun_env_raw {l l' : State} {p : List Stmt} (h : MRun l p l') (k : Nat)
    (hk : ∀ s ∈ p, defines s ≠ some k) : l'.env.get k = l.env.get k := by
  induction h with
  | nil l => rfl
  | @step l l1 l' s p hs _ ih =>
    rw [ih (fun x hx => hk x (List.mem_cons_of_mem _ hx)), step_env_raw l l1 s hs k (hk s List.mem_cons_self)]
  | @file l l1 l2 l' pc p _ hrun _ ih1 ih2 =>
    rw [ih2 (fun x hx => hk x (List.mem_append_right _ hx))]
    have e1 := ih1 (fun x hx => hk x (List.mem_append_left _ hx))
    have e2 := runTasks_env _ _ _ hrun
    simp only [withTasks] at e1 e2 ⊢
    rw [e2, e1]

/-- `mrun_rel` with the two facts the placement of single statements needs: the reference image only grows, and every
emitting statement of the flattened program stands with its reference bytes at its reference address -/
theorem mrun_placed {l l' : State} {p : List Stmt} (h : MRun l p l') : ∀ (P : List Task) (c : Option Nat) (im : Img),
    Rel l (P ++ l.tasks) c im → (∀ s ∈ p, s.wf = true) →
    ∃ im', (∀ r, pass2 c im (p ++ r) = pass2 (cursorAfter c p) im' r) ∧ Rel l' (P ++ l'.tasks) (cursorAfter c p) im' ∧
      (∀ a, (im.get a).isSome = true → im'.get a = im.get a) ∧
      (∀ q s r, p = q ++ s :: r → s.emits = true →
        ∃ x, cursorAfter c q = some x ∧ ∀ i, i < (bytes x s).length → im'.get (x + i) = (bytes x s)[i]?) := by
  induction h with
  | nil l =>
    intro P c im hr _
    exact ⟨im, fun r => rfl, hr, fun _ _ => rfl, fun q s r hp _ => by cases q <;> cases hp⟩
  | @step l l1 l' s0 p hs _ ih =>
    intro P c im hr hwf
    obtain ⟨im1, e1, r1, m1⟩ := step_rel_frame P l l1 s0 c im hr (hwf s0 List.mem_cons_self) hs
    obtain ⟨im2, e2, r2, m2, pl2⟩ := ih P (next c s0) im1 r1 (fun x hx => hwf x (List.mem_cons_of_mem _ hx))
    refine ⟨im2, fun r => ?_, r2, fun a ha => ?_, fun q s r hp hse => ?_⟩
    · simp only [List.cons_append, cursorAfter]; rw [e1, e2]
    · have h1 := m1 a ha
      rw [m2 a (by rw [h1]; exact ha), h1]
    · cases q with
      | nil =>
        simp only [List.nil_append, List.cons.injEq] at hp
        obtain ⟨rfl, rfl⟩ := hp
        have e0 := e1 []
        cases c with
        | none =>
          exfalso
          cases s0 <;> first | (simp [pass2] at e0; done) | cases hse
        | some x =>
          have him1 : im1 = im.put x (bytes x s0) := by
            cases s0 with
            | raw bs => exact (Option.some.inj e0).symm
            | emit len deps final => exact (Option.some.inj e0).symm
            | align n => exact (Option.some.inj e0).symm
            | addr a => cases hse
            | label n => cases hse
            | const n d v => cases hse
          refine ⟨x, rfl, fun i hi => ?_⟩
          have h2 : im1.get (x + i) = (bytes x s0)[i]? := by
            rw [him1, get_put_inside _ _ _ _ (by omega) (by omega)]
            congr 1; omega
          rw [m2 (x + i) (by rw [h2, isSome_getElem?]; simpa using hi), h2]
      | cons s1 q =>
        simp only [List.cons_append, List.cons.injEq] at hp
        obtain ⟨rfl, hp⟩ := hp
        exact pl2 q s r hp hse
  | @file l l1 l2 l' pc p _ hrun _ ih1 ih2 =>
    intro P c im hr hwf
    have hr0 : Rel (withTasks [] l) ((P ++ l.tasks) ++ (withTasks [] l).tasks) c im := by
      simp only [withTasks, List.append_nil]; exact hr.congr rfl rfl
    obtain ⟨im1, e1, r1, m1, pl1⟩ := ih1 (P ++ l.tasks) c im hr0 (fun x hx => hwf x (List.mem_append_left _ hx))
    have r1' : Rel (withTasks [] l1) ((P ++ l.tasks) ++ l1.tasks) (cursorAfter c pc) im1 := r1.congr rfl rfl
    obtain ⟨r2, _, _⟩ := runTasks_rel_frame (P ++ l.tasks) l1.tasks _ l2 _ im1 r1' hrun
    have r2' : Rel (withTasks l.tasks l2) (P ++ (withTasks l.tasks l2).tasks) (cursorAfter c pc) im1 := r2.congr rfl rfl
    obtain ⟨im2, e2, r3, m2, pl2⟩ := ih2 P (cursorAfter c pc) im1 r2' (fun x hx => hwf x (List.mem_append_right _ hx))
    refine ⟨im2, fun r => ?_, by rw [cursorAfter_append]; exact r3, fun a ha => ?_, fun q s r hp hse => ?_⟩
    · rw [List.append_assoc, e1, e2, cursorAfter_append]
    · have h1 := m1 a ha
      rw [m2 a (by rw [h1]; exact ha), h1]
    · rcases List.append_eq_append_iff.mp hp with ⟨a', rfl, hp'⟩ | ⟨c', hpc, hsr⟩
      · -- the statement lies behind the included file
        obtain ⟨x, hx, hb⟩ := pl2 a' s r hp' hse
        exact ⟨x, by rw [cursorAfter_append]; exact hx, hb⟩
      · cases c' with
        | nil =>
          simp only [List.append_nil] at hpc
          simp only [List.nil_append] at hsr
          subst hpc
          obtain ⟨x, hx, hb⟩ := pl2 [] s r hsr.symm hse
          exact ⟨x, hx, hb⟩
        | cons s1 c'' =>
          simp only [List.cons_append, List.cons.injEq] at hsr
          obtain ⟨rfl, _⟩ := hsr
          obtain ⟨x, hx, hb⟩ := pl1 q s c'' hpc hse
          refine ⟨x, hx, fun i hi => ?_⟩
          have h2 := hb i hi
          rw [m2 (x + i) (by rw [h2, isSome_getElem?]; simpa using hi), h2]

end Trion.Layout
