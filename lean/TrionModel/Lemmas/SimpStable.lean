import TrionModel.Lemmas.SimpRetry
/-!
# The exact condition under which the retry is the fresh evaluation, tree for tree

The first attempt over `lk₁` stops at an unknown name; on the way it has COMPLETED some sub-trees `l ↦ l'` (the left
operands of the binary nodes — and the earlier list elements — on the path to the stop) and written their values `l'`
into the tree.  The retry over `lk₂ ⊇ lk₁` evaluates these `l'` once more; the fresh evaluation computes `l'` from `l`
and goes on.  So the two agree as soon as every such `l'` is a FIXED POINT of `evaluate` (`StableAt`).

`LeftStable lk₁ lk₂ isReg a` says exactly this (a decidable condition on the statement and the two tables: run
`evaluate` on the completed values), `leftStable_resumes` is the retry theorem under it, and `plain_leftStable` shows
that it generalises the syntactic class `plain` of Lemmas/SimpRetry.lean.  Since `evaluate` is idempotent (Lemmas/SimpNF.lean) the condition holds
for every tree (Lemmas/SimpStableAll.lean); before the repairs of K4/K5 it did not (`-(l - r)` was a completed value and not a
fixed point).
-/
namespace Trion.Simp
open Trion

/-- `a` is a fixed point of `evaluate` over `lk` -/
def StableAt (lk : Bytes → Lookup) (isReg : Bytes → Bool) (a : Arg) : Prop :=
  ∃ ev, evaluateE lk isReg a = .ok ev a ∧ ev.cause = none

mutual
/-- every value the first attempt (over `lk₁`) completes to the left of its stop is a fixed point of `evaluate`
over `lk₂` -/
def LeftStable (lk₁ lk₂ : Bytes → Lookup) (isReg : Bytes → Bool) : Arg → Prop
  | .bin _ l r => LeftStable lk₁ lk₂ isReg l ∧ LeftStable lk₁ lk₂ isReg r ∧
      ∀ e l' n r₁, evaluateE lk₁ isReg l = .ok e l' → evaluateE lk₁ isReg r = .nosuch n r₁ → StableAt lk₂ isReg l'
  | .neg a => LeftStable lk₁ lk₂ isReg a
  | .not a => LeftStable lk₁ lk₂ isReg a
  | .addr a => LeftStable lk₁ lk₂ isReg a
  | .seq as => LeftStableArgs lk₁ lk₂ isReg as
  | .func _ as => LeftStableArgs lk₁ lk₂ isReg as
  | _ => True
def LeftStableArgs (lk₁ lk₂ : Bytes → Lookup) (isReg : Bytes → Bool) : Args → Prop
  | .nil => True
  | .cons a as => LeftStable lk₁ lk₂ isReg a ∧ LeftStableArgs lk₁ lk₂ isReg as ∧
      ∀ e a' n as₁, evaluateE lk₁ isReg a = .ok e a' → evaluateArgsE lk₁ isReg as = .nosuch n as₁ →
        StableAt lk₂ isReg a'
end

section
variable {lk₂ : Bytes → Lookup} {isReg : Bytes → Bool}

theorem resume_right' (op : BinOp) {l l' r r₁ : Arg} {e1 : Ev} (hl : evaluateE lk₂ isReg l = .ok e1 l')
    (hc : e1.cause = none) (hst : StableAt lk₂ isReg l')
    (hr : (evaluateE lk₂ isReg r₁).forget = (evaluateE lk₂ isReg r).forget) :
    (evaluateE lk₂ isReg (.bin op l' r₁)).forget = (evaluateE lk₂ isReg (.bin op l r)).forget := by
  obtain ⟨es, hst, hsc⟩ := hst
  simp only [evaluateE, hst, hl]
  rcases forget_eq_cases hr with ⟨e₁, e₂, x, h1, h2, hcc⟩ | ⟨hne, heq⟩
  · rw [h1, h2]
    exact afterRawE_forget _ _ _ (by simp [Ev.or, hcc, hc, hsc])
  · rw [← heq]
    cases h : evaluateE lk₂ isReg r₁ with
    | ok e a => exact absurd h (hne _ _)
    | nosuch n a => rfl
    | err e a => rfl
    | panic => rfl

theorem resume_cons_right' {a a' : Arg} {as as₁ : Args} {e1 : Ev} (hl : evaluateE lk₂ isReg a = .ok e1 a')
    (hc : e1.cause = none) (hst : StableAt lk₂ isReg a')
    (hr : (evaluateArgsE lk₂ isReg as₁).forget = (evaluateArgsE lk₂ isReg as).forget) :
    (evaluateArgsE lk₂ isReg (.cons a' as₁)).forget = (evaluateArgsE lk₂ isReg (.cons a as)).forget := by
  obtain ⟨es, hst, hsc⟩ := hst
  simp only [evaluateArgsE, hst, hl]
  rcases forget_eq_cases hr with ⟨e₁, e₂, x, h1, h2, hcc⟩ | ⟨hne, heq⟩
  · rw [h1, h2]
    simp [EvE.forget, Ev.or, hcc, hc, hsc]
  · rw [← heq]
    cases h : evaluateArgsE lk₂ isReg as₁ with
    | ok e a => exact absurd h (hne _ _)
    | nosuch n a => rfl
    | err e a => rfl
    | panic => rfl

end

/-- **the retry theorem under the exact condition**: if every value completed before the stop is a fixed point of
`evaluate`, evaluating the tree the stopped attempt left behind over `lk₂` is (up to the `changed` flag) evaluating
the original tree over `lk₂` -/
theorem leftStable_resumes_both (lk₁ lk₂ : Bytes → Lookup) (isReg : Bytes → Bool) (hs : Sub lk₁ lk₂) (hn : NoDef lk₁) :
    (∀ a, LeftStable lk₁ lk₂ isReg a → Resumes lk₁ lk₂ isReg a) ∧
    (∀ as, LeftStableArgs lk₁ lk₂ isReg as → ∀ n as₁, evaluateArgsE lk₁ isReg as = .nosuch n as₁ →
      (evaluateArgsE lk₂ isReg as₁).forget = (evaluateArgsE lk₂ isReg as).forget) := by
  apply Arg.ind2
  case const => intro v _ n a₁ h; simp [evaluateE] at h
  case ident =>
    intro s _ n a₁ h
    simp only [evaluateE] at h
    split at h
    · cases h
    · cases hl : lk₁ s with
      | notFound => rw [hl] at h; cases h; rfl
      | deferred => rw [hl] at h; cases h
      | found v => rw [hl] at h; cases h
  case str => intro v _ n a₁ h; simp [evaluateE] at h
  case bin =>
    intro op l r ihl ihr ha n a₁ h
    simp only [LeftStable] at ha
    obtain ⟨hpl, hpr, hst⟩ := ha
    simp only [evaluateE] at h
    cases h1 : evaluateE lk₁ isReg l with
    | ok e1 l' =>
      rw [h1] at h
      cases h2 : evaluateE lk₁ isReg r with
      | ok e2 r' =>
        rw [h2] at h
        simp only [afterRawE] at h
        split at h <;> cases h
      | nosuch m r₁ =>
        rw [h2] at h; cases h
        exact resume_right' op (evaluateE_mono hs hn h1) (evaluateE_cause_none hn h1) (hst _ _ _ _ h1 h2)
          (ihr hpr _ _ h2)
      | err e t => rw [h2] at h; cases h
      | panic => rw [h2] at h; cases h
    | nosuch m l₁ => rw [h1] at h; cases h; exact resume_left op (ihl hpl _ _ h1)
    | err e t => rw [h1] at h; cases h
    | panic => rw [h1] at h; cases h
  case neg =>
    intro v ih ha n a₁ h
    simp only [LeftStable] at ha
    simp only [evaluateE] at h
    cases h1 : evaluateE lk₁ isReg v with
    | ok e1 l' => rw [h1] at h; simp only [afterRawE] at h; split at h <;> cases h
    | nosuch m v₁ => rw [h1] at h; cases h; exact resume_neg (ih ha _ _ h1)
    | err e t => rw [h1] at h; cases h
    | panic => rw [h1] at h; cases h
  case not =>
    intro v ih ha n a₁ h
    simp only [LeftStable] at ha
    simp only [evaluateE] at h
    cases h1 : evaluateE lk₁ isReg v with
    | ok e1 l' => rw [h1] at h; simp only [afterRawE] at h; split at h <;> cases h
    | nosuch m v₁ => rw [h1] at h; cases h; exact resume_not (ih ha _ _ h1)
    | err e t => rw [h1] at h; cases h
    | panic => rw [h1] at h; cases h
  case addr =>
    intro v ih ha n a₁ h
    simp only [LeftStable] at ha
    simp only [evaluateE] at h
    cases h1 : evaluateE lk₁ isReg v with
    | ok e1 l' => rw [h1] at h; simp only [afterRawE] at h; split at h <;> cases h
    | nosuch m v₁ => rw [h1] at h; cases h; exact resume_addr (ih ha _ _ h1)
    | err e t => rw [h1] at h; cases h
    | panic => rw [h1] at h; cases h
  case seq =>
    intro as ih ha n a₁ h
    simp only [LeftStable] at ha
    simp only [evaluateE] at h
    cases h1 : evaluateArgsE lk₁ isReg as with
    | ok e1 l' => rw [h1] at h; cases h
    | nosuch m as₁ => rw [h1] at h; cases h; exact resume_seq (ih ha _ _ h1)
    | err e t => rw [h1] at h; cases h
    | panic => rw [h1] at h; cases h
  case func =>
    intro f as ih ha n a₁ h
    simp only [LeftStable] at ha
    simp only [evaluateE] at h
    cases h1 : evaluateArgsE lk₁ isReg as with
    | ok e1 l' => rw [h1] at h; cases h
    | nosuch m as₁ => rw [h1] at h; cases h; exact resume_func f (ih ha _ _ h1)
    | err e t => rw [h1] at h; cases h
    | panic => rw [h1] at h; cases h
  case nil => intro _ n as₁ h; simp [evaluateArgsE] at h
  case cons =>
    intro a as iha ihas ha n as₁ h
    simp only [LeftStableArgs] at ha
    obtain ⟨hpa, hpas, hst⟩ := ha
    simp only [evaluateArgsE] at h
    cases h1 : evaluateE lk₁ isReg a with
    | ok e1 a' =>
      rw [h1] at h
      cases h2 : evaluateArgsE lk₁ isReg as with
      | ok e2 r' => rw [h2] at h; cases h
      | nosuch m r₁ =>
        rw [h2] at h; cases h
        exact resume_cons_right' (evaluateE_mono hs hn h1) (evaluateE_cause_none hn h1) (hst _ _ _ _ h1 h2)
          (ihas hpas _ _ h2)
      | err e t => rw [h2] at h; cases h
      | panic => rw [h2] at h; cases h
    | nosuch m a₁ => rw [h1] at h; cases h; exact resume_cons_left (iha hpa _ _ h1)
    | err e t => rw [h1] at h; cases h
    | panic => rw [h1] at h; cases h

theorem leftStable_resumes {lk₁ lk₂ : Bytes → Lookup} {isReg : Bytes → Bool} (hs : Sub lk₁ lk₂) (hn : NoDef lk₁) {a : Arg}
    (ha : LeftStable lk₁ lk₂ isReg a) : Resumes lk₁ lk₂ isReg a := (leftStable_resumes_both lk₁ lk₂ isReg hs hn).1 a ha

/-- the syntactic class `plain` is an instance of the exact condition -/
theorem plain_leftStable_both (lk₁ lk₂ : Bytes → Lookup) (isReg : Bytes → Bool) (hn : NoDef lk₁) :
    (∀ a, plain isReg a = true → LeftStable lk₁ lk₂ isReg a) ∧
    (∀ as, plainArgs isReg as = true → LeftStableArgs lk₁ lk₂ isReg as) := by
  apply Arg.ind2
  case const => intro v _; simp [LeftStable]
  case ident => intro v _; simp [LeftStable]
  case str => intro v _; simp [LeftStable]
  case bin =>
    intro op l r ihl ihr ha
    simp only [plain, Bool.and_eq_true, Bool.or_eq_true] at ha
    obtain ⟨⟨hpl, hpr⟩, hlq⟩ := ha
    simp only [LeftStable]
    refine ⟨ihl hpl, ihr hpr, fun e l' n r₁ h1 h2 => ?_⟩
    rcases hlq with hl | hq
    · exact ⟨_, leafy_stable lk₁ isReg hn l hl _ _ h1 lk₂, rfl⟩
    · exact absurd h2 (quiet_no_stop lk₁ isReg r hq _ _)
  case neg => intro v ih ha; simp only [plain] at ha; simp only [LeftStable]; exact ih ha
  case not => intro v ih ha; simp only [plain] at ha; simp only [LeftStable]; exact ih ha
  case addr => intro v ih ha; simp only [plain] at ha; simp only [LeftStable]; exact ih ha
  case seq => intro as ih ha; simp only [plain] at ha; simp only [LeftStable]; exact ih ha
  case func => intro f as ih ha; simp only [plain] at ha; simp only [LeftStable]; exact ih ha
  case nil => intro _; simp [LeftStableArgs]
  case cons =>
    intro a as iha ihas ha
    simp only [plainArgs, Bool.and_eq_true] at ha
    obtain ⟨⟨hpa, hla⟩, hpas⟩ := ha
    simp only [LeftStableArgs]
    exact ⟨iha hpa, ihas hpas, fun e a' n as₁ h1 _ => ⟨_, leafy_stable lk₁ isReg hn a hla _ _ h1 lk₂, rfl⟩⟩

theorem plain_leftStable {lk₁ : Bytes → Lookup} (lk₂ : Bytes → Lookup) {isReg : Bytes → Bool} (hn : NoDef lk₁) {a : Arg}
    (ha : plain isReg a = true) : LeftStable lk₁ lk₂ isReg a := (plain_leftStable_both lk₁ lk₂ isReg hn).1 a ha

end Trion.Simp
