import TrionModel.Model.Front
import TrionModel.Model.Simp
import TrionModel.Spec.Front
/-!
# What an instruction statement MEANS (Layer A specification for C04, import-free)

Written from the property text, independent of how `ArmInstr::assemble` is organised (no getters, no
`args_done`, no evaluator, no stores into a template):

* `value T e` — an integer operand is a *constant expression*: integer literals, names of constants/labels
  (looked up in the symbol table `T`), the ten binary operators, unary `-` and `!`; its value is computed by
  exact integer arithmetic with the signed-64-bit overflow rule (`Simp.valC`, tied to the arithmetic
  specification `Arith.eval` by C07): no value as soon as a literal, a looked-up value or an intermediate
  result leaves `[-2^63, 2^63)`, a divisor is zero, or a shift count is outside `0..63`.  A register name has
  no value.
* `denote T k a` — what the operand tree `a` means in an operand slot of kind `k`:
  a register by name in any letter case with the aliases `SP`/`LR`/`PC` (`Front.names`, C04.b), a system
  register by name, an option name (kept as written), a register list `{…}`, an integer, a register-or-integer,
  and a memory operand `[Rn]`, `[Rn + Rm]`, `[Rn + e]`, `[e + Rn]`.
* `sig t` — the operand slots of a mnemonic (given by its template `t`, `Front.mnemonic`).
* `meaning A t vs` — the instruction the mnemonic denotes at address `A` with operand values `vs`:
  PC-relative operands are `target − (A + 4)`, for `ADR` and literal `LDR` `target − (align4 A + 4)`; a target
  must be an address (`0 … 2^32 − 1`).
* `means T A name args` — all of it: mnemonic lookup, operand count, operand meanings, instruction.
* `Encodable i` — the ARMv6-M table has an encoding of exactly `i` (is stated with `Arm.decode` in Props).

Everything here is executable (`example`s in `Props/C04Closed.lean`).
-/
namespace Trion.C04
open Trion Trion.Front

/-- the symbol table: value of every defined constant / label -/
abbrev SymTable := Bytes → Option Int

/-- a register name (of either register file) is never a constant -/
def env (T : SymTable) : Simp.Env := fun s => if isRegister s then none else T s

/-- value of a constant expression: exact arithmetic, signed-64-bit overflow rule -/
def value (T : SymTable) (e : Arg) : Option Int := Simp.valC (env T) e

/-- `x` is (syntactically) a register-free arithmetic expression -/
def expr : Arg → Bool
  | .const _ => true
  | .ident s => !isRegister s
  | .bin _ l r => expr l && expr r
  | .neg a => expr a
  | .not a => expr a
  | _ => false

/-- the tree is the name of a register (general purpose or system) -/
def regIdent : Arg → Bool
  | .ident s => isRegister s
  | _ => false

/-- meaning of what stands between `[` and `]` -/
def mem (T : SymTable) : Arg → Option (Reg × ImmReg)
  | .ident b => (regl b).map fun r => (r, .imm 0)                               -- [Rn]
  | .bin .add (.ident b) (.ident o) =>
    if isRegister b then
      if isRegister o then                                                        -- [Rn + Rm]
        match regl b, regl o with
        | some rb, some ro => some (rb, .reg ro)
        | _, _ => none
      else match regl b, value T (.ident o) with                                  -- [Rn + name]
        | some rb, some v => some (rb, .imm v)
        | _, _ => none
    else if isRegister o then
      match value T (.ident b), regl o with                                       -- [name + Rn]
      | some v, some ro => some (ro, .imm v)
      | _, _ => none
    else none
  | .bin .add (.ident b) e =>                                                     -- [Rn + e]
    if isRegister b then
      match regl b, value T e with
      | some rb, some v => some (rb, .imm v)
      | _, _ => none
    else none
  | .bin .add e (.ident b) =>                                                     -- [e + Rn]
    if isRegister b then
      match value T e, regl b with
      | some v, some rb => some (rb, .imm v)
      | _, _ => none
    else none
  | _ => none

/-- the set `{items}`: start from `acc`, add every item — each must be a register name — with `RegisterSet::add`
(`Front.addBit`: a register listed twice counts once) -/
def regList : List Arg → RegSet → Option RegSet
  | [], acc => some acc
  | .ident s :: rest, acc =>
    match regl s with
    | some r => regList rest (addBit acc r)
    | none => none
  | _ :: _, _ => none

/-- the value of an operand: the same type the front end's getters produce (`Front.Val`), read as
`imm`/`off` = integer, `reg`, `sys`, `ident` = option name, `immReg` = register-or-integer, `regSet`,
`address base (some offset)` -/
abbrev OperandValue := Front.Val

/-- what operand tree `a` means in a slot of kind `k` -/
def denote (T : SymTable) (k : Kind) (a : Arg) : Option OperandValue :=
  match k with
  | .register => match a with | .ident s => (regl s).map .reg | _ => none
  | .systemReg => match a with | .ident s => (sysl s).map .sys | _ => none
  | .identifier => match a with | .ident s => some (.ident s) | _ => none
  | .regSet => match a with | .seq items => (regList items.toList 0).map .regSet | _ => none
  | .immediate => (value T a).map .imm
  | .offset => (value T a).map .off
  | .immReg =>
    match a with
    | .ident s => if isRegister s then (regl s).map fun r => .immReg (.reg r) else (value T a).map fun v => .immReg (.imm v)
    | _ => (value T a).map fun v => .immReg (.imm v)
  | .address => match a with | .addr x => (mem T x).map fun p => .address p.1 (some p.2) | _ => none
  | .addrOffset =>
    match a with
    | .addr x => (mem T x).map fun p => .address p.1 (some p.2)
    | _ => (value T a).map .off

/-- the operand slots of a mnemonic (by its template) -/
def sig : Instr → List Kind
  | .adc .. | .and .. | .bic .. | .cmn .. | .eor .. | .mul .. | .mvn .. | .orr .. | .rev .. | .rev16 ..
  | .revsh .. | .ror .. | .sbc .. | .sxtb .. | .sxth .. | .tst .. | .uxtb .. | .uxth .. => [.register, .register]
  | .add .. | .sub .. | .asr .. | .lsl .. | .lsr .. => [.register, .register, .immReg]
  | .adr .. => [.register, .offset]
  | .b .. | .bl .. | .bkpt .. => [.offset]
  | .blx .. | .bx .. => [.register]
  | .cmp .. | .mov .. => [.register, .immReg]
  | .cps .. | .dmb | .dsb | .isb => [.identifier]
  | .ldm .. | .stm .. => [.register, .regSet]
  | .ldr .. => [.register, .addrOffset]
  | .ldrb .. | .ldrh .. | .ldrsb .. | .ldrsh .. | .str .. | .strb .. | .strh .. => [.register, .address]
  | .mrs .. => [.register, .systemReg]
  | .msr .. => [.systemReg, .register]
  | .nop | .sev | .wfe | .wfi | .yield => []
  | .pop .. | .push .. => [.regSet]
  | .rsb .. => [.register, .register, .immediate]
  | .svc .. | .udf .. | .udfw .. => [.immediate]

/-- the operands one by one; `none` when the counts differ or an operand has no meaning in its slot -/
def denoteAll (T : SymTable) : List Kind → List Arg → Option (List OperandValue)
  | [], [] => some []
  | k :: ks, a :: as =>
    match denote T k a, denoteAll T ks as with
    | some v, some vs => some (v :: vs)
    | _, _ => none
  | _, _ => none

/-- the PC value an instruction at `A` sees -/
def pc (A : Nat) : Int := (A : Int) + 4
/-- … word-aligned first (`ADR`, literal `LDR`) -/
def pcAligned (A : Nat) : Int := (A / 4 * 4 : Nat) + 4

/-- a branch / literal target is an address -/
def isAddress (t : Int) : Prop := 0 ≤ t ∧ t ≤ 4294967295
instance (t : Int) : Decidable (isAddress t) := by unfold isAddress; infer_instance

/-- the only barrier option of ARMv6-M -/
def isSY (s : Bytes) : Prop := upper s = bytesOf "SY"
instance (s : Bytes) : Decidable (isSY s) := by unfold isSY; infer_instance

/-- the instruction a mnemonic (template `t`: the mnemonic fixes the constructor, the flags bit, the condition,
the enable bit) denotes at address `A` with operand values `vs` -/
def meaning (A : Nat) : Instr → List OperandValue → Option Instr
  | .adc .., [.reg d, .reg r] => some (.adc d r)
  | .add f .., [.reg d, .reg l, .immReg x] => some (.add f d l x)
  | .adr .., [.reg d, .off t] => if isAddress t then some (.adr d (t - pcAligned A)) else none
  | .and .., [.reg d, .reg r] => some (.and d r)
  | .asr .., [.reg d, .reg l, .immReg x] => some (.asr d l x)
  | .b c _, [.off t] => if isAddress t then some (.b c (t - pc A)) else none
  | .bic .., [.reg d, .reg r] => some (.bic d r)
  | .bkpt _, [.off v] => some (.bkpt v)
  | .bl _, [.off t] => if isAddress t then some (.bl (t - pc A)) else none
  | .blx _, [.reg r] => some (.blx r)
  | .bx _, [.reg r] => some (.bx r)
  | .cmn .., [.reg d, .reg r] => some (.cmn d r)
  | .cmp .., [.reg d, .immReg x] => some (.cmp d x)
  | .cps e, [.ident o] => if upper o = bytesOf "I" then some (.cps e) else none
  | .dmb, [.ident o] => if isSY o then some .dmb else none
  | .dsb, [.ident o] => if isSY o then some .dsb else none
  | .eor .., [.reg d, .reg r] => some (.eor d r)
  | .isb, [.ident o] => if isSY o then some .isb else none
  | .ldm .., [.reg a, .regSet rs] => some (.ldm a rs)
  | .ldr .., [.reg d, .address a (some o)] => some (.ldr d a o)
  | .ldr .., [.reg d, .off t] => if isAddress t then some (.ldr d Reg.pc (.imm (t - pcAligned A))) else none
  | .ldrb .., [.reg d, .address a (some o)] => some (.ldrb d a o)
  | .ldrh .., [.reg d, .address a (some o)] => some (.ldrh d a o)
  | .ldrsb .., [.reg d, .address a (some (.reg r))] => some (.ldrsb d a r)
  | .ldrsh .., [.reg d, .address a (some (.reg r))] => some (.ldrsh d a r)
  | .lsl .., [.reg d, .reg l, .immReg x] => some (.lsl d l x)
  | .lsr .., [.reg d, .reg l, .immReg x] => some (.lsr d l x)
  | .mov f .., [.reg d, .immReg x] => some (.mov f d x)
  | .mrs .., [.reg d, .sys s] => some (.mrs d s)
  | .msr .., [.sys s, .reg r] => some (.msr s r)
  | .mul .., [.reg d, .reg r] => some (.mul d r)
  | .mvn .., [.reg d, .reg r] => some (.mvn d r)
  | .nop, [] => some .nop
  | .orr .., [.reg d, .reg r] => some (.orr d r)
  | .pop _, [.regSet rs] => some (.pop rs)
  | .push _, [.regSet rs] => some (.push rs)
  | .rev .., [.reg d, .reg r] => some (.rev d r)
  | .rev16 .., [.reg d, .reg r] => some (.rev16 d r)
  | .revsh .., [.reg d, .reg r] => some (.revsh d r)
  | .ror .., [.reg d, .reg r] => some (.ror d r)
  | .rsb .., [.reg d, .reg l, .imm z] => if z = 0 then some (.rsb d l) else none       -- `RSBS Rd, Rn, 0`
  | .sbc .., [.reg d, .reg r] => some (.sbc d r)
  | .sev, [] => some .sev
  | .stm .., [.reg a, .regSet rs] => some (.stm a rs)
  | .str .., [.reg d, .address a (some o)] => some (.str d a o)
  | .strb .., [.reg d, .address a (some o)] => some (.strb d a o)
  | .strh .., [.reg d, .address a (some o)] => some (.strh d a o)
  | .sub f .., [.reg d, .reg l, .immReg x] => some (.sub f d l x)
  | .svc _, [.imm v] => some (.svc v)
  | .sxtb .., [.reg d, .reg r] => some (.sxtb d r)
  | .sxth .., [.reg d, .reg r] => some (.sxth d r)
  | .tst .., [.reg d, .reg r] => some (.tst d r)
  | .udf _, [.imm v] => some (.udf v)
  | .udfw _, [.imm v] => some (.udfw v)
  | .uxtb .., [.reg d, .reg r] => some (.uxtb d r)
  | .uxth .., [.reg d, .reg r] => some (.uxth d r)
  | .wfe, [] => some .wfe
  | .wfi, [] => some .wfi
  | .yield, [] => some .yield
  | _, _ => none

/-- **the meaning of the statement `name args` at address `A` under the symbol table `T`** -/
def means (T : SymTable) (A : Nat) (name : Bytes) (args : List Arg) : Option Instr :=
  match mnemonic name with
  | none => none
  | some t =>
    match denoteAll T (sig t) args with
    | none => none
    | some vs => meaning A t vs

/-! ## the statements the theorem speaks about -/

mutual
/-- every name the tree mentions is a register name or is defined in `T` -/
def valued (T : SymTable) : Arg → Bool
  | .const _ | .str _ => true
  | .ident s => isRegister s || (T s).isSome
  | .bin _ l r => valued T l && valued T r
  | .neg a | .not a | .addr a => valued T a
  | .seq as | .func _ as => valuedArgs T as
def valuedArgs (T : SymTable) : Args → Bool
  | .nil => true
  | .cons a as => valued T a && valuedArgs T as
end

mutual
/-- every integer literal of the tree is a signed 64-bit number (all the tokenizer produces) -/
def lits : Arg → Bool
  | .const v => inI64 v
  | .ident _ | .str _ => true
  | .bin _ l r => lits l && lits r
  | .neg a | .not a | .addr a => lits a
  | .seq as | .func _ as => litsArgs as
def litsArgs : Args → Bool
  | .nil => true
  | .cons a as => lits a && litsArgs as
end

/-- what may stand between `[` and `]` in the documented syntax: `Rn`, `Rn + Rm`, `Rn + e`, `e + Rn`
(`e` a register-free expression) — or a register-free expression (which is then diagnosed) -/
def docMem : Arg → Bool
  | .ident _ => true
  | .bin .add l r => (regIdent l || expr l) && (regIdent r || expr r)
  | x => expr x

/-- an operand of the documented syntax: a register-free expression, a name, `[…]` as above, a string, `{…}`
(anything that is not an arithmetic mixture of register names and numbers such as `R1 + 0`) -/
def doc : Arg → Bool
  | .bin op l r => expr (.bin op l r)
  | .neg a => expr (.neg a)
  | .not a => expr (.not a)
  | .addr x => docMem x
  | _ => true

/-- the slot evaluates its operand (the others read a name / a list as written) -/
def evaluated : Kind → Bool
  | .immediate | .immReg | .address | .offset | .addrOffset => true
  | _ => false

/-- the operands that are evaluated are documented operand forms over defined names -/
def wellFormed (T : SymTable) : List Kind → List Arg → Prop
  | k :: ks, a :: as => (evaluated k = true → valued T a = true ∧ lits a = true ∧ doc a = true) ∧ wellFormed T ks as
  | _, _ => True

/-- every value in the table is a signed 64-bit number, and register names are not defined -/
def tableOk (T : SymTable) : Prop := ∀ s v, T s = some v → inI64 v = true ∧ isRegister s = false

/-! ## The documented names, written out (independent of the model's tables)

The operand and mnemonic lookups above go through the model's `Front.regl` / `Front.sysl` / `Front.mnemonic`.  These lists are
the names as a reader of the ARMv6-M manual and of the assembler's documentation would write them down; `Props/C04Names.lean`
proves (by evaluation) that the model's tables are exactly these lists. -/

/-- general-purpose register names and numbers, with the three aliases -/
def docRegisters : List (String × Nat) :=
  [("R0", 0), ("R1", 1), ("R2", 2), ("R3", 3), ("R4", 4), ("R5", 5), ("R6", 6), ("R7", 7), ("R8", 8), ("R9", 9),
   ("R10", 10), ("R11", 11), ("R12", 12), ("R13", 13), ("SP", 13), ("R14", 14), ("LR", 14), ("R15", 15), ("PC", 15)]

/-- special registers of MRS/MSR with their SYSm numbers (ARMv6-M ARM, B5.1) -/
def docSysRegisters : List (String × Nat) :=
  [("APSR", 0), ("IAPSR", 1), ("EAPSR", 2), ("XPSR", 3), ("IPSR", 5), ("EPSR", 6), ("IEPSR", 7), ("MSP", 8), ("PSP", 9),
   ("PRIMASK", 16), ("CONTROL", 20)]

/-- the mnemonics the assembler knows (alphabetical, as documented) -/
def docMnemonics : List String :=
  ["ADCS", "ADD", "ADDS", "ADR", "ANDS", "ASRS", "B", "BCC", "BCS", "BEQ", "BGE", "BGT", "BHI", "BHS", "BIC", "BICS", "BKPT",
   "BL", "BLE", "BLO", "BLS", "BLT", "BLX", "BMI", "BNE", "BPL", "BVC", "BVS", "BX", "CMN", "CMP", "CPSID", "CPSIE", "DMB",
   "DSB", "EORS", "ISB", "LDM", "LDR", "LDRB", "LDRH", "LDRSB", "LDRSH", "LSLS", "LSRS", "MOV", "MOVS", "MRS", "MSR", "MULS",
   "MVNS", "NOP", "ORRS", "POP", "PUSH", "REV", "REV16", "REVSH", "RORS", "RSBS", "SBCS", "SEV", "STM", "STR", "STRB", "STRH",
   "SUB", "SUBS", "SVC", "SXTB", "SXTH", "TST", "UDF.N", "UDF.W", "UXTB", "UXTH", "WFE", "WFI", "YIELD"]

/-- conditional branches and their condition numbers (ARMv6-M ARM, A6.3), `B` = always (14) -/
def docBranches : List (String × Nat) :=
  [("BEQ", 0), ("BNE", 1), ("BCS", 2), ("BHS", 2), ("BCC", 3), ("BLO", 3), ("BMI", 4), ("BPL", 5), ("BVS", 6), ("BVC", 7),
   ("BHI", 8), ("BLS", 9), ("BGE", 10), ("BLT", 11), ("BGT", 12), ("BLE", 13), ("B", 14)]

end Trion.C04
