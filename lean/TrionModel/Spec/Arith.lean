import TrionModel.Model.Syntax
/-!
# Specification of constant-expression arithmetic (Layer A, property C07)

Written from the property text, independent of how the simplifier is organised: an expression built
from integer literals and the documented operators denotes the value of ordinary integer arithmetic

* `+ - *` and unary `-` exactly, `/` and `%` truncating toward zero,
* `& | ^ !` on the two's-complement 64-bit pattern of the operands,
* `x << k`, `x >> k` as scaling by `2^k` (`>>` rounding down),

and evaluation is an *error, never a wrapped value*, exactly when an `+ - * neg /` result leaves
`[-2^63, 2^63)`, a divisor is zero, or a shift count is outside `0..63`.

The property leaves two corners open: shifts whose operand is negative or whose result would reach
bit 63, and `MIN % -1`. `inScope t` says that no node of `t` is at such a corner; the theorem of C07
is stated for `inScope` trees only and says nothing about the others.
-/
namespace Trion.Arith
open Trion

inductive Err where
  | overflow      -- a `+ - * neg /` result does not fit a signed 64-bit integer
  | divZero       -- `/` or `%` by zero
  | shiftCount    -- shift amount negative or ≥ 64
  | notArith      -- the tree is not an arithmetic expression over literals
deriving DecidableEq, Repr, Inhabited

def errName : Err → String
  | .overflow => "overflow" | .divZero => "divzero" | .shiftCount => "shiftcount" | .notArith => "notarith"

/-- the signed 64-bit range -/
def fits (v : Int) : Bool := decide (-9223372036854775808 ≤ v) && decide (v < 9223372036854775808)

def chk (v : Int) : Except Err Int := if fits v then .ok v else .error .overflow

/-- the 64-bit two's-complement pattern of `v`, as a natural number below `2^64` -/
def pat (v : Int) : Nat := (v % 18446744073709551616).toNat
/-- the signed integer whose pattern is `n` -/
def unpat (n : Nat) : Int := if n < 9223372036854775808 then (n : Int) else (n : Int) - 18446744073709551616

def binop (op : BinOp) (a b : Int) : Except Err Int :=
  match op with
  | .add => chk (a + b)
  | .sub => chk (a - b)
  | .mul => chk (a * b)
  | .div => if b = 0 then .error .divZero else chk (Int.tdiv a b)
  | .mod => if b = 0 then .error .divZero else .ok (Int.tmod a b)
  | .band => .ok (unpat (pat a &&& pat b))
  | .bor => .ok (unpat (pat a ||| pat b))
  | .bxor => .ok (unpat (pat a ^^^ pat b))
  | .shl => if 0 ≤ b ∧ b < 64 then .ok (a * 2 ^ b.toNat) else .error .shiftCount
  | .shr => if 0 ≤ b ∧ b < 64 then .ok (a / 2 ^ b.toNat) else .error .shiftCount

/-- value of a constant expression -/
def eval : Arg → Except Err Int
  | .const v => .ok v
  | .bin op l r =>
    match eval l with
    | .ok a =>
      match eval r with
      | .ok b => binop op a b
      | .error e => .error e
    | .error e => .error e
  | .neg a =>
    match eval a with
    | .ok v => chk (-v)
    | .error e => .error e
  | .not a =>
    match eval a with
    | .ok v => .ok (-v - 1)
    | .error e => .error e
  | _ => .error .notArith

/-- an expression over literals: only constants (each an `i64`), the ten binary operators, `-`, `!` -/
def closed : Arg → Bool
  | .const v => fits v
  | .bin _ l r => closed l && closed r
  | .neg a => closed a
  | .not a => closed a
  | _ => false

/-- the corner a node with operand values `a`, `b` must avoid -/
def cornerFree (op : BinOp) (a b : Int) : Bool :=
  match op with
  | .shl => if 0 ≤ b ∧ b < 64 then decide (0 ≤ a) && decide (a * 2 ^ b.toNat < 9223372036854775808) else true
  | .shr => if 0 ≤ b ∧ b < 64 then decide (0 ≤ a) else true
  | .mod => !(decide (a = -9223372036854775808) && decide (b = -1))
  | _ => true

/-- no node of the tree sits at one of the corners the property leaves open -/
def inScope : Arg → Bool
  | .bin op l r =>
    inScope l && inScope r &&
      (match eval l, eval r with
       | .ok a, .ok b => cornerFree op a b
       | _, _ => true)
  | .neg a => inScope a
  | .not a => inScope a
  | _ => true

end Trion.Arith
