import TrionModel.Model.Front
import TrionModel.Model.Show
import TrionModel.Model.Simp
/-!
# Specification-level notions for C04 / C19 (import-free)

Small definitions that the property statements are written in, kept apart from the operational models.
-/
namespace Trion.Front

/-- the documented spellings of a register (upper case): `R0`…`R15`, `SP` = R13, `LR` = R14, `PC` = R15 -/
def names (r : Reg) : List Bytes := (regTable.filter (fun p => p.2 = r)).map Prod.fst

/-- the range of a branch offset by condition (`B` vs `B<c>`) -/
def bLo (c : Cond) : Int := if c.val = 14 then -2048 else -256
def bHi (c : Cond) : Int := if c.val = 14 then 2046 else 254

/-- An evaluator is *transparent on* a tree when it reports it complete and unchanged. -/
def EvalId (eval : Arg → EvalOut) (x : Arg) : Prop := eval x = .complete x

end Trion.Front

namespace Trion.Show
open Trion.Front

/-- the address the printed label of a PC-relative instruction names (`None`: no label is printed) -/
def targetOf (i : Instr) (a : Nat) : Option Nat :=
  match i with
  | .adr _ off => some (wrapAdd (alPc a) off)
  | .b _ off => some (wrapAdd (pcOf a) off)
  | .bl off => some (wrapAdd (pcOf a) off)
  | .ldr _ ad (.imm off) => if ad.val = 15 then some (wrapAdd (alPc a) off) else none
  | _ => none

/-- The instructions whose text the theorem `show_assembles` covers at address `a`: every field fits its
Rust type, a PC-relative offset is one the instruction can encode (range and alignment), and the
PC-relative target lies inside the 32-bit address space. Every value `Instruction::decode` returns
satisfies the field and offset conditions (checked on every decoded pattern by the harness through
`front showbuild`); the target condition — statement address plus 4 (word-aligned first for ADR / literal LDR) plus the offset,
in unbounded arithmetic, is below 2^32 and not negative — is the property's own side condition. -/
def Printable (i : Instr) (a : Nat) : Prop :=
  match i with
  | .add _ _ _ r | .sub _ _ _ r | .cmp _ r | .mov _ _ r => r.wf
  | .asr _ _ s | .lsl _ _ s | .lsr _ _ s => s.wf
  | .ldrb _ _ o | .ldrh _ _ o | .str _ _ o | .strb _ _ o | .strh _ _ o => o.wf
  | .ldr _ ad o =>
    match o with
    | .imm off =>
      if ad.val = 15 then 0 ≤ off ∧ off ≤ 1020 ∧ off % 4 = 0 ∧ (Front.alPc a : Int) + off < 4294967296
      else inI32 off
    | .reg _ => True
  | .adr _ off => 0 ≤ off ∧ off ≤ 1020 ∧ off % 4 = 0 ∧ (Front.alPc a : Int) + off < 4294967296
  | .b c off => bLo c ≤ off ∧ off ≤ bHi c ∧ off % 2 = 0 ∧ 0 ≤ (Front.pcOf a : Int) + off ∧ (Front.pcOf a : Int) + off < 4294967296
  | .bl off => -16777216 ≤ off ∧ off ≤ 16777215 ∧ off % 2 = 0 ∧ 0 ≤ (Front.pcOf a : Int) + off ∧ (Front.pcOf a : Int) + off < 4294967296
  | .bkpt v | .svc v | .udf v => 0 ≤ v ∧ v ≤ 255
  | .udfw v => 0 ≤ v ∧ v ≤ 65535
  | _ => True

/-- the base register and offset of the `[R + x]` operand the text of `i` contains (none for the literal form
of `LDR`, which prints a label) -/
def memOf : Instr → Option (Reg × ImmReg)
  | .ldr _ ad (.imm off) => if ad.val = 15 then none else some (ad, .imm off)
  | .ldr _ ad (.reg r) => some (ad, .reg r)
  | .ldrb _ ad o | .ldrh _ ad o | .str _ ad o | .strb _ ad o | .strh _ ad o => some (ad, o)
  | .ldrsb _ ad o | .ldrsh _ ad o => some (ad, .reg o)
  | _ => none

/-- What C19 assumes of the evaluator (discharged for the `Simp` model of C07/C08 in `Lemmas/ShowEval.lean`
— `evalOK_simp` — and checked on the real `evaluate` by the harness): integer literals and register names evaluate to themselves, the label
the text mentions is a defined constant whose value is the address it names, and an address operand
`[R + x]` evaluates to an address operand that `addr_off` reads the same way (the simplifier rewrites
`[R + 0]` to `[R]`). -/
structure EvalOK (eval : Arg → EvalOut) (i : Instr) (a : Nat) : Prop where
  const : ∀ v : Int, eval (.const v) = .complete (.const v)
  reg : ∀ r : Reg, eval (.ident (regName r)) = .complete (.ident (regName r))
  label : ∀ t, targetOf i a = some t → eval (.ident (label t)) = .complete (.const t)
  mem : ∀ (ad : Reg) (o : ImmReg), memOf i = some (ad, o) → ∃ x, eval (memA ad (irA o)) = .complete (.addr x) ∧
          ∀ idx, addrOff idx x = addrOff idx (.bin .add (rA ad) (irA o))

/-- an immediate offset inside `[R + x]` is not negative (true of every encodable instruction; the real
evaluator rewrites `[R + -4]` to `[R - 4]`, which `addr_off` does not accept) -/
def MemNonneg (i : Instr) : Prop := ∀ ad v, memOf i = some (ad, .imm v) → 0 ≤ v

/-- the property's side condition on its own: the PC-relative target — statement address plus 4 (word-aligned
first for ADR / literal LDR) plus the offset, in unbounded arithmetic — lies inside the 32-bit address space -/
def targetInRange (i : Instr) (a : Nat) : Prop :=
  match i with
  | .adr _ off => (Front.alPc a : Int) + off < 4294967296
  | .ldr _ ad (.imm off) => ad.val = 15 → (Front.alPc a : Int) + off < 4294967296
  | .b _ off | .bl off => 0 ≤ (Front.pcOf a : Int) + off ∧ (Front.pcOf a : Int) + off < 4294967296
  | _ => True

/-- `eval` is the concrete evaluator (`evaluate`, model `Simp.evaluateT`, registers recognised by
`Arm6M::is_register`) over the symbol table `lk`, as far as completed evaluations go -/
def EvalIsSimp (eval : Arg → EvalOut) (lk : Bytes → Simp.Lookup) : Prop :=
  ∀ x ch a', Simp.evaluateT lk Front.isRegister x = .ok ⟨ch, none⟩ a' → eval x = .complete a'

/-- the concrete evaluator as an `EvalOut` function (the overflow text is opaque to the front end) -/
def simpEval (lk : Bytes → Simp.Lookup) (x : Arg) : EvalOut :=
  match Simp.evaluateT lk Front.isRegister x with
  | .ok ev a' => (match ev.cause with | none => .complete a' | some c => .deferred c a')
  | .nosuch n a' => .noSuchVariable n a'
  | .err (.badType k o) => .error (.badType k o) x
  | .err (.overflow _) => .error (.overflow "overflow") x
  | .panic => .error (.overflow "panic") x

/-- the template `ArmInstr::new` must produce for the mnemonic printed for `i` -/
def template : Instr → Instr
  | .adc .. => .adc 0 0 | .add f .. => if f then .add true 0 0 (.imm 0) else .add false 13 13 (.imm 0)
  | .adr .. => .adr 0 0 | .and .. => .and 0 0 | .asr .. => .asr 0 0 (.imm 1) | .b c _ => .b c 0
  | .bic .. => .bic 0 0 | .bkpt _ => .bkpt 0 | .bl _ => .bl 0 | .blx _ => .blx 0 | .bx _ => .bx 0
  | .cmn .. => .cmn 0 0 | .cmp .. => .cmp 0 (.imm 0) | .cps e => .cps e | .dmb => .dmb | .dsb => .dsb
  | .eor .. => .eor 0 0 | .isb => .isb | .ldm .. => .ldm 0 0 | .ldr .. => .ldr 0 0 (.imm 0)
  | .ldrb .. => .ldrb 0 0 (.imm 0) | .ldrh .. => .ldrh 0 0 (.imm 0) | .ldrsb .. => .ldrsb 0 0 0
  | .ldrsh .. => .ldrsh 0 0 0 | .lsl .. => .lsl 0 0 (.imm 1) | .lsr .. => .lsr 0 0 (.imm 1)
  | .mov f .. => .mov f 0 (.reg 0) | .mrs .. => .mrs 0 .xpsr | .msr .. => .msr .xpsr 0 | .mul .. => .mul 0 0
  | .mvn .. => .mvn 0 0 | .nop => .nop | .orr .. => .orr 0 0 | .pop _ => .pop 1 | .push _ => .push 1
  | .rev .. => .rev 0 0 | .rev16 .. => .rev16 0 0 | .revsh .. => .revsh 0 0 | .ror .. => .ror 0 0
  | .rsb .. => .rsb 0 0 | .sbc .. => .sbc 0 0 | .sev => .sev | .stm .. => .stm 0 0
  | .str .. => .str 0 0 (.imm 0) | .strb .. => .strb 0 0 (.imm 0) | .strh .. => .strh 0 0 (.imm 0)
  | .sub f .. => if f then .sub true 0 0 (.imm 0) else .sub false 13 13 (.imm 0)
  | .svc _ => .svc 0 | .sxtb .. => .sxtb 0 0 | .sxth .. => .sxth 0 0 | .tst .. => .tst 0 0
  | .udf _ => .udf 0 | .udfw _ => .udfw 0 | .uxtb .. => .uxtb 0 0 | .uxth .. => .uxth 0 0
  | .wfe => .wfe | .wfi => .wfi | .yield => .yield

end Trion.Show
