import TrionModel.Spec.Dict
/-!
# Specification of the memory map (Layer A): counting maximal runs of occupied addresses

Purely dictionary-level (no segment lists), executable.
-/
namespace Trion.Dict

/-- address `k` begins (the visible part of) a maximal run of occupied addresses in a window that starts at
`lo`: it is occupied, and either the window starts here or the address before it is unoccupied -/
def startsAt (D : Dict) (lo k : Nat) : Bool := (D k).isSome && (k == lo || (D (k - 1)).isNone)

/-- number of maximal runs of occupied addresses that meet the window `lo, lo+1, …, lo+n-1` -/
def runsIn (D : Dict) (lo n : Nat) : Nat := ((List.range n).filter fun j => startsAt D lo (lo + j)).length

/-- number of maximal runs among the u32 addresses -/
def runs (D : Dict) : Nat := runsIn D 0 4294967296

end Trion.Dict
