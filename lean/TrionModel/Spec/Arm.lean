import TrionModel.Model.Instr
/-!
# The ARMv6-M Thumb instruction encodings as a table (Layer A specification, import-free)

Transcribed from the ARMv6-M Architecture Reference Manual (ARM DDI 0419), chapter A6, in the
manual's own form: every row is the encoding diagram as a 16- or 32-character string over `0`, `1`
and field letters (most significant bit first, blanks ignored), the operands the assembler syntax
assigns to those fields (`ins`), and the UNPREDICTABLE side conditions (`unpred`).
Bits the manual writes `(0)` / `(1)` ("should be") are fixed bits here: any other value is
UNPREDICTABLE, i.e. not an encoding of anything.  A letter that occurs in several places of a diagram
is one field whose bits are concatenated most significant first (`DN:Rdn` is written `d....ddd`).

`Arm.decode hws` = the first row (in table order; the manual's "SEE …" exclusions are expressed by
putting the more specific diagram first) whose diagram has `16 * hws.length` bits and whose fixed bits
agree; the result is `none` when no row matches or the matching row's side condition says UNPREDICTABLE.

This file shares no code with `Model/Codec.lean`.

Readings fixed by the design (DESIGN §6 C01):
* LDM/STM with an empty register list are admitted (pinned by the repository's own test; bit for bit
  the LDM/STM diagram with `register_list = 0`);
* BX/BLX with PC, MSR/MRS with SP/PC or an unallocated SYSm, PUSH/POP of nothing, CMP (register) T2
  with PC or with two low registers, ADD (register) T2 with PC,PC are UNPREDICTABLE = no encoding;
* ADD (SP plus register) T1/T2 are the same bits as ADD (register) T2 and are represented by that row
  (operands `dst = lhs`);
* barrier options other than SY (`1111`) are reserved = no encoding; hint numbers above SEV likewise.
-/
namespace Trion.Arm
open Trion

/-- the bit of `w` at position `p` -/
def bit (w p : Nat) : Nat := w / 2 ^ p % 2

/-- do the fixed bits of the diagram agree with the `n` low bits of `w`? (`cs` = remaining characters,
`n` = number of bits they cover) -/
def fits (w : Nat) : List Char → Nat → Bool
  | [], _ => true
  | c :: cs, n =>
    if c = ' ' then fits w cs n
    else if c = '0' then bit w (n - 1) == 0 && fits w cs (n - 1)
    else if c = '1' then bit w (n - 1) == 1 && fits w cs (n - 1)
    else fits w cs (n - 1)

/-- value of field `f`: its bits, most significant first -/
def field (w : Nat) (f : Char) : List Char → Nat → Nat → Nat
  | [], _, acc => acc
  | c :: cs, n, acc =>
    if c = ' ' then field w f cs n acc
    else if c = f then field w f cs (n - 1) (acc * 2 + bit w (n - 1))
    else field w f cs (n - 1) acc

/-- number of bits of a diagram -/
def width (cs : List Char) : Nat := (cs.filter (· ≠ ' ')).length

structure Row where
  /-- encoding diagram -/
  pat : String
  /-- operands from the fields (`f 'd'` is the value of field `d`) -/
  ins : (Char → Nat) → Instr
  /-- UNPREDICTABLE side conditions -/
  unpred : (Char → Nat) → Bool := fun _ => false

def r (n : Nat) : Reg := Fin.ofNat 16 n
def im (n : Nat) : ImmReg := .imm (n : Int)
def rg (n : Nat) : ImmReg := .reg (r n)
def set (n : Nat) : RegSet := Fin.ofNat 65536 n
/-- `SignExtend(x, 32)` of a `bits`-wide value -/
def sx (bits x : Nat) : Int := if x < 2 ^ (bits - 1) then (x : Int) else (x : Int) - (2 ^ bits : Nat)
/-- `DecodeImmShift` for LSR/ASR: an immediate field of 0 means 32 -/
def sh32 (i : Nat) : Nat := if i = 0 then 32 else i
/-- SYSm values allocated in ARMv6-M (B5.1.1) -/
def sysm : Nat → Option SysReg
  | 0 => some .apsr | 1 => some .iapsr | 2 => some .eapsr | 3 => some .xpsr | 5 => some .ipsr
  | 6 => some .epsr | 7 => some .iepsr | 8 => some .msp | 9 => some .psp | 16 => some .primask
  | 20 => some .control | _ => none
def sys (n : Nat) : SysReg := (sysm n).getD .apsr
def cond (n : Nat) : Cond := Fin.ofNat 15 n
/-- NOT (J XOR S) -/
def ibit (j s : Nat) : Nat := if j = s then 1 else 0

def table : List Row := [
  -- shift (immediate), add, subtract, move, compare                                      A5.2.1
  { pat := "0000000000mmmddd", ins := fun f => .mov true (r (f 'd')) (rg (f 'm')) },            -- MOVS Rd,Rm (T2)
  { pat := "00000iiiiimmmddd", ins := fun f => .lsl (r (f 'd')) (r (f 'm')) (im (f 'i')) },     -- LSLS Rd,Rm,#imm5
  { pat := "00001iiiiimmmddd", ins := fun f => .lsr (r (f 'd')) (r (f 'm')) (im (sh32 (f 'i'))) },
  { pat := "00010iiiiimmmddd", ins := fun f => .asr (r (f 'd')) (r (f 'm')) (im (sh32 (f 'i'))) },
  { pat := "0001100mmmnnnddd", ins := fun f => .add true (r (f 'd')) (r (f 'n')) (rg (f 'm')) }, -- ADDS Rd,Rn,Rm (T1)
  { pat := "0001101mmmnnnddd", ins := fun f => .sub true (r (f 'd')) (r (f 'n')) (rg (f 'm')) },
  { pat := "0001110iiinnnddd", ins := fun f => .add true (r (f 'd')) (r (f 'n')) (im (f 'i')) }, -- ADDS Rd,Rn,#imm3 (T1)
  { pat := "0001111iiinnnddd", ins := fun f => .sub true (r (f 'd')) (r (f 'n')) (im (f 'i')) },
  { pat := "00100dddiiiiiiii", ins := fun f => .mov true (r (f 'd')) (im (f 'i')) },            -- MOVS Rd,#imm8
  { pat := "00101nnniiiiiiii", ins := fun f => .cmp (r (f 'n')) (im (f 'i')) },                 -- CMP Rn,#imm8
  { pat := "00110dddiiiiiiii", ins := fun f => .add true (r (f 'd')) (r (f 'd')) (im (f 'i')) }, -- ADDS Rdn,#imm8 (T2)
  { pat := "00111dddiiiiiiii", ins := fun f => .sub true (r (f 'd')) (r (f 'd')) (im (f 'i')) },
  -- data processing                                                                       A5.2.2
  { pat := "0100000000mmmddd", ins := fun f => .and (r (f 'd')) (r (f 'm')) },
  { pat := "0100000001mmmddd", ins := fun f => .eor (r (f 'd')) (r (f 'm')) },
  { pat := "0100000010mmmddd", ins := fun f => .lsl (r (f 'd')) (r (f 'd')) (rg (f 'm')) },
  { pat := "0100000011mmmddd", ins := fun f => .lsr (r (f 'd')) (r (f 'd')) (rg (f 'm')) },
  { pat := "0100000100mmmddd", ins := fun f => .asr (r (f 'd')) (r (f 'd')) (rg (f 'm')) },
  { pat := "0100000101mmmddd", ins := fun f => .adc (r (f 'd')) (r (f 'm')) },
  { pat := "0100000110mmmddd", ins := fun f => .sbc (r (f 'd')) (r (f 'm')) },
  { pat := "0100000111mmmddd", ins := fun f => .ror (r (f 'd')) (r (f 'm')) },
  { pat := "0100001000mmmnnn", ins := fun f => .tst (r (f 'n')) (r (f 'm')) },
  { pat := "0100001001nnnddd", ins := fun f => .rsb (r (f 'd')) (r (f 'n')) },                  -- RSBS Rd,Rn,#0
  { pat := "0100001010mmmnnn", ins := fun f => .cmp (r (f 'n')) (rg (f 'm')) },                 -- CMP Rn,Rm (T1)
  { pat := "0100001011mmmnnn", ins := fun f => .cmn (r (f 'n')) (r (f 'm')) },
  { pat := "0100001100mmmddd", ins := fun f => .orr (r (f 'd')) (r (f 'm')) },
  { pat := "0100001101nnnddd", ins := fun f => .mul (r (f 'd')) (r (f 'n')) },                  -- MULS Rdm,Rn,Rdm
  { pat := "0100001110mmmddd", ins := fun f => .bic (r (f 'd')) (r (f 'm')) },
  { pat := "0100001111mmmddd", ins := fun f => .mvn (r (f 'd')) (r (f 'm')) },
  -- special data instructions and branch and exchange                                     A5.2.3
  { pat := "01000100dmmmmddd", ins := fun f => .add false (r (f 'd')) (r (f 'd')) (rg (f 'm')),  -- ADD Rdn,Rm (T2), incl. SP forms
    unpred := fun f => f 'd' == 15 && f 'm' == 15 },
  { pat := "01000101nmmmmnnn", ins := fun f => .cmp (r (f 'n')) (rg (f 'm')),                   -- CMP Rn,Rm (T2)
    unpred := fun f => (f 'n' < 8 && f 'm' < 8) || f 'n' == 15 || f 'm' == 15 },
  { pat := "01000110dmmmmddd", ins := fun f => .mov false (r (f 'd')) (rg (f 'm')) },           -- MOV Rd,Rm (T1)
  { pat := "010001110mmmm000", ins := fun f => .bx (r (f 'm')), unpred := fun f => f 'm' == 15 },
  { pat := "010001111mmmm000", ins := fun f => .blx (r (f 'm')), unpred := fun f => f 'm' == 15 },
  -- load from literal pool                                                                A6.7.27
  { pat := "01001tttiiiiiiii", ins := fun f => .ldr (r (f 't')) Reg.pc (im (f 'i' * 4)) },
  -- load/store single data item                                                           A5.2.4
  { pat := "0101000mmmnnnttt", ins := fun f => .str (r (f 't')) (r (f 'n')) (rg (f 'm')) },
  { pat := "0101001mmmnnnttt", ins := fun f => .strh (r (f 't')) (r (f 'n')) (rg (f 'm')) },
  { pat := "0101010mmmnnnttt", ins := fun f => .strb (r (f 't')) (r (f 'n')) (rg (f 'm')) },
  { pat := "0101011mmmnnnttt", ins := fun f => .ldrsb (r (f 't')) (r (f 'n')) (r (f 'm')) },
  { pat := "0101100mmmnnnttt", ins := fun f => .ldr (r (f 't')) (r (f 'n')) (rg (f 'm')) },
  { pat := "0101101mmmnnnttt", ins := fun f => .ldrh (r (f 't')) (r (f 'n')) (rg (f 'm')) },
  { pat := "0101110mmmnnnttt", ins := fun f => .ldrb (r (f 't')) (r (f 'n')) (rg (f 'm')) },
  { pat := "0101111mmmnnnttt", ins := fun f => .ldrsh (r (f 't')) (r (f 'n')) (r (f 'm')) },
  { pat := "01100iiiiinnnttt", ins := fun f => .str (r (f 't')) (r (f 'n')) (im (f 'i' * 4)) },
  { pat := "01101iiiiinnnttt", ins := fun f => .ldr (r (f 't')) (r (f 'n')) (im (f 'i' * 4)) },
  { pat := "01110iiiiinnnttt", ins := fun f => .strb (r (f 't')) (r (f 'n')) (im (f 'i')) },
  { pat := "01111iiiiinnnttt", ins := fun f => .ldrb (r (f 't')) (r (f 'n')) (im (f 'i')) },
  { pat := "10000iiiiinnnttt", ins := fun f => .strh (r (f 't')) (r (f 'n')) (im (f 'i' * 2)) },
  { pat := "10001iiiiinnnttt", ins := fun f => .ldrh (r (f 't')) (r (f 'n')) (im (f 'i' * 2)) },
  { pat := "10010tttiiiiiiii", ins := fun f => .str (r (f 't')) Reg.sp (im (f 'i' * 4)) },
  { pat := "10011tttiiiiiiii", ins := fun f => .ldr (r (f 't')) Reg.sp (im (f 'i' * 4)) },
  -- PC-relative and SP-relative address                                                   A6.7.6, A6.7.4
  { pat := "10100dddiiiiiiii", ins := fun f => .adr (r (f 'd')) ((f 'i' * 4 : Nat) : Int) },
  { pat := "10101dddiiiiiiii", ins := fun f => .add false (r (f 'd')) Reg.sp (im (f 'i' * 4)) },
  -- miscellaneous 16-bit instructions                                                     A5.2.5
  { pat := "101100000iiiiiii", ins := fun f => .add false Reg.sp Reg.sp (im (f 'i' * 4)) },
  { pat := "101100001iiiiiii", ins := fun f => .sub false Reg.sp Reg.sp (im (f 'i' * 4)) },
  { pat := "1011001000mmmddd", ins := fun f => .sxth (r (f 'd')) (r (f 'm')) },
  { pat := "1011001001mmmddd", ins := fun f => .sxtb (r (f 'd')) (r (f 'm')) },
  { pat := "1011001010mmmddd", ins := fun f => .uxth (r (f 'd')) (r (f 'm')) },
  { pat := "1011001011mmmddd", ins := fun f => .uxtb (r (f 'd')) (r (f 'm')) },
  { pat := "1011010mrrrrrrrr", ins := fun f => .push (set (f 'm' * 16384 + f 'r')),            -- registers = '0':M:'000000':list
    unpred := fun f => f 'm' * 16384 + f 'r' == 0 },
  { pat := "10110110011i0010", ins := fun f => .cps (f 'i' == 0) },                             -- CPSIE i: im = 0, CPSID i: im = 1
  { pat := "1011101000mmmddd", ins := fun f => .rev (r (f 'd')) (r (f 'm')) },
  { pat := "1011101001mmmddd", ins := fun f => .rev16 (r (f 'd')) (r (f 'm')) },
  { pat := "1011101011mmmddd", ins := fun f => .revsh (r (f 'd')) (r (f 'm')) },
  { pat := "1011110prrrrrrrr", ins := fun f => .pop (set (f 'p' * 32768 + f 'r')),             -- registers = P:'0000000':list
    unpred := fun f => f 'p' * 32768 + f 'r' == 0 },
  { pat := "10111110iiiiiiii", ins := fun f => .bkpt (f 'i' : Nat) },
  { pat := "1011111100000000", ins := fun _ => .nop },
  { pat := "1011111100010000", ins := fun _ => .yield },
  { pat := "1011111100100000", ins := fun _ => .wfe },
  { pat := "1011111100110000", ins := fun _ => .wfi },
  { pat := "1011111101000000", ins := fun _ => .sev },
  -- load/store multiple                                                                   A6.7.25, A6.7.58
  { pat := "11000nnnrrrrrrrr", ins := fun f => .stm (r (f 'n')) (set (f 'r')) },
  { pat := "11001nnnrrrrrrrr", ins := fun f => .ldm (r (f 'n')) (set (f 'r')) },
  -- conditional branch, permanently undefined, supervisor call                            A5.2.6
  { pat := "11011110iiiiiiii", ins := fun f => .udf (f 'i' : Nat) },
  { pat := "11011111iiiiiiii", ins := fun f => .svc (f 'i' : Nat) },
  { pat := "1101cccciiiiiiii", ins := fun f => .b (cond (f 'c')) (sx 9 (f 'i' * 2)) },          -- B<c> (T1); cond 1110/1111 are the rows above
  { pat := "11100iiiiiiiiiii", ins := fun f => .b Cond.always (sx 12 (f 'i' * 2)) },            -- B (T2)
  -- 32-bit instructions                                                                   A5.3
  { pat := "111100111000nnnn 10001000ssssssss", ins := fun f => .msr (sys (f 's')) (r (f 'n')),
    unpred := fun f => f 'n' == 13 || f 'n' == 15 || (sysm (f 's')).isNone },
  { pat := "1111001111101111 1000ddddssssssss", ins := fun f => .mrs (r (f 'd')) (sys (f 's')),
    unpred := fun f => f 'd' == 13 || f 'd' == 15 || (sysm (f 's')).isNone },
  { pat := "1111001110111111 1000111101001111", ins := fun _ => .dsb },                          -- option = SY
  { pat := "1111001110111111 1000111101011111", ins := fun _ => .dmb },
  { pat := "1111001110111111 1000111101101111", ins := fun _ => .isb },
  { pat := "111101111111iiii 1010iiiiiiiiiiii", ins := fun f => .udfw (f 'i' : Nat) },           -- imm32 = imm4:imm12
  { pat := "11110siiiiiiiiii 11j1kLLLLLLLLLLL",                                                 -- BL: S:I1:I2:imm10:imm11:'0'
    ins := fun f => .bl (sx 25 (f 's' * 16777216 + ibit (f 'j') (f 's') * 8388608 + ibit (f 'k') (f 's') * 4194304
                              + f 'i' * 4096 + f 'L' * 2)) }
]

/-- the instruction word: halfwords concatenated, first halfword most significant -/
def word : List Nat → Nat
  | [] => 0
  | h :: t => h * 65536 ^ t.length + word t

def rowDecode (rw : Row) (w n : Nat) : Option (Option Instr) :=
  let cs := rw.pat.toList
  if width cs = n ∧ fits w cs n then
    let f := fun c => field w c cs n 0
    some (if rw.unpred f then none else some (rw.ins f))
  else none

def decodeIn : List Row → Nat → Nat → Option Instr
  | [], _, _ => none
  | rw :: rest, w, n =>
    match rowDecode rw w n with
    | some res => res
    | none => decodeIn rest w n

/-- the architectural meaning of one or two halfwords (each `< 65536`) -/
def decode (hws : List Nat) : Option Instr :=
  if hws.all (· < 65536) then decodeIn table (word hws) (16 * hws.length) else none

/-- is the instruction 32 bits wide in the architecture? (`hw1` top five bits 11101/11110/11111) -/
def wide (h0 : Nat) : Bool := 29 ≤ h0 / 2048

end Trion.Arm
