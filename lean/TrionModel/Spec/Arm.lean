import TrionModel.Model.Instr
/-!
# The ARMv6-M Thumb instruction encodings as a table (Layer A specification, import-free)

Transcribed from the ARMv6-M Architecture Reference Manual (ARM DDI 0419), chapter A6, in the
manual's own form: every row is the encoding diagram as a 16- or 32-character string over `0`, `1`
and field letters (most significant bit first, blanks ignored), the operands the assembler syntax
assigns to those fields (`ins`), and the UNPREDICTABLE side conditions (`unpred`).
Bits the manual writes `(0)` / `(1)` ("should be") are fixed bits here: any other value is
UNPREDICTABLE, i.e. not an encoding of anything.  A letter that occurs in several places of a diagram
is one field whose bits are concatenated most significant first (`DN:Rdn` is written `d....ddd`).

Every row also carries the *reading* of its diagram in arithmetic form, which is what `decode` evaluates
and what the proofs use: `n` (number of bits), `fixed` (the maximal runs of fixed bits as
`(position of the lowest bit, length, value)`) and `fields` (for every field letter its runs
`(position, length)`, most significant run first).  `compile` computes this reading from a diagram string;
`Props/C01.lean: table_reads_diagrams` (kernel-evaluated) says that every row's `n` / `fixed` / `fields`
are exactly `compile` of its diagram, so the strings are checked, not just documentation.

`Arm.decode hws` = the first row (in table order; the manual's "SEE …" exclusions are expressed by
putting the more specific diagram first) whose diagram has `16 * hws.length` bits and whose fixed bits
agree; the result is `none` when no row matches or the matching row's side condition says UNPREDICTABLE.

This file shares no code with `Model/Codec.lean`.

Readings fixed by the design (DESIGN §6 C01):
* LDM/STM with an empty register list are admitted (pinned by the repository's own test; bit for bit
  the LDM/STM diagram with `register_list = 0`);
* BX/BLX with PC, MSR/MRS with SP/PC or an unallocated SYSm, PUSH/POP of nothing, CMP (register) T2
  with PC or with two low registers, ADD (register) T2 with PC,PC are UNPREDICTABLE = no encoding;
* ADD (SP plus register) T1/T2 are the same bits as ADD (register) T2 and are represented by that row
  (operands `dst = lhs`);
* barrier options other than SY (`1111`) are reserved = no encoding; hint numbers above SEV likewise.
-/
namespace Trion.Arm
open Trion

structure Row where
  /-- encoding diagram as printed in the manual -/
  pat : String
  /-- number of bits of the diagram -/
  n : Nat
  /-- runs of fixed bits: (position of the lowest bit, length, value) -/
  fixed : List (Nat × Nat × Nat)
  /-- field letter ↦ its runs (position of the lowest bit, length), most significant run first -/
  fields : List (Char × List (Nat × Nat))
  /-- operands from the fields (`f 'd'` is the value of field `d`) -/
  ins : (Char → Nat) → Instr
  /-- UNPREDICTABLE side conditions -/
  unpred : (Char → Nat) → Bool := fun _ => false

/-! ### reading a diagram -/

/-- state while scanning a diagram from its most significant character: the current run
(`'#'` for fixed bits, else the field letter; length; value of the fixed bits) and the runs found so far -/
structure Scan where
  cur : Option (Char × Nat × Nat) := none
  fixed : List (Nat × Nat × Nat) := []
  fields : List (Char × List (Nat × Nat)) := []

def addRun (c : Char) (seg : Nat × Nat) : List (Char × List (Nat × Nat)) → List (Char × List (Nat × Nat))
  | [] => [(c, [seg])]
  | (c', segs) :: rest => if c' = c then (c', segs ++ [seg]) :: rest else (c', segs) :: addRun c seg rest

/-- close the current run, whose lowest bit is at position `pos` -/
def Scan.flush (s : Scan) (pos : Nat) : Scan :=
  match s.cur with
  | none => s
  | some (k, l, v) =>
    if k = '#' then { cur := none, fixed := s.fixed ++ [(pos, l, v)], fields := s.fields }
    else { cur := none, fixed := s.fixed, fields := addRun k (pos, l) s.fields }

/-- one character at bit position `p` -/
def Scan.step (s : Scan) (c : Char) (p : Nat) : Scan :=
  let k := if c = '0' ∨ c = '1' then '#' else c
  let b := if c = '1' then 1 else 0
  match s.cur with
  | some (k', l, v) =>
    if k' = k then { s with cur := some (k, l + 1, v * 2 + b) }
    else { s.flush (p + 1) with cur := some (k, 1, b) }
  | none => { s with cur := some (k, 1, b) }

def scan : List Char → Nat → Scan → Scan
  | [], _, s => s.flush 0
  | c :: cs, p, s => scan cs (p - 1) (s.step c p)

/-- the arithmetic reading `(n, fixed, fields)` of a diagram (blanks are ignored) -/
def compile (pat : List Char) : Nat × List (Nat × Nat × Nat) × List (Char × List (Nat × Nat)) :=
  let cs := pat.filter (· ≠ ' ')
  let s := scan cs (cs.length - 1) {}
  (cs.length, s.fixed, s.fields)

/-! ### matching -/

/-- do the fixed bits of the row agree with the word? -/
def fits (w : Nat) : List (Nat × Nat × Nat) → Prop
  | [] => True
  | (p, l, v) :: rest => w / 2 ^ p % 2 ^ l = v ∧ fits w rest

instance fitsDec (w : Nat) : (fx : List (Nat × Nat × Nat)) → Decidable (fits w fx)
  | [] => isTrue trivial
  | (p, l, v) :: rest =>
    match Nat.decEq (w / 2 ^ p % 2 ^ l) v, fitsDec w rest with
    | isTrue a, isTrue b => isTrue ⟨a, b⟩
    | isFalse a, _ => isFalse fun h => a h.1
    | _, isFalse b => isFalse fun h => b h.2

/-- value of a field: its runs concatenated, most significant first -/
def segVal (w : Nat) : List (Nat × Nat) → Nat → Nat
  | [], acc => acc
  | (p, l) :: rest, acc => segVal w rest (acc * 2 ^ l + w / 2 ^ p % 2 ^ l)

def fieldOf (w : Nat) : List (Char × List (Nat × Nat)) → Char → Nat
  | [], _ => 0
  | (c', segs) :: rest, c => if c' = c then segVal w segs 0 else fieldOf w rest c

def r (n : Nat) : Reg := Fin.ofNat 16 n
def im (n : Nat) : ImmReg := .imm (n : Int)
def rg (n : Nat) : ImmReg := .reg (r n)
def set (n : Nat) : RegSet := Fin.ofNat 65536 n
/-- `SignExtend(x, 32)` of a `bits`-wide value -/
def sx (bits x : Nat) : Int := if x < 2 ^ (bits - 1) then (x : Int) else (x : Int) - (2 ^ bits : Nat)
/-- `DecodeImmShift` for LSR/ASR: an immediate field of 0 means 32 -/
def sh32 (i : Nat) : Nat := if i = 0 then 32 else i
/-- SYSm values allocated in ARMv6-M (B5.1.1) -/
def sysm : Nat → Option SysReg
  | 0 => some .apsr | 1 => some .iapsr | 2 => some .eapsr | 3 => some .xpsr | 5 => some .ipsr
  | 6 => some .epsr | 7 => some .iepsr | 8 => some .msp | 9 => some .psp | 16 => some .primask
  | 20 => some .control | _ => none
def sys (n : Nat) : SysReg := (sysm n).getD .apsr
def cond (n : Nat) : Cond := Fin.ofNat 15 n
/-- NOT (J XOR S) -/
def ibit (j s : Nat) : Nat := if j = s then 1 else 0

/-- first halfword `00000…` -/
def g00 : List Row := [
  -- MOVS Rd,Rm (T2)
  { pat := "0000000000mmmddd", n := 16, fixed := [(6, 10, 0b0000000000)], fields := [('m', [(3, 3)]), ('d', [(0, 3)])],
    ins := fun f => .mov true (r (f 'd')) (rg (f 'm')) },
  -- LSLS Rd,Rm,#imm5
  { pat := "00000iiiiimmmddd", n := 16, fixed := [(11, 5, 0b00000)], fields := [('i', [(6, 5)]), ('m', [(3, 3)]), ('d', [(0, 3)])],
    ins := fun f => .lsl (r (f 'd')) (r (f 'm')) (im (f 'i')) }
]

/-- first halfword `00001…` -/
def g01 : List Row := [
  { pat := "00001iiiiimmmddd", n := 16, fixed := [(11, 5, 0b00001)], fields := [('i', [(6, 5)]), ('m', [(3, 3)]), ('d', [(0, 3)])],
    ins := fun f => .lsr (r (f 'd')) (r (f 'm')) (im (sh32 (f 'i'))) }
]

/-- first halfword `00010…` -/
def g02 : List Row := [
  { pat := "00010iiiiimmmddd", n := 16, fixed := [(11, 5, 0b00010)], fields := [('i', [(6, 5)]), ('m', [(3, 3)]), ('d', [(0, 3)])],
    ins := fun f => .asr (r (f 'd')) (r (f 'm')) (im (sh32 (f 'i'))) }
]

/-- first halfword `00011…` -/
def g03 : List Row := [
  -- ADDS Rd,Rn,Rm (T1)
  { pat := "0001100mmmnnnddd", n := 16, fixed := [(9, 7, 0b0001100)], fields := [('m', [(6, 3)]), ('n', [(3, 3)]), ('d', [(0, 3)])],
    ins := fun f => .add true (r (f 'd')) (r (f 'n')) (rg (f 'm')) },
  { pat := "0001101mmmnnnddd", n := 16, fixed := [(9, 7, 0b0001101)], fields := [('m', [(6, 3)]), ('n', [(3, 3)]), ('d', [(0, 3)])],
    ins := fun f => .sub true (r (f 'd')) (r (f 'n')) (rg (f 'm')) },
  -- ADDS Rd,Rn,#imm3 (T1)
  { pat := "0001110iiinnnddd", n := 16, fixed := [(9, 7, 0b0001110)], fields := [('i', [(6, 3)]), ('n', [(3, 3)]), ('d', [(0, 3)])],
    ins := fun f => .add true (r (f 'd')) (r (f 'n')) (im (f 'i')) },
  { pat := "0001111iiinnnddd", n := 16, fixed := [(9, 7, 0b0001111)], fields := [('i', [(6, 3)]), ('n', [(3, 3)]), ('d', [(0, 3)])],
    ins := fun f => .sub true (r (f 'd')) (r (f 'n')) (im (f 'i')) }
]

/-- first halfword `00100…` -/
def g04 : List Row := [
  -- MOVS Rd,#imm8
  { pat := "00100dddiiiiiiii", n := 16, fixed := [(11, 5, 0b00100)], fields := [('d', [(8, 3)]), ('i', [(0, 8)])],
    ins := fun f => .mov true (r (f 'd')) (im (f 'i')) }
]

/-- first halfword `00101…` -/
def g05 : List Row := [
  -- CMP Rn,#imm8
  { pat := "00101nnniiiiiiii", n := 16, fixed := [(11, 5, 0b00101)], fields := [('n', [(8, 3)]), ('i', [(0, 8)])],
    ins := fun f => .cmp (r (f 'n')) (im (f 'i')) }
]

/-- first halfword `00110…` -/
def g06 : List Row := [
  -- ADDS Rdn,#imm8 (T2)
  { pat := "00110dddiiiiiiii", n := 16, fixed := [(11, 5, 0b00110)], fields := [('d', [(8, 3)]), ('i', [(0, 8)])],
    ins := fun f => .add true (r (f 'd')) (r (f 'd')) (im (f 'i')) }
]

/-- first halfword `00111…` -/
def g07 : List Row := [
  { pat := "00111dddiiiiiiii", n := 16, fixed := [(11, 5, 0b00111)], fields := [('d', [(8, 3)]), ('i', [(0, 8)])],
    ins := fun f => .sub true (r (f 'd')) (r (f 'd')) (im (f 'i')) }
]

/-- first halfword `01000…` -/
def g08 : List Row := [
  { pat := "0100000000mmmddd", n := 16, fixed := [(6, 10, 0b0100000000)], fields := [('m', [(3, 3)]), ('d', [(0, 3)])],
    ins := fun f => .and (r (f 'd')) (r (f 'm')) },
  { pat := "0100000001mmmddd", n := 16, fixed := [(6, 10, 0b0100000001)], fields := [('m', [(3, 3)]), ('d', [(0, 3)])],
    ins := fun f => .eor (r (f 'd')) (r (f 'm')) },
  { pat := "0100000010mmmddd", n := 16, fixed := [(6, 10, 0b0100000010)], fields := [('m', [(3, 3)]), ('d', [(0, 3)])],
    ins := fun f => .lsl (r (f 'd')) (r (f 'd')) (rg (f 'm')) },
  { pat := "0100000011mmmddd", n := 16, fixed := [(6, 10, 0b0100000011)], fields := [('m', [(3, 3)]), ('d', [(0, 3)])],
    ins := fun f => .lsr (r (f 'd')) (r (f 'd')) (rg (f 'm')) },
  { pat := "0100000100mmmddd", n := 16, fixed := [(6, 10, 0b0100000100)], fields := [('m', [(3, 3)]), ('d', [(0, 3)])],
    ins := fun f => .asr (r (f 'd')) (r (f 'd')) (rg (f 'm')) },
  { pat := "0100000101mmmddd", n := 16, fixed := [(6, 10, 0b0100000101)], fields := [('m', [(3, 3)]), ('d', [(0, 3)])],
    ins := fun f => .adc (r (f 'd')) (r (f 'm')) },
  { pat := "0100000110mmmddd", n := 16, fixed := [(6, 10, 0b0100000110)], fields := [('m', [(3, 3)]), ('d', [(0, 3)])],
    ins := fun f => .sbc (r (f 'd')) (r (f 'm')) },
  { pat := "0100000111mmmddd", n := 16, fixed := [(6, 10, 0b0100000111)], fields := [('m', [(3, 3)]), ('d', [(0, 3)])],
    ins := fun f => .ror (r (f 'd')) (r (f 'm')) },
  { pat := "0100001000mmmnnn", n := 16, fixed := [(6, 10, 0b0100001000)], fields := [('m', [(3, 3)]), ('n', [(0, 3)])],
    ins := fun f => .tst (r (f 'n')) (r (f 'm')) },
  -- RSBS Rd,Rn,#0
  { pat := "0100001001nnnddd", n := 16, fixed := [(6, 10, 0b0100001001)], fields := [('n', [(3, 3)]), ('d', [(0, 3)])],
    ins := fun f => .rsb (r (f 'd')) (r (f 'n')) },
  -- CMP Rn,Rm (T1)
  { pat := "0100001010mmmnnn", n := 16, fixed := [(6, 10, 0b0100001010)], fields := [('m', [(3, 3)]), ('n', [(0, 3)])],
    ins := fun f => .cmp (r (f 'n')) (rg (f 'm')) },
  { pat := "0100001011mmmnnn", n := 16, fixed := [(6, 10, 0b0100001011)], fields := [('m', [(3, 3)]), ('n', [(0, 3)])],
    ins := fun f => .cmn (r (f 'n')) (r (f 'm')) },
  { pat := "0100001100mmmddd", n := 16, fixed := [(6, 10, 0b0100001100)], fields := [('m', [(3, 3)]), ('d', [(0, 3)])],
    ins := fun f => .orr (r (f 'd')) (r (f 'm')) },
  -- MULS Rdm,Rn,Rdm
  { pat := "0100001101nnnddd", n := 16, fixed := [(6, 10, 0b0100001101)], fields := [('n', [(3, 3)]), ('d', [(0, 3)])],
    ins := fun f => .mul (r (f 'd')) (r (f 'n')) },
  { pat := "0100001110mmmddd", n := 16, fixed := [(6, 10, 0b0100001110)], fields := [('m', [(3, 3)]), ('d', [(0, 3)])],
    ins := fun f => .bic (r (f 'd')) (r (f 'm')) },
  { pat := "0100001111mmmddd", n := 16, fixed := [(6, 10, 0b0100001111)], fields := [('m', [(3, 3)]), ('d', [(0, 3)])],
    ins := fun f => .mvn (r (f 'd')) (r (f 'm')) },
  -- ADD Rdn,Rm (T2), incl. SP forms
  { pat := "01000100dmmmmddd", n := 16, fixed := [(8, 8, 0b01000100)], fields := [('d', [(7, 1), (0, 3)]), ('m', [(3, 4)])],
    ins := fun f => .add false (r (f 'd')) (r (f 'd')) (rg (f 'm')),
    unpred := fun f => f 'd' == 15 && f 'm' == 15 },
  -- CMP Rn,Rm (T2)
  { pat := "01000101nmmmmnnn", n := 16, fixed := [(8, 8, 0b01000101)], fields := [('n', [(7, 1), (0, 3)]), ('m', [(3, 4)])],
    ins := fun f => .cmp (r (f 'n')) (rg (f 'm')),
    unpred := fun f => (f 'n' < 8 && f 'm' < 8) || f 'n' == 15 || f 'm' == 15 },
  -- MOV Rd,Rm (T1)
  { pat := "01000110dmmmmddd", n := 16, fixed := [(8, 8, 0b01000110)], fields := [('d', [(7, 1), (0, 3)]), ('m', [(3, 4)])],
    ins := fun f => .mov false (r (f 'd')) (rg (f 'm')) },
  { pat := "010001110mmmm000", n := 16, fixed := [(7, 9, 0b010001110), (0, 3, 0b000)], fields := [('m', [(3, 4)])],
    ins := fun f => .bx (r (f 'm')),
    unpred := fun f => f 'm' == 15 },
  { pat := "010001111mmmm000", n := 16, fixed := [(7, 9, 0b010001111), (0, 3, 0b000)], fields := [('m', [(3, 4)])],
    ins := fun f => .blx (r (f 'm')),
    unpred := fun f => f 'm' == 15 }
]

/-- first halfword `01001…` -/
def g09 : List Row := [
  { pat := "01001tttiiiiiiii", n := 16, fixed := [(11, 5, 0b01001)], fields := [('t', [(8, 3)]), ('i', [(0, 8)])],
    ins := fun f => .ldr (r (f 't')) Reg.pc (im (f 'i' * 4)) }
]

/-- first halfword `01010…` -/
def g10 : List Row := [
  { pat := "0101000mmmnnnttt", n := 16, fixed := [(9, 7, 0b0101000)], fields := [('m', [(6, 3)]), ('n', [(3, 3)]), ('t', [(0, 3)])],
    ins := fun f => .str (r (f 't')) (r (f 'n')) (rg (f 'm')) },
  { pat := "0101001mmmnnnttt", n := 16, fixed := [(9, 7, 0b0101001)], fields := [('m', [(6, 3)]), ('n', [(3, 3)]), ('t', [(0, 3)])],
    ins := fun f => .strh (r (f 't')) (r (f 'n')) (rg (f 'm')) },
  { pat := "0101010mmmnnnttt", n := 16, fixed := [(9, 7, 0b0101010)], fields := [('m', [(6, 3)]), ('n', [(3, 3)]), ('t', [(0, 3)])],
    ins := fun f => .strb (r (f 't')) (r (f 'n')) (rg (f 'm')) },
  { pat := "0101011mmmnnnttt", n := 16, fixed := [(9, 7, 0b0101011)], fields := [('m', [(6, 3)]), ('n', [(3, 3)]), ('t', [(0, 3)])],
    ins := fun f => .ldrsb (r (f 't')) (r (f 'n')) (r (f 'm')) }
]

/-- first halfword `01011…` -/
def g11 : List Row := [
  { pat := "0101100mmmnnnttt", n := 16, fixed := [(9, 7, 0b0101100)], fields := [('m', [(6, 3)]), ('n', [(3, 3)]), ('t', [(0, 3)])],
    ins := fun f => .ldr (r (f 't')) (r (f 'n')) (rg (f 'm')) },
  { pat := "0101101mmmnnnttt", n := 16, fixed := [(9, 7, 0b0101101)], fields := [('m', [(6, 3)]), ('n', [(3, 3)]), ('t', [(0, 3)])],
    ins := fun f => .ldrh (r (f 't')) (r (f 'n')) (rg (f 'm')) },
  { pat := "0101110mmmnnnttt", n := 16, fixed := [(9, 7, 0b0101110)], fields := [('m', [(6, 3)]), ('n', [(3, 3)]), ('t', [(0, 3)])],
    ins := fun f => .ldrb (r (f 't')) (r (f 'n')) (rg (f 'm')) },
  { pat := "0101111mmmnnnttt", n := 16, fixed := [(9, 7, 0b0101111)], fields := [('m', [(6, 3)]), ('n', [(3, 3)]), ('t', [(0, 3)])],
    ins := fun f => .ldrsh (r (f 't')) (r (f 'n')) (r (f 'm')) }
]

/-- first halfword `01100…` -/
def g12 : List Row := [
  { pat := "01100iiiiinnnttt", n := 16, fixed := [(11, 5, 0b01100)], fields := [('i', [(6, 5)]), ('n', [(3, 3)]), ('t', [(0, 3)])],
    ins := fun f => .str (r (f 't')) (r (f 'n')) (im (f 'i' * 4)) }
]

/-- first halfword `01101…` -/
def g13 : List Row := [
  { pat := "01101iiiiinnnttt", n := 16, fixed := [(11, 5, 0b01101)], fields := [('i', [(6, 5)]), ('n', [(3, 3)]), ('t', [(0, 3)])],
    ins := fun f => .ldr (r (f 't')) (r (f 'n')) (im (f 'i' * 4)) }
]

/-- first halfword `01110…` -/
def g14 : List Row := [
  { pat := "01110iiiiinnnttt", n := 16, fixed := [(11, 5, 0b01110)], fields := [('i', [(6, 5)]), ('n', [(3, 3)]), ('t', [(0, 3)])],
    ins := fun f => .strb (r (f 't')) (r (f 'n')) (im (f 'i')) }
]

/-- first halfword `01111…` -/
def g15 : List Row := [
  { pat := "01111iiiiinnnttt", n := 16, fixed := [(11, 5, 0b01111)], fields := [('i', [(6, 5)]), ('n', [(3, 3)]), ('t', [(0, 3)])],
    ins := fun f => .ldrb (r (f 't')) (r (f 'n')) (im (f 'i')) }
]

/-- first halfword `10000…` -/
def g16 : List Row := [
  { pat := "10000iiiiinnnttt", n := 16, fixed := [(11, 5, 0b10000)], fields := [('i', [(6, 5)]), ('n', [(3, 3)]), ('t', [(0, 3)])],
    ins := fun f => .strh (r (f 't')) (r (f 'n')) (im (f 'i' * 2)) }
]

/-- first halfword `10001…` -/
def g17 : List Row := [
  { pat := "10001iiiiinnnttt", n := 16, fixed := [(11, 5, 0b10001)], fields := [('i', [(6, 5)]), ('n', [(3, 3)]), ('t', [(0, 3)])],
    ins := fun f => .ldrh (r (f 't')) (r (f 'n')) (im (f 'i' * 2)) }
]

/-- first halfword `10010…` -/
def g18 : List Row := [
  { pat := "10010tttiiiiiiii", n := 16, fixed := [(11, 5, 0b10010)], fields := [('t', [(8, 3)]), ('i', [(0, 8)])],
    ins := fun f => .str (r (f 't')) Reg.sp (im (f 'i' * 4)) }
]

/-- first halfword `10011…` -/
def g19 : List Row := [
  { pat := "10011tttiiiiiiii", n := 16, fixed := [(11, 5, 0b10011)], fields := [('t', [(8, 3)]), ('i', [(0, 8)])],
    ins := fun f => .ldr (r (f 't')) Reg.sp (im (f 'i' * 4)) }
]

/-- first halfword `10100…` -/
def g20 : List Row := [
  { pat := "10100dddiiiiiiii", n := 16, fixed := [(11, 5, 0b10100)], fields := [('d', [(8, 3)]), ('i', [(0, 8)])],
    ins := fun f => .adr (r (f 'd')) ((f 'i' * 4 : Nat) : Int) }
]

/-- first halfword `10101…` -/
def g21 : List Row := [
  { pat := "10101dddiiiiiiii", n := 16, fixed := [(11, 5, 0b10101)], fields := [('d', [(8, 3)]), ('i', [(0, 8)])],
    ins := fun f => .add false (r (f 'd')) Reg.sp (im (f 'i' * 4)) }
]

/-- first halfword `10110…` -/
def g22 : List Row := [
  { pat := "101100000iiiiiii", n := 16, fixed := [(7, 9, 0b101100000)], fields := [('i', [(0, 7)])],
    ins := fun f => .add false Reg.sp Reg.sp (im (f 'i' * 4)) },
  { pat := "101100001iiiiiii", n := 16, fixed := [(7, 9, 0b101100001)], fields := [('i', [(0, 7)])],
    ins := fun f => .sub false Reg.sp Reg.sp (im (f 'i' * 4)) },
  { pat := "1011001000mmmddd", n := 16, fixed := [(6, 10, 0b1011001000)], fields := [('m', [(3, 3)]), ('d', [(0, 3)])],
    ins := fun f => .sxth (r (f 'd')) (r (f 'm')) },
  { pat := "1011001001mmmddd", n := 16, fixed := [(6, 10, 0b1011001001)], fields := [('m', [(3, 3)]), ('d', [(0, 3)])],
    ins := fun f => .sxtb (r (f 'd')) (r (f 'm')) },
  { pat := "1011001010mmmddd", n := 16, fixed := [(6, 10, 0b1011001010)], fields := [('m', [(3, 3)]), ('d', [(0, 3)])],
    ins := fun f => .uxth (r (f 'd')) (r (f 'm')) },
  { pat := "1011001011mmmddd", n := 16, fixed := [(6, 10, 0b1011001011)], fields := [('m', [(3, 3)]), ('d', [(0, 3)])],
    ins := fun f => .uxtb (r (f 'd')) (r (f 'm')) },
  -- registers = '0':M:'000000':list
  { pat := "1011010mrrrrrrrr", n := 16, fixed := [(9, 7, 0b1011010)], fields := [('m', [(8, 1)]), ('r', [(0, 8)])],
    ins := fun f => .push (set (f 'm' * 16384 + f 'r')),
    unpred := fun f => f 'm' * 16384 + f 'r' == 0 },
  -- CPSIE i: im = 0, CPSID i: im = 1
  { pat := "10110110011i0010", n := 16, fixed := [(5, 11, 0b10110110011), (0, 4, 0b0010)], fields := [('i', [(4, 1)])],
    ins := fun f => .cps (f 'i' == 0) }
]

/-- first halfword `10111…` -/
def g23 : List Row := [
  { pat := "1011101000mmmddd", n := 16, fixed := [(6, 10, 0b1011101000)], fields := [('m', [(3, 3)]), ('d', [(0, 3)])],
    ins := fun f => .rev (r (f 'd')) (r (f 'm')) },
  { pat := "1011101001mmmddd", n := 16, fixed := [(6, 10, 0b1011101001)], fields := [('m', [(3, 3)]), ('d', [(0, 3)])],
    ins := fun f => .rev16 (r (f 'd')) (r (f 'm')) },
  { pat := "1011101011mmmddd", n := 16, fixed := [(6, 10, 0b1011101011)], fields := [('m', [(3, 3)]), ('d', [(0, 3)])],
    ins := fun f => .revsh (r (f 'd')) (r (f 'm')) },
  -- registers = P:'0000000':list
  { pat := "1011110prrrrrrrr", n := 16, fixed := [(9, 7, 0b1011110)], fields := [('p', [(8, 1)]), ('r', [(0, 8)])],
    ins := fun f => .pop (set (f 'p' * 32768 + f 'r')),
    unpred := fun f => f 'p' * 32768 + f 'r' == 0 },
  { pat := "10111110iiiiiiii", n := 16, fixed := [(8, 8, 0b10111110)], fields := [('i', [(0, 8)])],
    ins := fun f => .bkpt (f 'i' : Nat) },
  { pat := "1011111100000000", n := 16, fixed := [(0, 16, 0b1011111100000000)], fields := [],
    ins := fun _ => .nop },
  { pat := "1011111100010000", n := 16, fixed := [(0, 16, 0b1011111100010000)], fields := [],
    ins := fun _ => .yield },
  { pat := "1011111100100000", n := 16, fixed := [(0, 16, 0b1011111100100000)], fields := [],
    ins := fun _ => .wfe },
  { pat := "1011111100110000", n := 16, fixed := [(0, 16, 0b1011111100110000)], fields := [],
    ins := fun _ => .wfi },
  { pat := "1011111101000000", n := 16, fixed := [(0, 16, 0b1011111101000000)], fields := [],
    ins := fun _ => .sev }
]

/-- first halfword `11000…` -/
def g24 : List Row := [
  { pat := "11000nnnrrrrrrrr", n := 16, fixed := [(11, 5, 0b11000)], fields := [('n', [(8, 3)]), ('r', [(0, 8)])],
    ins := fun f => .stm (r (f 'n')) (set (f 'r')) }
]

/-- first halfword `11001…` -/
def g25 : List Row := [
  { pat := "11001nnnrrrrrrrr", n := 16, fixed := [(11, 5, 0b11001)], fields := [('n', [(8, 3)]), ('r', [(0, 8)])],
    ins := fun f => .ldm (r (f 'n')) (set (f 'r')) }
]

/-- first halfword `1101…` (UDF and SVC before the conditional branch) -/
def g26 : List Row := [
  { pat := "11011110iiiiiiii", n := 16, fixed := [(8, 8, 0b11011110)], fields := [('i', [(0, 8)])],
    ins := fun f => .udf (f 'i' : Nat) },
  { pat := "11011111iiiiiiii", n := 16, fixed := [(8, 8, 0b11011111)], fields := [('i', [(0, 8)])],
    ins := fun f => .svc (f 'i' : Nat) },
  -- B<c> (T1); cond 1110/1111 are the rows above
  { pat := "1101cccciiiiiiii", n := 16, fixed := [(12, 4, 0b1101)], fields := [('c', [(8, 4)]), ('i', [(0, 8)])],
    ins := fun f => .b (cond (f 'c')) (sx 9 (f 'i' * 2)) }
]

/-- first halfword `11100…` -/
def g28 : List Row := [
  -- B (T2)
  { pat := "11100iiiiiiiiiii", n := 16, fixed := [(11, 5, 0b11100)], fields := [('i', [(0, 11)])],
    ins := fun f => .b Cond.always (sx 12 (f 'i' * 2)) }
]

/-- the 16-bit encodings, grouped by the five leading bits -/
def table16 : List Row :=
  [g00, g01, g02, g03, g04, g05, g06, g07, g08, g09, g10, g11, g12, g13, g14, g15, g16, g17, g18, g19, g20, g21, g22, g23, g24, g25, g26, g28].flatten

/-- the 32-bit encodings -/
def table32 : List Row := [
  { pat := "111100111000nnnn 10001000ssssssss", n := 32, fixed := [(20, 12, 0b111100111000), (8, 8, 0b10001000)], fields := [('n', [(16, 4)]), ('s', [(0, 8)])],
    ins := fun f => .msr (sys (f 's')) (r (f 'n')),
    unpred := fun f => f 'n' == 13 || f 'n' == 15 || (sysm (f 's')).isNone },
  { pat := "1111001111101111 1000ddddssssssss", n := 32, fixed := [(12, 20, 0b11110011111011111000)], fields := [('d', [(8, 4)]), ('s', [(0, 8)])],
    ins := fun f => .mrs (r (f 'd')) (sys (f 's')),
    unpred := fun f => f 'd' == 13 || f 'd' == 15 || (sysm (f 's')).isNone },
  -- option = SY
  { pat := "1111001110111111 1000111101001111", n := 32, fixed := [(0, 32, 0b11110011101111111000111101001111)], fields := [],
    ins := fun _ => .dsb },
  { pat := "1111001110111111 1000111101011111", n := 32, fixed := [(0, 32, 0b11110011101111111000111101011111)], fields := [],
    ins := fun _ => .dmb },
  { pat := "1111001110111111 1000111101101111", n := 32, fixed := [(0, 32, 0b11110011101111111000111101101111)], fields := [],
    ins := fun _ => .isb },
  -- imm32 = imm4:imm12
  { pat := "111101111111iiii 1010iiiiiiiiiiii", n := 32, fixed := [(20, 12, 0b111101111111), (12, 4, 0b1010)], fields := [('i', [(16, 4), (0, 12)])],
    ins := fun f => .udfw (f 'i' : Nat) },
  -- BL: S:I1:I2:imm10:imm11:'0'
  { pat := "11110siiiiiiiiii 11j1kLLLLLLLLLLL", n := 32, fixed := [(27, 5, 0b11110), (14, 2, 0b11), (12, 1, 0b1)], fields := [('s', [(26, 1)]), ('i', [(16, 10)]), ('j', [(13, 1)]), ('k', [(11, 1)]), ('L', [(0, 11)])],
    ins := fun f => .bl (sx 25 (f 's' * 16777216 + ibit (f 'j') (f 's') * 8388608 + ibit (f 'k') (f 's') * 4194304 + f 'i' * 4096 + f 'L' * 2)) }
]

def table : List Row := table16 ++ table32

/-- a row's arithmetic reading is the reading of its diagram string -/
def readsDiagram (rw : Row) : Bool := compile rw.pat.toList == (rw.n, rw.fixed, rw.fields)

/-- the instruction word: halfwords concatenated, first halfword most significant -/
def word : List Nat → Nat
  | [] => 0
  | h :: t => h * 65536 ^ t.length + word t

def rowDecode (rw : Row) (w n : Nat) : Option (Option Instr) :=
  if rw.n = n ∧ fits w rw.fixed then
    some (if rw.unpred (fieldOf w rw.fields) then none else some (rw.ins (fieldOf w rw.fields)))
  else none

def decodeIn : List Row → Nat → Nat → Option Instr
  | [], _, _ => none
  | rw :: rest, w, n =>
    match rowDecode rw w n with
    | some res => res
    | none => decodeIn rest w n

/-- the architectural meaning of one or two halfwords (each `< 65536`) -/
def decode (hws : List Nat) : Option Instr :=
  if hws.all (· < 65536) then decodeIn table (word hws) (16 * hws.length) else none

/-- is the instruction 32 bits wide in the architecture? (`hw1` top five bits 11101/11110/11111) -/
def wide (h0 : Nat) : Bool := 29 ≤ h0 / 2048

end Trion.Arm
