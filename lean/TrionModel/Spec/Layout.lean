import TrionModel.Model.Layout
/-!
# Specification-level notions for C05 (Layer A): the reference cursor along a program

`Ref.next c s` is the reference cursor after statement `s` (what `Ref.pass1` does to its cursor),
`Ref.trace c p` pairs every statement of `p` with the reference cursor in front of it,
`Ref.cursorAfter c p` is the cursor behind `p`, `Ref.bytes c s` the bytes `Ref.pass2` puts for `s` at `c`.

The one side condition of the C05 theorems is stated with them:
* `NoLabelAtTop p`: no label is defined where the reference cursor is 2^32 (or beyond) — there `Ref.pass1`
  is undefined (no byte can follow), while the implementation gives the label the saturated value 0xFFFFFFFF.
(Before fix F26 a second one, `NoAlignAtTop`, was needed: `.align` computed its padding from the saturated
cursor. It now uses the true cursor and the condition is gone.)
-/
namespace Trion.Layout
namespace Ref

/-- the reference cursor after statement `s` -/
def next (c : Option Nat) : Stmt → Option Nat
  | .addr a => some a
  | .label _ => c
  | .const _ _ _ => c
  | .align n => c.map fun x => x + size x (.align n)
  | .raw bs => c.map fun x => x + bs.length
  | .emit len _ _ => c.map fun x => x + len

/-- every statement with the reference cursor in front of it -/
def trace (c : Option Nat) : List Stmt → List (Option Nat × Stmt)
  | [] => []
  | s :: r => (c, s) :: trace (next c s) r

/-- the reference cursor behind `p` -/
def cursorAfter (c : Option Nat) : List Stmt → Option Nat
  | [] => c
  | s :: r => cursorAfter (next c s) r

/-- the bytes `pass2` puts for statement `s` at cursor `c` -/
def bytes (c : Nat) : Stmt → Bytes
  | .raw bs => bs
  | .emit _ _ final => final
  | .align n => placeholder (size c (.align n))
  | _ => []

end Ref

/-- no label is defined where the reference cursor is 2^32 or beyond -/
def NoLabelAtTop (p : List Stmt) : Prop :=
  ∀ c n, (some c, Stmt.label n) ∈ Ref.trace none p → c < top

end Trion.Layout
