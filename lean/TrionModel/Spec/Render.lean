import TrionModel.Model.Syntax
/-!
# Specification: the documented expression syntax as a printer (Layer A)

`Render.arg m t` writes the argument tree `t` as a token sequence for a context that requires binding
strength at least `m`, using **only the parentheses the documented precedence table and left
associativity require**:

* binding strength of a tree: the group number of its top binary operator
  (`|` 0 < `^` 1 < `&` 2 < `<< >>` 3 < `+ -` 4 < `* / %` 5), and 6 for everything else
  (literals, identifiers, strings, unary minus / not, `[..]`, `{..}`, `name(..)`);
* a tree is parenthesised iff its strength is lower than the context requires;
* a binary operator of group `g` requires `g` of its left operand and `g + 1` of its right operand
  (left associative: `a - b - c` is `(a - b) - c`, and `a - (b - c)` needs the parentheses);
* unary minus / not require 6 of their operand, so a binary operand is parenthesised;
* the contents of `( )`, `[ ]`, and the items of `{ , }` / `name( , )` require 0.
-/
namespace Trion

/-- `BinOp::decode` read backwards -/
def BinOp.tok : BinOp → Tok
  | .add => .plus | .sub => .minus | .mul => .mul | .div => .div | .mod => .mod
  | .band => .band | .bor => .bor | .bxor => .bxor | .shl => .shl | .shr => .shr

/-- binding strength of the top node -/
def Arg.prec : Arg → Nat
  | .bin op _ _ => op.group.toNat
  | _ => 6

namespace Render

/-- put `ts` in parentheses iff `b` -/
def paren (b : Bool) (ts : List Tok) : List Tok :=
  if b then .lparen :: ts ++ [.rparen] else ts

mutual
/-- the token sequence of `t` in a context that requires strength `m` -/
def arg (m : Nat) : Arg → List Tok
  | .const v => [.num v]
  | .ident s => [.ident s]
  | .str s => [.str s]
  | .bin op l r =>
    paren (decide (op.group.toNat < m)) (arg op.group.toNat l ++ op.tok :: arg (op.group.toNat + 1) r)
  | .neg a => .minus :: arg 6 a
  | .not a => .not :: arg 6 a
  | .addr a => .lbrack :: arg 0 a ++ [.rbrack]
  | .seq as => .lbrace :: args as ++ [.rbrace]
  | .func name as => .ident name :: .lparen :: args as ++ [.rparen]
/-- a comma-separated argument list -/
def args : Args → List Tok
  | .nil => []
  | .cons a .nil => arg 0 a
  | .cons a (.cons b bs) => arg 0 a ++ .sep :: args (.cons b bs)
end

/-- a statement: `name :`, `. name args ;`, `name args ;` -/
def elemVal : ElemVal → List Tok
  | .label name => [.ident name, .labelMark]
  | .directive name as => .dirMark :: .ident name :: args as ++ [.term]
  | .instruction name as => .ident name :: args as ++ [.term]

end Render
end Trion

/-! ## Well-formed trees (what a text can denote)

Literals are non-negative (`-5` is the tree `neg (const 5)`) and below `2^63`; identifiers and function
names are non-empty. -/
namespace Trion

mutual
def Arg.wf : Arg → Prop
  | .const v => 0 ≤ v ∧ v ≤ i64Max
  | .ident s => s ≠ []
  | .str _ => True
  | .bin _ l r => l.wf ∧ r.wf
  | .neg a => a.wf
  | .not a => a.wf
  | .addr a => a.wf
  | .seq as => as.wf
  | .func name as => name ≠ [] ∧ as.wf
def Args.wf : Args → Prop
  | .nil => True
  | .cons a as => a.wf ∧ as.wf
end

def ElemVal.wf : ElemVal → Prop
  | .label name => name ≠ []
  | .directive name as => name ≠ [] ∧ as.wf
  | .instruction name as => name ≠ [] ∧ as.wf

/-! ## Trees with explicit redundant parentheses

`PArg` is `Arg` plus a node `paren a` that stands for a pair of parentheses written although the
grammar does not require it. `PArg.erase` forgets those nodes; `Render.parg` is `Render.arg` with the
extra case "`paren a` is written `( a )`". Every way of adding redundant parentheses around
sub-expressions of a tree `t` is a `p : PArg` with `p.erase = t`. -/

mutual
inductive PArg where
  | const (v : Int)
  | ident (s : Bytes)
  | str (s : Bytes)
  | bin (op : BinOp) (lhs rhs : PArg)
  | neg (a : PArg)
  | not (a : PArg)
  | addr (a : PArg)
  | seq (as : PArgs)
  | func (name : Bytes) (as : PArgs)
  | paren (a : PArg)
inductive PArgs where
  | nil
  | cons (a : PArg) (as : PArgs)
end

mutual
def PArg.erase : PArg → Arg
  | .const v => .const v
  | .ident s => .ident s
  | .str s => .str s
  | .bin op l r => .bin op l.erase r.erase
  | .neg a => .neg a.erase
  | .not a => .not a.erase
  | .addr a => .addr a.erase
  | .seq as => .seq as.erase
  | .func name as => .func name as.erase
  | .paren a => a.erase
def PArgs.erase : PArgs → Args
  | .nil => .nil
  | .cons a as => .cons a.erase as.erase
end

mutual
/-- a tree without redundant parentheses -/
def PArg.ofArg : Arg → PArg
  | .const v => .const v
  | .ident s => .ident s
  | .str s => .str s
  | .bin op l r => .bin op (PArg.ofArg l) (PArg.ofArg r)
  | .neg a => .neg (PArg.ofArg a)
  | .not a => .not (PArg.ofArg a)
  | .addr a => .addr (PArg.ofArg a)
  | .seq as => .seq (PArgs.ofArgs as)
  | .func name as => .func name (PArgs.ofArgs as)
def PArgs.ofArgs : Args → PArgs
  | .nil => .nil
  | .cons a as => .cons (PArg.ofArg a) (PArgs.ofArgs as)
end

def PArg.prec : PArg → Nat
  | .bin op _ _ => op.group.toNat
  | _ => 6

mutual
def PArg.wf : PArg → Prop
  | .const v => 0 ≤ v ∧ v ≤ i64Max
  | .ident s => s ≠ []
  | .str _ => True
  | .bin _ l r => l.wf ∧ r.wf
  | .neg a => a.wf
  | .not a => a.wf
  | .addr a => a.wf
  | .seq as => as.wf
  | .func name as => name ≠ [] ∧ as.wf
  | .paren a => a.wf
def PArgs.wf : PArgs → Prop
  | .nil => True
  | .cons a as => a.wf ∧ as.wf
end

namespace Render
mutual
/-- `Render.arg` for trees with explicit redundant parentheses -/
def parg (m : Nat) : PArg → List Tok
  | .const v => [.num v]
  | .ident s => [.ident s]
  | .str s => [.str s]
  | .bin op l r =>
    paren (decide (op.group.toNat < m)) (parg op.group.toNat l ++ op.tok :: parg (op.group.toNat + 1) r)
  | .neg a => .minus :: parg 6 a
  | .not a => .not :: parg 6 a
  | .addr a => .lbrack :: parg 0 a ++ [.rbrack]
  | .seq as => .lbrace :: pargs as ++ [.rbrace]
  | .func name as => .ident name :: .lparen :: pargs as ++ [.rparen]
  | .paren a => .lparen :: parg 0 a ++ [.rparen]
def pargs : PArgs → List Tok
  | .nil => []
  | .cons a .nil => parg 0 a
  | .cons a (.cons b bs) => parg 0 a ++ .sep :: pargs (.cons b bs)
end
end Render

end Trion
