import TrionModel.Model.Syntax
/-!
# Specification: the documented expression syntax as a printer (Layer A)

`Render.arg m t` writes the argument tree `t` as a token sequence for a context that requires binding
strength at least `m`, using **only the parentheses the documented precedence table and left
associativity require**:

* binding strength of a tree: the group number of its top binary operator
  (`|` 0 < `^` 1 < `&` 2 < `<< >>` 3 < `+ -` 4 < `* / %` 5), and 6 for everything else
  (literals, identifiers, strings, unary minus / not, `[..]`, `{..}`, `name(..)`);
* a tree is parenthesised iff its strength is lower than the context requires;
* a binary operator of group `g` requires `g` of its left operand and `g + 1` of its right operand
  (left associative: `a - b - c` is `(a - b) - c`, and `a - (b - c)` needs the parentheses);
* unary minus / not require 6 of their operand, so a binary operand is parenthesised;
* the contents of `( )`, `[ ]`, and the items of `{ , }` / `name( , )` require 0.
-/
namespace Trion

/-- `BinOp::decode` read backwards -/
def BinOp.tok : BinOp → Tok
  | .add => .plus | .sub => .minus | .mul => .mul | .div => .div | .mod => .mod
  | .band => .band | .bor => .bor | .bxor => .bxor | .shl => .shl | .shr => .shr

/-- binding strength of the top node -/
def Arg.prec : Arg → Nat
  | .bin op _ _ => op.group.toNat
  | _ => 6

namespace Render

/-- put `ts` in parentheses iff `b` -/
def paren (b : Bool) (ts : List Tok) : List Tok :=
  if b then .lparen :: ts ++ [.rparen] else ts

mutual
/-- the token sequence of `t` in a context that requires strength `m` -/
def arg (m : Nat) : Arg → List Tok
  | .const v => [.num v]
  | .ident s => [.ident s]
  | .str s => [.str s]
  | .bin op l r =>
    paren (decide (op.group.toNat < m)) (arg op.group.toNat l ++ op.tok :: arg (op.group.toNat + 1) r)
  | .neg a => .minus :: arg 6 a
  | .not a => .not :: arg 6 a
  | .addr a => .lbrack :: arg 0 a ++ [.rbrack]
  | .seq as => .lbrace :: args as ++ [.rbrace]
  | .func name as => .ident name :: .lparen :: args as ++ [.rparen]
/-- a comma-separated argument list -/
def args : Args → List Tok
  | .nil => []
  | .cons a .nil => arg 0 a
  | .cons a (.cons b bs) => arg 0 a ++ .sep :: args (.cons b bs)
end

/-- a statement: `name :`, `. name args ;`, `name args ;` -/
def elemVal : ElemVal → List Tok
  | .label name => [.ident name, .labelMark]
  | .directive name as => .dirMark :: .ident name :: args as ++ [.term]
  | .instruction name as => .ident name :: args as ++ [.term]

end Render
end Trion
