import TrionModel.Spec.C04
/-!
# C04 specification, extension: operands that mix ONE register name with numbers by `+` / `−`

`R1 + 0`, `[R1 + 2 + 3]`, `[4 + R1 + 4]`, `[R1 + (2 * 4)]`, `[R1 + 8 - label + label]` …: a sum of one register and
register-free expressions (subtraction only of register-free expressions).  `sumForm T x = some (rs, c)`: the register
names of the sum in reading order and the integer value of the rest, computed with exact integer arithmetic from the
values (`value`) of the maximal register-free sub-expressions.  An address `[x]` with `sumForm T x = some ([Rn], c)`
means base `Rn`, offset `c`; a register-or-integer operand with `sumForm T a = some ([Rn], 0)` means `Rn`.
-/
namespace Trion.C04
open Trion Trion.Front

def sumForm (T : SymTable) : Arg → Option (List Bytes × Int)
  | .ident s => if isRegister s then some ([s], 0) else (value T (.ident s)).map fun v => ([], v)
  | .bin .add l r =>
    if expr (.bin .add l r) then (value T (.bin .add l r)).map fun v => ([], v)
    else match sumForm T l, sumForm T r with
      | some (a, c), some (b, d) => some (a ++ b, c + d)
      | _, _ => none
  | .bin .sub l r =>
    if expr (.bin .sub l r) then (value T (.bin .sub l r)).map fun v => ([], v)
    else match sumForm T l, sumForm T r with
      | some (a, c), some ([], d) => some (a, c - d)
      | _, _ => none
  | x => if expr x then (value T x).map fun v => ([], v) else none

/-- built from register names and register-free expressions by `+`, and by `−` of a register-free expression -/
def sumShaped : Arg → Bool
  | .ident _ => true
  | .bin .add l r => expr (.bin .add l r) || (sumShaped l && sumShaped r)
  | .bin .sub l r => expr (.bin .sub l r) || (sumShaped l && expr r)
  | x => expr x

/-- number of register names in the tree (as far as `sumShaped` looks) -/
def regCount : Arg → Nat
  | .ident s => if isRegister s then 1 else 0
  | .bin .add l r => if expr (.bin .add l r) then 0 else regCount l + regCount r
  | .bin .sub l r => if expr (.bin .sub l r) then 0 else regCount l
  | _ => 0

/-- a sum with exactly one register name -/
def oneReg (x : Arg) : Bool := sumShaped x && regCount x == 1

/-- the extended meaning of what stands between `[` and `]` -/
def mem2 (T : SymTable) (x : Arg) : Option (Reg × ImmReg) :=
  match mem T x with
  | some p => some p
  | none =>
    match sumForm T x with
    | some ([b], c) => (regl b).map fun r => (r, .imm c)
    | _ => none

/-- the extended meaning of an operand -/
def denote2 (T : SymTable) (k : Kind) (a : Arg) : Option OperandValue :=
  match denote T k a with
  | some v => some v
  | none =>
    match k, a with
    | .immReg, a =>
      (match sumForm T a with
       | some ([b], c) => if c = 0 then (regl b).map fun r => .immReg (.reg r) else none
       | _ => none)
    | .address, .addr x => (mem2 T x).map fun p => .address p.1 (some p.2)
    | .addrOffset, .addr x => (mem2 T x).map fun p => .address p.1 (some p.2)
    | _, _ => none

def denoteAll2 (T : SymTable) : List Kind → List Arg → Option (List OperandValue)
  | [], [] => some []
  | k :: ks, a :: as =>
    match denote2 T k a, denoteAll2 T ks as with
    | some v, some vs => some (v :: vs)
    | _, _ => none
  | _, _ => none

/-- the extended meaning of a statement -/
def means2 (T : SymTable) (A : Nat) (name : Bytes) (args : List Arg) : Option Instr :=
  match mnemonic name with
  | none => none
  | some t =>
    match denoteAll2 T (sig t) args with
    | none => none
    | some vs => meaning A t vs

/-- the extended operand forms: the documented ones, and sums with one register name -/
def doc2 : Arg → Bool
  | .addr x => docMem x || oneReg x
  | .bin op l r => expr (.bin op l r) || oneReg (.bin op l r)
  | a => doc a

def wellFormed2 (T : SymTable) : List Kind → List Arg → Prop
  | k :: ks, a :: as => (evaluated k = true → valued T a = true ∧ lits a = true ∧ doc2 a = true) ∧ wellFormed2 T ks as
  | _, _ => True

end Trion.C04
