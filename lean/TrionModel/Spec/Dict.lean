/-!
# Specification of the memory map (Layer A): a plain address-indexed dictionary

`Dict = Nat → Option UInt8`. The operations are what the property text says a dictionary does:
`put` overwrites a range, `remove` deletes the maximal run of occupied addresses containing an
address, `removeRange` deletes an inclusive range, `clear` deletes everything.
Import-free and executable.
-/
namespace Trion.Dict

/-- address ↦ byte -/
abbrev Dict := Nat → Option UInt8

def empty : Dict := fun _ => none

/-- write `d` at `a, a+1, …` -/
def put (D : Dict) (a : Nat) (d : List UInt8) : Dict :=
  fun k => if a ≤ k ∧ k < a + d.length then d[k - a]? else D k

/-- number of addresses among `a … a+n-1` that are unoccupied -/
def fresh (D : Dict) (a n : Nat) : Nat :=
  ((List.range n).filter fun k => (D (a + k)).isNone).length

/-- number of addresses among `a … a+n-1` that are occupied -/
def occupied (D : Dict) (a n : Nat) : Nat :=
  ((List.range n).filter fun k => (D (a + k)).isSome).length

/-- every address between `a` and `k` (inclusive, either order) is occupied -/
def connected (D : Dict) (a k : Nat) : Bool :=
  (List.range (max a k - min a k + 1)).all fun j => (D (min a k + j)).isSome

/-- delete the maximal run of occupied addresses that contains `a` (nothing if `a` is unoccupied) -/
def remove (D : Dict) (a : Nat) : Dict :=
  fun k => if connected D a k then none else D k

/-- delete the inclusive range `lo … hi` -/
def removeRange (D : Dict) (lo hi : Nat) : Dict :=
  fun k => if lo ≤ k ∧ k ≤ hi then none else D k

def clear (_ : Dict) : Dict := empty

/-- `[f, l]` is a maximal run of occupied addresses -/
def IsRun (D : Dict) (f l : Nat) : Prop :=
  f ≤ l ∧ (∀ k, f ≤ k → k ≤ l → (D k).isSome) ∧ (∀ k, k + 1 = f → D k = none) ∧ D (l + 1) = none

/-- the bytes at `a, a+1, …, a+n-1` (those that are present) -/
def read (D : Dict) (a : Nat) : Nat → List UInt8
  | 0 => []
  | n + 1 => match D a with
    | some b => b :: read D (a + 1) n
    | none => read D (a + 1) n

end Trion.Dict
