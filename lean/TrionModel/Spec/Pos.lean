import TrionModel.Model.Syntax
/-!
# Specification of source positions (Layer A, import-free apart from the shared types)

A position is `(line, column)`, both 1-based. The line is one more than the number of line feeds in the
text that precedes the item; the column is one more than the number of Unicode scalar values since the
last line feed. In UTF-8 a scalar value is one non-continuation byte (`10xxxxxx` bytes continue one).
-/
namespace Trion.Pos

/-- UTF-8 continuation byte `10xxxxxx` -/
def isCont (b : UInt8) : Bool := decide (128 ≤ b.toNat) && decide (b.toNat < 192)

/-- number of line feeds -/
def countLF (d : Bytes) : Nat := (d.filter fun b => b.toNat == 10).length

/-- number of Unicode scalar values (= non-continuation bytes) -/
def scalars (d : Bytes) : Nat := (d.filter fun b => !isCont b).length

/-- the text after the last line feed (everything when there is none); characterised by
`Trion.Pos.lastLine_spec` in `Props/C12.lean` -/
def lastLine : Bytes → Bytes
  | [] => []
  | b :: d => if countLF d > 0 then lastLine d else if b.toNat == 10 then d else b :: d

/-- position of the item that follows the text `pre` -/
def of (pre : Bytes) : Nat × Nat := (1 + countLF pre, 1 + scalars (lastLine pre))

/-- the same, one byte at a time (used for composition; equal to `of`, see `Lemmas/Lex`) -/
def step (p : Nat × Nat) (b : UInt8) : Nat × Nat :=
  if b.toNat == 10 then (p.1 + 1, 1) else if isCont b then p else (p.1, p.2 + 1)

/-- position after reading `d` starting at position `p` -/
def adv (p : Nat × Nat) (d : Bytes) : Nat × Nat := d.foldl step p

end Trion.Pos
