import TrionModel.Model.Simp
import TrionModel.Spec.Arith
import TrionModel.Driver.Util
/-! Line protocol for the simplifier / evaluator model.

Trees are written in prefix notation, one token per node, tokens separated by blanks:
`c<int>` constant, `i<hex>` identifier, `s<hex>` string (hex of the UTF-8 bytes, `-` when empty),
`+ - * / % & | ^ < >` the ten binary operators (`<` is `<<`, `>` is `>>`) followed by two trees,
`n` negate, `!` not, `@` address followed by one tree, `q<k>` sequence of `k` trees,
`f<k>:<hex>` function `<hex>` with `k` argument trees.

* `simp simplify <tree>`   → `ok <0|1> <tree>` | `err badtype <kind> <op>` | `err overflow <kind>` | `panic`
* `simp neutralize <tree>` → likewise for `neutralize`
* `simp evaluate <binding>* T <tree>` with bindings `k:<hex>=<int>` (known), `d:<hex>` (deferred),
  `r:<hex>` (register); every other name is not found
  → `ok <0|1> <cause hex | none> <tree>` | `err nosuch <hex>` | `err badtype ..` | `err overflow ..` | `panic`
* `simp evaluatet …`        → like `evaluate`, but `err nosuch <hex> <tree>` carries the tree the call leaves behind
* `simp spec <tree>`       → `ok <int>` | `err <kind>` (the Layer-A specification `Arith.eval`)
* `simp valc <binding>* T <tree>` → `some <int>` | `none`
-/
namespace Trion.Driver.Simp
open Trion Trion.Driver Trion.Simp

def hexOfBytes (b : Bytes) : String := bytesToHex (b.map (·.toNat))
def bytesOfHex (s : String) : Option Bytes := (parseHexBytes s).map (·.map Nat.toUInt8)

def opTok : BinOp → String
  | .add => "+" | .sub => "-" | .mul => "*" | .div => "/" | .mod => "%"
  | .band => "&" | .bor => "|" | .bxor => "^" | .shl => "<" | .shr => ">"

def tokOp : String → Option BinOp
  | "+" => some .add | "-" => some .sub | "*" => some .mul | "/" => some .div | "%" => some .mod
  | "&" => some .band | "|" => some .bor | "^" => some .bxor | "<" => some .shl | ">" => some .shr
  | _ => none

mutual
partial def showArg : Arg → List String → List String
  | .const v, acc => s!"c{v}" :: acc
  | .ident s, acc => ("i" ++ hexOfBytes s) :: acc
  | .str s, acc => ("s" ++ hexOfBytes s) :: acc
  | .bin op l r, acc => opTok op :: showArg l (showArg r acc)
  | .neg a, acc => "n" :: showArg a acc
  | .not a, acc => "!" :: showArg a acc
  | .addr a, acc => "@" :: showArg a acc
  | .seq as, acc => s!"q{as.length}" :: showArgs as acc
  | .func n as, acc => (s!"f{as.length}:" ++ hexOfBytes n) :: showArgs as acc
partial def showArgs : Args → List String → List String
  | .nil, acc => acc
  | .cons a as, acc => showArg a (showArgs as acc)
end

def render (a : Arg) : String := " ".intercalate (showArg a [])

mutual
/-- parse one tree from the front of the token list -/
partial def parseArg : List String → Option (Arg × List String)
  | [] => none
  | t :: rest =>
    match tokOp t with
    | some op =>
      match parseArg rest with
      | some (l, rest) =>
        match parseArg rest with
        | some (r, rest) => some (.bin op l r, rest)
        | none => none
      | none => none
    | none =>
      if t == "n" then (parseArg rest).map fun (a, r) => (.neg a, r)
      else if t == "!" then (parseArg rest).map fun (a, r) => (.not a, r)
      else if t == "@" then (parseArg rest).map fun (a, r) => (.addr a, r)
      else
        let body := (t.drop 1).toString
        match t.front with
        | 'c' => body.toInt?.map fun v => (.const v, rest)
        | 'i' => (bytesOfHex body).map fun b => (.ident b, rest)
        | 's' => (bytesOfHex body).map fun b => (.str b, rest)
        | 'q' =>
          match body.toNat? with
          | some k => (parseArgs k rest).map fun (as, r) => (.seq as, r)
          | none => none
        | 'f' =>
          match body.splitOn ":" with
          | [k, name] =>
            match k.toNat?, bytesOfHex name with
            | some k, some name => (parseArgs k rest).map fun (as, r) => (.func name as, r)
            | _, _ => none
          | _ => none
        | _ => none
partial def parseArgs : Nat → List String → Option (Args × List String)
  | 0, rest => some (.nil, rest)
  | k+1, rest =>
    match parseArg rest with
    | some (a, rest) => (parseArgs k rest).map fun (as, r) => (.cons a as, r)
    | none => none
end

def parseTree (ts : List String) : Option Arg :=
  match parseArg ts with
  | some (a, []) => some a
  | _ => none

def tyName : ArgTy → String
  | .const => "constant" | .ident => "identifier" | .str => "string"
  | .add => "add" | .neg => "negate" | .sub => "subtract" | .mul => "multiply" | .div => "divide" | .mod => "modulo"
  | .not => "not" | .band => "bitand" | .bor => "bitor" | .bxor => "bitxor" | .shl => "leftshift" | .shr => "rightshift"
  | .addr => "address" | .seq => "sequence" | .func => "function"

def ovName : OvKind → String
  | .add => "add" | .negate => "negate" | .sub => "subtract" | .mul => "multiply" | .divZero => "dividebyzero"
  | .div => "divide" | .modZero => "modulobyzero" | .mod => "modulo" | .shl => "leftshift" | .shr => "rightshift"

def showErr : SimpErr → String
  | .badType k op => s!"err badtype {tyName k} {tyName op}"
  | .overflow k => s!"err overflow {ovName k}"

def showRes : Res (Bool × Arg) → String
  | .ok (c, a) => s!"ok {if c then 1 else 0} {render a}"
  | .err e => showErr e
  | .panic => "panic"

def showEvT : EvT Arg → String
  | .ok ev a =>
    let cause := match ev.cause with | some b => hexOfBytes b | none => "none"
    s!"ok {if ev.changed then 1 else 0} {cause} {render a}"
  | .nosuch n a => s!"err nosuch {hexOfBytes n} {render a}"
  | .err e => showErr e
  | .panic => "panic"

def showERes : ERes (Ev × Arg) → String
  | .ok (ev, a) =>
    let cause := match ev.cause with | some b => hexOfBytes b | none => "none"
    s!"ok {if ev.changed then 1 else 0} {cause} {render a}"
  | .err (.noSuchVar n) => s!"err nosuch {hexOfBytes n}"
  | .err (.simp e) => showErr e
  | .panic => "panic"

inductive Binding where
  | known (n : Bytes) (v : Int)
  | deferred (n : Bytes)
  | reg (n : Bytes)

def parseBinding (t : String) : Option Binding :=
  match t.splitOn ":" with
  | ["k", rest] =>
    match rest.splitOn "=" with
    | [n, v] => match bytesOfHex n, v.toInt? with
      | some n, some v => some (.known n v)
      | _, _ => none
    | _ => none
  | ["d", n] => (bytesOfHex n).map .deferred
  | ["r", n] => (bytesOfHex n).map .reg
  | _ => none

def lookupOf (bs : List Binding) (n : Bytes) : Lookup :=
  match bs with
  | [] => .notFound
  | .known m v :: r => if m = n then .found v else lookupOf r n
  | .deferred m :: r => if m = n then .deferred else lookupOf r n
  | .reg _ :: r => lookupOf r n

def isRegOf (bs : List Binding) (n : Bytes) : Bool :=
  bs.any fun | .reg m => m = n | _ => false

def envOf (bs : List Binding) (n : Bytes) : Option Int :=
  match lookupOf bs n with
  | .found v => some v
  | _ => none

def splitAtT (ts : List String) : Option (List String × List String) :=
  let pre := ts.takeWhile (· ≠ "T")
  match ts.drop pre.length with
  | _ :: tree => some (pre, tree)
  | [] => none

def withEnv (ts : List String) (k : List Binding → Arg → String) : String :=
  match splitAtT ts with
  | some (pre, tree) =>
    match pre.mapM parseBinding, parseTree tree with
    | some bs, some a => k bs a
    | _, _ => "bad-op"
  | none => "bad-op"

def handle : List String → String
  | "simplify" :: ts => match parseTree ts with
    | some a => showRes (simplify a)
    | none => "bad-op"
  | "neutralize" :: ts => match parseTree ts with
    | some a => showRes (neutralize a)
    | none => "bad-op"
  | "evaluate" :: ts => withEnv ts fun bs a => showERes (evaluate (lookupOf bs) (isRegOf bs) a)
  | "evaluatet" :: ts => withEnv ts fun bs a => showEvT (evaluateT (lookupOf bs) (isRegOf bs) a)
  | "valc" :: ts => withEnv ts fun bs a => match valC (envOf bs) a with
    | some v => s!"some {v}"
    | none => "none"
  | "spec" :: ts => match parseTree ts with
    | some a => match Arith.eval a with
      | .ok v => s!"ok {v}"
      | .error e => s!"err {Arith.errName e}"
    | none => "bad-op"
  | "inscope" :: ts => match parseTree ts with
    | some a => if Arith.inScope a then "1" else "0"
    | none => "bad-op"
  | _ => "bad-op"

end Trion.Driver.Simp
