import TrionModel.Model.Crc
import TrionModel.Driver.Util
/-! Line protocol for the CRC model.

* `crc table`                → 256 table entries, 8 hex digits each, space separated
* `crc update <state> <byte>`→ new state (hex)
* `crc run <state> <hexbytes>` → state after feeding the bytes
* `crc spec <state> <hexbytes>` → the same through the bit-serial specification
-/
namespace Trion.Driver.Crc
open Trion.Driver Trion.Crc

def w (n : Nat) : W := BitVec.ofNat 32 n
def showW (x : W) : String := toHex 8 x.toNat

def handle : List String → String
  | ["table"] => " ".intercalate ((List.range 256).map fun i => showW table[i]!)
  | ["update", s, b] => match parseHex s, parseHex b with
    | some s, some b => if s < 2^32 ∧ b < 256 then showW (update (w s) (BitVec.ofNat 8 b)) else "bad-op"
    | _, _ => "bad-op"
  | ["run", s, bs] => match parseHex s, parseHexBytes bs with
    | some s, some bs => if s < 2^32 then showW (updateSlice (w s) (bs.map (BitVec.ofNat 8))) else "bad-op"
    | _, _ => "bad-op"
  | ["spec", s, bs] => match parseHex s, parseHexBytes bs with
    | some s, some bs => if s < 2^32 then showW (Spec.run (w s) (bs.map (BitVec.ofNat 8))) else "bad-op"
    | _, _ => "bad-op"
  | _ => "bad-op"

end Trion.Driver.Crc
