import TrionModel.Model.Parse
import TrionModel.Model.ParseIter
import TrionModel.Spec.Render
import TrionModel.Driver.Util
/-! Line protocol for the parser model and the rendering specification.

* `parse toks <endLine> <endCol> <err> <tok>*` → what `Parse.all` yields on that `LexOut`
    - `<err>` is `-` or `<kind>:<line>:<col>`, kind ∈ `bu bc bn bh bs ux<scalar>`
    - `<tok>` is `<line>:<col>:<code>`, code ∈ `sep term lm dm plus minus mul div mod not band bor bxor
      shl shr lp rp lb rb lc rc n<int> i<hex> s<hex>`
    - reply: items joined by ` | ` (`-` if there are none), `PANIC`, or `FUEL`
        `L <line> <col> <hexname>` / `D <line> <col> <hexname> (args <arg>*)` / `I …`
        `E <line> <col> tok <kind> <line> <col>` / `E <line> <col> exp <expect> <have>`
      with `<arg>` = `#<int>` `i<hex>` `s<hex>` `(<op> <arg> <arg>)` `(neg <arg>)` `(not <arg>)` `(addr <arg>)`
      `(seq <arg>*)` `(fn <hexname> <arg>*)`
* `parse calls <n> <endLine> <endCol> <err> <tok>*` → the results of `n` successive `Parser::next` calls of the
  call-by-call model (`Model/ParseIter.lean`), joined by ` | `: an element, an error, or `none`; `PANIC`
* `parse render <arg>`                      → `Render.arg 0` as token codes
* `parse rstmt <L|D|I> <hexname> <arg>*`    → `Render.elemVal` as token codes
* `parse wf <arg>`                          → `1`/`0`: the tree satisfies `Arg.wf` (Bool version)
-/
namespace Trion.Driver.Parse
open Trion Trion.Driver Trion.Parse

def hexOf (bs : Bytes) : String := String.join (bs.map fun b => toHex 2 b.toNat)

def unhex (s : String) : Option Bytes := (parseHexBytes s).map fun l => l.map (·.toUInt8)

def showInt (v : Int) : String := if v < 0 then "-" ++ toString v.natAbs else toString v.toNat

def parseInt (s : String) : Option Int :=
  match s.toList with
  | '-' :: r => (String.ofList r).toNat?.map fun n => -(n : Int)
  | _ => s.toNat?.map fun n => (n : Int)

def opName : BinOp → String
  | .add => "add" | .sub => "sub" | .mul => "mul" | .div => "div" | .mod => "mod"
  | .band => "band" | .bor => "bor" | .bxor => "bxor" | .shl => "shl" | .shr => "shr"

def opOfName : String → Option BinOp
  | "add" => some .add | "sub" => some .sub | "mul" => some .mul | "div" => some .div | "mod" => some .mod
  | "band" => some .band | "bor" => some .bor | "bxor" => some .bxor | "shl" => some .shl | "shr" => some .shr
  | _ => none

def tokCode : Tok → String
  | .sep => "sep" | .term => "term" | .labelMark => "lm" | .dirMark => "dm"
  | .plus => "plus" | .minus => "minus" | .mul => "mul" | .div => "div" | .mod => "mod"
  | .not => "not" | .band => "band" | .bor => "bor" | .bxor => "bxor" | .shl => "shl" | .shr => "shr"
  | .num v => "n" ++ showInt v | .ident s => "i" ++ hexOf s | .str s => "s" ++ hexOf s
  | .lparen => "lp" | .rparen => "rp" | .lbrack => "lb" | .rbrack => "rb" | .lbrace => "lc" | .rbrace => "rc"

def tokOfCode (s : String) : Option Tok :=
  match s with
  | "sep" => some .sep | "term" => some .term | "lm" => some .labelMark | "dm" => some .dirMark
  | "plus" => some .plus | "minus" => some .minus | "mul" => some .mul | "div" => some .div | "mod" => some .mod
  | "not" => some .not | "band" => some .band | "bor" => some .bor | "bxor" => some .bxor
  | "shl" => some .shl | "shr" => some .shr
  | "lp" => some .lparen | "rp" => some .rparen | "lb" => some .lbrack | "rb" => some .rbrack
  | "lc" => some .lbrace | "rc" => some .rbrace
  | _ =>
    match s.toList with
    | 'n' :: r => (parseInt (String.ofList r)).map .num
    | 'i' :: r => (unhex (String.ofList r)).map .ident
    | 's' :: r => (unhex (String.ofList r)).map .str
    | _ => none

def tokenOf (w : String) : Option Token :=
  match w.splitOn ":" with
  | [l, c, code] => match l.toNat?, c.toNat?, tokOfCode code with
    | some l, some c, some t => some ⟨l, c, t⟩
    | _, _, _ => none
  | _ => none

def kindCode : LexErrKind → String
  | .badUnicode => "bu" | .blockComment => "bc" | .badNumber => "bn" | .badCharacter => "bh"
  | .badString => "bs" | .unexpected c => "ux" ++ toString c

def kindOfCode (s : String) : Option LexErrKind :=
  match s with
  | "bu" => some .badUnicode | "bc" => some .blockComment | "bn" => some .badNumber
  | "bh" => some .badCharacter | "bs" => some .badString
  | _ => match s.toList with
    | 'u' :: 'x' :: r => (String.ofList r).toNat?.map .unexpected
    | _ => none

def errOf (w : String) : Option (Option LexErr) :=
  if w = "-" then some none else
  match w.splitOn ":" with
  | [k, l, c] => match kindOfCode k, l.toNat?, c.toNat? with
    | some k, some l, some c => some (some ⟨l, c, k⟩)
    | _, _, _ => none
  | _ => none

mutual
partial def showArg : Arg → String
  | .const v => "#" ++ showInt v
  | .ident s => "i" ++ hexOf s
  | .str s => "s" ++ hexOf s
  | .bin op l r => "(" ++ opName op ++ " " ++ showArg l ++ " " ++ showArg r ++ ")"
  | .neg a => "(neg " ++ showArg a ++ ")"
  | .not a => "(not " ++ showArg a ++ ")"
  | .addr a => "(addr " ++ showArg a ++ ")"
  | .seq as => "(seq" ++ showArgs as ++ ")"
  | .func n as => "(fn " ++ hexOf n ++ showArgs as ++ ")"
partial def showArgs : Args → String
  | .nil => ""
  | .cons a as => " " ++ showArg a ++ showArgs as
end

def showElem (e : Element) : String :=
  match e.val with
  | .label n => s!"L {e.line} {e.col} {hexOf n}"
  | .directive n as => s!"D {e.line} {e.col} {hexOf n} (args{showArgs as})"
  | .instruction n as => s!"I {e.line} {e.col} {hexOf n} (args{showArgs as})"

def showErr (e : ParseErr) : String :=
  match e.kind with
  | .token t => s!"E {e.line} {e.col} tok {kindCode t.kind} {t.line} {t.col}"
  | .expected ex hv => s!"E {e.line} {e.col} exp {ex} {hv}"

def showOutcome : Outcome → String
  | .panic => "PANIC"
  | .fuel => "FUEL"
  | .done els err =>
    let items := els.map showElem ++ (match err with | some e => [showErr e] | none => [])
    if items.isEmpty then "-" else " | ".intercalate items

/-! s-expression reader for argument trees -/

def skipSp : List Char → List Char
  | ' ' :: r => skipSp r
  | cs => cs

def takeWord : List Char → List Char → List Char × List Char
  | acc, [] => (acc.reverse, [])
  | acc, c :: r => if c = ' ' ∨ c = '(' ∨ c = ')' then (acc.reverse, c :: r) else takeWord (c :: acc) r

mutual
partial def readArg (cs : List Char) : Option (Arg × List Char) :=
  match skipSp cs with
  | '(' :: r =>
    let (w, r) := takeWord [] r
    let w := String.ofList w
    match w with
    | "neg" => do let (a, r) ← readArg r; let r ← closeP r; pure (.neg a, r)
    | "not" => do let (a, r) ← readArg r; let r ← closeP r; pure (.not a, r)
    | "addr" => do let (a, r) ← readArg r; let r ← closeP r; pure (.addr a, r)
    | "seq" => do let (as, r) ← readArgs r; pure (.seq (Args.ofList as), r)
    | "fn" => do
      let (n, r) := takeWord [] (skipSp r)
      let n ← unhex (String.ofList n)
      let (as, r) ← readArgs r
      pure (.func n (Args.ofList as), r)
    | _ => do
      let op ← opOfName w
      let (a, r) ← readArg r
      let (b, r) ← readArg r
      let r ← closeP r
      pure (.bin op a b, r)
  | '#' :: r =>
    let (w, r) := takeWord [] r
    (parseInt (String.ofList w)).map fun v => (.const v, r)
  | 'i' :: r =>
    let (w, r) := takeWord [] r
    (unhex (String.ofList w)).map fun v => (.ident v, r)
  | 's' :: r =>
    let (w, r) := takeWord [] r
    (unhex (String.ofList w)).map fun v => (.str v, r)
  | _ => none
/-- arguments up to and including the closing parenthesis -/
partial def readArgs (cs : List Char) : Option (List Arg × List Char) :=
  match skipSp cs with
  | ')' :: r => some ([], r)
  | [] => none
  | cs => do
    let (a, r) ← readArg cs
    let (as, r) ← readArgs r
    pure (a :: as, r)
partial def closeP (cs : List Char) : Option (List Char) :=
  match skipSp cs with
  | ')' :: r => some r
  | _ => none
end

def readTree (ws : List String) : Option Arg :=
  match readArg (" ".intercalate ws).toList with
  | some (a, r) => if (skipSp r).isEmpty then some a else none
  | none => none

/-- arguments until the end of the line -/
partial def readTrees (cs : List Char) : Option (List Arg) :=
  match skipSp cs with
  | [] => some []
  | cs => do
    let (a, r) ← readArg cs
    let as ← readTrees r
    pure (a :: as)

def showToks (ts : List Tok) : String := if ts.isEmpty then "-" else " ".intercalate (ts.map tokCode)

mutual
/-- Bool version of `Arg.wf` of Props/C09: constants in `0 ≤ v` (and `< 2^63`) -/
partial def wfArg : Arg → Bool
  | .const v => decide (0 ≤ v) && decide (v ≤ i64Max)
  | .ident _ | .str _ => true
  | .bin _ l r => wfArg l && wfArg r
  | .neg a | .not a | .addr a => wfArg a
  | .seq as | .func _ as => wfArgs as
partial def wfArgs : Args → Bool
  | .nil => true
  | .cons a as => wfArg a && wfArgs as
end

/-- one result of `Parser::next` -/
def showCall : Option (Except ParseErr Element) → String
  | none => "none"
  | some (.ok e) => showElem e
  | some (.error e) => showErr e

def handle : List String → String
  | "calls" :: n :: el :: ec :: err :: toks =>
    match n.toNat?, el.toNat?, ec.toNat?, errOf err, toks.mapM tokenOf with
    | some n, some el, some ec, some err, some toks =>
      match Parse.calls n (TState.init ⟨toks, err, el, ec⟩) with
      | some (items, _) => if items.isEmpty then "-" else " | ".intercalate (items.map showCall)
      | none => "PANIC"
    | _, _, _, _, _ => "bad-op"
  | "toks" :: el :: ec :: err :: toks =>
    match el.toNat?, ec.toNat?, errOf err, toks.mapM tokenOf with
    | some el, some ec, some err, some toks => showOutcome (Parse.all ⟨toks, err, el, ec⟩)
    | _, _, _, _ => "bad-op"
  | "render" :: ws =>
    match readTree ws with
    | some a => showToks (Render.arg 0 a)
    | none => "bad-op"
  | "rstmt" :: k :: name :: ws =>
    match unhex name, readTrees (" ".intercalate ws).toList with
    | some name, some as =>
      let as := Args.ofList as
      match k with
      | "L" => showToks (Render.elemVal (.label name))
      | "D" => showToks (Render.elemVal (.directive name as))
      | "I" => showToks (Render.elemVal (.instruction name as))
      | _ => "bad-op"
    | _, _ => "bad-op"
  | "wf" :: ws =>
    match readTree ws with
    | some a => if wfArg a then "1" else "0"
    | none => "bad-op"
  | _ => "bad-op"

end Trion.Driver.Parse
