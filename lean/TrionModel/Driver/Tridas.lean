import TrionModel.Model.Tridas
import TrionModel.Model.TridasCodec
import TrionModel.Driver.Util
/-! Line protocol for the `tridas` model.

`tridas list <len> <pos>/<size>/<desc> …` — the file has `len` bytes; for every listed position the real decoder
returned an instruction of `size` bytes described by `desc` (everything `get_branch`/`get_returns` look at):
`add:<dst>` `mov:<dst>` `sub:<dst>` `pop:<bits>` `b:<cond>:<off>` `bl:<off>` `bx` `bkpt` `udf` `udfw` `o`;
positions not listed do not decode (the `unwrap()` panics there).
→ the listing as line tokens `H` `B` `L<addr hex8>` `I<addr hex8>`, then `|` and the branch set, or `PANIC <site>`.
`tridas bin <hexbytes>` — the same with the decoder MODEL: `listing codecDecoder` (`Model/TridasCodec.lean`, `Codec.decode`)
on the bytes themselves; the harness requires both replies to be equal.
-/
namespace Trion.Driver.Tridas
open Trion Trion.Driver Trion.Tridas

def parseDesc (w : List String) : Option Instr :=
  match w with
  | ["add", d] => d.toNat?.bind fun d => if h : d < 16 then some (.add false ⟨d, h⟩ ⟨d, h⟩ (.reg 0)) else none
  | ["mov", d] => d.toNat?.bind fun d => if h : d < 16 then some (.mov false ⟨d, h⟩ (.reg 0)) else none
  | ["sub", d] => d.toNat?.bind fun d => if h : d < 16 then some (.sub false ⟨d, h⟩ ⟨d, h⟩ (.imm 0)) else none
  | ["pop", b] => b.toNat?.bind fun b => if h : b < 65536 then some (.pop ⟨b, h⟩) else none
  | ["b", c, o] => match c.toNat?, o.toInt? with
    | some c, some o => if h : c < 15 then some (.b ⟨c, h⟩ o) else none
    | _, _ => none
  | ["bl", o] => o.toInt?.map Instr.bl
  | ["bx"] => some (.bx 0)
  | ["bkpt"] => some (.bkpt 0)
  | ["udf"] => some (.udf 0)
  | ["udfw"] => some (.udfw 0)
  | ["o"] => some .nop
  | _ => none

def parseEntry (w : String) : Option (Nat × Nat × Instr) :=
  match w.splitOn "/" with
  | [p, n, d] => match p.toNat?, n.toNat?, parseDesc (d.splitOn ":") with
    | some p, some n, some i => some (p, n, i)
    | _, _, _ => none
  | _ => none

def parseEntries : List String → Option (List (Nat × Nat × Instr))
  | [] => some []
  | w :: ws => match parseEntry w, parseEntries ws with
    | some e, some es => some (e :: es)
    | _, _ => none

def showLine : Line → String
  | .header => "H"
  | .blank => "B"
  | .label a => "L" ++ toHex 8 a
  | .instr a _ => "I" ++ toHex 8 a

def showPanic : Panic → String
  | .decode => "decode" | .overflow => "overflow" | .fuel => "fuel"

def handle : List String → String
  | "list" :: len :: ws =>
    match len.toNat?, parseEntries ws with
    | some len, some es =>
      let buf : List UInt8 := List.replicate len 0
      let arr : Array (Option (Nat × Instr)) := es.foldl (fun a (p, n, i) => if p < a.size then a.set! p (some (n, i)) else a)
        (Array.replicate len none)
      let decode : Decoder := fun rest => if rest.length ≤ len then (arr[len - rest.length]?).join else none
      match traverse decode buf with
      | .error p => "PANIC " ++ showPanic p
      | .ok st =>
        " ".intercalate ((Line.header :: render st.branches st.instrs false BASE).map showLine) ++ " | " ++
          " ".intercalate (st.branches.map (toHex 8))
    | _, _ => "bad-op"
  | ["bin", h] =>
    match parseHexBytes h with
    | some bs =>
      match traverse codecDecoder (bs.map (·.toUInt8)) with
      | .error p => "PANIC " ++ showPanic p
      | .ok st =>
        " ".intercalate ((Line.header :: render st.branches st.instrs false BASE).map showLine) ++ " | " ++
          " ".intercalate (st.branches.map (toHex 8))
    | none => "bad-op"
  | _ => "bad-op"

end Trion.Driver.Tridas
