import TrionModel.Model.Lex
import TrionModel.Driver.Util
/-! Line protocol for the tokenizer model.

* `lex tok <hexbytes>` → canonical text of `Lex.tokens`, e.g.
  `id 1 1 6d6f76 | num 1 5 10 | str 1 8 6162 | E 1 12 badstring | end 1 13`
  (token kind, line, column, payload: decimal for numbers, hex for identifier/string bytes, `-` = empty);
  `PANIC` / `FUEL` for the two abnormal outcomes.
* `lex pos <hexbytes>` → `Pos.of` of the bytes: `<line> <col>`
* `lex valid <hexbytes>` → `validUpTo`
* `lex bulk <L> <alphabet> <prefix>` → the model enumerates strings itself. `alphabet` is a comma separated
  list of hex byte fragments, `prefix` a comma separated list of symbol indices (`-` = empty). For every
  symbol `j` of the alphabet: the FNV-1a digest of the canonical texts (each followed by a line feed) of all
  strings `prefix ++ [j] ++ w` with `|prefix| + 1 + |w| = L` symbols, `w` in lexicographic index order.
  One 16-digit hex digest per symbol. If `|prefix| = L` the reply is the single digest of that string.
-/
namespace Trion.Driver.Lex
open Trion Trion.Driver Trion.Lex

def hexB (b : Bytes) : String := bytesToHex (b.map (·.toNat))

def tokName : Tok → String
  | .sep => "sep" | .term => "term" | .labelMark => "labelmark" | .dirMark => "dirmark"
  | .plus => "plus" | .minus => "minus" | .mul => "mul" | .div => "div" | .mod => "mod"
  | .not => "not" | .band => "band" | .bor => "bor" | .bxor => "bxor" | .shl => "shl" | .shr => "shr"
  | .num _ => "num" | .ident _ => "id" | .str _ => "str"
  | .lparen => "lparen" | .rparen => "rparen" | .lbrack => "lbrack" | .rbrack => "rbrack"
  | .lbrace => "lbrace" | .rbrace => "rbrace"

def showTok (t : Token) : String :=
  let head := tokName t.val ++ " " ++ toString t.line ++ " " ++ toString t.col
  match t.val with
  | .num v => head ++ " " ++ toString v
  | .ident s => head ++ " " ++ hexB s
  | .str s => head ++ " " ++ hexB s
  | _ => head

def showKind : LexErrKind → String
  | .badUnicode => "badunicode" | .blockComment => "blockcomment" | .badNumber => "badnumber"
  | .badCharacter => "badcharacter" | .badString => "badstring"
  | .unexpected c => "unexpected:" ++ toString c

def showOut : Out → String
  | .panic => "PANIC"
  | .fuel => "FUEL"
  | .ok o =>
    let items := o.toks.map showTok
    let items := match o.err with
      | some e => items ++ ["E " ++ toString e.line ++ " " ++ toString e.col ++ " " ++ showKind e.kind]
      | none => items
    " | ".intercalate (items ++ ["end " ++ toString o.endLine ++ " " ++ toString o.endCol])

def canon (bs : Bytes) : String := showOut (tokens bs)

def toBytes (l : List Nat) : Bytes := l.map (·.toUInt8)

/-- digest of all strings `cur ++ w`, `w` of `k` symbols -/
partial def enum (alpha : Array Bytes) (k : Nat) (cur : Bytes) (h : UInt64) : UInt64 :=
  if k == 0 then fnvStep (fnvStr h (canon cur)) 10
  else alpha.foldl (fun h frag => enum alpha (k - 1) (cur ++ frag) h) h

def parseAlphabet (s : String) : Option (Array Bytes) :=
  (s.splitOn ",").foldl (fun acc w => match acc, parseHexBytes w with
    | some a, some b => some (a.push (toBytes b))
    | _, _ => none) (some #[])

def parsePrefix (s : String) : Option (List Nat) :=
  if s == "-" then some [] else
  (s.splitOn ",").foldr (fun w acc => match acc, w.toNat? with
    | some a, some n => some (n :: a)
    | _, _ => none) (some [])

def handle : List String → String
  | ["tok", h] => match parseHexBytes h with
    | some bs => canon (toBytes bs)
    | none => "bad-op"
  | ["pos", h] => match parseHexBytes h with
    | some bs => let p := Pos.of (toBytes bs); toString p.1 ++ " " ++ toString p.2
    | none => "bad-op"
  | ["valid", h] => match parseHexBytes h with
    | some bs => toString (validUpTo (toBytes bs))
    | none => "bad-op"
  | ["bulk", l, a, p] => match l.toNat?, parseAlphabet a, parsePrefix p with
    | some len, some alpha, some pre =>
      if pre.any (· ≥ alpha.size) || pre.length > len then "bad-op" else
      let cur : Bytes := pre.foldl (fun acc i => acc ++ alpha[i]!) []
      if pre.length == len then toHex 16 (enum alpha 0 cur fnvInit).toNat
      else " ".intercalate (alpha.toList.map fun frag =>
        toHex 16 (enum alpha (len - pre.length - 1) (cur ++ frag) fnvInit).toNat)
    | _, _, _ => "bad-op"
  | _ => "bad-op"

end Trion.Driver.Lex
