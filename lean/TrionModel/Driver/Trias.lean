import TrionModel.Model.Trias
import TrionModel.Driver.Uf2
import TrionModel.Driver.Asm
import TrionModel.Model.TriasMain
/-! Line protocol for the model of the `trias` post-processing.

* `trias post <seg>*` → `ok len=<n> fnv=<digest>` | `err:empty` | `err:crc-overwrite` | `err:uf2:<…>` | `PANIC`
* `trias dump <seg>*` → the same with ` hex=<file bytes>` appended on success
* `trias pad  <seg>*` → the segment list after checksum insertion and page padding: `<addr-hex>:<len>:<fnv>` …

* `trias main <name>=<hex> …` (a project as in `asm run`) → what `trias <main> <out>` does to the output file
  (`Trias.mainOut`): `ok len=<n> fnv=<digest>` (written) | `asm-failed` | `err:empty` | `err:crc-overwrite` |
  `err:uf2:<…>` (refused: no file created or modified) | `abort:nomain` | `abort:panic` | `abort:fuel` | `abort:loop`

A `<seg>` is `<first-address-hex>:<data>` with `<data>` as in the `uf2` requests (hex, or `#len,a,b`).
The list must be normalised (ascending, non-touching) — it is what `MemoryMap::iter()` returns.
-/
namespace Trion.Driver.Trias
open Trion.Driver Trion.Uf2 Trion.Trias

def parseSeg (s : String) : Option Seg :=
  match s.splitOn ":" with
  | [a, d] => match parseHex a, Uf2.parseData d with
    | some a, some d => some (a, d)
    | _, _ => none
  | _ => none

def showMsg : Msg → String
  | .empty => "err:empty"
  | .crcOverwrite => "err:crc-overwrite"
  | .uf2 e => "err:uf2:" ++ Uf2.showErr e
  | .panic _ => "PANIC"

def handle : List String → String
  | "post" :: segs => match segs.mapM parseSeg with
    | some m => match post m with
      | .ok out => s!"ok len={out.length} fnv={toHex 16 (Uf2.fnvBytes out).toNat}"
      | .error e => showMsg e
    | none => "bad-op"
  | "dump" :: segs => match segs.mapM parseSeg with
    | some m => match post m with
      | .ok out => s!"ok len={out.length} fnv={toHex 16 (Uf2.fnvBytes out).toNat} hex={Uf2.hexOf out}"
      | .error e => showMsg e
    | none => "bad-op"
  | "pad" :: segs => match segs.mapM parseSeg with
    | some m => match bootCrc m with
      | .ok m1 => " ".intercalate ((padAll m1).map fun (f, d) => s!"{toHex 8 f}:{d.length}:{toHex 16 (Uf2.fnvBytes d).toNat}")
      | .error e => showMsg e
    | none => "bad-op"
  | "main" :: files =>
    match Asm.parseFiles files with
    | some ((main, d) :: rest) =>
      let all := (main, d) :: rest
      let fs : Bytes → Option Bytes := fun p => all.lookup (Asm.normPath p)
      match mainOut fs main with
      | .written out => s!"ok len={out.length} fnv={toHex 16 (Uf2.fnvBytes out).toNat}"
      | .refused .asmFailed => "asm-failed"
      | .refused (.post e) => showMsg e
      | .aborted .noMain => "abort:nomain"
      | .aborted .panic => "abort:panic"
      | .aborted .fuel => "abort:fuel"
      | .aborted .loop => "abort:loop"
    | _ => "bad-op"
  | _ => "bad-op"

end Trion.Driver.Trias
