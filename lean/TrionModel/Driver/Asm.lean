import TrionModel.Model.Asm
import TrionModel.Driver.Util
/-! Line protocol for the whole-pipeline model.

`asm run <name>=<hex> <name>=<hex> …` — a project: the first file is the main file, the others are what
`.include` / `.dfile` can reach (names are paths relative to the main file's directory, `-` = empty file).
Reply: `<ok|fail> a=<0|1> c=<close error|-> f=<0|1> | <diag>,<diag>,… | <image>` or `panic` / `fuel` / `loop` / `nomain`.
`a` = `assemble` returned `Ok`, `c` = the error of `close_segment`, `f` = what `finalize` returned (0 when it
was not called); `ok` = `c` is `-` and `f` is 1.  `<diag>` = `<hex of file name>:<line>:<col>:<kind>` (kinds: see `kind`; errors whose
messages coincide in the Rust `Display` share a kind: `nosuch.<realm>`, `duplicate.<realm>`) in the
order of `Context::get_errors` (`-` if none); `<image>` = ascending runs `aaaaaaaa:hex…` of the output map (`-` if empty).
-/
namespace Trion.Driver.Asm
open Trion Trion.Driver Trion.Asm

def hexOf (bs : Bytes) : String := String.join (bs.map fun b => toHex 2 b.toNat)

def showInt (v : Int) : String := if v < 0 then "-" ++ toString v.natAbs else toString v.toNat

def tyName : ArgTy → String
  | .const => "constant" | .ident => "identifier" | .str => "string" | .add => "addition" | .neg => "negation"
  | .sub => "subtraction" | .mul => "multiplication" | .div => "division" | .mod => "modulo"
  | .not => "binary_not" | .band => "binary_and" | .bor => "binary_or" | .bxor => "binary_xor"
  | .shl => "left_shift" | .shr => "right_shift" | .addr => "address" | .seq => "sequence" | .func => "function_call"

def realm : Realm → String
  | .global => "global" | .loc => "local"

def segDiag : Seg.Diag → String
  | .occupied a => "occupied." ++ toHex 8 a
  | .overflow n h => "overflow." ++ toString n ++ "." ++ toString h
  | .write (.overflow n h) => "write." ++ toString n ++ "." ++ toString h
  | .inactive => "inactive"

def lexKind : LexErrKind → String
  | .badUnicode => "bu" | .blockComment => "bc" | .badNumber => "bn" | .badCharacter => "bh" | .badString => "bs"
  | .unexpected c => "ux" ++ toString c

def evalE : EvalE → String
  | .noSuch _ => "nosuch.local"
  | .badType _ _ => "eval.badtype"
  | .overflow k => "eval.overflow." ++ ovName k

def inner : Inner → String
  | .constReserved _ => "const.reserved"
  | .constNotFound _ r => "nosuch." ++ realm r
  | .constDuplicate _ r => "duplicate." ++ realm r
  | .constRange mi ma h => "const.range." ++ showInt mi ++ "." ++ showInt ma ++ "." ++ showInt h
  | .constAlignment a h => "const.alignment." ++ toString a ++ "." ++ showInt h
  | .eval e => evalE e
  | .addrRange _ => "addr.range"
  | .addrSegment e => "addr.segment." ++ segDiag e
  | .alignInactive => "align.inactive"
  | .alignRange v => "align.range." ++ showInt v
  | .alignWrite e => "align.write." ++ segDiag e
  | .constDirDuplicate _ => "constdir.duplicate"
  | .dataInactive => "data.inactive"
  | .dataRange _ ma h => "data.range." ++ showInt ma ++ "." ++ showInt h
  | .dataHexChar pos _ => "data.hexchar." ++ toString pos
  | .dataHexEof => "data.hexeof"
  | .dataFile => "data.file"
  | .dataWrite e => "data.write." ++ segDiag e
  | .globalNotFound _ r => "nosuch." ++ realm r
  | .globalDeferred _ r => "global.deferred." ++ realm r
  | .globalDuplicate _ r => "duplicate." ++ realm r
  | .includeNoSuchFile _ => "include.nosuchfile"
  | .includeFailed _ => "include.failed"
  | .asmValueRange i => "asm.valuerange." ++ toString i
  | .asmNoSuchRegister i _ => "asm.nosuchreg." ++ toString i
  | .asmEncode .unrepresentable => "asm.encode.unrep"
  | .asmEncode .overflow => "asm.encode.overflow"
  | .asmWrite e => "asm.write." ++ segDiag e

def kind : Kind → String
  | .parse (.token e) => "parse.tok." ++ lexKind e.kind
  | .parse (.expected e h) => "parse.exp." ++ hexOf e.toUTF8.toList ++ "." ++ hexOf h.toUTF8.toList
  | .inactive => "inactive"
  | .label e => "label." ++ inner e
  | .dirNotFound _ => "dir.notfound"
  | .dirTooMany d m h => "dir.toomany." ++ d ++ "." ++ toString m ++ "." ++ toString h
  | .dirNotEnough d n h => "dir.notenough." ++ d ++ "." ++ toString n ++ "." ++ toString h
  | .dirArgType d i e h => "dir.argtype." ++ d ++ "." ++ toString i ++ "." ++ tyName e ++ "." ++ tyName h
  | .dirApply d s => "dir.apply." ++ d ++ "." ++ inner s
  | .instrNotFound _ => "instr.notfound"
  | .instrTooMany m h => "instr.toomany." ++ toString m ++ "." ++ toString h
  | .instrNotEnough n h => "instr.notenough." ++ toString n ++ "." ++ toString h
  | .instrArgType i e h => "instr.argtype." ++ toString i ++ "." ++ "+".intercalate (e.map tyName) ++ "." ++ tyName h
  | .instrAssemble s => "instr.asm." ++ inner s

def diag (d : Diag) : String :=
  hexOf d.file ++ ":" ++ toString d.line ++ ":" ++ toString d.col ++ ":" ++ kind d.kind

/-- ascending runs of the output map; touching segments are printed as one run -/
def showImage (m : Map.Segs) : String :=
  if m.isEmpty then "-" else
  let (out, _) := m.foldl (fun (acc : String × Option Nat) seg =>
    let (s, nxt) := acc
    if seg.2.isEmpty then (s, nxt) else
    let body := String.join (seg.2.map fun b => toHex 2 b.toNat)
    match nxt with
    | some p =>
      if p = seg.1 then (s ++ body, some (seg.1 + seg.2.length))
      else (s ++ " " ++ toHex 8 seg.1 ++ ":" ++ body, some (seg.1 + seg.2.length))
    | none => (toHex 8 seg.1 ++ ":" ++ body, some (seg.1 + seg.2.length))) ("", none)
  if out.isEmpty then "-" else out

def bit (b : Bool) : String := if b then "1" else "0"

def showOutcome (o : Outcome) : String :=
  (if o.success then "ok" else "fail") ++ " a=" ++ bit o.assembleOk ++
    " c=" ++ (match o.closeErr with | none => "-" | some e => segDiag e) ++ " f=" ++ bit o.finalize ++
    " | " ++ (if o.diags.isEmpty then "-" else ",".intercalate (o.diags.map diag)) ++
    " | " ++ showImage o.image

def showResult : Result → String
  | .done o => showOutcome o
  | .noMain => "nomain"
  | .panic => "panic"
  | .fuel => "fuel"
  | .loop => "loop"

/-- path components without `.` and empty ones (what the file system ignores) -/
def normPath (p : Bytes) : Bytes :=
  let comps := (p.splitOn 47).filter fun c => !c.isEmpty && c != [46]
  let joined := (comps.foldl (fun acc c => if acc.isEmpty then c else acc ++ [47] ++ c) [])
  if p.head? == some 47 then 47 :: joined else joined

def parseFile (s : String) : Option (Bytes × Bytes) :=
  match s.splitOn "=" with
  | [n, h] => (parseHexBytes h).map fun l => (n.toUTF8.toList, l.map (·.toUInt8))
  | _ => none

def parseFiles : List String → Option (List (Bytes × Bytes))
  | [] => some []
  | s :: r => match parseFile s, parseFiles r with
    | some f, some fs => some (f :: fs)
    | _, _ => none

def handle : List String → String
  | "run" :: files =>
    match parseFiles files with
    | some ((main, d) :: rest) =>
      let all := (main, d) :: rest
      let fs : Bytes → Option Bytes := fun p => all.lookup (normPath p)
      showResult (run fs main)
    | _ => "bad-op"
  | _ => "bad-op"

end Trion.Driver.Asm
