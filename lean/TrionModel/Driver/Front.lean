import TrionModel.Model.Front
import TrionModel.Model.Show
import TrionModel.Driver.Util
/-! Line protocol of the instruction front end and the disassembly text.

Argument trees (prefix form, blank separated):
  `c <int>` | `i <hexbytes>` | `s <hexbytes>` | `b <op> L R` | `n X` | `t X` | `a X` | `q <n> X…` | `f <hexname> <n> X…`
  with `<op>` ∈ add sub mul div mod and or xor shl shr.
Evaluation outcomes (what the REAL `evaluate` did to that argument, supplied by the harness):
  `C <arg'>` | `D <hexcause> <arg'>` | `N <hexname> <arg'>` | `EB <kindTy> <opTy> <arg'>` | `EO <hexmsg> <arg'>`
Instructions: `<ctor> <fields…>`; registers/conditions/system registers/sets as numbers, `ImmReg` as `r n` / `i n`,
  booleans 0/1.

* `front build <addr> <local> <hexname> <n> {<arg> <evalout>}×n`
* `front asm <addr> <local> <done> <instr> <n> {<arg> <evalout>}×n`     (a later `assemble` of the same `ArmInstr`)
     → `<res> | <instr> | <done> | <n> <arg>…`  with `<res>` = `completed` / `deferred <hexcause>` / `error <text>` / `panic`,
       or `notfound <text>`; `<text>` is the diagnostic exactly as the real error chain prints it
       (Display of the error, then ` <- ` and each `source()`).
* `front show <addr> <instr>` → hex of the text
* `front showbuild <addr> <instr>` → `<texthex> <renderhex> | <res of build on Show.parts with the labels defined> | <instr>`
* `front addroff <idx> <arg>` → `ok <reg> <none|i v|r n>` / `error <text>`
* `front regl <hex>` / `front sysl <hex>` / `front isreg <hex>` / `front mnemonic <hex>` / `front names`
-/
namespace Trion.Driver.Front
open Trion Trion.Driver Trion.Front

def bytesStr (b : Bytes) : String := String.ofList (b.map fun x => Char.ofNat x.toNat)
def hexOf (b : Bytes) : String := bytesToHex (b.map (·.toNat))
def unhexB (s : String) : Option Bytes := (parseHexBytes s).map (·.map (·.toUInt8))

def parseInt (s : String) : Option Int :=
  match s.toList with
  | '-' :: r => (String.ofList r).toNat?.map fun n => -(n : Int)
  | _ => s.toNat?.map fun n => (n : Int)

def opName : BinOp → String
  | .add => "add" | .sub => "sub" | .mul => "mul" | .div => "div" | .mod => "mod"
  | .band => "and" | .bor => "or" | .bxor => "xor" | .shl => "shl" | .shr => "shr"

def parseOp : String → Option BinOp
  | "add" => some .add | "sub" => some .sub | "mul" => some .mul | "div" => some .div | "mod" => some .mod
  | "and" => some .band | "or" => some .bor | "xor" => some .bxor | "shl" => some .shl | "shr" => some .shr
  | _ => none

mutual
partial def parseArg : List String → Option (Arg × List String)
  | "c" :: v :: r => (parseInt v).map fun v => (.const v, r)
  | "i" :: h :: r => (unhexB h).map fun b => (.ident b, r)
  | "s" :: h :: r => (unhexB h).map fun b => (.str b, r)
  | "b" :: op :: r => do
    let op ← parseOp op
    let (l, r) ← parseArg r
    let (x, r) ← parseArg r
    pure (.bin op l x, r)
  | "n" :: r => do let (x, r) ← parseArg r; pure (.neg x, r)
  | "t" :: r => do let (x, r) ← parseArg r; pure (.not x, r)
  | "a" :: r => do let (x, r) ← parseArg r; pure (.addr x, r)
  | "q" :: n :: r => do
    let n ← n.toNat?
    let (xs, r) ← parseArgList n r
    pure (.seq (Args.ofList xs), r)
  | "f" :: h :: n :: r => do
    let name ← unhexB h
    let n ← n.toNat?
    let (xs, r) ← parseArgList n r
    pure (.func name (Args.ofList xs), r)
  | _ => none
partial def parseArgList : Nat → List String → Option (List Arg × List String)
  | 0, r => some ([], r)
  | n + 1, r => do
    let (x, r) ← parseArg r
    let (xs, r) ← parseArgList n r
    pure (x :: xs, r)
end

mutual
partial def showArg : Arg → String
  | .const v => s!"c {v}"
  | .ident b => s!"i {hexOf b}"
  | .str b => s!"s {hexOf b}"
  | .bin op l r => s!"b {opName op} {showArg l} {showArg r}"
  | .neg x => s!"n {showArg x}"
  | .not x => s!"t {showArg x}"
  | .addr x => s!"a {showArg x}"
  | .seq xs => s!"q {xs.length}{showArgs xs}"
  | .func n xs => s!"f {hexOf n} {xs.length}{showArgs xs}"
partial def showArgs : Args → String
  | .nil => ""
  | .cons x xs => " " ++ showArg x ++ showArgs xs
end

/-- structural equality of trees = equality of their canonical text -/
def argEq (a b : Arg) : Bool := showArg a == showArg b

def tyOfNat : Nat → ArgTy
  | 0 => .const | 1 => .ident | 2 => .str | 3 => .add | 4 => .neg | 5 => .sub | 6 => .mul | 7 => .div
  | 8 => .mod | 9 => .not | 10 => .band | 11 => .bor | 12 => .bxor | 13 => .shl | 14 => .shr
  | 15 => .addr | 16 => .seq | _ => .func

def tyName : ArgTy → String
  | .const => "constant" | .ident => "identifier" | .str => "string" | .add => "addition" | .neg => "negation"
  | .sub => "subtraction" | .mul => "multiplication" | .div => "division" | .mod => "modulo"
  | .not => "binary not" | .band => "binary and" | .bor => "binary or" | .bxor => "binary xor"
  | .shl => "left shift" | .shr => "right shift" | .addr => "address" | .seq => "sequence"
  | .func => "function call"

def parseEvalOut : List String → Option (EvalOut × List String)
  | "C" :: r => do let (a, r) ← parseArg r; pure (.complete a, r)
  | "D" :: h :: r => do let c ← unhexB h; let (a, r) ← parseArg r; pure (.deferred c a, r)
  | "N" :: h :: r => do let c ← unhexB h; let (a, r) ← parseArg r; pure (.noSuchVariable c a, r)
  | "EB" :: k :: o :: r => do
    let k ← k.toNat?; let o ← o.toNat?
    let (a, r) ← parseArg r
    pure (.error (.badType (tyOfNat k) (tyOfNat o)) a, r)
  | "EO" :: h :: r => do
    let m ← unhexB h
    let (a, r) ← parseArg r
    pure (.error (.overflow (bytesStr m)) a, r)
  | _ => none

partial def parsePairs : Nat → List String → Option (List (Arg × EvalOut) × List String)
  | 0, r => some ([], r)
  | n + 1, r => do
    let (a, r) ← parseArg r
    let (e, r) ← parseEvalOut r
    let (ps, r) ← parsePairs n r
    pure ((a, e) :: ps, r)

/-- the evaluation function induced by the harness-supplied outcomes -/
def evalOf (ps : List (Arg × EvalOut)) (a : Arg) : EvalOut :=
  match ps.find? (fun p => argEq p.1 a) with
  | some p => p.2
  | none => .complete a

/-! instructions -/

def showIR : ImmReg → String
  | .imm v => s!"i {v}"
  | .reg r => s!"r {r.val}"
def b01 (b : Bool) : String := if b then "1" else "0"

def showInstr : Instr → String
  | .adc d r => s!"adc {d.val} {r.val}"
  | .add f d l r => s!"add {b01 f} {d.val} {l.val} {showIR r}"
  | .adr d o => s!"adr {d.val} {o}"
  | .and d r => s!"and {d.val} {r.val}"
  | .asr d v s => s!"asr {d.val} {v.val} {showIR s}"
  | .b c o => s!"b {c.val} {o}"
  | .bic d r => s!"bic {d.val} {r.val}"
  | .bkpt i => s!"bkpt {i}"
  | .bl o => s!"bl {o}"
  | .blx r => s!"blx {r.val}"
  | .bx r => s!"bx {r.val}"
  | .cmn d r => s!"cmn {d.val} {r.val}"
  | .cmp d r => s!"cmp {d.val} {showIR r}"
  | .cps e => s!"cps {b01 e}"
  | .dmb => "dmb" | .dsb => "dsb"
  | .eor d r => s!"eor {d.val} {r.val}"
  | .isb => "isb"
  | .ldm a rs => s!"ldm {a.val} {rs.val}"
  | .ldr d a o => s!"ldr {d.val} {a.val} {showIR o}"
  | .ldrb d a o => s!"ldrb {d.val} {a.val} {showIR o}"
  | .ldrh d a o => s!"ldrh {d.val} {a.val} {showIR o}"
  | .ldrsb d a o => s!"ldrsb {d.val} {a.val} {o.val}"
  | .ldrsh d a o => s!"ldrsh {d.val} {a.val} {o.val}"
  | .lsl d v s => s!"lsl {d.val} {v.val} {showIR s}"
  | .lsr d v s => s!"lsr {d.val} {v.val} {showIR s}"
  | .mov f d s => s!"mov {b01 f} {d.val} {showIR s}"
  | .mrs d s => s!"mrs {d.val} {s.toNat}"
  | .msr d s => s!"msr {d.toNat} {s.val}"
  | .mul d r => s!"mul {d.val} {r.val}"
  | .mvn d r => s!"mvn {d.val} {r.val}"
  | .nop => "nop"
  | .orr d r => s!"orr {d.val} {r.val}"
  | .pop rs => s!"pop {rs.val}"
  | .push rs => s!"push {rs.val}"
  | .rev d r => s!"rev {d.val} {r.val}"
  | .rev16 d r => s!"rev16 {d.val} {r.val}"
  | .revsh d r => s!"revsh {d.val} {r.val}"
  | .ror d r => s!"ror {d.val} {r.val}"
  | .rsb d r => s!"rsb {d.val} {r.val}"
  | .sbc d r => s!"sbc {d.val} {r.val}"
  | .sev => "sev"
  | .stm a rs => s!"stm {a.val} {rs.val}"
  | .str d a o => s!"str {d.val} {a.val} {showIR o}"
  | .strb d a o => s!"strb {d.val} {a.val} {showIR o}"
  | .strh d a o => s!"strh {d.val} {a.val} {showIR o}"
  | .sub f d l r => s!"sub {b01 f} {d.val} {l.val} {showIR r}"
  | .svc i => s!"svc {i}"
  | .sxtb d r => s!"sxtb {d.val} {r.val}"
  | .sxth d r => s!"sxth {d.val} {r.val}"
  | .tst d r => s!"tst {d.val} {r.val}"
  | .udf i => s!"udf {i}"
  | .udfw i => s!"udfw {i}"
  | .uxtb d r => s!"uxtb {d.val} {r.val}"
  | .uxth d r => s!"uxth {d.val} {r.val}"
  | .wfe => "wfe" | .wfi => "wfi" | .yield => "yield"

def pReg (s : String) : Option Reg := s.toNat?.bind fun n => if h : n < 16 then some ⟨n, h⟩ else none
def pCond (s : String) : Option Cond := s.toNat?.bind fun n => if h : n < 15 then some ⟨n, h⟩ else none
def pSet (s : String) : Option RegSet := s.toNat?.bind fun n => if h : n < 65536 then some ⟨n, h⟩ else none
def pSys (s : String) : Option SysReg := s.toNat?.bind SysReg.ofNat?
def pBool : String → Option Bool
  | "0" => some false | "1" => some true | _ => none
def pIR : List String → Option (ImmReg × List String)
  | "i" :: v :: r => (parseInt v).map fun v => (.imm v, r)
  | "r" :: v :: r => (pReg v).map fun x => (.reg x, r)
  | _ => none

def rr (mk : Reg → Reg → Instr) : List String → Option (Instr × List String)
  | a :: b :: r => do let a ← pReg a; let b ← pReg b; pure (mk a b, r)
  | _ => none
def rri (mk : Reg → Reg → ImmReg → Instr) : List String → Option (Instr × List String)
  | a :: b :: r => do let a ← pReg a; let b ← pReg b; let (x, r) ← pIR r; pure (mk a b x, r)
  | _ => none
def frri (mk : Bool → Reg → Reg → ImmReg → Instr) : List String → Option (Instr × List String)
  | f :: a :: b :: r => do let f ← pBool f; let a ← pReg a; let b ← pReg b; let (x, r) ← pIR r; pure (mk f a b x, r)
  | _ => none
def int1 (mk : Int → Instr) : List String → Option (Instr × List String)
  | v :: r => (parseInt v).map fun v => (mk v, r)
  | _ => none
def reg1 (mk : Reg → Instr) : List String → Option (Instr × List String)
  | v :: r => (pReg v).map fun v => (mk v, r)
  | _ => none
def set1 (mk : RegSet → Instr) : List String → Option (Instr × List String)
  | v :: r => (pSet v).map fun v => (mk v, r)
  | _ => none
def rset (mk : Reg → RegSet → Instr) : List String → Option (Instr × List String)
  | a :: v :: r => do let a ← pReg a; let v ← pSet v; pure (mk a v, r)
  | _ => none

def parseInstr : List String → Option (Instr × List String)
  | "adc" :: r => rr .adc r
  | "add" :: r => frri .add r
  | "adr" :: d :: o :: r => do let d ← pReg d; let o ← parseInt o; pure (.adr d o, r)
  | "and" :: r => rr .and r
  | "asr" :: r => rri .asr r
  | "b" :: c :: o :: r => do let c ← pCond c; let o ← parseInt o; pure (.b c o, r)
  | "bic" :: r => rr .bic r
  | "bkpt" :: r => int1 .bkpt r
  | "bl" :: r => int1 .bl r
  | "blx" :: r => reg1 .blx r
  | "bx" :: r => reg1 .bx r
  | "cmn" :: r => rr .cmn r
  | "cmp" :: d :: r => do let d ← pReg d; let (x, r) ← pIR r; pure (.cmp d x, r)
  | "cps" :: e :: r => (pBool e).map fun e => (.cps e, r)
  | "dmb" :: r => some (.dmb, r)
  | "dsb" :: r => some (.dsb, r)
  | "eor" :: r => rr .eor r
  | "isb" :: r => some (.isb, r)
  | "ldm" :: r => rset .ldm r
  | "ldr" :: r => rri .ldr r
  | "ldrb" :: r => rri .ldrb r
  | "ldrh" :: r => rri .ldrh r
  | "ldrsb" :: a :: b :: c :: r => do let a ← pReg a; let b ← pReg b; let c ← pReg c; pure (.ldrsb a b c, r)
  | "ldrsh" :: a :: b :: c :: r => do let a ← pReg a; let b ← pReg b; let c ← pReg c; pure (.ldrsh a b c, r)
  | "lsl" :: r => rri .lsl r
  | "lsr" :: r => rri .lsr r
  | "mov" :: f :: d :: r => do let f ← pBool f; let d ← pReg d; let (x, r) ← pIR r; pure (.mov f d x, r)
  | "mrs" :: d :: s :: r => do let d ← pReg d; let s ← pSys s; pure (.mrs d s, r)
  | "msr" :: d :: s :: r => do let d ← pSys d; let s ← pReg s; pure (.msr d s, r)
  | "mul" :: r => rr .mul r
  | "mvn" :: r => rr .mvn r
  | "nop" :: r => some (.nop, r)
  | "orr" :: r => rr .orr r
  | "pop" :: r => set1 .pop r
  | "push" :: r => set1 .push r
  | "rev" :: r => rr .rev r
  | "rev16" :: r => rr .rev16 r
  | "revsh" :: r => rr .revsh r
  | "ror" :: r => rr .ror r
  | "rsb" :: r => rr .rsb r
  | "sbc" :: r => rr .sbc r
  | "sev" :: r => some (.sev, r)
  | "stm" :: r => rset .stm r
  | "str" :: r => rri .str r
  | "strb" :: r => rri .strb r
  | "strh" :: r => rri .strh r
  | "sub" :: r => frri .sub r
  | "svc" :: r => int1 .svc r
  | "sxtb" :: r => rr .sxtb r
  | "sxth" :: r => rr .sxth r
  | "tst" :: r => rr .tst r
  | "udf" :: r => int1 .udf r
  | "udfw" :: r => int1 .udfw r
  | "uxtb" :: r => rr .uxtb r
  | "uxth" :: r => rr .uxth r
  | "wfe" :: r => some (.wfe, r)
  | "wfi" :: r => some (.wfi, r)
  | "yield" :: r => some (.yield, r)
  | _ => none

/-! diagnostics as the real error chain prints them -/

def asmFail : String := "instruction assembly failed <- "

def diagText (name : String) : Diag → String
  | .tooMany mx hv => s!"too many arguments for {name} (max {mx}, have {hv})"
  | .notEnough nd hv => s!"not enough arguments for {name} (need {nd}, have {hv})"
  | .argType idx expect hv =>
    match expect with
    | [] => s!"invalid argument #{idx + 1} for {name} (got {tyName hv})"
    | [e] => s!"invalid argument #{idx + 1} for {name} (expect {tyName e}, got {tyName hv})"
    | es => "invalid argument #" ++ toString (idx + 1) ++ " for " ++ name ++ " (expect one of {" ++
        ", ".intercalate (es.map tyName) ++ "}; got " ++ tyName hv ++ ")"
  | .valueRange idx => asmFail ++ s!"argument #{idx + 1} for {name} is out of range"
  | .noSuchRegister idx what => asmFail ++ s!"argument #{idx + 1} for {name} has invalid register \"{bytesStr what}\""
  | .range mn mx hv => asmFail ++ s!"label out of range ({mn} to {mx}, got {hv})"
  | .alignment al hv => asmFail ++ s!"misaligned label (expect {al}, got {hv})"
  | .noSuchVariable n => asmFail ++ s!"no such local constant \"{bytesStr n}\""
  | .evalErr (.badType k o) => asmFail ++ s!"{tyName o} not supported for {tyName k}"
  | .evalErr (.overflow w) => asmFail ++ "arithmetic overflow <- " ++ w

def resText (name : String) : Res → String
  | .completed => "completed"
  | .deferred c => s!"deferred {hexOf c}"
  | .error d => "error " ++ diagText name d
  | .panic => "panic"

def stText (st : St) : String :=
  s!"{showInstr st.instr} | {st.argsDone} | {st.args.length}{showArgs (Args.ofList st.args)}"

def asmReply (st : St) (ps : List (Arg × EvalOut)) (loc : Bool) : String :=
  let (st', r) := assemble st (evalOf ps) loc
  resText (getName st.instr) r ++ " | " ++ stText st'

/-- the evaluator under which `Show.parts` is run: every `l_XXXXXXXX` is a defined constant with the
value it names, register names stay, `[R + 0]` is neutralised to `[R]` as the simplifier does -/
def parseLabel (s : Bytes) : Option Nat :=
  match s with
  | 108 :: 95 :: r => if r.length = 8 then parseHex (bytesStr r) else none
  | _ => none

def idealEval (a : Arg) : EvalOut :=
  match a with
  | .ident s => match parseLabel s with
    | some t => .complete (.const t)
    | none => if isRegister s then .complete a else .noSuchVariable s a
  | .addr (.bin .add x (.const 0)) => .complete (.addr x)
  | _ => .complete a

def handle : List String → String
  | "build" :: addr :: loc :: name :: n :: r =>
    match addr.toNat?, pBool loc, unhexB name, n.toNat? with
    | some addr, some loc, some name, some n =>
      match parsePairs n r with
      | some (ps, []) =>
        let args := ps.map (·.1)
        -- `Front.build` is what the theorems are about; the state text comes from the same `assemble`
        match build addr name args (evalOf ps) loc, mnemonic name with
        | .notFound nm, _ => s!"notfound no such instruction \"{bytesStr nm}\""
        | _, some t => asmReply { addr := addr, instr := t, argsDone := 0, args := args } ps loc
        | _, none => "bad-op"
      | _ => "bad-op"
    | _, _, _, _ => "bad-op"
  | "asm" :: addr :: loc :: done :: r =>
    match addr.toNat?, pBool loc, done.toNat?, parseInstr r with
    | some addr, some loc, some done, some (i, n :: r) =>
      match n.toNat? with
      | some n =>
        match parsePairs n r with
        | some (ps, []) => asmReply { addr := addr, instr := i, argsDone := done, args := ps.map (·.1) } ps loc
        | _ => "bad-op"
      | none => "bad-op"
    | _, _, _, _ => "bad-op"
  | "show" :: addr :: r =>
    match addr.toNat?, parseInstr r with
    | some addr, some (i, []) => hexOf (Show.text i addr)
    | _, _ => "bad-op"
  | "showbuild" :: addr :: r =>
    match addr.toNat?, parseInstr r with
    | some addr, some (i, []) =>
      let p := Show.parts i addr
      let res := match build addr p.1 p.2 idealEval true with
        | .notFound nm => s!"notfound {bytesStr nm}"
        | .completed i' => "completed | " ++ showInstr i'
        | .deferred c st => s!"deferred {hexOf c} | " ++ showInstr st.instr
        | .error d st => "error " ++ diagText (getName st.instr) d ++ " | " ++ showInstr st.instr
        | .panic => "panic"
      s!"{hexOf (Show.text i addr)} {hexOf (Show.render p)} | {res}"
    | _, _ => "bad-op"
  | "addroff" :: idx :: r =>
    match idx.toNat?, parseArg r with
    | some idx, some (a, []) =>
      match addrOff idx a with
      | .ok (r, none) => s!"ok {r.val} none"
      | .ok (r, some o) => s!"ok {r.val} {showIR o}"
      | .error d => "error " ++ diagText "X" d
    | _, _ => "bad-op"
  | ["regl", h] => match unhexB h with
    | some b => match regl b with | some r => s!"ok {r.val}" | none => "none"
    | none => "bad-op"
  | ["sysl", h] => match unhexB h with
    | some b => match sysl b with | some r => s!"ok {r.toNat}" | none => "none"
    | none => "bad-op"
  | ["isreg", h] => match unhexB h with
    | some b => b01 (isRegister b)
    | none => "bad-op"
  | ["mnemonic", h] => match unhexB h with
    | some b => match mnemonic b with
      | some i => "ok " ++ showInstr i ++ " | " ++ getName i
      | none => s!"notfound no such instruction \"{bytesStr (foldName b)}\""
    | none => "bad-op"
  | ["names"] => " ".intercalate (mnemonicTable.map fun p => bytesStr p.1)
  | _ => "bad-op"

end Trion.Driver.Front
