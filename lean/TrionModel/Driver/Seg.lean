import TrionModel.Model.Seg
import TrionModel.Driver.Map
/-! Line protocol for the output-region model.

* `seg run <op>;<op>;…` — a whole program (one op per statement) on a fresh `Context`:
  `sel:A` (`.addr A`), `app:HEX` (immediate bytes through `ActiveSegment::write`), `al:N` (`.align N`),
  `plc:HEX` (instruction / `.du*` with a known value), `defl:HEX` (value resolved by a local task at the end
  of the file: placeholder 0xBE… now, rewrite later), `defg:HEX` (value resolved at `finalize`, after
  `close_segment`). The driver replays the order of the real pipeline: statements; if none failed the local
  tasks in statement order; `close_segment`; the global tasks.
  Reply: `<errors> | <image dump>`; errors = `ok` or a `,`-list of `E<stmt> <kind…>` (statement or its
  later rewrite), `C <kind…>` (close), any of them possibly `panic`.
* `seg enum <base> <depth> <prefix>` — bulk: all programs of length ≤ depth over the 26-statement alphabet of
  the 8-address window at `base` starting with `prefix`; programs are not extended past a failing statement.
-/
namespace Trion.Driver.Seg
open Trion.Driver Trion.Map Trion.Seg

inductive POp where
  | sel (a : Nat) | app (d : List UInt8) | al (n : Nat) | plc (d : List UInt8)
  | defl (d : List UInt8) | defg (d : List UInt8)

def showDiag : Diag → String
  | .occupied a => "occupied " ++ toHex 8 a
  | .overflow n h => "overflow " ++ toString n ++ " " ++ toString h
  | .write (.overflow n h) => "write " ++ toString n ++ " " ++ toString h
  | .inactive => "inactive"

def showOut : Out → String
  | .ok => "ok" | .placed _ => "ok" | .diag d => showDiag d | .panic => "panic"

def isOk : Out → Bool
  | .ok => true | .placed _ => true | _ => false

/-- deferred statements in statement order: (statement index, address, final bytes, global?) -/
abbrev Queue := List (Nat × Nat × List UInt8 × Bool)

/-- one statement: new state, outcome, queue entry for a deferred one -/
def stmt (s : State) (t : Nat) : POp → State × Out × Option (Nat × Nat × List UInt8 × Bool)
  | .sel a => let r := step s (.select a); (r.1, r.2, none)
  | .app d => let r := step s (.append d); (r.1, r.2, none)
  | .al n => let r := step s (.align n); (r.1, r.2, none)
  | .plc d => let r := step s (.place d); (r.1, r.2, none)
  | .defl d => match step s (.place (List.replicate d.length 0xBE)) with
    | (s', .placed a) => (s', .placed a, some (t, a, d, false))
    | (s', o) => (s', o, none)
  | .defg d => match step s (.place (List.replicate d.length 0xBE)) with
    | (s', .placed a) => (s', .placed a, some (t, a, d, true))
    | (s', o) => (s', o, none)

/-- the local task phase: rewrites of locally resolved statements; globally resolved ones are re-queued;
stops at the first failure. Returns state, errors (reversed), global queue (reversed). -/
def localPhase : Queue → State → List String → Queue → State × List String × Queue
  | [], s, errs, gq => (s, errs, gq)
  | (t, a, d, g) :: r, s, errs, gq =>
    if g then localPhase r s errs ((t, a, d, g) :: gq)
    else match step s (.rewrite a d) with
      | (s', o) => if isOk o then localPhase r s' errs gq
        else (s', ("E" ++ toString t ++ " " ++ showOut o) :: errs, gq)

def globalPhase : Queue → State → List String → State × List String
  | [], s, errs => (s, errs)
  | (t, a, d, _) :: r, s, errs =>
    match step s (.rewrite a d) with
    | (s', o) => if isOk o then globalPhase r s' errs
      else (s', ("E" ++ toString t ++ " " ++ showOut o) :: errs)

/-- everything after the statements: local tasks (only if no statement failed), close, global tasks -/
def finish (s : State) (failed : Option String) (q : Queue) : String × Segs :=
  let (s1, errs1, gq) := match failed with
    | some e => (s, [e], [])
    | none => localPhase q s [] []
  let (s2, errs2) := match closeSegment s1 with
    | (s', o) => if isOk o then (s', errs1) else (s', ("C " ++ showOut o) :: errs1)
  let (s3, errs3) := globalPhase gq.reverse s2 errs2
  ((if errs3.isEmpty then "ok" else ",".intercalate errs3.reverse), s3.map)

def parseOp (w : List String) : Option POp :=
  match w with
  | ["sel", a] => a.toNat?.bind fun a => if a ≤ u32Max then some (.sel a) else none
  | ["app", d] => (parseHexBytes d).map fun d => .app (Map.bytesOfNats d)
  | ["al", n] => n.toNat?.bind fun n => if 0 < n ∧ n ≤ u32Max then some (.al n) else none
  | ["plc", d] => (parseHexBytes d).map fun d => .plc (Map.bytesOfNats d)
  | ["defl", d] => (parseHexBytes d).map fun d => .defl (Map.bytesOfNats d)
  | ["defg", d] => (parseHexBytes d).map fun d => .defg (Map.bytesOfNats d)
  | _ => none

def runText (ops : List String) : String :=
  let rec go : List String → Nat → State → Queue → String
    | [], _, s, q => let r := finish s none q.reverse; r.1 ++ " | " ++ Map.dump r.2
    | o :: rest, t, s, q => match parseOp (o.splitOn ":") with
      | none => "bad-op"
      | some op => match stmt s t op with
        | (s', out, e) =>
          if isOk out then go rest (t + 1) s' (match e with | some e => e :: q | none => q)
          else let r := finish s' (some ("E" ++ toString t ++ " " ++ showOut out)) []
               r.1 ++ " | " ++ Map.dump r.2
  go ops 0 init []

/-! ### bulk enumeration -/

def mixStr (h : UInt64) (s : String) : UInt64 := fnvStr h s

/-- alphabet entry `i` (0..25) at statement position `t` in the window at `base` -/
def opAt (base t i : Nat) : POp :=
  let b (k : Nat) (n : Nat) : List UInt8 := (List.range n).map fun j => ((k + 16 * j + t) % 256).toUInt8
  if i < 8 then .sel (base + i)
  else if i < 12 then .app (b 0x50 (i - 7))
  else if i = 12 then .plc (b 0x10 1)
  else if i = 13 then .plc (b 0x10 2)
  else if i = 14 then .plc (b 0x10 4)
  else if i = 15 then .plc [0x00, 0xBF]
  else if i = 16 then .plc [0xF1, 0xF7, 0x34, 0xA2]
  else if i = 17 then .defl (b 0xC0 1)
  else if i = 18 then .defl (b 0xC0 2)
  else if i = 19 then .defl (b 0xC0 4)
  else if i = 20 then .defl [((0xC0 + t) % 256).toUInt8, 0xDE]
  else if i = 21 then .defl [0xF0, 0xF7, ((0xC0 + t) % 256).toUInt8, 0xA5]
  else if i = 22 then .defg (b 0xC0 1)
  else if i = 23 then .defg (b 0xC0 2)
  else if i = 24 then .al 2
  else .al 4

def hashResult (h : UInt64) (r : String × Segs) : UInt64 :=
  Map.mixState (mixStr h r.1) r.2

def enumGo (base : Nat) : Nat → Nat → State → Queue → UInt64 → UInt64
  | 0, _, _, _, h => h
  | fuel + 1, t, s, q, h =>
    (List.range 26).foldl (fun h i =>
      match stmt s t (opAt base t i) with
      | (s', out, e) =>
        if isOk out then
          let q' := match e with | some e => e :: q | none => q
          let h1 := hashResult h (finish s' none q'.reverse)
          enumGo base fuel (t + 1) s' q' h1
        else hashResult h (finish s' (some ("E" ++ toString t ++ " " ++ showOut out)) [])) h

def enumPrefix (base depth : Nat) (pre : List Nat) : UInt64 :=
  let rec go : List Nat → Nat → State → Queue → UInt64 → UInt64
    | [], t, s, q, h => enumGo base (depth - t) t s q h
    | i :: r, t, s, q, h =>
      match stmt s t (opAt base t i) with
      | (s', out, e) =>
        if isOk out then
          let q' := match e with | some e => e :: q | none => q
          let h1 := hashResult h (finish s' none q'.reverse)
          go r (t + 1) s' q' h1
        else hashResult h (finish s' (some ("E" ++ toString t ++ " " ++ showOut out)) [])
  go pre 0 init [] fnvInit

/-! ### the region API called directly (`seg api <op>;<op>;…`)

`sel:A` = `Context::change_segment(A)`, `wr:HEX` = `ActiveSegment::write`, `wat:A:HEX` = `ActiveSegment::write_at(A, …)`
(all three of its paths: overwrite inside the buffer, overwrite + append, append at the cursor; the `assert!` on the address is
`panic`), `cl` = `Context::close_segment`. Reply: the outcome of every op, the active region (`base:curr_addr:len:remaining` or `-`), the map. -/

def apiStep (s : State) (w : List String) : Option (State × String) :=
  match w with
  | ["sel", a] => a.toNat?.bind fun a => if a ≤ u32Max then (let r := step s (.select a); some (r.1, showOut r.2)) else none
  | ["wr", d] => (parseHexBytes d).map fun d => let r := step s (.append (Map.bytesOfNats d)); (r.1, showOut r.2)
  | ["wat", a, d] =>
    match a.toNat?, parseHexBytes d with
    | some a, some d =>
      match s.active with
      | none => some (s, "inactive")
      | some seg => let r := seg.writeAt a (Map.bytesOfNats d); some ({ s with active := some r.1 }, showOut r.2)
    | _, _ => none
  | ["cl"] => let r := step s .close; some (r.1, showOut r.2)
  | _ => none

def showActive : Option Active → String
  | none => "-"
  | some a => toHex 8 a.base ++ ":" ++ toString a.cur ++ ":" ++ toString a.buf.length ++ ":" ++ toString (a.maxLen - a.buf.length)

def runApi (ops : List String) : String :=
  let rec go : List String → State → List String → String
    | [], s, outs => ",".intercalate outs.reverse ++ " | " ++ showActive s.active ++ " | " ++ Map.dump s.map
    | o :: rest, s, outs => match apiStep s (o.splitOn ":") with
      | none => "bad-op"
      | some (s', out) =>
        if out = "panic" then ",".intercalate (out :: outs).reverse ++ " | panic | panic"
        else go rest s' (out :: outs)
  go ops init []

def handle : List String → String
  | ["api", ops] => runApi ((ops.splitOn ";").filter (· ≠ ""))
  | ["api"] => runApi []
  | ["run", ops] => runText ((ops.splitOn ";").filter (· ≠ ""))
  | ["run"] => runText []
  | ["enum", base, depth, pre] => match base.toNat?, depth.toNat?, Map.parseIdxList pre with
    | some base, some depth, some pre =>
      if base + 7 > u32Max ∨ pre.any (· ≥ 26) ∨ pre.length > depth then "bad-op"
      else toHex 16 (enumPrefix base depth pre).toNat
    | _, _, _ => "bad-op"
  | _ => "bad-op"

end Trion.Driver.Seg
