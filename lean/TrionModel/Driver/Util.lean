/-! Helpers shared by the line-protocol drivers (import-free). -/
namespace Trion.Driver

def hexDigit (c : Char) : Option Nat :=
  if '0' ≤ c ∧ c ≤ '9' then some (c.toNat - '0'.toNat)
  else if 'a' ≤ c ∧ c ≤ 'f' then some (c.toNat - 'a'.toNat + 10)
  else if 'A' ≤ c ∧ c ≤ 'F' then some (c.toNat - 'A'.toNat + 10)
  else none

/-- parse an unprefixed hexadecimal number -/
def parseHex (s : String) : Option Nat :=
  if s.isEmpty then none else
  s.toList.foldl (fun acc c => match acc, hexDigit c with
    | some a, some d => some (a * 16 + d)
    | _, _ => none) (some 0)

/-- parse "0a1bff" into bytes; "-" or "" is the empty string -/
def parseHexBytes (s : String) : Option (List Nat) :=
  if s = "-" ∨ s = "" then some [] else
  let rec go : List Char → List Nat → Option (List Nat)
    | [], acc => some acc.reverse
    | [_], _ => none
    | a :: b :: r, acc => match hexDigit a, hexDigit b with
      | some x, some y => go r ((x * 16 + y) :: acc)
      | _, _ => none
  go s.toList []

def hexChar (n : Nat) : Char :=
  if n < 10 then Char.ofNat ('0'.toNat + n) else Char.ofNat ('a'.toNat + n - 10)

/-- fixed-width lower-case hex -/
def toHex (width : Nat) (n : Nat) : String :=
  let rec go : Nat → Nat → List Char → List Char
    | 0, _, acc => acc
    | w+1, n, acc => go w (n / 16) (hexChar (n % 16) :: acc)
  String.ofList (go width n [])

def bytesToHex (bs : List Nat) : String :=
  if bs.isEmpty then "-" else String.join (bs.map (toHex 2))

/-- 64-bit FNV-1a over a string, used for block digests of bulk requests -/
def fnvStep (h : UInt64) (b : UInt8) : UInt64 := (h ^^^ b.toUInt64) * 0x100000001b3
def fnvInit : UInt64 := 0xcbf29ce484222325
def fnvStr (h : UInt64) (s : String) : UInt64 := s.toUTF8.foldl fnvStep h

end Trion.Driver
