import TrionModel.Model.Codec
import TrionModel.Spec.Arm
import TrionModel.Driver.Util
/-! Line protocol for the instruction codec model and the ARMv6-M specification table.

Instruction text: `<name> <field> …`, all fields decimal integers in constructor order; a register is
0..15, a flag 0/1, a condition 0..14, a system register its SYSm number, a register set its 16-bit mask,
an `ImmReg` two fields `0 <value>` (immediate) or `1 <register>`.

single requests
* `codec enc <instr>`          → `ok <hexbytes>` | `err unrep`
* `codec encinto <cap> <instr>`→ the same through `encodeInto cap` (`err overflow <need> <have>`)
* `codec dec <hexbytes>`       → `ok <len> <instr>` | `err underflow <need> <have>` |
                                 `err undefined|unpredictable|reserved <h0> <h1|->` | `panic`
* `codec spec <hexbytes>`      → `some <instr>` | `none`   (2 or 4 bytes, through `Arm.decode`)
* `codec specenc <instr>`      → all encodings the table assigns to exactly this instruction (hex bytes) | `none`
* `codec spectab16 <lo> <hi>`  → `Arm.decode [h]` for h in lo..hi, entries separated by `|`, `-` = none

bulk requests (the model enumerates the sub-domain itself; reply `<digest> <count of ok/some>`)
* `codec dec16 <lo> <hi>`            all halfwords lo..hi (hex) through `decode [h%256, h/256]`
* `codec dec32 <h0lo> <h0hi>`        all 65536 second halfwords for each first halfword in the range
* `codec dec32x <h0> <h1lo> <h1hi>`
* `codec spec32 <h0lo> <h0hi>`       the same domain through `Arm.decode [h0,h1]`
* `codec encdom <name> <lo> <hi>` | `codec encdom <name> r` | `codec encdom <name> -`
     every register 0..15 in every register slot × both flags × 15 conditions × 11 system registers ×
     the integer / immediate / register-set slot over lo..hi (decimal) — or the register alternative of
     the `ImmReg` slot for `r` — last slot varying fastest, through `encodeInto 4`
-/
namespace Trion.Driver.Codec
open Trion Trion.Driver Trion.Codec

/-! ### instruction ⇄ (tag, integer fields) -/

def names : List String := ["adc", "add", "adr", "and", "asr", "b", "bic", "bkpt", "bl", "blx", "bx", "cmn", "cmp",
  "cps", "dmb", "dsb", "eor", "isb", "ldm", "ldr", "ldrb", "ldrh", "ldrsb", "ldrsh", "lsl", "lsr", "mov", "mrs",
  "msr", "mul", "mvn", "nop", "orr", "pop", "push", "rev", "rev16", "revsh", "ror", "rsb", "sbc", "sev", "stm",
  "str", "strb", "strh", "sub", "svc", "sxtb", "sxth", "tst", "udf", "udfw", "uxtb", "uxth", "wfe", "wfi", "yield"]

/-- slot kinds per constructor: R register, F flag, C condition, S system register, M register set,
I integer, X ImmReg -/
def kinds : List String := ["RR", "FRRX", "RI", "RR", "RRX", "CI", "RR", "I", "I", "R", "R", "RR", "RX",
  "F", "", "", "RR", "", "RM", "RRX", "RRX", "RRX", "RRR", "RRR", "RRX", "RRX", "FRX", "RS",
  "SR", "RR", "RR", "", "RR", "M", "M", "RR", "RR", "RR", "RR", "RR", "RR", "", "RM",
  "RRX", "RRX", "RRX", "FRRX", "I", "RR", "RR", "RR", "I", "I", "RR", "RR", "", "", ""]

def ir : ImmReg → List Int
  | .imm v => [0, v]
  | .reg r => [1, r.val]

def fl (b : Bool) : Int := if b then 1 else 0

def fieldsOf : Instr → Nat × List Int
  | .adc d r => (0, [d.val, r.val])
  | .add f d l x => (1, ([fl f, d.val, l.val] : List Int) ++ ir x)
  | .adr d o => (2, [d.val, o])
  | .and d r => (3, [d.val, r.val])
  | .asr d v x => (4, ([d.val, v.val] : List Int) ++ ir x)
  | .b c o => (5, [c.val, o])
  | .bic d r => (6, [d.val, r.val])
  | .bkpt i => (7, [i])
  | .bl o => (8, [o])
  | .blx r => (9, [r.val])
  | .bx r => (10, [r.val])
  | .cmn l r => (11, [l.val, r.val])
  | .cmp l x => (12, ([l.val] : List Int) ++ ir x)
  | .cps e => (13, [fl e])
  | .dmb => (14, [])
  | .dsb => (15, [])
  | .eor d r => (16, [d.val, r.val])
  | .isb => (17, [])
  | .ldm a m => (18, [a.val, m.val])
  | .ldr d a x => (19, ([d.val, a.val] : List Int) ++ ir x)
  | .ldrb d a x => (20, ([d.val, a.val] : List Int) ++ ir x)
  | .ldrh d a x => (21, ([d.val, a.val] : List Int) ++ ir x)
  | .ldrsb d a o => (22, [d.val, a.val, o.val])
  | .ldrsh d a o => (23, [d.val, a.val, o.val])
  | .lsl d v x => (24, ([d.val, v.val] : List Int) ++ ir x)
  | .lsr d v x => (25, ([d.val, v.val] : List Int) ++ ir x)
  | .mov f d x => (26, ([fl f, d.val] : List Int) ++ ir x)
  | .mrs d s => (27, [d.val, s.toNat])
  | .msr s r => (28, [s.toNat, r.val])
  | .mul d r => (29, [d.val, r.val])
  | .mvn d r => (30, [d.val, r.val])
  | .nop => (31, [])
  | .orr d r => (32, [d.val, r.val])
  | .pop m => (33, [m.val])
  | .push m => (34, [m.val])
  | .rev d r => (35, [d.val, r.val])
  | .rev16 d r => (36, [d.val, r.val])
  | .revsh d r => (37, [d.val, r.val])
  | .ror d r => (38, [d.val, r.val])
  | .rsb d r => (39, [d.val, r.val])
  | .sbc d r => (40, [d.val, r.val])
  | .sev => (41, [])
  | .stm a m => (42, [a.val, m.val])
  | .str d a x => (43, ([d.val, a.val] : List Int) ++ ir x)
  | .strb d a x => (44, ([d.val, a.val] : List Int) ++ ir x)
  | .strh d a x => (45, ([d.val, a.val] : List Int) ++ ir x)
  | .sub f d l x => (46, ([fl f, d.val, l.val] : List Int) ++ ir x)
  | .svc i => (47, [i])
  | .sxtb d r => (48, [d.val, r.val])
  | .sxth d r => (49, [d.val, r.val])
  | .tst d r => (50, [d.val, r.val])
  | .udf i => (51, [i])
  | .udfw i => (52, [i])
  | .uxtb d r => (53, [d.val, r.val])
  | .uxth d r => (54, [d.val, r.val])
  | .wfe => (55, [])
  | .wfi => (56, [])
  | .yield => (57, [])

def reg? (v : Int) : Option Reg := if 0 ≤ v ∧ v < 16 then some (Fin.ofNat 16 v.toNat) else none
def flag? (v : Int) : Option Bool := if v = 0 then some false else if v = 1 then some true else none
def cond? (v : Int) : Option Cond := if 0 ≤ v ∧ v < 15 then some (Fin.ofNat 15 v.toNat) else none
def sys? (v : Int) : Option SysReg := if 0 ≤ v then SysReg.ofNat? v.toNat else none
def set? (v : Int) : Option RegSet := if 0 ≤ v ∧ v < 65536 then some (Fin.ofNat 65536 v.toNat) else none
def ir? (k v : Int) : Option ImmReg :=
  if k = 0 then some (.imm v) else if k = 1 then (reg? v).map .reg else none

def rr (mk : Reg → Reg → Instr) : List Int → Option Instr
  | [a, b] => do some (mk (← reg? a) (← reg? b))
  | _ => none
def rrx (mk : Reg → Reg → ImmReg → Instr) : List Int → Option Instr
  | [a, b, k, v] => do some (mk (← reg? a) (← reg? b) (← ir? k v))
  | _ => none
def rrr (mk : Reg → Reg → Reg → Instr) : List Int → Option Instr
  | [a, b, c] => do some (mk (← reg? a) (← reg? b) (← reg? c))
  | _ => none
def frrx (mk : Bool → Reg → Reg → ImmReg → Instr) : List Int → Option Instr
  | [f, a, b, k, v] => do some (mk (← flag? f) (← reg? a) (← reg? b) (← ir? k v))
  | _ => none

def ofFields : Nat → List Int → Option Instr
  | 0, l => rr .adc l
  | 1, l => frrx .add l
  | 2, [d, o] => do some (.adr (← reg? d) o)
  | 3, l => rr .and l
  | 4, l => rrx .asr l
  | 5, [c, o] => do some (.b (← cond? c) o)
  | 6, l => rr .bic l
  | 7, [i] => some (.bkpt i)
  | 8, [o] => some (.bl o)
  | 9, [r] => do some (.blx (← reg? r))
  | 10, [r] => do some (.bx (← reg? r))
  | 11, l => rr .cmn l
  | 12, [a, k, v] => do some (.cmp (← reg? a) (← ir? k v))
  | 13, [e] => do some (.cps (← flag? e))
  | 14, [] => some .dmb
  | 15, [] => some .dsb
  | 16, l => rr .eor l
  | 17, [] => some .isb
  | 18, [a, m] => do some (.ldm (← reg? a) (← set? m))
  | 19, l => rrx .ldr l
  | 20, l => rrx .ldrb l
  | 21, l => rrx .ldrh l
  | 22, l => rrr .ldrsb l
  | 23, l => rrr .ldrsh l
  | 24, l => rrx .lsl l
  | 25, l => rrx .lsr l
  | 26, [f, d, k, v] => do some (.mov (← flag? f) (← reg? d) (← ir? k v))
  | 27, [d, s] => do some (.mrs (← reg? d) (← sys? s))
  | 28, [s, r] => do some (.msr (← sys? s) (← reg? r))
  | 29, l => rr .mul l
  | 30, l => rr .mvn l
  | 31, [] => some .nop
  | 32, l => rr .orr l
  | 33, [m] => do some (.pop (← set? m))
  | 34, [m] => do some (.push (← set? m))
  | 35, l => rr .rev l
  | 36, l => rr .rev16 l
  | 37, l => rr .revsh l
  | 38, l => rr .ror l
  | 39, l => rr .rsb l
  | 40, l => rr .sbc l
  | 41, [] => some .sev
  | 42, [a, m] => do some (.stm (← reg? a) (← set? m))
  | 43, l => rrx .str l
  | 44, l => rrx .strb l
  | 45, l => rrx .strh l
  | 46, l => frrx .sub l
  | 47, [i] => some (.svc i)
  | 48, l => rr .sxtb l
  | 49, l => rr .sxth l
  | 50, l => rr .tst l
  | 51, [i] => some (.udf i)
  | 52, [i] => some (.udfw i)
  | 53, l => rr .uxtb l
  | 54, l => rr .uxth l
  | 55, [] => some .wfe
  | 56, [] => some .wfi
  | 57, [] => some .yield
  | _, _ => none

def showInt (v : Int) : String := if v < 0 then "-" ++ toString v.natAbs else toString v.toNat

def showInstr (i : Instr) : String :=
  let (t, fs) := fieldsOf i
  " ".intercalate (names[t]! :: fs.map showInt)

def parseInt (s : String) : Option Int :=
  match s.toList with
  | '-' :: r => if r.isEmpty then none else (String.ofList r).toNat?.map fun n => -(n : Int)
  | _ => s.toNat?.map fun n => (n : Int)

def parseInstr : List String → Option Instr
  | [] => none
  | name :: fs => do
    let t ← names.idxOf? name
    let vs ← fs.mapM parseInt
    ofFields t vs

/-! ### canonical result text -/

def showEnc : Except EncErr (List Nat) → String
  | .ok bs => "ok " ++ bytesToHex bs
  | .error .unrepresentable => "err unrep"
  | .error (.overflow n h) => s!"err overflow {n} {h}"

def showH1 : Option Nat → String
  | none => "-"
  | some h => toHex 4 h

def showDec : DecRes → String
  | .ok (n, i) => s!"ok {n} " ++ showInstr i
  | .error (.underflow n h) => s!"err underflow {n} {h}"
  | .error (.undefined a b) => s!"err undefined {toHex 4 a} {showH1 b}"
  | .error (.unpredictable a b) => s!"err unpredictable {toHex 4 a} {showH1 b}"
  | .error (.reserved a b) => s!"err reserved {toHex 4 a} {showH1 b}"
  | .error .panic => "panic"

def showSpec : Option Instr → String
  | some i => "some " ++ showInstr i
  | none => "none"

/-! ### digests: FNV-1a style mixing over 64-bit words -/

@[inline] def mix (h : UInt64) (x : UInt64) : UInt64 := (h ^^^ x) * 0x100000001b3
@[inline] def mixN (h : UInt64) (n : Nat) : UInt64 := mix h n.toUInt64
def mixI (h : UInt64) (v : Int) : UInt64 :=
  if v ≥ 0 then mix h v.toNat.toUInt64 else mix h (0 - v.natAbs.toUInt64)

def mixInstr (h : UInt64) (i : Instr) : UInt64 :=
  let (t, fs) := fieldsOf i
  fs.foldl mixI (mixN h t)

def mixH1 (h : UInt64) : Option Nat → UInt64
  | none => mixN h 0
  | some x => mixN h (x + 1)

def mixDec (h : UInt64) : DecRes → UInt64
  | .ok (n, i) => mixInstr (mixN (mixN h 1) n) i
  | .error (.underflow n k) => mixN (mixN (mixN h 2) n) k
  | .error (.undefined a b) => mixH1 (mixN (mixN h 3) a) b
  | .error (.unpredictable a b) => mixH1 (mixN (mixN h 4) a) b
  | .error (.reserved a b) => mixH1 (mixN (mixN h 5) a) b
  | .error .panic => mixN h 6

def mixSpec (h : UInt64) : Option Instr → UInt64
  | none => mixN h 0
  | some i => mixInstr (mixN h 1) i

def mixEnc (h : UInt64) : Except EncErr (List Nat) → UInt64
  | .ok bs => bs.foldl mixN (mixN (mixN h 1) bs.length)
  | .error .unrepresentable => mixN h 2
  | .error (.overflow n k) => mixN (mixN (mixN h 3) n) k

def isOk : DecRes → Bool
  | .ok _ => true
  | _ => false

structure Acc where
  h : UInt64 := fnvInit
  n : Nat := 0

def Acc.show (a : Acc) : String := s!"{toHex 16 a.h.toNat} {a.n}"

/-! ### bulk decoding -/

def dec4 (h0 h1 : Nat) : DecRes := decode [h0 % 256, h0 / 256, h1 % 256, h1 / 256]

/-- h1 from `h1` up, `cnt` values -/
def dec32Inner (h0 : Nat) : Nat → Nat → Acc → Acc
  | 0, _, a => a
  | cnt + 1, h1, a =>
    let r := dec4 h0 h1
    dec32Inner h0 cnt (h1 + 1) { h := mixDec a.h r, n := if isOk r then a.n + 1 else a.n }

def dec32Outer : Nat → Nat → Acc → Acc
  | 0, _, a => a
  | cnt + 1, h0, a => dec32Outer cnt (h0 + 1) (dec32Inner h0 65536 0 a)

def dec16Loop : Nat → Nat → Acc → Acc
  | 0, _, a => a
  | cnt + 1, h, a =>
    let r := decode [h % 256, h / 256]
    dec16Loop cnt (h + 1) { h := mixDec a.h r, n := if isOk r then a.n + 1 else a.n }

/-! ### bulk specification decoding.  For a fixed first halfword only the rows whose fixed bits in the first
halfword fit it can match, so the table is filtered once per first halfword (same result as
`Arm.decode`, which the harness cross-checks on single requests). -/

/-- can the fixed run `(p, l, v)` agree with some word whose first halfword is `h0`? -/
def segFitsHigh (h0 : Nat) : Nat × Nat × Nat → Bool
  | (p, l, v) =>
    if p ≥ 16 then h0 / 2 ^ (p - 16) % 2 ^ l == v
    else if p + l ≤ 16 then true
    else h0 % 2 ^ (p + l - 16) == v / 2 ^ (16 - p)

def rows32For (h0 : Nat) : List Arm.Row :=
  Arm.table.filter fun rw => rw.n == 32 && rw.fixed.all (segFitsHigh h0)

def spec32Inner (rows : List Arm.Row) (h0 : Nat) : Nat → Nat → Acc → Acc
  | 0, _, a => a
  | cnt + 1, h1, a =>
    let r := Arm.decodeIn rows (h0 * 65536 + h1) 32
    spec32Inner rows h0 cnt (h1 + 1) { h := mixSpec a.h r, n := if r.isSome then a.n + 1 else a.n }

def spec32Outer : Nat → Nat → Acc → Acc
  | 0, _, a => a
  | cnt + 1, h0, a => spec32Outer cnt (h0 + 1) (spec32Inner (rows32For h0) h0 65536 0 a)

/-! ### bulk encoding over a structured domain -/

def sysNums : List Int := SysReg.all.map fun s => (s.toNat : Int)

def upto (n : Nat) : List Int := (List.range n).map fun (k : Nat) => (k : Int)

/-- what to do with the one ranged slot of the constructor -/
inductive Ranged where
  | range (lo : Int) (cnt : Nat)
  | regAlt
  | nothing

def encOne (t : Nat) (fs : List Int) (a : Acc) : Acc :=
  match ofFields t fs with
  | none => { h := mixN a.h 9, n := a.n }
  | some i =>
    let r := encodeInto 4 i
    { h := mixEnc a.h r, n := match r with | .ok _ => a.n + 1 | _ => a.n }

def rangeLoop (k : List Int → Acc → Acc) (pre : List Int) : Nat → Int → Acc → Acc
  | 0, _, a => a
  | cnt + 1, v, a => rangeLoop k pre cnt (v + 1) (k (pre ++ [v]) a)

/-- enumerate the slots left to right, the last one varying fastest; `pre` = fields so far -/
def enumSlots (rg : Ranged) (t : Nat) : List Char → List Int → Acc → Acc
  | [], pre, a => encOne t pre a
  | c :: cs, pre, a =>
    let each (vals : List Int) : Acc := vals.foldl (fun a v => enumSlots rg t cs (pre ++ [v]) a) a
    if c = 'R' then each (upto 16)
    else if c = 'F' then each (upto 2)
    else if c = 'C' then each (upto 15)
    else if c = 'S' then each sysNums
    else match rg with
      | .nothing => a
      | .regAlt => if c = 'X' then (upto 16).foldl (fun a v => enumSlots rg t cs (pre ++ [1, v]) a) a else a
      | .range lo cnt =>
        if c = 'X' then rangeLoop (fun p a => enumSlots rg t cs p a) (pre ++ [0]) cnt lo a
        else rangeLoop (fun p a => enumSlots rg t cs p a) pre cnt lo a

def encdom (name : String) (rg : Ranged) : String :=
  match names.idxOf? name with
  | none => "bad-op"
  | some t => (enumSlots rg t (kinds[t]!).toList [] {}).show


/-! ### search of the specification table for the encodings of one instruction (`codec specenc`) -/

/-- all words that agree with the fixed bits of a diagram (most significant character first) -/
def wordsFitting : List Char → List Nat
  | [] => [0]
  | c :: cs =>
    let rest := wordsFitting cs
    let n := (cs.filter (· ≠ ' ')).length
    if c = ' ' then rest
    else if c = '0' then rest
    else if c = '1' then rest.map (· + 2 ^ n)
    else rest ++ rest.map (· + 2 ^ n)

/-- replace the characters of field `f` by the binary digits of `v` -/
def substField (f : Char) (v : Nat) : List Char → List Char
  | [] => []
  | c :: cs =>
    if c = f then
      let k := (cs.filter (· = f)).length
      (if v / 2 ^ k % 2 = 1 then '1' else '0') :: substField f v cs
    else c :: substField f v cs

def freeBits (cs : List Char) : Nat := (cs.filter fun c => c ≠ ' ' ∧ c ≠ '0' ∧ c ≠ '1').length

/-- Every row is searched over all assignments of its fields.  Only BL has more than 16 field bits; there
the low 22 bits of the offset determine imm10 (`i`) and imm11 (`L`), which are substituted into the
diagram, leaving the 8 choices of S, J1, J2.  Every hit is confirmed through `Arm.decode`. -/
def specenc (i : Instr) : List (List Nat) :=
  Arm.table.foldl (fun acc rw =>
    let cs0 := rw.pat.toList
    let cs := match i with
      | .bl off =>
        if freeBits cs0 > 16 then
          substField 'i' (off / 4096 % 1024).toNat (substField 'L' (off / 2 % 2048).toNat cs0)
        else cs0
      | _ => cs0
    let n := (cs.filter (· ≠ ' ')).length
    -- a row builds one constructor (every `ins` of the table is `fun f => .ctor …`): rows of another
    -- constructor are skipped after looking at the instruction of their first fitting word
    let sameCtor := match (wordsFitting (cs.map fun c => if c = ' ' ∨ c = '0' ∨ c = '1' then c else '0')).head? with
      | some w0 => (fieldsOf (rw.ins (Arm.fieldOf w0 rw.fields))).1 == (fieldsOf i).1
      | none => false
    if freeBits cs > 16 ∨ !sameCtor then acc
    else
      let hits := (wordsFitting cs).filter fun w => Arm.rowDecode rw w n == some (some i)
      let hws := hits.map fun w => if n = 16 then [w] else [w / 65536, w % 65536]
      acc ++ hws.filter fun h => Arm.decode h == some i) []

def showHws (hws : List Nat) : String := bytesToHex (toBytes hws)

/-! ### requests -/

def hwsOfBytes : List Nat → Option (List Nat)
  | [] => some []
  | [_] => none
  | a :: b :: r => (hwsOfBytes r).map fun t => (a + 256 * b) :: t

def handle : List String → String
  | "enc" :: i => match parseInstr i with
    | some i => showEnc ((encode i).map toBytes)
    | none => "bad-op"
  | "encinto" :: cap :: i => match cap.toNat?, parseInstr i with
    | some cap, some i => showEnc (encodeInto cap i)
    | _, _ => "bad-op"
  | ["dec", bs] => match parseHexBytes bs with
    | some bs => showDec (decode bs)
    | none => "bad-op"
  | ["spec", bs] => match (parseHexBytes bs).bind hwsOfBytes with
    | some hws => showSpec (Arm.decode hws)
    | none => "bad-op"
  | "specenc" :: i => match parseInstr i with
    | some i => match specenc i with
      | [] => "none"
      | l => " ".intercalate (l.map showHws)
    | none => "bad-op"
  | ["spectab16", lo, hi] => match parseHex lo, parseHex hi with
    | some lo, some hi =>
      "|".intercalate ((List.range (hi + 1 - lo)).map fun k => match Arm.decode [lo + k] with
        | some i => showInstr i
        | none => "-")
    | _, _ => "bad-op"
  | ["dec16", lo, hi] => match parseHex lo, parseHex hi with
    | some lo, some hi => (dec16Loop (hi + 1 - lo) lo {}).show
    | _, _ => "bad-op"
  | ["dec32", lo, hi] => match parseHex lo, parseHex hi with
    | some lo, some hi => (dec32Outer (hi + 1 - lo) lo {}).show
    | _, _ => "bad-op"
  | ["dec32x", h0, lo, hi] => match parseHex h0, parseHex lo, parseHex hi with
    | some h0, some lo, some hi => (dec32Inner h0 (hi + 1 - lo) lo {}).show
    | _, _, _ => "bad-op"
  | ["spec32", lo, hi] => match parseHex lo, parseHex hi with
    | some lo, some hi => (spec32Outer (hi + 1 - lo) lo {}).show
    | _, _ => "bad-op"
  | ["encdom", name, "r"] => encdom name .regAlt
  | ["encdom", name, "-"] => encdom name .nothing
  | ["encdom", name, lo, hi] => match parseInt lo, parseInt hi with
    | some lo, some hi => encdom name (.range lo (hi + 1 - lo).toNat)
    | _, _ => "bad-op"
  | _ => "bad-op"

end Trion.Driver.Codec
