import TrionModel.Model.Uf2
import TrionModel.Driver.Util
/-! Line protocol for the UF2 writer model and the UF2 reader.

* `uf2 run  <fam|-> <ps> <al> <s<cap>|v<pre>> <op>*`  → `new=… <result>* fin=ok len=<n> fnv=<digest>`
* `uf2 dump <fam|-> <ps> <al> <s<cap>|v<pre>> <op>*`  → the same, followed by ` hex=<output bytes>`
* `uf2 read <hex>`                                   → `none` or `n=<k> | flags addr psize no total fam datahex | …`
* `uf2 image <hex> <addr-hex> <len>`                 → image of the decoded blocks over `[addr, addr+len)`,
                                                       two hex digits per present byte, `..` for absent

`fam` is hexadecimal, `ps`, `al`, `cap`, `pre` decimal (any `usize`).
An `op` is `w:<addr-hex>:<data>:<0|1>` (`write`) or `a:<addr-hex>:<data>:<0|1>` (`write_all`);
`<data>` is a hex string, `-` (empty), or `#<len>,<a>,<b>` meaning byte `i` = `(a + b*i) % 256`.
Results: `ok:<n>`, `err:ovf:<need>:<have>`, `err:aln:<len>:<align>`, `err:adr:<need>:<have>`,
`err:cnt:<need>:<have>`, `PANIC` (processing of the request stops there, no `fin`).
-/
namespace Trion.Driver.Uf2
open Trion.Driver Trion.Uf2

def parseData (s : String) : Option (List UInt8) :=
  if s.startsWith "#" then
    match ((s.drop 1).toString.splitOn ",").map String.toNat? with
    | [some n, some a, some b] => some ((List.range n).map fun i => ((a + b * i) % 256).toUInt8)
    | _ => none
  else (parseHexBytes s).map (·.map Nat.toUInt8)

def parseOp (s : String) : Option Op :=
  match s.splitOn ":" with
  | [k, a, d, nf] => match parseHex a, parseData d with
    | some a, some d =>
      let nf := nf = "1"
      if k = "w" then some (.write a d nf) else if k = "a" then some (.writeAll a d nf) else none
    | _, _ => none
  | _ => none

def showErr : WriteErr → String
  | .overflow n h => s!"err:ovf:{n}:{h}"
  | .alignment l a => s!"err:aln:{l}:{a}"
  | .address n h => s!"err:adr:{n}:{h}"
  | .blockCount n h => s!"err:cnt:{n}:{h}"

def hexOf (bs : List UInt8) : String := bytesToHex (bs.map UInt8.toNat)

def fnvBytes (bs : List UInt8) : UInt64 := bs.foldl fnvStep fnvInit

/-- run the operations; stops at the first panic -/
def runOps (st : St) : List Op → List String → St × List String × Bool
  | [], acc => (st, acc.reverse, false)
  | op :: ops, acc => match step st op with
    | (st', .ok n) => runOps st' ops (s!"ok:{n}" :: acc)
    | (st', .err e) => runOps st' ops (showErr e :: acc)
    | (st', .panic _) => (st', ("PANIC" :: acc).reverse, true)

def runReq (dump : Bool) (fam ps al dst : String) (ops : List String) : String :=
  let fam? : Option (Option Nat) := if fam = "-" then some none else (parseHex fam).map some
  let dst? : Option (Bool × Nat) :=
    if dst.startsWith "s" then (dst.drop 1).toString.toNat?.map (false, ·)
    else if dst.startsWith "v" then (dst.drop 1).toString.toNat?.map (true, ·) else none
  match fam?, ps.toNat?, al.toNat?, dst?, ops.mapM parseOp with
  | some fam, some ps, some al, some (isVec, n), some ops =>
    match (if isVec then newVec fam ps al n else new fam ps al n) with
    | .error (.blockSize b) => s!"new=err:bs:{b}"
    | .error (.alignment a b) => s!"new=err:al:{a}:{b}"
    | .ok st =>
      let (st', rs, panicked) := runOps st ops []
      let head := " ".intercalate ("new=ok" :: rs)
      if panicked then head else
      match finish st' with
      | .ok out =>
        let t := s!"{head} fin=ok len={out.length} fnv={toHex 16 (fnvBytes out).toNat}"
        if dump then s!"{t} hex={hexOf out}" else t
      | _ => s!"{head} fin=PANIC"
  | _, _, _, _, _ => "bad-op"

def showBlock (b : Block) : String :=
  s!"{toHex 8 b.flags} {toHex 8 b.addr} {b.psize} {b.blockNo} {b.numBlocks} {toHex 8 b.fam} {hexOf b.data}"

def handle : List String → String
  | "run" :: fam :: ps :: al :: dst :: ops => runReq false fam ps al dst ops
  | "dump" :: fam :: ps :: al :: dst :: ops => runReq true fam ps al dst ops
  | ["read", h] => match parseHexBytes h with
    | some bs => match read (bs.map Nat.toUInt8) with
      | none => "none"
      | some bl => " | ".intercalate (s!"n={bl.length}" :: bl.map showBlock)
    | none => "bad-op"
  | ["image", h, a, n] => match parseHexBytes h, parseHex a, n.toNat? with
    | some bs, some a, some n => match read (bs.map Nat.toUInt8) with
      | none => "none"
      | some bl => String.join ((List.range n).map fun i => match image bl (a + i) with
        | some v => toHex 2 v.toNat
        | none => "..")
    | _, _, _ => "bad-op"
  | _ => "bad-op"

end Trion.Driver.Uf2
