import TrionModel.Model.Layout
import TrionModel.Driver.Util
/-! Line protocol for the layout model.

`layout run <stmt>;<stmt>;…`  → `ok <image>` | `fail <kind>`      (the operational model)
`layout ref <stmt>;<stmt>;…`  → `ok <image>` | `none`             (the two-pass reference)

statements: `A:<addr>` `G:<align>` `L:<sym>` `C:<sym>:<deps>:<value>` `R:<hexbytes>` `E:<len>:<deps>:<hexbytes>`
(numbers decimal, deps comma separated or `-`); image: ascending runs `aaaaaaaa:hex…` separated by spaces, `-` if empty.
-/
namespace Trion.Driver.Layout
open Trion.Driver Trion.Layout

def parseDeps (s : String) : Option (List Nat) :=
  if s = "-" ∨ s = "" then some [] else
  (s.splitOn ",").foldr (fun x acc => match x.toNat?, acc with
    | some n, some l => some (n :: l)
    | _, _ => none) (some [])

def parseInt (s : String) : Option Int :=
  if s.startsWith "-" then (s.drop 1).toNat?.map (fun n => - (n : Int)) else s.toNat?.map (fun n => (n : Int))

def toBytes (l : List Nat) : Bytes := l.map (fun n => n.toUInt8)

def parseStmt (s : String) : Option Stmt :=
  match s.splitOn ":" with
  | ["A", a] => a.toNat?.map .addr
  | ["G", n] => n.toNat?.map .align
  | ["L", n] => n.toNat?.map .label
  | ["C", n, d, v] => match n.toNat?, parseDeps d, parseInt v with
    | some n, some d, some v => some (.const n d v)
    | _, _, _ => none
  | ["R", h] => (parseHexBytes h).map (fun b => .raw (toBytes b))
  | ["E", l, d, h] => match l.toNat?, parseDeps d, parseHexBytes h with
    | some l, some d, some b => some (.emit l d (toBytes b))
    | _, _, _ => none
  | _ => none

def parseProg (s : String) : Option (List Stmt) :=
  if s = "-" then some [] else
  (s.splitOn ";").foldr (fun x acc => match parseStmt x, acc with
    | some st, some l => some (st :: l)
    | _, _ => none) (some [])

/-- the image as ascending `(address, byte)` pairs: a stable sort keeps the newest entry of an address first -/
def canon (m : Img) : List (Nat × UInt8) :=
  let sorted := m.mergeSort (fun x y => x.1 ≤ y.1)
  (sorted.foldl (fun (acc : List (Nat × UInt8)) e => match acc with
    | b :: _ => if e.1 = b.1 then acc else e :: acc
    | [] => [e]) []).reverse

def showImg (m : Img) : String :=
  let es := canon m
  if es.isEmpty then "-" else
  let (out, _) := es.foldl (fun (acc : String × Option Nat) e =>
    let (s, prev) := acc
    let byte := toHex 2 e.2.toNat
    match prev with
    | some p => if p + 1 = e.1 then (s ++ byte, some e.1) else (s ++ " " ++ toHex 8 e.1 ++ ":" ++ byte, some e.1)
    | none => (toHex 8 e.1 ++ ":" ++ byte, some e.1)) ("", none)
  out

def showFail : Fail → String
  | .inactive => "inactive" | .occupied => "occupied" | .range => "range" | .overflow => "overflow"
  | .duplicate => "duplicate" | .undefined => "undefined" | .panic => "PANIC"

def handle : List String → String
  | ["run", p] => match parseProg p with
    | none => "bad-op"
    | some p => match run p with
      | .ok img => "ok " ++ showImg img
      | .error e => "fail " ++ showFail e
  | ["ref", p] => match parseProg p with
    | none => "bad-op"
    | some p => match Ref.layout p with
      | some img => "ok " ++ showImg img
      | none => "none"
  | _ => "bad-op"

end Trion.Driver.Layout
