import TrionModel.Model.Map
import TrionModel.Model.MapOps
import TrionModel.Driver.Util
/-! Line protocol for the memory-map model.

* `map run <op>;<op>;…` — one self-contained request holding a whole operation history on an initially
  empty map. Reply: after EVERY op its return value and the full state dump, joined with ` | `:
  `<ret> [<first>:<hex>,<first>:<hex>,…]`. Addresses in requests are decimal, in replies 8 hex digits.
  ops: `put:A:HEX` `rm:A` `rr:LO:HI` `clr` `find:A:e|b|a` `get:A:e|b|a` `cnt` `cr:LO:HI` `ir:LO:HI` `len`;
  `xput:A:HEX` and `xrr:LO:HI` run the OPERATIONAL (statement-by-statement) models `putOps` / `removeRangeOps`
  of Model/MapOps.lean instead of the recursive forms (a model panic prints `panic <site>`, a `.desync`
  prints `desync <site>`; the state is then left unchanged).
* `map enum <base> <depth> <qdepth> <prefix>` — bulk: the model itself enumerates ALL histories of length
  ≤ depth over the 58-operation alphabet of the 6-address window at `base` that start with the op indices
  in `prefix` (`-` = none), hashing return value and state after every op (and every query of the probe
  set at nodes of depth ≤ qdepth); reply = 64-bit digest (hex).
* `map enumx <base> <depth> <qdepth> <prefix>` — the same enumeration with every put / remove_range executed by
  the operational models `putOps` / `removeRangeOps` (panic / desync hash as 99 / 97 and keep the state).
-/
namespace Trion.Driver.Map
open Trion.Driver Trion.Map

def hex8 (n : Nat) : String := toHex 8 n
def hexBytes (d : List UInt8) : String := bytesToHex (d.map UInt8.toNat)

def dump (ps : Segs) : String :=
  "[" ++ ",".intercalate (ps.map fun s => hex8 s.1 ++ ":" ++ hexBytes s.2) ++ "]"

def parseMode : String → Option Search
  | "e" => some .exact | "b" => some .below | "a" => some .above | _ => none

def showRange (r : Nat × Nat) : String := hex8 r.1 ++ " " ++ hex8 r.2

def showItems (xs : List ((Nat × Nat) × List UInt8)) : String :=
  if xs.isEmpty then "-" else ",".intercalate (xs.map fun x => showRange x.1 ++ " " ++ hexBytes x.2)

def bytesOfNats (xs : List Nat) : List UInt8 := xs.map fun n => n.toUInt8

/-- one op of the text protocol: reply text and new state; `none` = malformed request -/
def textOp (ps : Segs) (w : List String) : Option (String × Segs) :=
  match w with
  | ["put", a, d] => match a.toNat?, parseHexBytes d with
    | some a, some d =>
      if a > u32Max then none else
      match put ps a (bytesOfNats d) with
      | (.ok n, ps') => some ("ok " ++ toString n, ps')
      | (.error (.overflow need have_), ps') => some ("err " ++ toString need ++ " " ++ toString have_, ps')
    | _, _ => none
  | ["xput", a, d] => match a.toNat?, parseHexBytes d with
    | some a, some d =>
      if a > u32Max then none else
      match putOps ps a (bytesOfNats d) with
      | .ok (.ok n, ps') => some ("ok " ++ toString n, ps')
      | .ok (.error (.overflow need have_), ps') => some ("err " ++ toString need ++ " " ++ toString have_, ps')
      | .panic site => some ("panic " ++ site, ps)
      | .desync site => some ("desync " ++ site, ps)
    | _, _ => none
  | ["xrr", lo, hi] => match lo.toNat?, hi.toNat? with
    | some lo, some hi =>
      if lo > u32Max ∨ hi > u32Max then none else
      match rangeNew lo hi with
      | .panic => some ("panic", ps)
      | .ok (lo, hi) => match removeRangeOps ps lo hi with
        | .ok ps' => some ("ok", ps')
        | .panic site => some ("panic " ++ site, ps)
        | .desync site => some ("desync " ++ site, ps)
    | _, _ => none
  | ["rm", a] => match a.toNat? with
    | some a =>
      if a > u32Max then none else
      match remove ps a with
      | (.panic, ps') => some ("panic", ps')
      | (.ok none, ps') => some ("none", ps')
      | (.ok (some (r, d)), ps') => some ("some " ++ showRange r ++ " " ++ hexBytes d, ps')
    | none => none
  | ["rr", lo, hi] => match lo.toNat?, hi.toNat? with
    | some lo, some hi =>
      if lo > u32Max ∨ hi > u32Max then none else
      match rangeNew lo hi with
      | .panic => some ("panic", ps)
      | .ok (lo, hi) => some ("ok", removeRange ps lo hi)
    | _, _ => none
  | ["clr"] => some ("ok", clear ps)
  | ["find", a, m] => match a.toNat?, parseMode m with
    | some a, some m =>
      if a > u32Max then none else
      match find ps a m with
      | .panic => some ("panic", ps)
      | .ok none => some ("none", ps)
      | .ok (some r) => some (showRange r, ps)
    | _, _ => none
  | ["get", a, m] => match a.toNat?, parseMode m with
    | some a, some m =>
      if a > u32Max then none else
      match get ps a m with
      | .panic => some ("panic", ps)
      | .ok none => some ("none", ps)
      | .ok (some (r, d)) => some (showRange r ++ " " ++ hexBytes d, ps)
    | _, _ => none
  | ["cnt"] => match count ps with
    | .panic => some ("panic", ps)
    | .ok (n, s) => some (toString n ++ " " ++ toString s, ps)
  | ["cr", lo, hi] => match lo.toNat?, hi.toNat? with
    | some lo, some hi =>
      if lo > u32Max ∨ hi > u32Max then none else
      match rangeNew lo hi with
      | .panic => some ("panic", ps)
      | .ok (lo, hi) => match countRange ps lo hi with
        | .panic => some ("panic", ps)
        | .ok (n, s) => some (toString n ++ " " ++ toString s, ps)
    | _, _ => none
  | ["ir", lo, hi] => match lo.toNat?, hi.toNat? with
    | some lo, some hi =>
      if lo > u32Max ∨ hi > u32Max then none else
      match rangeNew lo hi with
      | .panic => some ("panic", ps)
      | .ok (lo, hi) => match iterRange ps lo hi with
        | .panic => some ("panic", ps)
        | .ok xs => some (showItems xs, ps)
    | _, _ => none
  | ["len"] => some (toString (len ps), ps)
  | _ => none

def runText (ops : List String) : String :=
  let rec go : List String → Segs → List String → String
    | [], _, acc => " | ".intercalate acc.reverse
    | o :: r, ps, acc => match textOp ps (o.splitOn ":") with
      | none => "bad-op"
      | some (s, ps') => go r ps' ((s ++ " " ++ dump ps') :: acc)
  go ops [] []

/-! ### bulk enumeration -/

@[inline] def mix (h : UInt64) (n : Nat) : UInt64 := (h ^^^ n.toUInt64) * 0x100000001b3

def mixBytes (h : UInt64) (d : List UInt8) : UInt64 :=
  d.foldl (fun h b => mix h b.toNat) (mix h d.length)

def mixState (h : UInt64) (ps : Segs) : UInt64 :=
  ps.foldl (fun h s => mixBytes (mix (mix h s.1) (segLast s)) s.2) (mix h ps.length)

/-- the 21 inclusive ranges of a 6-address window, in lexicographic order -/
def pairs6 : List (Nat × Nat) :=
  (List.range 6).flatMap fun lo => ((List.range 6).filter (lo ≤ ·)).map fun hi => (lo, hi)

/-- data of the put at history position `t` with length `n` -/
def dataAt (t n : Nat) : List UInt8 := (List.range n).map fun j => ((16 * (t + 1) + j) % 256).toUInt8

/-- apply alphabet entry `i` (0..57) at history position `t`, hashing return value and new state -/
def applyIdx (x : Bool) (base t i : Nat) (ps : Segs) (h : UInt64) : UInt64 × Segs :=
  if i < 30 then
    if x then
      match putOps ps (base + i / 5) (dataAt t (i % 5)) with
      | .ok (.ok n, ps') => (mixState (mix (mix h 1) n) ps', ps')
      | .ok (.error (.overflow need have_), ps') => (mixState (mix (mix (mix h 2) need) have_) ps', ps')
      | .panic _ => (mixState (mix h 99) ps, ps)
      | .desync _ => (mixState (mix h 97) ps, ps)
    else
    match put ps (base + i / 5) (dataAt t (i % 5)) with
    | (.ok n, ps') => (mixState (mix (mix h 1) n) ps', ps')
    | (.error (.overflow need have_), ps') => (mixState (mix (mix (mix h 2) need) have_) ps', ps')
  else if i < 36 then
    match remove ps (base + (i - 30)) with
    | (.panic, ps') => (mixState (mix h 99) ps', ps')
    | (.ok none, ps') => (mixState (mix h 3) ps', ps')
    | (.ok (some (r, d)), ps') => (mixState (mixBytes (mix (mix (mix h 4) r.1) r.2) d) ps', ps')
  else if i < 57 then
    let p := pairs6.getD (i - 36) (0, 0)
    if x then
      match removeRangeOps ps (base + p.1) (base + p.2) with
      | .ok ps' => (mixState (mix h 5) ps', ps')
      | .panic _ => (mixState (mix h 99) ps, ps)
      | .desync _ => (mixState (mix h 97) ps, ps)
    else
    let ps' := removeRange ps (base + p.1) (base + p.2)
    (mixState (mix h 5) ps', ps')
  else
    (mixState (mix h 6) [], [])

/-- probe addresses for the queries: 0, the window and its two neighbours, 0xFFFFFFFF -/
def probes (base : Nat) : List Nat :=
  [0] ++ (if base > 0 then [base - 1] else []) ++ (List.range 6).map (base + ·) ++
  (if base + 6 ≤ u32Max then [base + 6] else []) ++ [u32Max]

def mixOptRange (h : UInt64) : Res (Option (Nat × Nat)) → UInt64
  | .panic => mix h 99
  | .ok none => mix h 10
  | .ok (some r) => mix (mix (mix h 11) r.1) r.2

def mixItems (h : UInt64) (xs : List ((Nat × Nat) × List UInt8)) : UInt64 :=
  xs.foldl (fun h x => mixBytes (mix (mix h x.1.1) x.1.2) x.2) (mix h xs.length)

def hashQueries (base : Nat) (ps : Segs) (h : UInt64) : UInt64 :=
  let pr := probes base
  let h := pr.foldl (fun h a =>
    let h := mixOptRange h (find ps a .exact)
    let h := mixOptRange h (find ps a .below)
    let h := mixOptRange h (find ps a .above)
    match get ps a .exact with
    | .panic => mix h 99
    | .ok none => mix h 12
    | .ok (some (r, d)) => mixBytes (mix (mix (mix h 13) r.1) r.2) d) h
  let h := match count ps with
    | .panic => mix h 99
    | .ok (n, s) => mix (mix (mix h 14) n) s
  pr.foldl (fun h lo => pr.foldl (fun h hi =>
    if lo ≤ hi then
      let h := match countRange ps lo hi with
        | .panic => mix h 99
        | .ok (n, s) => mix (mix (mix h 15) n) s
      match iterRange ps lo hi with
        | .panic => mix h 99
        | .ok xs => mixItems (mix h 16) xs
    else h) h) h

def enumGo (x : Bool) (base qd : Nat) : Nat → Nat → Segs → UInt64 → UInt64
  | 0, _, _, h => h
  | fuel + 1, t, ps, h =>
    (List.range 58).foldl (fun h i =>
      let (h1, ps') := applyIdx x base t i ps h
      let h2 := if t + 1 ≤ qd then hashQueries base ps' h1 else h1
      enumGo x base qd fuel (t + 1) ps' h2) h

def enumPrefix (x : Bool) (base depth qd : Nat) (pre : List Nat) : UInt64 :=
  let rec go : List Nat → Nat → Segs → UInt64 → UInt64
    | [], t, ps, h => enumGo x base qd (depth - t) t ps h
    | i :: r, t, ps, h =>
      let (h1, ps') := applyIdx x base t i ps h
      let h2 := if t + 1 ≤ qd then hashQueries base ps' h1 else h1
      go r (t + 1) ps' h2
  go pre 0 [] fnvInit

def parseIdxList (s : String) : Option (List Nat) :=
  if s = "-" then some [] else (s.splitOn ",").mapM fun w => w.toNat?

def handleEnum (x : Bool) (base depth qd pre : String) : String :=
  match base.toNat?, depth.toNat?, qd.toNat?, parseIdxList pre with
  | some base, some depth, some qd, some pre =>
    if base + 5 > u32Max ∨ pre.any (· ≥ 58) ∨ pre.length > depth then "bad-op"
    else toHex 16 (enumPrefix x base depth qd pre).toNat
  | _, _, _, _ => "bad-op"

def handle : List String → String
  | ["run", ops] => runText ((ops.splitOn ";").filter (· ≠ ""))
  | ["run"] => ""
  | ["enum", base, depth, qd, pre] => handleEnum false base depth qd pre
  | ["enumx", base, depth, qd, pre] => handleEnum true base depth qd pre
  | _ => "bad-op"

end Trion.Driver.Map
