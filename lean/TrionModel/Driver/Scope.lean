import TrionModel.Model.Scope
import TrionModel.Driver.Util
/-! Line protocol for the scope model.

`scope run <op> <op> …` with ops
  `en:<tag>` `ex` `la:<name>:<value>:<tag>` `co:<name>:<value>:<tag>` `gl:<name>:<tag>` `im:<name>:<tag>`
  `xp:<name>:<tag>` `us:<name>:<tag>` `fi`
→ the log oldest first (`V:<tag>:<value>:<stage>`, `D:<tag>:<kind>`, `F:<ok|fail>`), then `|`, then the final
  real-global table (`<name>=<value>` / `<name>=?`), then `|`, then `depth locals? frames mode`;
  or `PANIC <site>`.
-/
namespace Trion.Driver.Scope
open Trion.Driver Trion.Scope

def nameOf (s : String) : Trion.Bytes := s.toUTF8.toList
def strOf (b : Trion.Bytes) : String := String.ofList (b.map fun c => Char.ofNat c.toNat)

def parseOp (w : String) : Option Op :=
  match w.splitOn ":" with
  | ["en", t] => t.toNat?.map Op.enter
  | ["ex"] => some .exit
  | ["fi"] => some .finalize
  | ["la", n, v, t] => match v.toInt?, t.toNat? with
    | some v, some t => some (.label (nameOf n) v t)
    | _, _ => none
  | ["co", n, v, t] => match v.toInt?, t.toNat? with
    | some v, some t => some (.const (nameOf n) v t)
    | _, _ => none
  | ["gl", n, t] => t.toNat?.map (Op.global (nameOf n))
  | ["im", n, t] => t.toNat?.map (Op.import (nameOf n))
  | ["xp", n, t] => t.toNat?.map (Op.export (nameOf n))
  | ["us", n, t] => t.toNat?.map (Op.use (nameOf n))
  | _ => none

def parseOps : List String → Option (List Op)
  | [] => some []
  | w :: ws => match parseOp w, parseOps ws with
    | some o, some os => some (o :: os)
    | _, _ => none

def showKind : Kind → String
  | .reserved => "reserved" | .dupGlobal => "dupGlobal" | .dupLocal => "dupLocal" | .dupConst => "dupConst"
  | .nfGlobal => "nfGlobal" | .nfLocal => "nfLocal" | .defGlobal => "defGlobal" | .defLocal => "defLocal"
  | .range => "range" | .argType => "argType" | .asmFailed => "asmFailed"

def showEv : Ev → String
  | .value t v st => s!"V:{t}:{v}:{st}"
  | .diag t k => s!"D:{t}:{showKind k}"
  | .done ok => if ok then "F:ok" else "F:fail"

def showPanic : Panic → String
  | .noLocalScope => "noLocalScope" | .unwrapNone => "unwrapNone" | .assertFailed => "assertFailed"
  | .unreachable => "unreachable" | .fuel => "fuel"

def showEntry : Trion.Bytes × Option Int → String
  | (n, none) => strOf n ++ "=?"
  | (n, some v) => strOf n ++ s!"={v}"

def showMode : Mode → String
  | .running => "running"
  | .stopped .trivial k => s!"stopped-trivial-{k}"
  | .stopped .fatal k => s!"stopped-fatal-{k}"

def showState (s : State) : String :=
  " ".intercalate (s.log.reverse.map showEv) ++ " | " ++ " ".intercalate (s.globals.map showEntry) ++ " | " ++
    s!"{s.depth} {if s.locals.isSome then "some" else "none"} {s.frames.length} {showMode s.mode}"

def handle : List String → String
  | "run" :: ws =>
    match parseOps ws with
    | none => "bad-op"
    | some ops =>
      match run init ops with
      | .error p => "PANIC " ++ showPanic p
      | .ok s => showState s
  | _ => "bad-op"

end Trion.Driver.Scope
