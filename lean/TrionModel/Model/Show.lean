import TrionModel.Model.Syntax
import TrionModel.Model.Instr
/-!
# Disassembly text (import-free): `impl Display for InstrAt` of `src/arm6m/asm.rs`, with `Display` of
`Register` / `SystemReg` (their `Debug` names), `Condition`, `RegisterSet`, `ImmReg`.

* `Show.text i a`  — the bytes `format!("{}", i.at(a))` produces, character for character;
* `Show.parts i a` — the mnemonic and the argument trees which that text denotes;
* `Show.render`    — prints a mnemonic and argument trees in the assembler's concrete syntax;
  `Show.text i a = Show.render (Show.parts i a)` is proved in `Props/C19.lean`.
  (text → tokens → trees, i.e. that the parser reads `render p` back as `p`, belongs to C09–C11.)
-/
namespace Trion.Show

/-- decimal digits of a natural number (`Display for u8/u16/u32`) -/
def decimal (n : Nat) : Bytes := (Nat.toDigits 10 n).map (fun c => c.toNat.toUInt8)

/-- `Display for i32` -/
def intDec (v : Int) : Bytes :=
  if v < 0 then bytesOf "-" ++ decimal v.natAbs else decimal v.toNat

def hexDigit (n : Nat) : UInt8 := if n < 10 then (48 + n).toUInt8 else (55 + n).toUInt8

/-- `{:08X}` of a `u32` -/
def hex8 (n : Nat) : Bytes :=
  [hexDigit (n / 268435456 % 16), hexDigit (n / 16777216 % 16), hexDigit (n / 1048576 % 16),
   hexDigit (n / 65536 % 16), hexDigit (n / 4096 % 16), hexDigit (n / 256 % 16),
   hexDigit (n / 16 % 16), hexDigit (n % 16)]

/-- `l_{:08X}` -/
def label (t : Nat) : Bytes := bytesOf "l_" ++ hex8 t

/-- `Display for Register` (= `Debug`) -/
def regName (r : Reg) : Bytes :=
  match r.val with
  | 0 => bytesOf "R0" | 1 => bytesOf "R1" | 2 => bytesOf "R2" | 3 => bytesOf "R3" | 4 => bytesOf "R4"
  | 5 => bytesOf "R5" | 6 => bytesOf "R6" | 7 => bytesOf "R7" | 8 => bytesOf "R8" | 9 => bytesOf "R9"
  | 10 => bytesOf "R10" | 11 => bytesOf "R11" | 12 => bytesOf "R12"
  | 13 => bytesOf "SP" | 14 => bytesOf "LR" | _ => bytesOf "PC"

/-- `Display for SystemReg` (= `Debug`) -/
def sysName : SysReg → Bytes
  | .apsr => bytesOf "APSR" | .iapsr => bytesOf "IAPSR" | .eapsr => bytesOf "EAPSR" | .xpsr => bytesOf "XPSR"
  | .ipsr => bytesOf "IPSR" | .epsr => bytesOf "EPSR" | .iepsr => bytesOf "IEPSR" | .msp => bytesOf "MSP"
  | .psp => bytesOf "PSP" | .primask => bytesOf "PRIMASK" | .control => bytesOf "CONTROL"

/-- `Display for Condition` (`Always` prints nothing) -/
def condName (c : Cond) : Bytes :=
  match c.val with
  | 0 => bytesOf "EQ" | 1 => bytesOf "NE" | 2 => bytesOf "CS" | 3 => bytesOf "CC" | 4 => bytesOf "MI"
  | 5 => bytesOf "PL" | 6 => bytesOf "VS" | 7 => bytesOf "VC" | 8 => bytesOf "HI" | 9 => bytesOf "LS"
  | 10 => bytesOf "GE" | 11 => bytesOf "LT" | 12 => bytesOf "GT" | 13 => bytesOf "LE" | _ => []

/-- `Display for ImmReg` -/
def immRegText : ImmReg → Bytes
  | .imm v => intDec v
  | .reg r => regName r

/-- the loop of `Display for RegisterSet`: bits `i .. 15`, `first` = nothing printed yet -/
def regSetLoop (bits : Nat) : Nat → Nat → Bool → Bytes
  | 0, _, _ => []
  | fuel + 1, i, first =>
    if bits / 2 ^ i % 2 ≠ 0 then
      (if first then [] else bytesOf ", ") ++ regName (Fin.ofNat 16 i) ++ regSetLoop bits fuel (i + 1) false
    else regSetLoop bits fuel (i + 1) first

/-- `Display for RegisterSet` -/
def regSetText (rs : RegSet) : Bytes := bytesOf "{" ++ regSetLoop rs.val 16 0 true ++ bytesOf "}"

/-- `wrapping_add` on `u32` with an `i32`/`u16` converted by `as u32` (two's complement) -/
def wrapAdd (a : Nat) (off : Int) : Nat := ((a : Int) + off).emod 4294967296 |>.toNat

/-- `(self.addr & !0b11).wrapping_add(4)` -/
def alPc (addr : Nat) : Nat := (addr / 4 * 4 + 4) % 4294967296
/-- `self.addr.wrapping_add(4)` -/
def pcOf (addr : Nat) : Nat := (addr + 4) % 4294967296

def sfx (flags : Bool) : Bytes := if flags then bytesOf "S" else []

def two (m : String) (a b : Bytes) : Bytes := bytesOf m ++ bytesOf " " ++ a ++ bytesOf ", " ++ b ++ bytesOf ";"
def three (m : Bytes) (a b c : Bytes) : Bytes :=
  m ++ bytesOf " " ++ a ++ bytesOf ", " ++ b ++ bytesOf ", " ++ c ++ bytesOf ";"
def mem (m : String) (d a o : Bytes) : Bytes :=
  bytesOf m ++ bytesOf " " ++ d ++ bytesOf ", " ++ bytesOf "[" ++ a ++ bytesOf " + " ++ o ++ bytesOf "]" ++ bytesOf ";"
def one (m : Bytes) (a : Bytes) : Bytes := m ++ bytesOf " " ++ a ++ bytesOf ";"

/-- `impl Display for InstrAt` -/
def text (i : Instr) (a : Nat) : Bytes :=
  match i with
  | .adc d r => two "ADCS" (regName d) (regName r)
  | .add f d l r => three (bytesOf "ADD" ++ sfx f) (regName d) (regName l) (immRegText r)
  | .adr d off => two "ADR" (regName d) (label (wrapAdd (alPc a) off))
  | .and d r => two "ANDS" (regName d) (regName r)
  | .asr d v s => three (bytesOf "ASRS") (regName d) (regName v) (immRegText s)
  | .b c off => one (bytesOf "B" ++ condName c) (label (wrapAdd (pcOf a) off))
  | .bic d r => two "BICS" (regName d) (regName r)
  | .bkpt info => one (bytesOf "BKPT") (intDec info)
  | .bl off => one (bytesOf "BL") (label (wrapAdd (pcOf a) off))
  | .blx r => one (bytesOf "BLX") (regName r)
  | .bx r => one (bytesOf "BX") (regName r)
  | .cmn l r => two "CMN" (regName l) (regName r)
  | .cmp l r => two "CMP" (regName l) (immRegText r)
  | .cps e => if e then bytesOf "CPSIE i;" else bytesOf "CPSID i;"
  | .dmb => bytesOf "DMB SY;"
  | .dsb => bytesOf "DSB SY;"
  | .eor d r => two "EORS" (regName d) (regName r)
  | .isb => bytesOf "ISB SY;"
  | .ldm r rs => two "LDM" (regName r) (regSetText rs)
  | .ldr d ad o =>
    match o with
    | .imm off =>
      if ad.val = 15 then two "LDR" (regName d) (label (wrapAdd (alPc a) off))
      else mem "LDR" (regName d) (regName ad) (immRegText o)
    | .reg _ => mem "LDR" (regName d) (regName ad) (immRegText o)
  | .ldrb d ad o => mem "LDRB" (regName d) (regName ad) (immRegText o)
  | .ldrh d ad o => mem "LDRH" (regName d) (regName ad) (immRegText o)
  | .ldrsb d ad o => mem "LDRSB" (regName d) (regName ad) (regName o)
  | .ldrsh d ad o => mem "LDRSH" (regName d) (regName ad) (regName o)
  | .lsl d v s => three (bytesOf "LSLS") (regName d) (regName v) (immRegText s)
  | .lsr d v s => three (bytesOf "LSRS") (regName d) (regName v) (immRegText s)
  | .mov f d s => (bytesOf "MOV" ++ sfx f) ++ bytesOf " " ++ regName d ++ bytesOf ", " ++ immRegText s ++ bytesOf ";"
  | .mrs d s => two "MRS" (regName d) (sysName s)
  | .msr d s => two "MSR" (sysName d) (regName s)
  | .mul d r => two "MULS" (regName d) (regName r)
  | .mvn d r => two "MVNS" (regName d) (regName r)
  | .nop => bytesOf "NOP;"
  | .orr d r => two "ORRS" (regName d) (regName r)
  | .pop rs => one (bytesOf "POP") (regSetText rs)
  | .push rs => one (bytesOf "PUSH") (regSetText rs)
  | .rev d r => two "REV" (regName d) (regName r)
  | .rev16 d r => two "REV16" (regName d) (regName r)
  | .revsh d r => two "REVSH" (regName d) (regName r)
  | .ror d r => two "RORS" (regName d) (regName r)
  | .rsb d l => three (bytesOf "RSBS") (regName d) (regName l) (bytesOf "0")
  | .sbc d r => two "SBCS" (regName d) (regName r)
  | .sev => bytesOf "SEV;"
  | .stm r rs => two "STM" (regName r) (regSetText rs)
  | .str d ad o => mem "STR" (regName d) (regName ad) (immRegText o)
  | .strb d ad o => mem "STRB" (regName d) (regName ad) (immRegText o)
  | .strh d ad o => mem "STRH" (regName d) (regName ad) (immRegText o)
  | .sub f d l r => three (bytesOf "SUB" ++ sfx f) (regName d) (regName l) (immRegText r)
  | .svc info => one (bytesOf "SVC") (intDec info)
  | .sxtb d r => two "SXTB" (regName d) (regName r)
  | .sxth d r => two "SXTH" (regName d) (regName r)
  | .tst d r => two "TST" (regName d) (regName r)
  | .udf info => one (bytesOf "UDF.N") (intDec info)
  | .udfw info => one (bytesOf "UDF.W") (intDec info)
  | .uxtb d r => two "UXTB" (regName d) (regName r)
  | .uxth d r => two "UXTH" (regName d) (regName r)
  | .wfe => bytesOf "WFE;"
  | .wfi => bytesOf "WFI;"
  | .yield => bytesOf "YIELD;"

/-! ## the statement the text denotes -/

def rA (r : Reg) : Arg := .ident (regName r)
def irA : ImmReg → Arg
  | .imm v => .const v
  | .reg r => rA r
def lblA (t : Nat) : Arg := .ident (label t)
def memA (ad : Reg) (o : Arg) : Arg := .addr (.bin .add (rA ad) o)

/-- the registers of a set, lowest first -/
def regSetList (bits : Nat) : Nat → Nat → List Reg
  | 0, _ => []
  | fuel + 1, i =>
    if bits / 2 ^ i % 2 ≠ 0 then Fin.ofNat 16 i :: regSetList bits fuel (i + 1) else regSetList bits fuel (i + 1)

def rsA (rs : RegSet) : Arg := .seq (Args.ofList ((regSetList rs.val 16 0).map rA))

/-- mnemonic and argument trees denoted by `text i a` -/
def parts (i : Instr) (a : Nat) : Bytes × List Arg :=
  match i with
  | .adc d r => (bytesOf "ADCS", [rA d, rA r])
  | .add f d l r => (bytesOf "ADD" ++ sfx f, [rA d, rA l, irA r])
  | .adr d off => (bytesOf "ADR", [rA d, lblA (wrapAdd (alPc a) off)])
  | .and d r => (bytesOf "ANDS", [rA d, rA r])
  | .asr d v s => (bytesOf "ASRS", [rA d, rA v, irA s])
  | .b c off => (bytesOf "B" ++ condName c, [lblA (wrapAdd (pcOf a) off)])
  | .bic d r => (bytesOf "BICS", [rA d, rA r])
  | .bkpt info => (bytesOf "BKPT", [.const info])
  | .bl off => (bytesOf "BL", [lblA (wrapAdd (pcOf a) off)])
  | .blx r => (bytesOf "BLX", [rA r])
  | .bx r => (bytesOf "BX", [rA r])
  | .cmn l r => (bytesOf "CMN", [rA l, rA r])
  | .cmp l r => (bytesOf "CMP", [rA l, irA r])
  | .cps e => (if e then bytesOf "CPSIE" else bytesOf "CPSID", [.ident (bytesOf "i")])
  | .dmb => (bytesOf "DMB", [.ident (bytesOf "SY")])
  | .dsb => (bytesOf "DSB", [.ident (bytesOf "SY")])
  | .eor d r => (bytesOf "EORS", [rA d, rA r])
  | .isb => (bytesOf "ISB", [.ident (bytesOf "SY")])
  | .ldm r rs => (bytesOf "LDM", [rA r, rsA rs])
  | .ldr d ad o =>
    match o with
    | .imm off =>
      if ad.val = 15 then (bytesOf "LDR", [rA d, lblA (wrapAdd (alPc a) off)])
      else (bytesOf "LDR", [rA d, memA ad (irA o)])
    | .reg _ => (bytesOf "LDR", [rA d, memA ad (irA o)])
  | .ldrb d ad o => (bytesOf "LDRB", [rA d, memA ad (irA o)])
  | .ldrh d ad o => (bytesOf "LDRH", [rA d, memA ad (irA o)])
  | .ldrsb d ad o => (bytesOf "LDRSB", [rA d, memA ad (rA o)])
  | .ldrsh d ad o => (bytesOf "LDRSH", [rA d, memA ad (rA o)])
  | .lsl d v s => (bytesOf "LSLS", [rA d, rA v, irA s])
  | .lsr d v s => (bytesOf "LSRS", [rA d, rA v, irA s])
  | .mov f d s => (bytesOf "MOV" ++ sfx f, [rA d, irA s])
  | .mrs d s => (bytesOf "MRS", [rA d, .ident (sysName s)])
  | .msr d s => (bytesOf "MSR", [.ident (sysName d), rA s])
  | .mul d r => (bytesOf "MULS", [rA d, rA r])
  | .mvn d r => (bytesOf "MVNS", [rA d, rA r])
  | .nop => (bytesOf "NOP", [])
  | .orr d r => (bytesOf "ORRS", [rA d, rA r])
  | .pop rs => (bytesOf "POP", [rsA rs])
  | .push rs => (bytesOf "PUSH", [rsA rs])
  | .rev d r => (bytesOf "REV", [rA d, rA r])
  | .rev16 d r => (bytesOf "REV16", [rA d, rA r])
  | .revsh d r => (bytesOf "REVSH", [rA d, rA r])
  | .ror d r => (bytesOf "RORS", [rA d, rA r])
  | .rsb d l => (bytesOf "RSBS", [rA d, rA l, .const 0])
  | .sbc d r => (bytesOf "SBCS", [rA d, rA r])
  | .sev => (bytesOf "SEV", [])
  | .stm r rs => (bytesOf "STM", [rA r, rsA rs])
  | .str d ad o => (bytesOf "STR", [rA d, memA ad (irA o)])
  | .strb d ad o => (bytesOf "STRB", [rA d, memA ad (irA o)])
  | .strh d ad o => (bytesOf "STRH", [rA d, memA ad (irA o)])
  | .sub f d l r => (bytesOf "SUB" ++ sfx f, [rA d, rA l, irA r])
  | .svc info => (bytesOf "SVC", [.const info])
  | .sxtb d r => (bytesOf "SXTB", [rA d, rA r])
  | .sxth d r => (bytesOf "SXTH", [rA d, rA r])
  | .tst d r => (bytesOf "TST", [rA d, rA r])
  | .udf info => (bytesOf "UDF.N", [.const info])
  | .udfw info => (bytesOf "UDF.W", [.const info])
  | .uxtb d r => (bytesOf "UXTB", [rA d, rA r])
  | .uxth d r => (bytesOf "UXTH", [rA d, rA r])
  | .wfe => (bytesOf "WFE", [])
  | .wfi => (bytesOf "WFI", [])
  | .yield => (bytesOf "YIELD", [])

/-! ## concrete syntax of a statement -/

def opText : BinOp → Bytes
  | .add => bytesOf " + " | .sub => bytesOf " - " | .mul => bytesOf " * " | .div => bytesOf " / "
  | .mod => bytesOf " % " | .band => bytesOf " & " | .bor => bytesOf " | " | .bxor => bytesOf " ^ "
  | .shl => bytesOf " << " | .shr => bytesOf " >> "

mutual
/-- an argument tree in the assembler's syntax (no parentheses are inserted: the trees of `parts`
never need them; general trees are C09's subject) -/
def renderArg : Arg → Bytes
  | .const v => intDec v
  | .ident s => s
  | .str s => bytesOf "\"" ++ s ++ bytesOf "\""
  | .bin op l r => renderArg l ++ opText op ++ renderArg r
  | .neg x => bytesOf "-" ++ renderArg x
  | .not x => bytesOf "!" ++ renderArg x
  | .addr x => bytesOf "[" ++ renderArg x ++ bytesOf "]"
  | .seq xs => bytesOf "{" ++ renderArgs xs true ++ bytesOf "}"
  | .func n xs => n ++ bytesOf "(" ++ renderArgs xs true ++ bytesOf ")"
/-- comma separated list; `first` = nothing printed yet -/
def renderArgs : Args → Bool → Bytes
  | .nil, _ => []
  | .cons x xs, first => (if first then [] else bytesOf ", ") ++ renderArg x ++ renderArgs xs false
end

/-- `NAME a, b, c;` (no blank when there are no arguments) -/
def render (p : Bytes × List Arg) : Bytes :=
  p.1 ++ (if p.2.isEmpty then [] else bytesOf " " ++ renderArgs (Args.ofList p.2) true) ++ bytesOf ";"

end Trion.Show
