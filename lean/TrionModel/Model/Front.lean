import TrionModel.Model.Syntax
import TrionModel.Model.Instr
/-!
# Instruction front end (import-free): `src/arm6m/mod.rs`

`ArmInstr::new` (mnemonic table), `ArmInstr::assemble` (the `convert!` macro and the per-instruction
arms), `regl`, `sysl`, `regset`, `addr_off`, `Arm6M::is_register`.

Shape of the model. The `convert!` macro is the same code for every arm: an arity check, then one
*getter* per operand, executed left to right; a getter either yields a value (and the arm stores it in
the instruction at once when the macro argument is `{*field}`, or binds it to a local when it is a plain
identifier) or leaves `assemble` early (deferred / diagnostic). After the macro the arm may post-process
the locals (`finish`). So an arm is `kinds i` (the getter kinds), `setOp i pos v` (the immediate stores)
and `finish` (the code after the macro). The partially filled instruction at an early exit — which the
caller encodes to size the placeholder — is the template with the stores made so far.

Panic sites: `self.args[arg_pos]` (index) is `Res.panic` when the argument list is shorter than the
kinds (theorem `assemble_no_panic`: unreachable because of the arity check). The `unreachable!()` of the
`Identifier` getter follows a successful match on the same value and is not modelled separately. No
arithmetic in `assemble` can overflow (all offset arithmetic is `i64` on values below 2^33).

Evaluation (`evaluate`, modelled by `Simp`) is a parameter `eval : Arg → EvalOut`; every outcome carries
the argument as `evaluate` left it (it simplifies in place).
-/
namespace Trion.Front

/-! ## ASCII case folding -/

/-- `u8::to_ascii_uppercase` -/
def upperByte (b : UInt8) : UInt8 := if 97 ≤ b.toNat ∧ b.toNat ≤ 122 then b - 32 else b

/-- `make_ascii_uppercase` on the bytes of a `str` -/
def upper (s : Bytes) : Bytes := s.map upperByte

/-! ## register names -/

def regTable : List (Bytes × Reg) :=
  [(bytesOf "R0", 0), (bytesOf "R1", 1), (bytesOf "R2", 2), (bytesOf "R3", 3), (bytesOf "R4", 4),
   (bytesOf "R5", 5), (bytesOf "R6", 6), (bytesOf "R7", 7), (bytesOf "R8", 8), (bytesOf "R9", 9),
   (bytesOf "R10", 10), (bytesOf "R11", 11), (bytesOf "R12", 12),
   (bytesOf "R13", 13), (bytesOf "SP", 13), (bytesOf "R14", 14), (bytesOf "LR", 14),
   (bytesOf "R15", 15), (bytesOf "PC", 15)]

/-- `regl` without the diagnostic (the caller adds instruction name and index) -/
def regl (s : Bytes) : Option Reg :=
  if s.length ≤ 4 then regTable.lookup (upper s) else none

def sysTable : List (Bytes × SysReg) :=
  [(bytesOf "APSR", .apsr), (bytesOf "IAPSR", .iapsr), (bytesOf "EAPSR", .eapsr), (bytesOf "XPSR", .xpsr),
   (bytesOf "IPSR", .ipsr), (bytesOf "EPSR", .epsr), (bytesOf "IEPSR", .iepsr), (bytesOf "MSP", .msp),
   (bytesOf "PSP", .psp), (bytesOf "PRIMASK", .primask), (bytesOf "CONTROL", .control)]

/-- `sysl` -/
def sysl (s : Bytes) : Option SysReg :=
  if s.length ≤ 8 then sysTable.lookup (upper s) else none

/-- `Arm6M::is_register` -/
def isRegister (s : Bytes) : Bool :=
  if s.length ≤ 8 then
    (regTable.lookup (upper s)).isSome || (sysTable.lookup (upper s)).isSome
  else false

/-! ## integer narrowing (`i32::try_from(i64)` etc.) -/

def narrowI32 (v : Int) : Option Int := if -2147483648 ≤ v ∧ v ≤ 2147483647 then some v else none
def narrowU32 (v : Int) : Option Int := if 0 ≤ v ∧ v ≤ 4294967295 then some v else none
def narrowU16 (v : Int) : Option Int := if 0 ≤ v ∧ v ≤ 65535 then some v else none
def narrowU8 (v : Int) : Option Int := if 0 ≤ v ∧ v ≤ 255 then some v else none

/-! ## mnemonic table (`ArmInstr::new`) -/

def r0 : Reg := 0
def imm0 : ImmReg := .imm 0

def mnemonicTable : List (Bytes × Instr) :=
  [(bytesOf "ADCS", .adc r0 r0),
   (bytesOf "ADD", .add false Reg.sp Reg.sp imm0),
   (bytesOf "ADDS", .add true r0 r0 imm0),
   (bytesOf "ADR", .adr r0 0),
   (bytesOf "ANDS", .and r0 r0),
   (bytesOf "ASRS", .asr r0 r0 (.imm 1)),
   (bytesOf "B", .b 14 0),
   (bytesOf "BCC", .b 3 0),
   (bytesOf "BCS", .b 2 0),
   (bytesOf "BEQ", .b 0 0),
   (bytesOf "BGE", .b 10 0),
   (bytesOf "BGT", .b 12 0),
   (bytesOf "BHI", .b 8 0),
   (bytesOf "BHS", .b 2 0),
   (bytesOf "BIC", .bic r0 r0),
   (bytesOf "BICS", .bic r0 r0),
   (bytesOf "BKPT", .bkpt 0),
   (bytesOf "BL", .bl 0),
   (bytesOf "BLE", .b 13 0),
   (bytesOf "BLO", .b 3 0),
   (bytesOf "BLS", .b 9 0),
   (bytesOf "BLT", .b 11 0),
   (bytesOf "BLX", .blx r0),
   (bytesOf "BMI", .b 4 0),
   (bytesOf "BNE", .b 1 0),
   (bytesOf "BPL", .b 5 0),
   (bytesOf "BVC", .b 7 0),
   (bytesOf "BVS", .b 6 0),
   (bytesOf "BX", .bx r0),
   (bytesOf "CMN", .cmn r0 r0),
   (bytesOf "CMP", .cmp r0 imm0),
   (bytesOf "CPSID", .cps false),
   (bytesOf "CPSIE", .cps true),
   (bytesOf "DMB", .dmb),
   (bytesOf "DSB", .dsb),
   (bytesOf "EORS", .eor r0 r0),
   (bytesOf "ISB", .isb),
   (bytesOf "LDM", .ldm r0 0),
   (bytesOf "LDR", .ldr r0 r0 imm0),
   (bytesOf "LDRB", .ldrb r0 r0 imm0),
   (bytesOf "LDRH", .ldrh r0 r0 imm0),
   (bytesOf "LDRSB", .ldrsb r0 r0 r0),
   (bytesOf "LDRSH", .ldrsh r0 r0 r0),
   (bytesOf "LSLS", .lsl r0 r0 (.imm 1)),
   (bytesOf "LSRS", .lsr r0 r0 (.imm 1)),
   (bytesOf "MOV", .mov false r0 (.reg r0)),
   (bytesOf "MOVS", .mov false r0 (.reg r0)),   -- `flags` is set from the name length below
   (bytesOf "MRS", .mrs r0 .xpsr),
   (bytesOf "MSR", .msr .xpsr r0),
   (bytesOf "MULS", .mul r0 r0),
   (bytesOf "MVNS", .mvn r0 r0),
   (bytesOf "NOP", .nop),
   (bytesOf "ORRS", .orr r0 r0),
   (bytesOf "POP", .pop 1),
   (bytesOf "PUSH", .push 1),
   (bytesOf "REV", .rev r0 r0),
   (bytesOf "REV16", .rev16 r0 r0),
   (bytesOf "REVSH", .revsh r0 r0),
   (bytesOf "RORS", .ror r0 r0),
   (bytesOf "RSBS", .rsb r0 r0),
   (bytesOf "SBCS", .sbc r0 r0),
   (bytesOf "SEV", .sev),
   (bytesOf "STM", .stm r0 0),
   (bytesOf "STR", .str r0 r0 imm0),
   (bytesOf "STRB", .strb r0 r0 imm0),
   (bytesOf "STRH", .strh r0 r0 imm0),
   (bytesOf "SUB", .sub false Reg.sp Reg.sp imm0),
   (bytesOf "SUBS", .sub true r0 r0 imm0),
   (bytesOf "SVC", .svc 0),
   (bytesOf "SXTB", .sxtb r0 r0),
   (bytesOf "SXTH", .sxth r0 r0),
   (bytesOf "TST", .tst r0 r0),
   (bytesOf "UDF.N", .udf 0),
   (bytesOf "UDF.W", .udfw 0),
   (bytesOf "UXTB", .uxtb r0 r0),
   (bytesOf "UXTH", .uxth r0 r0),
   (bytesOf "WFE", .wfe),
   (bytesOf "WFI", .wfi),
   (bytesOf "YIELD", .yield)]

/-- the name `ArmInstr::new` matches on: upper-cased if shorter than 16 bytes, else `""` -/
def foldName (name : Bytes) : Bytes := if name.length < 16 then upper name else []

/-- `ArmInstr::new`: the template instruction of a mnemonic (`none` = `InstrErrorKind::NotFound (foldName name)`) -/
def mnemonic (name : Bytes) : Option Instr :=
  let u := foldName name
  match mnemonicTable.lookup u with
  | some (.mov _ d s) => some (.mov (decide (u.length > 3)) d s)   -- `flags: name.len() > 3`
  | r => r

/-- `Instruction::get_name` (asm.rs), used in every diagnostic -/
def getName : Instr → String
  | .adc .. => "ADCS" | .add f .. => if f then "ADDS" else "ADD" | .adr .. => "ADR" | .and .. => "ANDS"
  | .asr .. => "ASRS"
  | .b c _ => match c.val with
    | 0 => "BEQ" | 1 => "BNE" | 2 => "BHS" | 3 => "BLO" | 4 => "BMI" | 5 => "BPL" | 6 => "BVS" | 7 => "BVC"
    | 8 => "BHI" | 9 => "BLS" | 10 => "BGE" | 11 => "BLT" | 12 => "BGT" | 13 => "BLE" | _ => "B"
  | .bic .. => "BIC" | .bkpt .. => "BKPT" | .bl .. => "BL" | .blx .. => "BLX" | .bx .. => "BX"
  | .cmn .. => "CMN" | .cmp .. => "CMP" | .cps e => if e then "CPSIE" else "CPSID"
  | .dmb => "DMB" | .dsb => "DSB" | .eor .. => "EORS" | .isb => "ISB" | .ldm .. => "LDM" | .ldr .. => "LDR"
  | .ldrb .. => "LDRB" | .ldrh .. => "LDRH" | .ldrsb .. => "LDRSB" | .ldrsh .. => "LDRSH"
  | .lsl .. => "LSLS" | .lsr .. => "LSRS" | .mov f .. => if f then "MOVS" else "MOV"
  | .mrs .. => "MRS" | .msr .. => "MSR" | .mul .. => "MULS" | .mvn .. => "MVNS" | .nop => "NOP"
  | .orr .. => "ORRS" | .pop .. => "POP" | .push .. => "PUSH" | .rev .. => "REV" | .rev16 .. => "REV16"
  | .revsh .. => "REVSH" | .ror .. => "RORS" | .rsb .. => "RSBS" | .sbc .. => "SBCS" | .sev => "SEV"
  | .stm .. => "STM" | .str .. => "STR" | .strb .. => "STRB" | .strh .. => "STRH"
  | .sub f .. => if f then "SUBS" else "SUB" | .svc .. => "SVC" | .sxtb .. => "SXTB" | .sxth .. => "SXTH"
  | .tst .. => "TST" | .udf .. => "UDF.N" | .udfw .. => "UDF.W" | .uxtb .. => "UXTB" | .uxth .. => "UXTH"
  | .wfe => "WFE" | .wfi => "WFI" | .yield => "YIELD"

/-! ## evaluation interface and diagnostics -/

/-- `EvalError` other than `NoSuchVariable` -/
inductive EvalErr where
  | badType (kind op : ArgTy)
  | overflow (what : String)     -- the rendered `OverflowError`; opaque to the front end
deriving DecidableEq, Repr, Inhabited

/-- what `evaluate(arg, ctx)` did; `a` is the argument as it was left (simplified in place) -/
inductive EvalOut where
  | complete (a : Arg)
  | deferred (cause : Bytes) (a : Arg)
  | noSuchVariable (name : Bytes) (a : Arg)
  | error (e : EvalErr) (a : Arg)
deriving Repr, Inhabited

/-- the diagnostic pushed by `assemble` (the instruction name is `getName` of the template) -/
inductive Diag where
  | tooMany (max have_ : Nat)                              -- InstrErrorKind::TooManyArguments
  | notEnough (need have_ : Nat)                           -- InstrErrorKind::NotEnoughArguments
  | argType (idx : Nat) (expect : List ArgTy) (have_ : ArgTy) -- InstrErrorKind::ArgumentType
  | valueRange (idx : Nat)                                 -- AsmError::ValueRange
  | noSuchRegister (idx : Nat) (what : Bytes)              -- AsmError::NoSuchRegister
  | range (min max have_ : Int)                            -- ConstantError::Range
  | alignment (align : Nat) (have_ : Int)                  -- ConstantError::Alignment
  | noSuchVariable (name : Bytes)                          -- EvalError::NoSuchVariable (realm Local)
  | evalErr (e : EvalErr)                                  -- EvalError::BadType / Overflow
deriving DecidableEq, Repr, Inhabited

/-- how `assemble` ended -/
inductive Res where
  | completed
  | deferred (cause : Bytes)
  | error (d : Diag)
  | panic
deriving DecidableEq, Repr, Inhabited

/-! ## operand getters of `convert!` -/

inductive Kind where
  | immediate | identifier | register | systemReg | immReg | regSet | address | offset | addrOffset
deriving DecidableEq, Repr, Inhabited

/-- the value a getter yields -/
inductive Val where
  | imm (v : Int)                              -- Immediate: i32
  | ident (s : Bytes)                          -- Identifier
  | reg (r : Reg)
  | sys (s : SysReg)
  | immReg (x : ImmReg)
  | regSet (rs : RegSet)
  | address (r : Reg) (o : Option ImmReg)      -- Address, and AddrOffset::Address
  | off (v : Int)                              -- Offset: u32, and AddrOffset::Offset
deriving DecidableEq, Repr, Inhabited

/-- `RegisterSet::add` -/
def addBit (rs : RegSet) (r : Reg) : RegSet :=
  if rs.val / 2 ^ r.val % 2 = 1 then rs else Fin.ofNat 65536 (rs.val + 2 ^ r.val)

/-- `regset` -/
def regset (idx : Nat) : List Arg → RegSet → Except Diag RegSet
  | [], acc => .ok acc
  | .ident s :: rest, acc =>
    match regl s with
    | some r => regset idx rest (addBit acc r)
    | none => .error (.noSuchRegister idx s)
  | a :: _, _ => .error (.argType idx [.ident] a.ty)

/-- `addr_off` -/
def addrOff (idx : Nat) : Arg → Except Diag (Reg × Option ImmReg)
  | .ident name =>
    match regl name with
    | some r => .ok (r, some (.imm 0))
    | none => .error (.noSuchRegister idx name)
  | .bin .add (.ident a) (.ident o) =>
    match regl a with
    | none => .error (.noSuchRegister idx a)
    | some ra =>
      match regl o with
      | none => .error (.noSuchRegister idx o)
      | some ro => .ok (ra, some (.reg ro))
  | .bin .add (.ident a) (.const off) =>
    match narrowI32 off with
    | none => .error (.valueRange idx)
    | some off =>
      match regl a with
      | none => .error (.noSuchRegister idx a)
      | some ra => .ok (ra, some (.imm off))
  | .bin .add (.const off) (.ident a) =>
    match narrowI32 off with
    | none => .error (.valueRange idx)
    | some off =>
      match regl a with
      | none => .error (.noSuchRegister idx a)
      | some ra => .ok (ra, some (.imm off))
  | _ => .error (.valueRange idx)

inductive GetOut where
  | ok (v : Val) (a : Arg) (done : Nat)
  | stop (a : Arg) (done : Nat) (r : Res)
deriving Repr, Inhabited

/-- the evaluation prologue shared by the Immediate / ImmReg / Address / Offset / AddrOffset getters:
`if self.args_done <= arg_pos { match evaluate(arg, ctx) {…}; self.args_done = arg_pos + 1 }` -/
def evalArg (eval : Arg → EvalOut) (loc : Bool) (pos done : Nat) (a : Arg) : Except (Arg × Res) (Arg × Nat) :=
  if done ≤ pos then
    match eval a with
    | .complete a' => .ok (a', pos + 1)
    | .deferred c a' => .error (a', .deferred c)
    | .noSuchVariable n a' =>
      if loc then .error (a', .deferred n) else .error (a', .error (.noSuchVariable n))
    | .error e a' => .error (a', .error (.evalErr e))
  else .ok (a, done)

/-- one `convert!(@impl/get K)` at argument position `pos` -/
def get (k : Kind) (eval : Arg → EvalOut) (loc : Bool) (pos done : Nat) (a : Arg) : GetOut :=
  match k with
  | .identifier =>
    match a with
    | .ident s => .ok (.ident s) a done
    | _ => .stop a done (.error (.argType pos [.ident] a.ty))
  | .register =>
    match a with
    | .ident s =>
      match regl s with
      | some r => .ok (.reg r) a done
      | none => .stop a done (.error (.noSuchRegister (pos + 1) s))
    | _ => .stop a done (.error (.argType pos [.ident] a.ty))
  | .systemReg =>
    match a with
    | .ident s =>
      match sysl s with
      | some r => .ok (.sys r) a done
      | none => .stop a done (.error (.noSuchRegister (pos + 1) s))
    | _ => .stop a done (.error (.argType pos [.ident] a.ty))
  | .regSet =>
    match a with
    | .seq items =>
      match regset pos items.toList 0 with
      | .ok rs => .ok (.regSet rs) a done
      | .error d => .stop a done (.error d)
    | _ => .stop a done (.error (.argType pos [.seq] a.ty))
  | .immediate =>
    match evalArg eval loc pos done a with
    | .error (a', r) => .stop a' done r
    | .ok (a', done') =>
      match a' with
      | .const v =>
        match narrowI32 v with
        | some w => .ok (.imm w) a' done'
        | none => .stop a' done' (.error (.valueRange (pos + 1)))
      | _ => .stop a' done' (.error (.argType pos [.const] a'.ty))
  | .immReg =>
    match evalArg eval loc pos done a with
    | .error (a', r) => .stop a' done r
    | .ok (a', done') =>
      match a' with
      | .const v =>
        match narrowI32 v with
        | some w => .ok (.immReg (.imm w)) a' done'
        | none => .stop a' done' (.error (.valueRange (pos + 1)))
      | .ident s =>
        match regl s with
        | some r => .ok (.immReg (.reg r)) a' done'
        | none => .stop a' done' (.error (.noSuchRegister (pos + 1) s))
      | _ => .stop a' done' (.error (.argType pos [.const, .ident] a'.ty))
  | .address =>
    match evalArg eval loc pos done a with
    | .error (a', r) => .stop a' done r
    | .ok (a', done') =>
      match a' with
      | .addr inner =>
        match addrOff (pos + 1) inner with
        | .ok (r, o) => .ok (.address r o) a' done'
        | .error d => .stop a' done' (.error d)
      | _ => .stop a' done' (.error (.argType pos [.addr] a'.ty))
  | .offset =>
    match evalArg eval loc pos done a with
    | .error (a', r) => .stop a' done r
    | .ok (a', done') =>
      match a' with
      | .const v =>
        match narrowU32 v with
        | some w => .ok (.off w) a' done'
        | none => .stop a' done' (.error (.valueRange (pos + 1)))
      | _ => .stop a' done' (.error (.argType pos [.const] a'.ty))
  | .addrOffset =>
    match evalArg eval loc pos done a with
    | .error (a', r) => .stop a' done r
    | .ok (a', done') =>
      match a' with
      | .const v =>
        match narrowU32 v with
        | some w => .ok (.off w) a' done'
        | none => .stop a' done' (.error (.valueRange (pos + 1)))
      | .addr inner =>
        match addrOff (pos + 1) inner with
        | .ok (r, o) => .ok (.address r o) a' done'
        | .error d => .stop a' done' (.error d)
      | _ => .stop a' done' (.error (.argType pos [.const, .addr] a'.ty))

/-! ## the per-instruction arms -/

/-- the getter kinds of each arm's `convert!` -/
def kinds : Instr → List Kind
  | .adc .. | .and .. | .bic .. | .cmn .. | .eor .. | .mul .. | .mvn .. | .orr .. | .rev .. | .rev16 ..
  | .revsh .. | .ror .. | .sbc .. | .sxtb .. | .sxth .. | .tst .. | .uxtb .. | .uxth .. => [.register, .register]
  | .add .. | .sub .. | .asr .. | .lsl .. | .lsr .. => [.register, .register, .immReg]
  | .adr .. => [.register, .offset]
  | .b .. | .bl .. | .bkpt .. => [.offset]
  | .blx .. | .bx .. => [.register]
  | .cmp .. | .mov .. => [.register, .immReg]
  | .cps .. | .dmb | .dsb | .isb => [.identifier]
  | .ldm .. | .stm .. => [.register, .regSet]
  | .ldr .. => [.register, .addrOffset]
  | .ldrb .. | .ldrh .. | .ldrsb .. | .ldrsh .. | .str .. | .strb .. | .strh .. => [.register, .address]
  | .mrs .. => [.register, .systemReg]
  | .msr .. => [.systemReg, .register]
  | .nop | .sev | .wfe | .wfi | .yield => []
  | .pop .. | .push .. => [.regSet]
  | .rsb .. => [.register, .register, .immediate]
  | .svc .. | .udf .. | .udfw .. => [.immediate]

/-- the stores `{*field} = value` made by the macro itself, at argument position `pos` -/
def setOp (i : Instr) (pos : Nat) (v : Val) : Instr :=
  match i with
  | .adc d r => match pos, v with | 0, .reg x => .adc x r | 1, .reg x => .adc d x | _, _ => i
  | .add f d l r => match pos, v with
    | 0, .reg x => .add f x l r | 1, .reg x => .add f d x r | 2, .immReg x => .add f d l x | _, _ => i
  | .adr _ o => match pos, v with | 0, .reg x => .adr x o | _, _ => i
  | .and d r => match pos, v with | 0, .reg x => .and x r | 1, .reg x => .and d x | _, _ => i
  | .asr d l s => match pos, v with
    | 0, .reg x => .asr x l s | 1, .reg x => .asr d x s | 2, .immReg x => .asr d l x | _, _ => i
  | .bic d r => match pos, v with | 0, .reg x => .bic x r | 1, .reg x => .bic d x | _, _ => i
  | .blx _ => match pos, v with | 0, .reg x => .blx x | _, _ => i
  | .bx _ => match pos, v with | 0, .reg x => .bx x | _, _ => i
  | .cmn d r => match pos, v with | 0, .reg x => .cmn x r | 1, .reg x => .cmn d x | _, _ => i
  | .cmp d r => match pos, v with | 0, .reg x => .cmp x r | 1, .immReg x => .cmp d x | _, _ => i
  | .eor d r => match pos, v with | 0, .reg x => .eor x r | 1, .reg x => .eor d x | _, _ => i
  | .ldm a rs => match pos, v with | 0, .reg x => .ldm x rs | 1, .regSet x => .ldm a x | _, _ => i
  | .ldr _ a o => match pos, v with | 0, .reg x => .ldr x a o | _, _ => i
  | .ldrb _ a o => match pos, v with | 0, .reg x => .ldrb x a o | _, _ => i
  | .ldrh _ a o => match pos, v with | 0, .reg x => .ldrh x a o | _, _ => i
  | .ldrsb _ a o => match pos, v with | 0, .reg x => .ldrsb x a o | _, _ => i
  | .ldrsh _ a o => match pos, v with | 0, .reg x => .ldrsh x a o | _, _ => i
  | .lsl d l s => match pos, v with
    | 0, .reg x => .lsl x l s | 1, .reg x => .lsl d x s | 2, .immReg x => .lsl d l x | _, _ => i
  | .lsr d l s => match pos, v with
    | 0, .reg x => .lsr x l s | 1, .reg x => .lsr d x s | 2, .immReg x => .lsr d l x | _, _ => i
  | .mov f d s => match pos, v with | 0, .reg x => .mov f x s | 1, .immReg x => .mov f d x | _, _ => i
  | .mrs d s => match pos, v with | 0, .reg x => .mrs x s | 1, .sys x => .mrs d x | _, _ => i
  | .msr d s => match pos, v with | 0, .sys x => .msr x s | 1, .reg x => .msr d x | _, _ => i
  | .mul d r => match pos, v with | 0, .reg x => .mul x r | 1, .reg x => .mul d x | _, _ => i
  | .mvn d r => match pos, v with | 0, .reg x => .mvn x r | 1, .reg x => .mvn d x | _, _ => i
  | .orr d r => match pos, v with | 0, .reg x => .orr x r | 1, .reg x => .orr d x | _, _ => i
  | .pop _ => match pos, v with | 0, .regSet x => .pop x | _, _ => i
  | .push _ => match pos, v with | 0, .regSet x => .push x | _, _ => i
  | .rev d r => match pos, v with | 0, .reg x => .rev x r | 1, .reg x => .rev d x | _, _ => i
  | .rev16 d r => match pos, v with | 0, .reg x => .rev16 x r | 1, .reg x => .rev16 d x | _, _ => i
  | .revsh d r => match pos, v with | 0, .reg x => .revsh x r | 1, .reg x => .revsh d x | _, _ => i
  | .ror d r => match pos, v with | 0, .reg x => .ror x r | 1, .reg x => .ror d x | _, _ => i
  | .rsb d l => match pos, v with | 0, .reg x => .rsb x l | 1, .reg x => .rsb d x | _, _ => i
  | .sbc d r => match pos, v with | 0, .reg x => .sbc x r | 1, .reg x => .sbc d x | _, _ => i
  | .stm a rs => match pos, v with | 0, .reg x => .stm x rs | 1, .regSet x => .stm a x | _, _ => i
  | .str _ a o => match pos, v with | 0, .reg x => .str x a o | _, _ => i
  | .strb _ a o => match pos, v with | 0, .reg x => .strb x a o | _, _ => i
  | .strh _ a o => match pos, v with | 0, .reg x => .strh x a o | _, _ => i
  | .sub f d l r => match pos, v with
    | 0, .reg x => .sub f x l r | 1, .reg x => .sub f d x r | 2, .immReg x => .sub f d l x | _, _ => i
  | .sxtb d r => match pos, v with | 0, .reg x => .sxtb x r | 1, .reg x => .sxtb d x | _, _ => i
  | .sxth d r => match pos, v with | 0, .reg x => .sxth x r | 1, .reg x => .sxth d x | _, _ => i
  | .tst d r => match pos, v with | 0, .reg x => .tst x r | 1, .reg x => .tst d x | _, _ => i
  | .uxtb d r => match pos, v with | 0, .reg x => .uxtb x r | 1, .reg x => .uxtb d x | _, _ => i
  | .uxth d r => match pos, v with | 0, .reg x => .uxth x r | 1, .reg x => .uxth d x | _, _ => i
  | _ => i

/-- `i64::from(self.addr & !0b11) + 4` — not wrapped (repair of the top-of-address-space finding) -/
def alPc (addr : Nat) : Nat := addr / 4 * 4 + 4
/-- `i64::from(self.addr) + 4` — not wrapped -/
def pcOf (addr : Nat) : Nat := addr + 4

/-- the ADR / LDR-literal offset computation; `tgt` is a `u32`; `tgt_off = i64::from(tgt) - al_pc`,
`tgt_off < 0 || tgt_off > 0x3FC` → Range, `(tgt_off & 3) != 0` → Alignment -/
def literal (addr : Nat) (tgt : Int) : Except Diag Int :=
  let al : Int := (alPc addr : Nat)
  if tgt < al ∨ tgt - al > 1020 then .error (.range 0 1020 (tgt - al))
  else if (tgt - al) % 4 ≠ 0 then .error (.alignment 4 (tgt - al))
  else .ok (tgt - al)

/-- the B / BL offset computation -/
def branch (addr : Nat) (tgt : Int) (min max : Int) : Except Diag Int :=
  let off : Int := tgt - (pcOf addr : Nat)
  if off < min ∨ off > max then .error (.range min max off)
  else if off % 2 ≠ 0 then .error (.alignment 2 off)
  else .ok off

def unwrapOff (o : Option ImmReg) : ImmReg := match o with | some x => x | none => .imm 0

/-- the code of an arm after its `convert!`; `argc` is the final `arg_pos` -/
def finish (addr : Nat) (i : Instr) (vals : List Val) (argc : Nat) : Except Diag Instr :=
  match i, vals with
  | .adr d _, [_, .off tgt] =>
    match literal addr tgt with | .ok o => .ok (.adr d o) | .error e => .error e
  | .b c _, [.off tgt] =>
    match (if c.val = 14 then branch addr tgt (-2048) 2046 else branch addr tgt (-256) 254) with
    | .ok o => .ok (.b c o) | .error e => .error e
  | .bl _, [.off tgt] =>
    match branch addr tgt (-16777216) 16777215 with | .ok o => .ok (.bl o) | .error e => .error e
  | .bkpt _, [.off v] =>
    match narrowU8 v with | some w => .ok (.bkpt w) | none => .error (.valueRange argc)
  | .cps e, [.ident pm] =>
    if upper pm = bytesOf "I" then .ok (.cps e) else .error (.valueRange argc)
  | .dmb, [.ident o] =>
    if upper o = bytesOf "SY" ∨ upper o = bytesOf "SV" then .ok .dmb else .error (.valueRange argc)
  | .dsb, [.ident o] =>
    if upper o = bytesOf "SY" ∨ upper o = bytesOf "SV" then .ok .dsb else .error (.valueRange argc)
  | .isb, [.ident o] =>
    if upper o = bytesOf "SY" ∨ upper o = bytesOf "SV" then .ok .isb else .error (.valueRange argc)
  | .ldr d _ _, [_, .address a o] => .ok (.ldr d a (unwrapOff o))
  | .ldr d _ _, [_, .off tgt] =>
    match literal addr tgt with | .ok o => .ok (.ldr d Reg.pc (.imm o)) | .error e => .error e
  | .ldrb d _ _, [_, .address a o] => .ok (.ldrb d a (unwrapOff o))
  | .ldrh d _ _, [_, .address a o] => .ok (.ldrh d a (unwrapOff o))
  | .ldrsb d _ _, [_, .address a o] =>
    match o with | some (.reg r) => .ok (.ldrsb d a r) | _ => .error (.valueRange argc)
  | .ldrsh d _ _, [_, .address a o] =>
    match o with | some (.reg r) => .ok (.ldrsh d a r) | _ => .error (.valueRange argc)
  | .rsb d l, [_, _, .imm rhs] => if rhs ≠ 0 then .error (.valueRange argc) else .ok (.rsb d l)
  | .str d _ _, [_, .address a o] => .ok (.str d a (unwrapOff o))
  | .strb d _ _, [_, .address a o] => .ok (.strb d a (unwrapOff o))
  | .strh d _ _, [_, .address a o] => .ok (.strh d a (unwrapOff o))
  | .svc _, [.imm v] => match narrowU8 v with | some w => .ok (.svc w) | none => .error (.valueRange argc)
  | .udf _, [.imm v] => match narrowU8 v with | some w => .ok (.udf w) | none => .error (.valueRange argc)
  | .udfw _, [.imm v] => match narrowU16 v with | some w => .ok (.udfw w) | none => .error (.valueRange argc)
  | i, _ => .ok i

/-! ## `ArmInstr` and `assemble` -/

/-- the fields of `ArmInstr` that `assemble` reads and writes -/
structure St where
  addr : Nat
  instr : Instr
  argsDone : Nat
  args : List Arg
deriving Repr, Inhabited

inductive ConvOut where
  | ok (args : List Arg) (done : Nat) (instr : Instr) (vals : List Val)
  | stop (args : List Arg) (done : Nat) (instr : Instr) (r : Res)
deriving Repr, Inhabited

/-- the getters of one `convert!`, left to right. `pre` = arguments already passed (reversed),
`rest` = arguments from `arg_pos` on. -/
def conv (eval : Arg → EvalOut) (loc : Bool) :
    List Kind → Nat → List Arg → List Arg → Nat → Instr → List Val → ConvOut
  | [], _, pre, rest, done, instr, vals => .ok (pre.reverse ++ rest) done instr vals.reverse
  | _ :: _, _, pre, [], done, instr, _ => .stop pre.reverse done instr .panic     -- `self.args[arg_pos]`
  | k :: ks, pos, pre, a :: rest, done, instr, vals =>
    match get k eval loc pos done a with
    | .ok v a' done' => conv eval loc ks (pos + 1) (a' :: pre) rest done' (setOp instr pos v) (v :: vals)
    | .stop a' done' r => .stop (pre.reverse ++ a' :: rest) done' instr r

/-- `ArmInstr::assemble(ctx, local)`: new state and outcome -/
def assemble (st : St) (eval : Arg → EvalOut) (loc : Bool) : St × Res :=
  let ks := kinds st.instr
  let n := st.args.length
  if n > ks.length then (st, .error (.tooMany ks.length n))
  else if n < ks.length then (st, .error (.notEnough ks.length n))
  else
    match conv eval loc ks 0 [] st.args st.argsDone st.instr [] with
    | .stop args done instr r => ({ st with args := args, argsDone := done, instr := instr }, r)
    | .ok args done instr vals =>
      match finish st.addr instr vals ks.length with
      | .ok i => ({ st with args := args, argsDone := done, instr := i }, .completed)
      | .error d => ({ st with args := args, argsDone := done, instr := instr }, .error d)

/-- `ArmInstr::new` followed by the first `assemble` -/
inductive BuildOut where
  | notFound (name : Bytes)                       -- `InstrErrorKind::NotFound`, nothing is written
  | completed (i : Instr)
  | deferred (cause : Bytes) (st : St)            -- `st.instr` = partially filled instruction (placeholder size)
  | error (d : Diag) (st : St)                    -- likewise (the caller still writes a placeholder and retries)
  | panic
deriving Repr, Inhabited

def build (addr : Nat) (name : Bytes) (args : List Arg) (eval : Arg → EvalOut) (loc : Bool) : BuildOut :=
  match mnemonic name with
  | none => .notFound (foldName name)
  | some t =>
    match assemble { addr := addr, instr := t, argsDone := 0, args := args } eval loc with
    | (st, .completed) => .completed st.instr
    | (st, .deferred c) => .deferred c st
    | (st, .error d) => .error d st
    | (_, .panic) => .panic

end Trion.Front
