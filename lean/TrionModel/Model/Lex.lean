import TrionModel.Model.Syntax
import TrionModel.Spec.Pos
/-!
# Model of `src/text/token/mod.rs` (Layer B): the tokenizer

Mirrors `Tokenizer::{new, clear, update_pos, next_token, do_next}` and the `Iterator` implementation,
branch by branch, on `Bytes = List UInt8`.

* `str::from_utf8` / `Utf8Error::valid_up_to` is `validUpTo` (strict UTF-8: no overlong forms, no
  surrogates, nothing above U+10FFFF).
* A Rust `&str` slice `&s[a..b]` panics unless `a ≤ b` and both are character boundaries
  (`str::is_char_boundary`, a byte-level test). Every slice of the Rust code is `sliceFrom`/`sliceTo`/
  `slice` here and yields `.panic` when that test fails. Index expressions `as_bytes()[i]` are `d[i]?`
  with `.panic` on `none`; `usize` subtraction checks its operands; `assert_eq!` and `unwrap` are explicit.
* `str::chars().next()` is `decodeChar`; on the tokenizer's data (always valid UTF-8) it is `none` exactly
  at the end of the text.
* `u32` saturation of `line`/`col` (inputs ≥ 4 GiB) is outside the model (`Nat`).
* loops are structural recursion on fuel; `Step.fuel`/`Out.fuel` (fuel exhausted) is proved unreachable
  in `Props/C10.lean`.
-/
namespace Trion.Lex
open Trion.Pos (isCont)

/-! ## std: UTF-8 -/

/-- `chars().next()`: the first scalar value and its encoded length; `none` at the end of the text or
when the text does not begin with a well-formed UTF-8 sequence -/
def decodeChar (d : Bytes) : Option (Nat × Nat) :=
  match d[0]? with
  | none => none
  | some b0 =>
    let a := b0.toNat
    if a < 128 then some (a, 1)
    else if a < 194 then none
    else if a < 224 then
      match d[1]? with
      | some b1 => if isCont b1 then some ((a - 192) * 64 + (b1.toNat - 128), 2) else none
      | none => none
    else if a < 240 then
      match d[1]?, d[2]? with
      | some b1, some b2 =>
        if isCont b1 && isCont b2 && !(a == 224 && b1.toNat < 160) && !(a == 237 && b1.toNat ≥ 160) then
          some (((a - 224) * 64 + (b1.toNat - 128)) * 64 + (b2.toNat - 128), 3)
        else none
      | _, _ => none
    else if a < 245 then
      match d[1]?, d[2]?, d[3]? with
      | some b1, some b2, some b3 =>
        if isCont b1 && isCont b2 && isCont b3 && !(a == 240 && b1.toNat < 144) && !(a == 244 && b1.toNat ≥ 144) then
          some ((((a - 240) * 64 + (b1.toNat - 128)) * 64 + (b2.toNat - 128)) * 64 + (b3.toNat - 128), 4)
        else none
      | _, _, _ => none
    else none

def validUpToF : Nat → Bytes → Nat
  | 0, _ => 0
  | f+1, d =>
    match decodeChar d with
    | none => 0
    | some (_, n) => n + validUpToF f (d.drop n)

/-- `core::str::from_utf8(data)`: length of the longest prefix that is well-formed UTF-8 made of whole
characters (`Ok` iff it is the whole input, otherwise `Utf8Error::valid_up_to`) -/
def validUpTo (d : Bytes) : Nat := validUpToF d.length d

/-- `String::push(c)`: UTF-8 encoding of a scalar value -/
def encodeChar (c : Nat) : Bytes :=
  if c < 128 then [c.toUInt8]
  else if c < 2048 then [(192 + c / 64).toUInt8, (128 + c % 64).toUInt8]
  else if c < 65536 then [(224 + c / 4096).toUInt8, (128 + c / 64 % 64).toUInt8, (128 + c % 64).toUInt8]
  else [(240 + c / 262144).toUInt8, (128 + c / 4096 % 64).toUInt8, (128 + c / 64 % 64).toUInt8, (128 + c % 64).toUInt8]

/-- `char::from_u32(v).is_some()` -/
def isScalar (v : Nat) : Bool := decide (v < 55296) || (decide (57344 ≤ v) && decide (v ≤ 1114111))

/-! ## std: str slicing and byte searches -/

/-- `str::is_char_boundary` -/
def isBoundary (d : Bytes) (i : Nat) : Bool :=
  i == 0 ||
  match d[i]? with
  | none => i == d.length
  | some b => !isCont b

/-- `&s[i..]` -/
def sliceFrom (d : Bytes) (i : Nat) : Option Bytes := if isBoundary d i then some (d.drop i) else none
/-- `&s[..i]` -/
def sliceTo (d : Bytes) (i : Nat) : Option Bytes := if isBoundary d i then some (d.take i) else none
/-- `&s[a..b]` -/
def slice (d : Bytes) (a b : Nat) : Option Bytes :=
  if decide (a ≤ b) && isBoundary d a && isBoundary d b then some ((d.take b).drop a) else none

/-- `bytes().position(p)` -/
def position (p : UInt8 → Bool) : Bytes → Option Nat
  | [] => none
  | b :: bs => if p b then some 0 else match position p bs with | none => none | some i => some (i + 1)

/-- `bytes().rposition(p)`: index of the last byte that satisfies `p` -/
def rposition (p : UInt8 → Bool) : Bytes → Option Nat
  | [] => none
  | b :: bs =>
    match rposition p bs with
    | some i => some (i + 1)
    | none => if p b then some 0 else none

/-- `s.starts_with` of a two-byte ASCII pattern -/
def startsWith2 (d : Bytes) (x y : Nat) : Bool :=
  match d with
  | a :: b :: _ => a.toNat == x && b.toNat == y
  | _ => false

/-! ## std: numbers -/

/-- `(b as char).to_digit(radix)` for `radix ≤ 36` -/
def digitVal (radix : Nat) (b : UInt8) : Option Nat :=
  let c := b.toNat
  let v : Option Nat :=
    if 48 ≤ c ∧ c ≤ 57 then some (c - 48)
    else if 97 ≤ c ∧ c ≤ 122 then some (c - 97 + 10)
    else if 65 ≤ c ∧ c ≤ 90 then some (c - 65 + 10)
    else none
  match v with
  | some v => if v < radix then some v else none
  | none => none

/-- `(b as char).is_digit(radix)` -/
def isDigit (radix : Nat) (b : UInt8) : Bool := (digitVal radix b).isSome

/-- digit accumulation of `from_str_radix`: Horner's rule, `Err(PosOverflow)` as soon as the value
exceeds `max`, `Err(InvalidDigit)` on a non-digit -/
def parseDigits (radix max : Nat) : Bytes → Nat → Option Nat
  | [], acc => some acc
  | b :: bs, acc =>
    match digitVal radix b with
    | none => none
    | some v => if acc * radix + v > max then none else parseDigits radix max bs (acc * radix + v)

/-- `i64::from_str_radix(text, radix).ok()` for a text that does not begin with a sign (the tokenizer
only passes runs of digits): `Err(Empty)` for the empty text -/
def i64FromStrRadix (text : Bytes) (radix : Nat) : Option Int :=
  match text with
  | [] => none
  | _ => match parseDigits radix 9223372036854775807 text 0 with
    | none => none
    | some v => some (Int.ofNat v)

/-- `u32::from_str_radix(text, 16).ok()`: empty → error; one leading `+` is accepted when digits follow
(`"+"` alone is an error); `-` is an invalid digit for an unsigned type -/
def u32FromHex (text : Bytes) : Option Nat :=
  match text with
  | [] => none
  | b :: rest =>
    if b.toNat == 43 then
      match rest with
      | [] => none
      | _ => parseDigits 16 4294967295 rest 0
    else parseDigits 16 4294967295 text 0

/-! ## the tokenizer -/

/-- `Tokenizer` without the look-ahead queue (`tokens`, `token_err` stay empty under pure iteration) -/
structure State where
  data : Bytes
  utfErr : Bool
  line : Nat
  col : Nat
deriving Repr, DecidableEq

/-- what one call of `Iterator::next` does -/
inductive Step where
  | tok (t : Token) (s : State)     -- `Some(Ok(t))`
  | err (e : LexErr) (s : State)    -- `Some(Err(e))`
  | done (s : State)                -- `None`
  | panic
  | fuel
deriving Repr, DecidableEq

/-- `Tokenizer::new` -/
def State.new (bs : Bytes) : State :=
  let n := validUpTo bs
  { data := bs.take n, utfErr := n != bs.length, line := 1, col := 1 }

/-- `Tokenizer::clear` -/
def State.clear (s : State) : State := { s with data := [], utfErr := false }

/-- `Tokenizer::update_pos(data)`; the slice after the last line feed is a `str` slice -/
def updatePos (line col : Nat) (d : Bytes) : Option (Nat × Nat) :=
  let lines := Pos.countLF d
  let line1 := if lines > 0 then line + lines else line
  let col1 := if lines > 0 then 1 else col
  let idx := match rposition (fun b => b.toNat == 10) d with | none => 0 | some v => v + 1
  match sliceFrom d idx with
  | none => none
  | some tail => some (line1, col1 + Pos.scalars tail)

/-- `self.clear(); return Some(Err(self.positioned(kind)))` -/
def fail (s : State) (k : LexErrKind) : Step := .err ⟨s.line, s.col, k⟩ s.clear

/-- `let err = if self.utf_err {self.update_pos(self.data); BadUnicode} else {kind}; self.clear();
return Some(Err(self.positioned(err)))` -/
def failEof (s : State) (k : LexErrKind) : Step :=
  if s.utfErr then
    match updatePos s.line s.col s.data with
    | none => .panic
    | some (l, c) => .err ⟨l, c, .badUnicode⟩ ⟨[], false, l, c⟩
  else fail s k

/-- `self.col += data.len(); self.clear(); return Some(Err(self.positioned(BadUnicode)))` -/
def failRun (s : State) : Step :=
  .err ⟨s.line, s.col + s.data.length, .badUnicode⟩ ⟨[], false, s.line, s.col + s.data.length⟩

def isSpace (b : UInt8) : Bool := b.toNat == 9 || b.toNat == 10 || b.toNat == 13 || b.toNat == 32

/-- The closure of the block-comment `position` call, iterated over `bytes[..len-1]` from index 2:
`l` is the text from index `k + 2` on, `k` the number of items already consumed by `position`.
The item at `p = k + 2` is inspected together with `bytes[p + 1]`, which exists because the iteration
stops one byte before the end. Returns `comment_bytes`. `scanStep` is the closure body. -/
def scanStep (b c : UInt8) (p start depth : Nat) : Nat × Nat :=
  let open1 := b.toNat == 47 && decide (p ≥ start) && c.toNat == 42
  let close1 := b.toNat == 42 && decide (p ≥ start) && c.toNat == 47
  (if open1 || close1 then p + 2 else start,
   if open1 then depth + 1 else if close1 then depth - 1 else depth)

def scanBlock : Bytes → Nat → Nat → Nat → Option Nat
  | [], _, _, _ => none
  | b :: tl, k, start, depth =>
    match tl with
    | [] => none
    | c :: _ =>
      let r := scanStep b c (k + 2) start depth      -- the closure body: new (start, depth)
      if r.2 == 0 then some k else scanBlock tl (k + 1) r.1 r.2

inductive SkipRes where
  | go (s : State)                  -- the `while` loop was left normally
  | err (e : LexErr) (s : State)    -- `return Some(Err(..))` from inside the loop
  | panic
  | fuel
deriving Repr, DecidableEq

/-- `if space_bytes > 0 {self.update_pos(&self.data[..space_bytes]); self.data = &self.data[space_bytes..];}` -/
def skipSpaces (s : State) : Option State :=
  let spaceBytes := match position (fun b => !isSpace b) s.data with | none => s.data.length | some c => c
  if spaceBytes > 0 then
    match sliceTo s.data spaceBytes, sliceFrom s.data spaceBytes with
    | some pre, some rest =>
      match updatePos s.line s.col pre with
      | none => none
      | some (l, c) => some { s with data := rest, line := l, col := c }
    | _, _ => none
  else some s

/-- the `while self.data.len() > 0` loop of `next_token` -/
def skipLoop : Nat → State → SkipRes
  | 0, _ => .fuel
  | f+1, s =>
    if s.data.length == 0 then .go s else
    match skipSpaces s with
    | none => .panic
    | some s1 =>
      if startsWith2 s1.data 47 47 then
        match position (fun b => b.toNat == 10) s1.data with
        | none =>
          match updatePos s1.line s1.col s1.data with
          | none => .panic
          | some (l, c) =>
            if s1.utfErr then .err ⟨l, c, .badUnicode⟩ ⟨[], false, l, c⟩
            else .go ⟨[], false, l, c⟩      -- cleared: the loop condition fails next
        | some lineLen =>
          match sliceFrom s1.data (lineLen + 1) with
          | none => .panic
          | some rest => skipLoop f { s1 with data := rest, line := s1.line + 1, col := 1 }
      else if startsWith2 s1.data 47 42 then
        match scanBlock (s1.data.drop 2) 0 2 1 with
        | some commentBytes =>
          match sliceTo s1.data (4 + commentBytes), sliceFrom s1.data (4 + commentBytes) with
          | some pre, some rest =>
            match updatePos s1.line s1.col pre with
            | none => .panic
            | some (l, c) => skipLoop f { s1 with data := rest, line := l, col := c }
          | _, _ => .panic
        | none =>
          match updatePos s1.line s1.col s1.data with
          | none => .panic
          | some (l, c) =>
            .err ⟨l, c, if s1.utfErr then .badUnicode else .blockComment⟩ ⟨[], false, l, c⟩
      else .go s1

/-- the single-character arms of `do_next` -/
def punct (c : Nat) : Option Tok :=
  if c == 44 then some .sep else if c == 59 then some .term
  else if c == 58 then some .labelMark else if c == 46 then some .dirMark
  else if c == 43 then some .plus else if c == 45 then some .minus
  else if c == 42 then some .mul else if c == 47 then some .div else if c == 37 then some .mod
  else if c == 33 then some .not else if c == 38 then some .band else if c == 124 then some .bor
  else if c == 94 then some .bxor
  else if c == 40 then some .lparen else if c == 41 then some .rparen
  else if c == 91 then some .lbrack else if c == 93 then some .rbrack
  else if c == 123 then some .lbrace else if c == 125 then some .rbrace
  else none

/-- the tail of `do_next`: position the token, advance the column (ASCII fast path) or `update_pos`,
then `self.data = &self.data[n..]` -/
def emit (s : State) (n : Nat) (asciiLn : Bool) (t : Tok) : Step :=
  let pos : Option (Nat × Nat) :=
    if asciiLn then some (s.line, s.col + n)
    else match sliceTo s.data n with
      | none => none
      | some pre => updatePos s.line s.col pre
  match pos with
  | none => .panic
  | some (l, c) =>
    match sliceFrom s.data n with
    | none => .panic
    | some rest => .tok ⟨s.line, s.col, t⟩ { s with data := rest, line := l, col := c }

/-- `let text = &self.data[off..off + len]; match i64::from_str_radix(text, radix) {…}` -/
def lexNumberTail (s : State) (off radix len : Nat) : Step :=
  match slice s.data off (off + len) with
  | none => .panic
  | some text =>
    match i64FromStrRadix text radix with
    | some v => emit s (off + len) true (.num v)
    | none => fail s .badNumber

/-- the number arm -/
def lexNumber (s : State) : Step :=
  let off := if startsWith2 s.data 48 98 || startsWith2 s.data 48 111 || startsWith2 s.data 48 120 then 2 else 0
  let radix := if startsWith2 s.data 48 98 then 2 else if startsWith2 s.data 48 111 then 8
    else if startsWith2 s.data 48 120 then 16 else 10
  match sliceFrom s.data off with
  | none => .panic
  | some rest =>
    match position (fun b => !isDigit radix b) rest with
    | none =>
      if s.utfErr then failRun s
      else if s.data.length < off then .panic      -- `self.data.len() - off`
      else lexNumberTail s off radix (s.data.length - off)
    | some len => lexNumberTail s off radix len

/-- outcome of the three `chars.next()` steps of the character arm: `Ok((n, c))` or `Err(utf_err)` -/
inductive CharRes where
  | ok (n c : Nat)
  | err (utf : Bool)
deriving Repr, DecidableEq

/-- the first one or two `chars.next()` calls: the character or escape written -/
def lexCharFirst (utfErr : Bool) (rest : Bytes) : CharRes :=
  match decodeChar rest with
  | none => .err utfErr
  | some (c, n) =>
    if c == 92 then
      match decodeChar (rest.drop n) with
      | none => .err utfErr
      | some (e, _) =>
        if e == 116 then .ok 2 9 else if e == 110 then .ok 2 10 else if e == 114 then .ok 2 13
        else if e == 34 || e == 39 || e == 92 then .ok 2 e
        else .err false
    else if c == 9 || (decide (32 ≤ c) && decide (c ≤ 126)) || decide (128 ≤ c) then .ok n c
    else .err false

/-- … `.and_then(|v| match chars.next() {…})`: the closing quote -/
def lexCharBody (utfErr : Bool) (rest : Bytes) : CharRes :=
  match lexCharFirst utfErr rest with
  | .err u => .err u
  | .ok n c =>
    match decodeChar (rest.drop n) with
    | none => .err utfErr
    | some (q, _) => if q == 39 then .ok n c else .err false

/-- the character-literal arm -/
def lexChar (s : State) : Step :=
  match sliceFrom s.data 1 with
  | none => .panic
  | some rest =>
    match lexCharBody s.utfErr rest with
    | .ok n c => emit s (1 + n + 1) (decide (c < 128)) (.num (Int.ofNat c))
    | .err utf =>
      if utf then
        match updatePos s.line s.col s.data with
        | none => .panic
        | some (l, c) => .err ⟨l, c, .badUnicode⟩ ⟨[], false, l, c⟩
      else fail s .badCharacter

def isIdentByte (b : UInt8) : Bool :=
  let c := b.toNat
  c == 36 || c == 46 || (decide (48 ≤ c) && decide (c ≤ 57)) || c == 64 ||
  (decide (65 ≤ c) && decide (c ≤ 90)) || c == 95 || (decide (97 ≤ c) && decide (c ≤ 122))

/-- the identifier arm -/
def lexIdent (s : State) : Step :=
  match position (fun b => !isIdentByte b) s.data with
  | none =>
    if s.utfErr then failRun s
    else match sliceTo s.data s.data.length with
      | none => .panic
      | some name => emit s s.data.length true (.ident name)
  | some len =>
    match sliceTo s.data len with
    | none => .panic
    | some name => emit s len true (.ident name)

/-- the bytes at which the string scanner stops -/
def isStrStop (b : UInt8) : Bool :=
  let c := b.toNat
  c == 34 || c == 92 || (decide (c < 32) && c != 9) || c == 127

inductive StrRes where
  | ok (pos : Nat) (escaped : Bytes)   -- `break` with the final `pos`
  | bad                                -- `self.clear(); return Some(Err(BadString))`
  | eof                                -- the `utf_err ? BadUnicode : BadString` return
  | panic
  | fuel
deriving Repr, DecidableEq

/-- `escaped.push_str(&self.data[a..b])` -/
def pushSlice (d : Bytes) (esc : Bytes) (a b : Nat) : Option Bytes :=
  match slice d a b with
  | none => none
  | some t => some (esc ++ t)

/-- outcome of one escape sequence -/
inductive EscRes where
  | next (pos : Nat) (escaped : Bytes)   -- continue the loop
  | bad
  | eof
  | panic
deriving Repr, DecidableEq

/-- `match self.data.as_bytes()[pos + 1] {…}; pos += 2;` — `pos1` is the index of the backslash and at
least three bytes remain from there -/
def strEscape (d : Bytes) (pos1 : Nat) (esc1 : Bytes) : EscRes :=
  match d[pos1 + 1]? with
  | none => .panic
  | some eb =>
    let e := eb.toNat
    if e == 48 then .next (pos1 + 2) (esc1 ++ [0])
    else if e == 116 then .next (pos1 + 2) (esc1 ++ [9])
    else if e == 110 then .next (pos1 + 2) (esc1 ++ [10])
    else if e == 114 then .next (pos1 + 2) (esc1 ++ [13])
    else if e == 34 || e == 39 || e == 92 then .next (pos1 + 2) (esc1 ++ [eb])
    else if e == 117 then
      match d[pos1 + 2]? with
      | none => .panic
      | some gb =>
        if gb.toNat == 123 then
          match sliceFrom d (pos1 + 3) with
          | none => .panic
          | some r3 =>
          match position (fun b => b.toNat == 125) (r3.take 7) with
          | none => .eof
          | some end_ =>
          match slice d (pos1 + 3) (pos1 + 3 + end_) with
          | none => .panic
          | some text =>
          match u32FromHex text with
          | none => .bad
          | some v =>
            -- `.filter(|_| self.data.as_bytes()[pos + 3] != b'+')`
            match d[pos1 + 3]? with
            | none => .panic
            | some pb =>
              if pb.toNat == 43 then .bad
              else if isScalar v then .next (pos1 + end_ + 2 + 2) (esc1 ++ encodeChar v)
              else .bad
        else .bad
    else .bad

/-- the `loop` of the string arm; `d = self.data` -/
def strLoop (d : Bytes) : Nat → Nat → Bytes → StrRes
  | 0, _, _ => .fuel
  | f+1, pos, esc =>
    match sliceFrom d pos with
    | none => .panic
    | some rest =>
    match position isStrStop rest with
    | none => .eof
    | some off =>
    match d[pos + off]? with
    | none => .panic
    | some cb =>
      let c := cb.toNat
      if c < 32 || c ≥ 127 then .bad
      else if c == 92 then
        -- `if off > 0 {escaped.push_str(&self.data[pos..pos + off]); pos += off;}`
        match (if off > 0 then pushSlice d esc pos (pos + off) else some esc) with
        | none => .panic
        | some esc1 =>
        let pos1 := pos + off
        if d.length < pos1 then .panic               -- `self.data.len() - pos`
        else if d.length - pos1 < 3 then .bad
        else
          match strEscape d pos1 esc1 with
          | .next pos2 esc2 => strLoop d f pos2 esc2
          | .bad => .bad
          | .eof => .eof
          | .panic => .panic
      else
        if c != 34 then .panic                        -- `assert_eq!(c, b'"')`
        else
          match (if !esc.isEmpty && off > 0 then pushSlice d esc pos (pos + off) else some esc) with
          | none => .panic
          | some esc1 => .ok (pos + off + 1) esc1

/-- the string arm -/
def lexString (s : State) : Step :=
  match strLoop s.data s.data.length 1 [] with
  | .fuel => .fuel
  | .panic => .panic
  | .bad => fail s .badString
  | .eof => failEof s .badString
  | .ok pos esc =>
    if !esc.isEmpty then emit s pos false (.str esc)
    else if pos < 1 then .panic                       -- `pos - 1`
    else match slice s.data 1 (pos - 1) with
      | none => .panic
      | some body => emit s pos false (.str body)

/-- `self.data.as_bytes()[1] == x` (evaluated only after `self.data.len() >= 2`) -/
def secondIs (d : Bytes) (x : Nat) : Bool :=
  match d[1]? with
  | some b => b.toNat == x
  | none => false

/-- `Tokenizer::do_next`; called with non-empty data only -/
def doNext (s : State) : Step :=
  match s.data[0]? with
  | none => .panic                                    -- `self.data.as_bytes()[0]`
  | some b0 =>
    let c := b0.toNat
    match punct c with
    | some t => emit s 1 true t
    | none =>
      if c == 60 && decide (s.data.length ≥ 2) && secondIs s.data 60 then
        emit s 2 true .shl
      else if c == 62 && decide (s.data.length ≥ 2) && secondIs s.data 62 then
        emit s 2 true .shr
      else if decide (48 ≤ c) && decide (c ≤ 57) then lexNumber s
      else if c == 39 then lexChar s
      else if (decide (65 ≤ c) && decide (c ≤ 90)) || c == 95 || (decide (97 ≤ c) && decide (c ≤ 122)) then lexIdent s
      else if c == 34 then lexString s
      else
        match decodeChar s.data with
        | none => .panic                              -- `self.data.chars().next().unwrap()`
        | some (ch, _) => fail s (.unexpected ch)

/-- `Tokenizer::next_token` (= `Iterator::next` while the look-ahead queue is empty) -/
def nextToken (s : State) : Step :=
  match skipLoop (s.data.length + 1) s with
  | .fuel => .fuel
  | .panic => .panic
  | .err e s1 => .err e s1
  | .go s1 =>
    if !s1.data.isEmpty then
      match doNext s1 with
      | .err e s2 => .err e s2.clear
      | r => r
    else if s1.utfErr then .err ⟨s1.line, s1.col, .badUnicode⟩ { s1 with utfErr := false }
    else .done s1

/-- the result of iterating a `Tokenizer` to exhaustion -/
inductive Out where
  | ok (o : LexOut)
  | panic
  | fuel
deriving Repr, DecidableEq

def Out.push (t : Token) : Out → Out
  | .ok o => .ok { o with toks := t :: o.toks }
  | r => r

/-- iterate `next()` until it yields an error or `None` -/
def run : Nat → State → Out
  | 0, _ => .fuel
  | f+1, s =>
    match nextToken s with
    | .tok t s1 => (run f s1).push t
    | .err e s1 => .ok ⟨[], some e, s1.line, s1.col⟩
    | .done s1 => .ok ⟨[], none, s1.line, s1.col⟩
    | .panic => .panic
    | .fuel => .fuel

/-- `Tokenizer::new(bs)` iterated to exhaustion -/
def tokens (bs : Bytes) : Out := run (bs.length + 2) (State.new bs)

end Trion.Lex
