import TrionModel.Model.Trias
import TrionModel.Model.Map
/-!
# The page-padding loop of `assemble()` replayed on the `MemoryMap` model (C15)

`Model/Trias.lean` renders the loop as the list recursion `padGo`. Here the same Rust statements are written
against `Trion.Map.find` / `Trion.Map.put` (binary search, merge walk and all), with every
`assert_eq!(put(..), Ok(n))`, a panic of `find`, and the model's own iteration bound as explicit error outcomes.
`Lemmas/TriasPad.lean` proves `padMap m = .ok (padAll m)` on every well-formed map, which discharges the
modelling assumption behind `padGo`. Imports only model files.
-/
namespace Trion.Trias
open Trion.Uf2

/-- `assert_eq!(ctx.output_mut().put(a, &BLANK_PAGE[..n]), Ok(n))` -/
def putAssert (ps : Trion.Map.Segs) (a n : Nat) : Except String Trion.Map.Segs :=
  match Trion.Map.put ps a (zeros n) with
  | (.ok k, ps') => if k = n then .ok ps' else .error "assert_eq!(put(..), Ok(n))"
  | (.error _, _) => .error "assert_eq!(put(..), Ok(n))"

/-- `while prev < u32::MAX { if let Some(range) = find(prev + 1, Above) {..; prev = range.get_last()} else {break} }`;
the first argument bounds the number of iterations (the Rust loop is unbounded) -/
def padLoop : Nat → Trion.Map.Segs → Nat → Except String Trion.Map.Segs
  | 0, _, _ => .error "loop bound of the model"
  | fuel + 1, ps, prev =>
    if prev < Trion.Map.u32Max then
      match Trion.Map.find ps (prev + 1) .above with
      | .panic => .error "find"
      | .ok none => .ok ps
      | .ok (some (first, last)) =>
        let off := first % 256
        if off > 0 then
          let base := first - off
          if prev ≥ base then
            match putAssert ps (prev + 1) (first - prev - 1) with
            | .error e => .error e
            | .ok ps' => padLoop fuel ps' last
          else
            match putAssert ps base off with
            | .error e => .error e
            | .ok ps' => padLoop fuel ps' last
        else padLoop fuel ps last
    else .ok ps

/-- `if let Some(first) = find(0, Above) { pad the first page; the loop }` -/
def padMap (ps : Trion.Map.Segs) : Except String Trion.Map.Segs :=
  match Trion.Map.find ps 0 .above with
  | .panic => .error "find"
  | .ok none => .ok ps
  | .ok (some (first, last)) =>
    let off := first % 256
    if off > 0 then
      match putAssert ps (first - off) off with
      | .error e => .error e
      | .ok ps' => padLoop (ps.length + 1) ps' last
    else padLoop (ps.length + 1) ps last

/-! ## the boot2 checksum step on the `MemoryMap` model -/

inductive BootErr where
  /-- "Checksum would overwrite existing data" -/
  | refuse
  /-- "Checksum write failed" (`put` returned an error) -/
  | putFailed
  /-- a Rust panic: `find`/`iter_range` index panics, `u32` subtraction, slice bounds, `copy_from_slice` length -/
  | panic (site : String)
deriving Repr

/-- the loop `for (range, data) in iter_range(FLASH_BASE ..= FLASH_BASE + 0xFF)` over the collected items:
refuse when a range reaches 0x100000FC, else `temp[first..=last].copy_from_slice(data)` -/
def bootFill : List ((Nat × Nat) × List UInt8) → List UInt8 → Except BootErr (List UInt8)
  | [], temp => .ok temp
  | ((first, last), data) :: r, temp =>
    if last ≥ 0x100000FC then .error .refuse
    else if first < 0x10000000 ∨ last < 0x10000000 then .error (.panic "u32 subtraction")
    else
      let a := first - 0x10000000
      let b := last - 0x10000000
      if b < a ∨ temp.length ≤ b then .error (.panic "slice")
      else if data.length ≠ b - a + 1 then .error (.panic "copy_from_slice")
      else bootFill r (temp.take a ++ data ++ temp.drop (b + 1))

/-- step 2 of `assemble()` on the map model -/
def bootMap (ps : Trion.Map.Segs) : Except BootErr Trion.Map.Segs :=
  match Trion.Map.find ps 0x10000000 .exact with
  | .panic => .error (.panic "find")
  | .ok none => .ok ps
  | .ok (some _) =>
    match Trion.Map.iterRange ps 0x10000000 0x100000FF with
    | .panic => .error (.panic "iter_range")
    | .ok items =>
      match bootFill items (zeros 252) with
      | .error e => .error e
      | .ok temp =>
        match Trion.Map.put ps 0x100000FC (le32 (crc32 temp)) with
        | (.ok _, ps') => .ok ps'
        | (.error _, _) => .error .putFailed

end Trion.Trias
