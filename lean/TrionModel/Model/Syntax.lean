/-!
# Shared syntax types of the models (import-free)

Mirrors `src/text/token/mod.rs` (`TokenValue`, `Token`, `TokenErrorKind`), `src/text/operator.rs`
(`BinOp`, `BinOpGroup`) and `src/text/parse/mod.rs` (`Argument`, `ElementValue`, `ParseErrorKind`).

Conventions used by every model:
* text is bytes: identifier names and string payloads are `Bytes = List UInt8` (the UTF-8 encoding);
* `Number::Integer(i64)` is an `Int` together with the invariant `-2^63 ≤ v < 2^63` where it matters;
* the ten binary `Argument` variants are one constructor `Arg.bin op lhs rhs` (the Rust code treats
  them uniformly through `get_type()`); `Vec<Argument>` is the mutual inductive `Args`, which gives
  structural recursion for free.
-/
namespace Trion

abbrev Bytes := List UInt8

/-- bytes of an ASCII Lean string literal (for names in models and tests); this form reduces under
`decide`/`rfl`, unlike `String.toUTF8` -/
def bytesOf (s : String) : Bytes := s.toList.map (fun c => c.toNat.toUInt8)

/-- `BinOp` of operator.rs -/
inductive BinOp where
  | add | sub | mul | div | mod | band | bor | bxor | shl | shr
deriving DecidableEq, Repr, Inhabited

/-- `BinOpGroup`, lowest precedence first (the derived `Ord` of the Rust enum) -/
inductive BinOpGroup where
  | bitOr | bitXor | bitAnd | shift | addSub | divMul
deriving DecidableEq, Repr, Inhabited

def BinOpGroup.toNat : BinOpGroup → Nat
  | .bitOr => 0 | .bitXor => 1 | .bitAnd => 2 | .shift => 3 | .addSub => 4 | .divMul => 5

/-- `BinOpGroup::higher` -/
def BinOpGroup.higher : BinOpGroup → Option BinOpGroup
  | .bitOr => some .bitXor | .bitXor => some .bitAnd | .bitAnd => some .shift
  | .shift => some .addSub | .addSub => some .divMul | .divMul => none

/-- `From<BinOp> for BinOpGroup` -/
def BinOp.group : BinOp → BinOpGroup
  | .mul | .div | .mod => .divMul
  | .add | .sub => .addSub
  | .shl | .shr => .shift
  | .band => .bitAnd
  | .bxor => .bitXor
  | .bor => .bitOr

/-- `TokenValue` -/
inductive Tok where
  | sep | term | labelMark | dirMark
  | plus | minus | mul | div | mod
  | not | band | bor | bxor | shl | shr
  | num (v : Int)
  | ident (s : Bytes)
  | str (s : Bytes)
  | lparen | rparen | lbrack | rbrack | lbrace | rbrace
deriving DecidableEq, Repr, Inhabited

/-- `BinOp::decode` -/
def Tok.binOp : Tok → Option BinOp
  | .plus => some .add | .minus => some .sub | .mul => some .mul | .div => some .div | .mod => some .mod
  | .band => some .band | .bor => some .bor | .bxor => some .bxor | .shl => some .shl | .shr => some .shr
  | _ => none

/-- `Token = Positioned<TokenValue>`; line and column are 1-based, `Nat` (the `u32` saturation of
inputs ≥ 4 GiB is outside the model) -/
structure Token where
  line : Nat
  col : Nat
  val : Tok
deriving DecidableEq, Repr, Inhabited

/-- `TokenErrorKind` (`Invalid` is never produced by the code) -/
inductive LexErrKind where
  | badUnicode | blockComment | badNumber | badCharacter | badString
  | unexpected (c : Nat)   -- the scalar value of the offending character
deriving DecidableEq, Repr, Inhabited

structure LexErr where
  line : Nat
  col : Nat
  kind : LexErrKind
deriving DecidableEq, Repr, Inhabited

/-- What a `Tokenizer` yields when iterated to exhaustion: the ok tokens in order, the error (if any)
that ended the stream, and the tokenizer's `(get_line, get_column)` once nothing is left — the position
the parser reports for `<eof>` errors. After an error the tokenizer position is the error's position.
This is the interface between the lexer model (`Lex`) and the parser model (`Parse`). -/
structure LexOut where
  toks : List Token
  err : Option LexErr
  endLine : Nat
  endCol : Nat
deriving DecidableEq, Repr, Inhabited

mutual
/-- `Argument` -/
inductive Arg where
  | const (v : Int)
  | ident (s : Bytes)
  | str (s : Bytes)
  | bin (op : BinOp) (lhs rhs : Arg)
  | neg (a : Arg)
  | not (a : Arg)
  | addr (a : Arg)
  | seq (as : Args)
  | func (name : Bytes) (as : Args)
/-- `Vec<Argument>` -/
inductive Args where
  | nil
  | cons (a : Arg) (as : Args)
end

deriving instance Repr for Arg
deriving instance Repr for Args
deriving instance Inhabited for Arg
deriving instance Inhabited for Args

def Args.toList : Args → List Arg
  | .nil => []
  | .cons a as => a :: as.toList

def Args.ofList : List Arg → Args
  | [] => .nil
  | a :: as => .cons a (Args.ofList as)

def Args.length : Args → Nat
  | .nil => 0
  | .cons _ as => as.length + 1

/-- `ArgumentType` in declaration order (its numeric value) -/
inductive ArgTy where
  | const | ident | str
  | add | neg | sub | mul | div | mod
  | not | band | bor | bxor | shl | shr
  | addr | seq | func
deriving DecidableEq, Repr, Inhabited

def BinOp.argTy : BinOp → ArgTy
  | .add => .add | .sub => .sub | .mul => .mul | .div => .div | .mod => .mod
  | .band => .band | .bor => .bor | .bxor => .bxor | .shl => .shl | .shr => .shr

/-- `Argument::get_type` -/
def Arg.ty : Arg → ArgTy
  | .const _ => .const | .ident _ => .ident | .str _ => .str
  | .bin op _ _ => op.argTy
  | .neg _ => .neg | .not _ => .not | .addr _ => .addr | .seq _ => .seq | .func _ _ => .func

/-- `ElementValue` with its position (`Element = Positioned<ElementValue>`) -/
inductive ElemVal where
  | label (name : Bytes)
  | directive (name : Bytes) (args : Args)
  | instruction (name : Bytes) (args : Args)
deriving Repr, Inhabited

structure Element where
  line : Nat
  col : Nat
  val : ElemVal
deriving Repr, Inhabited

/-- `ParseErrorKind`; `expected` carries the two static description strings as bytes -/
inductive ParseErrKind where
  | token (e : LexErr)
  | expected (expect have_ : String)
deriving Repr, Inhabited

structure ParseErr where
  line : Nat
  col : Nat
  kind : ParseErrKind
deriving Repr, Inhabited

/-- signed 64-bit range -/
def i64Min : Int := -9223372036854775808
def i64Max : Int := 9223372036854775807
def inI64 (v : Int) : Bool := decide (i64Min ≤ v) && decide (v ≤ i64Max)

end Trion
