import TrionModel.Model.Instr
/-!
# Model of `src/bin/disassembler.rs` (`tridas`), Layer B

`listing` mirrors `main`: the work-list traversal from `BASE = 0x20000000` (`queries : BTreeSet`, `instrs : BTreeMap`,
`branches : BTreeSet` are strictly sorted lists, so iteration order is list order), then the printing loop.

The codec is a parameter until the decoder / Display models of the other components are merged:
`decode : List UInt8 → Option (Nat × Instr)` (`none` = `Err`, which the code `unwrap()`s).  `getBranch` and
`getReturns` mirror `Instruction::get_branch` / `get_returns` of `src/arm6m/asm.rs`.

Panic sites: the `unwrap()` on a decode error; `BASE + pos as u32` and `addr + result.0 as u32` under
overflow-checks.  (`buff.len() as u32` truncation for files ≥ 4 GiB is outside the model.)
-/
namespace Trion.Tridas

inductive Panic where
  | decode      -- `Instruction::decode(..).unwrap()`
  | overflow    -- `BASE + pos as u32` / `addr + result.0 as u32`
  | fuel        -- the model's loop bound was too small
deriving DecidableEq, Repr, Inhabited

def BASE : Nat := 0x20000000
def two32 : Nat := 4294967296

/-- reduce to `u32` -/
def wrap32 (x : Int) : Nat := (x % 4294967296).toNat

/-- `Instruction::get_branch` -/
def getBranch (i : Instr) (addr : Nat) : Option Nat :=
  if addr % 2 = 0 then
    match i with
    | .b _ off => if off % 2 = 0 then some (wrap32 ((addr : Int) + 4 + off)) else none
    | .bl off => if off % 2 = 0 then some (wrap32 ((addr : Int) + 4 + off)) else none
    | _ => none
  else none

/-- `Instruction::get_returns` -/
def getReturns : Instr → Bool
  | .add _ dst _ _ => decide (dst ≠ Reg.pc)
  | .b cond _ => decide (cond ≠ Cond.always)
  | .bx _ => false
  | .bkpt _ => false
  | .mov _ dst _ => decide (dst ≠ Reg.pc)
  | .pop regs => decide (regs.val / 32768 % 2 = 0)
  | .sub _ dst _ _ => decide (dst ≠ Reg.pc)
  | .udf _ => false
  | .udfw _ => false
  | _ => true

/-- `BTreeSet::insert` on a strictly ascending list -/
def sinsert (x : Nat) : List Nat → List Nat
  | [] => [x]
  | y :: ys => if x < y then x :: y :: ys else if x = y then y :: ys else y :: sinsert x ys

/-- `BTreeSet::remove` -/
def sremove (x : Nat) : List Nat → List Nat
  | [] => []
  | y :: ys => if x = y then ys else y :: sremove x ys

/-- an entry of `instrs`: address ↦ (instruction, address after it) -/
structure Entry where
  addr : Nat
  instr : Instr
  after : Nat
deriving DecidableEq, Repr, Inhabited

/-- `BTreeMap::insert` (replaces the value of an existing key) -/
def minsert (e : Entry) : List Entry → List Entry
  | [] => [e]
  | y :: ys => if e.addr < y.addr then e :: y :: ys else if e.addr = y.addr then e :: ys else y :: minsert e ys

/-- `BTreeMap::contains_key` -/
def mcontains (a : Nat) (m : List Entry) : Bool := m.any (fun e => e.addr == a)

structure St where
  queries : List Nat
  instrs : List Entry
  branches : List Nat
deriving Repr, Inhabited

abbrev Decoder := List UInt8 → Option (Nat × Instr)

/-- `queries` after the instruction `i` decoded at `addr`: `queries.remove(&addr)`, then
`if dst != addr && !instrs.contains_key(&addr) {queries.insert(dst)}` -/
def nextQueries (i : Instr) (addr : Nat) (st : St) : List Nat :=
  match getBranch i addr with
  | some dst => if dst ≠ addr ∧ mcontains addr st.instrs = false then sinsert dst (sremove addr st.queries)
      else sremove addr st.queries
  | none => sremove addr st.queries

/-- `branches.insert(dst)` -/
def nextBranches (i : Instr) (addr : Nat) (st : St) : List Nat :=
  match getBranch i addr with
  | some dst => sinsert dst st.branches
  | none => st.branches

/-- the inner `while pos < buff.len()` loop -/
def walk (decode : Decoder) (buf : List UInt8) : Nat → Nat → St → Except Panic St
  | 0, pos, st => if pos < buf.length then .error .fuel else .ok st
  | fuel + 1, pos, st =>
    if pos < buf.length then
      match decode (buf.drop pos) with
      | none => .error .decode
      | some (n, i) =>
        if two32 ≤ BASE + pos then .error .overflow else
        let addr := BASE + pos
        if two32 ≤ addr + n then .error .overflow else
        let st' : St := { queries := nextQueries i addr st, instrs := minsert ⟨addr, i, addr + n⟩ st.instrs,
                          branches := nextBranches i addr st }
        if getReturns i then walk decode buf fuel (pos + n) st' else .ok st'
    else .ok st

/-- the outer `while let Some(&start) = queries.iter().next()` loop -/
def outer (decode : Decoder) (buf : List UInt8) : Nat → St → Except Panic St
  | 0, st => match st.queries with
    | [] => .ok st
    | _ :: _ => .error .fuel
  | fuel + 1, st =>
    match st.queries with
    | [] => .ok st
    | start :: rest =>
      let st := { st with queries := rest }
      if BASE ≤ start ∧ start - BASE < buf.length then
        match walk decode buf buf.length (start - BASE) st with
        | .error p => .error p
        | .ok st => outer decode buf fuel st
      else outer decode buf fuel st

inductive Line where
  | header                       -- `.addr 0x20000000;`
  | blank
  | label (addr : Nat)           -- `l_XXXXXXXX:`
  | instr (addr : Nat) (i : Instr)   -- `\t<instr.at(addr)>`
deriving DecidableEq, Repr, Inhabited

/-- the printing loop; `space`, `last` as in the code -/
def render (branches : List Nat) : List Entry → Bool → Nat → List Line
  | [], _, _ => []
  | e :: r, space, last =>
    let gap := decide (e.addr ≠ last)
    let space := if gap then false else space
    (if gap then [Line.blank] else []) ++
    (if branches.contains e.addr then (if space then [Line.blank] else []) ++ [Line.label e.addr] else []) ++
    Line.instr e.addr e.instr :: render branches r (!getReturns e.instr) e.after

/-- the traversal: final `(instrs, branches)` -/
def traverse (decode : Decoder) (buf : List UInt8) : Except Panic St :=
  outer decode buf (2 * buf.length + 2) { queries := [BASE], instrs := [], branches := [] }

/-- `main` after reading the file -/
def listing (decode : Decoder) (buf : List UInt8) : Except Panic (List Line) :=
  match traverse decode buf with
  | .error p => .error p
  | .ok st => .ok (Line.header :: render st.branches st.instrs false BASE)

end Trion.Tridas
