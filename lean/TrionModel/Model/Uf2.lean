/-!
# Model of `src/uf2/write.rs` (Layer B) and an independent UF2 reader (Layer A)

Import-free so that the driver executable links.

## Layer B — `Uf2Write`

`usize` is 64 bit (`usize::MAX = 2^64-1 = 18446744073709551615`, `isize::MAX = 2^63-1 =
9223372036854775807`), `u32::MAX = 4294967295`. Constants of `uf2/mod.rs` are written as literals:
`BLOCK_LEN = 512`, `DATA_START = 32`, `MAX_DATA_LEN = 476`, `PADDING_END = 508`,
`MAGIC = 0x0A324655`, `HDR_MAGIC = 0x9E5D5157`, `FTR_MAGIC = 0x0AB16F30`, `FLAG_NO_FLASH = 1`,
`FLAG_FAMILY_ID = 0x2000`.

State. The writer holds an exclusive borrow of its destination until it is dropped, so the destination
is observable only after `Drop`. The model keeps

* `out`   — the bytes of the destination from the writer's start position up to `pos` (everything the
            writer has produced so far); the four bytes 0x18..0x1B of a block (total block count) are
            *not* written by `encode` (they keep the destination's previous content until `Drop`
            patches them) — the model stores 0 there, which no safe client can observe;
* `pos`   — `self.pos` (absolute: for `new_vec` it starts at the vector's existing length);
* `len`   — `dst.len()` (constant for the slice destination, grown by `resize` for the vector);
* `count` — `self.count`;
* `isVec` — which `Data` variant. `cap` is `some len` for the slice, `none` for the vector.

Indexes of `Drop` are taken relative to `out`; an index below the writer's start is a panic outcome of
the model (unreachable, see `Inv` in `Lemmas/Uf2.lean`).

Every logic-level panic site is an explicit `.panic`: `% 0`, `/ 0`, `chunks(0)`, usize/u32 arithmetic
overflow (overflow-checks are on in the harness build), slice indexing in `encode` and `drop`,
`debug_assert!(i < block_cnt)`. Allocation failure of `Vec::resize` is outside the model.
-/
namespace Trion.Uf2

/-- `u32::to_le_bytes` (of the value truncated to 32 bits, as `as u32` would) -/
def le32 (n : Nat) : List UInt8 :=
  [(n % 256).toUInt8, (n / 256 % 256).toUInt8, (n / 65536 % 256).toUInt8, (n / 16777216 % 256).toUInt8]

def zeros (n : Nat) : List UInt8 := List.replicate n 0

inductive NewErr where
  | blockSize (blockSize : Nat)
  | alignment (align blockSize : Nat)
deriving DecidableEq, Repr

inductive WriteErr where
  | overflow (need have_ : Nat)
  | alignment (len align : Nat)
  | address (need have_ : Nat)
  | blockCount (need have_ : Nat)
deriving DecidableEq, Repr

/-- outcome of a fallible operation of the writer: value, `Err(WriteError)`, or a Rust panic -/
inductive Res (α : Type) where
  | ok (a : α)
  | err (e : WriteErr)
  | panic (site : String)
deriving Repr

structure Cfg where
  /-- `block_size` (payload size) -/
  ps : Nat
  /-- `align` -/
  al : Nat
  /-- `Info::BoardFamily(fid)` / `Info::Unused` (`Info::FileSize` is never constructed) -/
  fam : Option Nat
deriving DecidableEq, Repr

structure St where
  cfg : Cfg
  out : List UInt8
  pos : Nat
  count : Nat
  len : Nat
  isVec : Bool
deriving DecidableEq, Repr

def St.cap (st : St) : Option Nat := if st.isVec then none else some st.len

/-- the two identical guards at the head of `new` and `new_vec` -/
def checkCfg (ps al : Nat) : Except NewErr Unit :=
  if ps = 0 ∨ ps > 476 then .error (.blockSize ps)
  else if al = 0 ∨ ps % al ≠ 0 then .error (.alignment al ps)
  else .ok ()

/-- `Uf2Write::new(family_id, block_size, align, dst)` with `dst.len() = cap` -/
def new (fam : Option Nat) (ps al cap : Nat) : Except NewErr St :=
  match checkCfg ps al with
  | .error e => .error e
  | .ok () => .ok { cfg := ⟨ps, al, fam⟩, out := [], pos := 0, count := 0, len := cap, isVec := false }

/-- `Uf2Write::new_vec(family_id, block_size, align, dst)` with `dst.len() = pre` -/
def newVec (fam : Option Nat) (ps al pre : Nat) : Except NewErr St :=
  match checkCfg ps al with
  | .error e => .error e
  | .ok () => .ok { cfg := ⟨ps, al, fam⟩, out := [], pos := pre, count := 0, len := pre, isVec := true }

/-- `usize::saturating_add` -/
def satAdd64 (a b : Nat) : Nat := if a + b > 18446744073709551615 then 18446744073709551615 else a + b
/-- `u32::saturating_add` -/
def satAdd32 (a b : Nat) : Nat := if a + b > 4294967295 then 4294967295 else a + b

/-- `Data::capacity` -/
def capacity (st : St) : Nat := if st.isVec then 9223372036854775807 else st.len

/-- `Data::check_write(&mut self.pos, len)` -/
def checkWrite (st : St) (n : Nat) : Res St :=
  if st.len < st.pos then .panic "check_write: dst.len() - pos"
  else if st.isVec then
    if st.len - st.pos < n then
      if 9223372036854775807 < st.pos then .panic "check_write: isize::MAX - pos"
      else if 9223372036854775807 - st.pos < n then
        .err (.overflow (satAdd64 st.pos n) 9223372036854775807)
      else .ok { st with len := st.pos + n }      -- `dst.resize(pos + len, 0)`
    else .ok st
  else
    if st.len - st.pos < n then .err (.overflow (satAdd64 (st.len - st.pos) n) st.len)
    else .ok st

def flagsOf (cfg : Cfg) (noFlash : Bool) : Nat :=
  (if noFlash then 1 else 0) + (if cfg.fam.isSome then 8192 else 0)

def infoOf (cfg : Cfg) : Nat := match cfg.fam with | none => 0 | some f => f

/-- the first 24 bytes of a block (up to the total-count field) -/
def blockHead (cfg : Cfg) (addr blockLen count : Nat) (noFlash : Bool) : List UInt8 :=
  le32 0x0A324655 ++ le32 0x9E5D5157 ++ le32 (flagsOf cfg noFlash) ++ le32 addr ++ le32 blockLen ++ le32 count

/-- bytes 0x1C..0x200 of a block: family id / info, data, zero fill to 0x1FC, final magic -/
def blockTail (cfg : Cfg) (block : List UInt8) : List UInt8 :=
  le32 (infoOf cfg) ++ (block ++ zeros (476 - block.length)) ++ le32 0x0AB16F30

/-- the 512 bytes that `encode` (and, for `total`, `Drop`) leave in the destination -/
def encodeBlock (cfg : Cfg) (addr : Nat) (block : List UInt8) (blockLen count total : Nat) (noFlash : Bool) :
    List UInt8 :=
  blockHead cfg addr blockLen count noFlash ++ le32 total ++ blockTail cfg block

/-- `Uf2Write::encode` -/
def encode (st : St) (addr : Nat) (block : List UInt8) (blockLen : Nat) (noFlash : Bool) : Res St :=
  if st.pos + 512 > 18446744073709551615 then .panic "encode: pos + BLOCK_LEN"
  else if st.len < st.pos + 512 then .panic "encode: dst[pos..pos + BLOCK_LEN]"
  else if block.length > 476 then .panic "encode: dst[data_end..PADDING_END]"
  else if st.count + 1 > 4294967295 then .panic "encode: count += 1"
  else .ok { st with out := st.out ++ encodeBlock st.cfg addr block blockLen st.count 0 noFlash,
                     pos := st.pos + 512, count := st.count + 1 }

/-- `Uf2Write::write` -/
def write (st : St) (addr : Nat) (block : List UInt8) (noFlash : Bool) : St × Res Unit :=
  if block.isEmpty then (st, .ok ())
  else if st.cfg.al = 0 then (st, .panic "write: len % align")
  else if block.length % st.cfg.al ≠ 0 then
    (st, .err (.alignment block.length (block.length % st.cfg.al)))
  else if block.length > st.cfg.ps then (st, .err (.overflow block.length st.cfg.ps))
  -- "same bound as `write_all`: the final count must also be storable"
  else if st.count = 4294967295 then (st, .err (.blockCount 1 0))
  else match checkWrite st 512 with
    | .err e => (st, .err e)
    | .panic s => (st, .panic s)
    | .ok st1 => match encode st1 addr block (st.cfg.ps % 4294967296) noFlash with
      | .ok st2 => (st2, .ok ())
      | .err e => (st1, .err e)
      | .panic s => (st1, .panic s)

/-- `slice::chunks(size)` for `size ≥ 1` (fuel = length of the data) -/
def chunksAux {α : Type} (size : Nat) : Nat → List α → List (List α)
  | 0, _ => []
  | fuel + 1, d => if d.isEmpty then [] else d.take size :: chunksAux size fuel (d.drop size)

def chunks {α : Type} (size : Nat) (d : List α) : List (List α) := chunksAux size d.length d

/-- body of the `for (i, block) in data.chunks(block_size).enumerate()` loop of `write_all` -/
def loopBody (addr aligned blockCnt : Nat) (noFlash : Bool) (i : Nat) (block : List UInt8) (st : St) : Res St :=
  if ¬ i < blockCnt then .panic "write_all: debug_assert!(i < block_cnt)"
  else if i * st.cfg.ps > 18446744073709551615 then .panic "write_all: i * block_size"
  else if ¬ i < blockCnt - 1 ∧ aligned < i * st.cfg.ps then .panic "write_all: aligned - i * block_size"
  else if addr + (i * st.cfg.ps) % 4294967296 > 4294967295 then .panic "write_all: addr + i * block_size"
  else
    let blockLen := if i < blockCnt - 1 then st.cfg.ps % 4294967296 else (aligned - i * st.cfg.ps) % 4294967296
    encode st (addr + (i * st.cfg.ps) % 4294967296) block blockLen noFlash

/-- the loop itself (kept separate from its body so that Lean's equation lemmas stay small) -/
def writeLoop (addr aligned blockCnt : Nat) (noFlash : Bool) : Nat → List (List UInt8) → St → Res St
  | _, [], st => .ok st
  | i, block :: rest, st =>
    match loopBody addr aligned blockCnt noFlash i block st with
    | .ok st' => writeLoop addr aligned blockCnt noFlash (i + 1) rest st'
    | .err e => .err e
    | .panic s => .panic s

/-- `Uf2Write::write_all` -/
def writeAll (st : St) (addr : Nat) (data : List UInt8) (noFlash : Bool) : St × Res Nat :=
  if data.isEmpty then (st, .ok 0)
  else if st.cfg.al = 0 then (st, .panic "write_all: len % align")
  else
    let misAlign := data.length % st.cfg.al
    if misAlign ≠ 0 ∧ 18446744073709551615 - data.length < st.cfg.al - misAlign then
      (st, .err (.alignment data.length st.cfg.al))
    else
      let aligned := if misAlign ≠ 0 then data.length - misAlign + st.cfg.al else data.length
      -- `usize::try_from(u32::MAX - addr)` cannot fail on a 64-bit target
      if 4294967295 - addr < aligned - 1 then
        (st, .err (.address aligned (satAdd32 (4294967295 - addr) 1)))
      else if st.cfg.ps = 0 then (st, .panic "write_all: aligned / block_size")
      else
        let blockCnt := aligned / st.cfg.ps + (if aligned % st.cfg.ps > 0 then 1 else 0)
        if blockCnt > 4294967295 ∨ 4294967295 - st.count < blockCnt then
          (st, .err (.blockCount blockCnt (4294967295 - st.count)))
        else if blockCnt * 512 > 18446744073709551615 then
          (st, .err (.overflow 18446744073709551615 (capacity st)))
        else match checkWrite st (blockCnt * 512) with
          | .err e => (st, .err e)
          | .panic s => (st, .panic s)
          | .ok st1 => match writeLoop addr aligned blockCnt noFlash 0 (chunks st.cfg.ps data) st1 with
            | .ok st2 => (st2, .ok blockCnt)
            | .err e => (st1, .err e)
            | .panic s => (st1, .panic s)

/-- `impl Drop`: iteration `i = count - rem` of `for i in 0..self.count`, indexes relative to `out` -/
def finishLoop (total : Nat) : Nat → List UInt8 → Res (List UInt8)
  | 0, out => .ok out
  | rem + 1, out =>
    if out.length < 512 * (rem + 1) then .panic "drop: pos - BLOCK_LEN * (count - i)"
    else
      let base := out.length - 512 * (rem + 1)
      if out.length < base + 28 then .panic "drop: dst[base + 0x18..base + 0x1C]"
      else finishLoop total rem (out.take (base + 24) ++ le32 total ++ out.drop (base + 28))

/-- dropping the writer: the destination's written part afterwards -/
def finish (st : St) : Res (List UInt8) := finishLoop st.count st.count st.out

/-! ### histories -/

inductive Op where
  | write (addr : Nat) (data : List UInt8) (noFlash : Bool)
  | writeAll (addr : Nat) (data : List UInt8) (noFlash : Bool)
deriving DecidableEq, Repr

def Op.addr : Op → Nat | .write a _ _ => a | .writeAll a _ _ => a
def Op.data : Op → List UInt8 | .write _ d _ => d | .writeAll _ d _ => d

/-- result of one operation: `Ok(())`/`Ok(n)` as `ok n` (`n = 0` for `write`) -/
def step (st : St) : Op → St × Res Nat
  | .write a d nf => match write st a d nf with
    | (st', .ok ()) => (st', .ok 0)
    | (st', .err e) => (st', .err e)
    | (st', .panic s) => (st', .panic s)
  | .writeAll a d nf => writeAll st a d nf

def run (st : St) : List Op → St × List (Res Nat)
  | [] => (st, [])
  | op :: ops =>
    let (st1, r) := step st op
    let (st2, rs) := run st1 ops
    (st2, r :: rs)

/-! ## Layer A — an independent UF2 reader -/

structure Block where
  flags : Nat
  addr : Nat
  psize : Nat
  blockNo : Nat
  numBlocks : Nat
  fam : Nat
  /-- the whole 476-byte data area -/
  data : List UInt8
deriving DecidableEq, Repr

/-- little-endian 32-bit word at the head of a byte list -/
def rd32 : List UInt8 → Nat
  | a :: b :: c :: d :: _ => a.toNat + 256 * b.toNat + 65536 * c.toNat + 16777216 * d.toNat
  | _ => 0

/-- one 512-byte block: the three magic numbers must be present and the payload size at most 476 -/
def readBlock (b : List UInt8) : Option Block :=
  if b.length = 512 ∧ rd32 b = 0x0A324655 ∧ rd32 (b.drop 4) = 0x9E5D5157 ∧ rd32 (b.drop 508) = 0x0AB16F30
      ∧ rd32 (b.drop 16) ≤ 476 then
    some { flags := rd32 (b.drop 8), addr := rd32 (b.drop 12), psize := rd32 (b.drop 16),
           blockNo := rd32 (b.drop 20), numBlocks := rd32 (b.drop 24), fam := rd32 (b.drop 28),
           data := (b.drop 32).take 476 }
  else none

def readN : Nat → List UInt8 → Option (List Block)
  | 0, _ => some []
  | n + 1, bs => match readBlock (bs.take 512) with
    | none => none
    | some b => match readN n (bs.drop 512) with
      | none => none
      | some r => some (b :: r)

/-- a UF2 file is a whole number of well-formed 512-byte blocks -/
def read (bs : List UInt8) : Option (List Block) :=
  if bs.length % 512 = 0 then readN (bs.length / 512) bs else none

/-- the byte a block supplies for address `a` (addresses are natural numbers, no wrap-around) -/
def Block.at (b : Block) (a : Nat) : Option UInt8 :=
  if b.addr ≤ a ∧ a < b.addr + b.psize then b.data[a - b.addr]? else none

/-- the memory image a loader obtains by storing `psize` bytes of every block at its target address,
in file order (a later block wins) -/
def image : List Block → Nat → Option UInt8
  | [], _ => none
  | b :: r, a => match image r a with
    | some v => some v
    | none => b.at a

end Trion.Uf2
