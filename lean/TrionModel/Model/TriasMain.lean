import TrionModel.Model.Asm
import TrionModel.Model.Trias
/-!
# Model of the `trias` executable from its arguments to the output file (`src/bin/assembler.rs`, `main` + `assemble`)

`Model/Trias.lean` starts where the output map is final. This file adds what lies in front of it: `main` reads
the source file, `assemble()` runs `Context::assemble`, `close_segment`, `finalize` (`Asm.run`), returns `false`
when the close or `finalize` fails, and only otherwise post-processes the map (`Trias.post`); `main` opens /
creates / truncates the output file ONLY when `assemble()` returned `true`.

`mainOut fs main` is the effect of `trias <main> <out>` on the output file:
`written f` — the file is created (or opened) and afterwards holds exactly `f`; every other outcome leaves the
file system untouched (`refused`: `assemble()` returned `false`; `aborted`: the process panicked before the
`if assemble(..)` — `open(path).unwrap()` on a missing source, or a panic of the library).
-/
namespace Trion.Trias
open Trion

inductive Refusal where
  | asmFailed          -- `close_segment` failed or `finalize` returned false (diagnostics were printed)
  | post (m : Msg)     -- the post-processing refused: empty output, checksum word occupied, UF2 write error
deriving Repr

inductive Abort where
  | noMain             -- `OpenOptions::open(path).unwrap()` on a missing source file
  | panic              -- a panic inside the library or the post-processing
  | fuel               -- outside the model: include depth > 64 (K2)
  | loop               -- outside the model: task-loop bound
deriving Repr

inductive MainOut where
  | written (f : List UInt8)
  | refused (r : Refusal)
  | aborted (a : Abort)
deriving Repr

/-- `assemble(&mut buff, path)` of `src/bin/assembler.rs` after a finished run -/
def ofOutcome (o : Asm.Outcome) : MainOut :=
  if o.success then
    match post o.image with
    | .ok f => .written f
    | .error (.panic _) => .aborted .panic
    | .error e => .refused (.post e)
  else .refused .asmFailed

/-- `trias <main> <out>` -/
def mainOut (fs : Bytes → Option Bytes) (main : Bytes) : MainOut :=
  match Asm.run fs main with
  | .done o => ofOutcome o
  | .noMain => .aborted .noMain
  | .panic => .aborted .panic
  | .fuel => .aborted .fuel
  | .loop => .aborted .loop

/-- the content of the output file afterwards, given what it held before (`none` = did not exist) -/
def fileAfter (before : Option (List UInt8)) : MainOut → Option (List UInt8)
  | .written f => some f
  | _ => before

end Trion.Trias
