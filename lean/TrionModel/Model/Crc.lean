/-!
# Model of `src/uf2/crc.rs` (Layer B) and the bit-serial CRC-32/MPEG-2 register (Layer A)

Import-free so that the driver executable links.

* `Spec.*`   : the specification — an MSB-first shift register with polynomial 0x04C11DB7,
               initial value 0xFFFFFFFF, no reflection, no final XOR.
* `buildTable`, `update`, `updateSlice` : mirror `Crc::TABLE`, `Crc::update`, `Crc::update_slice`.
-/
namespace Trion.Crc

abbrev W := BitVec 32

/-- `Crc::POLYNOMIAL` -/
def poly : W := 0x04C11DB7#32
/-- `Crc::new()` -/
def init : W := 0xFFFFFFFF#32

namespace Spec
/-- one bit time of the MSB-first register -/
def step1 (x : W) : W := if x.msb then (x <<< 1) ^^^ poly else x <<< 1

def stepN : Nat → W → W
  | 0, x => x
  | n+1, x => stepN n (step1 x)

/-- feed one byte: XOR it into the top byte, then clock 8 times -/
def byte (crc : W) (b : BitVec 8) : W := stepN 8 (crc ^^^ (b.zeroExtend 32 <<< 24))

/-- CRC-32/MPEG-2 register contents after feeding `bs` into state `s` -/
def run (s : W) (bs : List (BitVec 8)) : W := bs.foldl byte s

/-- the checksum of a byte string -/
def crc (bs : List (BitVec 8)) : W := run init bs
end Spec

/-- `Crc::TABLE`: built by doubling exactly as the `const` block in crc.rs does
(`table[1] = POLY; for pos in (2..256).step_by(2) { prev = table[pos>>1]; curr = prev<<1 ^ (msb? POLY:0);
table[pos] = curr; table[pos+1] = curr ^ POLY }`). -/
def buildTable : Array W := Id.run do
  let mut t : Array W := Array.replicate 256 0
  t := t.set! 1 poly
  for k in [1:128] do
    let pos := 2 * k
    let prev := t[pos >>> 1]!
    let curr := (prev <<< 1) ^^^ (if prev.msb then poly else 0)
    t := t.set! pos curr
    t := t.set! (pos + 1) (curr ^^^ poly)
  return t

def table : Array W := buildTable

/-- `Crc::update`: `self.0 = (self.0 << 8) ^ TABLE[(value ^ (self.0 >> 24) as u8) as usize]` -/
def update (crc : W) (b : BitVec 8) : W :=
  (crc <<< 8) ^^^ table[(b ^^^ (crc >>> 24).truncate 8).toNat]!

/-- `Crc::update_slice` -/
def updateSlice (crc : W) (bs : List (BitVec 8)) : W := bs.foldl update crc

/-- `Crc::new()` + `update_slice` + `get_value` -/
def crc (bs : List (BitVec 8)) : W := updateSlice init bs

end Trion.Crc
